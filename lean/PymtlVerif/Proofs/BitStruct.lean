import PymtlVerif.Model.BitStruct
import PymtlVerif.Props.C05
/-!
Helper lemmas about `Model/BitStruct.lean` (core Lean only): the code-shaped packing functions equal
the structural specification, the bijection, the layout with explicit offsets.
(The heap / copy-semantics lemmas are in `Proofs/BitStructHeap.lean`.)
-/
namespace PV.BitStruct
open PV.Bits (B Reg catSpec)

/-! ### arithmetic on slices -/

theorem slice_eq (b lo w : Nat) : slice b lo w = b / 2 ^ lo % 2 ^ w := by
  simp [slice, Nat.shiftRight_eq_div_pow]

theorem slice_lt (b lo w : Nat) : slice b lo w < 2 ^ w := by
  rw [slice_eq]; exact Nat.mod_lt _ (Nat.two_pow_pos w)

theorem slice_zero_of_lt (b w : Nat) (h : b < 2 ^ w) : slice b 0 w = b := by
  rw [slice_eq]; simp [Nat.mod_eq_of_lt h]

theorem slice_mod (b lo w : Nat) : slice b lo w % 2 ^ w = slice b lo w :=
  Nat.mod_eq_of_lt (slice_lt b lo w)

/-- low part of a slice -/
theorem slice_low (b lo w1 w2 : Nat) : slice b lo (w1 + w2) % 2 ^ w2 = slice b lo w2 := by
  rw [slice_eq, slice_eq]
  exact Nat.mod_mod_of_dvd _ (Nat.pow_dvd_pow 2 (Nat.le_add_left w2 w1))

/-- high part of a slice -/
theorem slice_high (b lo w1 w2 : Nat) : slice b lo (w1 + w2) / 2 ^ w2 = slice b (lo + w2) w1 := by
  rw [slice_eq, slice_eq]
  have : 2 ^ (w1 + w2) = 2 ^ w2 * 2 ^ w1 := by rw [Nat.add_comm, Nat.pow_add]
  rw [this, Nat.mod_mul_right_div_self, Nat.div_div_eq_div_mul, ← Nat.pow_add]

/-- a slice of a slice is a slice -/
theorem slice_slice (b lo w o w' : Nat) (h : o + w' ≤ w) :
    slice (slice b lo w) o w' = slice b (lo + o) w' := by
  have e : w = (w - o - w') + w' + o := by omega
  rw [e, slice_eq (slice b lo _) o w', slice_high, slice_low]

theorem div_lemma (a b w : Nat) (hb : b < 2 ^ w) : (a * 2 ^ w + b) / 2 ^ w = a := by
  rw [Nat.add_comm, Nat.add_mul_div_right _ _ (Nat.two_pow_pos w), Nat.div_eq_of_lt hb]; simp

theorem mod_lemma (a b w : Nat) (hb : b < 2 ^ w) : (a * 2 ^ w + b) % 2 ^ w = b := by
  rw [Nat.add_comm, Nat.add_mul_mod_self_right, Nat.mod_eq_of_lt hb]

theorem mul_add_div_mod (b w : Nat) : (b / 2 ^ w) * 2 ^ w + b % 2 ^ w = b := by
  rw [Nat.mul_comm]; exact Nat.div_add_mod b (2 ^ w)

/-- splitting a context slice that holds `hi * 2^wl + lo` -/
theorem slice_split (P o wh wl hi lo : Nat) (hlo : lo < 2 ^ wl)
    (h : slice P o (wh + wl) = hi * 2 ^ wl + lo) :
    slice P o wl = lo ∧ slice P (o + wl) wh = hi := by
  constructor
  · rw [← slice_low P o wh wl, h, mod_lemma _ _ _ hlo]
  · rw [← slice_high P o wh wl, h, div_lemma _ _ _ hlo]

/-! ### width -/

theorem sum_rep (k : Nat) (xs : List Nat) : (rep k xs).sum = k * xs.sum := by
  induction k with
  | zero => simp [rep]
  | succ k ih => simp [rep, ih, Nat.add_mul]; omega

theorem width_eq_sum_leaves (T : Ty) : T.width = T.leaves.sum := by
  induction T with
  | bits n => simp [Ty.width, Ty.leaves]
  | unit => simp [Ty.width, Ty.leaves]
  | pair a b iha ihb => simp [Ty.width, Ty.leaves, iha, ihb]
  | arr k t ih => simp [Ty.width, Ty.leaves, sum_rep, ih]

theorem iterN_add (w : Nat) (f : Nat → Nat) (hf : ∀ s, f s = s + w) (k s : Nat) :
    iterN f k s = s + k * w := by
  induction k generalizing s with
  | zero => simp [iterN]
  | succ k ih => simp [iterN, ih, hf, Nat.add_mul]; omega

theorem nbitsFrom_eq (T : Ty) (s : Nat) : nbitsFrom T s = s + T.width := by
  induction T generalizing s with
  | bits n => simp [nbitsFrom, Ty.width]
  | unit => simp [nbitsFrom, Ty.width]
  | pair a b iha ihb => simp [nbitsFrom, Ty.width, iha, ihb]; omega
  | arr k t ih => simp only [nbitsFrom, Ty.width]; exact iterN_add t.width _ ih k s

theorem nbitsPy_eq (T : Ty) : nbitsPy T = T.width := by simp [nbitsPy, nbitsFrom_eq]

theorem toBits_width {v T} (h : HasTy v T) : (toBits v).1 = T.width := by
  induction h with
  | bits n v h => rfl
  | unit => rfl
  | pair ha hb iha ihb => simp [toBits, Ty.width, iha, ihb]
  | anil => simp [toBits, Ty.width]
  | acons hx hxs ihx ihxs => simp [toBits, Ty.width, ihx, ihxs, Nat.add_mul]

theorem toBits_lt {v T} (h : HasTy v T) : (toBits v).2 < 2 ^ T.width := by
  induction h with
  | bits n v h => exact h
  | unit => simp [toBits, Ty.width]
  | @pair a b A B ha hb iha ihb =>
    simp only [toBits, Ty.width]
    have wb := toBits_width hb
    rw [wb, Nat.pow_add]
    calc (toBits a).2 * 2 ^ B.width + (toBits b).2
        < (toBits a).2 * 2 ^ B.width + 2 ^ B.width := by omega
      _ = ((toBits a).2 + 1) * 2 ^ B.width := by rw [Nat.add_mul]; simp
      _ ≤ 2 ^ A.width * 2 ^ B.width := Nat.mul_le_mul_right _ iha
  | anil => simp [toBits, Ty.width]
  | @acons x xs k T hx hxs ihx ihxs =>
    simp only [toBits, Ty.width]
    have wx := toBits_width hx
    rw [wx, Nat.add_mul, Nat.one_mul, Nat.pow_add]
    calc (toBits xs).2 * 2 ^ T.width + (toBits x).2
        < (toBits xs).2 * 2 ^ T.width + 2 ^ T.width := by omega
      _ = ((toBits xs).2 + 1) * 2 ^ T.width := by rw [Nat.add_mul]; simp
      _ ≤ 2 ^ (k * T.width) * 2 ^ T.width := Nat.mul_le_mul_right _ ihxs

theorem leafVals_widths {v T} (h : HasTy v T) : (leafVals v).map (·.1) = T.leaves := by
  induction h with
  | bits n v h => rfl
  | unit => rfl
  | pair ha hb iha ihb => simp [leafVals, Ty.leaves, iha, ihb]
  | anil => simp [leafVals, Ty.leaves, rep]
  | acons hx hxs ihx ihxs =>
    simp only [Ty.leaves] at ihxs
    simp [leafVals, Ty.leaves, rep, ihx, ihxs]

/-! ### the generated `concat(...)` equals the structural packing -/

theorem catSpec_append (xs ys : List B) :
    catSpec (xs ++ ys) = ((catSpec xs).1 + (catSpec ys).1,
                           (catSpec xs).2 * 2 ^ (catSpec ys).1 + (catSpec ys).2) := by
  induction xs with
  | nil => simp [catSpec]
  | cons x xs ih =>
    simp only [List.cons_append, catSpec, ih]
    congr 1
    · omega
    · rw [Nat.add_mul, Nat.pow_add, Nat.mul_assoc]; omega

theorem catSpec_concatArgs (v : Val) : catSpec (concatArgs v) = toBits v := by
  induction v with
  | bits n v => simp [concatArgs, catSpec, toBits]
  | unit => simp [concatArgs, catSpec, toBits]
  | pair a b iha ihb => simp [concatArgs, catSpec_append, toBits, iha, ihb]
  | anil => simp [concatArgs, catSpec, toBits]
  | acons x xs ihx ihxs => simp [concatArgs, catSpec_append, toBits, ihx, ihxs]

theorem concatArgs_valid {v T} (h : HasTy v T) : ∀ x ∈ concatArgs v, x.v < 2 ^ x.n := by
  induction h with
  | bits n v h => intro x hx; simp [concatArgs] at hx; subst hx; exact h
  | unit => intro x hx; simp [concatArgs] at hx
  | pair ha hb iha ihb =>
    intro x hx; simp only [concatArgs, List.mem_append] at hx
    rcases hx with hx | hx
    · exact iha x hx
    · exact ihb x hx
  | anil => intro x hx; simp [concatArgs] at hx
  | acons hx hxs ihx ihxs =>
    intro x hm; simp only [concatArgs, List.mem_append] at hm
    rcases hm with hm | hm
    · exact ihxs x hm
    · exact ihx x hm

/-- `to_bits` of a typed value: the structural packing, as a `Bits` of the class width;
a ValueError when the width is not a legal `Bits` width -/
theorem toBitsPy_eq {v T} (h : HasTy v T) :
    (1 ≤ T.width ∧ T.width < 1024 → toBitsPy v = .ok ⟨T.width, (toBits v).2⟩) ∧
    (T.width = 0 ∨ T.width ≥ 1024 → toBitsPy v = .error .range) := by
  have hs := PV.C05.concat_spec (concatArgs v) (concatArgs_valid h)
  rw [catSpec_concatArgs, toBits_width h] at hs
  exact ⟨hs.1, hs.2.1⟩

/-! ### the bijection on the specification face -/

theorem hasTy_unrollArr (f : Nat → Val) (w : Nat) (T : Ty) (hf : ∀ b, HasTy (f b) T) :
    ∀ (k b : Nat), HasTy (unrollArr f w k b) (.arr k T)
  | 0, _ => HasTy.anil
  | k+1, _ => HasTy.acons (hf _) (hasTy_unrollArr f w T hf k _)

theorem hasTy_fromBits : ∀ (T : Ty) (b : Nat), HasTy (fromBits T b) T
  | .bits n, b => by
      simp only [fromBits]; exact HasTy.bits n _ (Nat.mod_lt _ (Nat.two_pow_pos n))
  | .unit, _ => by simp only [fromBits]; exact HasTy.unit
  | .pair A B, b => by
      simp only [fromBits]; exact HasTy.pair (hasTy_fromBits A _) (hasTy_fromBits B _)
  | .arr k T, _ => by
      simp only [fromBits]; exact hasTy_unrollArr _ _ T (hasTy_fromBits T) k _

theorem from_to {v T} (h : HasTy v T) : fromBits T (toBits v).2 = v := by
  induction h with
  | bits n v h => simp [toBits, fromBits, Nat.mod_eq_of_lt h]
  | unit => simp [fromBits]
  | @pair a b A B ha hb iha ihb =>
    simp only [toBits, fromBits]
    have wb := toBits_width hb
    have lb := toBits_lt hb
    rw [wb, div_lemma _ _ _ lb, mod_lemma _ _ _ lb, iha, ihb]
  | anil => simp [fromBits, unrollArr]
  | @acons x xs k T hx hxs ihx ihxs =>
    simp only [toBits, fromBits, unrollArr]
    have wx := toBits_width hx
    have lx := toBits_lt hx
    rw [wx, div_lemma _ _ _ lx, mod_lemma _ _ _ lx, ihx]
    simp only [fromBits] at ihxs
    rw [ihxs]

theorem to_from_arr (f : Nat → Val) (w : Nat) (T : Ty)
    (hw : ∀ b, (toBits (f b)).1 = w) (hf : ∀ b, b < 2 ^ w → (toBits (f b)).2 = b) :
    ∀ (k b : Nat), b < 2 ^ (k * w) → (toBits (unrollArr f w k b)).2 = b
  | 0, b, h => by
      simp only [Nat.zero_mul, Nat.pow_zero] at h
      simp [unrollArr, toBits]; omega
  | k+1, b, h => by
      simp only [unrollArr, toBits]
      have hlo : b % 2 ^ w < 2 ^ w := Nat.mod_lt _ (Nat.two_pow_pos _)
      have hhi : b / 2 ^ w < 2 ^ (k * w) := by
        rw [Nat.div_lt_iff_lt_mul (Nat.two_pow_pos _), ← Nat.pow_add]
        rw [Nat.add_mul, Nat.one_mul] at h; exact h
      rw [hw, hf _ hlo, to_from_arr f w T hw hf k _ hhi]
      exact mul_add_div_mod b w

theorem to_from : ∀ (T : Ty) (b : Nat), b < 2 ^ T.width → (toBits (fromBits T b)).2 = b
  | .bits n, b, h => by simp [fromBits, toBits, Nat.mod_eq_of_lt (by simpa [Ty.width] using h)]
  | .unit, b, h => by
      simp only [Ty.width, Nat.pow_zero] at h
      simp [fromBits, toBits]; omega
  | .pair A B, b, h => by
      simp only [fromBits, toBits]
      have hB := hasTy_fromBits B (b % 2 ^ B.width)
      rw [toBits_width hB]
      have hlo : b % 2 ^ B.width < 2 ^ B.width := Nat.mod_lt _ (Nat.two_pow_pos _)
      have hhi : b / 2 ^ B.width < 2 ^ A.width := by
        rw [Nat.div_lt_iff_lt_mul (Nat.two_pow_pos _), ← Nat.pow_add]; simpa [Ty.width] using h
      rw [to_from A _ hhi, to_from B _ hlo]
      exact mul_add_div_mod b B.width
  | .arr k T, b, h => by
      simp only [fromBits]
      exact to_from_arr _ _ T (fun b => toBits_width (hasTy_fromBits T b)) (to_from T) k b
        (by simpa [Ty.width] using h)

/-- equality of well-typed values agrees with equality of packed values -/
theorem eq_iff_bits {v w : Val} {T : Ty} (hv : HasTy v T) (hw : HasTy w T) :
    v = w ↔ (toBits v).2 = (toBits w).2 := by
  constructor
  · intro h; rw [h]
  · intro h
    rw [← from_to hv, ← from_to hw, h]

/-- only the low `width` bits matter to `fromBits` -/
theorem fromBits_mod_arr (f : Nat → Val) (w : Nat) (hf : ∀ b, f (b % 2 ^ w) = f b) :
    ∀ (k b : Nat), unrollArr f w k (b % 2 ^ (k * w)) = unrollArr f w k b
  | 0, b => by simp [unrollArr]
  | k+1, b => by
      simp only [unrollArr]
      have e : (k + 1) * w = k * w + w := by rw [Nat.add_mul]; simp
      rw [e]
      have h1 : b % 2 ^ (k * w + w) % 2 ^ w = b % 2 ^ w :=
        Nat.mod_mod_of_dvd _ (Nat.pow_dvd_pow 2 (Nat.le_add_left _ _))
      have h2 : b % 2 ^ (k * w + w) / 2 ^ w = b / 2 ^ w % 2 ^ (k * w) := by
        have : 2 ^ (k * w + w) = 2 ^ w * 2 ^ (k * w) := by rw [Nat.add_comm, Nat.pow_add]
        rw [this, Nat.mod_mul_right_div_self]
      rw [h1, h2, fromBits_mod_arr f w hf k]

theorem fromBits_mod : ∀ (T : Ty) (b : Nat), fromBits T (b % 2 ^ T.width) = fromBits T b
  | .bits n, b => by simp [fromBits, Ty.width]
  | .unit, b => by simp [fromBits]
  | .pair A B, b => by
      simp only [fromBits, Ty.width]
      have h1 : b % 2 ^ (A.width + B.width) % 2 ^ B.width = b % 2 ^ B.width :=
        Nat.mod_mod_of_dvd _ (Nat.pow_dvd_pow 2 (Nat.le_add_left _ _))
      have h2 : b % 2 ^ (A.width + B.width) / 2 ^ B.width = b / 2 ^ B.width % 2 ^ A.width := by
        have : 2 ^ (A.width + B.width) = 2 ^ B.width * 2 ^ A.width := by rw [Nat.add_comm, Nat.pow_add]
        rw [this, Nat.mod_mul_right_div_self]
      rw [h1, h2, fromBits_mod A]
  | .arr k T, b => by
      simp only [fromBits, Ty.width]
      exact fromBits_mod_arr _ _ (fromBits_mod T) k b

/-! ### the generated `from_bits` (slices counted down from `total_nbits`) equals the specification -/

/-- append an element at the end of an `acons` chain -/
def vsnoc : Val → Val → Val
  | .acons y ys, x => .acons y (vsnoc ys x)
  | _, x => .acons x .anil

/-- append two `acons` chains -/
def vapp : Val → Val → Val
  | .acons y ys, zs => .acons y (vapp ys zs)
  | _, zs => zs

theorem vapp_vsnoc (l x acc : Val) : vapp (vsnoc l x) acc = vapp l (.acons x acc) := by
  induction l with
  | acons y ys _ ihys => simp [vsnoc, vapp, ihys]
  | bits n v => simp [vsnoc, vapp]
  | unit => simp [vsnoc, vapp]
  | pair a b _ _ => simp [vsnoc, vapp]
  | anil => simp [vsnoc, vapp]

theorem vapp_anil_unroll (f : Nat → Val) (w k b : Nat) : vapp (unrollArr f w k b) .anil = unrollArr f w k b := by
  induction k generalizing b with
  | zero => simp [unrollArr, vapp]
  | succ k ih => simp [unrollArr, vapp, ih]

/-- unrolling `k+1` elements = unrolling `k` elements and appending the top one -/
theorem unrollArr_top (g : Nat → Val) (w b : Nat) (hg : ∀ x, g (x % 2 ^ w) = g x) : ∀ (k lo : Nat),
    unrollArr g w (k + 1) (slice b lo ((k + 1) * w)) =
      vsnoc (unrollArr g w k (slice b lo (k * w))) (g (slice b (lo + k * w) w))
  | 0, lo => by
      simp [unrollArr, vsnoc, hg]
  | k+1, lo => by
      have e : (k + 1 + 1) * w = (k + 1) * w + w := by rw [Nat.add_mul (k + 1) 1 w]; simp
      have e' : (k + 1) * w = k * w + w := by rw [Nat.add_mul]; simp
      have ih := unrollArr_top g w b hg k (lo + w)
      rw [unrollArr, e, slice_low, slice_high, ih]
      conv => rhs; rw [unrollArr, e', slice_low, slice_high]
      simp only [vsnoc]
      have : lo + w + k * w = lo + (k * w + w) := by omega
      rw [this]

theorem iterArr_eq (g : Nat → Val) (w b : Nat) (hg : ∀ x, g (x % 2 ^ w) = g x) (f : Nat → Val × Nat)
    (hf : ∀ e, w ≤ e → f e = (g (slice b (e - w) w), e - w)) :
    ∀ (k e : Nat) (acc : Val), k * w ≤ e →
      iterArr f k e acc = (vapp (unrollArr g w k (slice b (e - k * w) (k * w))) acc, e - k * w)
  | 0, e, acc, _ => by simp [iterArr, unrollArr, vapp]
  | k+1, e, acc, h => by
      have e' : (k + 1) * w = k * w + w := by rw [Nat.add_mul]; simp
      have hw : w ≤ e := by omega
      have hk : k * w ≤ e - w := by omega
      rw [iterArr, hf e hw]
      simp only []
      rw [iterArr_eq g w b hg f hf k (e - w) _ hk]
      have h1 : e - w - k * w = e - (k + 1) * w := by omega
      rw [h1, unrollArr_top g w b hg k (e - (k + 1) * w), vapp_vsnoc]
      have h2 : e - (k + 1) * w + k * w = e - w := by omega
      rw [h2]

theorem fromBitsAt_eq : ∀ (T : Ty) (e b : Nat), T.width ≤ e →
    fromBitsAt T e b = (fromBits T (slice b (e - T.width) T.width), e - T.width)
  | .bits n, e, b, _ => by simp [fromBitsAt, fromBits, Ty.width, slice_mod]
  | .unit, e, b, _ => by simp [fromBitsAt, fromBits, Ty.width]
  | .pair A B, e, b, h => by
      simp only [Ty.width] at h
      have hA := fromBitsAt_eq A e b (by omega)
      have hB := fromBitsAt_eq B (e - A.width) b (by omega)
      simp only [fromBitsAt, hA, hB, fromBits, Ty.width]
      have e1 : e - (A.width + B.width) + B.width = e - A.width := by omega
      have e2 : e - A.width - B.width = e - (A.width + B.width) := by omega
      rw [slice_high, slice_low, e1, e2]
  | .arr k T, e, b, h => by
      simp only [Ty.width] at h
      simp only [fromBitsAt, fromBits, Ty.width]
      rw [iterArr_eq (fromBits T) T.width b (fromBits_mod T) _ (fun e' he' => fromBitsAt_eq T e' b he') k e .anil h]
      rw [vapp_anil_unroll]

/-- `from_bits` of a `Bits` of the class width is the structural unpacking; any other width fails the assertion -/
theorem fromBitsPy_eq (T : Ty) (n b : Nat) :
    (n = T.width → fromBitsPy T ⟨n, b⟩ = .ok (fromBits T b)) ∧
    (n ≠ T.width → fromBitsPy T ⟨n, b⟩ = .error .assert) := by
  constructor
  · intro h
    subst h
    simp only [fromBitsPy, nbitsPy_eq, ne_eq, not_true_eq_false, ↓reduceIte]
    rw [fromBitsAt_eq T T.width b (Nat.le_refl _)]
    simp only [Nat.sub_self]
    rw [slice_eq]; simp [fromBits_mod]
  · intro h
    have : T.width ≠ n := fun e => h e.symm
    simp [fromBitsPy, nbitsPy_eq, this]

/-! ### layout with explicit offsets -/

theorem fieldOff_le : ∀ (T : Ty) (i : Nat) (F : Ty), fieldTy T i = some F → fieldOff T i + F.width ≤ T.width
  | .bits n, i, F, h => by simp [fieldTy] at h
  | .unit, i, F, h => by simp [fieldTy] at h
  | .arr k t, i, F, h => by simp [fieldTy] at h
  | .pair C D, 0, F, h => by
      simp only [fieldTy, Option.some.injEq] at h; subst h
      simp only [fieldOff, Ty.width]; omega
  | .pair C D, i+1, F, h => by
      simp only [fieldTy] at h
      have := fieldOff_le D i F h
      simp only [fieldOff, Ty.width]; omega

theorem elem_lt {v T n} (h : HasTy v (.arr n T)) : ∀ (k : Nat) (x : Val), elemVal v k = some x → k < n := by
  generalize hU : Ty.arr n T = U at h
  induction h generalizing n with
  | bits n v h => cases hU
  | unit => cases hU
  | pair _ _ _ _ => cases hU
  | anil => intro k x h1; simp [elemVal] at h1
  | @acons y ys m T' hy hys _ ihys =>
    cases hU
    intro k x h1
    cases k with
    | zero => omega
    | succ k =>
      simp only [elemVal] at h1
      have := ihys rfl k x h1
      omega

theorem field_layout {v T} (h : HasTy v T) : ∀ (i : Nat) (f : Val) (F : Ty),
    fieldVal v i = some f → fieldTy T i = some F →
    HasTy f F ∧ slice (toBits v).2 (fieldOff T i) F.width = (toBits f).2 := by
  induction h with
  | bits n v h => intro i f F h1; simp [fieldVal] at h1
  | unit => intro i f F h1; simp [fieldVal] at h1
  | anil => intro i f F h1; simp [fieldVal] at h1
  | acons _ _ _ _ => intro i f F h1; simp [fieldVal] at h1
  | @pair a b A B ha hb _ ihb =>
    intro i f F h1 h2
    have lb := toBits_lt hb
    have la := toBits_lt ha
    have wb := toBits_width hb
    cases i with
    | zero =>
      simp only [fieldVal, Option.some.injEq] at h1
      simp only [fieldTy, Option.some.injEq] at h2
      subst h1; subst h2
      refine ⟨ha, ?_⟩
      simp only [toBits, fieldOff, wb]
      rw [slice_eq, div_lemma _ _ _ lb, Nat.mod_eq_of_lt la]
    | succ i =>
      simp only [fieldVal] at h1
      simp only [fieldTy] at h2
      obtain ⟨hf, hs⟩ := ihb i f F h1 h2
      refine ⟨hf, ?_⟩
      simp only [toBits, fieldOff, wb]
      rw [← hs, slice_eq, slice_eq]
      -- the bits below B.width of the pair are exactly b's bits
      have hoff : fieldOff B i + F.width ≤ B.width := fieldOff_le B i F h2
      -- (hi * 2^wB + lo) / 2^o % 2^w = lo / 2^o % 2^w when o + w ≤ wB
      have key : ∀ (hi lo : Nat), (hi * 2 ^ B.width + lo) / 2 ^ fieldOff B i % 2 ^ F.width
          = lo / 2 ^ fieldOff B i % 2 ^ F.width := by
        intro hi lo
        have hsplit : 2 ^ B.width = 2 ^ (B.width - fieldOff B i - F.width) * 2 ^ F.width * 2 ^ fieldOff B i := by
          rw [← Nat.pow_add, ← Nat.pow_add]; congr 1; omega
        rw [hsplit, ← Nat.mul_assoc, ← Nat.mul_assoc, Nat.add_comm,
            Nat.add_mul_div_right _ _ (Nat.two_pow_pos _), Nat.add_mul_mod_self_right]
      exact key _ _

theorem elem_layout {v T n} (h : HasTy v (.arr n T)) : ∀ (k : Nat) (x : Val),
    elemVal v k = some x →
    HasTy x T ∧ slice (toBits v).2 (k * T.width) T.width = (toBits x).2 := by
  generalize hU : Ty.arr n T = U at h
  induction h generalizing n with
  | bits n v h => cases hU
  | unit => cases hU
  | pair _ _ _ _ => cases hU
  | anil => intro k x h1; simp [elemVal] at h1
  | @acons y ys m T' hy hys _ ihys =>
    cases hU
    intro k x h1
    have ly := toBits_lt hy
    have wy := toBits_width hy
    cases k with
    | zero =>
      simp only [elemVal, Option.some.injEq] at h1; subst h1
      refine ⟨hy, ?_⟩
      simp only [toBits, wy, Nat.zero_mul]
      rw [slice_eq]; simp [mod_lemma _ _ _ ly]
    | succ k =>
      simp only [elemVal] at h1
      obtain ⟨hx, hs⟩ := ihys rfl k x h1
      refine ⟨hx, ?_⟩
      simp only [toBits, wy]
      rw [← hs, slice_eq, slice_eq]
      have : (k + 1) * T.width = T.width + k * T.width := by rw [Nat.add_mul]; omega
      rw [this, Nat.pow_add, ← Nat.div_div_eq_div_mul, div_lemma _ _ _ ly]

/-- the offset of field `i` is the sum of the widths of the fields declared after it -/
theorem fieldOff_sum (T : Ty) (hT : T.IsRec) (i : Nat) (hi : i < (fieldTys T).length) :
    fieldOff T i = (((fieldTys T).drop (i + 1)).map Ty.width).sum ∧
    T.width = ((fieldTys T).map Ty.width).sum := by
  induction T generalizing i with
  | bits n => simp [Ty.IsRec] at hT
  | arr k t _ => simp [Ty.IsRec] at hT
  | unit => simp [fieldTys] at hi
  | pair A B _ ihB =>
    simp only [Ty.IsRec] at hT
    have hw : B.width = ((fieldTys B).map Ty.width).sum := by
      cases hB : B with
      | bits n => rw [hB] at hT; simp [Ty.IsRec] at hT
      | arr k t => rw [hB] at hT; simp [Ty.IsRec] at hT
      | unit => simp [fieldTys, Ty.width]
      | pair C D => rw [hB] at hT ihB; exact (ihB hT 0 (by simp [fieldTys])).2
    refine ⟨?_, by simp [fieldTys, Ty.width, hw]⟩
    cases i with
    | zero => simp [fieldOff, fieldTys, hw]
    | succ i =>
      simp only [fieldTys, List.length_cons, Nat.add_lt_add_iff_right] at hi
      simp [fieldOff, fieldTys, (ihB hT i hi).1]

/-- pointwise relation between the leaf offset table and the leaf values -/
def LeavesAt (P : Nat) : List (Nat × Nat) → List (Nat × Nat) → Prop
  | [], [] => True
  | (off, w) :: os, (n, x) :: vs => w = n ∧ slice P off w = x ∧ LeavesAt P os vs
  | _, _ => False

theorem LeavesAt_append {P : Nat} {o1 v1 o2 v2 : List (Nat × Nat)} (h1 : LeavesAt P o1 v1) (h2 : LeavesAt P o2 v2) :
    LeavesAt P (o1 ++ o2) (v1 ++ v2) := by
  induction o1 generalizing v1 with
  | nil => cases v1 with
    | nil => simpa using h2
    | cons _ _ => simp [LeavesAt] at h1
  | cons o os ih =>
    cases v1 with
    | nil => simp [LeavesAt] at h1
    | cons v vs =>
      obtain ⟨off, w⟩ := o; obtain ⟨n, x⟩ := v
      simp only [LeavesAt] at h1
      simp only [List.cons_append, LeavesAt]
      exact ⟨h1.1, h1.2.1, ih h1.2.2⟩

/-- every leaf sits at its table offset, in any enclosing word `P` that holds the value at offset `o` -/
theorem leaf_layout_at {v T} (h : HasTy v T) : ∀ (P o : Nat), slice P o T.width = (toBits v).2 →
    LeavesAt P (leafOffs T o) (leafVals v) := by
  induction h with
  | bits n v h => intro P o hs; simp [leafOffs, leafVals, LeavesAt, Ty.width, toBits] at hs ⊢; exact hs
  | unit => intro P o _; simp [leafOffs, leafVals, LeavesAt]
  | @pair a b A B ha hb iha ihb =>
    intro P o hs
    simp only [Ty.width, toBits, toBits_width hb] at hs
    obtain ⟨h1, h2⟩ := slice_split P o A.width B.width _ _ (toBits_lt hb) hs
    simp only [leafOffs, leafVals]
    exact LeavesAt_append (iha P _ h2) (ihb P _ h1)
  | anil => intro P o _; simp [leafOffs, leafVals, repOffs, LeavesAt]
  | @acons x xs k T hx hxs ihx ihxs =>
    intro P o hs
    simp only [Ty.width, toBits, toBits_width hx] at hs
    have e : (k + 1) * T.width = k * T.width + T.width := by rw [Nat.add_mul]; simp
    rw [e] at hs
    obtain ⟨h1, h2⟩ := slice_split P o (k * T.width) T.width _ _ (toBits_lt hx) hs
    simp only [leafOffs, leafVals, repOffs]
    have := ihxs P (o + T.width) (by simpa [Ty.width] using h2)
    simp only [leafOffs] at this
    exact LeavesAt_append (ihx P o h1) this

/-! ### `__eq__` / `__hash__` -/

theorem eqPy_iff (v w : Val) : eqPy v w = true ↔ v = w := by
  induction v generalizing w with
  | bits n x => cases w <;> simp [eqPy]
  | unit => cases w <;> simp [eqPy]
  | anil => cases w <;> simp [eqPy]
  | pair a b iha ihb => cases w <;> simp [eqPy, iha, ihb]
  | acons x xs ihx ihxs => cases w <;> simp [eqPy, ihx, ihxs]

/-! ### executable typing test -/

theorem hasTy_iff (v : Val) (T : Ty) : hasTy v T = true ↔ HasTy v T := by
  constructor
  · intro h
    induction v generalizing T with
    | bits n x =>
      cases T <;> simp [hasTy] at h
      obtain ⟨h1, h2⟩ := h; subst h1; exact HasTy.bits _ _ h2
    | unit => cases T <;> simp [hasTy] at h; exact HasTy.unit
    | pair a b iha ihb =>
      cases T <;> simp [hasTy] at h
      exact HasTy.pair (iha _ h.1) (ihb _ h.2)
    | anil =>
      cases T with
      | arr k t => cases k <;> simp [hasTy] at h; exact HasTy.anil
      | _ => simp [hasTy] at h
    | acons x xs ihx ihxs =>
      cases T with
      | arr k t =>
        cases k <;> simp [hasTy] at h
        exact HasTy.acons (ihx _ h.1) (ihxs _ h.2)
      | _ => simp [hasTy] at h
  · intro h
    induction h with
    | bits n v h => simp [hasTy, h]
    | unit => simp [hasTy]
    | pair _ _ iha ihb => simp [hasTy, iha, ihb]
    | anil => simp [hasTy]
    | acons _ _ ihx ihxs => simp [hasTy, ihx, ihxs]

end PV.BitStruct
