import PymtlVerif.Proofs.PipeRef4
/-!
LEVEL 3, part 5: preservation of the clauses `d` and `f` of `Inv` (D and F are on the ISA's path unless an
older in-flight branch is taken), and the assembled induction: `Inv` holds after reset, is preserved by
every cycle the environment assumption allows, hence along every admissible trace.
-/
namespace PV.Pipe
open PV.TinyRV0 (W32 Mem loadWord storeWord rget rset)

section step
variable {p : Prog} {N : Nat} {s : State} {E : Env} {c : Nat} {i : EnvIn}

/-- when F hands its response to D: nothing older is a taken branch, so F is on the ISA's path, and the
response is the word at its PC -/
theorem f_deliver (hR : Runs p N) (I : Inv p N s E c) (hE : envOk p E i (out s i)) (hnv : next_val_F s i = true)
    (hj : iF s c ≤ N) (hnk : ¬ tkD p N s c) :
    s.pc_F = (isaAt p (iF s c)).pc ∧ imemresp_data s i = loadWord p.mem0 s.pc_F := by
  obtain ⟨hrdy, hw, hq, hv, hs⟩ := drop_in_rdy_of_next_val_F s i hnv
  have hsx : stall_X s i = false := by
    rcases Bool.eq_false_or_eq_true (stall_X s i) with a | a
    · simp [stall_F, hv] at hs
      simp [stall_X] at a
      rcases a with ⟨_, (a | a) | a⟩
      · rw [hs.1.1.2] at a; cases a
      · rw [hs.1.2] at a; cases a
      · rw [hs.2] at a; cases a
    · exact a
  have hnx : ¬ tkX p N s c := by
    intro ht
    have := osquash_of_tkX hR I ht hsx
    simp [squash_F, hv, this] at hq
  refine ⟨I.f hv hj hnx hnk, ?_⟩
  obtain ⟨junk, hfw⟩ := I.fw
  simp only [hw, hv, Bool.false_eq_true, if_false, if_true, List.nil_append] at hfw
  have := (fetch_fifo (p := p) hE).1 hrdy
  rw [hfw] at this
  simp at this
  exact this.symm

theorem d_next (hR : Runs p N) (I : Inv p N s E c) (hE : envOk p E i (out s i)) :
    (next s i).val_D = true → iD (next s i) (c' s i c) < N → ¬ tkX p N (next s i) (c' s i c) →
    (next s i).pc_D = (isaAt p (iD (next s i) (c' s i c))).pc ∧ (next s i).inst_D = wordAt p (iD (next s i) (c' s i c)) := by
  have hr := hE.1
  obtain ⟨_, hD, hX, _, _, _⟩ := next_vals s i hr
  unfold tkX
  rw [iD_next s i c hr, iX_next s i c hr]
  intro hv hj hnk
  rcases Bool.eq_false_or_eq_true (reg_en_D s i) with hen | hen
  · -- a new instruction from F
    rw [hD, hen] at hv; simp only [if_true] at hv
    obtain ⟨_, _, hq, hvF, hsF⟩ := drop_in_rdy_of_next_val_F s i hv
    have hosq : osquash_X s i = false := by simpa [squash_F, hvF, osquash_D] using hq
    simp only [hen, hosq, Bool.not_false, Bool.and_true, if_true] at hj ⊢
    have hsD : stall_D s i = false := by
      rcases Bool.eq_false_or_eq_true (stall_D s i) with a | a
      · rw [stall_F_of_stall_D s i a hvF] at hsF; cases hsF
      · exact a
    have hsX : stall_X s i = false := by
      rcases Bool.eq_false_or_eq_true (stall_X s i) with a | a
      · simp [stall_F, hvF] at hsF; simp [stall_X] at a
        rcases a with ⟨_, (a | a) | a⟩
        · rw [hsF.1.1.2] at a; cases a
        · rw [hsF.1.2] at a; cases a
        · rw [hsF.2] at a; cases a
      · exact a
    have hnkD : ¬ tkD p N s c := by
      intro ⟨a, b, d⟩
      apply hnk
      have : next_val_D s i = true := by simp [next_val_D, a, hsD, squash_D, hosq]
      refine ⟨by rw [hX]; simp [reg_en_X, hsX, this], by simp [hsX]; exact b, by simp [hsX]; exact d⟩
    obtain ⟨h1, h2⟩ := f_deliver hR I hE hv (by omega) hnkD
    have e1 : (next s i).pc_D = s.pc_F := by simp [next, hr, hen]
    have e2 : (next s i).inst_D = imemresp_data s i := by simp [next, hr, hen]
    rw [e1, e2, h1, h2, h1]
    exact ⟨rfl, rfl⟩
  · -- held
    have hsD : stall_D s i = true := by simp [reg_en_D] at hen; exact hen.1
    have hqD : squash_D s i = false := by simp [reg_en_D] at hen; exact hen.2
    have hvD := stall_D_val s i hsD
    simp only [hen, Bool.false_and, Bool.false_eq_true, if_false] at hj ⊢
    obtain ⟨_, h2, h3⟩ := hold_D s i hr hsD hqD
    rw [h2, h3]
    apply I.d hvD hj
    intro ht
    rcases Bool.eq_false_or_eq_true (stall_X s i) with a | a
    · apply hnk
      obtain ⟨h4, _⟩ := hold_X s i hr a
      exact ⟨by rw [h4]; exact ht.1, by simp [a]; exact ht.2.1, by simp [a]; exact ht.2.2⟩
    · have := osquash_of_tkX hR I ht a
      simp [squash_D, hvD, this] at hqD


theorem stall_X_of_not_stall_F (hv : s.val_F = true) (hs : stall_F s i = false) : stall_X s i = false := by
  rcases Bool.eq_false_or_eq_true (stall_X s i) with a | a
  · simp [stall_F, hv] at hs; simp [stall_X] at a
    rcases a with ⟨_, (a | a) | a⟩
    · rw [hs.1.1.2] at a; cases a
    · rw [hs.1.2] at a; cases a
    · rw [hs.2] at a; cases a
  · exact a

theorem f_next (hR : Runs p N) (I : Inv p N s E c) (hE : envOk p E i (out s i)) :
    (next s i).val_F = true → iF (next s i) (c' s i c) ≤ N → ¬ tkX p N (next s i) (c' s i c) →
    ¬ tkD p N (next s i) (c' s i c) → (next s i).pc_F = (isaAt p (iF (next s i) (c' s i c))).pc := by
  have hr := hE.1
  obtain ⟨hF, hD, hX, _, _, _⟩ := next_vals s i hr
  unfold tkX tkD
  rw [iF_next s i c hr, iD_next s i c hr, iX_next s i c hr]
  have epc : (next s i).pc_F = if reg_en_F s i then imemreq_addr s else s.pc_F := by simp [next, hr]
  rw [epc]
  intro _ hj hnkX hnkD
  rcases Bool.eq_false_or_eq_true s.val_F with hvF | hvF
  · rcases Bool.eq_false_or_eq_true (squash_F s i) with hq | hq
    · -- redirect: the branch in X is taken and leaves X
      have hosq : osquash_X s i = true := (squash_F_origin s i hq).2
      obtain ⟨hvX, hsX, _, _⟩ := osquash_X_origin s i hosq
      have hen : reg_en_F s i = true := by simp [reg_en_F, hq]
      have henD : reg_en_D s i = true := by
        rcases Bool.eq_false_or_eq_true s.val_D with a | a
        · simp [reg_en_D, squash_D, a, hosq]
        · simp [reg_en_D, stall_D, a]
      have hnv : next_val_F s i = false := by simp [next_val_F, hq]
      simp only [hen, henD, hosq, hnv, if_true, Bool.toNat_false, Nat.add_zero] at hj ⊢
      have hd : iD s c = iX s c + 1 := by simp [iD, hvX]
      rw [hd] at hj ⊢
      have hjX : iX s c < N := by omega
      have X := I.x hvX hjX
      have R := (runs_step hR hjX).2
      have hred : pc_redirect_X s = true := by simp [osquash_X] at hosq; exact hosq.2
      have htk := redirect_X_ok hR I hvX hjX
      rw [hred] at htk
      have hbr : (U.cs (wordAt p (iX s c))).br_type = true := by
        have h' := htk.symm; simp [U.taken] at h'; exact h'.1
      rw [(runs_step hR hjX).1]
      simp only [U.next, ← htk, if_true, imemreq_addr, pc_sel_F, hred]
      exact X.tgt hbr
    · rcases Bool.eq_false_or_eq_true (stall_F s i) with hs | hs
      · -- hold
        have hen : reg_en_F s i = false := by simp [reg_en_F, hq, hs]
        have hosq : osquash_X s i = false := by simpa [squash_F, hvF, osquash_D] using hq
        have hnv : next_val_F s i = false := by simp [next_val_F, hs]
        simp only [hen, hosq, hnv, Bool.false_eq_true, if_false, Bool.toNat_false, Nat.add_zero, Bool.not_false,
          Bool.and_true] at hj hnkX hnkD ⊢
        have hj' : iF s c ≤ N := by split at hj <;> exact hj
        have hiF : (if reg_en_D s i = true then iF s c else iF s c) = iF s c := by split <;> rfl
        rw [hiF]
        -- old X not taken
        have hnx : ¬ tkX p N s c := by
          intro ht
          rcases Bool.eq_false_or_eq_true (stall_X s i) with a | a
          · apply hnkX
            obtain ⟨h4, _⟩ := hold_X s i hr a
            exact ⟨by rw [h4]; exact ht.1, by simp [a]; exact ht.2.1, by simp [a]; exact ht.2.2⟩
          · have := osquash_of_tkX hR I ht a
            rw [hosq] at this; cases this
        -- old D not taken
        have hnd : ¬ tkD p N s c := by
          intro ⟨a, b, d⟩
          rcases Bool.eq_false_or_eq_true (reg_en_D s i) with e | e
          · -- D moves into X
            have hsD : stall_D s i = false := by simpa [reg_en_D, squash_D, hosq] using e
            have hsX : stall_X s i = false := by
              rcases Bool.eq_false_or_eq_true (stall_X s i) with g | g
              · rw [stall_D_of_stall_X s i g a] at hsD; cases hsD
              · exact g
            apply hnkX
            have : next_val_D s i = true := by simp [next_val_D, a, hsD, squash_D, hosq]
            exact ⟨by rw [hX]; simp [reg_en_X, hsX, this], by simp [hsX]; exact b, by simp [hsX]; exact d⟩
          · apply hnkD
            have hsD : stall_D s i = true := by simp [reg_en_D] at e; exact e.1
            obtain ⟨h5, _⟩ := hold_D s i hr hsD (by simp [squash_D, hosq])
            exact ⟨by rw [h5]; exact a, by simp [e]; exact b, by simp [e]; exact d⟩
        exact I.f hvF hj' hnx hnd
      · -- sequential issue
        have hnv : next_val_F s i = true := by simp [next_val_F, hvF, hs, hq]
        have hosq : osquash_X s i = false := by simpa [squash_F, hvF, osquash_D] using hq
        have hen : reg_en_F s i = true := by simp [reg_en_F, hs]
        have henD := reg_en_D_of_next_val_F s i hnv
        have hsX := stall_X_of_not_stall_F hvF hs
        have hsD : stall_D s i = false := by
          rcases Bool.eq_false_or_eq_true (stall_D s i) with a | a
          · rw [stall_F_of_stall_D s i a hvF] at hs; cases hs
          · exact a
        simp only [hen, henD, hosq, hnv, if_true, Bool.false_eq_true, if_false, Bool.toNat_true, Bool.not_false,
          Bool.and_true, hsX] at hj hnkX hnkD ⊢
        have hjF : iF s c < N := by omega
        have hnd : ¬ tkD p N s c := by
          intro ⟨a, b, d⟩
          apply hnkX
          have : next_val_D s i = true := by simp [next_val_D, a, hsD, squash_D, hosq]
          exact ⟨by rw [hX]; simp [reg_en_X, hsX, this], b, d⟩
        obtain ⟨h1, _⟩ := f_deliver hR I hE hnv (by omega) hnd
        have hred : pc_redirect_X s = false := by
          rcases Bool.eq_false_or_eq_true (pc_redirect_X s) with a | a
          · have : s.val_X = true := by simp [pc_redirect_X] at a; exact a.1.1
            simp [osquash_X, this, hsX, a] at hosq
          · exact a
        have hnt : U.taken (isaAt p (iF s c)) (wordAt p (iF s c)) = false := by
          rcases Bool.eq_false_or_eq_true (U.taken (isaAt p (iF s c)) (wordAt p (iF s c))) with a | a
          · exact absurd ⟨by rw [hD]; simp [henD, hnv], hjF, a⟩ hnkD
          · exact a
        rw [(runs_step hR hjF).1]
        simp only [U.next, hnt, Bool.false_eq_true, if_false, imemreq_addr, pc_sel_F, hred, pc_plus4_F, h1]
  · -- the very first fetch
    obtain ⟨hvD, hvX, hvM, hvW, _, hc0, hpc⟩ := I.f0 hvF
    have hen : reg_en_F s i = true := by simp [reg_en_F, stall_F, hvF]
    have hnv : next_val_F s i = false := by simp [next_val_F, hvF]
    have hosq : osquash_X s i = false := osquash_X_val s i hvX
    have henD : reg_en_D s i = true := by simp [reg_en_D, stall_D, hvD]
    have hred : pc_redirect_X s = false := by simp [pc_redirect_X, hvX]
    simp only [hen, henD, hosq, hnv, if_true, Bool.false_eq_true, if_false, Bool.toNat_false, Nat.add_zero]
    have : iF s c = 0 := by simp [iF, iD, iX, iM, hvD, hvX, hvM, hvW, hc0]
    rw [this]
    simp [imemreq_addr, pc_sel_F, hred, pc_plus4_F, hpc, isaAt, TinyRV0.State.init, W32]


/-- one cycle preserves the refinement invariant -/
theorem inv_step (hR : Runs p N) (I : Inv p N s E c) (hE : envOk p E i (out s i)) :
    Inv p N (next s i) (envNext E i (out s i)) (c' s i c) := by
  have hr := hE.1
  obtain ⟨hfw, hq1⟩ := fw_q1_next I hE
  exact {
    rf := rf_next hR I hE
    out := out_next hR I hE
    w := w_next hR I hE
    m := m_next hR I hE
    x := x_next hR I hE
    dmem := dmem_next hR I hE
    dcnt := dcnt_next I hE
    inp := inp_next hR I hE
    d := d_next hR I hE
    f := f_next hR I hE
    f0 := f0_next I hr
    fw := hfw
    q1 := hq1
    wt := wt_next I hr
    excl := excl_next I hr }

end step

/-- the invariant holds right after reset, with nothing committed -/
theorem inv_init (p : Prog) (N : Nat) {s : State} (h : PostReset s) : Inv p N s (Env.init p) 0 := by
  refine {
    rf := fun _ => by rw [h.rf]; rfl
    out := fun _ => rfl
    w := fun hv => by rw [h.vW] at hv; cases hv
    m := fun hv => by rw [h.vM] at hv; cases hv
    x := fun hv => by rw [h.vX] at hv; cases hv
    dmem := fun _ => by simp [iX, iM, h.vW, h.vM, Env.init, isaAt, TinyRV0.State.init]
    dcnt := by simp [h.dq, h.vM, Env.init]
    inp := fun _ => by simp [h.mq, iD, iX, iM, h.vW, h.vM, h.vX, Env.init, isaAt, TinyRV0.State.init]
    d := fun hv => by rw [h.vD] at hv; cases hv
    f := fun hv => by rw [h.vF] at hv; cases hv
    f0 := fun _ => ⟨h.vD, h.vX, h.vM, h.vW, h.dw, rfl, h.pc⟩
    fw := ⟨0, by simp [fetchWords, h.iq, h.q1, h.q2, h.dw, h.vF, Env.init]⟩
    q1 := fun hq => by rw [h.q1] at hq; cases hq
    wt := fun hw => by rw [h.dw] at hw; cases hw
    excl := ⟨fun e => (by rw [h.ex.1] at e; cases e), fun e => (by rw [h.ex.2.1] at e; cases e),
      fun e => (by rw [h.ex.2.2] at e; cases e)⟩ }

/-- the invariant along every admissible trace -/
theorem inv_run {p : Prog} {N : Nat} (hR : Runs p N) :
    ∀ (envs : List EnvIn) {s : State} {E : Env} {c : Nat}, Inv p N s E c → EnvTrace p E s envs →
      Inv p N (runS s envs) (envRun E s envs) (c + commitCount s envs)
  | [], _, _, _, I, _ => by simpa [runS, envRun, commitCount] using I
  | i :: is, s, E, c, I, hT => by
    obtain ⟨hE, hT'⟩ := hT
    have := inv_run hR is (inv_step hR I hE) hT'
    simpa [runS, envRun, commitCount, c', Nat.add_assoc] using this

end PV.Pipe
