import PymtlVerif.Model.Meta
/-!
# Lemmas about `Model/Meta.lean` (C15)

* `Equiv` — two metadata lists hold the same entries (the containers are Python sets).
* `contrib_owned` — everything a component under `p` contributes is owned under `p` (so it is removed
  and never saved); `contrib_outside` — what a component outside `p` contributes and `delete` removes
  is saved, or is the mirror image of a saved edge; `contrib_swap` — adjacency is contributed in both
  directions. Together: the top-level containers are unions of per-component contributions and
  `delete` undoes exactly the contributions of the components under `p`.
* congruence of `delete` / `restore` / `add` / `replace` under `Equiv`.
-/
namespace PV.Meta
set_option linter.unusedSimpArgs false

def Equiv (A B : Meta) : Prop := ∀ e, e ∈ A ↔ e ∈ B

theorem Equiv.refl (A : Meta) : Equiv A A := fun _ => Iff.rfl
theorem Equiv.symm {A B : Meta} (h : Equiv A B) : Equiv B A := fun e => (h e).symm
theorem Equiv.trans {A B C : Meta} (h : Equiv A B) (h' : Equiv B C) : Equiv A C :=
  fun e => (h e).trans (h' e)

/-- `Equiv` is decidable: mutual inclusion of the two entry lists -/
def beqSet (A B : Meta) : Bool := A.all (fun e => B.contains e) && B.all (fun e => A.contains e)

theorem equiv_iff_beqSet (A B : Meta) : Equiv A B ↔ beqSet A B = true := by
  simp only [beqSet, Bool.and_eq_true, List.all_eq_true, List.contains_iff_mem]
  exact ⟨fun h => ⟨fun e he => (h e).1 he, fun e he => (h e).2 he⟩,
         fun h e => ⟨h.1 e, h.2 e⟩⟩

instance (A B : Meta) : Decidable (Equiv A B) := decidable_of_iff _ (equiv_iff_beqSet A B).symm

/-! ## prefixes -/

theorem under_iff {p n : Name} : under p n = true ↔ p <+: n := by
  simp [under]

theorem under_append (p x : Name) : under p (p ++ x) = true :=
  under_iff.2 (List.prefix_append p x)

theorem under_append_of {p q : Name} (r : Name) (h : under p q = true) : under p (q ++ r) = true :=
  under_iff.2 ((under_iff.1 h).trans (List.prefix_append q r))

theorem under_self (p : Name) : under p p = true := under_iff.2 (List.prefix_refl p)

/-! ## entries of one component -/

/-- no connection made by the component at `q` joins two signals that are both under `p`
    (for `q` outside `p`: the parent does not loop a port of the replaced child back to another port
    of the same child) -/
def NoLoop (p q : Name) (c : Comp) : Prop :=
  ∀ x ∈ c.conns, ¬ (under p (q ++ x.1.1) = true ∧ under p (q ++ x.2.1) = true)

theorem mem_contrib {q : Name} {c : Comp} {e : Entry} (h : e ∈ contrib q c) :
    e = .comp q c.ph
    ∨ (∃ x ∈ c.sigs, e = .sig (q, x.1) x.2)
    ∨ (∃ x ∈ c.mports, e = .mport (q, x.1) x.2)
    ∨ (∃ b ∈ c.blks, e = .blk (q, b.name) ∨ e = .ff (q, b.name) ∨ e = .once (q, b.name)
        ∨ (∃ r ∈ b.reads, e = .read (q, b.name) (absr q r))
        ∨ (∃ r ∈ b.writes, e = .write (q, b.name) (absr q r))
        ∨ (∃ r ∈ b.calls, e = .call (q, b.name) (absr q r)))
    ∨ (∃ x ∈ c.uu, e = .uu q (absr q x.1) (absr q x.2))
    ∨ (∃ x ∈ c.rdu, e = .rdu q (absr q x.1) x.2.1 (absr q x.2.2))
    ∨ (∃ x ∈ c.wru, e = .wru q (absr q x.1) x.2.1 (absr q x.2.2))
    ∨ (∃ x ∈ c.mcs, e = .mc q (absm q x.1) (absm q x.2.1) x.2.2)
    ∨ (∃ x ∈ c.conns, e = .edge (.sig (absr q x.1)) (.sig (absr q x.2))
        ∨ e = .edge (.sig (absr q x.2)) (.sig (absr q x.1)))
    ∨ (∃ x ∈ c.consts, e = .edge (.const q (absr q x.1) x.2) (.sig (absr q x.1))
        ∨ e = .edge (.sig (absr q x.1)) (.const q (absr q x.1) x.2)) := by
  simp only [contrib, List.mem_append, List.mem_map, List.mem_flatMap, List.mem_cons,
    List.not_mem_nil, or_false] at h
  rcases h with ((((((((( h | h) | h) | h) | h) | h) | h) | h) | h) | h)
  · exact Or.inl h
  · obtain ⟨x, hx, rfl⟩ := h; exact Or.inr (Or.inl ⟨x, hx, rfl⟩)
  · obtain ⟨x, hx, rfl⟩ := h; exact Or.inr (Or.inr (Or.inl ⟨x, hx, rfl⟩))
  · obtain ⟨b, hb, h⟩ := h
    refine Or.inr (Or.inr (Or.inr (Or.inl ⟨b, hb, ?_⟩)))
    simp only [blkEntries, List.mem_append, List.mem_map, List.mem_cons, List.not_mem_nil,
      or_false] at h
    rcases h with (((((h | h) | h) | h) | h) | h)
    · exact Or.inl h
    · split at h
      · simp at h; exact Or.inr (Or.inl h)
      · simp at h
    · split at h
      · simp at h; exact Or.inr (Or.inr (Or.inl h))
      · simp at h
    · obtain ⟨r, hr, rfl⟩ := h; exact Or.inr (Or.inr (Or.inr (Or.inl ⟨r, hr, rfl⟩)))
    · obtain ⟨r, hr, rfl⟩ := h; exact Or.inr (Or.inr (Or.inr (Or.inr (Or.inl ⟨r, hr, rfl⟩))))
    · obtain ⟨r, hr, rfl⟩ := h; exact Or.inr (Or.inr (Or.inr (Or.inr (Or.inr ⟨r, hr, rfl⟩))))
  · obtain ⟨x, hx, rfl⟩ := h; exact Or.inr (Or.inr (Or.inr (Or.inr (Or.inl ⟨x, hx, rfl⟩))))
  · obtain ⟨x, hx, rfl⟩ := h
    exact Or.inr (Or.inr (Or.inr (Or.inr (Or.inr (Or.inl ⟨x, hx, rfl⟩)))))
  · obtain ⟨x, hx, rfl⟩ := h
    exact Or.inr (Or.inr (Or.inr (Or.inr (Or.inr (Or.inr (Or.inl ⟨x, hx, rfl⟩))))))
  · obtain ⟨x, hx, rfl⟩ := h
    exact Or.inr (Or.inr (Or.inr (Or.inr (Or.inr (Or.inr (Or.inr (Or.inl ⟨x, hx, rfl⟩)))))))
  · obtain ⟨x, hx, h⟩ := h
    exact Or.inr (Or.inr (Or.inr (Or.inr (Or.inr (Or.inr (Or.inr (Or.inr (Or.inl ⟨x, hx, h⟩))))))))
  · obtain ⟨x, hx, h⟩ := h
    exact Or.inr (Or.inr (Or.inr (Or.inr (Or.inr (Or.inr (Or.inr (Or.inr (Or.inr ⟨x, hx, h⟩))))))))

theorem owned_touches {p : Name} {e : Entry} (h : owned p e = true) : touches p e = true := by
  cases e <;> simp_all [owned, touches]

theorem saved_not_owned {p : Name} {e : Entry} (h : saved p e = true) : owned p e = false := by
  simp [saved] at h
  exact h.1.2

theorem saved_touches {p : Name} {e : Entry} (h : saved p e = true) : touches p e = true := by
  simp [saved] at h
  exact h.1.1

/-- everything contributed by a component under `p` is owned under `p` -/
theorem contrib_owned {p q : Name} {c : Comp} {e : Entry} (hq : under p q = true)
    (h : e ∈ contrib q c) : owned p e = true := by
  rcases mem_contrib h with rfl | ⟨x, _, rfl⟩ | ⟨x, _, rfl⟩ | ⟨b, _, h⟩ | ⟨x, _, rfl⟩ | ⟨x, _, rfl⟩
    | ⟨x, _, rfl⟩ | ⟨x, _, rfl⟩ | ⟨x, _, h⟩ | ⟨x, _, h⟩
  · exact hq
  · exact hq
  · exact hq
  · rcases h with rfl | rfl | rfl | ⟨r, _, rfl⟩ | ⟨r, _, rfl⟩ | ⟨r, _, rfl⟩ <;> exact hq
  · exact hq
  · exact hq
  · exact hq
  · exact hq
  · rcases h with rfl | rfl <;> exact under_append_of _ hq
  · rcases h with rfl | rfl
    · exact hq
    · exact under_append_of _ hq

theorem swap_swap (e : Entry) : e.swap.swap = e := by
  cases e <;> rfl

/-- adjacency is contributed in both directions -/
theorem contrib_swap {q : Name} {c : Comp} {e : Entry} (h : e ∈ contrib q c) :
    e.swap ∈ contrib q c := by
  cases e with
  | edge a b =>
    simp only [Entry.swap]
    simp only [contrib, List.mem_append, List.mem_map, List.mem_flatMap, List.mem_cons,
      List.not_mem_nil, or_false, reduceCtorEq, false_or, and_false, exists_false] at h ⊢
    rcases h with (h | h)
    · rcases h with ⟨_, _, h⟩ | h
      · exfalso; revert h; simp [blkEntries]
      · obtain ⟨x, hx, h⟩ := h
        exact Or.inl (Or.inr ⟨x, hx, by rcases h with h | h <;> simp_all⟩)
    · obtain ⟨x, hx, h⟩ := h
      exact Or.inr ⟨x, hx, by rcases h with h | h <;> simp_all⟩
  | _ => exact h

/-- what a component outside `p` contributes and `delete p` removes is saved, or is the mirror image
    of a saved adjacency edge -/
theorem contrib_outside {p q : Name} {c : Comp} {e : Entry} (hq : under p q = false)
    (hl : NoLoop p q c) (h : e ∈ contrib q c) (ht : touches p e = true) :
    saved p e = true ∨ saved p e.swap = true := by
  rcases mem_contrib h with rfl | ⟨x, _, rfl⟩ | ⟨x, _, rfl⟩ | ⟨b, _, h⟩ | ⟨x, _, rfl⟩ | ⟨x, _, rfl⟩
    | ⟨x, _, rfl⟩ | ⟨x, _, rfl⟩ | ⟨x, hx, h⟩ | ⟨x, _, h⟩
  · simp_all [touches, owned]
  · simp_all [touches, owned]
  · simp_all [touches, owned]
  · rcases h with rfl | rfl | rfl | ⟨r, _, rfl⟩ | ⟨r, _, rfl⟩ | ⟨r, _, rfl⟩ <;>
      simp_all [touches, owned, saved]
  · simp_all [touches, owned, saved]
  · simp_all [touches, owned, saved]
  · simp_all [touches, owned, saved]
  · simp_all [touches, owned, saved]
  · have hl' := hl x hx
    rcases h with rfl | rfl
    · simp only [touches, Node.gone, absr, Bool.or_eq_true] at ht
      simp only [saved, touches, owned, Node.gone, Entry.swap, absr]
      cases h1 : under p (q ++ x.1.1) <;> cases h2 : under p (q ++ x.2.1) <;> simp_all
    · simp only [touches, Node.gone, absr, Bool.or_eq_true] at ht
      simp only [saved, touches, owned, Node.gone, Entry.swap, absr]
      cases h1 : under p (q ++ x.1.1) <;> cases h2 : under p (q ++ x.2.1) <;> simp_all
  · rcases h with rfl | rfl
    · simp_all [touches, owned, saved, Node.gone]
    · simp_all [touches, owned, saved, Node.gone, Entry.swap]

/-! ## only the parent's entries cross the boundary -/

def LMRef.short : LMRef → Prop
  | .blk r => r.1.length ≤ 1
  | .meth r => r.1.length ≤ 1

/-- the PyMTL discipline: a component refers to its own signals and to those of its direct children
    only (`s.x`, `s.child.x`) -/
structure Disciplined (c : Comp) : Prop where
  reads : ∀ b ∈ c.blks, ∀ r ∈ b.reads, r.1.length ≤ 1
  writes : ∀ b ∈ c.blks, ∀ r ∈ b.writes, r.1.length ≤ 1
  calls : ∀ b ∈ c.blks, ∀ r ∈ b.calls, r.1.length ≤ 1
  uu : ∀ x ∈ c.uu, x.1.1.length ≤ 1 ∧ x.2.1.length ≤ 1
  rdu : ∀ x ∈ c.rdu, x.1.1.length ≤ 1 ∧ x.2.2.1.length ≤ 1
  wru : ∀ x ∈ c.wru, x.1.1.length ≤ 1 ∧ x.2.2.1.length ≤ 1
  mcs : ∀ x ∈ c.mcs, x.1.short ∧ x.2.1.short
  conns : ∀ x ∈ c.conns, x.1.1.length ≤ 1 ∧ x.2.1.length ≤ 1
  consts : ∀ x ∈ c.consts, x.1.1.length ≤ 1

theorem parent_of_short {p q rh : Name} (hq : under p q = false) (hr : rh.length ≤ 1)
    (h : under p (q ++ rh) = true) : ∃ a, p = q ++ [a] := by
  match rh, hr with
  | [], _ => simp [hq] at h
  | [a], _ =>
    rw [under_iff, List.prefix_concat_iff] at h
    rcases h with h | h
    · exact ⟨a, h⟩
    · rw [← under_iff, hq] at h; cases h

theorem parent_of_mref {p q : Name} {x : LMRef} (hq : under p q = false) (hs : x.short)
    (h : (absm q x).gone p = true) : ∃ a, p = q ++ [a] := by
  cases x with
  | blk r => exact parent_of_short hq hs (by simpa [absm, MRef.gone, absr] using h)
  | meth r => exact parent_of_short hq hs (by simpa [absm, MRef.gone, absr] using h)

/-- in a disciplined hierarchy every entry of a surviving component that mentions something under
    `p` is an entry of the parent of `p`: searching only `parent._dsl.*` (as `_delete_component`
    does for block references) finds all of them -/
theorem saved_from_parent {p q : Name} {c : Comp} {e : Entry} (hd : Disciplined c)
    (hq : under p q = false) (h : e ∈ contrib q c) (ht : touches p e = true) :
    ∃ a, p = q ++ [a] := by
  rcases mem_contrib h with rfl | ⟨x, _, rfl⟩ | ⟨x, _, rfl⟩ | ⟨b, hb, h⟩ | ⟨x, hx, rfl⟩ | ⟨x, hx, rfl⟩
    | ⟨x, hx, rfl⟩ | ⟨x, hx, rfl⟩ | ⟨x, hx, h⟩ | ⟨x, hx, h⟩
  · simp_all [touches, owned]
  · simp_all [touches, owned]
  · simp_all [touches, owned]
  · rcases h with rfl | rfl | rfl | ⟨r, hr, rfl⟩ | ⟨r, hr, rfl⟩ | ⟨r, hr, rfl⟩
    · simp_all [touches, owned]
    · simp_all [touches, owned]
    · simp_all [touches, owned]
    · exact parent_of_short hq (hd.reads b hb r hr) (by simpa [touches, hq, absr] using ht)
    · exact parent_of_short hq (hd.writes b hb r hr) (by simpa [touches, hq, absr] using ht)
    · exact parent_of_short hq (hd.calls b hb r hr) (by simpa [touches, hq, absr] using ht)
  · simp only [touches, hq, Bool.false_or, Bool.or_eq_true, absr] at ht
    rcases ht with ht | ht
    · exact parent_of_short hq (hd.uu x hx).1 ht
    · exact parent_of_short hq (hd.uu x hx).2 ht
  · simp only [touches, hq, Bool.false_or, Bool.or_eq_true, absr] at ht
    rcases ht with ht | ht
    · exact parent_of_short hq (hd.rdu x hx).1 ht
    · exact parent_of_short hq (hd.rdu x hx).2 ht
  · simp only [touches, hq, Bool.false_or, Bool.or_eq_true, absr] at ht
    rcases ht with ht | ht
    · exact parent_of_short hq (hd.wru x hx).1 ht
    · exact parent_of_short hq (hd.wru x hx).2 ht
  · simp only [touches, hq, Bool.false_or, Bool.or_eq_true] at ht
    rcases ht with ht | ht
    · exact parent_of_mref hq (hd.mcs x hx).1 ht
    · exact parent_of_mref hq (hd.mcs x hx).2 ht
  · have hc := hd.conns x hx
    rcases h with rfl | rfl <;>
    · simp only [touches, Node.gone, absr, Bool.or_eq_true] at ht
      rcases ht with ht | ht
      · first | exact parent_of_short hq hc.1 ht | exact parent_of_short hq hc.2 ht
      · first | exact parent_of_short hq hc.2 ht | exact parent_of_short hq hc.1 ht
  · have hc := hd.consts x hx
    rcases h with rfl | rfl <;>
    · simp only [touches, Node.gone, absr, hq, Bool.or_eq_true, Bool.false_or, Bool.or_false,
        Bool.false_eq_true, or_false, false_or] at ht
      exact parent_of_short hq hc ht

/-! ## elaboration as a union of contributions -/

theorem mem_elaborate {H : Hier} {e : Entry} :
    e ∈ elaborate H ↔ ∃ x ∈ H, e ∈ contrib x.1 x.2 := by
  simp [elaborate, List.mem_flatMap]

theorem elaborate_append (A B : Hier) : elaborate (A ++ B) = elaborate A ++ elaborate B := by
  simp [elaborate, List.flatMap_append]

theorem elaborate_set (H : Hier) (p : Name) (N : Hier) :
    elaborate (set H p N) = elaborate (H.filter (fun x => !under p x.1)) ++ elabAt p N := by
  simp [set, elaborate_append, elabAt]

theorem mem_restore {S : List Entry} {e : Entry} :
    e ∈ restore S ↔ e ∈ S ∨ e.swap ∈ S := by
  simp only [restore, List.mem_append, List.mem_map]
  constructor
  · rintro (h | ⟨e', h, rfl⟩)
    · exact Or.inl h
    · exact Or.inr (by rw [swap_swap]; exact h)
  · rintro (h | h)
    · exact Or.inl h
    · exact Or.inr ⟨e.swap, h, swap_swap e⟩

/-- hypothesis of the replacement theorems: no component outside `p` loops two signals under `p` -/
def NoLoopAt (H : Hier) (p : Name) : Prop :=
  ∀ x ∈ H, under p x.1 = false → NoLoop p x.1 x.2

/-- `delete` leaves, and `restore` gives back, exactly the contributions of the components outside `p` -/
theorem delete_restore (H : Hier) (p : Name) (hl : NoLoopAt H p) (e : Entry) :
    e ∈ (delete (elaborate H) p).1 ++ restore (delete (elaborate H) p).2
      ↔ e ∈ elaborate (H.filter (fun x => !under p x.1)) := by
  simp only [delete, List.mem_append, List.mem_filter, mem_restore, mem_elaborate,
    Bool.not_eq_eq_eq_not, Bool.not_true]
  constructor
  · rintro (⟨⟨x, hx, he⟩, ht⟩ | ⟨⟨x, hx, he⟩, hs⟩ | ⟨⟨x, hx, he⟩, hs⟩)
    · refine ⟨x, ⟨hx, ?_⟩, he⟩
      cases hu : under p x.1
      · rfl
      · rw [owned_touches (contrib_owned hu he)] at ht; cases ht
    · refine ⟨x, ⟨hx, ?_⟩, he⟩
      cases hu : under p x.1
      · rfl
      · have := saved_not_owned hs
        rw [contrib_owned hu he] at this; cases this
    · refine ⟨x, ⟨hx, ?_⟩, by simpa [swap_swap] using contrib_swap he⟩
      cases hu : under p x.1
      · rfl
      · have := saved_not_owned hs
        rw [contrib_owned hu he] at this; cases this
  · rintro ⟨x, ⟨hx, hu⟩, he⟩
    cases ht : touches p e
    · exact Or.inl ⟨⟨x, hx, he⟩, rfl⟩
    · rcases contrib_outside hu (hl x hx hu) he ht with hs | hs
      · exact Or.inr (Or.inl ⟨⟨x, hx, he⟩, hs⟩)
      · exact Or.inr (Or.inr ⟨⟨x, hx, contrib_swap he⟩, hs⟩)

/-! ## congruence under `Equiv` -/

theorem filter_congr {A B : Meta} (h : Equiv A B) (f : Entry → Bool) :
    Equiv (A.filter f) (B.filter f) := by
  intro e; simp [List.mem_filter, h e]

theorem append_congr {A B C D : Meta} (h : Equiv A B) (h' : Equiv C D) :
    Equiv (A ++ C) (B ++ D) := by
  intro e; simp [List.mem_append, h e, h' e]

theorem restore_congr {A B : Meta} (h : Equiv A B) : Equiv (restore A) (restore B) := by
  intro e; simp [mem_restore, h e, h e.swap]

theorem all_congr {A B : Meta} (h : Equiv A B) (f : Entry → Bool) : A.all f = B.all f := by
  rw [Bool.eq_iff_iff]
  simp only [List.all_eq_true]
  exact ⟨fun H e he => H e ((h e).2 he), fun H e he => H e ((h e).1 he)⟩

theorem replace_congr {A B : Meta} (h : Equiv A B) (r : Name × Hier) {A' : Meta}
    (ha : replace A r = some A') : ∃ B', replace B r = some B' ∧ Equiv A' B' := by
  unfold replace add at ha ⊢
  have h1 : Equiv (delete A r.1).1 (delete B r.1).1 := filter_congr h _
  have h2 : Equiv (delete A r.1).2 (delete B r.1).2 := filter_congr h _
  rw [← all_congr h2]
  split at ha
  · rename_i hg
    rw [if_pos hg]
    injection ha with ha
    subst ha
    exact ⟨_, rfl, append_congr (append_congr h1 (restore_congr h2)) (Equiv.refl _)⟩
  · cases ha

end PV.Meta
