import PymtlVerif.Model.GenDag
import PymtlVerif.Proofs.Nets
/-!
# Lemmas about `Model/GenDag.lean` (C02, value constraints)

1. the parent-chain walk (`chain`/`ancestors`) enumerates exactly the object itself and the objects
   above it;
2. reader-side walk ∪ writer-side walk = the symmetric relation `related` of `Model/Nets.lean`;
3. membership characterisations of `explicitPairs`, `implicitPairs`, `valueConstraints`.
-/
namespace PV.GenDag
open PV.Nets

/-! ## 1. the parent chain -/

theorem mem_chain (f : Nat) (o x : Obj) (hf : o.fields.length + (if o.slice.isSome then 1 else 0) < f) :
    x ∈ chain f o ↔ isSig o = true ∧ (x = o ∨ ∃ p, p <+: o.fields ∧ x = { o with fields := p, slice := none }) := by
  induction f generalizing o with
  | zero => omega
  | succ f ih =>
    obtain ⟨sid, k, h, fs, sl⟩ := o
    unfold chain
    by_cases hs : isSig ⟨sid, k, h, fs, sl⟩ = true
    · have hs' : ∀ fs' sl', isSig ⟨sid, k, h, fs', sl'⟩ = true := fun _ _ => hs
      rw [if_pos hs]
      simp only [hs, true_and, List.mem_cons]
      cases sl with
      | some s =>
        simp only [parent]
        rw [ih ⟨sid, k, h, fs, none⟩ (by simp at hf ⊢; omega)]
        simp only [hs' fs none, true_and]
        constructor
        · rintro (h1 | h1 | ⟨p, hp, h1⟩)
          · exact Or.inl h1
          · exact Or.inr ⟨fs, List.prefix_refl _, h1⟩
          · exact Or.inr ⟨p, hp, h1⟩
        · rintro (h1 | ⟨p, hp, h1⟩)
          · exact Or.inl h1
          · exact Or.inr (Or.inr ⟨p, hp, h1⟩)
      | none =>
        simp only [parent]
        by_cases he : fs.isEmpty = true
        · rw [if_pos he]
          have : fs = [] := by simpa using he
          subst this
          simp only [List.not_mem_nil, or_false, List.prefix_nil]
          constructor
          · intro h1; exact Or.inl h1
          · rintro (h1 | ⟨p, rfl, h1⟩)
            · exact h1
            · exact h1
        · rw [if_neg he]
          have hne : fs ≠ [] := by simpa using he
          simp only
          rw [ih ⟨sid, k, h, fs.dropLast, none⟩ (by
            simp only [List.length_dropLast, Option.isSome_none] at hf ⊢
            have : 0 < fs.length := List.length_pos_iff.mpr hne
            simp at hf ⊢; omega)]
          simp only [hs' fs.dropLast none, true_and]
          have hcat : fs = fs.dropLast ++ [fs.getLast hne] := (List.dropLast_concat_getLast hne).symm
          constructor
          · rintro (h1 | h1 | ⟨p, hp, h1⟩)
            · exact Or.inl h1
            · exact Or.inr ⟨fs.dropLast, List.dropLast_prefix _, h1⟩
            · exact Or.inr ⟨p, hp.trans (List.dropLast_prefix _), h1⟩
          · rintro (h1 | ⟨p, hp, h1⟩)
            · exact Or.inl h1
            · rw [hcat, List.prefix_concat_iff] at hp
              rcases hp with hp | hp
              · left; rw [h1, hp, ← hcat]
              · exact Or.inr (Or.inr ⟨p, hp, h1⟩)
    · rw [if_neg hs]
      simp [hs]

theorem mem_ancestors (o x : Obj) :
    x ∈ ancestors o ↔ isSig o = true ∧
      (x = o ∨ (x.sid = o.sid ∧ x.kind = o.kind ∧ x.host = o.host ∧ x.slice = none ∧ x.fields <+: o.fields)) := by
  unfold ancestors
  rw [mem_chain _ _ _ (by split <;> omega)]
  obtain ⟨sid, k, h, fs, sl⟩ := o
  obtain ⟨sid', k', h', fs', sl'⟩ := x
  simp only [Obj.mk.injEq]
  constructor
  · rintro ⟨hs, h1 | ⟨p, hp, h1⟩⟩
    · exact ⟨hs, Or.inl h1⟩
    · obtain ⟨rfl, rfl, rfl, rfl, rfl⟩ := h1
      exact ⟨hs, Or.inr ⟨rfl, rfl, rfl, rfl, hp⟩⟩
  · rintro ⟨hs, h1 | ⟨rfl, rfl, rfl, rfl, hp⟩⟩
    · exact ⟨hs, Or.inl h1⟩
    · exact ⟨hs, Or.inr ⟨fs', hp, rfl, rfl, rfl, rfl, rfl⟩⟩

/-! ## 2. the two walks together are the symmetric relation -/

/-- what the reader-side walk from `r` and the writer-side walk from `w` find between them -/
def Found (w r : Obj) : Prop :=
  w ∈ ancestors r ∨ (isSig r = true ∧ sibling r w = true ∧ sliceOverlap w r = true) ∨ r ∈ ancestors w

def SliceOk' (o : Obj) : Prop := isSig o = true → ∀ s, o.slice = some s → s.1 < s.2

theorem overlap_self (x : Nat × Nat) (h : x.1 < x.2) : overlap x x = true := by
  unfold overlap; simp [h]

theorem found_iff_related (w r : Obj)
    (hc : w.sid = r.sid → w.kind = r.kind ∧ w.host = r.host) (hw : SliceOk' w) (hr : SliceOk' r) :
    Found w r ↔ related w r = true := by
  unfold Found
  simp only [mem_ancestors]
  obtain ⟨ws, wk, wh, wf, wsl⟩ := w
  obtain ⟨rs, rk, rh, rf, rsl⟩ := r
  unfold related sibling sliceOverlap SliceOk' at *
  simp only [isSig, bne_iff_ne, ne_eq, Obj.mk.injEq, Bool.and_eq_true, beq_iff_eq] at *
  cases wsl with
  | none =>
    cases rsl with
    | none =>
      simp only [Bool.or_eq_true, isPrefix_iff, Option.isSome_none, Bool.false_eq_true, false_and, and_false,
        false_or, true_and, and_true]
      constructor
      · rintro (⟨hk, h1 | h1⟩ | ⟨hk, h1 | h1⟩)
        · obtain ⟨rfl, rfl, rfl, rfl⟩ := h1
          exact ⟨⟨⟨hk, hk⟩, rfl⟩, Or.inl (List.prefix_refl _)⟩
        · obtain ⟨rfl, rfl, rfl, hp⟩ := h1
          exact ⟨⟨⟨hk, hk⟩, rfl⟩, Or.inl hp⟩
        · obtain ⟨rfl, rfl, rfl, rfl⟩ := h1
          exact ⟨⟨⟨hk, hk⟩, rfl⟩, Or.inl (List.prefix_refl _)⟩
        · obtain ⟨rfl, rfl, rfl, hp⟩ := h1
          exact ⟨⟨⟨hk, hk⟩, rfl⟩, Or.inr hp⟩
      · rintro ⟨⟨⟨hkw, hkr⟩, hs⟩, hp | hp⟩
        · obtain ⟨h1, h2⟩ := hc hs
          exact Or.inl ⟨hkr, Or.inr ⟨hs, h1, h2, hp⟩⟩
        · obtain ⟨h1, h2⟩ := hc hs
          exact Or.inr ⟨hkw, Or.inr ⟨hs.symm, h1.symm, h2.symm, hp⟩⟩
    | some y =>
      simp only [isPrefix_iff, Option.isSome_none, Bool.false_eq_true, false_and, and_false,
        false_or, true_and, reduceCtorEq, or_false]
      constructor
      · rintro ⟨hk, h1⟩
        obtain ⟨rfl, rfl, rfl, hp⟩ := h1
        exact ⟨⟨⟨hk, hk⟩, rfl⟩, hp⟩
      · rintro ⟨⟨⟨hkw, hkr⟩, hs⟩, hp⟩
        obtain ⟨h1, h2⟩ := hc hs
        exact ⟨hkr, hs, h1, h2, hp⟩
  | some x =>
    cases rsl with
    | none =>
      simp only [isPrefix_iff, Option.isSome_none, Bool.false_eq_true, false_and, and_false,
        false_or, true_and, reduceCtorEq, or_false]
      constructor
      · rintro ⟨hk, h1⟩
        obtain ⟨rfl, rfl, rfl, hp⟩ := h1
        exact ⟨⟨⟨hk, hk⟩, rfl⟩, hp⟩
      · rintro ⟨⟨⟨hkw, hkr⟩, hs⟩, hp⟩
        obtain ⟨h1, h2⟩ := hc hs
        exact ⟨hkw, hs.symm, h1.symm, h2.symm, hp⟩
    | some y =>
      simp only [Option.isSome_some, true_and, reduceCtorEq, and_false, false_and, or_false, parent,
        Option.some.injEq, Obj.mk.injEq, and_true, beq_iff_eq, Bool.and_eq_true]
      constructor
      · rintro (⟨hk, h1⟩ | ⟨hk, ⟨_, h1⟩, hov⟩ | ⟨hk, h1⟩)
        · obtain ⟨rfl, rfl, rfl, rfl, rfl⟩ := h1
          exact ⟨⟨⟨hk, hk⟩, rfl⟩, rfl, overlap_self _ (hw hk x rfl)⟩
        · obtain ⟨rfl, rfl, rfl, rfl⟩ := h1
          exact ⟨⟨⟨hk, hk⟩, rfl⟩, rfl, hov⟩
        · obtain ⟨rfl, rfl, rfl, rfl, rfl⟩ := h1
          exact ⟨⟨⟨hk, hk⟩, rfl⟩, rfl, overlap_self _ (hw hk y rfl)⟩
      · rintro ⟨⟨⟨hkw, hkr⟩, hs⟩, hf, hov⟩
        obtain ⟨h1, h2⟩ := hc hs
        by_cases hxy : x = y
        · exact Or.inl ⟨hkr, hs, h1, h2, hf, hxy⟩
        · refine Or.inr (Or.inl ⟨hkr, ⟨?_, hs, h1, h2, hf⟩, hov⟩)
          intro h; exact hxy h.2.2.2.2

/-! ## 3. membership -/

theorem mem_readBlks (I : Input) (o : Obj) (b : Blk) : b ∈ readBlks I o ↔ b ∈ I.blks ∧ o ∈ b.reads := by
  simp [readBlks]

theorem mem_writeBlks (I : Input) (o : Obj) (b : Blk) : b ∈ writeBlks I o ↔ b ∈ I.blks ∧ o ∈ b.writes := by
  simp [writeBlks]

theorem mem_readObjs (I : Input) (o : Obj) : o ∈ readObjs I ↔ ∃ b ∈ I.blks, o ∈ b.reads := by
  simp [readObjs]

theorem mem_writtenObjs (I : Input) (o : Obj) : o ∈ writtenObjs I ↔ ∃ b ∈ I.blks, o ∈ b.writes := by
  simp [writtenObjs]

theorem mem_expand (blksOf : Obj → List Blk) (cs : List VC) (t : Tagged) :
    t ∈ expand blksOf cs ↔ ∃ c ∈ cs, ∃ b ∈ blksOf c.obj, c.blk ≠ b.id ∧
      t = (if c.lt then (b.id, c.blk) else (c.blk, b.id), c.obj) := by
  unfold expand
  simp only [List.mem_flatMap, List.mem_map, List.mem_filter, bne_iff_ne, ne_eq]
  constructor
  · rintro ⟨c, hc, b, ⟨hb, hne⟩, rfl⟩; exact ⟨c, hc, b, hb, hne, rfl⟩
  · rintro ⟨c, hc, b, hb, hne, rfl⟩; exact ⟨c, hc, b, ⟨hb, hne⟩, rfl⟩

/-- the pair an entry `RD/WR(x) < U` (`lt`) or `RD/WR(x) > U` yields for a block `b` that reads/writes `x` -/
def VC.pair (c : VC) (b : Nat) : Nat × Nat := if c.lt then (b, c.blk) else (c.blk, b)

theorem mem_explicitPairs (I : Input) (p : Nat × Nat) :
    p ∈ explicitPairs I ↔ p ∈ I.uu ∨
      (∃ c ∈ I.rdU, ∃ b ∈ I.blks, c.obj ∈ b.reads ∧ c.blk ≠ b.id ∧ p = c.pair b.id) ∨
      (∃ c ∈ I.wrU, ∃ b ∈ I.blks, c.obj ∈ b.writes ∧ c.blk ≠ b.id ∧ p = c.pair b.id) := by
  unfold explicitPairs explicitTagged
  simp only [List.mem_append, List.mem_map, mem_expand, mem_readBlks, mem_writeBlks, VC.pair]
  constructor
  · rintro (h | ⟨t, (⟨c, hc, b, ⟨hb, ho⟩, hne, rfl⟩ | ⟨c, hc, b, ⟨hb, ho⟩, hne, rfl⟩), rfl⟩)
    · exact Or.inl h
    · exact Or.inr (Or.inl ⟨c, hc, b, hb, ho, hne, rfl⟩)
    · exact Or.inr (Or.inr ⟨c, hc, b, hb, ho, hne, rfl⟩)
  · rintro (h | ⟨c, hc, b, hb, ho, hne, rfl⟩ | ⟨c, hc, b, hb, ho, hne, rfl⟩)
    · exact Or.inl h
    · exact Or.inr ⟨_, Or.inl ⟨c, hc, b, ⟨hb, ho⟩, hne, rfl⟩, rfl⟩
    · exact Or.inr ⟨_, Or.inr ⟨c, hc, b, ⟨hb, ho⟩, hne, rfl⟩, rfl⟩

theorem mem_foundWriters (I : Input) (r w : Obj) :
    w ∈ foundWriters I r ↔ w ∈ writtenObjs I ∧
      (w ∈ ancestors r ∨ (isSig r = true ∧ sibling r w = true ∧ sliceOverlap w r = true)) := by
  unfold foundWriters sibWriters
  by_cases hs : isSig r = true
  · simp only [hs, if_true, List.mem_append, List.mem_filter, decide_eq_true_eq, Bool.and_eq_true, true_and]
    constructor
    · rintro (⟨h1, h2⟩ | ⟨h1, h2⟩)
      · exact ⟨h2, Or.inl h1⟩
      · exact ⟨h1, Or.inr h2⟩
    · rintro ⟨h1, h2 | h2⟩
      · exact Or.inl ⟨h2, h1⟩
      · exact Or.inr ⟨h1, h2⟩
  · simp only [hs, Bool.false_eq_true, if_false, List.append_nil, List.mem_filter, decide_eq_true_eq, false_and, or_false]
    exact ⟨fun ⟨a, b⟩ => ⟨b, a⟩, fun ⟨a, b⟩ => ⟨b, a⟩⟩

theorem mem_foundReaders (I : Input) (w r : Obj) :
    r ∈ foundReaders I w ↔ r ∈ readObjs I ∧ r ∈ ancestors w := by
  unfold foundReaders
  simp only [List.mem_filter, decide_eq_true_eq]
  exact ⟨fun ⟨a, b⟩ => ⟨b, a⟩, fun ⟨a, b⟩ => ⟨b, a⟩⟩

/-- a non-ff block `a` writes `w`, another block `b` reads `r` -/
def Pairing (I : Input) (A B : Nat) (P : Obj → Obj → Prop) : Prop :=
  ∃ a ∈ I.blks, ∃ b ∈ I.blks, a.id = A ∧ b.id = B ∧ A ≠ B ∧ a.ff = false ∧
    ∃ w ∈ a.writes, ∃ r ∈ b.reads, P w r

theorem mem_readerSide (I : Input) (A B : Nat) (o : Obj) :
    ((A, B), o) ∈ readerSide I ↔
      ∃ a ∈ I.blks, ∃ b ∈ I.blks, a.id = A ∧ b.id = B ∧ A ≠ B ∧ a.ff = false ∧ o ∈ b.reads ∧
        ∃ w ∈ a.writes, (w ∈ ancestors o ∨ (isSig o = true ∧ sibling o w = true ∧ sliceOverlap w o = true)) := by
  unfold readerSide
  simp only [List.mem_flatMap, List.mem_map, List.mem_filter, mem_readBlks, mem_writeBlks, mem_foundWriters,
    Prod.mk.injEq, bne_iff_ne, ne_eq, Bool.not_eq_eq_eq_not, Bool.not_true]
  constructor
  · rintro ⟨r, _, w, ⟨_, hf⟩, a, ⟨⟨ha, hw⟩, hff⟩, b, ⟨⟨hb, hr⟩, hne⟩, ⟨rfl, rfl⟩, rfl⟩
    exact ⟨a, ha, b, hb, rfl, rfl, hne, hff, hr, w, hw, hf⟩
  · rintro ⟨a, ha, b, hb, rfl, rfl, hne, hff, hr, w, hw, hf⟩
    exact ⟨o, (mem_readObjs I o).mpr ⟨b, hb, hr⟩, w, ⟨(mem_writtenObjs I w).mpr ⟨a, ha, hw⟩, hf⟩,
      a, ⟨⟨ha, hw⟩, hff⟩, b, ⟨⟨hb, hr⟩, hne⟩, ⟨rfl, rfl⟩, rfl⟩

theorem mem_writerSide (I : Input) (A B : Nat) (o : Obj) :
    ((A, B), o) ∈ writerSide I ↔
      ∃ a ∈ I.blks, ∃ b ∈ I.blks, a.id = A ∧ b.id = B ∧ A ≠ B ∧ a.ff = false ∧ o ∈ a.writes ∧
        ∃ r ∈ b.reads, r ∈ ancestors o := by
  unfold writerSide
  simp only [List.mem_flatMap, List.mem_map, List.mem_filter, mem_readBlks, mem_writeBlks, mem_foundReaders,
    Prod.mk.injEq, bne_iff_ne, ne_eq, Bool.not_eq_eq_eq_not, Bool.not_true]
  constructor
  · rintro ⟨w, _, a, ⟨⟨ha, hw⟩, hff⟩, r, ⟨_, hf⟩, b, ⟨⟨hb, hr⟩, hne⟩, ⟨rfl, rfl⟩, rfl⟩
    exact ⟨a, ha, b, hb, rfl, rfl, hne, hff, hw, r, hr, hf⟩
  · rintro ⟨a, ha, b, hb, rfl, rfl, hne, hff, hw, r, hr, hf⟩
    exact ⟨o, (mem_writtenObjs I o).mpr ⟨a, ha, hw⟩, a, ⟨⟨ha, hw⟩, hff⟩, r, ⟨(mem_readObjs I r).mpr ⟨b, hb, hr⟩, hf⟩,
      b, ⟨⟨hb, hr⟩, hne⟩, ⟨rfl, rfl⟩, rfl⟩

/-- the implicit pairs are exactly what the two walks find between a written and a read object -/
theorem mem_implicitPairs (I : Input) (A B : Nat) :
    (A, B) ∈ implicitPairs I ↔ Pairing I A B Found := by
  unfold implicitPairs implicitTagged Pairing Found
  simp only [List.mem_map, List.mem_append, Prod.exists, Prod.mk.injEq]
  constructor
  · rintro ⟨a', b', o, h, rfl, rfl⟩
    rcases h with h | h
    · obtain ⟨a, ha, b, hb, h1, h2, hne, hff, hr, w, hw, hf⟩ := (mem_readerSide I _ _ o).mp h
      refine ⟨a, ha, b, hb, h1, h2, hne, hff, w, hw, o, hr, ?_⟩
      rcases hf with hf | hf
      · exact Or.inl hf
      · exact Or.inr (Or.inl hf)
    · obtain ⟨a, ha, b, hb, h1, h2, hne, hff, hw, r, hr, hf⟩ := (mem_writerSide I _ _ o).mp h
      exact ⟨a, ha, b, hb, h1, h2, hne, hff, o, hw, r, hr, Or.inr (Or.inr hf)⟩
  · rintro ⟨a, ha, b, hb, h1, h2, hne, hff, w, hw, r, hr, hf⟩
    rcases hf with hf | hf | hf
    · exact ⟨A, B, r, Or.inl ((mem_readerSide I A B r).mpr ⟨a, ha, b, hb, h1, h2, hne, hff, hr, w, hw, Or.inl hf⟩), rfl, rfl⟩
    · exact ⟨A, B, r, Or.inl ((mem_readerSide I A B r).mpr ⟨a, ha, b, hb, h1, h2, hne, hff, hr, w, hw, Or.inr hf⟩), rfl, rfl⟩
    · exact ⟨A, B, w, Or.inr ((mem_writerSide I A B w).mpr ⟨a, ha, b, hb, h1, h2, hne, hff, hw, r, hr, hf⟩), rfl, rfl⟩

/-! ## well-formedness -/

structure Input.WF (I : Input) : Prop where
  /-- kind and host are attributes of the top-level signal -/
  coh : ∀ a ∈ I.objs, ∀ b ∈ I.objs, a.sid = b.sid → a.kind = b.kind ∧ a.host = b.host
  /-- slices of signals are non-empty ranges -/
  slices : ∀ o ∈ I.objs, SliceOk' o

theorem wf_sound {I : Input} (h : I.wf = true) : I.WF := by
  unfold Input.wf at h
  simp only [Bool.and_eq_true, List.all_eq_true, Bool.or_eq_true, bne_iff_ne, ne_eq, beq_iff_eq] at h
  obtain ⟨⟨_, h2⟩, h3⟩ := h
  constructor
  · intro a ha b hb hs
    rcases h2 a ha b hb with h | h
    · exact absurd hs h
    · exact h
  · intro o ho hs s hsl
    have := h3 o ho
    rw [hsl] at this
    simp only [Bool.or_eq_true, Bool.not_eq_true', decide_eq_true_eq] at this
    rcases this with h | h
    · rw [hs] at h; cases h
    · exact h

theorem mem_objs_of_read {I : Input} {b : Blk} {o : Obj} (hb : b ∈ I.blks) (ho : o ∈ b.reads) : o ∈ I.objs := by
  unfold Input.objs
  simp only [List.mem_append]
  exact Or.inl (Or.inl (Or.inl ((mem_readObjs I o).mpr ⟨b, hb, ho⟩)))

theorem mem_objs_of_write {I : Input} {b : Blk} {o : Obj} (hb : b ∈ I.blks) (ho : o ∈ b.writes) : o ∈ I.objs := by
  unfold Input.objs
  simp only [List.mem_append]
  exact Or.inl (Or.inl (Or.inr ((mem_writtenObjs I o).mpr ⟨b, hb, ho⟩)))

theorem pairing_congr {I : Input} {A B : Nat} {P Q : Obj → Obj → Prop}
    (h : ∀ w r, w ∈ I.objs → r ∈ I.objs → (P w r ↔ Q w r)) : Pairing I A B P ↔ Pairing I A B Q := by
  unfold Pairing
  constructor
  · rintro ⟨a, ha, b, hb, h1, h2, hne, hff, w, hw, r, hr, hp⟩
    exact ⟨a, ha, b, hb, h1, h2, hne, hff, w, hw, r, hr,
      (h w r (mem_objs_of_write ha hw) (mem_objs_of_read hb hr)).mp hp⟩
  · rintro ⟨a, ha, b, hb, h1, h2, hne, hff, w, hw, r, hr, hp⟩
    exact ⟨a, ha, b, hb, h1, h2, hne, hff, w, hw, r, hr,
      (h w r (mem_objs_of_write ha hw) (mem_objs_of_read hb hr)).mpr hp⟩

theorem mem_valueConstraints (I : Input) (p : Nat × Nat) :
    p ∈ valueConstraints I ↔ p ∈ explicitPairs I ∨ (p ∈ implicitPairs I ∧ (p.2, p.1) ∉ explicitPairs I) := by
  unfold valueConstraints
  simp only [List.mem_append, List.mem_filter, Bool.not_eq_true', List.contains_eq_mem, decide_eq_false_iff_not]

/-! ## schedules -/

theorem topoFor_iff (E : List (Nat × Nat)) (o : List Nat) :
    topoFor E o = true ↔ ∀ e ∈ E, posOf o e.1 < posOf o e.2 := by
  simp [topoFor]

end PV.GenDag
