import PymtlVerif.Proofs.Meta
/-!
# The path-indexed hierarchy of `Model/Meta.lean` is a flattened tree (C15)

`Tree` / `Forest` are the component tree as an inductive type (a forest of named children in
first-child / next-sibling form); `Tree.set` is real subtree replacement by recursion along the path.
`set_flatten`: flattening commutes with replacement — `Meta.set` (drop every component whose path has
the prefix `p`, append the new subtree mounted at `p`) is subtree replacement, provided sibling names
are distinct and `p` is the path of a component.
-/
namespace PV.Meta

inductive Forest where
  | nil
  | cons (name : String) (c : Comp) (kids : Forest) (rest : Forest)

structure Tree where
  c : Comp
  kids : Forest

namespace Forest

def flatten (q : Name) : Forest → Hier
  | nil => []
  | cons n c k r => (q ++ [n], c) :: (k.flatten (q ++ [n]) ++ r.flatten q)

def names : Forest → List String
  | nil => []
  | cons n _ _ r => n :: r.names

/-- sibling names are distinct, at every level -/
def Wf : Forest → Prop
  | nil => True
  | cons n _ k r => n ∉ r.names ∧ k.Wf ∧ r.Wf

/-- `p` is the (relative, non-empty) path of a component of the forest -/
def has : Forest → Name → Prop
  | nil, _ => False
  | cons _ _ _ _, [] => False
  | cons n _ k r, a :: p => (n = a ∧ (p = [] ∨ k.has p)) ∨ (n ≠ a ∧ r.has (a :: p))

/-- replace the subtree at the relative path `p` -/
def set : Forest → Name → Tree → Forest
  | nil, _, _ => nil
  | cons n c k r, [], _ => cons n c k r
  | cons n c k r, a :: p, N =>
    if n = a then
      (match p with
       | [] => cons n N.c N.kids r
       | _ :: _ => cons n c (k.set p N) r)
    else cons n c k (r.set (a :: p) N)

end Forest

def Tree.flatten (t : Tree) : Hier := ([], t.c) :: t.kids.flatten []

def Tree.set (t : Tree) (p : Name) (N : Tree) : Tree :=
  match p with
  | [] => N
  | _ :: _ => ⟨t.c, t.kids.set p N⟩

/-! ## lemmas -/

theorem Forest.pre_flatten (p q : Name) (f : Forest) :
    pre p (f.flatten q) = f.flatten (p ++ q) := by
  induction f generalizing q with
  | nil => rfl
  | cons n c k r ihk ihr =>
    simp only [Forest.flatten, pre, List.map_cons, List.map_append, List.append_assoc] at *
    rw [ihk, ihr]

/-- every path of `f.flatten q` starts with `q ++ [m]` for a top-level name `m` of `f` -/
theorem Forest.mem_flatten_prefix {f : Forest} {q : Name} {x : Name × Comp}
    (h : x ∈ f.flatten q) : ∃ m ∈ f.names, q ++ [m] <+: x.1 := by
  induction f generalizing q with
  | nil => cases h
  | cons n c k r ihk ihr =>
    simp only [Forest.flatten, List.mem_cons, List.mem_append] at h
    rcases h with rfl | h | h
    · exact ⟨n, by simp [Forest.names], List.prefix_refl _⟩
    · obtain ⟨m, _, hm⟩ := ihk h
      exact ⟨n, by simp [Forest.names], (List.prefix_append _ [m]).trans hm⟩
    · obtain ⟨m, hm, hp⟩ := ihr h
      exact ⟨m, by simp [Forest.names, hm], hp⟩

theorem prefix_snoc_ne {q : Name} {m a : String} {rest x : Name} (hne : m ≠ a)
    (h1 : q ++ [m] <+: x) (h2 : q ++ a :: rest <+: x) : False := by
  obtain ⟨t1, rfl⟩ := h1
  obtain ⟨t2, h2⟩ := h2
  simp only [List.append_assoc, List.cons_append, List.nil_append] at h2
  have := List.append_cancel_left h2
  injection this with h _
  exact hne h.symm

/-- no path of `f.flatten q` is under `q ++ a :: rest` when `a` is not a top-level name of `f` -/
theorem Forest.not_under_of_not_name {f : Forest} {q : Name} {a : String} {rest : Name}
    {x : Name × Comp} (ha : a ∉ f.names) (h : x ∈ f.flatten q) :
    under (q ++ a :: rest) x.1 = false := by
  obtain ⟨m, hm, hp⟩ := Forest.mem_flatten_prefix h
  cases hu : under (q ++ a :: rest) x.1
  · rfl
  · exfalso
    exact prefix_snoc_ne (fun (e : m = a) => ha (by rw [← e]; exact hm)) hp (under_iff.1 hu)

theorem Forest.under_of_mem {f : Forest} {q : Name} {x : Name × Comp} (h : x ∈ f.flatten q) :
    under q x.1 = true := by
  obtain ⟨m, _, hp⟩ := Forest.mem_flatten_prefix h
  exact under_iff.2 ((List.prefix_append q [m]).trans hp)

theorem not_under_shorter (q : Name) (a b : String) (rest : Name) :
    under (q ++ a :: b :: rest) (q ++ [a]) = false := by
  cases h : under (q ++ a :: b :: rest) (q ++ [a])
  · rfl
  · have := (under_iff.1 h).length_le
    simp at this

theorem not_under_sibling (q : Name) {n a : String} (rest : Name) (hne : n ≠ a) :
    under (q ++ a :: rest) (q ++ [n]) = false := by
  cases h : under (q ++ a :: rest) (q ++ [n])
  · rfl
  · exfalso
    exact prefix_snoc_ne hne (List.prefix_refl _) (under_iff.1 h)

/-- flattening commutes with subtree replacement (forest level, any mount point `q`) -/
theorem Forest.set_flatten (f : Forest) : ∀ (q p : Name) (N : Tree), f.Wf → f.has p →
    ∀ x, x ∈ (f.set p N).flatten q ↔
      x ∈ (f.flatten q).filter (fun y => !under (q ++ p) y.1) ++ pre (q ++ p) N.flatten := by
  induction f with
  | nil => intro q p N _ hp; cases hp
  | cons n c k r ihk ihr =>
    intro q p N hw hp x
    obtain ⟨hn, hwk, hwr⟩ := hw
    match p, hp with
    | a :: p', hp =>
      simp only [Forest.has] at hp
      rcases hp with ⟨rfl, hp⟩ | ⟨hne, hp⟩
      · -- the path enters this child
        have hr : ∀ y ∈ r.flatten q, under (q ++ n :: p') y.1 = false :=
          fun y hy => Forest.not_under_of_not_name hn hy
        match p', hp with
        | [], _ =>
          -- the child itself is replaced
          simp only [Forest.set, if_true, Forest.flatten, List.mem_cons, List.mem_append,
            List.filter_cons, List.filter_append, under_self, Bool.not_true,
            Tree.flatten, pre, List.map_cons, List.append_nil]
          have hk : (k.flatten (q ++ [n])).filter (fun y => !under (q ++ [n]) y.1) = [] := by
            rw [List.filter_eq_nil_iff]
            intro y hy; simp [Forest.under_of_mem hy]
          have hr' : (r.flatten q).filter (fun y => !under (q ++ [n]) y.1) = r.flatten q := by
            rw [List.filter_eq_self]
            intro y hy; simp [hr y hy]
          have hpre := Forest.pre_flatten (q ++ [n]) [] N.kids
          simp only [pre, List.append_nil] at hpre
          simp only [hk, hr', hpre, List.nil_append, Bool.false_eq_true, if_false]
          constructor
          · rintro (h | h | h)
            · exact Or.inr (Or.inl h)
            · exact Or.inr (Or.inr h)
            · exact Or.inl h
          · rintro (h | h | h)
            · exact Or.inr (Or.inr h)
            · exact Or.inl h
            · exact Or.inr (Or.inl h)
        | b :: p'', hp =>
          have hk := hp.resolve_left (by simp)
          have ih := ihk (q ++ [n]) (b :: p'') N hwk hk x
          simp only [List.append_assoc, List.singleton_append] at ih
          simp only [Forest.set, if_true, Forest.flatten, List.mem_cons, List.mem_append,
            List.filter_cons, List.filter_append, not_under_shorter, Bool.not_false, if_true]
          have hr' : (r.flatten q).filter (fun y => !under (q ++ n :: b :: p'') y.1) = r.flatten q := by
            rw [List.filter_eq_self]
            intro y hy; simp [hr y hy]
          rw [hr', ih]
          simp only [List.mem_append]
          constructor
          · rintro (h | (h | h) | h)
            · exact Or.inl (Or.inl h)
            · exact Or.inl (Or.inr (Or.inl h))
            · exact Or.inr h
            · exact Or.inl (Or.inr (Or.inr h))
          · rintro ((h | h | h) | h)
            · exact Or.inl h
            · exact Or.inr (Or.inl (Or.inl h))
            · exact Or.inr (Or.inr h)
            · exact Or.inr (Or.inl (Or.inr h))
      · -- the path goes on among the later siblings
        have ih := ihr q (a :: p') N hwr hp x
        have hk' : (k.flatten (q ++ [n])).filter (fun y => !under (q ++ a :: p') y.1)
            = k.flatten (q ++ [n]) := by
          rw [List.filter_eq_self]
          intro y hy
          obtain ⟨m, _, hm⟩ := Forest.mem_flatten_prefix hy
          cases hu : under (q ++ a :: p') y.1
          · rfl
          · exfalso
            exact prefix_snoc_ne hne ((List.prefix_append _ [m]).trans hm) (under_iff.1 hu)
        simp only [Forest.set, if_neg hne, Forest.flatten, List.mem_cons, List.mem_append,
          List.filter_cons, List.filter_append, not_under_sibling q p' hne, Bool.not_false, if_true,
          hk']
        rw [ih]
        simp only [List.mem_append]
        constructor
        · rintro (h | h | h | h)
          · exact Or.inl (Or.inl h)
          · exact Or.inl (Or.inr (Or.inl h))
          · exact Or.inl (Or.inr (Or.inr h))
          · exact Or.inr h
        · rintro ((h | h | h) | h)
          · exact Or.inl h
          · exact Or.inr (Or.inl h)
          · exact Or.inr (Or.inr (Or.inl h))
          · exact Or.inr (Or.inr (Or.inr h))

/-- tree level: `Meta.set` on the flattening is subtree replacement -/
theorem Tree.set_flatten (t : Tree) (p : Name) (N : Tree) (hw : t.kids.Wf)
    (hp : p = [] ∨ t.kids.has p) :
    ∀ x, x ∈ (t.set p N).flatten ↔ x ∈ PV.Meta.set t.flatten p N.flatten := by
  intro x
  match p, hp with
  | [], _ =>
    have : ∀ y ∈ t.flatten, (!under [] y.1) = false := by intro y _; simp [under]
    have hf : t.flatten.filter (fun y => !under [] y.1) = [] := by
      rw [List.filter_eq_nil_iff]; intro y hy; simp [this y hy]
    simp [Tree.set, PV.Meta.set, hf, pre]
  | a :: p', hp =>
    have hp := hp.resolve_left (by simp)
    have h := Forest.set_flatten t.kids [] (a :: p') N hw hp x
    simp only [List.nil_append] at h
    simp only [Tree.set, Tree.flatten, PV.Meta.set, List.mem_cons, List.mem_append,
      List.filter_cons, under, List.isPrefixOf, Bool.not_false, if_true]
    rw [h]
    simp only [List.mem_append, Tree.flatten, under]
    constructor
    · rintro (h | h | h)
      · exact Or.inl (Or.inl h)
      · exact Or.inl (Or.inr h)
      · exact Or.inr h
    · rintro ((h | h) | h)
      · exact Or.inl h
      · exact Or.inr (Or.inl h)
      · exact Or.inr (Or.inr h)

/-- hierarchies with the same components elaborate to the same entries -/
theorem elaborate_congr {A B : Hier} (h : ∀ x, x ∈ A ↔ x ∈ B) : Equiv (elaborate A) (elaborate B) := by
  intro e
  simp only [mem_elaborate]
  exact ⟨fun ⟨x, hx, he⟩ => ⟨x, (h x).1 hx, he⟩, fun ⟨x, hx, he⟩ => ⟨x, (h x).2 hx, he⟩⟩

end PV.Meta
