import PymtlVerif.Proofs.TC
/-!
C10 helper lemmas about the *final* annotated tree: the enforcer only ever changes the width of
implicit nodes, so every explicitly sized node of the tree the checker leaves behind carries exactly
the annotation it got when it was visited; and every sub-expression of an accepted (clean) expression
is itself accepted (clean) in the same environment.
-/
namespace PV.TC

/-! ## sub-expressions of an accepted expression are accepted -/

theorem kids_accepted (Γ : Env) : ∀ (e : Expr) (t : AT), checkE Γ e = .ok t →
    ∀ e' ∈ kidsE e, ∃ t', checkE Γ e' = .ok t' := by
  intro e t h e' he'
  cases e with
  | sig _ _ | num _ | lv _ | tmp _ => simp [kidsE] at he'
  | un op a =>
    obtain ⟨te, h1, _⟩ := checkE_un_inv h
    simp only [kidsE, List.mem_singleton] at he'; subst he'; exact ⟨te, h1⟩
  | bin op l r =>
    obtain ⟨tl, tr, h1, h2, _⟩ := checkE_bin_inv h
    simp only [kidsE, List.mem_cons, List.not_mem_nil, or_false] at he'
    rcases he' with rfl | rfl
    · exact ⟨tl, h1⟩
    · exact ⟨tr, h2⟩
  | cmp op l r =>
    obtain ⟨tl, tr, h1, h2, _⟩ := checkE_cmp_inv h
    simp only [kidsE, List.mem_cons, List.not_mem_nil, or_false] at he'
    rcases he' with rfl | rfl
    · exact ⟨tl, h1⟩
    · exact ⟨tr, h2⟩
  | ite c a b =>
    obtain ⟨tc, tt, tf, h1, h2, h3, _⟩ := checkE_ite_inv h
    simp only [kidsE, List.mem_cons, List.not_mem_nil, or_false] at he'
    rcases he' with rfl | rfl | rfl
    · exact ⟨tc, h1⟩
    · exact ⟨tt, h2⟩
    · exact ⟨tf, h3⟩
  | cast n a =>
    obtain ⟨te, h1, _⟩ := checkE_cast_inv h
    simp only [kidsE, List.mem_singleton] at he'; subst he'; exact ⟨te, h1⟩
  | ext k ty a n =>
    obtain ⟨te, h1, _⟩ := checkE_ext_inv h
    simp only [kidsE, List.mem_singleton] at he'; subst he'; exact ⟨te, h1⟩
  | red op a =>
    obtain ⟨te, h1, _⟩ := checkE_red_inv h
    simp only [kidsE, List.mem_singleton] at he'; subst he'; exact ⟨te, h1⟩
  | cat l r =>
    obtain ⟨tl, tr, h1, h2, _⟩ := checkE_cat_inv h
    simp only [kidsE, List.mem_cons, List.not_mem_nil, or_false] at he'
    rcases he' with rfl | rfl
    · exact ⟨tl, h1⟩
    · exact ⟨tr, h2⟩
  | idx x w i =>
    obtain ⟨ti, h1, _⟩ := checkE_idx_inv h
    simp only [kidsE, List.mem_singleton] at he'; subst he'; exact ⟨ti, h1⟩
  | slc x w lo hi =>
    obtain ⟨tl, tr, h1, h2, _⟩ := checkE_slc_inv h
    simp only [kidsE, List.mem_cons, List.not_mem_nil, or_false] at he'
    rcases he' with rfl | rfl
    · exact ⟨tl, h1⟩
    · exact ⟨tr, h2⟩

theorem subs_eq (e : Expr) : subs e = e :: (kidsE e).flatMap subs := by
  cases e <;> simp [subs, kidsE]

theorem subs_accepted (Γ : Env) : ∀ (e : Expr) (t : AT), checkE Γ e = .ok t →
    ∀ e' ∈ subs e, ∃ t', checkE Γ e' = .ok t' := by
  intro e
  induction e with
  | sig x w => intro t h e' he'; simp only [subs, List.mem_singleton] at he'; subst he'; exact ⟨t, h⟩
  | num v => intro t h e' he'; simp only [subs, List.mem_singleton] at he'; subst he'; exact ⟨t, h⟩
  | lv i => intro t h e' he'; simp only [subs, List.mem_singleton] at he'; subst he'; exact ⟨t, h⟩
  | tmp i => intro t h e' he'; simp only [subs, List.mem_singleton] at he'; subst he'; exact ⟨t, h⟩
  | un op a ih =>
    intro t h e' he'
    simp only [subs, List.mem_cons] at he'
    rcases he' with rfl | he'
    · exact ⟨t, h⟩
    · obtain ⟨ta, ha⟩ := kids_accepted Γ _ t h a (by simp [kidsE])
      exact ih ta ha e' he'
  | bin op l r ihl ihr =>
    intro t h e' he'
    simp only [subs, List.mem_cons, List.mem_append] at he'
    rcases he' with rfl | he' | he'
    · exact ⟨t, h⟩
    · obtain ⟨ta, ha⟩ := kids_accepted Γ _ t h l (by simp [kidsE])
      exact ihl ta ha e' he'
    · obtain ⟨ta, ha⟩ := kids_accepted Γ _ t h r (by simp [kidsE])
      exact ihr ta ha e' he'
  | cmp op l r ihl ihr =>
    intro t h e' he'
    simp only [subs, List.mem_cons, List.mem_append] at he'
    rcases he' with rfl | he' | he'
    · exact ⟨t, h⟩
    · obtain ⟨ta, ha⟩ := kids_accepted Γ _ t h l (by simp [kidsE])
      exact ihl ta ha e' he'
    · obtain ⟨ta, ha⟩ := kids_accepted Γ _ t h r (by simp [kidsE])
      exact ihr ta ha e' he'
  | ite c a b ihc iha ihb =>
    intro t h e' he'
    simp only [subs, List.mem_cons, List.mem_append] at he'
    rcases he' with rfl | (he' | he') | he'
    · exact ⟨t, h⟩
    · obtain ⟨ta, ha⟩ := kids_accepted Γ _ t h c (by simp [kidsE])
      exact ihc ta ha e' he'
    · obtain ⟨ta, ha⟩ := kids_accepted Γ _ t h a (by simp [kidsE])
      exact iha ta ha e' he'
    · obtain ⟨ta, ha⟩ := kids_accepted Γ _ t h b (by simp [kidsE])
      exact ihb ta ha e' he'
  | cast n a ih =>
    intro t h e' he'
    simp only [subs, List.mem_cons] at he'
    rcases he' with rfl | he'
    · exact ⟨t, h⟩
    · obtain ⟨ta, ha⟩ := kids_accepted Γ _ t h a (by simp [kidsE])
      exact ih ta ha e' he'
  | ext k ty a n ih =>
    intro t h e' he'
    simp only [subs, List.mem_cons] at he'
    rcases he' with rfl | he'
    · exact ⟨t, h⟩
    · obtain ⟨ta, ha⟩ := kids_accepted Γ _ t h a (by simp [kidsE])
      exact ih ta ha e' he'
  | red op a ih =>
    intro t h e' he'
    simp only [subs, List.mem_cons] at he'
    rcases he' with rfl | he'
    · exact ⟨t, h⟩
    · obtain ⟨ta, ha⟩ := kids_accepted Γ _ t h a (by simp [kidsE])
      exact ih ta ha e' he'
  | cat l r ihl ihr =>
    intro t h e' he'
    simp only [subs, List.mem_cons, List.mem_append] at he'
    rcases he' with rfl | he' | he'
    · exact ⟨t, h⟩
    · obtain ⟨ta, ha⟩ := kids_accepted Γ _ t h l (by simp [kidsE])
      exact ihl ta ha e' he'
    · obtain ⟨ta, ha⟩ := kids_accepted Γ _ t h r (by simp [kidsE])
      exact ihr ta ha e' he'
  | idx x w i ih =>
    intro t h e' he'
    simp only [subs, List.mem_cons] at he'
    rcases he' with rfl | he'
    · exact ⟨t, h⟩
    · obtain ⟨ta, ha⟩ := kids_accepted Γ _ t h i (by simp [kidsE])
      exact ih ta ha e' he'
  | slc x w lo hi ihl ihr =>
    intro t h e' he'
    simp only [subs, List.mem_cons, List.mem_append] at he'
    rcases he' with rfl | he' | he'
    · exact ⟨t, h⟩
    · obtain ⟨ta, ha⟩ := kids_accepted Γ _ t h lo (by simp [kidsE])
      exact ihl ta ha e' he'
    · obtain ⟨ta, ha⟩ := kids_accepted Γ _ t h hi (by simp [kidsE])
      exact ihr ta ha e' he'

/-! ## value sub-expressions of a clean expression are clean -/

theorem vsubs_clean (Γ : Env) : ∀ (e : Expr), issuesE Γ e = [] → ∀ e' ∈ vsubs e, issuesE Γ e' = [] := by
  intro e
  induction e with
  | sig x w => intro h e' he'; simp only [vsubs, List.mem_singleton] at he'; subst he'; exact h
  | num v => intro h e' he'; simp only [vsubs, List.mem_singleton] at he'; subst he'; exact h
  | lv i => intro h e' he'; simp only [vsubs, List.mem_singleton] at he'; subst he'; exact h
  | tmp i => intro h e' he'; simp only [vsubs, List.mem_singleton] at he'; subst he'; exact h
  | un op a ih =>
    intro h e' he'
    simp only [vsubs, List.mem_cons] at he'
    rcases he' with rfl | he'
    · exact h
    · simp only [issuesE, List.append_eq_nil_iff] at h; exact ih h.1 e' he'
  | bin op l r ihl ihr =>
    intro h e' he'
    simp only [vsubs, List.mem_cons, List.mem_append] at he'
    rcases he' with rfl | he' | he'
    · exact h
    · simp only [issuesE, List.append_eq_nil_iff] at h; exact ihl h.1.1 e' he'
    · simp only [issuesE, List.append_eq_nil_iff] at h; exact ihr h.1.2 e' he'
  | cmp op l r ihl ihr =>
    intro h e' he'
    simp only [vsubs, List.mem_cons, List.mem_append] at he'
    rcases he' with rfl | he' | he'
    · exact h
    · simp only [issuesE, List.append_eq_nil_iff] at h; exact ihl h.1.1 e' he'
    · simp only [issuesE, List.append_eq_nil_iff] at h; exact ihr h.1.2 e' he'
  | ite c a b ihc iha ihb =>
    intro h e' he'
    simp only [vsubs, List.mem_cons, List.mem_append] at he'
    rcases he' with rfl | (he' | he') | he'
    · exact h
    · simp only [issuesE, List.append_eq_nil_iff] at h
      by_cases hio : intOnly c = true
      · simp [hio] at he'
      · simp only [hio, Bool.false_eq_true, ↓reduceIte] at he' h
        exact ihc h.1.1.1 e' he'
    · simp only [issuesE, List.append_eq_nil_iff] at h; exact iha h.1.1.2 e' he'
    · simp only [issuesE, List.append_eq_nil_iff] at h; exact ihb h.1.2 e' he'
  | cast n a ih =>
    intro h e' he'
    simp only [vsubs, List.mem_cons] at he'
    rcases he' with rfl | he'
    · exact h
    · simp only [issuesE, List.append_eq_nil_iff] at h; exact ih h.1 e' he'
  | ext k ty a n ih =>
    intro h e' he'
    simp only [vsubs, List.mem_cons] at he'
    rcases he' with rfl | he'
    · exact h
    · simp only [issuesE, List.append_eq_nil_iff] at h; exact ih h.1 e' he'
  | red op a ih =>
    intro h e' he'
    simp only [vsubs, List.mem_cons] at he'
    rcases he' with rfl | he'
    · exact h
    · simp only [issuesE] at h; exact ih h e' he'
  | cat l r ihl ihr =>
    intro h e' he'
    simp only [vsubs, List.mem_cons, List.mem_append] at he'
    rcases he' with rfl | he' | he'
    · exact h
    · simp only [issuesE, List.append_eq_nil_iff] at h; exact ihl h.1.1 e' he'
    · simp only [issuesE, List.append_eq_nil_iff] at h; exact ihr h.1.2 e' he'
  | idx x w i ih =>
    intro h e' he'
    simp only [vsubs, List.mem_cons] at he'
    rcases he' with rfl | he'
    · exact h
    · simp only [issuesE, List.append_eq_nil_iff] at h
      by_cases hio : intOnly i = true
      · simp [hio] at he'
      · simp only [hio, Bool.false_eq_true, ↓reduceIte] at he' h
        exact ih h.2 e' he'
  | slc x w lo hi _ _ =>
    intro h e' he'; simp only [vsubs, List.mem_singleton] at he'; subst he'; exact h

theorem vsubs_sub_subs : ∀ (e : Expr) (e' : Expr), e' ∈ vsubs e → e' ∈ subs e := by
  intro e
  induction e with
  | sig _ _ | num _ | lv _ | tmp _ => intro e' h; simpa [vsubs, subs] using h
  | un op a ih | cast n a ih | ext k ty a n ih | red op a ih =>
    intro e' h
    simp only [vsubs, subs, List.mem_cons] at h ⊢
    rcases h with h | h
    · exact Or.inl h
    · exact Or.inr (ih e' h)
  | bin op l r ihl ihr | cmp op l r ihl ihr | cat l r ihl ihr =>
    intro e' h
    simp only [vsubs, subs, List.mem_cons, List.mem_append] at h ⊢
    rcases h with h | h | h
    · exact Or.inl h
    · exact Or.inr (Or.inl (ihl e' h))
    · exact Or.inr (Or.inr (ihr e' h))
  | ite c a b ihc iha ihb =>
    intro e' h
    simp only [vsubs, subs, List.mem_cons, List.mem_append] at h ⊢
    rcases h with h | (h | h) | h
    · exact Or.inl h
    · by_cases hio : intOnly c = true
      · simp [hio] at h
      · simp only [hio, Bool.false_eq_true, ↓reduceIte] at h
        exact Or.inr (Or.inl (Or.inl (ihc e' h)))
    · exact Or.inr (Or.inl (Or.inr (iha e' h)))
    · exact Or.inr (Or.inr (ihb e' h))
  | idx x w i ih =>
    intro e' h
    simp only [vsubs, subs, List.mem_cons] at h ⊢
    rcases h with h | h
    · exact Or.inl h
    · by_cases hio : intOnly i = true
      · simp [hio] at h
      · simp only [hio, Bool.false_eq_true, ↓reduceIte] at h
        exact Or.inr (ih e' h)
  | slc x w lo hi _ _ =>
    intro e' h
    simp only [vsubs, subs, List.mem_cons] at h ⊢
    rcases h with h | h
    · exact Or.inl h
    · simp at h

/-! ## the enforcer never touches an explicitly sized node -/

/-- `b` is what `a` may have become after any number of enforcements -/
def SimA (a b : Ann) : Prop := b.ex = a.ex ∧ b.val = a.val ∧ (a.ex = true → b.w = a.w)

def Sim : AT → AT → Prop
  | .leaf a, .leaf b => SimA a b
  | .idx a k, .idx b j => SimA a b ∧ Sim k j
  | .n1 a k, .n1 b j => SimA a b ∧ Sim k j
  | .n2 a k1 k2, .n2 b j1 j2 => SimA a b ∧ Sim k1 j1 ∧ Sim k2 j2
  | .ite a c t f, .ite b c' t' f' => SimA a b ∧ Sim c c' ∧ Sim t t' ∧ Sim f f'
  | _, _ => False

theorem SimA.refl (a : Ann) : SimA a a := ⟨rfl, rfl, fun _ => rfl⟩

theorem SimA.trans {a b c : Ann} (h1 : SimA a b) (h2 : SimA b c) : SimA a c :=
  ⟨h2.1.trans h1.1, h2.2.1.trans h1.2.1, fun h => (h2.2.2 (h1.1.trans h)).trans (h1.2.2 h)⟩

theorem simA_resize (w : Nat) (a : Ann) : SimA a (resize w a) := by
  unfold resize
  split
  · exact SimA.refl a
  · next h => exact ⟨rfl, rfl, fun h' => absurd h' h⟩

theorem Sim.refl : ∀ t : AT, Sim t t
  | .leaf a => SimA.refl a
  | .idx a k => ⟨SimA.refl a, Sim.refl k⟩
  | .n1 a k => ⟨SimA.refl a, Sim.refl k⟩
  | .n2 a k1 k2 => ⟨SimA.refl a, Sim.refl k1, Sim.refl k2⟩
  | .ite a c t f => ⟨SimA.refl a, Sim.refl c, Sim.refl t, Sim.refl f⟩

theorem Sim.trans : ∀ {t1 t2 t3 : AT}, Sim t1 t2 → Sim t2 t3 → Sim t1 t3 := by
  intro t1
  induction t1 with
  | leaf a => intro t2 t3 h1 h2; cases t2 <;> cases t3 <;> simp only [Sim] at h1 h2 ⊢ <;> first | exact h1.trans h2 | contradiction
  | idx a k ih =>
    intro t2 t3 h1 h2
    cases t2 <;> cases t3 <;> simp only [Sim] at h1 h2 ⊢ <;> first | exact ⟨h1.1.trans h2.1, ih h1.2 h2.2⟩ | contradiction
  | n1 a k ih =>
    intro t2 t3 h1 h2
    cases t2 <;> cases t3 <;> simp only [Sim] at h1 h2 ⊢ <;> first | exact ⟨h1.1.trans h2.1, ih h1.2 h2.2⟩ | contradiction
  | n2 a k1 k2 ih1 ih2 =>
    intro t2 t3 h1 h2
    cases t2 <;> cases t3 <;> simp only [Sim] at h1 h2 ⊢ <;>
      first | exact ⟨h1.1.trans h2.1, ih1 h1.2.1 h2.2.1, ih2 h1.2.2 h2.2.2⟩ | contradiction
  | ite a c t f ihc iht ihf =>
    intro t2 t3 h1 h2
    cases t2 <;> cases t3 <;> simp only [Sim] at h1 h2 ⊢ <;>
      first | exact ⟨h1.1.trans h2.1, ihc h1.2.1 h2.2.1, iht h1.2.2.1 h2.2.2.1, ihf h1.2.2.2 h2.2.2.2⟩ | contradiction

theorem enforce_sim (w : Nat) : ∀ t : AT, Sim t (enforce w t)
  | .leaf a => simA_resize w a
  | .idx a k => ⟨simA_resize w a, Sim.refl k⟩
  | .n1 a k => ⟨SimA.refl a, enforce_sim w k⟩
  | .n2 a k1 k2 => ⟨by split; exact simA_resize w a; exact SimA.refl a, enforce_sim w k1, enforce_sim w k2⟩
  | .ite a c t f => ⟨simA_resize w a, Sim.refl c, enforce_sim w t, enforce_sim w f⟩

theorem Sim.ann : ∀ {t t' : AT}, Sim t t' → SimA t.ann t'.ann := by
  intro t t' h
  cases t <;> cases t' <;> simp only [Sim] at h <;> first | exact h | exact h.1 | contradiction

/-! shape of the tree a node rule builds: the children are the checked children, possibly enforced -/

theorem unify_sim {tl tr : AT} {p : AT × AT} (h : unify tl tr = .ok p) : Sim tl p.1 ∧ Sim tr p.2 := by
  unfold unify at h
  simp only at h
  repeat' split at h
  all_goals (cases h <;> first
    | exact ⟨Sim.refl _, Sim.refl _⟩
    | exact ⟨Sim.refl _, enforce_sim _ _⟩
    | exact ⟨enforce_sim _ _, Sim.refl _⟩)

theorem binRule_shape {op : Op} {tl tr t : AT} (h : binRule op tl tr = .ok t) :
    ∃ a k1 k2, t = .n2 a k1 k2 ∧ Sim tl k1 ∧ Sim tr k2 := by
  unfold binRule at h
  simp only at h
  split at h
  · split at h
    · cases h; exact ⟨_, _, _, rfl, Sim.refl _, Sim.refl _⟩
    · cases h
  · cases hu : unify tl tr with
    | error e => simp [hu] at h
    | ok p =>
      simp only [hu] at h
      split at h
      · cases h; exact ⟨_, _, _, rfl, (unify_sim hu).1, (unify_sim hu).2⟩
      · cases h

theorem cmpRule_shape {tl tr t : AT} (h : cmpRule tl tr = .ok t) :
    ∃ a k1 k2, t = .n2 a k1 k2 ∧ Sim tl k1 ∧ Sim tr k2 := by
  unfold cmpRule at h
  cases hu : unify tl tr with
  | error e => simp [hu] at h
  | ok p => simp only [hu] at h; cases h; exact ⟨_, _, _, rfl, (unify_sim hu).1, (unify_sim hu).2⟩

theorem iteRule_shape {tc tt tf t : AT} (h : iteRule tc tt tf = .ok t) :
    ∃ a k2 k3, t = .ite a tc k2 k3 ∧ Sim tt k2 ∧ Sim tf k3 := by
  unfold iteRule at h
  simp only at h
  repeat' split at h
  all_goals (cases h <;> first
    | exact ⟨_, _, _, rfl, Sim.refl _, Sim.refl _⟩
    | exact ⟨_, _, _, rfl, Sim.refl _, enforce_sim _ _⟩
    | exact ⟨_, _, _, rfl, enforce_sim _ _, Sim.refl _⟩)

theorem extRule_shape {k : ExtK} {te t : AT} {n : Nat} (h : extRule k te n = .ok t) : ∃ a, t = .n1 a te := by
  unfold extRule at h
  repeat' split at h
  all_goals (cases h <;> exact ⟨_, rfl⟩)

theorem handleIdx_sim {n : Nat} {t t' : AT} {b : Bool} (h : handleIdx n t b = .ok t') : Sim t t' := by
  unfold handleIdx at h
  simp only at h
  repeat' split at h
  all_goals (cases h <;> first | exact Sim.refl _ | exact enforce_sim _ _)

theorem idxRule_shape {w : Nat} {ti t : AT} (h : idxRule w ti = .ok t) : ∃ a k, t = .idx a k ∧ Sim ti k := by
  unfold idxRule at h
  cases hh : handleIdx (idxW w) ti true with
  | error e => simp [hh] at h
  | ok ti' =>
    simp only [hh] at h
    repeat' split at h
    all_goals (cases h <;> exact ⟨_, _, rfl, handleIdx_sim hh⟩)

theorem slcRule_shape {w : Nat} {lo hi : Expr} {tlo thi t : AT} (h : slcRule w lo hi tlo thi = .ok t) :
    ∃ a k1 k2, t = .n2 a k1 k2 ∧ Sim tlo k1 ∧ Sim thi k2 := by
  unfold slcRule at h
  cases h1 : handleIdx (idxW w) tlo true with
  | error e => simp [h1] at h
  | ok tlo' =>
    cases h2 : handleIdx (idxW w) thi false with
    | error e => simp [h1, h2] at h
    | ok thi' =>
      simp only [h1, h2] at h
      repeat' split at h
      all_goals (cases h <;> exact ⟨_, _, _, rfl, handleIdx_sim h1, handleIdx_sim h2⟩)

/-- the (sub-expression, annotation) pairs of an expression and its annotated tree, in preorder -/
def nodes : Expr → AT → List (Expr × Ann)
  | e@(.un _ a), .n1 an k => (e, an) :: nodes a k
  | e@(.bin _ l r), .n2 an k1 k2 => (e, an) :: (nodes l k1 ++ nodes r k2)
  | e@(.cmp _ l r), .n2 an k1 k2 => (e, an) :: (nodes l k1 ++ nodes r k2)
  | e@(.ite c a b), .ite an kc ka kb => (e, an) :: (nodes c kc ++ nodes a ka ++ nodes b kb)
  | e@(.cast _ a), .n1 an k => (e, an) :: nodes a k
  | e@(.ext _ _ a _), .n1 an k => (e, an) :: nodes a k
  | e@(.red _ a), .n1 an k => (e, an) :: nodes a k
  | e@(.cat l r), .n2 an k1 k2 => (e, an) :: (nodes l k1 ++ nodes r k2)
  | e@(.idx _ _ i), .idx an k => (e, an) :: nodes i k
  | e@(.slc _ _ lo hi), .n2 an k1 k2 => (e, an) :: (nodes lo k1 ++ nodes hi k2)
  | e, t => [(e, t.ann)]

/-- every node of a tree that descends (by enforcements) from the tree the checker built for `e` carries
    the annotation its sub-expression gets when checked on its own, up to the width of implicit nodes -/
theorem nodes_sim (Γ : Env) : ∀ (e : Expr) (t0 t : AT), checkE Γ e = .ok t0 → Sim t0 t →
    ∀ p ∈ nodes e t, ∃ t', checkE Γ p.1 = .ok t' ∧ SimA t'.ann p.2 := by
  intro e
  induction e with
  | sig x w =>
    intro t0 t h hs p hp
    have : nodes (.sig x w) t = [(.sig x w, t.ann)] := by cases t <;> rfl
    rw [this] at hp; simp only [List.mem_singleton] at hp; subst hp
    exact ⟨t0, h, hs.ann⟩
  | num v =>
    intro t0 t h hs p hp
    have : nodes (.num v) t = [(.num v, t.ann)] := by cases t <;> rfl
    rw [this] at hp; simp only [List.mem_singleton] at hp; subst hp
    exact ⟨t0, h, hs.ann⟩
  | lv i =>
    intro t0 t h hs p hp
    have : nodes (.lv i) t = [(.lv i, t.ann)] := by cases t <;> rfl
    rw [this] at hp; simp only [List.mem_singleton] at hp; subst hp
    exact ⟨t0, h, hs.ann⟩
  | tmp i =>
    intro t0 t h hs p hp
    have : nodes (.tmp i) t = [(.tmp i, t.ann)] := by cases t <;> rfl
    rw [this] at hp; simp only [List.mem_singleton] at hp; subst hp
    exact ⟨t0, h, hs.ann⟩
  | un op a ih =>
    intro t0 t h hs p hp
    obtain ⟨te, he, rfl⟩ := checkE_un_inv h
    cases t <;> simp only [unRule, Sim] at hs
    next b j =>
      simp only [nodes, List.mem_cons] at hp
      rcases hp with rfl | hp
      · exact ⟨_, h, hs.1⟩
      · exact ih te j he hs.2 p hp
  | bin op l r ihl ihr =>
    intro t0 t h hs p hp
    obtain ⟨tl, tr, hl, hr, hb⟩ := checkE_bin_inv h
    obtain ⟨a, k1, k2, rfl, s1, s2⟩ := binRule_shape hb
    cases t <;> simp only [Sim] at hs
    next b j1 j2 =>
      simp only [nodes, List.mem_cons, List.mem_append] at hp
      rcases hp with rfl | hp | hp
      · exact ⟨_, h, hs.1⟩
      · exact ihl tl j1 hl (s1.trans hs.2.1) p hp
      · exact ihr tr j2 hr (s2.trans hs.2.2) p hp
  | cmp op l r ihl ihr =>
    intro t0 t h hs p hp
    obtain ⟨tl, tr, hl, hr, hb⟩ := checkE_cmp_inv h
    obtain ⟨a, k1, k2, rfl, s1, s2⟩ := cmpRule_shape hb
    cases t <;> simp only [Sim] at hs
    next b j1 j2 =>
      simp only [nodes, List.mem_cons, List.mem_append] at hp
      rcases hp with rfl | hp | hp
      · exact ⟨_, h, hs.1⟩
      · exact ihl tl j1 hl (s1.trans hs.2.1) p hp
      · exact ihr tr j2 hr (s2.trans hs.2.2) p hp
  | ite c x y ihc ihx ihy =>
    intro t0 t h hs p hp
    obtain ⟨tc, tt, tf, hc, hx, hy, hb⟩ := checkE_ite_inv h
    obtain ⟨a, k2, k3, rfl, s2, s3⟩ := iteRule_shape hb
    cases t <;> simp only [Sim] at hs
    next b jc j2 j3 =>
      simp only [nodes, List.mem_cons, List.mem_append] at hp
      rcases hp with rfl | (hp | hp) | hp
      · exact ⟨_, h, hs.1⟩
      · exact ihc tc jc hc hs.2.1 p hp
      · exact ihx tt j2 hx (s2.trans hs.2.2.1) p hp
      · exact ihy tf j3 hy (s3.trans hs.2.2.2) p hp
  | cast n a ih =>
    intro t0 t h hs p hp
    obtain ⟨te, he, rfl⟩ := checkE_cast_inv h
    cases t <;> simp only [castRule, Sim] at hs
    next b j =>
      simp only [nodes, List.mem_cons] at hp
      rcases hp with rfl | hp
      · exact ⟨_, h, hs.1⟩
      · exact ih te j he hs.2 p hp
  | ext k ty a n ih =>
    intro t0 t h hs p hp
    obtain ⟨te, he, hr⟩ := checkE_ext_inv h
    obtain ⟨an, rfl⟩ := extRule_shape hr
    cases t <;> simp only [Sim] at hs
    next b j =>
      simp only [nodes, List.mem_cons] at hp
      rcases hp with rfl | hp
      · exact ⟨_, h, hs.1⟩
      · exact ih te j he hs.2 p hp
  | red op a ih =>
    intro t0 t h hs p hp
    obtain ⟨te, he, rfl⟩ := checkE_red_inv h
    cases t <;> simp only [Sim] at hs
    next b j =>
      simp only [nodes, List.mem_cons] at hp
      rcases hp with rfl | hp
      · exact ⟨_, h, hs.1⟩
      · exact ih te j he hs.2 p hp
  | cat l r ihl ihr =>
    intro t0 t h hs p hp
    obtain ⟨tl, tr, hl, hr, rfl⟩ := checkE_cat_inv h
    cases t <;> simp only [Sim] at hs
    next b j1 j2 =>
      simp only [nodes, List.mem_cons, List.mem_append] at hp
      rcases hp with rfl | hp | hp
      · exact ⟨_, h, hs.1⟩
      · exact ihl tl j1 hl hs.2.1 p hp
      · exact ihr tr j2 hr hs.2.2 p hp
  | idx x w i ih =>
    intro t0 t h hs p hp
    obtain ⟨ti, hi, hr⟩ := checkE_idx_inv h
    obtain ⟨a, k, rfl, s1⟩ := idxRule_shape hr
    cases t <;> simp only [Sim] at hs
    next b j =>
      simp only [nodes, List.mem_cons] at hp
      rcases hp with rfl | hp
      · exact ⟨_, h, hs.1⟩
      · exact ih ti j hi (s1.trans hs.2) p hp
  | slc x w lo hi ihl ihr =>
    intro t0 t h hs p hp
    obtain ⟨tl, tr, hl, hr, hb⟩ := checkE_slc_inv h
    obtain ⟨a, k1, k2, rfl, s1, s2⟩ := slcRule_shape hb
    cases t <;> simp only [Sim] at hs
    next b j1 j2 =>
      simp only [nodes, List.mem_cons, List.mem_append] at hp
      rcases hp with rfl | hp | hp
      · exact ⟨_, h, hs.1⟩
      · exact ihl tl j1 hl (s1.trans hs.2.1) p hp
      · exact ihr tr j2 hr (s2.trans hs.2.2) p hp

end PV.TC
