import PymtlVerif.Model.Queue
/-!
# Proofs about `Model/Queue.lean` (property C17)

* arithmetic of the pointer / counter widths (`clog2`; truncation never bites under the invariant);
* the ring buffer of `queues.py` / `stream/queues.py` refines the FIFO specification (`ringSim`);
* the twelve one-entry machines refine it (`q1Sim`, `s1Sim`, `er1Sim`, `v1Sim`);
* `valrdy_queues.NormalQueueRTL` (full bit + two pointers) refines it, `num_free_entries` included (`vrSim`);
* the CL `deque` models refine it (`clSim`);
* the generic trace theorem (`Sim.run_eq`) and the ledger theorems about the specification
  (accepted = delivered ++ contents; length ≤ capacity).
-/
set_option linter.unusedSimpArgs false
set_option linter.unusedVariables false
namespace PV.Queue


theorem le_two_pow_clog2 (n : Nat) : n ≤ 2 ^ clog2 n := by
  unfold clog2
  split
  · have : 0 < 2 ^ 0 := by decide
    omega
  · have := @Nat.lt_log2_self (n - 1); omega

theorem trunc_of_lt {w x : Nat} (h : x < 2 ^ w) : trunc w x = x := Nat.mod_eq_of_lt h

theorem ptrInc_eq (n p : Nat) (hn : 0 < n) (hp : p < n) : ptrInc n p = (p + 1) % n := by
  have h1 := le_two_pow_clog2 n
  unfold ptrInc
  rw [trunc_of_lt (show n - 1 < 2 ^ clog2 n by omega)]
  split
  · rw [trunc_of_lt (by omega), Nat.mod_eq_of_lt (by omega)]
  · have : p + 1 = n := by omega
    rw [this, Nat.mod_self]

theorem cntInc_eq (n c : Nat) (hc : c < n) : cntInc n c = c + 1 := by
  have h1 := le_two_pow_clog2 (n + 1)
  unfold cntInc; exact trunc_of_lt (by omega)

theorem cntDec_eq (n c : Nat) (hc : c ≤ n) (h0 : 0 < c) : cntDec n c = c - 1 := by
  have h1 := le_two_pow_clog2 (n + 1)
  unfold cntDec trunc
  have : c + 2 ^ clog2 (n + 1) - 1 = (c - 1) + 2 ^ clog2 (n + 1) := by omega
  rw [this, Nat.add_mod_right, Nat.mod_eq_of_lt (by omega)]

theorem numEntries_eq (n : Nat) : trunc (clog2 (n + 1)) n = n := by
  have h1 := le_two_pow_clog2 (n + 1)
  exact trunc_of_lt (by omega)

/-! ## the specification, factored through the two transfer bits -/

def specCore {α} (l : List α) (m : α) (clr ex dx : Bool) : List α :=
  if clr then [] else
    let l1 := if ex then l ++ [m] else l
    if dx then l1.tail else l1

def specEr {α} (st : Style) (k : Kind) (n : Nat) (len : Nat) (i : In α) : Bool :=
  !(st.gate && i.rst) && enqLaw k n len i.deq
def specDr {α} (st : Style) (k : Kind) (len : Nat) (i : In α) : Bool :=
  !(st.gate && i.rst) && deqLaw k len i.enq

def front {α} (l : List α) (m : α) : α := match l with | x :: _ => x | [] => m

theorem specStep_fst {α} (st : Style) (k : Kind) (n : Nat) (l : List α) (i : In α) :
    (specStep st k n l i).1 =
      specCore l i.msg (st.reset && i.rst) (i.enq && specEr st k n l.length i) (i.deq && specDr st k l.length i) := rfl

theorem specStep_snd {α} (st : Style) (k : Kind) (n : Nat) (l : List α) (i : In α) :
    (specStep st k n l i).2 =
      let dr := specDr st k l.length i
      let dv := if st.push then i.deq && dr else dr
      { enqRdy := specEr st k n l.length i, deqRdy := dv, ret := if dv then some (front l i.msg) else none,
        count := if st.free then (if i.rst then n else n - l.length) else l.length } := rfl

/-- what the transfer bits of the specification imply about the length -/
theorem ex_dx_facts (k : Kind) (n len : Nat) (lv e d : Bool) (hn : 0 < n) (hlen : len ≤ n) :
    let ex := e && (lv && enqLaw k n len d)
    let dx := d && (lv && deqLaw k len e)
    (ex = true → dx = false → len < n) ∧ (dx = true → ex = false → 0 < len) ∧
    (ex = true → len < n ∨ dx = true) ∧ (dx = true → 0 < len ∨ ex = true) := by
  cases k <;> cases lv <;> cases e <;> cases d <;> simp [enqLaw, deqLaw] <;> omega

/-! ## ring buffer (`*QueueCtrlRTL` + `RegisterFile`) -/

def rabs {α} (n : Nat) (s : Ring α) : List α :=
  (List.range s.count).map (fun i => s.regs ((s.head + i) % n))

structure RInv {α} (n : Nat) (s : Ring α) : Prop where
  hn    : 0 < n
  hhead : s.head < n
  htail : s.tail = (s.head + s.count) % n
  hcnt  : s.count ≤ n

theorem mod_inj_of_lt {n a b : Nat} (hab : a ≤ b) (hlt : b - a < n) (h : a % n = b % n) : a = b := by
  have h0 : (b - a) % n = 0 := Nat.sub_mod_eq_zero_of_mod_eq h.symm
  rw [Nat.mod_eq_of_lt hlt] at h0
  omega

@[simp] theorem rabs_length {α} (n : Nat) (s : Ring α) : (rabs n s).length = s.count := by
  simp [rabs]

theorem rabs_getElem {α} (n : Nat) (s : Ring α) (i : Nat) (h : i < (rabs n s).length) :
    (rabs n s)[i] = s.regs ((s.head + i) % n) := by
  simp [rabs]

theorem add_mod_ne {n h i c : Nat} (hic : i < c) (hc : c - i < n) : (h + i) % n ≠ (h + c) % n := by
  intro hh
  have := mod_inj_of_lt (n := n) (a := h + i) (b := h + c) (by omega) (by omega) hh
  omega

theorem mod_succ_add (n h c : Nat) : ((h + c) % n + 1) % n = (h + (c + 1)) % n := by
  rw [Nat.add_mod, Nat.mod_mod, ← Nat.add_mod]; congr 1

theorem succ_mod_add (n h c : Nat) : ((h + 1) % n + c) % n = (h + (c + 1)) % n := by
  rw [Nat.add_mod, Nat.mod_mod, ← Nat.add_mod]; congr 1; omega

/-- enqueue only -/
theorem rabs_enq {α} (n : Nat) (s : Ring α) (m : α) (hi : RInv n s) (hlt : s.count < n) (h t : Nat)
    (hh : h = s.head) :
    rabs n { head := h, tail := t, count := s.count + 1,
             regs := fun i => if i = s.tail then m else s.regs i } = rabs n s ++ [m] := by
  subst hh
  apply List.ext_getElem
  · simp
  · intro i h1 h2
    simp only [rabs_length] at h1
    rw [rabs_getElem]
    simp only
    by_cases hic : i < s.count
    · rw [List.getElem_append_left (by simpa using hic), rabs_getElem]
      rw [if_neg]
      rw [hi.htail]
      exact add_mod_ne hic (by omega)
    · have : i = s.count := by omega
      subst this
      rw [List.getElem_append_right (by simp)]
      simp [hi.htail]

/-- dequeue only -/
theorem rabs_deq {α} (n : Nat) (s : Ring α) (hi : RInv n s) (hpos : 0 < s.count) (t : Nat) :
    rabs n { head := (s.head + 1) % n, tail := t, count := s.count - 1, regs := s.regs } = (rabs n s).tail := by
  apply List.ext_getElem
  · simp
  · intro i h1 h2
    simp only [rabs_length] at h1
    rw [rabs_getElem]
    simp only [List.getElem_tail]
    rw [rabs_getElem, succ_mod_add]

/-- simultaneous enqueue and dequeue -/
theorem rabs_enq_deq {α} (n : Nat) (s : Ring α) (m : α) (hi : RInv n s) (t : Nat) :
    rabs n { head := (s.head + 1) % n, tail := t, count := s.count,
             regs := fun i => if i = s.tail then m else s.regs i } = (rabs n s ++ [m]).tail := by
  apply List.ext_getElem
  · simp
  · intro i h1 h2
    simp only [rabs_length] at h1
    rw [rabs_getElem]
    simp only [List.getElem_tail]
    rw [succ_mod_add]
    by_cases hic : i + 1 < s.count
    · rw [List.getElem_append_left (by simpa using hic), rabs_getElem]
      rw [if_neg]
      rw [hi.htail]
      exact add_mod_ne hic (by have := hi.hcnt; omega)
    · have : i + 1 = s.count := by omega
      rw [List.getElem_append_right (by simp; omega)]
      simp [hi.htail, this]

theorem rabs_front {α} (n : Nat) (s : Ring α) (hi : RInv n s) (m : α) :
    front (rabs n s) m = if s.count = 0 then m else s.regs s.head := by
  by_cases h0 : s.count = 0
  · have : rabs n s = [] := by simp [rabs, h0]
    simp [this, h0, front]
  · obtain ⟨c, hc⟩ : ∃ c, s.count = c + 1 := ⟨s.count - 1, by omega⟩
    simp [rabs, hc, List.range_succ_eq_map, Nat.mod_eq_of_lt hi.hhead, front]

def ringCore {α} (n : Nat) (s : Ring α) (m : α) (rst ex dx : Bool) : Ring α :=
  let regs' := if ex then (fun a => if a = s.tail then m else s.regs a) else s.regs
  if rst then { head := 0, tail := 0, count := 0, regs := regs' }
  else
    { head  := if dx then ptrInc n s.head else s.head
      tail  := if ex then ptrInc n s.tail else s.tail
      count := if ex && !dx then cntInc n s.count else if !ex && dx then cntDec n s.count else s.count
      regs  := regs' }

/-- the same update with unbounded arithmetic -/
def ringIdeal {α} (n : Nat) (s : Ring α) (m : α) (rst ex dx : Bool) : Ring α :=
  let regs' := if ex then (fun a => if a = s.tail then m else s.regs a) else s.regs
  if rst then { head := 0, tail := 0, count := 0, regs := regs' }
  else
    { head  := if dx then (s.head + 1) % n else s.head
      tail  := if ex then (s.tail + 1) % n else s.tail
      count := if ex && !dx then s.count + 1 else if !ex && dx then s.count - 1 else s.count
      regs  := regs' }

theorem ringStep_fst {α} (gate : Bool) (k : Kind) (n : Nat) (s : Ring α) (i : In α) :
    (ringStep gate k n s i).1 = ringCore n s i.msg i.rst
      (i.enq && (!(gate && i.rst) && enqLaw k n s.count i.deq))
      (i.deq && (!(gate && i.rst) && deqLaw k s.count i.enq)) := by
  simp only [ringStep, numEntries_eq]
  cases k <;> rfl

theorem ringStep_snd {α} (gate : Bool) (k : Kind) (n : Nat) (s : Ring α) (i : In α) :
    (ringStep gate k n s i).2 =
      let dr := !(gate && i.rst) && deqLaw k s.count i.enq
      { enqRdy := !(gate && i.rst) && enqLaw k n s.count i.deq, deqRdy := dr,
        ret := if dr then some (if k = .bypass ∧ s.count = 0 then i.msg else s.regs s.head) else none,
        count := s.count } := by
  simp only [ringStep, numEntries_eq]
  cases k <;> simp [enqLaw, deqLaw]

/-- no `Bits` overflow: with the invariant the width-truncated update is the unbounded one -/
theorem ringCore_eq_ideal {α} (n : Nat) (s : Ring α) (m : α) (rst ex dx : Bool) (hi : RInv n s)
    (h1 : ex = true → dx = false → s.count < n) (h2 : dx = true → ex = false → 0 < s.count) :
    ringCore n s m rst ex dx = ringIdeal n s m rst ex dx := by
  obtain ⟨hn, hhead, htail, hcnt⟩ := hi
  have htl : s.tail < n := by rw [htail]; exact Nat.mod_lt _ hn
  cases rst
  · cases ex <;> cases dx
    · rfl
    · simp [ringCore, ringIdeal, ptrInc_eq n _ hn hhead, cntDec_eq n _ hcnt (h2 rfl rfl)]
    · simp [ringCore, ringIdeal, ptrInc_eq n _ hn htl, cntInc_eq n _ (h1 rfl rfl)]
    · simp [ringCore, ringIdeal, ptrInc_eq n _ hn htl, ptrInc_eq n _ hn hhead]
  · rfl

theorem ringIdeal_sim {α} (n : Nat) (s : Ring α) (m : α) (rst ex dx : Bool) (hi : RInv n s)
    (h1 : ex = true → dx = false → s.count < n) (h2 : dx = true → ex = false → 0 < s.count) :
    rabs n (ringIdeal n s m rst ex dx) = specCore (rabs n s) m rst ex dx ∧ RInv n (ringIdeal n s m rst ex dx) := by
  obtain ⟨hn, hhead, htail, hcnt⟩ := hi
  have hi : RInv n s := ⟨hn, hhead, htail, hcnt⟩
  have htl : s.tail < n := by rw [htail]; exact Nat.mod_lt _ hn
  cases rst
  · cases ex <;> cases dx
    · simp [ringIdeal, specCore]; exact hi
    · have hpos := h2 rfl rfl
      simp only [ringIdeal, specCore,
        Bool.false_and, Bool.true_and, Bool.not_false, Bool.not_true, Bool.and_false, Bool.and_true,
        if_true, if_false, Bool.false_eq_true]
      refine ⟨rabs_deq n s hi hpos _, hn, Nat.mod_lt _ hn, ?_, by simp only; omega⟩
      simp only
      rw [htail, succ_mod_add]; congr 2; omega
    · have hlt := h1 rfl rfl
      simp only [ringIdeal, specCore,
        Bool.false_and, Bool.true_and, Bool.not_false, Bool.not_true, Bool.and_false, Bool.and_true,
        if_true, if_false, Bool.false_eq_true]
      refine ⟨rabs_enq n s m hi hlt _ _ rfl, hn, hhead, ?_, by simp only; omega⟩
      simp only
      rw [htail, mod_succ_add]
    · simp only [ringIdeal, specCore,
        Bool.false_and, Bool.true_and, Bool.not_false, Bool.not_true, Bool.and_false, Bool.and_true,
        if_true, if_false, Bool.false_eq_true]
      refine ⟨rabs_enq_deq n s m hi _, hn, Nat.mod_lt _ hn, ?_, hcnt⟩
      simp only
      rw [htail, mod_succ_add, succ_mod_add]
  · refine ⟨by simp [ringIdeal, specCore, rabs], hn, ?_, ?_, ?_⟩ <;> simp [ringIdeal] <;> omega

theorem ringCore_sim {α} (n : Nat) (s : Ring α) (m : α) (rst ex dx : Bool) (hi : RInv n s)
    (h1 : ex = true → dx = false → s.count < n) (h2 : dx = true → ex = false → 0 < s.count) :
    rabs n (ringCore n s m rst ex dx) = specCore (rabs n s) m rst ex dx ∧ RInv n (ringCore n s m rst ex dx) := by
  rw [ringCore_eq_ideal n s m rst ex dx hi h1 h2]
  exact ringIdeal_sim n s m rst ex dx hi h1 h2

/-! ## simulation of the specification by a machine -/

structure Sim {σ α : Type} (step : σ → In α → σ × Out α) (st : Style) (k : Kind) (n : Nat) where
  abs : σ → List α
  Inv : σ → Prop
  out_eq : ∀ s i, Inv s → (step s i).2 = (specStep st k n (abs s) i).2
  next : ∀ s i, Inv s → Legal st (step s i).2 i →
    abs (step s i).1 = (specStep st k n (abs s) i).1 ∧ Inv (step s i).1

theorem Sim.run_eq {σ α : Type} {step : σ → In α → σ × Out α} {st : Style} {k : Kind} {n : Nat}
    (S : Sim step st k n) (is : List (In α)) (s : σ) (hs : S.Inv s)
    (hl : LegalTrace st is (run step s is)) :
    run step s is = run (specStep st k n) (S.abs s) is := by
  induction is generalizing s with
  | nil => rfl
  | cons i is ih =>
    simp only [run, LegalTrace] at hl ⊢
    obtain ⟨h1, h2⟩ := S.next s i hs hl.1
    rw [S.out_eq s i hs, ih _ h2 hl.2, h1]

def ringSim {α} (st : Style) (k : Kind) (n : Nat) (hn : 0 < n) (hr : st.reset = true) (hp : st.push = false)
    (hf : st.free = false) : Sim (α := α) (ringStep st.gate k n) st k n where
  abs := rabs n
  Inv := RInv n
  out_eq := by
    intro s i hi
    rw [ringStep_snd, specStep_snd]
    simp only [hp, hf, rabs_length, rabs_front n s hi, specEr, specDr]
    congr 1
    by_cases h0 : s.count = 0
    · by_cases hb : k = .bypass
      · simp [h0, hb]
      · have : deqLaw k s.count i.enq = false := by
          cases k <;> simp_all [deqLaw]
        simp [this]
    · simp [h0]
  next := by
    intro s i hi _
    rw [ringStep_fst, specStep_fst]
    simp only [hr, rabs_length, specEr, specDr, Bool.true_and]
    have hf := ex_dx_facts k n s.count (!(st.gate && i.rst)) i.enq i.deq hi.hn hi.hcnt
    exact ringCore_sim n s i.msg i.rst _ _ hi hf.1 hf.2.1

theorem ring_init_inv {α} (n : Nat) (hn : 0 < n) (d : α) : RInv n (Ring.init d) :=
  ⟨hn, hn, by simp [Ring.init], by simp [Ring.init]⟩

/-! ## one-entry queues -/

def abs1 {α} (s : One α) : List α := if s.full then [s.entry] else []

def q1Sim {α} (k : Kind) : Sim (α := α) (q1Step k) styleQ k 1 where
  abs := abs1
  Inv := fun _ => True
  out_eq := by
    intro ⟨f, e⟩ ⟨r, en, m, d⟩ _
    cases k <;> cases f <;> cases r <;> cases en <;> cases d <;>
      simp [q1Step, specStep, abs1, styleQ, enqLaw, deqLaw, b2n]
  next := by
    intro ⟨f, e⟩ ⟨r, en, m, d⟩ _ hl
    cases k <;> cases f <;> cases r <;> cases en <;> cases d <;>
      simp_all [q1Step, specStep, abs1, styleQ, enqLaw, deqLaw, Legal]

def s1Sim {α} (k : Kind) : Sim (α := α) (s1Step k) styleS k 1 where
  abs := abs1
  Inv := fun _ => True
  out_eq := by
    intro ⟨f, e⟩ ⟨r, en, m, d⟩ _
    cases k <;> cases f <;> cases r <;> cases en <;> cases d <;>
      simp [s1Step, specStep, abs1, styleS, enqLaw, deqLaw, b2n]
  next := by
    intro ⟨f, e⟩ ⟨r, en, m, d⟩ _ hl
    cases k <;> cases f <;> cases r <;> cases en <;> cases d <;>
      simp_all [s1Step, specStep, abs1, styleS, enqLaw, deqLaw, Legal]

def v1Sim {α} (k : Kind) : Sim (α := α) (v1Step k) styleV1 k 1 where
  abs := abs1
  Inv := fun _ => True
  out_eq := by
    intro ⟨f, e⟩ ⟨r, en, m, d⟩ _
    cases k <;> cases f <;> cases r <;> cases en <;> cases d <;>
      simp [v1Step, specStep, abs1, styleV1, enqLaw, deqLaw, b2n]
  next := by
    intro ⟨f, e⟩ ⟨r, en, m, d⟩ _ hl
    cases k <;> cases f <;> cases r <;> cases en <;> cases d <;>
      simp_all [v1Step, specStep, abs1, styleV1, enqLaw, deqLaw, Legal]

/-- `enrdy_queues.py` one-entry queues: the normal and the pipe queue have no reset, the bypass queue has -/
def erStyle (k : Kind) : Style := match k with | .bypass => styleEB | _ => styleER

def er1Sim {α} (k : Kind) : Sim (α := α) (er1Step k) (erStyle k) k 1 where
  abs := abs1
  Inv := fun _ => True
  out_eq := by
    intro ⟨f, e⟩ ⟨r, en, m, d⟩ _
    cases k <;> cases f <;> cases r <;> cases en <;> cases d <;>
      simp [er1Step, er1Raw, specStep, abs1, erStyle, styleER, styleEB, enqLaw, deqLaw, b2n]
  next := by
    intro ⟨f, e⟩ ⟨r, en, m, d⟩ _ hl
    cases k <;> cases f <;> cases r <;> cases en <;> cases d <;>
      simp_all [er1Step, er1Raw, specStep, abs1, erStyle, styleER, styleEB, enqLaw, deqLaw, Legal]


/-! ## CL queues -/

theorem getLast?_cons_snoc {α} (m a : α) (l : List α) : (m :: (l ++ [a])).getLast? = some a := by
  have := @List.getLast?_concat α (m :: l) a
  simpa using this
theorem dropLast_cons_snoc {α} (m a : α) (l : List α) : (m :: (l ++ [a])).dropLast = m :: l := by
  have := @List.dropLast_concat α (m :: l) a
  simpa using this

theorem cl_sim {α} (k : Kind) (n : Nat) (hn : 0 < n) (q : List α) (i : In α) (hq : q.length ≤ n) :
    (clStep k n q i).2 = (specStep styleV1 k n q.reverse i).2 ∧
    (clStep k n q i).1.reverse = (specStep styleV1 k n q.reverse i).1 ∧ (clStep k n q i).1.length ≤ n := by
  obtain ⟨r, en, m, d⟩ := i
  rcases List.eq_nil_or_concat q with rfl | ⟨l, a, h⟩
  · cases k <;> cases en <;> cases d <;> simp [clStep, specStep, styleV1, enqLaw, deqLaw, hn] <;> try omega
  · rw [List.concat_eq_append] at h; subst h
    simp only [List.length_append, List.length_cons, List.length_nil] at hq
    by_cases hlt : l.length + 1 < n
    · have hlt' : l.length < n := by omega
      cases k <;> cases en <;> cases d <;>
        simp [clStep, specStep, styleV1, enqLaw, deqLaw, hn, hlt, hlt', getLast?_cons_snoc, dropLast_cons_snoc] <;>
        try omega
    · have : l.length + 1 = n := by omega
      subst this
      cases k <;> cases en <;> cases d <;>
        simp [clStep, specStep, styleV1, enqLaw, deqLaw, getLast?_cons_snoc, dropLast_cons_snoc]

/-! ## ledger of the observed handshakes -/


/-- the list part of one ledger step -/
theorem core_ledger {α} (A D l : List α) (m : α) (ex dx : Bool) (n : Nat)
    (h : A = D ++ l) (hl : l.length ≤ n)
    (h1 : ex = true → l.length < n ∨ dx = true) (h2 : dx = true → 0 < l.length ∨ ex = true) :
    let l1 := if ex then l ++ [m] else l
    let l2 := if dx then l1.tail else l1
    (if ex then A ++ [m] else A) = (if dx then D ++ [front l m] else D) ++ l2 ∧ l2.length ≤ n := by
  subst h
  cases l with
  | nil =>
    cases ex <;> cases dx <;> simp_all [front] <;> omega
  | cons x l =>
    cases ex <;> cases dx <;> simp_all [front] <;> omega

theorem spec_obs {α} (st : Style) (k : Kind) (n : Nat) (l : List α) (i : In α) :
    accepted i (specStep st k n l i).2 = (i.enq && (!(st.gate && i.rst) && enqLaw k n l.length i.deq)) ∧
    delivered st i (specStep st k n l i).2 = (i.deq && (!(st.gate && i.rst) && deqLaw k l.length i.enq)) ∧
    ((i.deq && (!(st.gate && i.rst) && deqLaw k l.length i.enq)) = true →
      (specStep st k n l i).2.ret = some (front l i.msg)) := by
  simp only [specStep, accepted, delivered, front]
  generalize (!(st.gate && i.rst) && deqLaw k l.length i.enq) = dr
  cases st.push <;> cases i.deq <;> cases dr <;> simp <;> (cases l <;> rfl)

theorem spec_step_ledger {α} (st : Style) (k : Kind) (n : Nat) (hn : 0 < n) (l : List α) (i : In α)
    (L : Ledger α) (h : L.acc = L.del ++ l) (hl : l.length ≤ n) :
    (L.step st i (specStep st k n l i).2).acc = (L.step st i (specStep st k n l i).2).del ++ (specStep st k n l i).1 ∧
    (specStep st k n l i).1.length ≤ n := by
  have hf := ex_dx_facts k n l.length (!(st.gate && i.rst)) i.enq i.deq hn hl
  have hc := core_ledger L.acc L.del l i.msg _ _ n h hl hf.2.2.1 hf.2.2.2
  obtain ⟨ho1, ho2, ho3⟩ := spec_obs st k n l i
  simp only [Ledger.step, ho1, ho2]
  by_cases hr : (st.reset && i.rst) = true
  · simp [hr, specStep]
  · have hfst : (specStep st k n l i).1 =
        (if (i.deq && (!(st.gate && i.rst) && deqLaw k l.length i.enq)) = true then
          (if (i.enq && (!(st.gate && i.rst) && enqLaw k n l.length i.deq)) = true then l ++ [i.msg] else l).tail
         else (if (i.enq && (!(st.gate && i.rst) && enqLaw k n l.length i.deq)) = true then l ++ [i.msg] else l)) := by
      simp only [specStep, hr, if_false, Bool.false_eq_true]
    rw [hfst]
    simp only [hr, if_false, Bool.false_eq_true]
    cases hd : (i.deq && (!(st.gate && i.rst) && deqLaw k l.length i.enq))
    · simp only [hd, if_false, Bool.false_eq_true] at hc ⊢
      exact hc
    · simp only [hd, if_true, ho3 hd, Option.toList_some] at hc ⊢
      exact hc

/-! ## valrdy NormalQueueRTL -/


theorem succ_mod_if (n p : Nat) (hp : p < n) : (p + 1) % n = if p + 1 < n then p + 1 else 0 := by
  split
  · exact Nat.mod_eq_of_lt ‹_›
  · have : p + 1 = n := by omega
    rw [this, Nat.mod_self]

/-- occupancy of the full-bit ring -/
def vcount {α} (n : Nat) (s : VRing α) : Nat :=
  if s.full then n else if s.deqPtr ≤ s.enqPtr then s.enqPtr - s.deqPtr else s.enqPtr + n - s.deqPtr

def toRing {α} (n : Nat) (s : VRing α) : Ring α := ⟨s.deqPtr, s.enqPtr, vcount n s, s.regs⟩

structure VInv {α} (n : Nat) (s : VRing α) : Prop where
  hn : 0 < n
  he : s.enqPtr < n
  hd : s.deqPtr < n
  hf : s.full = true → s.enqPtr = s.deqPtr

theorem vinc_eq (n p : Nat) (hn : 0 < n) (hp : p < n) :
    (if p = trunc (clog2 n) (n - 1) then 0 else trunc (clog2 n) (p + 1)) = if p + 1 < n then p + 1 else 0 := by
  have h1 := le_two_pow_clog2 n
  rw [trunc_of_lt (show n - 1 < 2 ^ clog2 n by omega)]
  split
  · have : ¬ (p + 1 < n) := by omega
    simp [this]
  · have : p + 1 < n := by omega
    simp [this]; exact trunc_of_lt (by omega)

theorem toRing_inv {α} (n : Nat) (s : VRing α) (hi : VInv n s) : RInv n (toRing n s) := by
  obtain ⟨hn, he, hd, hf⟩ := hi
  refine ⟨hn, hd, ?_, ?_⟩
  · simp only [toRing, vcount]
    cases hfull : s.full
    · simp only [Bool.false_eq_true, if_false]
      split
      · rw [show s.deqPtr + (s.enqPtr - s.deqPtr) = s.enqPtr by omega, Nat.mod_eq_of_lt he]
      · rw [show s.deqPtr + (s.enqPtr + n - s.deqPtr) = s.enqPtr + n by omega, Nat.add_mod_right,
          Nat.mod_eq_of_lt he]
    · simp [hf hfull, Nat.mod_eq_of_lt hd]
  · simp only [toRing, vcount]
    split
    · omega
    · split <;> omega

theorem vnfe_eq {α} (n : Nat) (s : VRing α) (hi : VInv n s) (rst : Bool) :
    (if rst then trunc (clog2 (n + 1)) n
     else if s.full then 0
     else if (!s.full && decide (s.enqPtr = s.deqPtr)) then trunc (clog2 (n + 1)) n
     else if s.enqPtr > s.deqPtr then
       trunc (clog2 (n + 1)) (n + 2 ^ clog2 (n + 1) - trunc (clog2 n) (s.enqPtr + 2 ^ clog2 n - s.deqPtr))
     else if s.deqPtr > s.enqPtr then trunc (clog2 n) (s.deqPtr + 2 ^ clog2 n - s.enqPtr)
     else s.nfe) = if rst then n else n - vcount n s := by
  obtain ⟨hn, he, hd, hf⟩ := hi
  have h1 := le_two_pow_clog2 n
  have h2 := le_two_pow_clog2 (n + 1)
  have hN : trunc (clog2 (n + 1)) n = n := trunc_of_lt (by omega)
  cases rst
  · simp only [Bool.false_eq_true, if_false, hN]
    unfold vcount
    cases hfull : s.full
    · simp only [Bool.false_eq_true, if_false, Bool.not_false, Bool.true_and, decide_eq_true_eq]
      by_cases heq : s.enqPtr = s.deqPtr
      · simp [heq]
      · simp only [heq, if_false]
        by_cases hgt : s.enqPtr > s.deqPtr
        · simp only [hgt, if_true]
          have e1 : trunc (clog2 n) (s.enqPtr + 2 ^ clog2 n - s.deqPtr) = s.enqPtr - s.deqPtr := by
            unfold trunc
            have : s.enqPtr + 2 ^ clog2 n - s.deqPtr = (s.enqPtr - s.deqPtr) + 2 ^ clog2 n := by omega
            rw [this, Nat.add_mod_right, Nat.mod_eq_of_lt (by omega)]
          rw [e1]
          unfold trunc
          have : n + 2 ^ clog2 (n + 1) - (s.enqPtr - s.deqPtr) = (n - (s.enqPtr - s.deqPtr)) + 2 ^ clog2 (n + 1) := by omega
          rw [this, Nat.add_mod_right, Nat.mod_eq_of_lt (by omega)]
          split <;> omega
        · have hlt : s.deqPtr > s.enqPtr := by omega
          simp only [hgt, if_false, hlt, if_true]
          unfold trunc
          have : s.deqPtr + 2 ^ clog2 n - s.enqPtr = (s.deqPtr - s.enqPtr) + 2 ^ clog2 n := by omega
          rw [this, Nat.add_mod_right, Nat.mod_eq_of_lt (by omega)]
          split <;> omega
    · simp
  · simp [hN]

theorem vr_rdy {α} (n : Nat) (s : VRing α) (hi : VInv n s) :
    (!s.full) = decide (vcount n s < n) ∧
    (!(!s.full && decide (s.enqPtr = s.deqPtr))) = decide (vcount n s > 0) := by
  obtain ⟨hn, he, hd, hf⟩ := hi
  unfold vcount
  cases hfull : s.full
  · simp only [Bool.false_eq_true, if_false, Bool.not_false, Bool.true_and]
    constructor
    · symm; rw [decide_eq_true_eq]; split <;> omega
    · by_cases heq : s.enqPtr = s.deqPtr
      · simp [heq]
      · simp only [heq, decide_false, Bool.not_false]
        symm; rw [decide_eq_true_eq]; split <;> omega
  · simp [hn]

theorem vr_step_ring {α} (n : Nat) (s : VRing α) (i : In α) (hi : VInv n s) :
    toRing n (vrStep n s i).1 = ringIdeal n (toRing n s) i.msg i.rst
      (i.enq && decide (vcount n s < n)) (i.deq && decide (vcount n s > 0)) ∧ VInv n (vrStep n s i).1 := by
  obtain ⟨h1, h2⟩ := vr_rdy n s hi
  obtain ⟨hn, he, hd, hf⟩ := hi
  have hE := succ_mod_if n s.enqPtr he
  have hD := succ_mod_if n s.deqPtr hd
  simp only [vrStep, vinc_eq n _ hn he, vinc_eq n _ hn hd, toRing, ringIdeal, ← h1, ← h2, hE, hD]
  obtain ⟨r, en, m, d⟩ := i
  clear hE hD h1 h2
  cases hfull : s.full
  · simp only [vcount, hfull]
    by_cases heq : s.enqPtr = s.deqPtr
    · cases r <;> cases en <;> cases d <;> simp [heq, hfull, hn]
      all_goals (first | (refine ⟨?_, ⟨hn, ?_, ?_, ?_⟩⟩) | (refine ⟨hn, ?_, ?_, ?_⟩))
      all_goals (try simp only [decide_eq_true_eq])
      all_goals (repeat' split)
      all_goals (first | omega | (intro h; first | omega | (simp at h; done) | (simp at h; omega)) | (constructor <;> first | omega | rfl) | trace_state)
    · cases r <;> cases en <;> cases d <;> simp [heq, hfull, hn]
      all_goals (first | (refine ⟨?_, ⟨hn, ?_, ?_, ?_⟩⟩) | (refine ⟨hn, ?_, ?_, ?_⟩))
      all_goals (try simp only [decide_eq_true_eq])
      all_goals (repeat' split)
      all_goals (first | omega | (intro h; first | omega | (simp at h; done) | (simp at h; omega)) | (constructor <;> first | omega | rfl) | trace_state)
  · have hpp := hf hfull
    simp only [vcount, hfull]
    cases r <;> cases en <;> cases d <;> simp [hpp, hfull, hn]
    all_goals (first | (refine ⟨?_, ⟨hn, ?_, ?_, ?_⟩⟩) | (refine ⟨hn, ?_, ?_, ?_⟩))
    all_goals (try simp only [decide_eq_true_eq])
    all_goals (repeat' split)
    all_goals (first | omega | (intro h; first | omega | (simp at h; done) | (simp at h; omega)) | (constructor <;> first | omega | rfl) | trace_state)

theorem vrStep_snd {α} (n : Nat) (s : VRing α) (i : In α) (hi : VInv n s) :
    (vrStep n s i).2 =
      { enqRdy := decide (vcount n s < n), deqRdy := decide (vcount n s > 0),
        ret := if decide (vcount n s > 0) then some (s.regs s.deqPtr) else none,
        count := if i.rst then n else n - vcount n s } := by
  obtain ⟨h1, h2⟩ := vr_rdy n s hi
  have h3 := vnfe_eq n s hi i.rst
  simp only [vrStep, h3, ← h1, ← h2]

def vrSim {α} (n : Nat) (hn : 0 < n) : Sim (α := α) (vrStep n) styleVN .normal n where
  abs := fun s => rabs n (toRing n s)
  Inv := VInv n
  out_eq := by
    intro s i hi
    have hr := toRing_inv n s hi
    have hfr : front (rabs n (toRing n s)) i.msg = if vcount n s = 0 then i.msg else s.regs s.deqPtr :=
      rabs_front n _ hr i.msg
    have hlen : (rabs n (toRing n s)).length = vcount n s := rabs_length n _
    rw [vrStep_snd n s i hi, specStep_snd]
    simp only [hlen, hfr, specEr, specDr, styleVN, enqLaw, deqLaw,
      Bool.false_and, Bool.not_false, Bool.true_and, if_true, if_false, Bool.false_eq_true]
    congr 1
    by_cases h0 : vcount n s = 0 <;> simp [h0]
  next := by
    intro s i hi _
    have hr := toRing_inv n s hi
    obtain ⟨h1, h2⟩ := vr_step_ring n s i hi
    rw [h1, specStep_fst]
    have hf := ex_dx_facts .normal n (vcount n s) true i.enq i.deq hn hr.hcnt
    have := ringIdeal_sim n (toRing n s) i.msg i.rst (i.enq && decide (vcount n s < n))
      (i.deq && decide (vcount n s > 0)) hr
      (by simpa [enqLaw, deqLaw, toRing] using hf.1) (by simpa [enqLaw, deqLaw, toRing] using hf.2.1)
    refine ⟨?_, h2⟩
    rw [this.1]
    simp [specEr, specDr, styleVN, enqLaw, deqLaw, toRing]

theorem vring_init_inv {α} (n : Nat) (hn : 0 < n) (d : α) : VInv n (VRing.init d) :=
  ⟨hn, hn, hn, by simp [VRing.init]⟩

def clSim {α} (k : Kind) (n : Nat) (hn : 0 < n) : Sim (α := α) (clStep k n) styleV1 k n where
  abs := List.reverse
  Inv := fun q => q.length ≤ n
  out_eq := fun q i hq => (cl_sim k n hn q i hq).1
  next := fun q i hq _ => (cl_sim k n hn q i hq).2

/-! ## histories -/

theorem run_append {σ α : Type} (step : σ → In α → σ × Out α) (s : σ) (pre : List (In α)) (i : In α) :
    run step s (pre ++ [i]) = run step s pre ++ [(step (runState step s pre) i).2] := by
  induction pre generalizing s with
  | nil => rfl
  | cons j pre ih => simp only [List.cons_append, run, runState, ih]

theorem length_run {σ α : Type} (step : σ → In α → σ × Out α) (s : σ) (is : List (In α)) :
    (run step s is).length = is.length := by
  induction is generalizing s with
  | nil => rfl
  | cons j is ih => simp only [run, List.length_cons, ih]

/-- the ledger invariant of the specification along a whole history -/
theorem spec_run_ledger {α} (st : Style) (k : Kind) (n : Nat) (hn : 0 < n) (is : List (In α)) (l : List α)
    (L : Ledger α) (h : L.acc = L.del ++ l) (hl : l.length ≤ n) :
    (ledgerFrom st L is (run (specStep st k n) l is)).acc =
      (ledgerFrom st L is (run (specStep st k n) l is)).del ++ runState (specStep st k n) l is ∧
    (runState (specStep st k n) l is).length ≤ n := by
  induction is generalizing l L with
  | nil => exact ⟨h, hl⟩
  | cons i is ih =>
    obtain ⟨h1, h2⟩ := spec_step_ledger st k n hn l i L h hl
    simp only [run, runState, ledgerFrom]
    exact ih _ _ h1 h2

/-- spec: accepted = delivered ++ contents, contents ≤ capacity -/
theorem spec_ledger {α} (st : Style) (k : Kind) (n : Nat) (hn : 0 < n) (is : List (In α)) :
    (ledger st is (runSpec st k n is)).acc =
      (ledger st is (runSpec st k n is)).del ++ runState (specStep st k n) [] is ∧
    (runState (specStep st k n) [] is).length ≤ n :=
  spec_run_ledger st k n hn is [] ⟨[], []⟩ rfl (Nat.zero_le _)

/-- spec: the number of messages inside equals accepted − delivered -/
theorem spec_len {α} (st : Style) (k : Kind) (n : Nat) (hn : 0 < n) (is : List (In α)) :
    (runState (specStep st k n) [] is).length =
      (ledger st is (runSpec st k n is)).acc.length - (ledger st is (runSpec st k n is)).del.length := by
  have := (spec_ledger st k n hn is).1
  rw [this, List.length_append]; omega

/-! ## every class against the specification -/

theorem ring_trace {α} (st : Style) (k : Kind) (n : Nat) (hn : 0 < n) (hr : st.reset = true) (hp : st.push = false)
    (hf : st.free = false) (d : α) (is : List (In α))
    (hl : LegalTrace st is (run (ringStep st.gate k n) (Ring.init d) is)) :
    run (ringStep st.gate k n) (Ring.init d) is = runSpec st k n is :=
  (ringSim st k n hn hr hp hf).run_eq is _ (ring_init_inv n hn d) hl

theorem cls_trace {α} (c : Cls) (hc : c ≠ .erBypass2) (n : Nat) (hn : c.capOK n) (d : α) (is : List (In α))
    (hl : LegalTrace c.style is (runCls c n d is)) :
    runCls c n d is = runSpec c.style c.kind (c.cap n) is := by
  cases c
  case erBypass2 => exact absurd rfl hc
  case qNormal | qPipe | qBypass =>
    simp only [runCls, Cls.kind, Cls.style, Cls.cap, Cls.capOK] at *
    split at hl
    · next h1 => subst h1; simp only [if_true]; exact (q1Sim _).run_eq is _ trivial hl
    · next h1 => simp only [h1, if_false]; exact ring_trace styleQ _ n (by omega) rfl rfl rfl d is hl
  case sNormal | sPipe | sBypass =>
    simp only [runCls, Cls.kind, Cls.style, Cls.cap, Cls.capOK] at *
    split at hl
    · next h1 => subst h1; simp only [if_true]; exact (s1Sim _).run_eq is _ trivial hl
    · next h1 => simp only [h1, if_false]; exact ring_trace styleS _ n (by omega) rfl rfl rfl d is hl
  case erNormal1 | erPipe1 | erBypass1 =>
    simp only [runCls, Cls.kind, Cls.style, Cls.cap] at *
    exact (er1Sim _).run_eq is _ trivial hl
  case vrNormal1 | vrPipe1 | vrBypass1 =>
    simp only [runCls, Cls.kind, Cls.style, Cls.cap] at *
    exact (v1Sim _).run_eq is _ trivial hl
  case vrNormalN =>
    simp only [runCls, Cls.kind, Cls.style, Cls.cap, Cls.capOK] at *
    exact (vrSim n (by omega)).run_eq is _ (vring_init_inv n (by omega) d) hl
  case clNormal | clPipe | clBypass =>
    simp only [runCls, Cls.kind, Cls.style, Cls.cap, Cls.capOK] at *
    exact (clSim _ n (by omega)).run_eq is _ (Nat.zero_le _) hl

theorem cap_pos (c : Cls) (n : Nat) (hn : c.capOK n) : 0 < c.cap n := by
  cases c <;> simp [Cls.cap, Cls.capOK] at * <;> omega

theorem length_runCls {α} (c : Cls) (n : Nat) (d : α) (is : List (In α)) :
    (runCls c n d is).length = is.length := by
  cases c <;> simp only [runCls] <;> (try split) <;> exact length_run _ _ _

/-- the output of the cycle that follows a history exists and extends the trace -/
theorem runCls_append {α} (c : Cls) (n : Nat) (d : α) (pre : List (In α)) (i : In α) :
    ∃ o, runCls c n d (pre ++ [i]) = runCls c n d pre ++ [o] := by
  cases c <;> simp only [runCls] <;> (try split) <;> exact ⟨_, run_append _ _ _ _⟩

/-- the outputs of the specification in the cycle after history `pre`, in terms of the ledger of `pre` -/
theorem spec_next_out {α} (st : Style) (k : Kind) (n : Nat) (hn : 0 < n) (pre : List (In α)) (i : In α) :
    let len := (ledger st pre (runSpec st k n pre)).acc.length - (ledger st pre (runSpec st k n pre)).del.length
    let o := (specStep st k n (runState (specStep st k n) [] pre) i).2
    let dr := !(st.gate && i.rst) && deqLaw k len i.enq
    len ≤ n ∧
    o.enqRdy = (!(st.gate && i.rst) && enqLaw k n len i.deq) ∧
    o.deqRdy = (if st.push then i.deq && dr else dr) ∧
    o.count = (if st.free then (if i.rst then n else n - len) else len) := by
  have h := spec_len st k n hn pre
  have h2 := (spec_ledger st k n hn pre).2
  simp only [← h]
  exact ⟨h2, rfl, rfl, rfl⟩

/-- from "the class trace extends by `o`" to "`o` is the specification's output" -/
theorem cls_next {α} (c : Cls) (hc : c ≠ .erBypass2) (n : Nat) (hn : c.capOK n) (d : α)
    (pre : List (In α)) (i : In α) (o : Out α)
    (hl : LegalTrace c.style (pre ++ [i]) (runCls c n d (pre ++ [i])))
    (ho : runCls c n d (pre ++ [i]) = runCls c n d pre ++ [o]) :
    runCls c n d pre = runSpec c.style c.kind (c.cap n) pre ∧
    o = (specStep c.style c.kind (c.cap n) (runState (specStep c.style c.kind (c.cap n)) [] pre) i).2 := by
  have h1 := cls_trace c hc n hn d (pre ++ [i]) hl
  rw [ho] at h1
  unfold runSpec at h1
  rw [run_append] at h1
  have hlen : (runCls c n d pre).length = (run (specStep c.style c.kind (c.cap n)) [] pre).length := by
    rw [length_runCls, length_run]
  obtain ⟨ha, hb⟩ := List.append_inj h1 hlen
  exact ⟨ha, by simpa using hb⟩

/-! ## `enrdy_queues.BypassQueue2RTL`: FIFO order, count and the dequeue law (its enqueue-ready law does not hold) -/

def abs2 {α} (s : One α × One α) : List α := abs1 s.2 ++ abs1 s.1

theorem er2_step {α} (s : One α × One α) (i : In α) (L : Ledger α) (h : L.acc = L.del ++ abs2 s)
    (hl : Legal styleEB (er2Step s i).2 i) :
    (L.step styleEB i (er2Step s i).2).acc = (L.step styleEB i (er2Step s i).2).del ++ abs2 (er2Step s i).1 ∧
    (er2Step s i).2.count = (abs2 s).length ∧ (abs2 s).length ≤ 2 ∧
    (er2Step s i).2.deqRdy = (i.deq && deqLaw .bypass (abs2 s).length i.enq) := by
  obtain ⟨⟨f1, e1⟩, ⟨f2, e2⟩⟩ := s
  obtain ⟨r, en, m, d⟩ := i
  obtain ⟨A, D⟩ := L
  simp only [abs2, abs1] at h
  cases f1 <;> cases f2 <;> cases r <;> cases en <;> cases d <;>
    simp_all [er2Step, er1Raw, Ledger.step, accepted, delivered, styleEB, abs2, abs1, Legal, b2n, deqLaw]

theorem er2_run {α} (is : List (In α)) (s : One α × One α) (L : Ledger α) (h : L.acc = L.del ++ abs2 s)
    (hl : LegalTrace styleEB is (run er2Step s is)) :
    (ledgerFrom styleEB L is (run er2Step s is)).acc =
      (ledgerFrom styleEB L is (run er2Step s is)).del ++ abs2 (runState er2Step s is) := by
  induction is generalizing s L with
  | nil => exact h
  | cons i is ih =>
    simp only [run, LegalTrace] at hl
    simp only [run, runState, ledgerFrom]
    exact ih _ _ (er2_step s i L h hl.1).1 hl.2

end PV.Queue
