import PymtlVerif.Model.QAdapter
import PymtlVerif.Proofs.Queue
/-!
# Proofs about `Model/QAdapter.lean` (property C17, queues behind the level adapters)

* `clStep` is natural in the message type (`clStep_map`), its new content is a sublist of `msg :: old` (`clStep_sublist`),
  the offered message is irrelevant when nothing is enqueued (`clStep_msg_irrel`), what it pops is no longer inside
  (`clStep_popped`);
* the repaired `RecvRTL2SendCL` + CL queue over heap cells refines the CL queue over values and keeps the ownership
  invariant `Own` (`r2c_step`, `r2c_run`); the adapter as it was keeps every entry equal to the live signal (`aliased_step`);
* `RecvCL2SendRTL` is the capacity-1 bypass specification with a pushing dequeue side (`c2r_bypass1`); composed with a
  FIFO specification it keeps `accepted = delivered ++ queue ++ slot` (`compose_step_ledger`, `compose_run_ledger`);
* ledger-level composition of any chain of FIFO places (`chain_ledger`);
* the composition with any machine that simulates the specification (`Sim`), in particular every queue class of
  `Model/Queue.lean`, equals the composition with the specification (`compose_sim`, `composeCls_spec`).
-/
set_option linter.unusedSimpArgs false
set_option linter.unusedVariables false
namespace PV.QAdapter
open PV.Queue

def mapIn {α β} (f : α → β) (i : In α) : In β := { rst := i.rst, enq := i.enq, msg := f i.msg, deq := i.deq }
def mapOut {α β} (f : α → β) (o : Out α) : Out β := { enqRdy := o.enqRdy, deqRdy := o.deqRdy, ret := o.ret.map f, count := o.count }

theorem clStep_map {α β} (f : α → β) (k : Kind) (n : Nat) (q : List α) (i : In α) :
    (clStep k n (q.map f) (mapIn f i)).1 = (clStep k n q i).1.map f ∧
    (clStep k n (q.map f) (mapIn f i)).2 = mapOut f (clStep k n q i).2 := by
  obtain ⟨r, en, m, d⟩ := i
  cases k <;> cases en <;> cases d <;>
    simp only [clStep, mapIn, mapOut, List.length_map, Bool.false_and, Bool.true_and, Bool.false_eq_true, if_false,
      decide_eq_true_eq, List.length_dropLast] <;>
    (repeat' split) <;> simp_all [List.map_dropLast, List.getLast?_map] <;> (try omega) <;>
    (try (rw [← List.map_cons, List.getLast?_map]))


theorem clStep_sublist {α} (k : Kind) (n : Nat) (q : List α) (i : In α) :
    (clStep k n q i).1.Sublist (i.msg :: q) ∧
    ((i.enq && (clStep k n q i).2.enqRdy) = false → (clStep k n q i).1.Sublist q) := by
  obtain ⟨r, en, m, d⟩ := i
  have h1 : q.dropLast.Sublist q := List.dropLast_sublist q
  have h2 : q.Sublist (m :: q) := List.sublist_cons_self m q
  have h3 : (m :: q).dropLast.Sublist (m :: q) := List.dropLast_sublist _
  have h4 : (m :: q.dropLast).Sublist (m :: q) := h1.cons_cons m
  have h5 : q.dropLast.Sublist (m :: q) := h1.trans h2
  cases k <;> cases en <;> cases d <;>
    simp only [clStep, Bool.false_and, Bool.true_and, Bool.false_eq_true, if_false, decide_eq_true_eq] <;>
    (repeat' split) <;> simp_all <;> omega

theorem clStep_msg_irrel {α} (k : Kind) (n : Nat) (q : List α) (i : In α) (m : α)
    (h : (i.enq && (clStep k n q i).2.enqRdy) = false) :
    clStep k n q { rst := i.rst, enq := i.enq, msg := m, deq := i.deq } = clStep k n q i := by
  obtain ⟨r, en, m0, d⟩ := i
  cases k <;> cases en <;> cases d <;>
    simp only [clStep, Bool.false_and, Bool.true_and, Bool.false_eq_true, if_false, decide_eq_true_eq] at h ⊢ <;>
    (repeat' split) <;> simp_all <;> omega

theorem clStep_popped {α} (k : Kind) (n : Nat) (q : List α) (i : In α)
    (hd : i.deq = true) (hr : (clStep k n q i).2.deqRdy = true) :
    ∃ c, (clStep k n q i).2.ret = some c ∧ ((clStep k n q i).1 ++ [c]).Sublist (i.msg :: q) := by
  obtain ⟨r, en, m, d⟩ := i
  simp only at hd; subst hd
  rcases List.eq_nil_or_concat q with rfl | ⟨l, a, h⟩
  · cases k <;> cases en <;>
      simp only [clStep, Bool.false_and, Bool.true_and, Bool.false_eq_true, if_false, decide_eq_true_eq] at hr ⊢ <;>
      (repeat' split) <;> simp_all
  · rw [List.concat_eq_append] at h; subst h
    have e1 : (l ++ [a]).dropLast = l := List.dropLast_concat
    have e2 : (l ++ [a]).getLast? = some a := List.getLast?_concat
    have e3 : (m :: (l ++ [a])).dropLast = m :: l := dropLast_cons_snoc m a l
    have e4 : (m :: (l ++ [a])).getLast? = some a := getLast?_cons_snoc m a l
    have s1 : (l ++ [a]).Sublist (m :: (l ++ [a])) := List.sublist_cons_self _ _
    cases k <;> cases en <;>
      simp only [clStep, Bool.false_and, Bool.true_and, Bool.false_eq_true, if_false, decide_eq_true_eq] at hr ⊢ <;>
      (repeat' split) <;> simp_all

/-! ## ownership invariant of the repaired adapter + CL queue -/

structure Own {α} (s : R2C α) : Prop where
  fresh : ∀ c ∈ s.q, 0 < c ∧ c < s.h.next
  nodup : s.q.Nodup
  hnext : 0 < s.h.next

theorem own_init {α} (d : α) : Own (R2C.init d) :=
  ⟨by simp [R2C.init], by simp [R2C.init], by simp [R2C.init]⟩

/-- the values the queue holds now -/
def vals {α} (s : R2C α) : List α := s.q.map s.h.val

theorem r2c_step {α} (early : Bool) (k : Kind) (n : Nat) (s : R2C α) (i : In α) (ho : Own s) :
    vals (r2cStep false early k n s i).1 = (clStep (effKind early k) n (vals s) (gateIn i)).1 ∧
    (r2cStep false early k n s i).2 = gateOut i (clStep (effKind early k) n (vals s) (gateIn i)).2 ∧
    Own (r2cStep false early k n s i).1 := by
  generalize hk : effKind early k = k'
  let i0 : In Nat := { rst := false, enq := i.enq && !i.rst, msg := s.h.next, deq := i.deq }
  have hstep : r2cStep false early k n s i =
      (let R := clStep k' n s.q i0
       let took := (i.enq && !i.rst) && R.2.enqRdy
       let h1 := s.h.write sig i.msg
       let h2 := if took then (h1.alloc i.msg).1 else h1
       ({ h := h2, q := R.1 },
        { enqRdy := R.2.enqRdy && !i.rst, deqRdy := R.2.deqRdy, ret := R.2.ret.map h2.val, count := R.2.count })) := by
    simp [r2cStep, hk, Heap.write, i0]
  rw [hstep]
  have hsub := clStep_sublist k' n s.q i0
  have hnot : s.h.next ∉ s.q := fun hm => Nat.lt_irrefl _ (ho.fresh _ hm).2
  have hnd : (s.h.next :: s.q).Nodup := List.nodup_cons.mpr ⟨hnot, ho.nodup⟩
  cases htook : ((i.enq && !i.rst) && (clStep k' n s.q i0).2.enqRdy)
  · -- nothing enqueued: the heap only sees the signal rewritten
    simp only [htook, Bool.false_eq_true, if_false]
    have hs := hsub.2 (by simpa [i0] using htook)
    have hf : ∀ c ∈ s.q, (s.h.write sig i.msg).val c = s.h.val c := by
      intro c hc; have := (ho.fresh c hc).1
      have h0 : c ≠ 0 := by omega
      simp [Heap.write, sig, h0]
    have hm := clStep_map (s.h.write sig i.msg).val k' n s.q i0
    have hq : s.q.map (s.h.write sig i.msg).val = vals s := List.map_congr_left hf
    rw [hq] at hm
    have hirr := clStep_msg_irrel k' n (vals s) (mapIn (s.h.write sig i.msg).val i0) i.msg
      (by rw [hm.2]; simpa [mapIn, mapOut, i0] using htook)
    have hgi : gateIn i = { rst := (mapIn (s.h.write sig i.msg).val i0).rst, enq := (mapIn (s.h.write sig i.msg).val i0).enq,
                            msg := i.msg, deq := (mapIn (s.h.write sig i.msg).val i0).deq } := by
      simp [gateIn, mapIn, i0]
    rw [hgi, hirr]
    refine ⟨by simp only [vals]; exact hm.1.symm, by rw [hm.2]; simp [gateOut, mapOut], ?_, ?_, ?_⟩
    · intro c hc; exact ho.fresh c (hs.subset hc)
    · exact ho.nodup.sublist hs
    · exact ho.hnext
  · -- a new object was made and enqueued
    simp only [htook, if_true]
    have hf : ∀ c ∈ s.q, ((s.h.write sig i.msg).alloc i.msg).1.val c = s.h.val c := by
      intro c hc; have := ho.fresh c hc
      have h0 : c ≠ 0 := by omega
      have h1 : c ≠ s.h.next := by omega
      simp [Heap.write, Heap.alloc, sig, h0, h1]
    have hc0 : ((s.h.write sig i.msg).alloc i.msg).1.val s.h.next = i.msg := by simp [Heap.write, Heap.alloc]
    have hm := clStep_map ((s.h.write sig i.msg).alloc i.msg).1.val k' n s.q i0
    have hq : s.q.map ((s.h.write sig i.msg).alloc i.msg).1.val = vals s := List.map_congr_left hf
    rw [hq] at hm
    have hgi : mapIn ((s.h.write sig i.msg).alloc i.msg).1.val i0 = gateIn i := by
      simp [gateIn, mapIn, i0, hc0]
    rw [hgi] at hm
    refine ⟨by simp only [vals]; exact hm.1.symm, by rw [hm.2]; simp [gateOut, mapOut], ?_, ?_, ?_⟩
    · intro c hc
      have := hsub.1.subset hc
      simp only [i0, List.mem_cons] at this
      rcases this with rfl | h
      · exact ⟨ho.hnext, by simp [Heap.write, Heap.alloc]⟩
      · have := ho.fresh c h; exact ⟨this.1, by simp [Heap.write, Heap.alloc]; omega⟩
    · exact hnd.sublist hsub.1
    · simp [Heap.write, Heap.alloc]

theorem r2c_run {α} (early : Bool) (k : Kind) (n : Nat) (is : List (In α)) (s : R2C α) (ho : Own s) :
    run (r2cStep false early k n) s is =
      List.zipWith gateOut is (run (clStep (effKind early k) n) (vals s) (is.map gateIn)) ∧
    Own (runState (r2cStep false early k n) s is) ∧
    vals (runState (r2cStep false early k n) s is) = runState (clStep (effKind early k) n) (vals s) (is.map gateIn) := by
  induction is generalizing s with
  | nil => exact ⟨rfl, ho, rfl⟩
  | cons i is ih =>
    obtain ⟨h1, h2, h3⟩ := r2c_step early k n s i ho
    obtain ⟨g1, g2, g3⟩ := ih _ h3
    simp only [run, runState, List.map_cons, List.zipWith_cons_cons]
    rw [g1, h1, h2]
    exact ⟨rfl, g2, by rw [g3, h1]⟩

theorem legalTrace_free {α} (st : Style) (h1 : st.enqEnRdy = false) (h2 : st.deqEnRdy = false)
    (is : List (In α)) (os : List (Out α)) : LegalTrace st is os := by
  induction is generalizing os with
  | nil => simp [LegalTrace]
  | cons j is ih =>
    cases os with
    | nil => simp [LegalTrace]
    | cons o os => exact ⟨⟨by simp [h1], by simp [h2]⟩, ih os⟩

/-- the adapter does not change what the ledger sees -/
theorem ledger_gate {α} (L : Ledger α) (is : List (In α)) (os : List (Out α)) :
    ledgerFrom styleV1 L is (List.zipWith gateOut is os) = ledgerFrom styleV1 L (is.map gateIn) os := by
  induction is generalizing L os with
  | nil => cases os <;> rfl
  | cons i is ih =>
    cases os with
    | nil => rfl
    | cons o os =>
      simp only [List.zipWith_cons_cons, List.map_cons, ledgerFrom]
      rw [ih]
      congr 1
      obtain ⟨r, en, m, d⟩ := i
      obtain ⟨er, dr, rt, ct⟩ := o
      cases r <;> cases en <;> cases er <;> simp [Ledger.step, styleV1, accepted, delivered, gateOut, gateIn]

/-! ## the adapter as it was: every entry is the live signal object -/

theorem clStep_ret_mem {α} (k : Kind) (n : Nat) (q : List α) (i : In α) (c : α)
    (h : (clStep k n q i).2.ret = some c) : c ∈ i.msg :: q := by
  obtain ⟨r, en, m, d⟩ := i
  have g1 : ∀ x, q.getLast? = some x → x ∈ m :: q := fun x hx => List.mem_cons_of_mem _ (List.mem_of_getLast? hx)
  have g2 : ∀ x, (m :: q).getLast? = some x → x ∈ m :: q := fun x hx => List.mem_of_getLast? hx
  cases k <;> cases en <;> cases d <;>
    simp only [clStep, Bool.false_and, Bool.true_and, Bool.false_eq_true, if_false, decide_eq_true_eq] at h <;>
    (repeat' split at h) <;> simp_all

theorem aliased_step {α} (early : Bool) (k : Kind) (n : Nat) (s : R2C α) (i : In α) (ha : ∀ c ∈ s.q, c = sig) :
    (∀ c ∈ (r2cStep true early k n s i).1.q, c = sig) ∧
    (∀ v, (r2cStep true early k n s i).2.ret = some v → v = i.msg) := by
  have hsub := (clStep_sublist (effKind early k) n s.q
    { rst := false, enq := i.enq && !i.rst, msg := sig, deq := i.deq }).1
  have hall : ∀ c ∈ (clStep (effKind early k) n s.q { rst := false, enq := i.enq && !i.rst, msg := sig, deq := i.deq }).1,
      c = sig := by
    intro c hc
    have := hsub.subset hc
    simp only [List.mem_cons] at this
    rcases this with h | h
    · exact h
    · exact ha c h
  refine ⟨by simpa [r2cStep] using hall, ?_⟩
  intro v hv
  simp only [r2cStep, Bool.and_true, Bool.not_true, Bool.and_false, Bool.false_eq_true, if_false, if_true,
    Option.map_eq_some_iff] at hv
  obtain ⟨c, hc, rfl⟩ := hv
  -- the object handed over is in the queue or is the offered object: the live signal either way
  have hmem : c = sig := by
    have := clStep_ret_mem _ _ _ _ _ hc
    simp only [List.mem_cons] at this
    rcases this with h | h
    · exact h
    · exact ha c h
  subst hmem
  simp [Heap.write, sig]

/-! ## `RecvCL2SendRTL` is a one-entry bypass queue with a pushing dequeue side -/

theorem c2r_bypass1 {α} (s : C2R α) (i : In α) :
    (c2rStep s i).2 = (specStep styleER .bypass 1 (c2rAbs s) i).2 ∧
    c2rAbs (c2rStep s i).1 = (specStep styleER .bypass 1 (c2rAbs s) i).1 := by
  obtain ⟨e, sent⟩ := s
  obtain ⟨r, en, m, d⟩ := i
  cases sent <;> cases e <;> cases en <;> cases d <;>
    simp [c2rStep, c2rAbs, specStep, styleER, enqLaw, deqLaw]

theorem c2rAbs_len {α} (s : C2R α) : (c2rAbs s).length ≤ 1 := by
  obtain ⟨e, sent⟩ := s
  cases sent <;> cases e <;> simp [c2rAbs]

theorem spec_enqRdy_indep {α} (st : Style) (k : Kind) (n : Nat) (l : List α) (r d e e' : Bool) (m m' : α) :
    (specStep st k n l { rst := r, enq := e, msg := m, deq := d }).2.enqRdy =
    (specStep st k n l { rst := r, enq := e', msg := m', deq := d }).2.enqRdy := rfl

theorem c2r_handover {α} (a : C2R α) (e : Bool) (m : α) (probe : Bool) (M : List α) :
    (if delivered styleER { rst := false, enq := e, msg := m, deq := probe }
          (c2rStep a { rst := false, enq := e, msg := m, deq := probe }).2 = true
      then M ++ (c2rStep a { rst := false, enq := e, msg := m, deq := probe }).2.ret.toList else M) =
    (if ((c2rStep a { rst := false, enq := e, msg := m, deq := probe }).2.deqRdy && probe) = true
      then M ++ [(c2rStep a { rst := false, enq := e, msg := m, deq := probe }).2.ret.getD m] else M) := by
  obtain ⟨en, sent⟩ := a
  cases probe <;> cases sent <;> cases en <;> cases e <;> simp [c2rStep, delivered, styleER]

/-- one cycle of the composition keeps `accepted = delivered ++ queue ++ slot` -/
theorem compose_step_ledger {α} (st : Style) (k : Kind) (n : Nat) (hn : 0 < n) (a : C2R α) (l : List α) (i : In α)
    (hr : i.rst = false) (L : Ledger α) (h : L.acc = L.del ++ (l ++ c2rAbs a)) (hl : l.length ≤ n) :
    let r := composeStep (specStep st k n) (a, l) i
    let L' : Ledger α :=
      ⟨ if accepted r.2.aIn r.2.aOut then L.acc ++ [r.2.aIn.msg] else L.acc,
        if delivered st r.2.bIn r.2.bOut then L.del ++ r.2.bOut.ret.toList else L.del ⟩
    L'.acc = L'.del ++ (r.1.2 ++ c2rAbs r.1.1) ∧ r.1.2.length ≤ n := by
  intro r L'
  -- the two ledgers around the hand-over point
  let probe := (specStep st k n l { rst := i.rst, enq := false, msg := i.msg, deq := i.deq }).2.enqRdy
  let aIn : In α := { rst := false, enq := i.enq, msg := i.msg, deq := probe }
  let aO := c2rStep a aIn
  let bIn : In α := { rst := i.rst, enq := aO.2.deqRdy, msg := aO.2.ret.getD i.msg, deq := i.deq }
  have hb := c2r_bypass1 a aIn
  have hA := spec_step_ledger styleER .bypass 1 (by decide) (c2rAbs a) aIn ⟨L.acc, L.del ++ l⟩
    (by simp [h, List.append_assoc]) (c2rAbs_len a)
  have hB := spec_step_ledger st k n hn l bIn ⟨L.del ++ l, L.del⟩ rfl hl
  rw [← hb.1, ← hb.2] at hA
  -- what the adapter hands over is what the queue accepts
  have hprobe : (specStep st k n l bIn).2.enqRdy = probe := rfl
  have hacc : accepted bIn (specStep st k n l bIn).2 = (aO.2.deqRdy && probe) := rfl
  have hrst : (st.reset && bIn.rst) = false := by simp [bIn, hr]
  have hand : (Ledger.step styleER ⟨L.acc, L.del ++ l⟩ aIn aO.2).del = (Ledger.step st ⟨L.del ++ l, L.del⟩ bIn (specStep st k n l bIn).2).acc := by
    simp only [Ledger.step, hrst, hacc, Bool.false_eq_true, if_false]
    have := c2r_handover a i.enq i.msg probe (L.del ++ l)
    simpa [styleER] using this
  have e1 : r.1.2 = (specStep st k n l bIn).1 := rfl
  have e2 : r.1.1 = aO.1 := rfl
  have e3 : L'.acc = (Ledger.step styleER ⟨L.acc, L.del ++ l⟩ aIn aO.2).acc := by
    simp [L', r, composeStep, Ledger.step, styleER, aIn, aO, probe]
  have e4 : L'.del = (Ledger.step st ⟨L.del ++ l, L.del⟩ bIn (specStep st k n l bIn).2).del := by
    simp [L', r, composeStep, Ledger.step, hr, aIn, aO, bIn, probe]
  refine ⟨?_, by rw [e1]; exact hB.2⟩
  rw [e3, e4, e1, e2, hA.1, hand, hB.1, List.append_assoc]

theorem compose_run_ledger {α} (st : Style) (k : Kind) (n : Nat) (hn : 0 < n) (is : List (In α))
    (hr : ∀ i ∈ is, i.rst = false) (a : C2R α) (l : List α) (L : Ledger α)
    (h : L.acc = L.del ++ (l ++ c2rAbs a)) (hl : l.length ≤ n) :
    (outerLedgerFrom st L (composeRun (specStep st k n) (a, l) is)).acc =
      (outerLedgerFrom st L (composeRun (specStep st k n) (a, l) is)).del ++
        ((composeState (specStep st k n) (a, l) is).2 ++ c2rAbs (composeState (specStep st k n) (a, l) is).1) ∧
    (composeState (specStep st k n) (a, l) is).2.length ≤ n := by
  induction is generalizing a l L with
  | nil => exact ⟨h, hl⟩
  | cons i is ih =>
    have h1 := compose_step_ledger st k n hn a l i (hr i (List.mem_cons_self ..)) L h hl
    simp only [composeRun, composeState, outerLedgerFrom]
    exact ih (fun j hj => hr j (List.mem_cons_of_mem _ hj)) _ _ _ h1.1 h1.2

/-! ## chains -/

theorem chain_ledger {α} (p : PlaceLedger α) (ps : List (PlaceLedger α))
    (hok : ∀ x ∈ p :: ps, x.ok) (hl : Linked (p :: ps)) :
    p.acc = chainDel p ps ++ chainInside (p :: ps) ∧ (chainInside (p :: ps)).length ≤ chainCap (p :: ps) := by
  induction ps generalizing p with
  | nil =>
    have := hok p (List.mem_cons_self ..)
    simpa [chainDel, chainInside, chainCap, PlaceLedger.ok] using this
  | cons q rest ih =>
    have hp := hok p (List.mem_cons_self ..)
    have hq := ih q (fun x hx => hok x (List.mem_cons_of_mem _ hx)) hl.2
    have hpq : p.del = q.acc := hl.1
    refine ⟨?_, ?_⟩
    · simp only [chainDel, chainInside] at hq ⊢
      rw [hp.1, hpq, hq.1, List.append_assoc]
    · simp only [chainInside, chainCap, List.length_append] at hq ⊢
      have := hp.2
      omega
/-! ## the composition with a queue MACHINE is the composition with its specification -/

/-- the adapter raises `enq.en` only when the queue specification behind it is ready -/
theorem compose_enq_legal {α} (st : Style) (k : Kind) (n : Nat) (a : C2R α) (l : List α) (i : In α) :
    (composeStep (specStep st k n) (a, l) i).2.bIn.enq = true →
    (composeStep (specStep st k n) (a, l) i).2.bOut.enqRdy = true := by
  intro h
  have h1 : (composeStep (specStep st k n) (a, l) i).2.bOut.enqRdy = (composeStep (specStep st k n) (a, l) i).2.aIn.deq := rfl
  have h2 : (composeStep (specStep st k n) (a, l) i).2.bIn.enq = (composeStep (specStep st k n) (a, l) i).2.aOut.deqRdy := rfl
  have h3 : (composeStep (specStep st k n) (a, l) i).2.aOut = (c2rStep a (composeStep (specStep st k n) (a, l) i).2.aIn).2 := rfl
  rw [h1]; rw [h2, h3] at h
  simp only [c2rStep, Bool.and_eq_true] at h
  exact h.2

/-- the consumer behind the queue is protocol-legal in every cycle of the composition -/
def DeqLegal {α} (st : Style) (os : List (Obs α)) : Prop :=
  ∀ o ∈ os, st.deqEnRdy = true → o.bIn.deq = true → o.bOut.deqRdy = true

theorem compose_sim {σ α : Type} {step : σ → In α → σ × Out α} {st : Style} {k : Kind} {n : Nat}
    (S : Sim step st k n) (is : List (In α)) (a : C2R α) (s : σ) (hs : S.Inv s)
    (hd : DeqLegal st (composeRun step (a, s) is)) :
    composeRun step (a, s) is = composeRun (specStep st k n) (a, S.abs s) is := by
  induction is generalizing a s with
  | nil => rfl
  | cons i is ih =>
    simp only [composeRun] at hd ⊢
    have hprobe : (step s { rst := i.rst, enq := false, msg := i.msg, deq := i.deq }).2.enqRdy =
        (specStep st k n (S.abs s) { rst := i.rst, enq := false, msg := i.msg, deq := i.deq }).2.enqRdy := by
      rw [S.out_eq s _ hs]
    have hobs : (composeStep step (a, s) i).2 = (composeStep (specStep st k n) (a, S.abs s) i).2 := by
      simp only [composeStep, hprobe]
      congr 1
      exact S.out_eq s _ hs
    have ha : (composeStep step (a, s) i).1.1 = (composeStep (specStep st k n) (a, S.abs s) i).1.1 := by
      simp only [composeStep, hprobe]
    -- legality of the cycle as the queue machine sees it
    have hleg : Legal st (composeStep step (a, s) i).2.bOut (composeStep step (a, s) i).2.bIn := by
      refine ⟨fun _ he => ?_, fun h1 h2 => hd _ (List.mem_cons_self ..) h1 h2⟩
      rw [hobs] at he ⊢
      exact compose_enq_legal st k n a (S.abs s) i he
    have hnext := S.next s (composeStep step (a, s) i).2.bIn hs hleg
    have hb : S.abs (composeStep step (a, s) i).1.2 = (composeStep (specStep st k n) (a, S.abs s) i).1.2 := by
      have e1 : (composeStep step (a, s) i).1.2 = (step s (composeStep step (a, s) i).2.bIn).1 := rfl
      have e2 : (composeStep (specStep st k n) (a, S.abs s) i).1.2 =
          (specStep st k n (S.abs s) (composeStep (specStep st k n) (a, S.abs s) i).2.bIn).1 := rfl
      rw [e1, e2, hnext.1, hobs]
    have hinv : S.Inv (composeStep step (a, s) i).1.2 := hnext.2
    rw [hobs]
    congr 1
    have hst : (composeStep step (a, s) i).1 = ((composeStep step (a, s) i).1.1, (composeStep step (a, s) i).1.2) := rfl
    have hst2 : (composeStep (specStep st k n) (a, S.abs s) i).1 =
        ((composeStep (specStep st k n) (a, S.abs s) i).1.1, (composeStep (specStep st k n) (a, S.abs s) i).1.2) := rfl
    rw [hst, hst2, ← ha, ← hb]
    exact ih _ _ hinv (fun o ho => hd o (List.mem_cons_of_mem _ (by rw [hst] at ho; exact ho)))

theorem composeCls_spec {α} (c : Cls) (hc : c ≠ .erBypass2) (n : Nat) (hn : c.capOK n) (d : α) (is : List (In α))
    (hd : DeqLegal c.style (composeCls c n d is)) :
    composeCls c n d is = composeRun (specStep c.style c.kind (c.cap n)) (C2R.init, []) is := by
  cases c
  case erBypass2 => exact absurd rfl hc
  case qNormal | qPipe | qBypass =>
    simp only [composeCls, Cls.kind, Cls.style, Cls.cap, Cls.capOK] at *
    split at hd
    · next h1 => subst h1; simp only [if_true]; exact compose_sim (q1Sim _) is _ _ trivial hd
    · next h1 =>
      simp only [h1, if_false]
      have := compose_sim (ringSim styleQ _ n (by omega) rfl rfl rfl) is C2R.init (Ring.init d) (ring_init_inv n (by omega) d) hd
      have e : rabs n (Ring.init d) = ([] : List α) := by simp [rabs, Ring.init]
      change _ = composeRun _ (C2R.init, rabs n (Ring.init d)) is at this
      rw [e] at this; exact this
  case sNormal | sPipe | sBypass =>
    simp only [composeCls, Cls.kind, Cls.style, Cls.cap, Cls.capOK] at *
    split at hd
    · next h1 => subst h1; simp only [if_true]; exact compose_sim (s1Sim _) is _ _ trivial hd
    · next h1 =>
      simp only [h1, if_false]
      have := compose_sim (ringSim styleS _ n (by omega) rfl rfl rfl) is C2R.init (Ring.init d) (ring_init_inv n (by omega) d) hd
      have e : rabs n (Ring.init d) = ([] : List α) := by simp [rabs, Ring.init]
      change _ = composeRun _ (C2R.init, rabs n (Ring.init d)) is at this
      rw [e] at this; exact this
  case erNormal1 | erPipe1 | erBypass1 =>
    simp only [composeCls, Cls.kind, Cls.style, Cls.cap] at *
    exact compose_sim (er1Sim _) is _ _ trivial hd
  case vrNormal1 | vrPipe1 | vrBypass1 =>
    simp only [composeCls, Cls.kind, Cls.style, Cls.cap] at *
    exact compose_sim (v1Sim _) is _ _ trivial hd
  case vrNormalN =>
    simp only [composeCls, Cls.kind, Cls.style, Cls.cap, Cls.capOK] at *
    have := compose_sim (vrSim n (by omega)) is C2R.init (VRing.init d) (vring_init_inv n (by omega) d) hd
    have e : rabs n (toRing n (VRing.init d)) = ([] : List α) := by simp [rabs, toRing, vcount, VRing.init]
    change _ = composeRun _ (C2R.init, rabs n (toRing n (VRing.init d))) is at this
    rw [e] at this; exact this
  case clNormal | clPipe | clBypass =>
    simp only [composeCls, Cls.kind, Cls.style, Cls.cap, Cls.capOK] at *
    exact compose_sim (clSim _ n (by omega)) is _ _ (Nat.zero_le _) hd
end PV.QAdapter
