import PymtlVerif.Proofs.PipeIsa
import PymtlVerif.Proofs.Pipe
/-!
Statement side of the LEVEL-3 refinement proof: the ISA run of a program (`isaAt`), the hypothesis on the
program (`Runs`), the environment assumption as an explicit predicate (`Env`, `envOk`, `envNext`,
`EnvTrace`), and the refinement invariant `Inv` between a pipeline state, the environment's state and the
number of commits so far.
-/
namespace PV.Pipe
open PV.TinyRV0 (W32 Mem loadWord storeWord rget rset)

/-- a program: the initial memory image and the mngr2proc source list -/
structure Prog where
  mem0 : Mem
  inp : List Nat

/-- ISA state after `j` instructions (stays put once the interpreter stops) -/
def isaAt (p : Prog) : Nat → TinyRV0.State
  | 0 => TinyRV0.State.init p.mem0 p.inp
  | j + 1 => match TinyRV0.step (isaAt p j) with
    | .ok s' => s'
    | .error _ => isaAt p j

/-- the word of the program image at the PC of the `j`-th instruction -/
def wordAt (p : Prog) (j : Nat) : Nat := loadWord p.mem0 (isaAt p j).pc

/-- `Runs p N`: from reset the ISA interpreter executes `N` instructions without stopping (no illegal word,
no behaviour the document leaves undefined, no `csrr mngr2proc` on an empty FIFO), and each of them is
still the word of the initial image (the program does not overwrite an instruction before executing
it: fetches are served ahead of time by the instruction port) -/
def Runs (p : Prog) (N : Nat) : Prop :=
  ∀ j, j < N → (∃ s', TinyRV0.step (isaAt p j) = .ok s') ∧
    loadWord (isaAt p j).mem (isaAt p j).pc = wordAt p j

/-! ## the environment assumption -/

/-- state of the environment: what it owes the processor -/
structure Env where
  /-- addresses of accepted instruction fetches not answered yet, oldest first -/
  ipend : List Nat := []
  /-- data memory after all accepted stores -/
  dmem : Mem
  /-- data responses owed, oldest first: `some v` = result of a load (read when the request was accepted),
  `none` = acknowledgement of a store (its data field is unconstrained) -/
  dresp : List (Option Nat) := []
  /-- mngr2proc messages not delivered yet -/
  src : List Nat
  /-- proc2mngr messages received -/
  out : List Nat := []

def Env.init (p : Prog) : Env := { dmem := p.mem0, src := p.inp }

/-- what the environment may drive in one cycle, given what it owes (`o` = the processor's outputs of the
same cycle; only the `rdy` of the three receive interfaces is looked at, and those depend on the
processor's state only).  No fairness: it may stall everything forever.
* reset stays low;
* an instruction response is the word of the image at the oldest unanswered fetch address, only when
  the processor is ready for it;
* a data response answers the oldest unanswered request; for a load its data is the little-endian word
  read when the request was accepted;
* a mngr2proc message is the next element of the source list.
`imem.req.rdy`, `dmem.req.rdy`, `proc2mngr.rdy` and the whole accelerator interface are unconstrained. -/
def envOk (p : Prog) (E : Env) (i : EnvIn) (o : EnvOut) : Prop :=
  i.reset = false ∧
  (i.imem_resp_en = true → o.imem_resp_rdy = true ∧
     ∃ a rest, E.ipend = a :: rest ∧ i.imem_resp_data = loadWord p.mem0 a) ∧
  (i.dmem_resp_en = true → o.dmem_resp_rdy = true ∧
     ∃ r rest, E.dresp = r :: rest ∧ ∀ v, r = some v → i.dmem_resp_data = v) ∧
  (i.mngr2proc_en = true → o.mngr2proc_rdy = true ∧
     ∃ v rest, E.src = v :: rest ∧ i.mngr2proc_msg = v)

/-- how the environment's state moves: answered requests leave, accepted requests enter (a store
updates the memory at acceptance, a load reads it at acceptance: requests are served in order) -/
def envNext (E : Env) (i : EnvIn) (o : EnvOut) : Env where
  ipend := (if i.imem_resp_en then E.ipend.tail else E.ipend) ++ (if o.imem_req_en then [o.imem_req_addr] else [])
  dmem := if o.dmem_req_en && (o.dmem_req_type == 1) then storeWord E.dmem o.dmem_req_addr o.dmem_req_data else E.dmem
  dresp := (if i.dmem_resp_en then E.dresp.tail else E.dresp) ++
    (if o.dmem_req_en then [if o.dmem_req_type == 1 then none else some (loadWord E.dmem o.dmem_req_addr)] else [])
  src := if i.mngr2proc_en then E.src.tail else E.src
  out := E.out ++ (if o.proc2mngr_en then [o.proc2mngr_msg] else [])

/-- an input list the environment may produce against the processor started in `s` -/
def EnvTrace (p : Prog) : Env → State → List EnvIn → Prop
  | _, _, [] => True
  | E, s, i :: is => envOk p E i (out s i) ∧ EnvTrace p (envNext E i (out s i)) (next s i) is

/-- the environment's state after the trace -/
def envRun : Env → State → List EnvIn → Env
  | E, _, [] => E
  | E, s, i :: is => envRun (envNext E i (out s i)) (next s i) is

/-- number of commits (`commit_inst` pulses) during the trace -/
def commitCount : State → List EnvIn → Nat
  | _, [] => 0
  | s, i :: is => (commit_inst s i).toNat + commitCount (next s i) is

/-- the processor right after reset: nothing valid, PC register at the reset value, queues empty,
registers zero (`RegisterFile` has no reset: the power-on zeros) -/
structure PostReset (s : State) : Prop where
  vF : s.val_F = false
  vD : s.val_D = false
  vX : s.val_X = false
  vM : s.val_M = false
  vW : s.val_W = false
  pc : s.pc_F = 0x1fc
  rf : s.rf = List.replicate 32 0
  dw : s.drop_wait = false
  q1 : s.q1_full = false
  q2 : s.q2_full = false
  iq : s.imemresp_q.full = false
  dq : s.dmemresp_q.full = false
  mq : s.mngr2proc_q.full = false
  ex : s.cx.proc2mngr_en = false ∧ s.cm.proc2mngr_en = false ∧ s.cw.proc2mngr_en = false

/-! ## the refinement invariant -/

/-- index (in ISA program order) of the instruction in M / X / D / F when `c` instructions have committed -/
def iM (s : State) (c : Nat) : Nat := c + s.val_W.toNat
def iX (s : State) (c : Nat) : Nat := iM s c + s.val_M.toNat
def iD (s : State) (c : Nat) : Nat := iX s c + s.val_X.toNat
def iF (s : State) (c : Nat) : Nat := iD s c + s.val_D.toNat

/-- X holds a branch that the ISA takes -/
def tkX (p : Prog) (N : Nat) (s : State) (c : Nat) : Prop :=
  s.val_X = true ∧ iX s c < N ∧ U.taken (isaAt p (iX s c)) (wordAt p (iX s c)) = true
def tkD (p : Prog) (N : Nat) (s : State) (c : Nat) : Prop :=
  s.val_D = true ∧ iD s c < N ∧ U.taken (isaAt p (iD s c)) (wordAt p (iD s c)) = true

/-- X-stage control word of an instruction word -/
def ctlX_of (w : Nat) : CtlX := ctlX_next { inst_D := w }

/-- instruction words owed to the F stage, oldest first: response queue, memory, request queue -/
def fetchWords (p : Prog) (s : State) (E : Env) : List Nat :=
  (if s.imemresp_q.full then [s.imemresp_q.entry] else []) ++
  (E.ipend ++ (if s.q2_full then [s.q2_buf] else []) ++ (if s.q1_full then [s.q1_buf] else [])).map (loadWord p.mem0)

/-- W holds instruction `j` with its result -/
structure WOk (p : Prog) (s : State) (j : Nat) : Prop where
  wen : s.cw.rf_wen_pending = (U.cs (wordAt p j)).rf_wen_pending
  waddr : s.cw.rf_waddr = rd (wordAt p j)
  p2m : s.cw.proc2mngr_en = U.p2m (wordAt p j)
  val : ((U.cs (wordAt p j)).rf_wen_pending = true ∨ U.p2m (wordAt p j) = true) →
    s.wb_result_W = U.wb (isaAt p j) (wordAt p j)

/-- M holds instruction `j`; a load's value is in the response queue or owed by the memory -/
structure MOk (p : Prog) (s : State) (E : Env) (j : Nat) : Prop where
  wen : s.cm.rf_wen_pending = (U.cs (wordAt p j)).rf_wen_pending
  waddr : s.cm.rf_waddr = rd (wordAt p j)
  p2m : s.cm.proc2mngr_en = U.p2m (wordAt p j)
  dty : s.cm.dmemreq_type = (U.cs (wordAt p j)).dmemreq_type
  sel : s.cm.wb_result_sel = (U.cs (wordAt p j)).wb_result_sel
  xcel : s.cm.xcelreq = false
  val : (U.cs (wordAt p j)).wb_result_sel = 0 →
    ((U.cs (wordAt p j)).rf_wen_pending = true ∨ U.p2m (wordAt p j) = true) →
    s.ex_result_M = U.aluv (isaAt p j) (wordAt p j)
  ldv : (U.cs (wordAt p j)).dmemreq_type = ld →
    (s.dmemresp_q.full = true → s.dmemresp_q.entry = loadWord (isaAt p j).mem (U.aluv (isaAt p j) (wordAt p j))) ∧
    (∀ r ∈ E.dresp, r = some (loadWord (isaAt p j).mem (U.aluv (isaAt p j) (wordAt p j))))

/-- X holds instruction `j` with the operands the ISA reads -/
structure XOk (p : Prog) (s : State) (j : Nat) : Prop where
  ctl : s.cx = ctlX_of (wordAt p j)
  op1 : (U.cs (wordAt p j)).rs1_en = true → s.op1_X = U.op1 (isaAt p j) (wordAt p j)
  op2 : ((U.cs (wordAt p j)).op2_sel ≠ 0 ∨ (U.cs (wordAt p j)).rs2_en = true) → s.op2_X = U.op2 (isaAt p j) (wordAt p j)
  sto : (U.cs (wordAt p j)).rs2_en = true → s.store_X = U.rs2v (isaAt p j) (wordAt p j)
  tgt : (U.cs (wordAt p j)).br_type = true → s.br_target_X = ((isaAt p j).pc + U.imm (wordAt p j)) % W32

/-- the refinement invariant: `c` = number of commits so far -/
structure Inv (p : Prog) (N : Nat) (s : State) (E : Env) (c : Nat) : Prop where
  /-- architectural state: register file and proc2mngr stream are the ISA's after `c` instructions -/
  rf : c ≤ N → s.rf = (isaAt p c).regs
  out : c ≤ N → E.out = (isaAt p c).out
  /-- the stages hold consecutive instructions of the ISA run -/
  w : s.val_W = true → c < N → WOk p s c
  m : s.val_M = true → iM s c < N → MOk p s E (iM s c)
  x : s.val_X = true → iX s c < N → XOk p s (iX s c)
  /-- memory and input stream run ahead of the commits: stores are sent from X, mngr2proc is read in D -/
  dmem : iX s c ≤ N → E.dmem = (isaAt p (iX s c)).mem
  dcnt : s.dmemresp_q.full.toNat + E.dresp.length = (s.val_M && (s.cm.dmemreq_type != 0)).toNat
  inp : iD s c ≤ N →
    (if s.mngr2proc_q.full then [s.mngr2proc_q.entry] else []) ++ E.src = (isaAt p (iD s c)).inp
  /-- D and F are on the ISA's path unless an older in-flight branch is taken -/
  d : s.val_D = true → iD s c < N → ¬ tkX p N s c →
    s.pc_D = (isaAt p (iD s c)).pc ∧ s.inst_D = wordAt p (iD s c)
  f : s.val_F = true → iF s c ≤ N → ¬ tkX p N s c → ¬ tkD p N s c → s.pc_F = (isaAt p (iF s c)).pc
  f0 : s.val_F = false → s.val_D = false ∧ s.val_X = false ∧ s.val_M = false ∧ s.val_W = false ∧
    s.drop_wait = false ∧ c = 0 ∧ s.pc_F = 0x1fc
  /-- fetch accounting: the words owed to F are the squashed fetch the drop unit waits for (if any) and
  the word at the PC register -/
  fw : ∃ junk, fetchWords p s E =
    (if s.drop_wait then [junk] else []) ++ (if s.val_F then [loadWord p.mem0 s.pc_F] else [])
  q1 : s.q1_full = true → s.drop_wait = true
  wt : s.drop_wait = true → s.val_D = false ∧ s.val_X = false
  /-- no control word both writes a register and sends to proc2mngr (so a stalled W never writes) -/
  excl : (s.cx.proc2mngr_en = true → s.cx.rf_wen_pending = false) ∧
    (s.cm.proc2mngr_en = true → s.cm.rf_wen_pending = false) ∧
    (s.cw.proc2mngr_en = true → s.cw.rf_wen_pending = false)

end PV.Pipe
