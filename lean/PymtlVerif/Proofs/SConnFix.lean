import PymtlVerif.Proofs.SConnEmit
import PymtlVerif.Proofs.Sched
/-!
# The filed pairs as continuous assignments (instance of `Proofs/Sched.lean`, core Lean only)

Each pair `(u, v)` is the process `v = u` (`asgBlk`: reads `u`, writes `v`). In filing order the processes of all nets are
topologically sorted (`treeEdges_topo`: no later process writes what an earlier one reads) and have a single writer per
signal (`treeEdges_singleWriter`), so `Sched.fixed_point_of_topo` and `Sched.unique_fixed_point` apply.
-/
namespace PV.SConn
open PV.Nets PV.Sched

def asgBlk {α : Type} (p : Pair) : Blk Sig α :=
  { R := fun x => x = p.1, W := fun x => x = p.2, run := fun s x => if x = p.2 then s p.1 else s x }

theorem asgBlk_wf {α : Type} (p : Pair) (h : p.1 ≠ p.2) : (asgBlk (α := α) p).Wf where
  frame := by
    intro s v hv
    have : ¬ v = p.2 := hv
    simp [asgBlk, this]
  dep := by
    intro s s' hs v hv
    have e : v = p.2 := hv
    simp only [asgBlk, e, if_true]
    exact hs p.1 rfl
  noself := by
    intro v hr hw
    have e1 : v = p.1 := hr
    have e2 : v = p.2 := hw
    exact h (e1.symm.trans e2)

theorem asgBlk_fixed_iff {α : Type} (p : Pair) (s : Sig → α) : (asgBlk p).run s = s ↔ s p.2 = s p.1 := by
  constructor
  · intro h
    have := congrFun h p.2
    simp only [asgBlk, if_true] at this
    exact this.symm
  · intro h
    funext x
    by_cases e : x = p.2
    · simp only [asgBlk, e, if_true]; exact h.symm
    · simp [asgBlk, e]

theorem TreeOrd.pairwise {V : List Nat} {L : List Pair} (h : TreeOrd V L) : L.Pairwise (fun p q => q.2 ≠ p.1) := by
  induction L generalizing V with
  | nil => exact List.Pairwise.nil
  | cons q L ih =>
    obtain ⟨h1, _, h3⟩ := h
    refine List.pairwise_cons.mpr ⟨?_, ih h3⟩
    intro p hp hc
    exact TreeOrd.snd_not_mem h3 p hp (by rw [hc]; exact List.mem_cons_of_mem _ h1)

section
variable {H : Hier} {nb : Sig → List Sig}

theorem flatMap_pairwise (hv : ValidOrder H nb) : ∀ (ns : List (Sig × List Sig)),
    ns.Pairwise (fun a b => ¬ Reach H.edges a.1 b.1) →
    (ns.flatMap (fun n => traverse H nb n.1)).Pairwise (fun p q => q.2 ≠ p.1) := by
  intro ns
  induction ns with
  | nil => intro _; exact List.Pairwise.nil
  | cons n ns ih =>
    intro hp
    obtain ⟨h1, h2⟩ := List.pairwise_cons.mp hp
    simp only [List.flatMap_cons]
    rw [List.pairwise_append]
    refine ⟨(traverse_treeOrd hv n.1).pairwise, ih h2, ?_⟩
    intro p hp q hq hc
    obtain ⟨n', hn', hq'⟩ := List.mem_flatMap.mp hq
    apply h1 n' hn'
    have r1 := (traverse_reach hv n.1 p hp).1
    have r2 := (traverse_reach hv n'.1 q hq').2
    rw [hc] at r2
    exact reach_trans r1 (reach_symm r2)

theorem treeEdges_topo {α : Type} (hv : ValidOrder H nb) (hd : H.nets.Pairwise (fun a b => ¬ Reach H.edges a.1 b.1)) :
    Topo ((treeEdges H nb).map (asgBlk (α := α))) := by
  unfold Topo
  rw [List.pairwise_map]
  apply (flatMap_pairwise hv H.nets hd).imp
  intro p q hne v hr hw
  have e1 : v = p.1 := hr
  have e2 : v = q.2 := hw
  exact hne (e2.symm.trans e1)

theorem treeEdges_singleWriter {α : Type} (hv : ValidOrder H nb)
    (hd : H.nets.Pairwise (fun a b => ¬ Reach H.edges a.1 b.1)) :
    SingleWriter ((treeEdges H nb).map (asgBlk (α := α))) := by
  unfold SingleWriter
  rw [List.pairwise_map]
  apply (List.pairwise_map.mp (treeEdges_snd_nodup hv hd)).imp
  intro p q hne v hp hq
  have e1 : v = p.2 := hp
  have e2 : v = q.2 := hq
  exact hne (e1.symm.trans e2)

theorem treeEdges_wf {α : Type} (hv : ValidOrder H nb) : ∀ b ∈ (treeEdges H nb).map (asgBlk (α := α)), b.Wf := by
  intro b hb
  obtain ⟨p, hp, rfl⟩ := List.mem_map.mp hb
  obtain ⟨n, _, hpn⟩ := mem_treeEdges.mp hp
  exact asgBlk_wf p ((traverse_treeOrd hv n.1).src_ne_tgt p hpn)

/-- one execution of all the processes in filing order -/
def settleTree {α : Type} (H : Hier) (nb : Sig → List Sig) (s : Sig → α) : Sig → α :=
  runList ((treeEdges H nb).map asgBlk) s

theorem settleTree_fixed {α : Type} (hv : ValidOrder H nb) (hd : H.nets.Pairwise (fun a b => ¬ Reach H.edges a.1 b.1))
    (s : Sig → α) : ∀ p ∈ treeEdges H nb, settleTree H nb s p.2 = settleTree H nb s p.1 := by
  intro p hp
  have := fixed_point_of_topo _ (treeEdges_wf hv) (treeEdges_singleWriter hv hd) (treeEdges_topo hv hd) s
    (asgBlk p) (List.mem_map.mpr ⟨p, hp, rfl⟩)
  exact (asgBlk_fixed_iff p _).mp this

theorem settleTree_frame {α : Type} (hv : ValidOrder H nb) (_hd : H.nets.Pairwise (fun a b => ¬ Reach H.edges a.1 b.1))
    (s : Sig → α) : ∀ x, x ∉ (treeEdges H nb).map (·.2) → settleTree H nb s x = s x := by
  intro x hx
  apply runList_frame _ (treeEdges_wf hv) s x
  intro b hb hw
  obtain ⟨p, hp, rfl⟩ := List.mem_map.mp hb
  have e : x = p.2 := hw
  exact hx (List.mem_map.mpr ⟨p, hp, e.symm⟩)

theorem treeEdges_fixed_unique {α : Type} (hv : ValidOrder H nb)
    (hd : H.nets.Pairwise (fun a b => ¬ Reach H.edges a.1 b.1)) (t t' : Sig → α)
    (hin : ∀ x, x ∉ (treeEdges H nb).map (·.2) → t x = t' x)
    (ht : ∀ p ∈ treeEdges H nb, t p.2 = t p.1) (ht' : ∀ p ∈ treeEdges H nb, t' p.2 = t' p.1) : t = t' := by
  apply unique_fixed_point ((treeEdges H nb).map asgBlk) (treeEdges_wf hv) (treeEdges_topo hv hd) t t'
  · intro v hv'
    apply hin
    intro hc
    obtain ⟨p, hp, hpv⟩ := List.mem_map.mp hc
    exact hv' (asgBlk p) (List.mem_map.mpr ⟨p, hp, rfl⟩) hpv.symm
  · intro b hb
    obtain ⟨p, hp, rfl⟩ := List.mem_map.mp hb
    exact (asgBlk_fixed_iff p t).mpr (ht p hp)
  · intro b hb
    obtain ⟨p, hp, rfl⟩ := List.mem_map.mp hb
    exact (asgBlk_fixed_iff p t').mpr (ht' p hp)

end

end PV.SConn
