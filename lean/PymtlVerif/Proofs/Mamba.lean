import PymtlVerif.Model.Mamba
import PymtlVerif.Proofs.Kahn
/-!
Lemmas about `Model/Mamba.lean` (packing of schedule_ff / compile_scc / the main loop, insert_sortedlist, the two
Kahn-style loops). The property theorems are in `Props/C01m.lean`.
-/
namespace PV.Mamba

/-! ## the stable sort -/
section SortSec
variable {β : Type} (br : β → Nat)

theorem insertBr_perm (x : β) : ∀ l, (insertBr br x l).Perm (x :: l)
  | [] => .refl _
  | y :: ys => by
    unfold insertBr; split
    · exact .refl _
    · exact ((insertBr_perm x ys).cons y).trans (.swap x y ys)

theorem sortBr_perm : ∀ l : List β, (sortBr br l).Perm l
  | [] => .refl _
  | x :: xs => (insertBr_perm br x _).trans ((sortBr_perm xs).cons x)

theorem insertBr_sorted (x : β) : ∀ l, l.Pairwise (fun a b => br a ≤ br b) → (insertBr br x l).Pairwise (fun a b => br a ≤ br b)
  | [], _ => by simp [insertBr]
  | y :: ys, h => by
    obtain ⟨hy, hys⟩ := List.pairwise_cons.mp h
    unfold insertBr; split
    · next hxy =>
      refine List.pairwise_cons.mpr ⟨?_, h⟩
      intro z hz
      rcases List.mem_cons.mp hz with rfl | hz
      · exact hxy
      · exact Nat.le_trans hxy (hy z hz)
    · next hxy =>
      refine List.pairwise_cons.mpr ⟨?_, insertBr_sorted x ys hys⟩
      intro z hz
      rcases List.mem_cons.mp ((insertBr_perm br x ys).mem_iff.mp hz) with rfl | hz
      · omega
      · exact hy z hz

theorem sortBr_sorted : ∀ l : List β, (sortBr br l).Pairwise (fun a b => br a ≤ br b)
  | [] => List.Pairwise.nil
  | x :: xs => insertBr_sorted br x _ (sortBr_sorted xs)

theorem insertBr_filter (x : β) (k : Nat) : ∀ l, (insertBr br x l).filter (fun a => br a == k) = (x :: l).filter (fun a => br a == k)
  | [] => rfl
  | y :: ys => by
    unfold insertBr; split
    · rfl
    · next hxy =>
      have ih := insertBr_filter x k ys
      simp only [List.filter_cons] at ih ⊢
      rw [ih]
      by_cases h1 : br x = k <;> by_cases h2 : br y = k <;> simp [h1, h2]
      omega

/-- stability: blocks of equal branchiness keep their input order -/
theorem sortBr_stable (k : Nat) : ∀ l : List β, (sortBr br l).filter (fun a => br a == k) = l.filter (fun a => br a == k)
  | [] => rfl
  | x :: xs => by
    show (insertBr br x (sortBr br xs)).filter _ = _
    rw [insertBr_filter, List.filter_cons, List.filter_cons, sortBr_stable k xs]

end SortSec

/-! ## schedule_ff's packing loop -/
section FF
variable {β : Type} (br : β → Nat)

theorem packFFGo_flatten : ∀ (l cur : List β) (cb cc : Nat), (packFFGo br l cur cb cc).flatten = cur ++ l
  | [], cur, _, _ => by
    unfold packFFGo; split
    · next h => simp [List.isEmpty_iff.mp h]
    · simp
  | b :: rest, cur, cb, cc => by
    unfold packFFGo
    split
    · rw [packFFGo_flatten rest]; simp
    · dsimp only; split
      · rw [List.flatten_cons, packFFGo_flatten rest]; simp
      · rw [packFFGo_flatten rest]; simp

theorem packFFGo_nonempty : ∀ (l cur : List β) (cb cc : Nat), ∀ m ∈ packFFGo br l cur cb cc, m ≠ []
  | [], cur, _, _ => by
    unfold packFFGo; split
    · simp
    · next h => intro m hm; simp at hm; subst hm; intro h2; simp [h2] at h
  | b :: rest, cur, cb, cc => by
    unfold packFFGo
    split
    · exact packFFGo_nonempty rest _ _ _
    · dsimp only; split
      · intro m hm
        rcases List.mem_cons.mp hm with rfl | hm
        · simp
        · exact packFFGo_nonempty rest _ _ _ m hm
      · exact packFFGo_nonempty rest _ _ _

/-- sum of branchiness of a group -/
def total (l : List β) : Nat := (l.map br).sum
/-- number of branchy blocks of a group -/
def branchy (l : List β) : Nat := l.countP (fun x => decide (0 < br x))

@[simp] theorem total_append (a b : List β) : total br (a ++ b) = total br a + total br b := by simp [total]
@[simp] theorem total_nil : total br ([] : List β) = 0 := rfl
@[simp] theorem total_single (x : β) : total br [x] = br x := by simp [total]
@[simp] theorem branchy_append (a b : List β) : branchy br (a ++ b) = branchy br a + branchy br b := by simp [branchy]
@[simp] theorem branchy_nil : branchy br ([] : List β) = 0 := rfl
theorem branchy_single (x : β) : branchy br [x] = if 0 < br x then 1 else 0 := by
  simp [branchy, List.countP_cons]

/-- what the packing guarantees for a meta block: at most `k` branchy members, and the branchiness accumulated before
its last member is below the bound (the last member may overshoot it by any amount) -/
def GroupOK (k : Nat) (m : List β) : Prop :=
  branchy br m ≤ k ∧ ∃ pre b, m = pre ++ [b] ∧ total br pre < brFactor

theorem groupOK_of_small {k : Nat} {m : List β} (hne : m ≠ []) (hc : branchy br m ≤ k) (ht : total br m < brFactor) :
    GroupOK br k m := by
  refine ⟨hc, m.dropLast, m.getLast hne, (List.dropLast_concat_getLast hne).symm, ?_⟩
  have : total br m = total br m.dropLast + br (m.getLast hne) := by
    conv => lhs; rw [← List.dropLast_concat_getLast hne]
    simp
  omega

theorem packFFGo_bounds : ∀ (l cur : List β) (cb cc : Nat), cb = total br cur → cc = branchy br cur →
    cb < brFactor → cc < blkFactor → ∀ m ∈ packFFGo br l cur cb cc, GroupOK br blkFactor m
  | [], cur, cb, cc, h1, h2, h3, h4 => by
    unfold packFFGo; split
    · simp
    · next h =>
      intro m hm; simp at hm; subst hm
      exact groupOK_of_small br (by intro h2; simp [h2] at h) (by omega) (by omega)
  | b :: rest, cur, cb, cc, h1, h2, h3, h4 => by
    unfold packFFGo
    split
    · next hb =>
      exact packFFGo_bounds rest _ _ _ (by simp [h1, hb]) (by simp [h2, branchy_single, hb]) h3 h4
    · next hb =>
      dsimp only; split
      · intro m hm
        rcases List.mem_cons.mp hm with rfl | hm
        · refine ⟨?_, cur, b, rfl, by omega⟩
          simp [branchy_single]; split <;> omega
        · exact packFFGo_bounds rest [] 0 0 rfl rfl (by decide) (by decide) m hm
      · next hno =>
        have hb' : 0 < br b := Nat.pos_of_ne_zero hb
        exact packFFGo_bounds rest _ _ _ (by simp [h1]) (by simp [h2, branchy_single, hb']) (by omega) (by omega)

end FF

/-! ## the packing step shared by compile_scc and the main loop -/
section PackSec
variable {β : Type}

/-- everything packed so far, in order -/
def flat (p : Pack β) : List β := p.out.flatten ++ p.cur

/-- the five ways one packing step can go (three of them flush) -/
theorem stepWith_cases (first : Nat → Nat → Bool) (p : Pack β) (r : Nat) (b : β) :
    (p.cb = 0 ∧ first (p.cb + r) (p.cc + (if r > 0 then 1 else 0)) = true ∧
      stepWith first p r b = ⟨[], 0, 0, p.out ++ [p.cur ++ [b]]⟩) ∨
    (p.cb = 0 ∧ first (p.cb + r) (p.cc + (if r > 0 then 1 else 0)) = false ∧
      stepWith first p r b = ⟨p.cur ++ [b], p.cb + r, p.cc + (if r > 0 then 1 else 0), p.out⟩) ∨
    (p.cb ≠ 0 ∧ r = 0 ∧ stepWith first p r b = ⟨[b], 0, 0, p.out ++ [p.cur]⟩) ∨
    (p.cb ≠ 0 ∧ r ≠ 0 ∧ (p.cb + r + r ≥ brFactor ∨ p.cc + 1 + 1 ≥ blkFactor) ∧
      stepWith first p r b = ⟨[], 0, 0, p.out ++ [p.cur ++ [b]]⟩) ∨
    (p.cb ≠ 0 ∧ r ≠ 0 ∧ ¬ (p.cb + r + r ≥ brFactor ∨ p.cc + 1 + 1 ≥ blkFactor) ∧
      stepWith first p r b = ⟨p.cur ++ [b], p.cb + r, p.cc + 1, p.out⟩) := by
  by_cases h0 : p.cb = 0
  · cases hf : first (p.cb + r) (p.cc + (if r > 0 then 1 else 0))
    · right; left
      have hf' := hf; rw [h0] at hf'; simp only [Nat.zero_add] at hf'
      exact ⟨h0, rfl, by simp [stepWith, h0, hf']⟩
    · left
      have hf' := hf; rw [h0] at hf'; simp only [Nat.zero_add] at hf'
      exact ⟨h0, rfl, by simp [stepWith, h0, hf']⟩
  · by_cases hr : r = 0
    · right; right; left; exact ⟨h0, hr, by simp [stepWith, h0, hr]⟩
    · have hpos : r > 0 := Nat.pos_of_ne_zero hr
      by_cases hc : p.cb + r + r ≥ brFactor ∨ p.cc + 1 + 1 ≥ blkFactor
      · right; right; right; left; exact ⟨h0, hr, hc, by simp only [stepWith, h0, hr, hpos, if_true, if_false]; simp [hc]⟩
      · right; right; right; right; exact ⟨h0, hr, hc, by simp only [stepWith, h0, hr, hpos, if_true, if_false]; simp [hc]⟩

theorem stepWith_flat (first : Nat → Nat → Bool) (p : Pack β) (r : Nat) (b : β) :
    flat (stepWith first p r b) = flat p ++ [b] := by
  rcases stepWith_cases first p r b with ⟨_, _, h⟩ | ⟨_, _, h⟩ | ⟨_, _, h⟩ | ⟨_, _, _, h⟩ | ⟨_, _, _, h⟩ <;>
    rw [h] <;> simp [flat]

/-- no emitted meta block is empty, and a non-zero `cur_br` means `cur_meta` is not empty -/
def PackOK (p : Pack β) : Prop := (∀ m ∈ p.out, m ≠ []) ∧ (p.cb ≠ 0 → p.cur ≠ [])

theorem packOK_empty : PackOK (Pack.empty : Pack β) := ⟨by simp [Pack.empty], by simp [Pack.empty]⟩

theorem stepWith_ok (first : Nat → Nat → Bool) (p : Pack β) (r : Nat) (b : β) (h : PackOK p) :
    PackOK (stepWith first p r b) := by
  obtain ⟨h1, h2⟩ := h
  have hout : ∀ c : List β, c ≠ [] → ∀ m ∈ p.out ++ [c], m ≠ [] := by
    intro c hc m hm
    rcases List.mem_append.mp hm with hm | hm
    · exact h1 m hm
    · simp at hm; subst hm; exact hc
  rcases stepWith_cases first p r b with ⟨_, _, h⟩ | ⟨_, _, h⟩ | ⟨hcb, _, h⟩ | ⟨_, _, _, h⟩ | ⟨_, _, _, h⟩ <;> rw [h]
  · exact ⟨hout _ (by simp), by simp⟩
  · exact ⟨h1, by simp⟩
  · exact ⟨hout _ (h2 hcb), by simp⟩
  · exact ⟨hout _ (by simp), by simp⟩
  · exact ⟨h1, by simp⟩

theorem finish_flatten (p : Pack β) : (finish p).flatten = flat p := by
  unfold finish flat; split
  · next h => simp [List.isEmpty_iff.mp h]
  · simp

theorem finish_nonempty (p : Pack β) (h : PackOK p) : ∀ m ∈ finish p, m ≠ [] := by
  unfold finish; split
  · exact h.1
  · next hc =>
    intro m hm
    rcases List.mem_append.mp hm with hm | hm
    · exact h.1 m hm
    · simp at hm; subst hm; intro h2; simp [h2] at hc

theorem foldl_sccStep (br : β → Nat) : ∀ (l : List β) (p : Pack β), PackOK p →
    flat (l.foldl (sccStep br) p) = flat p ++ l ∧ PackOK (l.foldl (sccStep br) p)
  | [], p, h => by simp [h]
  | b :: rest, p, h => by
    have := foldl_sccStep br rest (sccStep br p b) (stepWith_ok _ _ _ _ h)
    rw [List.foldl_cons]
    refine ⟨?_, this.2⟩
    rw [this.1]; unfold sccStep; rw [stepWith_flat]; simp

theorem packSCCOn_flatten (br : β → Nat) (l : List β) : (packSCCOn br l).flatten = l := by
  unfold packSCCOn; split
  · simp
  · rw [finish_flatten, (foldl_sccStep br l _ packOK_empty).1]; simp [flat, Pack.empty]

theorem packSCCOn_nonempty (br : β → Nat) (l : List β) (hl : l ≠ []) : ∀ m ∈ packSCCOn br l, m ≠ [] := by
  unfold packSCCOn; split
  · intro m hm; simp at hm; subst hm; exact hl
  · exact finish_nonempty _ (foldl_sccStep br l _ packOK_empty).2

/-! ### bounds -/
variable (rf : β → Nat)

theorem total_zero_branchy : ∀ l : List β, total rf l = 0 → branchy rf l = 0
  | [], _ => rfl
  | x :: xs, h => by
    have h' : rf x + total rf xs = 0 := by simpa [total] using h
    have ih := total_zero_branchy xs (by omega)
    have hx : rf x = 0 := by omega
    have : branchy rf (x :: xs) = branchy rf [x] + branchy rf xs := by
      rw [← branchy_append]; rfl
    rw [this, ih, branchy_single]; simp [hx]

/-- invariant of the packing state that yields the bounds: `cur_br` / `cur_count` are the sum / the number of branchy
members of `cur_meta`, `cur_br < 20`, `cur_count <= 4`, and every emitted meta block is within `GroupOK … 5` -/
structure BInv (p : Pack β) : Prop where
  cb_eq : p.cb = total rf p.cur
  cc_eq : p.cc = branchy rf p.cur
  cb_lt : p.cb < brFactor
  cc_le : p.cc ≤ 4
  out_ok : ∀ m ∈ p.out, GroupOK rf 5 m

theorem binv_empty : BInv rf (Pack.empty : Pack β) :=
  ⟨rfl, rfl, by simp [Pack.empty, brFactor], by simp [Pack.empty], by simp [Pack.empty]⟩

theorem stepWith_binv (first : Nat → Nat → Bool) (hfirst : ∀ cb cc, first cb cc = false → cb < brFactor)
    (p : Pack β) (r : Nat) (b : β) (hr : r = rf b) (h : BInv rf p) : BInv rf (stepWith first p r b) := by
  obtain ⟨h1, h2, h3, h4, h5⟩ := h
  have hout : ∀ c : List β, GroupOK rf 5 c → ∀ m ∈ p.out ++ [c], GroupOK rf 5 m := by
    intro c hc m hm
    rcases List.mem_append.mp hm with hm | hm
    · exact h5 m hm
    · simp at hm; subst hm; exact hc
  have hone : branchy rf [b] ≤ 1 := by rw [branchy_single]; split <;> omega
  have hbr : branchy rf [b] = if r > 0 then 1 else 0 := by rw [branchy_single, hr]
  rcases stepWith_cases first p r b with ⟨hcb, _, h⟩ | ⟨hcb, hf, h⟩ | ⟨hcb, hr0, h⟩ | ⟨hcb, hr0, hc, h⟩ | ⟨hcb, hr0, hc, h⟩ <;> rw [h]
  · have hz : branchy rf p.cur = 0 := total_zero_branchy rf _ (by omega)
    refine ⟨rfl, rfl, by simp [brFactor], by simp, hout _ ⟨?_, p.cur, b, rfl, by omega⟩⟩
    rw [branchy_append]; omega
  · have hz : branchy rf p.cur = 0 := total_zero_branchy rf _ (by omega)
    have := hfirst _ _ hf
    refine ⟨by simp [h1, hr], by rw [branchy_append, ← h2, hbr], this, ?_, h5⟩
    show p.cc + _ ≤ 4
    split <;> omega
  · refine ⟨by simp [← hr, hr0], by simp [branchy_single, ← hr, hr0], by simp [brFactor], by simp, hout _ ?_⟩
    have hne : p.cur ≠ [] := by intro h0; rw [h0] at h1; simp at h1; exact hcb h1
    exact groupOK_of_small rf hne (by omega) (by omega)
  · refine ⟨rfl, rfl, by simp [brFactor], by simp, hout _ ⟨?_, p.cur, b, rfl, by omega⟩⟩
    rw [branchy_append]; omega
  · have hpos : r > 0 := Nat.pos_of_ne_zero hr0
    refine ⟨by simp [h1, hr], by rw [branchy_append, ← h2, hbr]; simp [hpos], ?_, ?_, h5⟩
    · show p.cb + r < brFactor
      simp only [brFactor, blkFactor] at *; omega
    · show p.cc + 1 ≤ 4
      simp only [brFactor, blkFactor] at *; omega

theorem finish_bounds (p : Pack β) (_hok : PackOK p) (h : BInv rf p) : ∀ m ∈ finish p, GroupOK rf 5 m := by
  unfold finish; split
  · exact h.out_ok
  · next hc =>
    intro m hm
    rcases List.mem_append.mp hm with hm | hm
    · exact h.out_ok m hm
    · simp at hm; subst hm
      exact groupOK_of_small rf (by intro h2; simp [h2] at hc) (by have := h.cc_eq; have := h.cc_le; omega)
        (by have := h.cb_eq; have := h.cb_lt; omega)

theorem sccFirst_lt (cb cc : Nat) (h : sccFirst cb cc = false) : cb < brFactor := by
  unfold sccFirst at h; simp at h; omega
theorem mainFirst_lt (cb cc : Nat) (h : mainFirst cb cc = false) : cb < brFactor := by
  unfold mainFirst at h; simp at h; omega

theorem foldl_sccStep_binv : ∀ (l : List β) (p : Pack β), BInv rf p → BInv rf (l.foldl (sccStep rf) p)
  | [], _, h => h
  | b :: rest, p, h => by
    rw [List.foldl_cons]
    exact foldl_sccStep_binv rest _ (stepWith_binv rf _ sccFirst_lt p _ b rfl h)

theorem packSCCOn_bounds (l : List β) (hl : 10 ≤ l.length) : ∀ m ∈ packSCCOn rf l, GroupOK rf 5 m := by
  unfold packSCCOn; split
  · omega
  · exact finish_bounds rf _ (foldl_sccStep rf l _ packOK_empty).2 (foldl_sccStep_binv rf l _ (binv_empty rf))

end PackSec

/-! ## insert_sortedlist -/
section InsertSec

theorem bsearch_le (arr : List QE) (key : Key) : ∀ (fuel lo right : Nat), right ≤ arr.length →
    bsearch arr key fuel lo right ≤ arr.length
  | 0, _, _, h => h
  | fuel + 1, lo, right, h => by
    unfold bsearch; split
    · dsimp only; split
      · exact h
      · split
        · exact bsearch_le arr key fuel _ _ h
        · exact bsearch_le arr key fuel _ _ (by omega)
    · exact h

theorem insertSorted_perm (arr : List QE) (key : Key) (item : Nat) :
    (insertSorted arr key item).Perm ((key, item) :: arr) :=
  List.perm_insertIdx _ _ (bsearch_le arr key _ _ _ (Nat.le_refl _))

theorem keyLe_trans {a b c : Key} (h1 : keyLe a b = true) (h2 : keyLe b c = true) : keyLe a c = true := by
  simp only [keyLe, Bool.or_eq_true, decide_eq_true_eq, Bool.and_eq_true, beq_iff_eq] at *
  omega

theorem keyLe_total {a b : Key} (h : keyLe a b = false) : keyLe b a = true := by
  simp only [keyLe, Bool.or_eq_true, decide_eq_true_eq, Bool.and_eq_true, beq_iff_eq, Bool.or_eq_false_iff,
    decide_eq_false_iff_not, Bool.and_eq_false_iff, beq_eq_false_iff_ne] at *
  omega

/-- the queue is ordered by Python's `<=` on the keys `(br, -cnt)` -/
def QSorted (q : List QE) : Prop := q.Pairwise (fun a b => keyLe a.1 b.1 = true)

/-- on a sorted array the binary search returns the position after the last key `<=` the new key -/
theorem bsearch_spec (arr : List QE) (key : Key) (hs : QSorted arr) : ∀ (fuel lo right : Nat),
    lo ≤ right → right ≤ arr.length → right - lo ≤ fuel →
    (∀ i (h : i < arr.length), i < lo → keyLe arr[i].1 key = true) →
    (∀ i (h : i < arr.length), right ≤ i → keyLe arr[i].1 key = false) →
    (∀ i (h : i < arr.length), i < bsearch arr key fuel lo right → keyLe arr[i].1 key = true) ∧
    (∀ i (h : i < arr.length), bsearch arr key fuel lo right ≤ i → keyLe arr[i].1 key = false)
  | 0, lo, right, h1, _, h3, h4, h5 => by
    have : lo = right := by omega
    subst this
    exact ⟨h4, h5⟩
  | fuel + 1, lo, right, h1, h2, h3, h4, h5 => by
    unfold bsearch; split
    · next hlt =>
      have hmid : (lo + right - 1) / 2 < arr.length := by omega
      dsimp only
      rw [List.getElem?_eq_getElem hmid]
      dsimp only
      have hpw := List.pairwise_iff_getElem.mp hs
      split
      · next hk =>
        refine bsearch_spec arr key hs fuel _ _ (by omega) h2 (by omega) ?_ h5
        intro i hi hlt'
        by_cases him : i = (lo + right - 1) / 2
        · subst him; exact hk
        · exact keyLe_trans (hpw i _ hi hmid (by omega)) hk
      · next hk =>
        have hk' : keyLe arr[(lo + right - 1) / 2].1 key = false := by simpa using hk
        refine bsearch_spec arr key hs fuel _ _ (by omega) (by omega) (by omega) h4 ?_
        intro i hi hge
        by_cases him : i = (lo + right - 1) / 2
        · subst him; exact hk'
        · cases hik : keyLe arr[i].1 key
          · rfl
          · have := keyLe_trans (hpw _ i hmid hi (by omega)) hik
            rw [this] at hk'; exact absurd hk' (by simp)
    · next hge =>
      have : lo = right := by omega
      subst this
      exact ⟨h4, h5⟩

theorem insertIdx_take_drop {α : Type} (x : α) : ∀ (l : List α) (i : Nat), i ≤ l.length →
    l.insertIdx i x = l.take i ++ x :: l.drop i
  | l, 0, _ => by simp
  | [], i + 1, h => by simp at h
  | y :: ys, i + 1, h => by
    rw [List.insertIdx_succ_cons, insertIdx_take_drop x ys i (by simpa using h)]
    simp

theorem insertSorted_sorted (arr : List QE) (key : Key) (item : Nat) (hs : QSorted arr) :
    QSorted (insertSorted arr key item) := by
  have hle := bsearch_le arr key arr.length 0 arr.length (Nat.le_refl _)
  obtain ⟨hlo, hhi⟩ := bsearch_spec arr key hs arr.length 0 arr.length (Nat.zero_le _) (Nat.le_refl _) (by omega)
    (by intro i _ h; omega) (by intro i h h'; omega)
  unfold insertSorted QSorted
  rw [insertIdx_take_drop _ _ _ hle]
  generalize bsearch arr key arr.length 0 arr.length = idx at *
  have hsplit : arr = arr.take idx ++ arr.drop idx := (List.take_append_drop idx arr).symm
  have hs' : QSorted (arr.take idx ++ arr.drop idx) := by rw [← hsplit]; exact hs
  obtain ⟨p1, p2, p3⟩ := List.pairwise_append.mp hs'
  refine List.pairwise_append.mpr ⟨p1, List.pairwise_cons.mpr ⟨?_, p2⟩, ?_⟩
  · intro e he
    obtain ⟨j, hj, rfl⟩ := List.getElem_of_mem he
    rw [List.getElem_drop]
    have hj' : idx + j < arr.length := by simp at hj; omega
    exact keyLe_total (hhi (idx + j) hj' (by omega))
  · intro a ha b hb
    have hak : keyLe a.1 key = true := by
      obtain ⟨j, hj, rfl⟩ := List.getElem_of_mem ha
      rw [List.getElem_take]
      have hj' : j < idx ∧ j < arr.length := by simp at hj; omega
      exact hlo j hj'.2 hj'.1
    rcases List.mem_cons.mp hb with rfl | hb
    · exact hak
    · exact p3 a ha b hb

end InsertSec

/-! ## expand_node -/
section ExpandSec
variable {σ : Type} (push : σ → Nat → σ) (items : σ → List Nat)

/-- `expand` subtracts from every `InD[w]` the number of occurrences of `w` in the successor list, and pushes exactly
the vertices whose counter passes through zero, each once -/
theorem expand_spec (hpush : ∀ s v, (items (push s v)).Perm (v :: items s)) :
    ∀ (vs : List Nat) (ind : Nat → Int) (s : σ),
      (∀ w, (expand push vs ind s).1 w = ind w - (vs.count w : Nat)) ∧
      ∃ newly : List Nat, (items (expand push vs ind s).2).Perm (newly ++ items s) ∧ newly.Nodup ∧
        ∀ w, w ∈ newly ↔ (1 ≤ ind w ∧ ind w ≤ (vs.count w : Nat))
  | [], ind, s => by
    refine ⟨by intro w; simp [expand], [], by simp [expand], List.nodup_nil, ?_⟩
    intro w; simp; omega
  | v :: vs, ind, s => by
    unfold expand
    dsimp only
    have hcount : ∀ w, ((v :: vs).count w : Nat) = vs.count w + (if v = w then 1 else 0) := by
      intro w; rw [List.count_cons]; simp
    split
    · next hd =>
      obtain ⟨h1, newly, h2, h3, h4⟩ := expand_spec hpush vs (fun w => if w = v then ind v - 1 else ind w) (push s v)
      refine ⟨?_, v :: newly, ?_, ?_, ?_⟩
      · intro w; rw [h1 w, hcount w]
        by_cases hw : w = v
        · subst hw; simp; omega
        · have : ¬ v = w := fun h => hw h.symm
          simp [hw, this]
      · exact h2.trans ((List.Perm.append_left newly (hpush s v)).trans (by simp))
      · refine List.nodup_cons.mpr ⟨?_, h3⟩
        intro hmem
        have := (h4 v).mp hmem
        simp only [if_true] at this
        omega
      · intro w
        rw [List.mem_cons, h4 w, hcount w]
        by_cases hw : w = v
        · subst hw; simp; omega
        · have : ¬ v = w := fun h => hw h.symm
          simp [hw, this]
    · next hd =>
      obtain ⟨h1, newly, h2, h3, h4⟩ := expand_spec hpush vs (fun w => if w = v then ind v - 1 else ind w) s
      refine ⟨?_, newly, h2, h3, ?_⟩
      · intro w; rw [h1 w, hcount w]
        by_cases hw : w = v
        · subst hw; simp; omega
        · have : ¬ v = w := fun h => hw h.symm
          simp [hw, this]
      · intro w
        rw [h4 w, hcount w]
        by_cases hw : w = v
        · subst hw; simp; omega
        · have : ¬ v = w := fun h => hw h.symm
          simp [hw, this]

theorem foldl_push_items (hpush : ∀ s v, (items (push s v)).Perm (v :: items s)) :
    ∀ (l : List Nat) (s : σ), (items (l.foldl push s)).Perm (l ++ items s)
  | [], s => by simp
  | v :: vs, s => by
    rw [List.foldl_cons]
    exact (foldl_push_items hpush vs (push s v)).trans
      ((List.Perm.append_left vs (hpush s v)).trans (by simp))

end ExpandSec

/-! ## the Kahn invariant shared by the two loops -/
section GraphSec
variable (G : Nat → List Nat) (n : Nat)

/-- the edges of the condensation graph as pairs -/
def edges : List (Nat × Nat) := (List.range n).flatMap (fun u => (G u).map (fun v => (u, v)))

theorem mem_edges {u v : Nat} : (u, v) ∈ edges G n ↔ u < n ∧ v ∈ G u := by
  simp only [edges, List.mem_flatMap, List.mem_range, List.mem_map, Prod.mk.injEq]
  constructor
  · rintro ⟨a, ha, b, hb, rfl, rfl⟩; exact ⟨ha, hb⟩
  · rintro ⟨h1, h2⟩; exact ⟨u, h1, v, h2, rfl, rfl⟩

/-- every successor is a vertex -/
def WF : Prop := ∀ u, u < n → ∀ v ∈ G u, v < n

/-- the condensation graph is acyclic: its vertices can be ranked so that every edge goes up -/
def Acyclic : Prop := ∃ rank : Nat → Nat, ∀ u, u < n → ∀ v ∈ G u, rank u < rank v

/-- number of edges into `v` from the vertices of `L` not yet scheduled -/
def psum (L done : List Nat) (v : Nat) : Nat := (L.map (fun u => if u ∈ done then 0 else (G u).count v)).sum

theorem psum_notin {u : Nat} (done : List Nat) (v : Nat) : ∀ L : List Nat, u ∉ L → psum G L (u :: done) v = psum G L done v
  | [], _ => rfl
  | x :: xs, h => by
    have hx : x ≠ u := fun e => h (by simp [e])
    have ih := psum_notin done v xs (fun e => h (List.mem_cons_of_mem _ e))
    simp only [psum, List.map_cons, List.sum_cons, List.mem_cons] at ih ⊢
    rw [ih]; simp [hx]

theorem psum_cons {u : Nat} (done : List Nat) (v : Nat) (hd : u ∉ done) : ∀ L : List Nat, L.Nodup → u ∈ L →
    psum G L done v = psum G L (u :: done) v + (G u).count v
  | [], _, h => by simp at h
  | x :: xs, hnd, h => by
    obtain ⟨hx, hnd'⟩ := List.nodup_cons.mp hnd
    by_cases hxu : x = u
    · subst hxu
      have := psum_notin G done v xs hx
      simp only [psum, List.map_cons, List.sum_cons, List.mem_cons] at this ⊢
      rw [this]; simp [hd]; omega
    · have hu : u ∈ xs := by
        rcases List.mem_cons.mp h with e | e
        · exact absurd e.symm hxu
        · exact e
      have ih := psum_cons done v hd xs hnd' hu
      simp only [psum, List.map_cons, List.sum_cons, List.mem_cons] at ih ⊢
      rw [ih]; simp [hxu]; omega

theorem psum_zero (done : List Nat) (v : Nat) : ∀ L : List Nat, psum G L done v = 0 → ∀ x ∈ L, x ∉ done → (G x).count v = 0
  | [], _, x, hx, _ => by simp at hx
  | y :: ys, h, x, hx, hd => by
    simp only [psum, List.map_cons, List.sum_cons] at h
    rcases List.mem_cons.mp hx with rfl | hx
    · simp [hd] at h; omega
    · exact psum_zero done v ys (by simp only [psum]; omega) x hx hd

theorem psum_pos (done : List Nat) (v : Nat) : ∀ L : List Nat, psum G L done v ≠ 0 → ∃ x ∈ L, x ∉ done ∧ v ∈ G x
  | [], h => by simp [psum] at h
  | y :: ys, h => by
    simp only [psum, List.map_cons, List.sum_cons] at h
    by_cases hy : (if y ∈ done then 0 else (G y).count v) = 0
    · obtain ⟨x, hx, h1, h2⟩ := psum_pos done v ys (by simp only [psum]; omega)
      exact ⟨x, by simp [hx], h1, h2⟩
    · refine ⟨y, by simp, ?_, ?_⟩
      · intro hd; simp [hd] at hy
      · by_cases hd : y ∈ done
        · simp [hd] at hy
        · simp [hd] at hy; exact List.count_pos_iff.mp (by omega)

/-- `InD[v]` as it should be: the number of edges into `v` whose source has not been scheduled yet -/
def pend (done : List Nat) (v : Nat) : Int := (psum G (List.range n) done v : Nat)

theorem initInD_eq (v : Nat) : initInD G n v = pend G n [] v := by
  simp [initInD, pend, psum]

open PV.Kahn in
/-- invariant of a Kahn-style loop with work list `W`, counters `ind` and the (reversed) output `done` -/
structure KInv (W : List Nat) (ind : Nat → Int) (done : List Nat) : Prop where
  lt : ∀ x ∈ done, x < n
  wnd : W.Nodup
  ind_eq : ∀ v, v < n → ind v = pend G n done v
  w_iff : ∀ v, v ∈ W ↔ (v < n ∧ v ∉ done ∧ ind v = 0)
  good : Good (edges G n) done

theorem good_pred {E : List (Nat × Nat)} : ∀ {done : List Nat}, PV.Kahn.Good E done → ∀ e ∈ E, e.2 ∈ done → e.1 ∈ done
  | [], _, _, _, h => by simp at h
  | x :: xs, hg, e, he, h => by
    obtain ⟨_, hp, hg'⟩ := hg
    rcases List.mem_cons.mp h with h | h
    · exact List.mem_cons_of_mem _ (hp e he h)
    · exact List.mem_cons_of_mem _ (good_pred hg' e he h)

/-- one iteration: `u` is taken from the work list, the counters of its successors are decremented, the vertices
whose counter reaches zero join the work list -/
theorem kinv_step (hwf : WF G n) {W W₁ W' newly done : List Nat} {ind ind' : Nat → Int} {u : Nat}
    (h : KInv G n W ind done) (hW : W.Perm (u :: W₁))
    (hind' : ∀ w, ind' w = ind w - ((G u).count w : Nat))
    (hW' : W'.Perm (newly ++ W₁)) (hnd : newly.Nodup)
    (hnew : ∀ w, w ∈ newly ↔ (1 ≤ ind w ∧ ind w ≤ ((G u).count w : Nat))) :
    KInv G n W' ind' (u :: done) := by
  have huW : u ∈ W := hW.mem_iff.mpr (by simp)
  obtain ⟨hun, hud, hu0⟩ := (h.w_iff u).mp huW
  have hW1 : (u :: W₁).Nodup := hW.nodup_iff.mp h.wnd
  obtain ⟨huW1, hW1nd⟩ := List.nodup_cons.mp hW1
  have hpend : ∀ v, pend G n done v = pend G n (u :: done) v + ((G u).count v : Nat) := by
    intro v
    have := psum_cons G done v hud (List.range n) List.nodup_range (List.mem_range.mpr hun)
    simp only [pend]; omega
  have hind_eq' : ∀ v, v < n → ind' v = pend G n (u :: done) v := by
    intro v hv; rw [hind' v, h.ind_eq v hv, hpend v]; omega
  have hnn : ∀ v, 0 ≤ pend G n (u :: done) v := by intro v; simp only [pend]; omega
  have hmemW1 : ∀ w, w ∈ W₁ ↔ (w ∈ W ∧ w ≠ u) := by
    intro w
    rw [hW.mem_iff, List.mem_cons]
    constructor
    · intro hw; exact ⟨Or.inr hw, fun e => huW1 (e ▸ hw)⟩
    · rintro ⟨hw | hw, hne⟩
      · exact absurd hw hne
      · exact hw
  refine ⟨?_, ?_, hind_eq', ?_, ?_⟩
  · intro x hx
    rcases List.mem_cons.mp hx with rfl | hx
    · exact hun
    · exact h.lt x hx
  · refine hW'.nodup_iff.mpr (List.nodup_append.mpr ⟨hnd, hW1nd, ?_⟩)
    intro a ha b hb hab
    subst hab
    have h1 := (hnew a).mp ha
    have h2 := (h.w_iff a).mp ((hmemW1 a).mp hb).1
    omega
  · intro w
    rw [hW'.mem_iff, List.mem_append, hnew w, hmemW1 w, h.w_iff w, List.mem_cons]
    constructor
    · rintro (⟨h1, h2⟩ | ⟨⟨h1, h2, h3⟩, h4⟩)
      · have hwG : w ∈ G u := List.count_pos_iff.mp (by omega)
        have hwn : w < n := hwf u hun w hwG
        have hne : w ≠ u := by intro e; subst e; omega
        have hwd : w ∉ done := by
          intro hd
          exact hud (good_pred h.good (u, w) ((mem_edges G n).mpr ⟨hun, hwG⟩) hd)
        have := hind_eq' w hwn
        have := hnn w
        have := hind' w
        exact ⟨hwn, by simp [hne, hwd], by omega⟩
      · have := hind_eq' w h1
        have := hnn w
        have := hind' w
        exact ⟨h1, by simp [h4, h2], by omega⟩
    · rintro ⟨h1, h2, h3⟩
      have hne : w ≠ u := fun e => h2 (Or.inl e)
      have hwd : w ∉ done := fun e => h2 (Or.inr e)
      have := hind' w
      by_cases h0 : ind w = 0
      · exact Or.inr ⟨⟨h1, hwd, h0⟩, hne⟩
      · have := h.ind_eq w h1
        have : 0 ≤ pend G n done w := by simp only [pend]; omega
        exact Or.inl ⟨by omega, by omega⟩
  · refine ⟨hud, ?_, h.good⟩
    intro e he he2
    obtain ⟨a, b⟩ := e
    simp only at he2 ⊢
    subst he2
    obtain ⟨han, hb⟩ := (mem_edges G n).mp he
    by_cases had : a ∈ done
    · exact had
    · exfalso
      have h0 : psum G (List.range n) done b = 0 := by
        have := h.ind_eq b hun
        simp only [pend] at this; omega
      have := psum_zero G done b (List.range n) h0 a (List.mem_range.mpr han) had
      have := List.count_pos_iff.mpr hb
      omega

/-- the start: nothing scheduled, the work list holds the vertices without incoming edge -/
theorem kinv_init {W : List Nat} (hW : W.Perm ((List.range n).filter (fun v => initInD G n v == 0))) :
    KInv G n W (initInD G n) [] := by
  refine ⟨by simp, ?_, fun v _ => initInD_eq G n v, ?_, trivial⟩
  · exact hW.nodup_iff.mpr (List.nodup_range.filter _)
  · intro v
    rw [hW.mem_iff, List.mem_filter, List.mem_range]
    simp

/-- when the work list is empty every vertex left over has a predecessor left over -/
theorem kinv_leftover {ind : Nat → Int} {done : List Nat} (h : KInv G n [] ind done) :
    ∀ v, v < n → v ∉ done → ∃ u, u < n ∧ u ∉ done ∧ v ∈ G u := by
  intro v hv hd
  have h0 : ind v ≠ 0 := by
    intro e
    have := (h.w_iff v).mpr ⟨hv, hd, e⟩
    simp at this
  have hp : psum G (List.range n) done v ≠ 0 := by
    have := h.ind_eq v hv
    simp only [pend] at this; omega
  obtain ⟨x, hx, h1, h2⟩ := psum_pos G done v (List.range n) hp
  exact ⟨x, List.mem_range.mp hx, h1, h2⟩

/-- in an acyclic graph nothing can be left over -/
theorem acyclic_all (hac : Acyclic G n) {done : List Nat}
    (hleft : ∀ v, v < n → v ∉ done → ∃ u, u < n ∧ u ∉ done ∧ v ∈ G u) : ∀ v, v < n → v ∈ done := by
  obtain ⟨rank, hrank⟩ := hac
  have key : ∀ k v, rank v = k → v < n → v ∈ done := by
    intro k
    induction k using Nat.strongRecOn with
    | _ k ih =>
      intro v hk hv
      by_cases hd : v ∈ done
      · exact hd
      · obtain ⟨u, hu, hud, hvu⟩ := hleft v hv hd
        have := hrank u hu v hvu
        exact absurd (ih (rank u) (by omega) u rfl hu) hud
  intro v hv
  exact key (rank v) v rfl hv

theorem kinv_done_le {W : List Nat} {ind : Nat → Int} {done : List Nat} (h : KInv G n W ind done) : done.length ≤ n := by
  have hnd := PV.Kahn.good_nodup' (edges G n) done h.good
  have := List.Nodup.length_le_of_subset hnd (l₂ := List.range n) (fun x hx => List.mem_range.mpr (h.lt x hx))
  simpa using this

/-- a full output leaves the work list empty -/
theorem kinv_full {W : List Nat} {ind : Nat → Int} {done : List Nat} (h : KInv G n W ind done) (hfull : n ≤ done.length) :
    W = [] := by
  cases W with
  | nil => rfl
  | cons u W₁ =>
    exfalso
    obtain ⟨hun, hud, _⟩ := (h.w_iff u).mp (by simp)
    have hnd := PV.Kahn.good_nodup' (edges G n) done h.good
    have hnd' : (u :: done).Nodup := List.nodup_cons.mpr ⟨hud, hnd⟩
    have := List.Nodup.length_le_of_subset hnd' (l₂ := List.range n) (fun x hx => by
      rcases List.mem_cons.mp hx with rfl | hx
      · exact List.mem_range.mpr hun
      · exact List.mem_range.mpr (h.lt x hx))
    simp at this; omega

/-- the conclusions drawn from the invariant at the end, on the output in execution order -/
theorem kinv_order {W : List Nat} {ind : Nat → Int} {done : List Nat} (h : KInv G n W ind done) :
    done.reverse.Nodup ∧ (∀ x ∈ done.reverse, x < n) ∧
    ∀ u v, u < n → v ∈ G u → v ∈ done.reverse → ∃ pre post, done.reverse = pre ++ u :: post ∧ v ∈ post := by
  have hnd := PV.Kahn.good_nodup' (edges G n) done h.good
  refine ⟨List.pairwise_reverse.mpr (hnd.imp (fun h => Ne.symm h)), fun x hx => h.lt x (List.mem_reverse.mp hx), ?_⟩
  intro u v hu hv hin
  obtain ⟨pre, post, hpp, hmem⟩ := PV.Kahn.good_order (edges G n) done h.good (u, v) ((mem_edges G n).mpr ⟨hu, hv⟩)
    (List.mem_reverse.mp hin)
  obtain ⟨p1, p2, hp12⟩ := List.append_of_mem hmem
  refine ⟨p2.reverse, p1.reverse ++ v :: pre.reverse, ?_, by simp⟩
  rw [hpp, hp12]
  simp [List.reverse_append]

end GraphSec

/-! ## Mamba2020Pass.schedule_intra_cycle -/
section MambaLoopSec
variable (G : Nat → List Nat) (kb : Nat → Nat) (n : Nat)

/-- the SCC ids waiting in the queue -/
def qitems (s : List QE × Nat) : List Nat := s.1.map Prod.snd

theorem push_items (s : List QE × Nat) (v : Nat) : (qitems (push kb s v)).Perm (v :: qitems s) := by
  unfold push qitems
  exact (insertSorted_perm _ _ _).map Prod.snd

theorem popQ_some {cb : Nat} {q q' : List QE} {e : QE} (h : popQ cb q = some (e, q')) : q.Perm (e :: q') := by
  unfold popQ at h
  split at h
  · split at h
    · simp at h
    · simp only [Option.some.injEq, Prod.mk.injEq] at h; obtain ⟨rfl, rfl⟩ := h; exact .refl _
  · split at h
    · simp at h
    · next e' he =>
      simp only [Option.some.injEq, Prod.mk.injEq] at h; obtain ⟨rfl, rfl⟩ := h
      obtain ⟨ys, rfl⟩ := List.getLast?_eq_some_iff.mp he
      rw [List.dropLast_concat]
      exact List.perm_append_singleton _ _

theorem popQ_none {cb : Nat} {q : List QE} (h : popQ cb q = none) : q = [] := by
  unfold popQ at h
  split at h
  · split at h
    · rfl
    · simp at h
  · split at h
    · next he => exact List.getLast?_eq_none_iff.mp he
    · simp at h

theorem popQ_sublist {cb : Nat} {q q' : List QE} {e : QE} (h : popQ cb q = some (e, q')) : q'.Sublist q := by
  unfold popQ at h
  split at h
  · split at h
    · simp at h
    · simp only [Option.some.injEq, Prod.mk.injEq] at h; obtain ⟨rfl, rfl⟩ := h; exact List.sublist_cons_self _ _
  · split at h
    · simp at h
    · simp only [Option.some.injEq, Prod.mk.injEq] at h; obtain ⟨rfl, rfl⟩ := h; exact List.dropLast_sublist _

/-- `Q.pop(0)` hands out a smallest key of a sorted queue, `Q.pop()` a largest one -/
theorem popQ_extreme {cb : Nat} {q q' : List QE} {e : QE} (hs : QSorted q) (h : popQ cb q = some (e, q')) :
    ∀ x ∈ q', if cb = 0 then keyLe e.1 x.1 = true else keyLe x.1 e.1 = true := by
  unfold popQ at h
  split at h
  · next hcb =>
    split at h
    · simp at h
    · simp only [Option.some.injEq, Prod.mk.injEq] at h; obtain ⟨rfl, rfl⟩ := h
      intro x hx; simp only [hcb, if_true]
      exact (List.pairwise_cons.mp hs).1 x hx
  · next hcb =>
    split at h
    · simp at h
    · next e' he =>
      simp only [Option.some.injEq, Prod.mk.injEq] at h; obtain ⟨rfl, rfl⟩ := h
      obtain ⟨ys, rfl⟩ := List.getLast?_eq_some_iff.mp he
      rw [List.dropLast_concat]
      intro x hx; simp only [hcb, if_false]
      exact (List.pairwise_append.mp hs).2.2 x hx e' (by simp)

/-- every queue entry carries the key branchiness of its item -/
def QKey (q : List QE) : Prop := ∀ e ∈ q, e.1.1 = kb e.2

theorem expand_preserves {σ : Type} (push : σ → Nat → σ) (P : σ → Prop) (hP : ∀ s v, P s → P (push s v)) :
    ∀ (vs : List Nat) (ind : Nat → Int) (s : σ), P s → P (expand push vs ind s).2
  | [], _, _, h => h
  | v :: vs, ind, s, h => by
    unfold expand; dsimp only; split
    · exact expand_preserves push P hP vs _ _ (hP s v h)
    · exact expand_preserves push P hP vs _ _ h

theorem push_qkey (s : List QE × Nat) (v : Nat) (h : QKey kb s.1) : QKey kb (push kb s v).1 := by
  intro e he
  rcases List.mem_cons.mp ((insertSorted_perm _ _ _).mem_iff.mp he) with rfl | he
  · rfl
  · exact h e he

/-- loop invariant: the Kahn invariant on (queue items, InD, reversed flattened schedule), well-formed packing state,
packing bounds, queue keys -/
structure MInv (s : MSt) : Prop where
  kinv : KInv G n (s.q.map Prod.snd) s.ind (flat s.pk).reverse
  ok : PackOK s.pk
  binv : BInv kb s.pk
  qkey : QKey kb s.q
  qsorted : QSorted s.q

theorem mamba_step (hwf : WF G n) (s : MSt) (h : MInv G kb n s) {r c u : Nat} {q' : List QE}
    (hp : popQ s.pk.cb s.q = some (((r, c), u), q')) :
    MInv G kb n ⟨(expand (push kb) (G u) s.ind (q', s.cnt)).2.1, (expand (push kb) (G u) s.ind (q', s.cnt)).1,
      (expand (push kb) (G u) s.ind (q', s.cnt)).2.2, mainStep s.pk r u⟩ := by
  have hperm := popQ_some hp
  have hr : r = kb u := h.qkey ((r, c), u) (hperm.mem_iff.mpr (by simp))
  have hq' : QKey kb q' := fun e he => h.qkey e (hperm.mem_iff.mpr (List.mem_cons_of_mem _ he))
  obtain ⟨h1, newly, h2, h3, h4⟩ := expand_spec (push kb) qitems (push_items kb) (G u) s.ind (q', s.cnt)
  refine ⟨?_, stepWith_ok _ _ _ _ h.ok, stepWith_binv kb _ mainFirst_lt _ _ _ hr h.binv, ?_, ?_⟩
  · show KInv G n _ _ (flat (stepWith mainFirst s.pk r u)).reverse
    rw [stepWith_flat, List.reverse_append]
    exact kinv_step G n hwf h.kinv (hperm.map Prod.snd) h1 h2 h3 h4
  · exact expand_preserves (push kb) (fun s => QKey kb s.1) (push_qkey kb) (G u) s.ind (q', s.cnt) hq'
  · exact expand_preserves (push kb) (fun s => QSorted s.1) (fun s v hs => insertSorted_sorted _ _ _ hs) (G u) s.ind
      (q', s.cnt) (List.Pairwise.sublist (popQ_sublist hp) h.qsorted)

theorem mambaLoop_inv (hwf : WF G n) : ∀ (fuel : Nat) (s : MSt), MInv G kb n s → MInv G kb n (mambaLoop G kb fuel s)
  | 0, _, h => h
  | fuel + 1, s, h => by
    unfold mambaLoop; split
    · exact h
    · next r c u q' hp => exact mambaLoop_inv hwf fuel _ (mamba_step G kb n hwf s h hp)

theorem mambaLoop_q (hwf : WF G n) : ∀ (fuel : Nat) (s : MSt), MInv G kb n s → n ≤ fuel + (flat s.pk).length →
    (mambaLoop G kb fuel s).q = []
  | 0, s, h, hl => by
    have := kinv_full G n h.kinv (by simpa using hl)
    exact List.map_eq_nil_iff.mp this
  | fuel + 1, s, h, hl => by
    unfold mambaLoop; split
    · next hp => exact popQ_none hp
    · next r c u q' hp =>
      refine mambaLoop_q hwf fuel _ (mamba_step G kb n hwf s h hp) ?_
      show n ≤ fuel + (flat (stepWith mainFirst s.pk r u)).length
      rw [stepWith_flat]; simp; omega

theorem mambaInit_inv : MInv G kb n (mambaInit G kb n) := by
  unfold mambaInit
  refine ⟨?_, packOK_empty, binv_empty kb, ?_, ?_⟩
  · show KInv G n _ (initInD G n) (flat (Pack.empty : Pack Nat)).reverse
    have hp := foldl_push_items (push kb) qitems (push_items kb)
      ((List.range n).filter (fun v => initInD G n v == 0)) ([], 0)
    have : (flat (Pack.empty : Pack Nat)).reverse = [] := by simp [flat, Pack.empty]
    rw [this]
    exact kinv_init G n (by simpa [qitems] using hp)
  · show QKey kb _
    suffices hgen : ∀ (l : List Nat) (s : List QE × Nat), QKey kb s.1 → QKey kb (l.foldl (push kb) s).1 from
      hgen _ _ (by intro e he; simp at he)
    intro l
    induction l with
    | nil => intro s h; exact h
    | cons v vs ih => intro s h; exact ih _ (push_qkey kb s v h)
  · show QSorted _
    suffices hgen : ∀ (l : List Nat) (s : List QE × Nat), QSorted s.1 → QSorted (l.foldl (push kb) s).1 from
      hgen _ _ List.Pairwise.nil
    intro l
    induction l with
    | nil => intro s h; exact h
    | cons v vs ih => intro s h; exact ih _ (insertSorted_sorted _ _ _ h)

theorem mambaLoop_succ_none {k : Nat} {s : MSt} (h : popQ s.pk.cb s.q = none) : mambaLoop G kb (k + 1) s = s := by
  rw [mambaLoop]; simp [h]

theorem mambaLoop_succ_some {k : Nat} {s : MSt} {r c u : Nat} {q' : List QE}
    (h : popQ s.pk.cb s.q = some (((r, c), u), q')) :
    mambaLoop G kb (k + 1) s = mambaLoop G kb k ⟨(expand (push kb) (G u) s.ind (q', s.cnt)).2.1,
      (expand (push kb) (G u) s.ind (q', s.cnt)).1, (expand (push kb) (G u) s.ind (q', s.cnt)).2.2, mainStep s.pk r u⟩ := by
  rw [mambaLoop]; simp [h]

/-- once the queue is empty the loop does nothing more -/
theorem mambaLoop_stable : ∀ (k : Nat) (s : MSt), s.q = [] → mambaLoop G kb k s = s
  | 0, _, _ => rfl
  | k + 1, s, h => by
    apply mambaLoop_succ_none
    rw [h]; unfold popQ; split <;> rfl

theorem mambaLoop_add : ∀ (a b : Nat) (s : MSt), mambaLoop G kb (a + b) s = mambaLoop G kb b (mambaLoop G kb a s)
  | 0, b, s => by simp [mambaLoop]
  | a + 1, b, s => by
    rw [show a + 1 + b = (a + b) + 1 by omega]
    cases hp : popQ s.pk.cb s.q with
    | none =>
      rw [mambaLoop_succ_none G kb hp, mambaLoop_succ_none G kb hp, mambaLoop_stable G kb b s (popQ_none hp)]
    | some x =>
      obtain ⟨⟨⟨r, c⟩, u⟩, q'⟩ := x
      rw [mambaLoop_succ_some G kb hp, mambaLoop_succ_some G kb hp]
      exact mambaLoop_add a b _

end MambaLoopSec

/-! ## HeuristicTopoPass.schedule_intra_cycle -/
section HeuSec
variable (G : Nat → List Nat) (le : Nat → Nat → Bool) (n : Nat)

theorem popMin_none : ∀ {q : List Nat}, popMin le q = none → q = []
  | [], _ => rfl
  | x :: xs, h => by
    unfold popMin at h
    split at h
    · simp at h
    · split at h <;> simp at h

theorem popMin_some : ∀ {q q' : List Nat} {u : Nat}, popMin le q = some (u, q') → q.Perm (u :: q')
  | [], _, _, h => by simp [popMin] at h
  | x :: xs, q', u, h => by
    unfold popMin at h
    split at h
    · next hn =>
      simp only [Option.some.injEq, Prod.mk.injEq] at h; obtain ⟨rfl, rfl⟩ := h
      rw [popMin_none le hn]
    · next m rest hs =>
      have ih := popMin_some hs
      split at h
      · simp only [Option.some.injEq, Prod.mk.injEq] at h; obtain ⟨rfl, rfl⟩ := h; exact .refl _
      · simp only [Option.some.injEq, Prod.mk.injEq] at h; obtain ⟨rfl, rfl⟩ := h
        exact (ih.cons x).trans (.swap _ _ _)

/-- the element popped is a minimum of the queue w.r.t. `le` when `le` is total and transitive -/
theorem popMin_min (htot : ∀ a b, le a b = false → le b a = true) (htr : ∀ a b c, le a b = true → le b c = true → le a c = true) :
    ∀ {q q' : List Nat} {u : Nat}, popMin le q = some (u, q') → ∀ x ∈ q, le u x = true
  | [], _, _, h => by simp [popMin] at h
  | y :: ys, q', u, h => by
    unfold popMin at h
    have hrefl : ∀ a, le a a = true := by
      intro a
      by_cases hh : le a a = true
      · exact hh
      · exact htot a a (by simpa using hh)
    split at h
    · next hn =>
      simp only [Option.some.injEq, Prod.mk.injEq] at h; obtain ⟨rfl, rfl⟩ := h
      rw [popMin_none le hn]
      intro x hx; simp at hx; subst hx; exact hrefl _
    · next m rest hs =>
      have ih := popMin_min htot htr hs
      split at h
      · next hle =>
        simp only [Option.some.injEq, Prod.mk.injEq] at h; obtain ⟨rfl, rfl⟩ := h
        intro x hx
        rcases List.mem_cons.mp hx with rfl | hx
        · exact hrefl _
        · exact htr _ _ _ hle (ih x hx)
      · next hle =>
        simp only [Option.some.injEq, Prod.mk.injEq] at h; obtain ⟨rfl, rfl⟩ := h
        intro x hx
        rcases List.mem_cons.mp hx with rfl | hx
        · exact htot _ _ (by simpa using hle)
        · exact ih x hx

theorem heuPush_items (q : List Nat) (v : Nat) : (id (heuPush q v)).Perm (v :: id q) := .refl _

theorem heu_step (hwf : WF G n) (s : HSt) (h : KInv G n s.q s.ind s.out.reverse) {u : Nat} {q' : List Nat}
    (hp : popMin le s.q = some (u, q')) :
    KInv G n (expand heuPush (G u) s.ind q').2 (expand heuPush (G u) s.ind q').1 (s.out ++ [u]).reverse := by
  obtain ⟨h1, newly, h2, h3, h4⟩ := expand_spec heuPush id heuPush_items (G u) s.ind q'
  rw [List.reverse_append]
  exact kinv_step G n hwf h (popMin_some le hp) h1 h2 h3 h4

theorem heuLoop_inv (hwf : WF G n) : ∀ (fuel : Nat) (s : HSt), KInv G n s.q s.ind s.out.reverse →
    KInv G n (heuLoop G le fuel s).q (heuLoop G le fuel s).ind (heuLoop G le fuel s).out.reverse
  | 0, _, h => h
  | fuel + 1, s, h => by
    unfold heuLoop; split
    · exact h
    · next u q' hp => exact heuLoop_inv hwf fuel _ (heu_step G le n hwf s h hp)

theorem heuLoop_q (hwf : WF G n) : ∀ (fuel : Nat) (s : HSt), KInv G n s.q s.ind s.out.reverse →
    n ≤ fuel + s.out.length → (heuLoop G le fuel s).q = []
  | 0, s, h, hl => kinv_full G n h (by simpa using hl)
  | fuel + 1, s, h, hl => by
    unfold heuLoop; split
    · next hp => exact popMin_none le hp
    · next u q' hp =>
      refine heuLoop_q hwf fuel _ (heu_step G le n hwf s h hp) ?_
      show n ≤ fuel + (s.out ++ [u]).length
      simp; omega

theorem heuInit_inv : KInv G n (heuInit G n).q (heuInit G n).ind (heuInit G n).out.reverse := by
  unfold heuInit
  have hp := foldl_push_items heuPush id heuPush_items ((List.range n).filter (fun v => initInD G n v == 0)) []
  exact kinv_init G n (by simpa using hp)

theorem heuLoop_succ_none {k : Nat} {s : HSt} (h : popMin le s.q = none) : heuLoop G le (k + 1) s = s := by
  rw [heuLoop]; simp [h]

theorem heuLoop_succ_some {k : Nat} {s : HSt} {u : Nat} {q' : List Nat} (h : popMin le s.q = some (u, q')) :
    heuLoop G le (k + 1) s = heuLoop G le k ⟨(expand heuPush (G u) s.ind q').2, (expand heuPush (G u) s.ind q').1, s.out ++ [u]⟩ := by
  rw [heuLoop]; simp [h]

theorem heuLoop_stable : ∀ (k : Nat) (s : HSt), s.q = [] → heuLoop G le k s = s
  | 0, _, _ => rfl
  | k + 1, s, h => by
    apply heuLoop_succ_none
    rw [h]; rfl

theorem heuLoop_add : ∀ (a b : Nat) (s : HSt), heuLoop G le (a + b) s = heuLoop G le b (heuLoop G le a s)
  | 0, b, s => by simp [heuLoop]
  | a + 1, b, s => by
    rw [show a + 1 + b = (a + b) + 1 by omega]
    cases hp : popMin le s.q with
    | none =>
      rw [heuLoop_succ_none G le hp, heuLoop_succ_none G le hp, heuLoop_stable G le b s (popMin_none le hp)]
    | some x =>
      obtain ⟨u, q'⟩ := x
      rw [heuLoop_succ_some G le hp, heuLoop_succ_some G le hp]
      exact heuLoop_add a b _

end HeuSec

end PV.Mamba
