import PymtlVerif.Model.Mamba
import PymtlVerif.Proofs.Kahn
/-!
Lemmas about `Model/Mamba.lean` (packing of schedule_ff / compile_scc / the main loop, insert_sortedlist, the two
Kahn-style loops). The property theorems are in `Props/C01m.lean`.
-/
namespace PV.Mamba

/-! ## the stable sort -/
section SortSec
variable {β : Type} (br : β → Nat)

theorem insertBr_perm (x : β) : ∀ l, (insertBr br x l).Perm (x :: l)
  | [] => .refl _
  | y :: ys => by
    unfold insertBr; split
    · exact .refl _
    · exact ((insertBr_perm x ys).cons y).trans (.swap x y ys)

theorem sortBr_perm : ∀ l : List β, (sortBr br l).Perm l
  | [] => .refl _
  | x :: xs => (insertBr_perm br x _).trans ((sortBr_perm xs).cons x)

theorem insertBr_sorted (x : β) : ∀ l, l.Pairwise (fun a b => br a ≤ br b) → (insertBr br x l).Pairwise (fun a b => br a ≤ br b)
  | [], _ => by simp [insertBr]
  | y :: ys, h => by
    obtain ⟨hy, hys⟩ := List.pairwise_cons.mp h
    unfold insertBr; split
    · next hxy =>
      refine List.pairwise_cons.mpr ⟨?_, h⟩
      intro z hz
      rcases List.mem_cons.mp hz with rfl | hz
      · exact hxy
      · exact Nat.le_trans hxy (hy z hz)
    · next hxy =>
      refine List.pairwise_cons.mpr ⟨?_, insertBr_sorted x ys hys⟩
      intro z hz
      rcases List.mem_cons.mp ((insertBr_perm br x ys).mem_iff.mp hz) with rfl | hz
      · omega
      · exact hy z hz

theorem sortBr_sorted : ∀ l : List β, (sortBr br l).Pairwise (fun a b => br a ≤ br b)
  | [] => List.Pairwise.nil
  | x :: xs => insertBr_sorted br x _ (sortBr_sorted xs)

theorem insertBr_filter (x : β) (k : Nat) : ∀ l, (insertBr br x l).filter (fun a => br a == k) = (x :: l).filter (fun a => br a == k)
  | [] => rfl
  | y :: ys => by
    unfold insertBr; split
    · rfl
    · next hxy =>
      have ih := insertBr_filter x k ys
      simp only [List.filter_cons] at ih ⊢
      rw [ih]
      by_cases h1 : br x = k <;> by_cases h2 : br y = k <;> simp [h1, h2]
      omega

/-- stability: blocks of equal branchiness keep their input order -/
theorem sortBr_stable (k : Nat) : ∀ l : List β, (sortBr br l).filter (fun a => br a == k) = l.filter (fun a => br a == k)
  | [] => rfl
  | x :: xs => by
    show (insertBr br x (sortBr br xs)).filter _ = _
    rw [insertBr_filter, List.filter_cons, List.filter_cons, sortBr_stable k xs]

end SortSec

/-! ## schedule_ff's packing loop -/
section FF
variable {β : Type} (br : β → Nat)

theorem packFFGo_flatten : ∀ (l cur : List β) (cb cc : Nat), (packFFGo br l cur cb cc).flatten = cur ++ l
  | [], cur, _, _ => by
    unfold packFFGo; split
    · next h => simp [List.isEmpty_iff.mp h]
    · simp
  | b :: rest, cur, cb, cc => by
    unfold packFFGo
    split
    · rw [packFFGo_flatten rest]; simp
    · dsimp only; split
      · rw [List.flatten_cons, packFFGo_flatten rest]; simp
      · rw [packFFGo_flatten rest]; simp

theorem packFFGo_nonempty : ∀ (l cur : List β) (cb cc : Nat), ∀ m ∈ packFFGo br l cur cb cc, m ≠ []
  | [], cur, _, _ => by
    unfold packFFGo; split
    · simp
    · next h => intro m hm; simp at hm; subst hm; intro h2; simp [h2] at h
  | b :: rest, cur, cb, cc => by
    unfold packFFGo
    split
    · exact packFFGo_nonempty rest _ _ _
    · dsimp only; split
      · intro m hm
        rcases List.mem_cons.mp hm with rfl | hm
        · simp
        · exact packFFGo_nonempty rest _ _ _ m hm
      · exact packFFGo_nonempty rest _ _ _

/-- sum of branchiness of a group -/
def total (l : List β) : Nat := (l.map br).sum
/-- number of branchy blocks of a group -/
def branchy (l : List β) : Nat := l.countP (fun x => decide (0 < br x))

@[simp] theorem total_append (a b : List β) : total br (a ++ b) = total br a + total br b := by simp [total]
@[simp] theorem total_nil : total br ([] : List β) = 0 := rfl
@[simp] theorem total_single (x : β) : total br [x] = br x := by simp [total]
@[simp] theorem branchy_append (a b : List β) : branchy br (a ++ b) = branchy br a + branchy br b := by simp [branchy]
@[simp] theorem branchy_nil : branchy br ([] : List β) = 0 := rfl
theorem branchy_single (x : β) : branchy br [x] = if 0 < br x then 1 else 0 := by
  simp [branchy, List.countP_cons]

/-- what the packing guarantees for a meta block: at most `k` branchy members, and the branchiness accumulated before
its last member is below the bound (the last member may overshoot it by any amount) -/
def GroupOK (k : Nat) (m : List β) : Prop :=
  branchy br m ≤ k ∧ ∃ pre b, m = pre ++ [b] ∧ total br pre < brFactor

theorem groupOK_of_small {k : Nat} {m : List β} (hne : m ≠ []) (hc : branchy br m ≤ k) (ht : total br m < brFactor) :
    GroupOK br k m := by
  refine ⟨hc, m.dropLast, m.getLast hne, (List.dropLast_concat_getLast hne).symm, ?_⟩
  have : total br m = total br m.dropLast + br (m.getLast hne) := by
    conv => lhs; rw [← List.dropLast_concat_getLast hne]
    simp
  omega

theorem packFFGo_bounds : ∀ (l cur : List β) (cb cc : Nat), cb = total br cur → cc = branchy br cur →
    cb < brFactor → cc < blkFactor → ∀ m ∈ packFFGo br l cur cb cc, GroupOK br blkFactor m
  | [], cur, cb, cc, h1, h2, h3, h4 => by
    unfold packFFGo; split
    · simp
    · next h =>
      intro m hm; simp at hm; subst hm
      exact groupOK_of_small br (by intro h2; simp [h2] at h) (by omega) (by omega)
  | b :: rest, cur, cb, cc, h1, h2, h3, h4 => by
    unfold packFFGo
    split
    · next hb =>
      exact packFFGo_bounds rest _ _ _ (by simp [h1, hb]) (by simp [h2, branchy_single, hb]) h3 h4
    · next hb =>
      dsimp only; split
      · intro m hm
        rcases List.mem_cons.mp hm with rfl | hm
        · refine ⟨?_, cur, b, rfl, by omega⟩
          simp [branchy_single]; split <;> omega
        · exact packFFGo_bounds rest [] 0 0 rfl rfl (by decide) (by decide) m hm
      · next hno =>
        have hb' : 0 < br b := Nat.pos_of_ne_zero hb
        exact packFFGo_bounds rest _ _ _ (by simp [h1]) (by simp [h2, branchy_single, hb']) (by omega) (by omega)

end FF

end PV.Mamba
