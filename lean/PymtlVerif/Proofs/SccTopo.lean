import PymtlVerif.Proofs.SccGraph
import PymtlVerif.Proofs.Kahn
/-!
The SCC-level topological sort of `schedule_intra_cycle` (`InD` counts + worklist), for *every* worklist discipline
`pick`: the schedule never repeats a group, respects every condensation edge, and — the condensation being acyclic —
contains every group (so `assert len(scc_schedule) == len(SCCs)` cannot fail). The invariant reuses `PV.Kahn.Good`
of `Proofs/Kahn.lean`.
-/
namespace PV.Scc
open PV.Kahn

/-- what the sort needs from the condensation: adjacency sets without duplicates, every edge from a lower to a higher
index below `n` (`gnew_increasing`: the creation order of the groups is such a numbering) -/
structure Cond (gn : Graph) (n : Nat) : Prop where
  nodup : ∀ i, i < n → (gn i).Nodup
  inc : ∀ i, i < n → ∀ j ∈ gn i, i < j ∧ j < n

def condEdgeList (gn : Graph) (n : Nat) : List (Nat × Nat) := (List.range n).flatMap (fun u => (gn u).map (fun v => (u, v)))

theorem mem_condEdgeList {gn : Graph} {n u v : Nat} : (u, v) ∈ condEdgeList gn n ↔ u < n ∧ v ∈ gn u := by
  unfold condEdgeList
  simp only [List.mem_flatMap, List.mem_map, Prod.mk.injEq, List.mem_range]
  constructor
  · rintro ⟨a, ha, b, hb, rfl, rfl⟩; exact ⟨ha, hb⟩
  · rintro ⟨h1, h2⟩; exact ⟨u, h1, v, h2, rfl, rfl⟩

/-- number of predecessors of `v` among `L` that are not in `out` -/
def cntL (gn : Graph) (out : List Nat) (v : Nat) : List Nat → Nat
  | [] => 0
  | a :: L => (if v ∈ gn a ∧ a ∉ out then 1 else 0) + cntL gn out v L

theorem cntL_snoc_not_mem (gn : Graph) (out : List Nat) (u v : Nat) : ∀ (L : List Nat), u ∉ L →
    cntL gn (out ++ [u]) v L = cntL gn out v L := by
  intro L
  induction L with
  | nil => intro _; rfl
  | cons a L ih =>
    intro h
    have hau : a ≠ u := fun h' => h (h' ▸ List.mem_cons_self)
    have hL : u ∉ L := fun h' => h (List.mem_cons_of_mem _ h')
    simp only [cntL, ih hL, List.mem_append, List.mem_singleton, hau, or_false]

theorem cntL_snoc (gn : Graph) (out : List Nat) (u v : Nat) (hu : u ∉ out) : ∀ (L : List Nat), L.Nodup → u ∈ L →
    cntL gn (out ++ [u]) v L + (if v ∈ gn u then 1 else 0) = cntL gn out v L := by
  intro L
  induction L with
  | nil => intro _ h; simp at h
  | cons a L ih =>
    intro hnd hmem
    obtain ⟨haL, hnd'⟩ := List.nodup_cons.mp hnd
    by_cases hau : a = u
    · subst hau
      simp only [cntL, cntL_snoc_not_mem gn out a v L haL, List.mem_append, List.mem_singleton, or_true, not_true, and_false,
        if_false, hu, not_false_eq_true, and_true]
      omega
    · have hL : u ∈ L := by
        rcases List.mem_cons.mp hmem with h | h
        · exact absurd h.symm hau
        · exact h
      have := ih hnd' hL
      simp only [cntL, List.mem_append, List.mem_singleton, hau, or_false]
      omega

theorem cntL_zero (gn : Graph) (out : List Nat) (v : Nat) : ∀ (L : List Nat), cntL gn out v L = 0 →
    ∀ a ∈ L, v ∈ gn a → a ∈ out := by
  intro L
  induction L with
  | nil => intro _ a ha; simp at ha
  | cons b L ih =>
    intro h a ha hv
    simp only [cntL] at h
    rcases List.mem_cons.mp ha with rfl | ha
    · by_cases hin : a ∈ out
      · exact hin
      · simp [hv, hin] at h
    · exact ih (by omega) a ha hv

theorem cntL_pos (gn : Graph) (out : List Nat) (v : Nat) : ∀ (L : List Nat), cntL gn out v L ≠ 0 →
    ∃ a ∈ L, v ∈ gn a ∧ a ∉ out := by
  intro L
  induction L with
  | nil => intro h; simp [cntL] at h
  | cons b L ih =>
    intro h
    simp only [cntL] at h
    by_cases hb : v ∈ gn b ∧ b ∉ out
    · exact ⟨b, List.mem_cons_self, hb⟩
    · simp only [hb, if_false, Nat.zero_add] at h
      obtain ⟨a, ha, h'⟩ := ih h
      exact ⟨a, List.mem_cons_of_mem _ ha, h'⟩

/-! ## `InD` -/

def bump (ind : Nat → Nat) (v : Nat) : Nat → Nat := fun i => if i = v then ind v + 1 else ind i

theorem foldl_bump : ∀ (l : List Nat) (ind : Nat → Nat) (v : Nat), l.Nodup →
    (l.foldl bump ind) v = ind v + (if v ∈ l then 1 else 0) := by
  intro l
  induction l with
  | nil => intro ind v _; simp
  | cons a l ih =>
    intro ind v hnd
    obtain ⟨hal, hnd'⟩ := List.nodup_cons.mp hnd
    simp only [List.foldl_cons]
    rw [ih _ _ hnd']
    by_cases hva : v = a
    · subst hva; simp [bump, hal]
    · simp [bump, hva]

theorem foldl_indeg (gn : Graph) : ∀ (L : List Nat) (ind : Nat → Nat) (v : Nat), (∀ a ∈ L, (gn a).Nodup) →
    (L.foldl (fun ind u => (gn u).foldl bump ind) ind) v = ind v + cntL gn [] v L := by
  intro L
  induction L with
  | nil => intro ind v _; simp [cntL]
  | cons a L ih =>
    intro ind v h
    simp only [List.foldl_cons]
    rw [ih _ _ (fun b hb => h b (List.mem_cons_of_mem _ hb)), foldl_bump _ _ _ (h a List.mem_cons_self)]
    simp only [cntL, List.not_mem_nil, not_false_eq_true, and_true]
    omega

theorem indeg_spec {gn : Graph} {n : Nat} (hc : Cond gn n) (v : Nat) : indeg gn n v = cntL gn [] v (List.range n) := by
  have := foldl_indeg gn (List.range n) (fun _ => 0) v (fun a ha => hc.nodup a (List.mem_range.mp ha))
  simp only [Nat.zero_add] at this
  exact this

/-! ## one iteration -/

theorem lookup_map_append' {β : Type} (l : List Nat) (c : β) (vm : List (Nat × β)) (x : Nat) :
    (l.map (fun y => (y, c)) ++ vm).lookup x = if x ∈ l then some c else vm.lookup x := by
  induction l with
  | nil => simp
  | cons a l ih =>
    simp only [List.map_cons, List.cons_append, List.lookup_cons, List.mem_cons]
    by_cases hxa : x = a
    · subst hxa; simp
    · have : (x == a) = false := by simpa using hxa
      rw [this, ih]
      simp [hxa]

theorem getD_mem {l : List Nat} {i : Nat} (d : Nat) (h : i < l.length) : l.getD i d ∈ l := by
  rw [List.getD_eq_getElem?_getD, List.getElem?_eq_getElem h]; simp

theorem nodup_of_reverse {l : List Nat} (h : l.reverse.Nodup) : l.Nodup := by
  unfold List.Nodup at *
  exact (List.pairwise_reverse.mp h).imp (fun h => Ne.symm h)

theorem mem_eraseIdx_nodup : ∀ (q : List Nat) (i d : Nat), q.Nodup → i < q.length →
    ∀ x, x ∈ q.eraseIdx i ↔ x ∈ q ∧ x ≠ q.getD i d := by
  intro q
  induction q with
  | nil => intro i d _ h; simp at h
  | cons a q ih =>
    intro i d hnd hi x
    obtain ⟨haq, hnd'⟩ := List.nodup_cons.mp hnd
    cases i with
    | zero =>
      simp only [List.eraseIdx_cons_zero, List.getD_cons_zero, List.mem_cons]
      constructor
      · intro h; exact ⟨.inr h, fun hx => haq (hx ▸ h)⟩
      · rintro ⟨h | h, hne⟩
        · exact absurd h hne
        · exact h
    | succ k =>
      have hk : k < q.length := by simpa using hi
      have hget : q.getD k d ∈ q := getD_mem d hk
      simp only [List.eraseIdx_cons_succ, List.getD_cons_succ, List.mem_cons, ih k d hnd' hk x]
      constructor
      · rintro (rfl | ⟨h1, h2⟩)
        · exact ⟨.inl rfl, fun hx => haq (hx ▸ hget)⟩
        · exact ⟨.inr h1, h2⟩
      · rintro ⟨rfl | h1, h2⟩
        · exact .inl rfl
        · exact .inr ⟨h1, h2⟩

theorem relax_eq (u : Nat) (s : T3) (v : Nat) :
    (relax u s v).out = s.out ∧ (∀ w, (relax u s v).ind w = if w = v then s.ind v - 1 else s.ind w) ∧
    (relax u s v).q = s.q ++ (if s.ind v - 1 = 0 then [v] else []) ∧
    (relax u s v).pred = (if s.ind v - 1 = 0 then [(v, some u)] else []) ++ s.pred := by
  unfold relax
  by_cases h : s.ind v - 1 = 0
  · simp [h]
  · simp [h]

/-- effect of `for v in G_new[u]: InD[v] -= 1; if not InD[v]: Q.append(v); scc_pred[v] = u` -/
theorem foldl_relax (u : Nat) : ∀ (l : List Nat) (s : T3), l.Nodup →
    (l.foldl (relax u) s).out = s.out ∧
    (∀ w, (l.foldl (relax u) s).ind w = if w ∈ l then s.ind w - 1 else s.ind w) ∧
    (l.foldl (relax u) s).q = s.q ++ l.filter (fun w => s.ind w - 1 == 0) ∧
    (l.foldl (relax u) s).pred = ((l.filter (fun w => s.ind w - 1 == 0)).reverse.map (fun w => (w, some u))) ++ s.pred := by
  intro l
  induction l with
  | nil => intro s _; simp
  | cons v l ih =>
    intro s hnd
    obtain ⟨hvl, hnd'⟩ := List.nodup_cons.mp hnd
    obtain ⟨e1, e2, e3, e4⟩ := relax_eq u s v
    obtain ⟨h1, h2, h3, h4⟩ := ih (relax u s v) hnd'
    have hfilter : l.filter (fun w => (relax u s v).ind w - 1 == 0) = l.filter (fun w => s.ind w - 1 == 0) := by
      apply List.filter_congr
      intro w hw
      have : w ≠ v := fun h => hvl (h ▸ hw)
      rw [e2 w, if_neg this]
    simp only [List.foldl_cons]
    refine ⟨by rw [h1, e1], ?_, ?_, ?_⟩
    · intro w
      rw [h2 w, e2 w]
      by_cases hwv : w = v
      · subst hwv; simp [hvl]
      · simp [hwv]
    · rw [h3, e3, hfilter, List.filter_cons]
      by_cases hz : s.ind v - 1 = 0
      · simp [hz]
      · simp [hz]
    · rw [h4, e4, hfilter, List.filter_cons]
      by_cases hz : s.ind v - 1 = 0
      · simp [hz]
      · simp [hz]

/-- invariant of the `while Q:` loop -/
structure TInv (gn : Graph) (n : Nat) (s : T3) : Prop where
  ind : ∀ v, v < n → s.ind v = cntL gn s.out v (List.range n)
  q : ∀ v, v ∈ s.q ↔ v < n ∧ v ∉ s.out ∧ s.ind v = 0
  qnd : s.q.Nodup
  good : Good (condEdgeList gn n) s.out.reverse
  lt : ∀ v ∈ s.out, v < n
  pred : ∀ v u, s.pred.lookup v = some (some u) → u < n ∧ v ∈ gn u ∧ u ∈ s.out

/-- in a `Good` list every predecessor of a member is a member -/
theorem good_closed {E : List (Nat × Nat)} : ∀ (done : List Nat), Good E done → ∀ e ∈ E, e.2 ∈ done → e.1 ∈ done := by
  intro done
  induction done with
  | nil => intro _ e _ h; simp at h
  | cons a done ih =>
    intro hg e he hin
    obtain ⟨_, hp, hg'⟩ := hg
    rcases List.mem_cons.mp hin with h | h
    · exact List.mem_cons_of_mem _ (hp e he h)
    · exact List.mem_cons_of_mem _ (ih hg' e he h)

theorem topo_step {gn : Graph} {n : Nat} (hc : Cond gn n) (pick : List Nat → List Nat → Nat) (s : T3)
    (inv : TInv gn n s) (hd : s.done = false) :
    TInv gn n (step3 pick gn s) ∧ (step3 pick gn s).out.length = s.out.length + 1 := by
  obtain ⟨hind, hq, hqnd, hgood, hlt, hpred⟩ := inv
  cases hqe : s.q with
  | nil => simp [T3.done, hqe] at hd
  | cons a r =>
    obtain ⟨i, hi, hstep⟩ : ∃ i, i < (a :: r).length ∧ step3 pick gn s =
        (gn ((a :: r).getD i a)).foldl (relax ((a :: r).getD i a))
          { s with q := (a :: r).eraseIdx i, out := s.out ++ [(a :: r).getD i a] } :=
      ⟨pick s.out (a :: r) % (a :: r).length, Nat.mod_lt _ (by simp), by simp [step3, hqe]⟩
    generalize hu : (a :: r).getD i a = u at hstep
    have hu_q : u ∈ s.q := by
      rw [hqe, ← hu]; exact getD_mem a hi
    obtain ⟨hun, huo, hu0⟩ := (hq u).mp hu_q
    have hgnd := hc.nodup u hun
    obtain ⟨f1, f2, f3, f4⟩ := foldl_relax u (gn u) { s with q := (a :: r).eraseIdx i, out := s.out ++ [u] } hgnd
    rw [← hstep] at f1 f2 f3 f4
    simp only at f1 f2 f3 f4
    have hrange : (List.range n).Nodup := List.nodup_range
    have hcnt : ∀ v, cntL gn (s.out ++ [u]) v (List.range n) + (if v ∈ gn u then 1 else 0) = cntL gn s.out v (List.range n) :=
      fun v => cntL_snoc gn s.out u v huo (List.range n) hrange (List.mem_range.mpr hun)
    have hmemq : ∀ x, x ∈ (a :: r).eraseIdx i ↔ x ∈ s.q ∧ x ≠ u := by
      intro x
      rw [mem_eraseIdx_nodup (a :: r) i a (hqe ▸ hqnd) hi x, hu, hqe]
    -- a successor of u is not yet scheduled and not in the worklist
    have hsucc : ∀ v ∈ gn u, v < n ∧ v ≠ u ∧ v ∉ s.out ∧ s.ind v ≠ 0 := by
      intro v hv
      obtain ⟨h1, h2⟩ := hc.inc u hun v hv
      refine ⟨h2, by omega, ?_, ?_⟩
      · intro hvo
        have := good_closed _ hgood (u, v) (mem_condEdgeList.mpr ⟨hun, hv⟩) (List.mem_reverse.mpr hvo)
        exact huo (List.mem_reverse.mp this)
      · rw [hind v h2]
        have := hcnt v
        simp only [hv, if_true] at this
        omega
    refine ⟨⟨?_, ?_, ?_, ?_, ?_, ?_⟩, ?_⟩
    · -- InD
      intro v hv
      rw [f2 v, f1]
      have := hcnt v
      have := hind v hv
      by_cases hvg : v ∈ gn u
      · simp only [hvg, if_true] at *; omega
      · simp only [hvg, if_false] at *; omega
    · -- Q
      intro v
      rw [f3, f1, f2 v, List.mem_append, List.mem_filter, hmemq, hq v]
      simp only [List.mem_append, List.mem_singleton, beq_iff_eq, not_or]
      constructor
      · rintro (⟨⟨h1, h2, h3⟩, h4⟩ | ⟨h1, h2⟩)
        · refine ⟨h1, ⟨h2, h4⟩, ?_⟩
          by_cases hvg : v ∈ gn u
          · exact absurd h3 (hsucc v hvg).2.2.2
          · simp [hvg, h3]
        · obtain ⟨g1, g2, g3, _⟩ := hsucc v h1
          exact ⟨g1, ⟨g3, g2⟩, by simp [h1, h2]⟩
      · rintro ⟨h1, ⟨h2, h3⟩, h4⟩
        by_cases hvg : v ∈ gn u
        · right; simp only [hvg, if_true] at h4; exact ⟨hvg, h4⟩
        · left; simp only [hvg, if_false] at h4; exact ⟨⟨h1, h2, h4⟩, h3⟩
    · -- Q has no duplicates
      rw [f3, List.nodup_append]
      refine ⟨?_, hgnd.filter _, ?_⟩
      · exact List.Nodup.sublist (List.eraseIdx_sublist _ _) (hqe ▸ hqnd)
      · intro x hx y hy hxy
        subst hxy
        have h1 := ((hmemq x).mp hx).1
        have h2 := (List.mem_filter.mp hy).1
        exact (hsucc x h2).2.2.2 ((hq x).mp h1).2.2
    · -- the schedule stays Good
      rw [f1, List.reverse_append]
      refine ⟨?_, ?_, hgood⟩
      · simpa using huo
      · intro e he h2
        obtain ⟨e1, e2⟩ := e
        simp only at h2; subst h2
        obtain ⟨g1, g2⟩ := mem_condEdgeList.mp he
        have hz : cntL gn s.out e2 (List.range n) = 0 := by rw [← hind e2 hun]; exact hu0
        exact List.mem_reverse.mpr (cntL_zero gn s.out e2 _ hz e1 (List.mem_range.mpr g1) g2)
    · intro v hv
      rw [f1] at hv
      rcases List.mem_append.mp hv with hv | hv
      · exact hlt v hv
      · simp at hv; subst hv; exact hun
    · -- scc_pred
      intro v p hl
      rw [f4, lookup_map_append'] at hl
      by_cases hv : v ∈ (List.filter (fun w => s.ind w - 1 == 0) (gn u)).reverse
      · rw [if_pos hv] at hl
        have : p = u := by simpa using hl.symm
        subst this
        exact ⟨hun, (List.mem_filter.mp (List.mem_reverse.mp hv)).1, by rw [f1]; simp⟩
      · rw [if_neg hv] at hl
        obtain ⟨g1, g2, g3⟩ := hpred v p hl
        exact ⟨g1, g2, by rw [f1]; exact List.mem_append_left _ g3⟩
    · rw [f1]; simp

/-! ## the whole sort -/

theorem topoInit_inv {gn : Graph} {n : Nat} (hc : Cond gn n) : TInv gn n (topoInit gn n) := by
  unfold topoInit
  refine ⟨?_, ?_, ?_, ?_, ?_, ?_⟩
  · intro v _; exact indeg_spec hc v
  · intro v
    simp only [List.mem_filter, List.mem_range, beq_iff_eq, List.not_mem_nil, not_false_eq_true, true_and]
  · exact List.nodup_range.filter _
  · exact trivial
  · intro v hv; simp at hv
  · intro v u hl
    simp only at hl
    rw [List.map_reverse, ← List.map_reverse] at hl
    have := lookup_map_append' (List.filter (fun i => indeg gn n i == 0) (List.range n)).reverse (none : Option Nat) [] v
    rw [List.append_nil] at this
    rw [this] at hl
    split at hl <;> simp at hl

/-- **the sort ends within `n` iterations, for every worklist discipline**, and its invariant holds at the end -/
theorem topo_final {gn : Graph} {n : Nat} (hc : Cond gn n) (pick : List Nat → List Nat → Nat) (F : Nat) (hF : n ≤ F) :
    TInv gn n (iter T3.done (step3 pick gn) F (topoInit gn n)) ∧
    (iter T3.done (step3 pick gn) F (topoInit gn n)).done = true := by
  have key := iter_inv T3.done (step3 pick gn) (fun s => TInv gn n s ∧ s.out.length ≤ n) (fun s => n - s.out.length)
    (by
      intro s ⟨hi, _⟩ hd
      obtain ⟨hi', hlen⟩ := topo_step hc pick s hi hd
      have hle : (step3 pick gn s).out.length ≤ n := by
        have hnd : (step3 pick gn s).out.Nodup := by
          have := good_nodup _ _ hi'.good
          exact nodup_of_reverse this
        have hsub : ∀ x ∈ (step3 pick gn s).out, x ∈ List.range n := fun x hx => List.mem_range.mpr (hi'.lt x hx)
        simpa using List.Nodup.length_le_of_subset hnd hsub
      exact ⟨⟨hi', hle⟩, by omega⟩)
    F (topoInit gn n) ⟨topoInit_inv hc, by simp [topoInit]⟩ (by simp [topoInit]; omega)
  exact ⟨key.1.1, key.2⟩

/-- at the end every group has been scheduled -/
theorem topo_complete {gn : Graph} {n : Nat} (hc : Cond gn n) (s : T3) (inv : TInv gn n s) (hd : s.done = true) :
    ∀ v, v < n → v ∈ s.out := by
  have hq : s.q = [] := by simpa [T3.done] using hd
  intro v
  induction v using Nat.strongRecOn with
  | ind v ih =>
    intro hv
    by_cases hvo : v ∈ s.out
    · exact hvo
    · exfalso
      have hne : s.ind v ≠ 0 := by
        intro h0
        have := (inv.q v).mpr ⟨hv, hvo, h0⟩
        rw [hq] at this; simp at this
      rw [inv.ind v hv] at hne
      obtain ⟨a, ha, hva, hao⟩ := cntL_pos gn s.out v _ hne
      have han : a < n := List.mem_range.mp ha
      have := (hc.inc a han v hva).1
      exact hao (ih a this han)

end PV.Scc
