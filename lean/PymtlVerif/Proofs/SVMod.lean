import PymtlVerif.Model.SVMod
import PymtlVerif.Proofs.Sched
/-!
Theorems about the module level of the SystemVerilog model (`Model/SVMod.lean`):

* `singleDriver_sound` / `singleDriver_complete`: the pairwise rectangle-overlap test `singleDriver`
  is exactly "no position (variable, element, bit) has two driving processes";
* the scheduling theory of `Proofs/Sched.lean` instantiated for flattened designs: when the
  processes of a design are *represented* by abstract blocks (hypothesis `Represents vw`: under an
  abstraction `vw` of the simulation state — the raw store, or the store restricted as needed —
  executing process `i` acts as the run function of block `i`) that are well-formed, single-writer and
  swept in a topological order, one sweep reaches the unique fixed point, a second sweep changes
  nothing, every store `settleN` returns is that fixed point, and any other topological sweep order
  gives the same store.

What is *assumed*, not proved, here: the frame / dependency properties of `exec` (they are the
hypotheses `Blk.Wf` of the representing blocks and `Represents`), and, for termination of `settleN`
within two sweeps, that equal abstractions of the stores after the first and second sweep mean equal
cell lists (`settleN` compares the association lists `cells`, which is finer than equality of all
`get`s; for the raw view it is enough that the second sweep creates no store cell).
-/
namespace PV.SV

/-! ## single driver -/

theorem mem_drivers {ws : List (List WR)} {x : String} {e b k : Nat} :
    k ∈ drivers ws x e b ↔ ∃ a, (a, k) ∈ ws.zipIdx ∧ ∃ r ∈ a, r.has x e b := by
  simp only [drivers, List.mem_map, List.mem_filter, List.any_eq_true, decide_eq_true_eq]
  constructor
  · rintro ⟨⟨a, k'⟩, ⟨hm, hr⟩, rfl⟩; exact ⟨a, hm, hr⟩
  · rintro ⟨a, hm, hr⟩; exact ⟨(a, k), ⟨hm, hr⟩, rfl⟩

theorem drivers_nodup (ws : List (List WR)) (x : String) (e b : Nat) : (drivers ws x e b).Nodup := by
  have hs : (drivers ws x e b).Sublist (ws.zipIdx.map (·.2)) := List.Sublist.map _ List.filter_sublist
  have : (ws.zipIdx.map (·.2)).Nodup := by
    rw [List.zipIdx_map_snd]; exact List.nodup_range'
  exact List.Pairwise.sublist hs this

theorem driverConflicts_eq_nil (ws : List (List WR)) :
    driverConflicts ws = [] ↔
      ∀ a i, (a, i) ∈ ws.zipIdx → ∀ b j, (b, j) ∈ ws.zipIdx → i < j →
        a.find? (fun r => b.any (·.overlap r)) = none := by
  simp only [driverConflicts, List.flatMap_eq_nil_iff]
  constructor
  · intro h a i ha b j hb hij
    have := h (a, i) ha (b, j) hb
    simp only [hij, if_true] at this
    cases hf : a.find? (fun r => b.any (·.overlap r)) with
    | none => rfl
    | some r => rw [hf] at this; simp at this
  · rintro h ⟨a, i⟩ ha ⟨b, j⟩ hb
    by_cases hij : i < j
    · simp only [hij, if_true]
      rw [h a i ha b j hb hij]
    · simp only [hij, if_false]

theorem overlap_of_has {r r' : WR} {x : String} {e b : Nat} (h : r.has x e b) (h' : r'.has x e b) :
    r'.overlap r = true := by
  obtain ⟨hx, h1, h2, h3, h4⟩ := h
  obtain ⟨hx', h1', h2', h3', h4'⟩ := h'
  simp only [WR.overlap, Bool.and_eq_true, beq_iff_eq, decide_eq_true_eq]
  refine ⟨⟨⟨⟨by rw [hx, hx'], ?_⟩, ?_⟩, ?_⟩, ?_⟩ <;> omega

/-- a rectangle that contains at least one position -/
def WR.NonEmpty (r : WR) : Prop := r.e0 < r.e1 ∧ r.b0 < r.b1

theorem has_of_overlap {r r' : WR} (hne : r.NonEmpty) (hne' : r'.NonEmpty) (h : r'.overlap r = true) :
    ∃ e b, r.has r.x e b ∧ r'.has r.x e b := by
  simp only [WR.overlap, Bool.and_eq_true, beq_iff_eq, decide_eq_true_eq] at h
  obtain ⟨⟨⟨⟨hx, h1⟩, h2⟩, h3⟩, h4⟩ := h
  obtain ⟨n1, n2⟩ := hne
  obtain ⟨n1', n2'⟩ := hne'
  refine ⟨max r.e0 r'.e0, max r.b0 r'.b0, ⟨rfl, ?_, ?_, ?_, ?_⟩, ⟨hx, ?_, ?_, ?_, ?_⟩⟩ <;> omega

/-- two processes at positions `i < j` that both drive one position are reported -/
theorem conflict_of_two {ws : List (List WR)} {x : String} {e b i j : Nat}
    (hi : i ∈ drivers ws x e b) (hj : j ∈ drivers ws x e b) (hij : i < j) : driverConflicts ws ≠ [] := by
  intro hnil
  obtain ⟨a, ha, r, hr, hrx⟩ := mem_drivers.mp hi
  obtain ⟨c, hc, r', hr', hrx'⟩ := mem_drivers.mp hj
  have := (driverConflicts_eq_nil ws).mp hnil a i ha c j hc hij
  rw [List.find?_eq_none] at this
  apply this r hr
  simp only [List.any_eq_true]
  exact ⟨r', hr', overlap_of_has hrx hrx'⟩

/-- **singleDriver_sound**: if the pairwise-overlap test passes, every bit of every element of every
    variable is in the write footprint of at most one process. -/
theorem singleDriver_sound (ws : List (List WR)) (h : singleDriver ws = true) (x : String) (e b : Nat) :
    (drivers ws x e b).length ≤ 1 := by
  have hnil : driverConflicts ws = [] := by simpa [singleDriver] using h
  have hnd := drivers_nodup ws x e b
  match hD : drivers ws x e b with
  | [] => simp
  | [_] => simp
  | i :: j :: rest =>
    exfalso
    rw [hD] at hnd
    have hne : i ≠ j := by
      intro e; subst e; simp at hnd
    have hi : i ∈ drivers ws x e b := by rw [hD]; simp
    have hj : j ∈ drivers ws x e b := by rw [hD]; simp
    rcases Nat.lt_or_gt_of_ne hne with hlt | hlt
    · exact conflict_of_two hi hj hlt hnil
    · exact conflict_of_two hj hi hlt hnil

/-- **singleDriver_complete** (converse, for footprints made of non-empty rectangles): if the test
    fails, some position has two drivers. -/
theorem singleDriver_complete (ws : List (List WR)) (hne : ∀ w ∈ ws, ∀ r ∈ w, r.NonEmpty)
    (h : singleDriver ws = false) : ∃ x e b, 2 ≤ (drivers ws x e b).length := by
  have hnn : ¬ driverConflicts ws = [] := by
    intro hnil; simp [singleDriver, hnil] at h
  rw [driverConflicts_eq_nil] at hnn
  simp only [Classical.not_forall] at hnn
  obtain ⟨a, i, ha, c, j, hc, hij, hf⟩ := hnn
  cases hfr : a.find? (fun r => c.any (·.overlap r)) with
  | none => exact absurd hfr hf
  | some r =>
    have hr : r ∈ a := List.mem_of_find?_eq_some hfr
    have hp := List.find?_some hfr
    simp only [List.any_eq_true] at hp
    obtain ⟨r', hr', hov⟩ := hp
    have hamem : a ∈ ws := by
      have := List.mk_mem_zipIdx_iff_getElem?.mp ha
      exact List.mem_of_getElem? this
    have hcmem : c ∈ ws := by
      have := List.mk_mem_zipIdx_iff_getElem?.mp hc
      exact List.mem_of_getElem? this
    obtain ⟨e, b, h1, h2⟩ := has_of_overlap (hne a hamem r hr) (hne c hcmem r' hr') hov
    refine ⟨r.x, e, b, ?_⟩
    have hi : i ∈ drivers ws r.x e b := mem_drivers.mpr ⟨a, ha, r, hr, h1⟩
    have hj : j ∈ drivers ws r.x e b := mem_drivers.mpr ⟨c, hc, r', hr', h2⟩
    match hD : drivers ws r.x e b with
    | [] => rw [hD] at hi; simp at hi
    | [k] =>
      rw [hD] at hi hj
      simp only [List.mem_singleton] at hi hj
      omega
    | _ :: _ :: _ => simp

/-- the test is exact on non-empty rectangles -/
theorem singleDriver_iff (ws : List (List WR)) (hne : ∀ w ∈ ws, ∀ r ∈ w, r.NonEmpty) :
    singleDriver ws = true ↔ ∀ x e b, (drivers ws x e b).length ≤ 1 := by
  constructor
  · exact fun h x e b => singleDriver_sound ws h x e b
  · intro h
    cases hs : singleDriver ws with
    | true => rfl
    | false =>
      obtain ⟨x, e, b, h2⟩ := singleDriver_complete ws hne hs
      have := h x e b
      omega


example : singleDriver [[⟨"x", 0, 1, 0, 4⟩], [⟨"x", 0, 1, 4, 8⟩, ⟨"y", 0, 2, 0, 8⟩]] = true := by decide
example : singleDriver [[⟨"x", 0, 1, 0, 5⟩], [⟨"x", 0, 1, 4, 8⟩]] = false := by decide
example : drivers [[⟨"x", 0, 1, 0, 5⟩], [⟨"x", 0, 1, 4, 8⟩]] "x" 0 4 = [0, 1] := by decide
/-- an empty rectangle can be reported although it drives nothing: `NonEmpty` is needed for the converse -/
example : singleDriver [[⟨"x", 5, 3, 0, 8⟩], [⟨"x", 0, 10, 0, 8⟩]] = false := by decide

end PV.SV

/-! ## sweeping a topologically ordered block list (abstract, continues `Proofs/Sched.lean`) -/

namespace PV.Sched
variable {Var Val : Type}

/-- a state fixed by every block is fixed by a sweep -/
theorem runList_of_fixed (bs : List (Blk Var Val)) (t : St Var Val) (h : ∀ b ∈ bs, b.run t = t) :
    runList bs t = t := by
  induction bs with
  | nil => rfl
  | cons b bs ih =>
    rw [runList_cons, h b (by simp)]
    exact ih (fun c hc => h c (by simp [hc]))

/-- **settle_topo**: after one sweep in a topological order a second sweep changes nothing -/
theorem settle_topo (bs : List (Blk Var Val)) (hwf : ∀ b ∈ bs, b.Wf) (hsw : SingleWriter bs)
    (htopo : Topo bs) (s : St Var Val) : runList bs (runList bs s) = runList bs s :=
  runList_of_fixed bs _ (fixed_point_of_topo bs hwf hsw htopo s)

/-- **settle_unique**: any state that every block leaves unchanged and that agrees with `s` on the
    variables no block writes is the result of one topological sweep from `s` -/
theorem settle_unique (bs : List (Blk Var Val)) (hwf : ∀ b ∈ bs, b.Wf) (hsw : SingleWriter bs)
    (htopo : Topo bs) (s t : St Var Val) (hin : ∀ v, (∀ b ∈ bs, ¬ b.W v) → t v = s v)
    (ht : ∀ b ∈ bs, b.run t = t) : t = runList bs s :=
  unique_fixed_point bs hwf htopo t (runList bs s)
    (fun v hv => by rw [hin v hv, runList_frame bs hwf s v hv]) ht
    (fixed_point_of_topo bs hwf hsw htopo s)

/-- sweep until `stable` says that nothing changed (the shape of `PV.SV.settleN`) -/
def sweepN (stable : St Var Val → St Var Val → Bool) (bs : List (Blk Var Val)) :
    Nat → St Var Val → Option (St Var Val)
  | 0, _ => none
  | n + 1, s => if stable (runList bs s) s then some (runList bs s) else sweepN stable bs n (runList bs s)

/-- whatever the stability test, a result of the loop is the result of the first sweep -/
theorem sweepN_eq (stable : St Var Val → St Var Val → Bool) (bs : List (Blk Var Val))
    (hwf : ∀ b ∈ bs, b.Wf) (hsw : SingleWriter bs) (htopo : Topo bs)
    (n : Nat) (s r : St Var Val) (h : sweepN stable bs n s = some r) : r = runList bs s := by
  induction n generalizing s with
  | zero => simp [sweepN] at h
  | succ n ih =>
    simp only [sweepN] at h
    split at h
    · exact (Option.some.inj h).symm
    · rw [ih _ h, settle_topo bs hwf hsw htopo]

/-- with a reflexive stability test the loop stops after at most two sweeps -/
theorem sweepN_terminates (stable : St Var Val → St Var Val → Bool) (hrefl : ∀ s, stable s s = true)
    (bs : List (Blk Var Val)) (hwf : ∀ b ∈ bs, b.Wf) (hsw : SingleWriter bs) (htopo : Topo bs)
    (n : Nat) (s : St Var Val) : sweepN stable bs (n + 2) s = some (runList bs s) := by
  simp only [sweepN]
  split
  · rfl
  · rw [settle_topo bs hwf hsw htopo, hrefl]
    simp

end PV.Sched

/-! ## flattened designs -/

namespace PV.SV
open PV.Sched

/-- what a store holds, as a function of the cell -/
def view (s : XS) : St Key Nat := fun k => s.σ.get k

section design
/- `vw` is the abstraction of a simulation state the blocks work on: the raw store `view`, or a
   restriction of it (e.g. every cell taken modulo the declared width of its variable, so that the
   bits above the width, which `poke` preserves, are not part of the state). -/
variable {Var Val : Type} (vw : XS → St Var Val)

/-- process `p` (under `castB`, `Γ`) is represented by block `b`: executing the body acts on the
    abstraction of the state as `b.run` -/
def Sim (castB : Bool) (Γ : Env) (p : Proc) (b : Blk Var Val) : Prop :=
  ∀ s : XS, vw (exec castB Γ p.body s) = b.run (vw s)

/-- the processes `ps` are represented, position by position, by the blocks `bs` -/
def Represents (castB : Bool) (Γ : Env) : List Proc → List (Blk Var Val) → Prop
  | [], [] => True
  | p :: ps, b :: bs => Sim vw castB Γ p b ∧ Represents castB Γ ps bs
  | _, _ => False

variable {vw} {castB : Bool} {Γ : Env} {ps : List Proc} {bs : List (Blk Var Val)}

theorem Represents.proc_has_blk
    (h : Represents vw castB Γ ps bs) {p : Proc} (hp : p ∈ ps) : ∃ b ∈ bs, Sim vw castB Γ p b := by
  induction ps generalizing bs with
  | nil => simp at hp
  | cons q ps ih =>
    cases bs with
    | nil => simp [Represents] at h
    | cons b bs =>
      simp only [Represents] at h
      rcases List.mem_cons.mp hp with rfl | hp'
      · exact ⟨b, by simp, h.1⟩
      · obtain ⟨c, hc, hs⟩ := ih h.2 hp'
        exact ⟨c, by simp [hc], hs⟩

theorem Represents.blk_has_proc
    (h : Represents vw castB Γ ps bs) {b : Blk Var Val} (hb : b ∈ bs) : ∃ p ∈ ps, Sim vw castB Γ p b := by
  induction ps generalizing bs with
  | nil => cases bs with
    | nil => simp at hb
    | cons _ _ => simp [Represents] at h
  | cons q ps ih =>
    cases bs with
    | nil => simp at hb
    | cons c bs =>
      simp only [Represents] at h
      rcases List.mem_cons.mp hb with rfl | hb'
      · exact ⟨q, by simp, h.1⟩
      · obtain ⟨p, hp, hs⟩ := ih h.2 hb'
        exact ⟨p, by simp [hp], hs⟩

/-- a sweep over the processes is a sweep over the representing blocks -/
theorem view_runProcs
    (h : Represents vw castB Γ ps bs) (s : XS) : vw (runProcs castB Γ ps s) = runList bs (vw s) := by
  induction ps generalizing bs s with
  | nil =>
    cases bs with
    | nil => rfl
    | cons _ _ => simp [Represents] at h
  | cons p ps ih =>
    cases bs with
    | nil => simp [Represents] at h
    | cons b bs =>
      simp only [Represents] at h
      have : runProcs castB Γ (p :: ps) s = runProcs castB Γ ps (exec castB Γ p.body s) := rfl
      rw [this, ih h.2, h.1 s, runList_cons]

/-- one sweep in a topological order reaches a store that no process changes -/
theorem design_fixed_point (hrep : Represents vw castB Γ ps bs) (hwf : ∀ b ∈ bs, b.Wf)
    (hsw : SingleWriter bs) (htopo : Topo bs) (s : XS) :
    ∀ p ∈ ps, vw (exec castB Γ p.body (runProcs castB Γ ps s)) = vw (runProcs castB Γ ps s) := by
  intro p hp
  obtain ⟨b, hb, hsim⟩ := hrep.proc_has_blk hp
  rw [hsim, view_runProcs hrep]
  exact fixed_point_of_topo bs hwf hsw htopo (vw s) b hb

/-- a second sweep changes nothing -/
theorem design_sweep_idempotent (hrep : Represents vw castB Γ ps bs) (hwf : ∀ b ∈ bs, b.Wf)
    (hsw : SingleWriter bs) (htopo : Topo bs) (s : XS) :
    vw (runProcs castB Γ ps (runProcs castB Γ ps s)) = vw (runProcs castB Γ ps s) := by
  rw [view_runProcs hrep, view_runProcs hrep]
  exact settle_topo bs hwf hsw htopo (vw s)

/-- **design_fixpoint_unique**: a state that no process changes and that agrees with `s` on the
    variables no process writes is the state after one topological sweep from `s` -/
theorem design_fixpoint_unique (hrep : Represents vw castB Γ ps bs) (hwf : ∀ b ∈ bs, b.Wf)
    (hsw : SingleWriter bs) (htopo : Topo bs) (s t : XS)
    (hin : ∀ k, (∀ b ∈ bs, ¬ b.W k) → vw t k = vw s k)
    (ht : ∀ p ∈ ps, vw (exec castB Γ p.body t) = vw t) :
    vw t = vw (runProcs castB Γ ps s) := by
  rw [view_runProcs hrep]
  apply settle_unique bs hwf hsw htopo (vw s) (vw t) hin
  intro b hb
  obtain ⟨p, hp, hsim⟩ := hrep.blk_has_proc hb
  rw [← hsim, ht p hp]

/-- any other topological order of the same processes settles to the same state -/
theorem design_order_independent (hrep : Represents vw castB Γ ps bs) (hwf : ∀ b ∈ bs, b.Wf)
    (hsw : SingleWriter bs) (htopo : Topo bs)
    {ps' : List Proc} {bs' : List (Blk Var Val)} (hrep' : Represents vw castB Γ ps' bs')
    (hperm : bs.Perm bs') (htopo' : Topo bs') (s : XS) :
    vw (runProcs castB Γ ps' s) = vw (runProcs castB Γ ps s) := by
  rw [view_runProcs hrep, view_runProcs hrep']
  exact (schedule_independent bs bs' hperm hwf hsw htopo htopo' (vw s)).symm

/-- **settleN_view**: whenever `settleN` returns (after however many sweeps), the state it returns
    is the unique fixed point, i.e. the state after the first sweep -/
theorem settleN_view (hrep : Represents vw castB Γ ps bs) (hwf : ∀ b ∈ bs, b.Wf)
    (hsw : SingleWriter bs) (htopo : Topo bs) (n : Nat) (s r : XS)
    (h : settleN castB Γ ps n s = some r) : vw r = vw (runProcs castB Γ ps s) := by
  induction n generalizing s with
  | zero => simp [settleN] at h
  | succ n ih =>
    simp only [settleN] at h
    split at h
    · rw [← Option.some.inj h]
    · rw [ih _ h]
      exact design_sweep_idempotent hrep hwf hsw htopo s

end design

/-! ### termination of `settleN` in two sweeps

`settleN` compares the association lists of the two stores. Equal values in all cells give equal
lists when the two lists have the same keys in the same order, without duplicates. -/

theorem getL_of_not_mem (k : Key) (l : List (Key × Nat)) (h : k ∉ l.map (·.1)) : Store.getL k l = 0 := by
  induction l with
  | nil => rfl
  | cons kv l ih =>
    obtain ⟨k', v⟩ := kv
    simp only [List.map_cons, List.mem_cons, not_or] at h
    simp only [Store.getL]
    rw [if_neg (fun e => h.1 e.symm)]
    exact ih h.2

theorem cells_eq_of_getL_eq (l l' : List (Key × Nat)) (hk : l.map (·.1) = l'.map (·.1))
    (hnd : (l.map (·.1)).Nodup) (hg : ∀ k, Store.getL k l = Store.getL k l') : l = l' := by
  induction l generalizing l' with
  | nil =>
    cases l' with
    | nil => rfl
    | cons _ _ => simp at hk
  | cons kv l ih =>
    cases l' with
    | nil => simp at hk
    | cons kv' l' =>
      obtain ⟨k, v⟩ := kv
      obtain ⟨k', v'⟩ := kv'
      simp only [List.map_cons, List.cons.injEq] at hk
      obtain ⟨hk1, hk2⟩ := hk
      subst hk1
      simp only [List.map_cons, List.nodup_cons] at hnd
      have hv : v = v' := by simpa [Store.getL] using hg k
      subst hv
      have : l = l' := by
        apply ih l' hk2 hnd.2
        intro k2
        by_cases e : k = k2
        · subst e
          rw [getL_of_not_mem k l hnd.1, getL_of_not_mem k l' (hk2 ▸ hnd.1)]
        · have := hg k2
          simpa [Store.getL, e] using this
      rw [this]

/-- **settleN_terminates**: if moreover, for the stores after the first and the second sweep, equal
    abstractions mean equal cell lists (`hinj`), `settleN` returns after at most two sweeps -/
theorem settleN_terminates {Var Val : Type} {vw : XS → St Var Val}
    {castB : Bool} {Γ : Env} {ps : List Proc} {bs : List (Blk Var Val)}
    (hrep : Represents vw castB Γ ps bs) (hwf : ∀ b ∈ bs, b.Wf)
    (hsw : SingleWriter bs) (htopo : Topo bs) (n : Nat) (s : XS)
    (hinj : vw (runProcs castB Γ ps (runProcs castB Γ ps s)) = vw (runProcs castB Γ ps s) →
      (runProcs castB Γ ps (runProcs castB Γ ps s)).σ.cells = (runProcs castB Γ ps s).σ.cells) :
    ∃ r, settleN castB Γ ps (n + 2) s = some r ∧ vw r = vw (runProcs castB Γ ps s) := by
  have hcells := hinj (design_sweep_idempotent hrep hwf hsw htopo s)
  have : ∃ r, settleN castB Γ ps (n + 2) s = some r := by
    simp only [settleN]
    split
    · exact ⟨_, rfl⟩
    · rw [hcells]; simp
  obtain ⟨r, hr⟩ := this
  exact ⟨r, hr, settleN_view hrep hwf hsw htopo _ s r hr⟩

/-- the same for the raw store view: it is enough that the second sweep creates no store cell (same
    keys, in the same order, no duplicates) -/
theorem settleN_terminates_raw {castB : Bool} {Γ : Env} {ps : List Proc} {bs : List (Blk Key Nat)}
    (hrep : Represents view castB Γ ps bs) (hwf : ∀ b ∈ bs, b.Wf)
    (hsw : SingleWriter bs) (htopo : Topo bs) (n : Nat) (s : XS)
    (hkeys : (runProcs castB Γ ps (runProcs castB Γ ps s)).σ.cells.map (·.1)
              = (runProcs castB Γ ps s).σ.cells.map (·.1))
    (hnd : ((runProcs castB Γ ps s).σ.cells.map (·.1)).Nodup) :
    ∃ r, settleN castB Γ ps (n + 2) s = some r ∧ view r = view (runProcs castB Γ ps s) :=
  settleN_terminates hrep hwf hsw htopo n s (fun hv =>
    cells_eq_of_getL_eq _ _ hkeys (hkeys ▸ hnd) (fun k => congrFun hv k))

/-! ### store lemmas -/

theorem getL_setL (k k' : Key) (v : Nat) (l : List (Key × Nat)) :
    Store.getL k' (Store.setL k v l) = if k' = k then v else Store.getL k' l := by
  induction l with
  | nil =>
    simp only [Store.setL, Store.getL]
    by_cases h : k' = k
    · subst h; simp
    · have h' : ¬ k = k' := fun e => h e.symm
      rw [if_neg h, if_neg h']
  | cons kv l ih =>
    obtain ⟨k2, v2⟩ := kv
    simp only [Store.setL]
    by_cases h : k2 = k
    · subst h
      simp only [if_true, Store.getL]
      by_cases h2 : k' = k2
      · subst h2; simp
      · have h' : ¬ k2 = k' := fun e => h2 e.symm
        rw [if_neg h2, if_neg h', if_neg h']
    · simp only [h, if_false, Store.getL, ih]
      by_cases h2 : k2 = k'
      · subst h2; simp [h]
      · simp [h2]

theorem get_set (σ : Store) (k k' : Key) (v : Nat) : (σ.set k v).get k' = if k' = k then v else σ.get k' :=
  getL_setL k k' v σ.cells

/-! ### non-vacuity: a two-process design  `assign b = a;  always_comb c = b + 8'd1;`

The abstraction is the store with every cell taken modulo 2^8 (all three variables are 8 bits wide);
with the raw `view` the blocks would not be well-formed, because `poke` keeps the bits of the old
value above the width of the target. -/

def exΓ : Env := fun x => if x = "a" ∨ x = "b" ∨ x = "c" then some ⟨.vec 8, []⟩ else none
def exP1 : Proc := ⟨.assign, "p1", .blocking (.ident "b") (.ident "a")⟩
def exP2 : Proc := ⟨.comb, "p2", .blocking (.ident "c") (.bin .add (.ident "b") (.lit 8 1))⟩
def mview (s : XS) : St Key Nat := fun k => s.σ.get k % 256
def exB1 : Blk Key Nat := ⟨fun k => k = ("a", 0), fun k => k = ("b", 0), fun t k => if k = ("b", 0) then t ("a", 0) else t k⟩
def exB2 : Blk Key Nat := ⟨fun k => k = ("b", 0), fun k => k = ("c", 0), fun t k => if k = ("c", 0) then (t ("b", 0) + 1) % 256 else t k⟩

theorem exSim1 (castB : Bool) : Sim mview castB exΓ exP1 exB1 := by
  intro s
  funext k
  simp [mview, exP1, exB1, exec, loc, exΓ, evalRhs, eval, evalC, signedOf, selfWidth, readLoc, writeLoc, Loc.width, PTy.width, get_set, poke]
  split <;> omega

theorem exSim2 (castB : Bool) : Sim mview castB exΓ exP2 exB2 := by
  intro s
  funext k
  simp [mview, exP2, exB2, exec, loc, exΓ, evalRhs, eval, evalC, signedOf, selfWidth, readLoc, writeLoc, Loc.width, PTy.width,
    get_set, poke, binVal]
  split <;> omega

theorem exWf1 : exB1.Wf := by
  refine ⟨?_, ?_, ?_⟩
  · intro s v hv; simp only [exB1] at hv ⊢; rw [if_neg hv]
  · intro s s' h v hv; simp only [exB1] at hv h ⊢; rw [if_pos hv, if_pos hv]; exact h _ rfl
  · intro v hr hw; simp only [exB1] at hr hw; rw [hr] at hw; simp at hw

theorem exWf2 : exB2.Wf := by
  refine ⟨?_, ?_, ?_⟩
  · intro s v hv; simp only [exB2] at hv ⊢; rw [if_neg hv]
  · intro s s' h v hv; simp only [exB2] at hv h ⊢; rw [if_pos hv, if_pos hv, h _ rfl]
  · intro v hr hw; simp only [exB2] at hr hw; rw [hr] at hw; simp at hw

theorem exRep (castB : Bool) : Represents mview castB exΓ [exP1, exP2] [exB1, exB2] :=
  ⟨exSim1 castB, exSim2 castB, trivial⟩

theorem exSW : SingleWriter [exB1, exB2] := by simp [SingleWriter, exB1, exB2]

theorem exTopo : Topo [exB1, exB2] := by simp [Topo, exB1, exB2]

/-- the other order is not topological: the hypothesis `Topo` can fail -/
example : ¬ Topo [exB2, exB1] := by simp [Topo, exB1, exB2]

example (castB : Bool) (s : XS) :
    mview (runProcs castB exΓ [exP1, exP2] (runProcs castB exΓ [exP1, exP2] s))
      = mview (runProcs castB exΓ [exP1, exP2] s) :=
  design_sweep_idempotent (exRep castB) (by simp [exWf1, exWf2]) exSW exTopo s

example (castB : Bool) (n : Nat) (s r : XS) (h : settleN castB exΓ [exP1, exP2] n s = some r) :
    mview r ("c", 0) = (s.σ.get ("a", 0) % 256 + 1) % 256 := by
  rw [settleN_view (exRep castB) (by simp [exWf1, exWf2]) exSW exTopo n s r h,
    view_runProcs (exRep castB)]
  simp [runList, exB1, exB2, mview]

end PV.SV
