import PymtlVerif.Proofs.SV
/-
C03 / C12, statements: semantic preservation of `PV.VTr.trStmt` for loop-free statements
(`stmt_correct`), the order of the non-blocking updates (`commit_append`), and the SystemVerilog
`for` loop emitted by the SystemVerilog backend (`for_correct`).  Core Lean only.
-/
namespace PV.SVProofs
open PV.SV PV.VTr

/-! ### non-blocking updates -/

theorem commit_app (σ : Store) (a b : NBA) : commit σ (a ++ b) = commit (commit σ a) b := by
  induction a generalizing σ with
  | nil => rfl
  | cons p a ih => obtain ⟨l, v⟩ := p; simp [commit, ih]

/-- the pending updates are applied oldest first: the update appended last is applied last (so the
    last non-blocking assignment to a location wins) -/
theorem commit_append (σ : Store) (nba : NBA) (l : Loc) (v : Nat) :
    commit σ (nba ++ [(l, v)]) = writeLoc (commit σ nba) l v := by
  rw [commit_app]; rfl

/-- after the commit, a location written last holds the value written last -/
theorem commit_last (σ : Store) (nba : NBA) (l : Loc) (v : Nat) (hok : l.ok = true) (hd : l.dims = []) :
    readLoc (commit σ (nba ++ [(l, v)])) l = v % 2 ^ l.ty.width := by
  rw [commit_append, readLoc_writeLoc _ _ _ hok hd]

/-! ### the variable at the root of an assignment target -/

def root : RExpr → String
  | .sig x _ => x
  | .tmpvar x _ _ => x
  | .field e _ _ => root e
  | .index e _ _ => root e
  | .slice e _ _ _ _ => root e
  | .partsel e _ _ => root e
  | _ => ""

theorem refPy_root {be : Backend} {Γ : Env} {σ : Store} {e : RExpr} {l : Loc}
    (h : refPy be Γ σ e = some l) : l.x = root e := by
  induction e generalizing l with
  | sig x w => simp only [refPy] at h; split at h <;> simp at h; subst h; rfl
  | tmpvar x w ex => simp only [refPy] at h; split at h <;> simp at h; subst h; rfl
  | field e f w ih =>
    simp only [refPy] at h
    split at h
    · next hre => split at h <;> simp at h; subst h; have := ih hre; exact this
    · simp at h
  | index e i w ih _ =>
    simp only [refPy] at h
    split at h
    all_goals first | (simp at h; done) | (next hre _ => split at h <;> simp at h; subst h; have := ih hre; exact this)
  | slice e lo hi lw uw ih =>
    simp only [refPy] at h
    split at h
    · next hre => split at h <;> simp at h; subst h; have := ih hre; exact this
    · simp at h
  | partsel e b w ih _ =>
    simp only [refPy] at h
    split at h
    · next hre _ => split at h <;> simp at h; subst h; have := ih hre; exact this
    · simp at h
  | _ => simp [refPy] at h

theorem trLhs_of_WTm {be Γ C d e} (h : WTm be Γ C (some d) e) : trLhs be e = tr be e := by
  cases h <;> simp [trLhs, tr]

/-! ### (3) loop-free statements -/

/-- typing invariant of loop-free statements.  An assignment target is a fully selected signal (no
    unpacked dimension left) of the width of the right-hand side, and is not a constant. -/
inductive WTs (be : Backend) (Γ : Env) (C : List (String × Nat)) : RStmt → Prop
  | skip : WTs be Γ C .skip
  | assign {blk l r ty} : WTm be Γ C (some ⟨ty, []⟩) l → WT be Γ C r → r.width = ty.width →
      (∀ v, (root l, v) ∉ C) → WTs be Γ C (.assign blk l r)
  | assignTmp {blk x w r ty} : Γ x = some ⟨ty, []⟩ → ty.width = w → WT be Γ C r → r.width = w →
      (∀ v, (x, v) ∉ C) → WTs be Γ C (.assign blk (.tmpvar x w false) r)
  | ite {c t e} : WT be Γ C c → WTs be Γ C t → WTs be Γ C e → WTs be Γ C (.ite c t e)
  | seq {a b} : WTs be Γ C a → WTs be Γ C b → WTs be Γ C (.seq a b)

theorem holdsC_writeLoc {σ : Store} {C : List (String × Nat)} (hC : HoldsC σ C) (l : Loc) (v : Nat)
    (hx : ∀ v, (l.x, v) ∉ C) : HoldsC (writeLoc σ l v) C := by
  intro x c hm
  rw [get_writeLoc_ne _ _ _ _ (by intro hxe; simp at hxe; subst hxe; exact hx c hm)]
  exact hC x c hm

/-- assignment, given that the target resolves to the same location on both sides -/
theorem assign_correct {be : Backend} {cb : Bool} {Γ : Env} {C : List (String × Nat)} {blk : Bool}
    {l r : RExpr} {xs xs' : XS} (hC : HoldsC xs.σ C) (hr : WT be Γ C r) (hsr : signSafe be r = true)
    (hl : ∀ lc, refPy be Γ xs.σ l = some lc →
      loc cb Γ xs.σ (trLhs be l) = some lc ∧ lc.ty.width = r.width ∧ ∀ v, (lc.x, v) ∉ C)
    (h : execPy be Γ (.assign blk l r) xs = some xs') :
    exec cb Γ (trStmt be (.assign blk l r)) xs = xs' ∧ HoldsC xs'.σ C := by
  cases hre : refPy be Γ xs.σ l with
  | none => simp [execPy, hre] at h
  | some lc =>
  cases hev : evalPy be Γ xs.σ r with
  | none => simp [execPy, hre, hev] at h
  | some v =>
    obtain ⟨l1, l2, l3⟩ := hl lc hre
    obtain ⟨r1, r2, r3⟩ := expr_correct be cb Γ C xs.σ hC hr hsr hev
    have hrhs : evalRhs cb Γ xs.σ lc.width (tr be r) = v := by
      simp [evalRhs, Loc.width, l2, r2, r1, Nat.mod_eq_of_lt r3]
    rw [← l2] at r3
    cases blk with
    | true =>
      simp [execPy, hre, hev, r3] at h; subst h
      simp only [trStmt, exec, l1, hrhs, true_and]
      exact holdsC_writeLoc hC lc v l3
    | false =>
      simp [execPy, hre, hev, r3] at h; subst h
      simp only [trStmt, exec, l1, hrhs, true_and]
      exact hC

/-- **Semantic preservation for loop-free statements.**  If the PyMTL simulation executes the
    statement without exception from `xs` to `xs'`, the emitted statement takes `xs` to `xs'` (store,
    pending non-blocking updates) under either reading `cb` of the size cast; the constants keep their
    values.  `hs`: `signSafe` for every expression of the statement (free for the SystemVerilog backend). -/
theorem stmt_correct (be : Backend) (cb : Bool) (Γ : Env) (C : List (String × Nat)) {s : RStmt}
    (hwt : WTs be Γ C s) (hs : signSafeS be s = true) {xs xs' : XS} (h : execPy be Γ s xs = some xs')
    (hC : HoldsC xs.σ C) :
    exec cb Γ (trStmt be s) xs = xs' ∧ HoldsC xs'.σ C := by
  induction hwt generalizing xs xs' with
  | skip => simp [execPy] at h; subst h; exact ⟨rfl, hC⟩
  | @assign blk l r ty hl hr hw hx =>
    simp [signSafeS] at hs
    apply assign_correct hC hr hs.2 _ h
    intro lc hre
    obtain ⟨h1, h2, h3, h4, h5⟩ := ref_correctT be cb Γ C xs.σ hC hl hs.1 hre
    refine ⟨by rw [trLhs_of_WTm hl]; exact h1, by rw [h3, hw], ?_⟩
    rw [refPy_root hre]; exact hx
  | @assignTmp blk x w r ty hx hw hr hrw hnc =>
    simp [signSafeS] at hs
    apply assign_correct hC hr hs.2 _ h
    intro lc hre
    simp [refPy, hx] at hre; subst hre
    exact ⟨by simp [trLhs, loc, hx], by simp [hw, hrw], hnc⟩
  | @ite c t e hc _ _ iht ihe =>
    simp [signSafeS] at hs
    cases hev : evalPy be Γ xs.σ c with
    | none => simp [execPy, hev] at h
    | some vc =>
      obtain ⟨c1, c2, c3⟩ := expr_correct be cb Γ C xs.σ hC hc hs.1.1 hev
      simp [execPy, hev] at h
      by_cases hz : vc = 0
      · simp [hz] at h
        simp only [trStmt, exec, c2, c1, hz]
        exact ihe hs.2 h hC
      · simp [hz] at h
        simp only [trStmt, exec, c2, c1]
        simp only [ne_eq, hz, not_false_eq_true, if_true]
        exact iht hs.1.2 h hC
  | @seq a b _ _ iha ihb =>
    simp [signSafeS] at hs
    cases hea : execPy be Γ a xs with
    | none => simp [execPy, hea] at h
    | some xs1 =>
      simp [execPy, hea] at h
      obtain ⟨a1, a2⟩ := iha hs.1 hea hC
      simp only [trStmt, exec, a1]
      exact ihb hs.2 h a2

-- #print axioms PV.SVProofs.stmt_correct
-- #print axioms PV.SVProofs.commit_append
-- #print axioms PV.SVProofs.commit_last

end PV.SVProofs
