import PymtlVerif.Proofs.PipeRef3
/-!
LEVEL 3, part 4: the fetch path (two-entry request queue -> memory -> one-entry response queue -> drop
unit) is a FIFO (`fetch_fifo`); preservation of the fetch accounting clauses `fw`, `q1` of `Inv`: at most
two fetches are outstanding (the awaited squashed one and the current one), so the request queue
never refuses a request and no response is ever attributed to the wrong fetch.
-/
namespace PV.Pipe
open PV.TinyRV0 (W32 Mem loadWord storeWord rget rset)

section step
variable {p : Prog} {N : Nat} {s : State} {E : Env} {c : Nat} {i : EnvIn}

/-- request side of the fetch path: what goes out to the memory plus what stays in the two-entry request
queue is what was there plus the new request -/
theorem reqq_conserve (hr : i.reset = false) :
    (if q2_deq_en s i then [q2_deq_msg s] else []) ++
      ((if (next s i).q2_full then [(next s i).q2_buf] else []) ++ (if (next s i).q1_full then [(next s i).q1_buf] else [])) =
    ((if s.q2_full then [s.q2_buf] else []) ++ (if s.q1_full then [s.q1_buf] else [])) ++
      (if imemreq_en s i then [imemreq_addr s] else []) := by
  have hx : imemreq_en s i = true → s.q1_full = false := by
    intro h; simp [imemreq_en, imemreq_rdy] at h; exact h.2
  have e1 : (next s i).q1_full = ((imemreq_en s i || s.q1_full) && !q1_deq_en s i) := by simp [next, hr]
  have e2 : (next s i).q1_buf = if imemreq_en s i && !q1_deq_en s i then imemreq_addr s else s.q1_buf := rfl
  have e3 : (next s i).q2_full = ((q1_deq_en s i || s.q2_full) && !q2_deq_en s i) := by simp [next, hr]
  have e4 : (next s i).q2_buf = if q1_deq_en s i && !q2_deq_en s i then q1_deq_msg s else s.q2_buf := rfl
  rw [e1, e2, e3, e4]
  simp only [q2_deq_en, q2_deq_msg, q1_deq_en, q1_deq_msg, q1_deq_rdy]
  rcases Bool.eq_false_or_eq_true (imemreq_en s i) with a | a <;>
  rcases Bool.eq_false_or_eq_true s.q1_full with b | b <;>
  rcases Bool.eq_false_or_eq_true s.q2_full with d | d <;>
  rcases Bool.eq_false_or_eq_true i.imem_req_rdy with e | e <;>
  simp_all

/-- response side: response queue ++ words owed by the memory -/
theorem respq_conserve (hE : envOk p E i (out s i)) :
    let Rs := (if s.imemresp_q.full then [s.imemresp_q.entry] else []) ++ E.ipend.map (loadWord p.mem0)
    let Rs' := (if (next s i).imemresp_q.full then [(next s i).imemresp_q.entry] else []) ++
      (if i.imem_resp_en then E.ipend.tail else E.ipend).map (loadWord p.mem0)
    (drop_in_rdy s i = true → Rs = imemresp_data s i :: Rs.tail) ∧
    Rs' = if drop_in_en s i && drop_in_rdy s i then Rs.tail else Rs := by
  have hr := hE.1
  obtain ⟨_, him, _, _⟩ := hE
  have eq : (next s i).imemresp_q = s.imemresp_q.next i.reset i.imem_resp_en i.imem_resp_data (drop_in_en s i) := rfl
  simp only [eq, drop_in_rdy, BypQ.deq_rdy, imemresp_data, BypQ.deq_ret, hr]
  rcases Bool.eq_false_or_eq_true i.imem_resp_en with he | he
  · obtain ⟨hrdy, a, rest, h1, h2⟩ := him he
    have hf : s.imemresp_q.full = false := by simp [out, BypQ.enq_rdy] at hrdy; exact hrdy.2
    rcases Bool.eq_false_or_eq_true (drop_in_en s i) with d | d <;> simp [BypQ.next, he, hf, h1, h2, d]
  · rcases Bool.eq_false_or_eq_true (drop_in_en s i) with d | d <;>
    rcases Bool.eq_false_or_eq_true s.imemresp_q.full with f | f <;> simp [BypQ.next, he, d, f]

/-- the whole fetch path is a FIFO: the head leaves when the drop unit takes a response, a new request
joins at the tail -/
theorem fetch_fifo (hE : envOk p E i (out s i)) :
    (drop_in_rdy s i = true → fetchWords p s E = imemresp_data s i :: (fetchWords p s E).tail) ∧
    fetchWords p (next s i) (envNext E i (out s i)) =
      (if drop_in_en s i && drop_in_rdy s i then (fetchWords p s E).tail else fetchWords p s E) ++
      (if imemreq_en s i then [loadWord p.mem0 (imemreq_addr s)] else []) := by
  have hr := hE.1
  obtain ⟨hhead, hresp⟩ := respq_conserve hE
  have hreq := reqq_conserve (s := s) (i := i) hr
  have eip : (envNext E i (out s i)).ipend =
      (if i.imem_resp_en then E.ipend.tail else E.ipend) ++ (if q2_deq_en s i then [q2_deq_msg s] else []) := rfl
  have hne : drop_in_rdy s i = true →
      (if s.imemresp_q.full then [s.imemresp_q.entry] else []) ++ E.ipend.map (loadWord p.mem0) ≠ [] := by
    intro h; rw [hhead h]; simp
  constructor
  · intro h
    have h1 := hhead h
    have h2 := hne h
    unfold fetchWords
    rw [List.map_append, List.map_append, ← List.append_assoc, ← List.append_assoc]
    generalize (if s.imemresp_q.full then [s.imemresp_q.entry] else []) ++ E.ipend.map (loadWord p.mem0) = Rs at *
    cases Rs with
    | nil => exact absurd rfl h2
    | cons x xs => simp at h1 ⊢; exact h1
  · unfold fetchWords
    rw [eip]
    have hreq' := congrArg (List.map (loadWord p.mem0)) hreq
    simp only [List.map_append] at hreq' ⊢
    have hN : List.map (loadWord p.mem0) (if imemreq_en s i = true then [imemreq_addr s] else []) =
        if imemreq_en s i = true then [loadWord p.mem0 (imemreq_addr s)] else [] := by
      split <;> rfl
    rw [hN] at hreq'
    generalize (if imemreq_en s i = true then [loadWord p.mem0 (imemreq_addr s)] else []) = Nw at *
    generalize List.map (loadWord p.mem0) (if q2_deq_en s i = true then [q2_deq_msg s] else []) = O at *
    generalize List.map (loadWord p.mem0) (if (next s i).q2_full = true then [(next s i).q2_buf] else []) = Q2' at *
    generalize List.map (loadWord p.mem0) (if (next s i).q1_full = true then [(next s i).q1_buf] else []) = Q1' at *
    generalize List.map (loadWord p.mem0) (if s.q2_full = true then [s.q2_buf] else []) = Q2 at *
    generalize List.map (loadWord p.mem0) (if s.q1_full = true then [s.q1_buf] else []) = Q1 at *
    generalize List.map (loadWord p.mem0) (if i.imem_resp_en = true then E.ipend.tail else E.ipend) = B' at *
    generalize (if (next s i).imemresp_q.full = true then [(next s i).imemresp_q.entry] else []) = A' at *
    have L : A' ++ (B' ++ O ++ Q2' ++ Q1') = (A' ++ B') ++ (O ++ (Q2' ++ Q1')) := by simp only [List.append_assoc]
    rw [L, hresp, hreq']
    rcases Bool.eq_false_or_eq_true (drop_in_en s i && drop_in_rdy s i) with h | h
    · have hd : drop_in_rdy s i = true := by simp at h; exact h.2
      have h2 := hne hd
      simp only [h, if_true]
      rw [show (if s.imemresp_q.full = true then [s.imemresp_q.entry] else []) ++
          (List.map (loadWord p.mem0) E.ipend ++ Q2 ++ Q1) =
          ((if s.imemresp_q.full = true then [s.imemresp_q.entry] else []) ++ List.map (loadWord p.mem0) E.ipend) ++ (Q2 ++ Q1)
          by simp only [List.append_assoc]]
      generalize (if s.imemresp_q.full then [s.imemresp_q.entry] else []) ++ E.ipend.map (loadWord p.mem0) = Rs at *
      cases Rs with
      | nil => exact absurd rfl h2
      | cons x xs => simp
    · simp [h]


theorem fw_len (p : Prog) (s : State) (E : Env) : (fetchWords p s E).length =
    s.imemresp_q.full.toNat + E.ipend.length + s.q2_full.toNat + s.q1_full.toNat := by
  unfold fetchWords
  rcases Bool.eq_false_or_eq_true s.imemresp_q.full with a | a <;>
  rcases Bool.eq_false_or_eq_true s.q2_full with b | b <;>
  rcases Bool.eq_false_or_eq_true s.q1_full with d | d <;> simp [a, b, d] <;> omega

theorem no_resp_of_empty (hE : envOk p E i (out s i)) (h1 : s.imemresp_q.full = false) (h2 : E.ipend = []) :
    drop_in_rdy s i = false := by
  obtain ⟨_, him, _, _⟩ := hE
  rcases Bool.eq_false_or_eq_true i.imem_resp_en with he | he
  · obtain ⟨_, a, rest, h3, _⟩ := him he; rw [h2] at h3; cases h3
  · simp [drop_in_rdy, BypQ.deq_rdy, h1, he]

theorem empty_of_len (p : Prog) (s : State) (E : Env)
    (h : (fetchWords p s E).length ≤ s.q2_full.toNat + s.q1_full.toNat) :
    s.imemresp_q.full = false ∧ E.ipend = [] := by
  rw [fw_len] at h
  constructor
  · rcases Bool.eq_false_or_eq_true s.imemresp_q.full with f | f
    · simp [f] at h; omega
    · exact f
  · apply List.eq_nil_of_length_eq_zero; omega

/-- the fetch-path clauses `fw` and `q1` of `Inv` -/
theorem fw_q1_next (I : Inv p N s E c) (hE : envOk p E i (out s i)) :
    (∃ junk, fetchWords p (next s i) (envNext E i (out s i)) =
      (if (next s i).drop_wait then [junk] else []) ++
      (if (next s i).val_F then [loadWord p.mem0 (next s i).pc_F] else [])) ∧
    ((next s i).q1_full = true → (next s i).drop_wait = true) := by
  have hr := hE.1
  obtain ⟨hF, _, _, _, _, hWt⟩ := next_vals s i hr
  obtain ⟨hhead, hfifo⟩ := fetch_fifo (p := p) hE
  obtain ⟨junk, hfw⟩ := I.fw
  have hlen := fw_len p s E
  have epc : (next s i).pc_F = if reg_en_F s i then imemreq_addr s else s.pc_F := by simp [next, hr]
  have eq1 : (next s i).q1_full = ((imemreq_en s i || s.q1_full) && s.q2_full) := by
    simp [next, hr, q1_deq_en, q1_deq_rdy]
    rcases Bool.eq_false_or_eq_true (imemreq_en s i) with a | a <;>
    rcases Bool.eq_false_or_eq_true s.q1_full with b | b <;>
    rcases Bool.eq_false_or_eq_true s.q2_full with d | d <;> simp [a, b, d]
  have eie : imemreq_en s i = (reg_en_F s i && !s.q1_full) := by simp [imemreq_en, hr, reg_en_F, imemreq_rdy]
  rw [hfifo, hF, hWt, epc, eq1]
  rcases Bool.eq_false_or_eq_true s.drop_wait with hw | hw
  · -- WAIT: F stalls, nothing is issued; the awaited response is dropped when it comes
    obtain ⟨hd, hx⟩ := I.wt hw
    have hvF : s.val_F = true := by
      rcases Bool.eq_false_or_eq_true s.val_F with a | a
      · exact a
      · have := (I.f0 a).2.2.2.2.1; rw [hw] at this; cases this
    have hsF := stall_F_of_wait s i hw hvF
    have hqF := squash_F_of_val_X s i hx
    have hen : reg_en_F s i = false := by simp [reg_en_F, hsF, hqF]
    have hde : drop_in_en s i = drop_in_rdy s i := by simp [drop_in_en, hw]
    simp only [hw, hvF, if_true] at hfw
    rw [eie, hen, hde, hfw]
    rcases Bool.eq_false_or_eq_true (drop_in_rdy s i) with a | a
    · refine ⟨⟨0, by simp [hw, a, hvF]⟩, ?_⟩
      intro h; simp at h
      obtain ⟨h1, h2⟩ := empty_of_len p s E (by rw [hfw]; simp [h.1, h.2])
      rw [no_resp_of_empty hE h1 h2] at a; cases a
    · refine ⟨⟨junk, by simp [hw, a, hvF]⟩, ?_⟩
      intro _; simp [hw, a]
  · simp only [hw, Bool.false_eq_true, if_false, List.nil_append] at hfw
    have hq1 : s.q1_full = false := by
      rcases Bool.eq_false_or_eq_true s.q1_full with a | a
      · have := I.q1 a; rw [hw] at this; cases this
      · exact a
    rw [eie, hq1]
    simp only [hw, Bool.false_eq_true, if_false, Bool.not_false, Bool.and_true, Bool.or_false]
    rcases Bool.eq_false_or_eq_true s.val_F with hvF | hvF
    · simp only [hvF, if_true] at hfw
      rcases Bool.eq_false_or_eq_true (squash_F s i) with hq | hq
      · -- squash: the old fetch is dropped now or awaited; the redirected fetch is issued
        have hen : reg_en_F s i = true := by simp [reg_en_F, hq]
        have hde : drop_in_en s i = true := by simp [drop_in_en, hw, imemresp_en, hq]
        rw [hen, hde, hfw, hq]
        rcases Bool.eq_false_or_eq_true (drop_in_rdy s i) with a | a
        · refine ⟨⟨0, by simp [a]⟩, ?_⟩
          intro h; simp at h
          obtain ⟨h1, h2⟩ := empty_of_len p s E (by rw [hfw]; simp [h])
          rw [no_resp_of_empty hE h1 h2] at a; cases a
        · refine ⟨⟨loadWord p.mem0 s.pc_F, by simp [a]⟩, ?_⟩
          intro _; simp [a]
      · rcases Bool.eq_false_or_eq_true (stall_F s i) with hs | hs
        · -- F waits for its response
          have hen : reg_en_F s i = false := by simp [reg_en_F, hq, hs]
          have hde : drop_in_en s i = false := by simp [drop_in_en, hw, imemresp_en, hq, hs]
          rw [hen, hde, hfw, hq]
          exact ⟨⟨0, by simp [hvF]⟩, by simp⟩
        · -- the response goes to D, the next fetch is issued
          have hnv : next_val_F s i = true := by simp [next_val_F, hvF, hs, hq]
          obtain ⟨hrdy, _⟩ := drop_in_rdy_of_next_val_F s i hnv
          have hen : reg_en_F s i = true := by simp [reg_en_F, hs]
          have hde : drop_in_en s i = true := by simp [drop_in_en, hw, imemresp_en, hs]
          rw [hen, hde, hfw, hq, hrdy]
          refine ⟨⟨0, by simp⟩, ?_⟩
          intro h; simp at h
          obtain ⟨h1, h2⟩ := empty_of_len p s E (by rw [hfw]; simp [h])
          rw [no_resp_of_empty hE h1 h2] at hrdy; cases hrdy
    · -- nothing fetched yet: the first fetch is issued
      simp only [hvF, Bool.false_eq_true, if_false] at hfw
      have hen : reg_en_F s i = true := by simp [reg_en_F, stall_F, hvF]
      have hq : squash_F s i = false := by simp [squash_F, hvF]
      have hrdy : drop_in_rdy s i = false := by
        rcases Bool.eq_false_or_eq_true (drop_in_rdy s i) with a | a
        · have := hhead a; rw [hfw] at this; cases this
        · exact a
      rw [hen, hfw, hq, hrdy]
      refine ⟨⟨0, by simp⟩, ?_⟩
      intro h; simp at h
      rw [hfw] at hlen; simp [h] at hlen; omega

end step
end PV.Pipe
