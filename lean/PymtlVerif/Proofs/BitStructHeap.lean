import PymtlVerif.Proofs.BitStruct
/-!
Helper lemmas about the heap part of `Model/BitStruct.lean` (core Lean only): frame properties of
`build` / `clone` / the statement lists of `@=`, `<<=` and `_flip`.
-/
namespace PV.BitStruct
open PV.Bits (B Reg)

/-- all leaf objects of the instance exist in the heap -/
def InHeap (h : Heap) (i : Inst) : Prop := ∀ c ∈ cells i, c < h.size

/-- no leaf object of `a` is a leaf object of `b` -/
def Disj (a b : Inst) : Prop := ∀ c ∈ cells a, c ∉ cells b

theorem Disj.symm {a b : Inst} (h : Disj a b) : Disj b a := fun c hb ha => h c ha hb

/-! ### reading depends only on the instance's own cells -/

theorem read_congr (h h' : Heap) (i : Inst) (H : ∀ c ∈ cells i, (h'.cell c).cur = (h.cell c).cur) :
    read h' i = read h i := by
  induction i with
  | leaf c => simp [read, H c (by simp [cells])]
  | unit => rfl
  | anil => rfl
  | pair a b iha ihb =>
    simp only [read]
    rw [iha (fun c hc => H c (by simp [cells, hc])), ihb (fun c hc => H c (by simp [cells, hc]))]
  | acons a b iha ihb =>
    simp only [read]
    rw [iha (fun c hc => H c (by simp [cells, hc])), ihb (fun c hc => H c (by simp [cells, hc]))]

theorem readNext_congr (h h' : Heap) (i : Inst)
    (H : ∀ c ∈ cells i, (h'.cell c).next = (h.cell c).next ∧ (h'.cell c).cur.n = (h.cell c).cur.n) :
    readNext h' i = readNext h i := by
  induction i with
  | leaf c => simp [readNext, H c (by simp [cells])]
  | unit => rfl
  | anil => rfl
  | pair a b iha ihb =>
    simp only [readNext]
    rw [iha (fun c hc => H c (by simp [cells, hc])), ihb (fun c hc => H c (by simp [cells, hc]))]
  | acons a b iha ihb =>
    simp only [readNext]
    rw [iha (fun c hc => H c (by simp [cells, hc])), ihb (fun c hc => H c (by simp [cells, hc]))]

@[simp] theorem upd_cell_same (h : Heap) (c : Nat) (r : Reg) : (h.upd c r).cell c = r := by simp [Heap.upd]
theorem upd_cell_ne (h : Heap) (c d : Nat) (r : Reg) (hne : d ≠ c) : (h.upd c r).cell d = h.cell d := by
  simp [Heap.upd, hne]
@[simp] theorem upd_size (h : Heap) (c : Nat) (r : Reg) : (h.upd c r).size = h.size := rfl

/-- a write to a cell that is not a leaf of `i` is invisible through `i` -/
theorem read_upd_of_not_mem (h : Heap) (i : Inst) (c : Nat) (r : Reg) (hc : c ∉ cells i) :
    read (h.upd c r) i = read h i := by
  apply read_congr
  intro d hd
  have : d ≠ c := fun e => hc (e ▸ hd)
  rw [upd_cell_ne _ _ _ _ this]

/-! ### allocation: `build` and `clone` -/

theorem alloc_spec (h : Heap) (r : Reg) :
    (h.alloc r).1.size = h.size + 1 ∧ (h.alloc r).2 = h.size ∧ (h.alloc r).1.cell h.size = r ∧
    ∀ c, c ≠ h.size → (h.alloc r).1.cell c = h.cell c := by
  refine ⟨rfl, rfl, by simp [Heap.alloc], ?_⟩
  intro c hc; simp [Heap.alloc, hc]

structure Fresh (h h' : Heap) (i : Inst) : Prop where
  size_le : h.size ≤ h'.size
  old : ∀ c, c < h.size → h'.cell c = h.cell c
  range : ∀ c ∈ cells i, h.size ≤ c ∧ c < h'.size
  nodup : (cells i).Nodup
  next_none : ∀ c ∈ cells i, (h'.cell c).next = none

theorem nodup_append_of_ranges (xs ys : List Nat) (m : Nat) (hx : xs.Nodup) (hy : ys.Nodup)
    (h1 : ∀ c ∈ xs, c < m) (h2 : ∀ c ∈ ys, m ≤ c) : (xs ++ ys).Nodup := by
  rw [List.nodup_append]
  refine ⟨hx, hy, ?_⟩
  intro a ha b hb e
  have := h1 a ha; have := h2 b hb; omega

theorem build_spec (h : Heap) (v : Val) :
    Fresh h (build h v).1 (build h v).2 ∧ read (build h v).1 (build h v).2 = v := by
  induction v generalizing h with
  | bits n x =>
    obtain ⟨s1, s2, s3, s4⟩ := alloc_spec h ⟨⟨n, x⟩, none⟩
    simp only [build]
    refine ⟨⟨by omega, ?_, ?_, by simp [cells], ?_⟩, ?_⟩
    · intro c hc; exact s4 c (by omega)
    · intro c hc; simp only [cells, List.mem_singleton] at hc; subst hc; rw [s2]; omega
    · intro c hc; simp only [cells, List.mem_singleton] at hc; subst hc; rw [s2, s3]
    · simp only [read]; rw [s2, s3]
  | unit => exact ⟨⟨Nat.le_refl _, fun _ _ => rfl, by simp [build, cells], by simp [build, cells], by simp [build, cells]⟩, rfl⟩
  | anil => exact ⟨⟨Nat.le_refl _, fun _ _ => rfl, by simp [build, cells], by simp [build, cells], by simp [build, cells]⟩, rfl⟩
  | pair a b iha ihb =>
    obtain ⟨fa, ra⟩ := iha h
    obtain ⟨fb, rb⟩ := ihb (build h a).1
    simp only [build]
    have keep : ∀ c ∈ cells (build h a).2, (build (build h a).1 b).1.cell c = (build h a).1.cell c :=
      fun c hc => fb.old c (fa.range c hc).2
    refine ⟨⟨Nat.le_trans fa.size_le fb.size_le, ?_, ?_, ?_, ?_⟩, ?_⟩
    · intro c hc; rw [fb.old c (by have := fa.size_le; omega), fa.old c hc]
    · intro c hc; simp only [cells, List.mem_append] at hc
      rcases hc with hc | hc
      · have := fa.range c hc; have := fb.size_le; omega
      · have := fb.range c hc; have := fa.size_le; omega
    · simp only [cells]
      exact nodup_append_of_ranges _ _ (build h a).1.size fa.nodup fb.nodup
        (fun c hc => (fa.range c hc).2) (fun c hc => (fb.range c hc).1)
    · intro c hc; simp only [cells, List.mem_append] at hc
      rcases hc with hc | hc
      · rw [keep c hc]; exact fa.next_none c hc
      · exact fb.next_none c hc
    · simp only [read]
      rw [rb, read_congr (build h a).1 (build (build h a).1 b).1 (build h a).2 (fun c hc => by rw [keep c hc]), ra]
  | acons a b iha ihb =>
    obtain ⟨fa, ra⟩ := iha h
    obtain ⟨fb, rb⟩ := ihb (build h a).1
    simp only [build]
    have keep : ∀ c ∈ cells (build h a).2, (build (build h a).1 b).1.cell c = (build h a).1.cell c :=
      fun c hc => fb.old c (fa.range c hc).2
    refine ⟨⟨Nat.le_trans fa.size_le fb.size_le, ?_, ?_, ?_, ?_⟩, ?_⟩
    · intro c hc; rw [fb.old c (by have := fa.size_le; omega), fa.old c hc]
    · intro c hc; simp only [cells, List.mem_append] at hc
      rcases hc with hc | hc
      · have := fa.range c hc; have := fb.size_le; omega
      · have := fb.range c hc; have := fa.size_le; omega
    · simp only [cells]
      exact nodup_append_of_ranges _ _ (build h a).1.size fa.nodup fb.nodup
        (fun c hc => (fa.range c hc).2) (fun c hc => (fb.range c hc).1)
    · intro c hc; simp only [cells, List.mem_append] at hc
      rcases hc with hc | hc
      · rw [keep c hc]; exact fa.next_none c hc
      · exact fb.next_none c hc
    · simp only [read]
      rw [rb, read_congr (build h a).1 (build (build h a).1 b).1 (build h a).2 (fun c hc => by rw [keep c hc]), ra]

/-- cloning = constructing a new instance from the visible value, leaf by leaf -/
theorem clone_eq_build (h : Heap) (i : Inst) (hin : InHeap h i) : clone h i = build h (read h i) := by
  induction i generalizing h with
  | leaf c => simp [clone, build, read]
  | unit => rfl
  | anil => rfl
  | pair a b iha ihb =>
    have ha : InHeap h a := fun c hc => hin c (by simp [cells, hc])
    have hb : InHeap h b := fun c hc => hin c (by simp [cells, hc])
    obtain ⟨fa, _⟩ := build_spec h (read h a)
    have hb' : InHeap (build h (read h a)).1 b := fun c hc => Nat.lt_of_lt_of_le (hb c hc) fa.size_le
    have e : read (build h (read h a)).1 b = read h b :=
      read_congr _ _ _ (fun c hc => by rw [fa.old c (hb c hc)])
    simp only [clone, build, read]
    rw [iha h ha, ihb _ hb', e]
  | acons a b iha ihb =>
    have ha : InHeap h a := fun c hc => hin c (by simp [cells, hc])
    have hb : InHeap h b := fun c hc => hin c (by simp [cells, hc])
    obtain ⟨fa, _⟩ := build_spec h (read h a)
    have hb' : InHeap (build h (read h a)).1 b := fun c hc => Nat.lt_of_lt_of_le (hb c hc) fa.size_le
    have e : read (build h (read h a)).1 b = read h b :=
      read_congr _ _ _ (fun c hc => by rw [fa.old c (hb c hc)])
    simp only [clone, build, read]
    rw [iha h ha, ihb _ hb', e]

/-! ### the leaf statements -/

theorem leafAssign_ok (h : Heap) (d s : Nat) (hn : (h.cell s).cur.n = (h.cell d).cur.n) :
    leafAssign h d s = .ok (h.upd d { (h.cell d) with cur := ⟨(h.cell d).cur.n, (h.cell s).cur.v⟩ }) := by
  simp [leafAssign, PV.Bits.imatmul, hn]

theorem leafAssign_err (h : Heap) (d s : Nat) (hn : (h.cell s).cur.n ≠ (h.cell d).cur.n) :
    leafAssign h d s = .error (.bits .width) := by
  simp [leafAssign, PV.Bits.imatmul, hn]

theorem leafNb_ok (h : Heap) (d s : Nat) (hn : (h.cell s).cur.n = (h.cell d).cur.n) :
    leafNb h d s = .ok (h.upd d { (h.cell d) with next := some (h.cell s).cur.v }) := by
  simp [leafNb, PV.Bits.ilshift, PV.Bits.imatmul, hn]

/-! ### the statement lists of `@=` / `<<=` on two instances of one class -/

/-- same tree shape, and matching leaves have equal widths (on values) -/
def ShapeEq : Val → Val → Prop
  | .bits n _, .bits m _ => m = n
  | .unit, .unit => True
  | .pair a b, .pair c d => ShapeEq a c ∧ ShapeEq b d
  | .anil, .anil => True
  | .acons a b, .acons c d => ShapeEq a c ∧ ShapeEq b d
  | _, _ => False

/-- the two instances have the same tree shape and matching leaves have equal widths -/
def SameShape (h : Heap) (a b : Inst) : Prop := ShapeEq (read h a) (read h b)

/-- every leaf of `dst` holds `g (its old content) (old value of the matching leaf of src)` -/
def Matched (g : Reg → B → Reg) (h0 h' : Heap) : Inst → Inst → Prop
  | .leaf d, .leaf s => h'.cell d = g (h0.cell d) (h0.cell s).cur
  | .unit, .unit => True
  | .pair a b, .pair c d => Matched g h0 h' a c ∧ Matched g h0 h' b d
  | .anil, .anil => True
  | .acons a b, .acons c d => Matched g h0 h' a c ∧ Matched g h0 h' b d
  | _, _ => False

theorem shapeEq_of_hasTy {v T} (h1 : HasTy v T) : ∀ w, HasTy w T → ShapeEq v w := by
  induction h1 with
  | bits n v h => intro w h2; cases h2; simp [ShapeEq]
  | unit => intro w h2; cases h2; simp [ShapeEq]
  | pair _ _ iha ihb => intro w h2; cases h2 with | pair hc hd => exact ⟨iha _ hc, ihb _ hd⟩
  | anil => intro w h2; cases h2; simp [ShapeEq]
  | acons _ _ iha ihb => intro w h2; cases h2 with | acons hc hd => exact ⟨iha _ hc, ihb _ hd⟩

theorem sameShape_of_hasTy (h : Heap) {T : Ty} (a b : Inst) (h1 : HasTy (read h a) T) (h2 : HasTy (read h b) T) :
    SameShape h a b := shapeEq_of_hasTy h1 _ h2

theorem sameShape_congr (h h' : Heap) : ∀ (a b : Inst),
    (∀ c ∈ cells a, (h'.cell c).cur.n = (h.cell c).cur.n) → (∀ c ∈ cells b, (h'.cell c).cur.n = (h.cell c).cur.n) →
    SameShape h a b → SameShape h' a b := by
  intro a
  induction a with
  | leaf d =>
    intro b ha hb hs
    cases b with
    | leaf s =>
      simp only [SameShape, read, ShapeEq] at hs ⊢
      rw [ha d (by simp [cells]), hb s (by simp [cells])]; exact hs
    | _ => simp [SameShape, read, ShapeEq] at hs
  | unit => intro b _ _ hs; cases b <;> simp [SameShape, read, ShapeEq] at hs ⊢
  | anil => intro b _ _ hs; cases b <;> simp [SameShape, read, ShapeEq] at hs ⊢
  | pair a1 a2 ih1 ih2 =>
    intro b ha hb hs
    cases b with
    | pair b1 b2 =>
      simp only [SameShape, read, ShapeEq] at hs ⊢
      exact ⟨ih1 b1 (fun c hc => ha c (by simp [cells, hc])) (fun c hc => hb c (by simp [cells, hc])) hs.1,
             ih2 b2 (fun c hc => ha c (by simp [cells, hc])) (fun c hc => hb c (by simp [cells, hc])) hs.2⟩
    | _ => simp [SameShape, read, ShapeEq] at hs
  | acons a1 a2 ih1 ih2 =>
    intro b ha hb hs
    cases b with
    | acons b1 b2 =>
      simp only [SameShape, read, ShapeEq] at hs ⊢
      exact ⟨ih1 b1 (fun c hc => ha c (by simp [cells, hc])) (fun c hc => hb c (by simp [cells, hc])) hs.1,
             ih2 b2 (fun c hc => ha c (by simp [cells, hc])) (fun c hc => hb c (by simp [cells, hc])) hs.2⟩
    | _ => simp [SameShape, read, ShapeEq] at hs

theorem matched_congr (g : Reg → B → Reg) (h0 h0' h1 h1' : Heap) : ∀ (a b : Inst),
    (∀ c ∈ cells a, h0'.cell c = h0.cell c ∧ h1'.cell c = h1.cell c) → (∀ c ∈ cells b, h0'.cell c = h0.cell c) →
    Matched g h0 h1 a b → Matched g h0' h1' a b := by
  intro a
  induction a with
  | leaf d =>
    intro b ha hb hm
    cases b with
    | leaf s =>
      simp only [Matched] at hm ⊢
      rw [(ha d (by simp [cells])).1, (ha d (by simp [cells])).2, hb s (by simp [cells])]; exact hm
    | _ => simp [Matched] at hm
  | unit => intro b _ _ hm; cases b <;> simp [Matched] at hm ⊢
  | anil => intro b _ _ hm; cases b <;> simp [Matched] at hm ⊢
  | pair a1 a2 ih1 ih2 =>
    intro b ha hb hm
    cases b with
    | pair b1 b2 =>
      simp only [Matched] at hm ⊢
      exact ⟨ih1 b1 (fun c hc => ha c (by simp [cells, hc])) (fun c hc => hb c (by simp [cells, hc])) hm.1,
             ih2 b2 (fun c hc => ha c (by simp [cells, hc])) (fun c hc => hb c (by simp [cells, hc])) hm.2⟩
    | _ => simp [Matched] at hm
  | acons a1 a2 ih1 ih2 =>
    intro b ha hb hm
    cases b with
    | acons b1 b2 =>
      simp only [Matched] at hm ⊢
      exact ⟨ih1 b1 (fun c hc => ha c (by simp [cells, hc])) (fun c hc => hb c (by simp [cells, hc])) hm.1,
             ih2 b2 (fun c hc => ha c (by simp [cells, hc])) (fun c hc => hb c (by simp [cells, hc])) hm.2⟩
    | _ => simp [Matched] at hm

theorem sameShape_pair {h : Heap} {a1 a2 b1 b2 : Inst} :
    SameShape h (.pair a1 a2) (.pair b1 b2) ↔ SameShape h a1 b1 ∧ SameShape h a2 b2 := by
  simp [SameShape, read, ShapeEq]
theorem sameShape_acons {h : Heap} {a1 a2 b1 b2 : Inst} :
    SameShape h (.acons a1 a2) (.acons b1 b2) ↔ SameShape h a1 b1 ∧ SameShape h a2 b2 := by
  simp [SameShape, read, ShapeEq]
theorem sameShape_leaf {h : Heap} {d s : Nat} :
    SameShape h (.leaf d) (.leaf s) ↔ (h.cell s).cur.n = (h.cell d).cur.n := by
  simp [SameShape, read, ShapeEq]

/-- the step for a two-part instance (struct: first field + rest; list: element 0 + rest) -/
theorem zip_step (op : Heap → Nat → Nat → Except Err Heap) (g : Reg → B → Reg)
    (P : Inst → Inst → Heap → Prop)
    (hP : ∀ dst src h, P dst src h ↔
      (SameShape h dst src → (cells dst).Nodup → Disj dst src →
        ∃ h', zipWithM op h dst src = .ok h' ∧ h'.size = h.size ∧ (∀ c, c ∉ cells dst → h'.cell c = h.cell c) ∧
          (∀ c, (h'.cell c).cur.n = (h.cell c).cur.n) ∧ Matched g h h' dst src))
    (a1 a2 b1 b2 : Inst) (h : Heap)
    (ih1 : ∀ h, P a1 b1 h) (ih2 : ∀ h, P a2 b2 h)
    (hs1 : SameShape h a1 b1) (hs2 : SameShape h a2 b2)
    (hnd : (cells a1 ++ cells a2).Nodup)
    (hdj : ∀ c, c ∈ cells a1 ++ cells a2 → c ∉ cells b1 ++ cells b2) :
    ∃ h1 h2, zipWithM op h a1 b1 = .ok h1 ∧ zipWithM op h1 a2 b2 = .ok h2 ∧ h2.size = h.size ∧
      (∀ c, c ∉ cells a1 ++ cells a2 → h2.cell c = h.cell c) ∧
      (∀ c, (h2.cell c).cur.n = (h.cell c).cur.n) ∧ Matched g h h2 a1 b1 ∧ Matched g h h2 a2 b2 := by
  rw [List.nodup_append] at hnd
  obtain ⟨nd1, nd2, ndx⟩ := hnd
  have dj1 : Disj a1 b1 := fun c hc hb => hdj c (by simp [hc]) (by simp [hb])
  have dj2 : Disj a2 b2 := fun c hc hb => hdj c (by simp [hc]) (by simp [hb])
  obtain ⟨h1, e1, sz1, fr1, wn1, m1⟩ := (hP _ _ _).mp (ih1 h) hs1 nd1 dj1
  have a2_keep : ∀ c ∈ cells a2, h1.cell c = h.cell c := fun c hc => fr1 c (fun hc1 => ndx c hc1 c hc rfl)
  have b2_keep : ∀ c ∈ cells b2, h1.cell c = h.cell c :=
    fun c hc => fr1 c (fun hc1 => hdj c (by simp [hc1]) (by simp [hc]))
  have hs2' : SameShape h1 a2 b2 := sameShape_congr h h1 a2 b2 (fun c _ => wn1 c) (fun c _ => wn1 c) hs2
  obtain ⟨h2, e2, sz2, fr2, wn2, m2⟩ := (hP _ _ _).mp (ih2 h1) hs2' nd2 dj2
  refine ⟨h1, h2, e1, e2, by rw [sz2, sz1], ?_, fun c => by rw [wn2, wn1], ?_, ?_⟩
  · intro c hc; simp only [List.mem_append, not_or] at hc
    rw [fr2 c hc.2, fr1 c hc.1]
  · exact matched_congr g h h h1 h2 a1 b1
      (fun c hc => ⟨rfl, fr2 c (fun hc2 => ndx c hc c hc2 rfl)⟩) (fun c _ => rfl) m1
  · exact matched_congr g h1 h h2 h2 a2 b2 (fun c hc => ⟨(a2_keep c hc).symm, rfl⟩) (fun c hc => (b2_keep c hc).symm) m2

/-- running the statement list: succeeds, touches only `dst`'s leaves, each gets `g old (src leaf)` -/
theorem zipWithM_spec (op : Heap → Nat → Nat → Except Err Heap) (g : Reg → B → Reg)
    (hop : ∀ h d s, (h.cell s).cur.n = (h.cell d).cur.n → op h d s = .ok (h.upd d (g (h.cell d) (h.cell s).cur)))
    (hg : ∀ r b, (g r b).cur.n = r.cur.n) :
    ∀ (dst src : Inst) (h : Heap), SameShape h dst src → (cells dst).Nodup → Disj dst src →
    ∃ h', zipWithM op h dst src = .ok h' ∧ h'.size = h.size ∧ (∀ c, c ∉ cells dst → h'.cell c = h.cell c) ∧
      (∀ c, (h'.cell c).cur.n = (h.cell c).cur.n) ∧ Matched g h h' dst src := by
  intro dst
  induction dst with
  | leaf d =>
    intro src h hs _ _
    cases src with
    | leaf s =>
      rw [sameShape_leaf] at hs
      refine ⟨h.upd d (g (h.cell d) (h.cell s).cur), by simp only [zipWithM]; exact hop h d s hs, rfl, ?_, ?_, ?_⟩
      · intro c hc; simp only [cells, List.mem_singleton] at hc; exact upd_cell_ne _ _ _ _ hc
      · intro c
        by_cases e : c = d
        · subst e; simp [hg]
        · rw [upd_cell_ne _ _ _ _ e]
      · simp [Matched]
    | _ => simp [SameShape, read, ShapeEq] at hs
  | unit =>
    intro src h hs _ _
    cases src <;> simp [SameShape, read, ShapeEq] at hs
    exact ⟨h, rfl, rfl, fun _ _ => rfl, fun _ => rfl, by simp [Matched]⟩
  | anil =>
    intro src h hs _ _
    cases src <;> simp [SameShape, read, ShapeEq] at hs
    exact ⟨h, rfl, rfl, fun _ _ => rfl, fun _ => rfl, by simp [Matched]⟩
  | pair a1 a2 ih1 ih2 =>
    intro src h hs hnd hdj
    cases src with
    | pair b1 b2 =>
      rw [sameShape_pair] at hs
      obtain ⟨h1, h2, e1, e2, sz, fr, wn, m1, m2⟩ :=
        zip_step op g (fun dst src h => SameShape h dst src → (cells dst).Nodup → Disj dst src →
          ∃ h', zipWithM op h dst src = .ok h' ∧ h'.size = h.size ∧ (∀ c, c ∉ cells dst → h'.cell c = h.cell c) ∧
            (∀ c, (h'.cell c).cur.n = (h.cell c).cur.n) ∧ Matched g h h' dst src)
          (fun _ _ _ => Iff.rfl) a1 a2 b1 b2 h (fun h => ih1 b1 h) (fun h => ih2 b2 h) hs.1 hs.2
          (by simpa [cells] using hnd) (fun c hc => by simpa [cells] using hdj c (by simpa [cells] using hc))
      exact ⟨h2, by simp only [zipWithM, e1, e2], sz, by simpa [cells] using fr, wn, ⟨m1, m2⟩⟩
    | _ => simp [SameShape, read, ShapeEq] at hs
  | acons a1 a2 ih1 ih2 =>
    intro src h hs hnd hdj
    cases src with
    | acons b1 b2 =>
      rw [sameShape_acons] at hs
      obtain ⟨h1, h2, e1, e2, sz, fr, wn, m1, m2⟩ :=
        zip_step op g (fun dst src h => SameShape h dst src → (cells dst).Nodup → Disj dst src →
          ∃ h', zipWithM op h dst src = .ok h' ∧ h'.size = h.size ∧ (∀ c, c ∉ cells dst → h'.cell c = h.cell c) ∧
            (∀ c, (h'.cell c).cur.n = (h.cell c).cur.n) ∧ Matched g h h' dst src)
          (fun _ _ _ => Iff.rfl) a1 a2 b1 b2 h (fun h => ih1 b1 h) (fun h => ih2 b2 h) hs.1 hs.2
          (by simpa [cells] using hnd) (fun c hc => by simpa [cells] using hdj c (by simpa [cells] using hc))
      exact ⟨h2, by simp only [zipWithM, e1, e2], sz, by simpa [cells] using fr, wn, ⟨m1, m2⟩⟩
    | _ => simp [SameShape, read, ShapeEq] at hs

/-- what `@=` leaves in a destination leaf -/
def gAssign (r : Reg) (b : B) : Reg := { r with cur := ⟨r.cur.n, b.v⟩ }
/-- what `<<=` leaves in a destination leaf -/
def gNb (r : Reg) (b : B) : Reg := { r with next := some b.v }

theorem read_of_matched_assign (h h' : Heap) : ∀ (dst src : Inst), SameShape h dst src →
    Matched gAssign h h' dst src → read h' dst = read h src := by
  intro dst
  induction dst with
  | leaf d =>
    intro src hs hm
    cases src with
    | leaf s =>
      rw [sameShape_leaf] at hs; simp only [Matched] at hm
      simp [read, hm, gAssign, hs]
    | _ => simp [Matched] at hm
  | unit => intro src _ hm; cases src <;> simp [Matched] at hm; rfl
  | anil => intro src _ hm; cases src <;> simp [Matched] at hm; rfl
  | pair a1 a2 ih1 ih2 =>
    intro src hs hm
    cases src with
    | pair b1 b2 =>
      rw [sameShape_pair] at hs; simp only [Matched] at hm
      simp only [read]; rw [ih1 _ hs.1 hm.1, ih2 _ hs.2 hm.2]
    | _ => simp [Matched] at hm
  | acons a1 a2 ih1 ih2 =>
    intro src hs hm
    cases src with
    | acons b1 b2 =>
      rw [sameShape_acons] at hs; simp only [Matched] at hm
      simp only [read]; rw [ih1 _ hs.1 hm.1, ih2 _ hs.2 hm.2]
    | _ => simp [Matched] at hm

/-- a property of the destination leaves that follows leaf-wise from `Matched` -/
theorem matched_forall (g : Reg → B → Reg) (Q : Reg → Reg → Prop) (hQ : ∀ r b, Q (g r b) r) (h h' : Heap) :
    ∀ (dst src : Inst), Matched g h h' dst src → ∀ c ∈ cells dst, Q (h'.cell c) (h.cell c) := by
  intro dst
  induction dst with
  | leaf d =>
    intro src hm c hc
    cases src with
    | leaf s =>
      simp only [Matched] at hm
      simp only [cells, List.mem_singleton] at hc; subst hc; rw [hm]; exact hQ _ _
    | _ => simp [Matched] at hm
  | unit => intro src _ c hc; simp [cells] at hc
  | anil => intro src _ c hc; simp [cells] at hc
  | pair a1 a2 ih1 ih2 =>
    intro src hm c hc
    cases src with
    | pair b1 b2 =>
      simp only [Matched] at hm
      simp only [cells, List.mem_append] at hc
      rcases hc with hc | hc
      · exact ih1 _ hm.1 c hc
      · exact ih2 _ hm.2 c hc
    | _ => simp [Matched] at hm
  | acons a1 a2 ih1 ih2 =>
    intro src hm c hc
    cases src with
    | acons b1 b2 =>
      simp only [Matched] at hm
      simp only [cells, List.mem_append] at hc
      rcases hc with hc | hc
      · exact ih1 _ hm.1 c hc
      · exact ih2 _ hm.2 c hc
    | _ => simp [Matched] at hm

theorem readNext_of_matched_nb (h h' : Heap) : ∀ (dst src : Inst), SameShape h dst src →
    Matched gNb h h' dst src → readNext h' dst = some (read h src) := by
  intro dst
  induction dst with
  | leaf d =>
    intro src hs hm
    cases src with
    | leaf s =>
      rw [sameShape_leaf] at hs; simp only [Matched] at hm
      simp [readNext, read, hm, gNb, hs]
    | _ => simp [Matched] at hm
  | unit => intro src _ hm; cases src <;> simp [Matched] at hm; rfl
  | anil => intro src _ hm; cases src <;> simp [Matched] at hm; rfl
  | pair a1 a2 ih1 ih2 =>
    intro src hs hm
    cases src with
    | pair b1 b2 =>
      rw [sameShape_pair] at hs; simp only [Matched] at hm
      simp only [readNext, read]; rw [ih1 _ hs.1 hm.1, ih2 _ hs.2 hm.2]; rfl
    | _ => simp [Matched] at hm
  | acons a1 a2 ih1 ih2 =>
    intro src hs hm
    cases src with
    | acons b1 b2 =>
      rw [sameShape_acons] at hs; simp only [Matched] at hm
      simp only [readNext, read]; rw [ih1 _ hs.1 hm.1, ih2 _ hs.2 hm.2]; rfl
    | _ => simp [Matched] at hm

/-! ### `_flip` -/

theorem leafFlip_ok (h : Heap) (d w : Nat) (hn : (h.cell d).next = some w) :
    leafFlip h d = .ok (h.upd d { (h.cell d) with cur := ⟨(h.cell d).cur.n, w⟩ }) := by
  simp [leafFlip, PV.Bits.flip, hn]

theorem leafFlip_err (h : Heap) (d : Nat) (hn : (h.cell d).next = none) :
    leafFlip h d = .error .attr := by
  simp [leafFlip, PV.Bits.flip, hn]

theorem flip_spec : ∀ (i : Inst) (h : Heap) (v : Val), readNext h i = some v → (cells i).Nodup →
    ∃ h', flip h i = .ok h' ∧ read h' i = v ∧ h'.size = h.size ∧ (∀ c, c ∉ cells i → h'.cell c = h.cell c) ∧
      (∀ c, (h'.cell c).next = (h.cell c).next ∧ (h'.cell c).cur.n = (h.cell c).cur.n) := by
  intro i
  induction i with
  | leaf d =>
    intro h v hv _
    simp only [readNext, Option.map_eq_some_iff] at hv
    obtain ⟨w, hw, rfl⟩ := hv
    refine ⟨h.upd d { (h.cell d) with cur := ⟨(h.cell d).cur.n, w⟩ },
      by simp only [flip]; exact leafFlip_ok h d w hw, by simp [read], rfl, ?_, ?_⟩
    · intro c hc; simp only [cells, List.mem_singleton] at hc; exact upd_cell_ne _ _ _ _ hc
    · intro c
      by_cases e : c = d
      · subst e; simp
      · rw [upd_cell_ne _ _ _ _ e]; exact ⟨rfl, rfl⟩
  | unit =>
    intro h v hv _
    simp only [readNext, Option.some.injEq] at hv; subst hv
    exact ⟨h, rfl, rfl, rfl, fun _ _ => rfl, fun _ => ⟨rfl, rfl⟩⟩
  | anil =>
    intro h v hv _
    simp only [readNext, Option.some.injEq] at hv; subst hv
    exact ⟨h, rfl, rfl, rfl, fun _ _ => rfl, fun _ => ⟨rfl, rfl⟩⟩
  | pair a b iha ihb =>
    intro h v hv hnd
    simp only [cells] at hnd
    rw [List.nodup_append] at hnd
    obtain ⟨nd1, nd2, ndx⟩ := hnd
    simp only [readNext] at hv
    cases hra : readNext h a with
    | none => simp [hra] at hv
    | some va =>
      cases hrb : readNext h b with
      | none => simp [hra, hrb] at hv
      | some vb =>
        simp [hra, hrb] at hv; subst hv
        obtain ⟨h1, e1, r1, sz1, fr1, nx1⟩ := iha h va hra nd1
        have hrb1 : readNext h1 b = some vb := by
          rw [readNext_congr h h1 b (fun c _ => nx1 c)]; exact hrb
        obtain ⟨h2, e2, r2, sz2, fr2, nx2⟩ := ihb h1 vb hrb1 nd2
        refine ⟨h2, by simp only [flip, e1, e2], ?_, by rw [sz2, sz1], ?_, ?_⟩
        · simp only [read]
          rw [r2, read_congr h1 h2 a (fun c hc => by rw [fr2 c (fun hc2 => ndx c hc c hc2 rfl)]), r1]
        · intro c hc; simp only [cells, List.mem_append, not_or] at hc
          rw [fr2 c hc.2, fr1 c hc.1]
        · intro c; exact ⟨by rw [(nx2 c).1, (nx1 c).1], by rw [(nx2 c).2, (nx1 c).2]⟩
  | acons a b iha ihb =>
    intro h v hv hnd
    simp only [cells] at hnd
    rw [List.nodup_append] at hnd
    obtain ⟨nd1, nd2, ndx⟩ := hnd
    simp only [readNext] at hv
    cases hra : readNext h a with
    | none => simp [hra] at hv
    | some va =>
      cases hrb : readNext h b with
      | none => simp [hra, hrb] at hv
      | some vb =>
        simp [hra, hrb] at hv; subst hv
        obtain ⟨h1, e1, r1, sz1, fr1, nx1⟩ := iha h va hra nd1
        have hrb1 : readNext h1 b = some vb := by
          rw [readNext_congr h h1 b (fun c _ => nx1 c)]; exact hrb
        obtain ⟨h2, e2, r2, sz2, fr2, nx2⟩ := ihb h1 vb hrb1 nd2
        refine ⟨h2, by simp only [flip, e1, e2], ?_, by rw [sz2, sz1], ?_, ?_⟩
        · simp only [read]
          rw [r2, read_congr h1 h2 a (fun c hc => by rw [fr2 c (fun hc2 => ndx c hc c hc2 rfl)]), r1]
        · intro c hc; simp only [cells, List.mem_append, not_or] at hc
          rw [fr2 c hc.2, fr1 c hc.1]
        · intro c; exact ⟨by rw [(nx2 c).1, (nx1 c).1], by rw [(nx2 c).2, (nx1 c).2]⟩

/-! ### the two statement lists and the cross-class conversion, packaged -/

theorem imatmulSame_spec (h : Heap) (dst src : Inst) (hs : SameShape h dst src)
    (nd : (cells dst).Nodup) (dj : Disj dst src) :
    ∃ h', imatmulSame h dst src = .ok h' ∧ read h' dst = read h src ∧ read h' src = read h src ∧
      h'.size = h.size ∧ (∀ c, c ∉ cells dst → h'.cell c = h.cell c) ∧
      (∀ c, (h'.cell c).next = (h.cell c).next) := by
  obtain ⟨h', e, sz, fr, _, m⟩ := zipWithM_spec leafAssign gAssign
    (fun h d s hn => leafAssign_ok h d s hn) (fun _ _ => rfl) dst src h hs nd dj
  refine ⟨h', e, read_of_matched_assign h h' dst src hs m, ?_, sz, fr, ?_⟩
  · exact read_congr _ _ _ (fun c hc => by rw [fr c (fun hd => dj c hd hc)])
  · intro c
    by_cases hc : c ∈ cells dst
    · exact matched_forall gAssign (fun r' r => r'.next = r.next) (fun _ _ => rfl) h h' dst src m c hc
    · rw [fr c hc]

theorem ilshiftSame_spec (h : Heap) (dst src : Inst) (hs : SameShape h dst src)
    (nd : (cells dst).Nodup) (dj : Disj dst src) :
    ∃ h', ilshiftSame h dst src = .ok h' ∧ (∀ c, (h'.cell c).cur = (h.cell c).cur) ∧
      readNext h' dst = some (read h src) ∧ h'.size = h.size ∧ (∀ c, c ∉ cells dst → h'.cell c = h.cell c) := by
  obtain ⟨h', e, sz, fr, _, m⟩ := zipWithM_spec leafNb gNb
    (fun h d s hn => leafNb_ok h d s hn) (fun _ _ => rfl) dst src h hs nd dj
  refine ⟨h', e, ?_, readNext_of_matched_nb h h' dst src hs m, sz, fr⟩
  intro c
  by_cases hc : c ∈ cells dst
  · exact matched_forall gNb (fun r' r => r'.cur = r.cur) (fun _ _ => rfl) h h' dst src m c hc
  · rw [fr c hc]

theorem convert_ok (T U : Ty) (h : Heap) (src : Inst) (hs : HasTy (read h src) U) (hw : U.width = T.width)
    (h1 : 1 ≤ T.width) (h2 : T.width < 1024) :
    convert T h src = .ok (build h (fromBits T (toBits (read h src)).2)) := by
  have e1 := (toBitsPy_eq hs).1 ⟨by omega, by omega⟩
  have e2 := (fromBitsPy_eq T U.width (toBits (read h src)).2).1 hw
  simp [convert, e1, e2]

end PV.BitStruct
