import PymtlVerif.Proofs.PipeRef1
/-!
LEVEL 3, part 2: the X-stage facts used everywhere (ALU result and branch decision of a valid ISA instruction
in X), the data-memory response channel, and preservation of the clauses `dcnt`, `dmem`, `m` of `Inv`.
-/
namespace PV.Pipe
open PV.TinyRV0 (W32 Mem loadWord storeWord rget rset)

section step
variable {p : Prog} {N : Nat} {s : State} {E : Env} {c : Nat} {i : EnvIn}

/-- the ALU output of a valid X-stage ISA instruction, whenever it is used -/
theorem alu_X_ok (hR : Runs p N) (I : Inv p N s E c) (hv : s.val_X = true) (hj : iX s c < N)
    (hu : (U.cs (wordAt p (iX s c))).rf_wen_pending = true ∨ (U.cs (wordAt p (iX s c))).dmemreq_type ≠ nr ∨
      U.p2m (wordAt p (iX s c)) = true) :
    alu_out_X s = U.aluv (isaAt p (iX s c)) (wordAt p (iX s c)) := by
  have X := I.x hv hj
  have R := (runs_step hR hj).2
  simp only [alu_out_X, X.ctl, (ctlX_of_fields _).2.1, U.aluv]
  exact R.alu_dep hu _ _ _ _ X.op1 X.op2

/-- hardware "branch taken" = ISA "branch taken" for a valid X-stage ISA instruction -/
theorem redirect_X_ok (hR : Runs p N) (I : Inv p N s E c) (hv : s.val_X = true) (hj : iX s c < N) :
    pc_redirect_X s = U.taken (isaAt p (iX s c)) (wordAt p (iX s c)) := by
  have X := I.x hv hj
  have R := (runs_step hR hj).2
  simp only [pc_redirect_X, hv, Bool.true_and, X.ctl, (ctlX_of_fields _).2.2.2.2.2.2, U.taken, ne_X, br_ne]
  rcases Bool.eq_false_or_eq_true (U.cs (wordAt p (iX s c))).br_type with a | a
  · obtain ⟨e1, e2, e3, _⟩ := R.br_en a
    rw [X.op1 e1, X.op2 (Or.inr e2)]
    simp [a]
  · simp [a]

/-- the dmem response channel when M does not stall: everything owed to the old M is consumed -/
theorem dchan_drain (I : Inv p N s E c) (hE : envOk p E i (out s i)) (hs : stall_M s i = false) :
    (s.dmemresp_q.next i.reset i.dmem_resp_en i.dmem_resp_data (dmemresp_en s i)).full = false ∧
    (if i.dmem_resp_en then E.dresp.tail else E.dresp) = [] := by
  have hr := hE.1
  have hcnt := I.dcnt
  obtain ⟨_, _, hdm, _⟩ := hE
  rcases Bool.eq_false_or_eq_true (s.val_M && (s.cm.dmemreq_type != 0)) with k | k
  · -- a memory instruction leaves M: its response is dequeued
    simp only [k, Bool.toNat_true] at hcnt
    have hv : s.val_M = true := by simp at k; exact k.1
    have ht : (s.cm.dmemreq_type != nr) = true := by simp at k; simpa [nr] using k.2
    have hde : dmemresp_en s i = true := by simp [dmemresp_en, hv, hs, ht]
    have hrdy : dmemresp_rdy s i = true := by
      simp [stall_M, hv, ostall_M, ostall_dmem_M, ht] at hs
      simpa using hs.1.1
    refine ⟨by simp [BypQ.next, hde], ?_⟩
    rcases Bool.eq_false_or_eq_true s.dmemresp_q.full with hf | hf
    · simp only [hf, Bool.toNat_true] at hcnt
      have : E.dresp = [] := List.eq_nil_of_length_eq_zero (by omega)
      rcases Bool.eq_false_or_eq_true i.dmem_resp_en with he | he
      · obtain ⟨_, r, rest, h1, _⟩ := hdm he; rw [this] at h1; cases h1
      · simp [he, this]
    · simp only [hf, Bool.toNat_false] at hcnt
      have he : i.dmem_resp_en = true := by
        simp [dmemresp_rdy, BypQ.deq_rdy, hf, hr] at hrdy; exact hrdy
      obtain ⟨_, r, rest, h1, _⟩ := hdm he
      rw [h1] at hcnt ⊢
      simp at hcnt
      simp [he, hcnt]
  · simp only [k, Bool.toNat_false] at hcnt
    have hf : s.dmemresp_q.full = false := by
      rcases Bool.eq_false_or_eq_true s.dmemresp_q.full with hf | hf
      · simp [hf] at hcnt
      · exact hf
    have hd : E.dresp = [] := List.eq_nil_of_length_eq_zero (by omega)
    have he : i.dmem_resp_en = false := by
      rcases Bool.eq_false_or_eq_true i.dmem_resp_en with he | he
      · obtain ⟨_, r, rest, h1, _⟩ := hdm he; rw [hd] at h1; cases h1
      · exact he
    simp [BypQ.next, hf, he, hd]


/-- no data request leaves X while M stalls -/
theorem no_dreq_of_stall_M (hs : stall_M s i = true) : dmemreq_en s i = false := by
  rcases Bool.eq_false_or_eq_true s.val_X with hv | hv
  · simp [dmemreq_en, stall_X_of_stall_M s i hs hv]
  · simp [dmemreq_en, hv]

theorem envNext_dresp (E : Env) (i : EnvIn) (s : State) :
    (envNext E i (out s i)).dresp = (if i.dmem_resp_en then E.dresp.tail else E.dresp) ++
      (if dmemreq_en s i then [if dmemreq_type s == 1 then none else some (loadWord E.dmem (alu_out_X s))] else []) := rfl

theorem dcnt_next (I : Inv p N s E c) (hE : envOk p E i (out s i)) :
    (next s i).dmemresp_q.full.toNat + (envNext E i (out s i)).dresp.length =
      ((next s i).val_M && ((next s i).cm.dmemreq_type != 0)).toNat := by
  have hr := hE.1
  obtain ⟨_, _, _, hM, _, _⟩ := next_vals s i hr
  have eq : (next s i).dmemresp_q = s.dmemresp_q.next i.reset i.dmem_resp_en i.dmem_resp_data (dmemresp_en s i) := rfl
  rw [envNext_dresp, eq]
  rcases Bool.eq_false_or_eq_true (stall_M s i) with hs | hs
  · -- M holds: a response may move from the memory into the queue
    obtain ⟨h1, h2, _⟩ := hold_M s i hr hs
    have hcnt := I.dcnt
    rw [h1, h2, no_dreq_of_stall_M hs, ← hcnt]
    have hde : dmemresp_en s i = false := by simp [dmemresp_en, hs]
    obtain ⟨_, _, hdm, _⟩ := hE
    rcases Bool.eq_false_or_eq_true i.dmem_resp_en with he | he
    · obtain ⟨hrdy, r, rest, h3, _⟩ := hdm he
      have hf : s.dmemresp_q.full = false := by simp [out, BypQ.enq_rdy] at hrdy; exact hrdy.2
      simp [BypQ.next, hde, he, hr, hf, h3]; omega
    · simp [BypQ.next, hde, he, hr]
  · obtain ⟨hq, hd⟩ := dchan_drain I hE hs
    rw [hq, hd]
    have e1 : (next s i).val_M = next_val_X s i := by simp [hM, reg_en_M, hs]
    have e2 : (next s i).cm = ctlM_next s := by simp [next, hr, reg_en_M, hs]
    rw [e1, e2]
    simp only [ctlM_next, dmemreq_en, next_val_X, nr]
    rcases Bool.eq_false_or_eq_true (s.val_X && !stall_X s i && (s.cx.dmemreq_type != 0)) with a | a <;> simp [a]

theorem dmem_next (hR : Runs p N) (I : Inv p N s E c) (hE : envOk p E i (out s i)) :
    iX (next s i) (c' s i c) ≤ N → (envNext E i (out s i)).dmem = (isaAt p (iX (next s i) (c' s i c))).mem := by
  have hr := hE.1
  rw [iX_next s i c hr]
  have e : (envNext E i (out s i)).dmem =
      if dmemreq_en s i && (dmemreq_type s == 1) then storeWord E.dmem (alu_out_X s) s.store_X else E.dmem := rfl
  rw [e]
  intro hj
  rcases Bool.eq_false_or_eq_true (stall_X s i) with hs | hs
  · simp only [hs, if_true] at hj ⊢
    simp [dmemreq_en, hs, I.dmem hj]
  · simp only [hs, Bool.false_eq_true, if_false] at hj ⊢
    rcases Bool.eq_false_or_eq_true s.val_X with hv | hv
    · have hj' : iX s c < N := by simp [iD, hv] at hj; omega
      have X := I.x hv hj'
      have R := (runs_step hR hj').2
      have hd : iD s c = iX s c + 1 := by simp [iD, hv]
      rw [hd, (runs_step hR hj').1, I.dmem (by omega)]
      simp only [U.next, dmemreq_en, hv, hs, dmemreq_type, X.ctl, (ctlX_of_fields _).2.2.2.2.1, Bool.true_and,
        Bool.not_false]
      by_cases hst : (U.cs (wordAt p (iX s c))).dmemreq_type = st
      · have ha := alu_X_ok hR I hv hj' (Or.inr (Or.inl (by rw [hst]; decide)))
        have hb := X.sto (R.st_nowen hst).2
        simp [hst, ha, hb, st, nr]
      · simp [hst]
    · have hd : iD s c = iX s c := by simp [iD, hv]
      rw [hd] at hj ⊢
      simp [dmemreq_en, hv, I.dmem hj]


theorem m_next (hR : Runs p N) (I : Inv p N s E c) (hE : envOk p E i (out s i)) :
    (next s i).val_M = true → iM (next s i) (c' s i c) < N → MOk p (next s i) (envNext E i (out s i)) (iM (next s i) (c' s i c)) := by
  have hr := hE.1
  obtain ⟨_, _, _, hM, _, _⟩ := next_vals s i hr
  rw [iM_next s i c hr]
  have eq : (next s i).dmemresp_q = s.dmemresp_q.next i.reset i.dmem_resp_en i.dmem_resp_data (dmemresp_en s i) := rfl
  intro hv hj
  rcases Bool.eq_false_or_eq_true (stall_M s i) with hs | hs
  · -- held
    simp only [hs, if_true] at hj ⊢
    obtain ⟨h1, h2, h3⟩ := hold_M s i hr hs
    have M := I.m (stall_M_val s i hs) hj
    refine ⟨by rw [h2]; exact M.wen, by rw [h2]; exact M.waddr, by rw [h2]; exact M.p2m, by rw [h2]; exact M.dty,
      by rw [h2]; exact M.sel, by rw [h2]; exact M.xcel, by rw [h3]; exact M.val, ?_⟩
    intro hl
    obtain ⟨hq, hd⟩ := M.ldv hl
    have hde : dmemresp_en s i = false := by simp [dmemresp_en, hs]
    obtain ⟨_, _, hdm, _⟩ := hE
    rw [envNext_dresp, eq, no_dreq_of_stall_M hs]
    rcases Bool.eq_false_or_eq_true i.dmem_resp_en with he | he
    · obtain ⟨hrdy, r, rest, h4, h5⟩ := hdm he
      have hr' : r = some _ := hd r (by rw [h4]; simp)
      refine ⟨fun _ => ?_, ?_⟩
      · simp only [BypQ.next, he, hde]; simpa using h5 _ hr'
      · intro r' hm; apply hd; simp [he, h4] at hm; rw [h4]; simp [hm]
    · refine ⟨fun hf => ?_, ?_⟩
      · simp only [BypQ.next, he, hde] at hf ⊢
        simp at hf ⊢; exact hq hf.2
      · intro r' hm; apply hd; simpa [he] using hm
  · -- loaded from X
    simp only [hs, Bool.false_eq_true, if_false] at hj ⊢
    have e1 : (next s i).val_M = next_val_X s i := by simp [hM, reg_en_M, hs]
    rw [e1] at hv
    have hvx : s.val_X = true := by simp [next_val_X] at hv; exact hv.1
    have hsx : stall_X s i = false := by simp [next_val_X] at hv; exact hv.2
    have X := I.x hvx hj
    have R := (runs_step hR hj).2
    obtain ⟨f1, f2, f3, f4, f5, f6, f7⟩ := ctlX_of_fields (wordAt p (iX s c))
    have e2 : (next s i).cm = ctlM_next s := by simp [next, hr, reg_en_M, hs]
    have e3 : (next s i).ex_result_M = alu_out_X s := by simp [next, hr, reg_en_M, hs]
    refine ⟨by rw [e2]; simp [ctlM_next, X.ctl, f1], by rw [e2]; simp [ctlM_next, X.ctl, f3],
      by rw [e2]; simp [ctlM_next, X.ctl, f4], by rw [e2]; simp [ctlM_next, X.ctl, f5],
      by rw [e2]; simp [ctlM_next, X.ctl, f6], by rw [e2]; simp [ctlM_next, X.ctl, ctlX_of_xcel R], ?_, ?_⟩
    · intro _ hu
      rw [e3]
      exact alu_X_ok hR I hvx hj (by rcases hu with u | u; exact Or.inl u; exact Or.inr (Or.inr u))
    · intro hl
      obtain ⟨hq, hd⟩ := dchan_drain I hE hs
      rw [envNext_dresp, eq, hq, hd]
      have hen : dmemreq_en s i = true := by simp [dmemreq_en, hvx, hsx, X.ctl, f5, hl, ld, nr]
      have hty : dmemreq_type s = 0 := by simp [dmemreq_type, X.ctl, f5, hl, ld, st]
      have ha := alu_X_ok hR I hvx hj (Or.inr (Or.inl (by rw [hl]; decide)))
      refine ⟨fun h => (by cases h), ?_⟩
      intro r hm
      simp [hen, hty] at hm
      rw [hm, ha, I.dmem (by omega)]

end step
end PV.Pipe
