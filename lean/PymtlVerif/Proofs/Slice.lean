import PymtlVerif.Proofs.Bits
/-! Helper lemmas for slices, concat, extension, popcount and bit length (core Lean only). -/
namespace PV.Bits

theorem pow_split (a b : Nat) (h : a ≤ b) : 2 ^ b = 2 ^ (b - a) * 2 ^ a := by
  rw [← Nat.pow_add]; congr 1; omega

/-- three-way decomposition of a natural number around the bit range [a, b) -/
theorem decomp (x a b : Nat) (h : a ≤ b) :
    x = x % 2 ^ a + ((x / 2 ^ a) % 2 ^ (b - a)) * 2 ^ a + (x / 2 ^ b) * 2 ^ b := by
  have h1 := Nat.mod_add_div x (2 ^ a)
  have h2 := Nat.mod_add_div (x / 2 ^ a) (2 ^ (b - a))
  have h3 : x / 2 ^ a / 2 ^ (b - a) = x / 2 ^ b := by
    rw [Nat.div_div_eq_div_mul, Nat.mul_comm, ← pow_split a b h]
  rw [h3] at h2
  have hp := pow_split a b h
  calc x = x % 2 ^ a + 2 ^ a * (x / 2 ^ a) := h1.symm
    _ = x % 2 ^ a + 2 ^ a * ((x / 2 ^ a) % 2 ^ (b - a) + 2 ^ (b - a) * (x / 2 ^ b)) := by rw [h2]
    _ = _ := by
      rw [hp, Nat.mul_add, Nat.add_assoc]
      congr 1
      rw [Nat.mul_comm (2 ^ a)]
      congr 1
      rw [← Nat.mul_assoc, Nat.mul_comm (2 ^ a), Nat.mul_comm]

/-- `pokeRaw` replaces the field [a,b) by `w` and keeps the rest -/
theorem pokeRaw_eq (x a b w : Nat) (h : a ≤ b) :
    pokeRaw x a b w = x % 2 ^ a + w * 2 ^ a + (x / 2 ^ b) * 2 ^ b := by
  unfold pokeRaw
  rw [Nat.shiftRight_eq_div_pow]
  have hd := decomp x a b h
  generalize x % 2 ^ a = lo at *
  generalize (x / 2 ^ a) % 2 ^ (b - a) * 2 ^ a = mid at *
  generalize x / 2 ^ b * 2 ^ b = hi at *
  omega

/-- bits of a number assembled from three fields -/
theorem testBit_assemble (lo w hi a b i : Nat) (h : a ≤ b) (hlo : lo < 2 ^ a) (hw : w < 2 ^ (b - a)) :
    (lo + w * 2 ^ a + hi * 2 ^ b).testBit i =
      if i < a then lo.testBit i else if i < b then w.testBit (i - a) else hi.testBit (i - b) := by
  have hp := pow_split a b h
  have e : lo + w * 2 ^ a + hi * 2 ^ b = 2 ^ a * (2 ^ (b - a) * hi + w) + lo := by
    rw [hp, Nat.mul_add, Nat.mul_comm w, ← Nat.mul_assoc (2 ^ a), Nat.mul_comm (2 ^ a) (2 ^ (b - a)),
        Nat.mul_comm hi]
    omega
  rw [e, Nat.testBit_two_pow_mul_add _ hlo]
  by_cases h1 : i < a
  · simp [h1]
  · simp only [h1, ↓reduceIte]
    rw [Nat.testBit_two_pow_mul_add _ hw]
    by_cases h2 : i < b
    · have : i - a < b - a := by omega
      simp [h2, this]
    · have : ¬ (i - a < b - a) := by omega
      have e2 : i - a - (b - a) = i - b := by omega
      simp [h2, this, e2]

theorem testBit_pokeRaw (x a b w i : Nat) (h : a ≤ b) (hw : w < 2 ^ (b - a)) :
    (pokeRaw x a b w).testBit i = if a ≤ i ∧ i < b then w.testBit (i - a) else x.testBit i := by
  rw [pokeRaw_eq x a b w h,
      testBit_assemble _ _ _ a b i h (Nat.mod_lt _ (Nat.two_pow_pos a)) hw]
  by_cases h1 : i < a
  · have : ¬ (a ≤ i ∧ i < b) := by omega
    simp [h1, this, Nat.testBit_mod_two_pow]
  · by_cases h2 : i < b
    · have : (a ≤ i ∧ i < b) := by omega
      simp [h1, h2, this]
    · have : ¬ (a ≤ i ∧ i < b) := by omega
      have e : i - b + b = i := by omega
      simp [h1, h2, Nat.testBit_div_two_pow, e]

theorem pokeRaw_lt (x a b w n : Nat) (h : a ≤ b) (hb : b ≤ n) (hx : x < 2 ^ n) (hw : w < 2 ^ (b - a)) :
    pokeRaw x a b w < 2 ^ n := by
  apply Nat.lt_pow_two_of_testBit
  intro i hi
  rw [testBit_pokeRaw x a b w i h hw]
  have : ¬ (a ≤ i ∧ i < b) := by omega
  simp only [this, ↓reduceIte]
  exact Nat.testBit_lt_two_pow (Nat.lt_of_lt_of_le hx (Nat.pow_le_pow_right (by decide) hi))

/-- reading the field back -/
theorem get_pokeRaw (x a b w : Nat) (h : a ≤ b) (hw : w < 2 ^ (b - a)) :
    (pokeRaw x a b w / 2 ^ a) % 2 ^ (b - a) = w := by
  apply Nat.eq_of_testBit_eq
  intro i
  rw [Nat.testBit_mod_two_pow, Nat.testBit_div_two_pow, testBit_pokeRaw x a b w _ h hw]
  by_cases hi : i < b - a
  · have : (a ≤ i + a ∧ i + a < b) := by omega
    simp [hi, this]
  · have : w.testBit i = false :=
      Nat.testBit_lt_two_pow (Nat.lt_of_lt_of_le hw (Nat.pow_le_pow_right (by decide) (by omega)))
    simp [hi, this]

/-! ### concat -/

/-- specification of concatenation: head of the list is most significant -/
def catSpec : List B → Nat × Nat
  | [] => (0, 0)
  | x :: xs => (x.n + (catSpec xs).1, x.v * 2 ^ (catSpec xs).1 + (catSpec xs).2)

theorem concatRaw_foldl (xs : List B) (n0 v0 : Nat) :
    xs.foldl (fun (acc : Nat × Nat) x => (acc.1 + x.n, acc.2 * 2 ^ x.n + x.v)) (n0, v0)
      = (n0 + (catSpec xs).1, v0 * 2 ^ (catSpec xs).1 + (catSpec xs).2) := by
  induction xs generalizing n0 v0 with
  | nil => simp [catSpec]
  | cons x xs ih =>
    simp only [List.foldl_cons, catSpec]
    rw [ih]
    congr 1
    · omega
    · rw [Nat.add_mul, Nat.pow_add, Nat.mul_assoc]; omega

theorem concatRaw_eq (xs : List B) : concatRaw xs = catSpec xs := by
  unfold concatRaw
  rw [concatRaw_foldl]; simp

theorem catSpec_lt (xs : List B) (h : ∀ x ∈ xs, x.v < 2 ^ x.n) : (catSpec xs).2 < 2 ^ (catSpec xs).1 := by
  induction xs with
  | nil => simp [catSpec]
  | cons x xs ih =>
    have hx := h x (List.mem_cons_self)
    have hr := ih (fun y hy => h y (List.mem_cons_of_mem _ hy))
    simp only [catSpec]
    rw [Nat.pow_add]
    calc x.v * 2 ^ (catSpec xs).1 + (catSpec xs).2
        < x.v * 2 ^ (catSpec xs).1 + 2 ^ (catSpec xs).1 := by omega
      _ = (x.v + 1) * 2 ^ (catSpec xs).1 := by rw [Nat.add_mul]; omega
      _ ≤ 2 ^ x.n * 2 ^ (catSpec xs).1 := Nat.mul_le_mul_right _ hx

/-! ### popcount and bit length -/

theorem popcount_eq (n v : Nat) (h : v < 2 ^ n) :
    popcount n v = ((List.range n).filter (fun i => v.testBit i)).length := by
  induction n generalizing v with
  | zero =>
    have : v = 0 := by simpa using h
    simp [popcount, this]
  | succ n ih =>
    unfold popcount
    by_cases hz : v = 0
    · subst hz
      have : ∀ l : List Nat, (List.filter (fun _ => false) l).length = 0 := by
        intro l; induction l <;> simp_all
      simp [this]
    · simp only [hz, ↓reduceIte]
      have h2 : v / 2 < 2 ^ n := by
        rw [Nat.pow_succ] at h; omega
      rw [ih _ h2, List.range_succ_eq_map, List.filter_cons, List.filter_map]
      have h0 : v.testBit 0 = decide (v % 2 = 1) := Nat.testBit_zero v
      have hs : ((fun i => v.testBit i) ∘ Nat.succ) = (fun i => (v / 2).testBit i) := by
        funext i; simp [Nat.testBit_succ]
      rw [hs]
      rcases Nat.mod_two_eq_zero_or_one v with hm | hm <;> simp [h0, hm] <;> omega

theorem bitLength_spec (f v : Nat) (hf : v ≤ f) :
    v < 2 ^ (bitLength f v) ∧ (v ≠ 0 → 2 ^ (bitLength f v - 1) ≤ v) := by
  induction f generalizing v with
  | zero =>
    have : v = 0 := by omega
    simp [bitLength, this]
  | succ f ih =>
    unfold bitLength
    by_cases hz : v = 0
    · simp [hz]
    · simp only [hz, ↓reduceIte]
      have hv : v / 2 ≤ f := by omega
      obtain ⟨i1, i2⟩ := ih (v / 2) hv
      constructor
      · rw [Nat.add_comm, Nat.pow_succ]; omega
      · intro _
        by_cases hz2 : v / 2 = 0
        · have : bitLength f (v / 2) = 0 := by
            cases f <;> simp [bitLength, hz2]
          simp [this]; omega
        · have := i2 hz2
          have hb : 1 ≤ bitLength f (v / 2) := by
            cases f with
            | zero => omega
            | succ f => simp [bitLength, hz2]
          have e : 1 + bitLength f (v / 2) - 1 = (bitLength f (v / 2) - 1) + 1 := by omega
          rw [e, Nat.pow_succ]; omega

end PV.Bits
