import PymtlVerif.Model.Bits
/-! Helper lemmas about `Model/Bits.lean` (core Lean only). -/
namespace PV.Bits

theorem two_pow_pos' (n : Nat) : 0 < 2 ^ n := Nat.two_pow_pos n

theorem upperTab_eq : ∀ n, upperTab n = 2 ^ n - 1
  | 0 => rfl
  | 1 => rfl
  | (i+2) => by
    have ih := upperTab_eq (i+1)
    have hp := two_pow_pos' (i+1)
    simp only [upperTab, ih]
    have : 2 ^ (i+2) = 2 ^ (i+1) * 2 := by rw [Nat.pow_succ]
    omega

theorem lowerTab_eq : ∀ n, 1 ≤ n → lowerTab n = - (2 ^ (n - 1) : Int)
  | 0, h => by omega
  | 1, _ => rfl
  | (i+2), _ => by
    have ih := lowerTab_eq (i+1) (by omega)
    simp only [lowerTab, ih]
    have : (2 : Int) ^ (i + 2 - 1) = 2 ^ (i + 1 - 1) * 2 := by
      have : i + 2 - 1 = (i + 1 - 1) + 1 := by omega
      rw [this, Int.pow_succ]
    omega

theorem maskInt_lt (n : Nat) (k : Int) : maskInt n k < 2 ^ n := by
  unfold maskInt
  have hp : (0 : Int) < 2 ^ n := Int.pow_pos (by decide)
  have h1 := Int.emod_lt_of_pos k hp
  have h0 := Int.emod_nonneg k (Int.ne_of_gt hp)
  have : ((k % 2 ^ n).toNat : Int) < ((2 ^ n : Nat) : Int) := by
    rw [Int.toNat_of_nonneg h0]; simpa using h1
  exact Int.ofNat_lt.mp this

theorem maskInt_natCast (n k : Nat) : maskInt n (k : Int) = k % 2 ^ n := by
  unfold maskInt
  have : ((k : Int) % (2 ^ n : Int)) = ((k % 2 ^ n : Nat) : Int) := by rw [Int.natCast_emod]; simp
  rw [this, Int.toNat_natCast]

theorem maskInt_of_lt (n : Nat) (k : Nat) (h : k < 2 ^ n) : maskInt n (k : Int) = k := by
  rw [maskInt_natCast, Nat.mod_eq_of_lt h]

/-- adding a multiple of the modulus does not change the mask -/
theorem maskInt_add_pow (n : Nat) (k : Int) : maskInt n (k + 2 ^ n) = maskInt n k := by
  unfold maskInt; rw [Int.add_emod_right]

theorem maskInt_sub (n a b : Nat) (hb : b ≤ 2 ^ n) :
    maskInt n ((a : Int) - (b : Int)) = (a + 2 ^ n - b) % 2 ^ n := by
  rw [← maskInt_add_pow]
  have : (a : Int) - b + 2 ^ n = ((a + 2 ^ n - b : Nat) : Int) := by
    have : ((2 ^ n : Nat) : Int) = (2 : Int) ^ n := by simp
    omega
  rw [this, maskInt_natCast]

theorem maskInt_neg_succ (n a : Nat) (ha : a < 2 ^ n) :
    maskInt n (-(a : Int) - 1) = 2 ^ n - 1 - a := by
  rw [← maskInt_add_pow]
  have : -(a : Int) - 1 + 2 ^ n = ((2 ^ n - 1 - a : Nat) : Int) := by
    have : ((2 ^ n : Nat) : Int) = (2 : Int) ^ n := by simp
    omega
  rw [this, maskInt_natCast, Nat.mod_eq_of_lt (by omega)]

/-- a negative integer k ≥ -2^n maps to 2^n + k -/
theorem maskInt_neg (n : Nat) (k : Int) (h0 : k < 0) (h1 : -(2 ^ n : Int) ≤ k) :
    (maskInt n k : Int) = 2 ^ n + k := by
  rw [← maskInt_add_pow]
  have hk : 0 ≤ k + 2 ^ n := by omega
  unfold maskInt
  have hp : (0 : Int) < 2 ^ n := Int.pow_pos (by decide)
  rw [Int.emod_eq_of_lt hk (by omega), Int.toNat_of_nonneg hk]; omega

theorem upper_lt (n : Nat) : upper n < 2 ^ n := by
  unfold upper; have := two_pow_pos' n; omega

theorem le_upper_iff (n k : Nat) : k ≤ upper n ↔ k < 2 ^ n := by
  unfold upper; have := two_pow_pos' n; omega


/-- well-formedness of an operand: a Bits operand is a well-formed Bits -/
def Opnd.Wf : Opnd → Prop
  | .bits b => b.Wf
  | _ => True

instance (b : B) : Decidable b.Wf := by unfold B.Wf; infer_instance

end PV.Bits

deriving instance DecidableEq for Except
