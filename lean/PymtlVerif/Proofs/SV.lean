import PymtlVerif.Model.VTr
/-
C03 / C12: semantic preservation of the RTLIR → SystemVerilog / Yosys-Verilog expression translation
(`PV.VTr.tr`) with respect to the PyMTL simulation semantics (`evalPy` / `refPy`) and the IEEE-1800
context-width evaluation of the emitted expression (`PV.SV.eval` / `loc`), under the typing invariant
`WT` the PyMTL type checker establishes.  Statements: Proofs/SVStmt.lean.

Formulation (as in the prototype): every translated node is evaluated in a context whose width is the
node's own width; the typing invariant guarantees that this is the width the enclosing operator
propagates.  Core Lean only.
-/
namespace PV.SVProofs
open PV.SV PV.VTr

/-! ### (0) store -/

theorem getL_setL_eq (k : Key) (v : Nat) (cs : List (Key × Nat)) :
    Store.getL k (Store.setL k v cs) = v := by
  induction cs with
  | nil => simp [Store.setL, Store.getL]
  | cons c cs ih =>
    obtain ⟨k', v'⟩ := c
    by_cases h : k' = k <;> simp [Store.setL, Store.getL, h, ih]

theorem getL_setL_ne (k k' : Key) (v : Nat) (h : k' ≠ k) (cs : List (Key × Nat)) :
    Store.getL k' (Store.setL k v cs) = Store.getL k' cs := by
  induction cs with
  | nil => simp [Store.setL, Store.getL, Ne.symm h]
  | cons c cs ih =>
    obtain ⟨k'', v''⟩ := c
    by_cases h1 : k'' = k
    · subst h1; simp [Store.setL, Store.getL, Ne.symm h]
    · by_cases h2 : k'' = k'
      · subst h2; simp [Store.setL, Store.getL, h1]
      · simp [Store.setL, Store.getL, h1, h2, ih]

/-- reading the cell just written -/
theorem _root_.PV.SV.Store.get_set_eq (σ : Store) (k : Key) (v : Nat) : (σ.set k v).get k = v :=
  getL_setL_eq k v σ.cells

/-- reading another cell -/
theorem _root_.PV.SV.Store.get_set_ne (σ : Store) (k k' : Key) (v : Nat) (h : k' ≠ k) :
    (σ.set k v).get k' = σ.get k' :=
  getL_setL_ne k k' v h σ.cells

theorem readLoc_lt (σ : Store) (l : Loc) : readLoc σ l < 2 ^ l.ty.width := by
  unfold readLoc
  split
  · exact Nat.mod_lt _ (Nat.two_pow_pos _)
  · exact Nat.two_pow_pos _

/-- a write only touches the cell of its target variable -/
theorem get_writeLoc_ne (σ : Store) (l : Loc) (v : Nat) (k : Key) (h : k.1 ≠ l.x) :
    (writeLoc σ l v).get k = σ.get k := by
  unfold writeLoc
  split
  · apply Store.get_set_ne
    intro hk; apply h; rw [hk]
  · rfl

theorem poke_read (old lo w v : Nat) : (poke old lo w v / 2 ^ lo) % 2 ^ w = v % 2 ^ w := by
  unfold poke
  have hp : 0 < 2 ^ lo := Nat.two_pow_pos _
  have e1 : old / 2 ^ (lo + w) * 2 ^ (lo + w) = (old / 2 ^ (lo + w) * 2 ^ w) * 2 ^ lo := by
    rw [Nat.pow_add, Nat.mul_assoc, Nat.mul_comm (2 ^ lo)]
  rw [e1, Nat.add_assoc, ← Nat.add_mul, Nat.add_mul_div_right _ _ hp,
    Nat.div_eq_of_lt (Nat.mod_lt _ hp), Nat.zero_add, Nat.add_mul_mod_self_right,
    Nat.mod_mod]

/-- reading back the location just written gives the written value (truncated to its width) -/
theorem readLoc_writeLoc (σ : Store) (l : Loc) (v : Nat) (hok : l.ok = true) (hd : l.dims = []) :
    readLoc (writeLoc σ l v) l = v % 2 ^ l.ty.width := by
  simp [readLoc, writeLoc, hok, hd, Store.get_set_eq, poke_read]

/-! ### arithmetic facts -/

theorem shl_big (a b w : Nat) (h : b ≥ w) : (a * 2 ^ b) % 2 ^ w = 0 := by
  obtain ⟨k, rfl⟩ : ∃ k, b = w + k := ⟨b - w, by omega⟩
  have : a * 2 ^ (w + k) = 2 ^ w * (a * 2 ^ k) := by
    rw [Nat.pow_add, Nat.mul_left_comm]
  rw [this]
  exact Nat.mul_mod_right _ _

theorem replVal_one_zero (k : Nat) : replVal 1 0 k = 0 := by
  induction k with
  | zero => rfl
  | succ k ih => simp [replVal, ih]

theorem replVal_one_one (k : Nat) : replVal 1 1 k = 2 ^ k - 1 := by
  induction k with
  | zero => rfl
  | succ k ih =>
    have := Nat.two_pow_pos k
    simp only [replVal, ih, Nat.pow_succ]; omega

theorem b2n_le (b : Bool) : b2n b < 2 := by cases b <;> simp [b2n]

theorem parity_lt (f v : Nat) : parity f v < 2 := by
  induction f generalizing v with
  | zero => simp [parity]
  | succ f ih =>
    simp only [parity]
    split
    · omega
    · exact Nat.mod_lt _ (by omega)

/-- the most significant bit of a `w`-bit value -/
theorem msb_eq (a w : Nat) (hw : 0 < w) (ha : a < 2 ^ w) :
    (a / 2 ^ (w - 1)) % 2 = b2n (decide (a ≥ 2 ^ (w - 1))) := by
  have hp : 0 < 2 ^ (w - 1) := Nat.two_pow_pos _
  have h2 : 2 ^ w = 2 ^ (w - 1) * 2 := by
    rw [← Nat.pow_succ]; congr 1; omega
  have hlt : a / 2 ^ (w - 1) < 2 := by
    rw [Nat.div_lt_iff_lt_mul hp]; omega
  by_cases hge : a ≥ 2 ^ (w - 1)
  · have : 1 ≤ a / 2 ^ (w - 1) := by
      rw [Nat.le_div_iff_mul_le hp]; omega
    simp [b2n, hge]; omega
  · have : a / 2 ^ (w - 1) = 0 := Nat.div_eq_of_lt (by omega)
    simp [b2n, hge, this]

/-- bit `m` of the `n`-bit field starting at bit `a` of `g` is bit `a + m` of `g` -/
theorem bit_of_field (g a n m : Nat) (h : m < n) :
    (g / 2 ^ a % 2 ^ n) / 2 ^ m % 2 = g / 2 ^ (a + m) % 2 := by
  have hn : 2 ^ n = 2 ^ m * 2 ^ (n - m) := by rw [← Nat.pow_add]; congr 1; omega
  rw [hn, Nat.mod_mul_right_div_self, Nat.div_div_eq_div_mul, ← Nat.pow_add]
  have hd : 2 ∣ 2 ^ (n - m) := by
    have : n - m = (n - m - 1) + 1 := by omega
    rw [this, Nat.pow_succ]; exact Nat.dvd_mul_left _ _
  exact Nat.mod_mod_of_dvd _ hd

theorem pySext_lt (cw w a : Nat) (hcw : cw ≤ w) (ha : a < 2 ^ cw) : pySext cw w a < 2 ^ w := by
  have : 2 ^ cw ≤ 2 ^ w := Nat.pow_le_pow_right (by omega) hcw
  unfold pySext; split <;> omega

/-- value of the sign-extension template `{ {k{b}}, v }` -/
theorem sext_val (cw w a : Nat) (hlt : cw < w) :
    replVal 1 (b2n (decide (a ≥ 2 ^ (cw - 1)))) (w - cw) * 2 ^ cw + a = pySext cw w a := by
  have hw : 2 ^ (w - cw) * 2 ^ cw = 2 ^ w := by rw [← Nat.pow_add]; congr 1; omega
  have hp := Nat.two_pow_pos (w - cw)
  unfold pySext
  by_cases hge : a ≥ 2 ^ (cw - 1)
  · simp only [hge, decide_true, b2n, if_true, replVal_one_one, Nat.sub_mul, Nat.one_mul, hw]
    have : 2 ^ cw ≤ 2 ^ w := Nat.pow_le_pow_right (by omega) (Nat.le_of_lt hlt)
    omega
  · simp [hge, b2n, replVal_one_zero]

/-! ### generic facts about `eval`, `loc`, `typeOf`, `selfWidth` -/

/-- a resolvable select is evaluated by reading its location, in any context -/
theorem eval_of_loc {cb Γ σ W S x l} (h : loc cb Γ σ x = some l) : evalC cb Γ σ W S x = readLoc σ l := by
  cases x <;> simp [evalC, loc] at h ⊢ <;> simp [h]

/-- an operand as wide as its context is not extended -/
theorem ext_self (s : Bool) (w v : Nat) : ext s w w v = v := by simp [ext]

/-- an operand is never sign-extended into an unsigned context -/
theorem ext_false (w W v : Nat) : ext false w W v = v := by simp [ext]

theorem selfWidth_of_typeOf {Γ : Env} {x : Expr} {d : Decl} (h : typeOf Γ x = some d) :
    selfWidth Γ x = d.ty.width := by
  cases x with
  | ident y => simp [typeOf] at h; simp [selfWidth, h]
  | member e f => simp [selfWidth, h]
  | index e i => simp [selfWidth, h]
  | range e hi lo =>
    simp only [typeOf] at h
    split at h <;> simp at h
    next h1 h2 h3 => subst h; simp [selfWidth, h2, h3, PTy.width]
  | plusSel e b w =>
    simp only [typeOf] at h
    split at h <;> simp at h
    next h1 h2 => subst h; simp [selfWidth, h2, PTy.width]
  | _ => simp [typeOf] at h

/-- expressions whose value depends neither on the width nor on the type of the context (every operand is
    self-determined and the result is unsigned) -/
def ctxFree : Expr → Bool
  | .num _ => false
  | .sgn _ => false
  | .cast _ e => !signedOf e
  | .un op _ => match op with | .bnot | .neg | .plus => false | _ => true
  | .bin op _ _ =>
    match op with
    | .add | .sub | .mul | .div | .mod | .band | .bor | .bxor | .bxnor | .shl | .shr | .ashr | .pow => false
    | _ => true
  | .cond _ _ _ => false
  | _ => true

theorem eval_ctxFree {cb Γ σ x} (h : ctxFree x = true) (W W' : Nat) (S S' : Bool) :
    evalC cb Γ σ W S x = evalC cb Γ σ W' S' x := by
  cases x with
  | un op e => cases op <;> simp [ctxFree] at h <;> simp [evalC]
  | bin op a b => cases op <;> simp [ctxFree] at h <;> simp [evalC]
  | cond c t f => simp [ctxFree] at h
  | num v => simp [ctxFree] at h
  | sgn e => simp [ctxFree] at h
  | cast w e => simp [ctxFree] at h; simp [evalC, h, ext]
  | _ => simp [evalC]

/-! ### soundness predicates -/

/-- the constants of the component hold their values in the `localparam` variables -/
def HoldsC (σ : Store) (C : List (String × Nat)) : Prop := ∀ x v, (x, v) ∈ C → σ.get (x, 0) = v

/-- value position: the translation, evaluated in a context of the node's width — of whatever type `S` the
    enclosing expression propagates to it (a signed context only reaches signed operands, §11.8.1) — has the
    Python value -/
def SoundV (be : Backend) (cb : Bool) (Γ : Env) (σ : Store) (e : RExpr) : Prop :=
  selfWidth Γ (tr be e) = e.width ∧
  ∀ v, evalPy be Γ σ e = some v →
    (∀ S, (S = true → signedOf (tr be e) = true) → evalC cb Γ σ e.width S (tr be e) = v) ∧ v < 2 ^ e.width

/-- … in particular as the root of its own context -/
theorem SoundV.self {be : Backend} {cb : Bool} {Γ : Env} {σ : Store} {e : RExpr} (h : SoundV be cb Γ σ e)
    {v : Nat} (hv : evalPy be Γ σ e = some v) :
    evalC cb Γ σ e.width (signedOf (tr be e)) (tr be e) = v := (h.2 v hv).1 _ id

/-- reference position: the translation resolves to the same storage, of the declared type -/
def SoundR (be : Backend) (cb : Bool) (Γ : Env) (σ : Store) (d : Decl) (e : RExpr) : Prop :=
  typeOf Γ (tr be e) = some d ∧
  ∀ l, refPy be Γ σ e = some l →
    loc cb Γ σ (tr be e) = some l ∧ l.ok = true ∧ l.ty = d.ty ∧ l.dims = d.dims

section cases
variable {be : Backend} {cb : Bool} {Γ : Env} {σ : Store}

/-! #### reference position -/

theorem sound_rsig {x : String} {w : Nat} {d : Decl} (h : Γ x = some d) :
    SoundR be cb Γ σ d (.sig x w) := by
  refine ⟨by simp [tr, typeOf, h], ?_⟩
  intro l hr
  simp [refPy, h] at hr; subst hr
  simp [tr, loc, h]

theorem sound_rtmp {x : String} {w : Nat} {d : Decl} (h : Γ x = some d) :
    SoundR be cb Γ σ d (.tmpvar x w true) := by
  refine ⟨by simp [tr, typeOf, h], ?_⟩
  intro l hr
  simp [refPy, h] at hr; subst hr
  simp [tr, loc, h]

theorem sound_rfield {e : RExpr} {f : String} {w : Nat} {n : String} {fs : Fields} {off : Nat} {t : PTy}
    (hR : SoundR .verilog cb Γ σ ⟨.struct n fs, []⟩ e) (hf : fs.find f = some (off, t)) :
    SoundR .verilog cb Γ σ ⟨t, []⟩ (.field e f w) := by
  refine ⟨by simp [tr, typeOf, hR.1, hf], ?_⟩
  intro l hr
  cases hre : refPy .verilog Γ σ e with
  | none => simp [refPy, hre] at hr
  | some l0 =>
    obtain ⟨h1, h2, h3, h4⟩ := hR.2 l0 hre
    obtain ⟨x, el, lo, t0, dims0, ok⟩ := l0
    simp at h2 h3 h4; subst h2 h3 h4
    simp [refPy, hre, hf] at hr; subst hr
    simp [tr, loc, h1, hf]

theorem sound_ridxU {e i : RExpr} {w : Nat} {t : PTy} {d : Nat} {ds : List Nat}
    (hR : SoundR be cb Γ σ ⟨t, d :: ds⟩ e) (hI : SoundV be cb Γ σ i) :
    SoundR be cb Γ σ ⟨t, ds⟩ (.index e i w) := by
  refine ⟨by simp [tr, typeOf, hR.1], ?_⟩
  intro l hr
  cases hre : refPy be Γ σ e with
  | none => simp [refPy, hre] at hr
  | some l0 =>
    obtain ⟨h1, h2, h3, h4⟩ := hR.2 l0 hre
    obtain ⟨x, el, lo, t0, dims0, ok⟩ := l0
    simp at h2 h3 h4; subst h2 h3 h4
    cases hi : evalPy be Γ σ i with
    | none => simp [refPy, hre, hi] at hr
    | some iv =>
      have g1 := hI.self hi
      have g2 := hI.1
      simp [refPy, hre, hi] at hr
      obtain ⟨hlt, rfl⟩ := hr
      simp [tr, loc, h1, g1, g2, hlt]

theorem sound_ridxA {e i : RExpr} {w : Nat} {t : PTy} {n : Nat}
    (hR : SoundR be cb Γ σ ⟨.arr n t, []⟩ e) (hI : SoundV be cb Γ σ i) :
    SoundR be cb Γ σ ⟨t, []⟩ (.index e i w) := by
  refine ⟨by simp [tr, typeOf, hR.1], ?_⟩
  intro l hr
  cases hre : refPy be Γ σ e with
  | none => simp [refPy, hre] at hr
  | some l0 =>
    obtain ⟨h1, h2, h3, h4⟩ := hR.2 l0 hre
    obtain ⟨x, el, lo, t0, dims0, ok⟩ := l0
    simp at h2 h3 h4; subst h2 h3 h4
    cases hi : evalPy be Γ σ i with
    | none => simp [refPy, hre, hi] at hr
    | some iv =>
      have g1 := hI.self hi
      have g2 := hI.1
      simp [refPy, hre, hi] at hr
      obtain ⟨hlt, rfl⟩ := hr
      simp [tr, loc, h1, g1, g2, hlt]

theorem sound_ridxB {e i : RExpr} {w : Nat} {W : Nat}
    (hR : SoundR be cb Γ σ ⟨.vec W, []⟩ e) (hI : SoundV be cb Γ σ i) :
    SoundR be cb Γ σ ⟨.vec 1, []⟩ (.index e i w) := by
  refine ⟨by simp [tr, typeOf, hR.1], ?_⟩
  intro l hr
  cases hre : refPy be Γ σ e with
  | none => simp [refPy, hre] at hr
  | some l0 =>
    obtain ⟨h1, h2, h3, h4⟩ := hR.2 l0 hre
    obtain ⟨x, el, lo, t0, dims0, ok⟩ := l0
    simp at h2 h3 h4; subst h2 h3 h4
    cases hi : evalPy be Γ σ i with
    | none => simp [refPy, hre, hi] at hr
    | some iv =>
      have g1 := hI.self hi
      have g2 := hI.1
      simp [refPy, hre, hi] at hr
      obtain ⟨hlt, rfl⟩ := hr
      simp [tr, loc, h1, g1, g2, hlt]

theorem sound_rslice {e : RExpr} {lo hi lw uw W : Nat}
    (hR : SoundR be cb Γ σ ⟨.vec W, []⟩ e) (h1 : lo < hi) (h2 : hi ≤ W) (h3 : lo < 2 ^ lw)
    (h4 : hi - 1 < 2 ^ uw) :
    SoundR be cb Γ σ ⟨.vec (hi - lo), []⟩ (.slice e lo hi lw uw) := by
  have c1 : constVal (.lit uw (hi - 1)) = some (hi - 1) := by simp [constVal, Nat.mod_eq_of_lt h4]
  have c2 : constVal (.lit lw lo) = some lo := by simp [constVal, Nat.mod_eq_of_lt h3]
  have e1 : hi - 1 + 1 - lo = hi - lo := by omega
  refine ⟨by simp [tr, typeOf, hR.1, c1, c2, e1], ?_⟩
  intro l hr
  cases hre : refPy be Γ σ e with
  | none => simp [refPy, hre] at hr
  | some l0 =>
    obtain ⟨g1, g2, g3, g4⟩ := hR.2 l0 hre
    obtain ⟨x, el, lo0, t0, dims0, ok⟩ := l0
    simp at g2 g3 g4; subst g2 g3 g4
    simp [refPy, hre, h1, h2] at hr; subst hr
    simp [tr, loc, g1, c1, c2, e1]; omega

theorem sound_rpartsel {e b : RExpr} {w W : Nat}
    (hR : SoundR be cb Γ σ ⟨.vec W, []⟩ e) (hB : SoundV be cb Γ σ b) :
    SoundR be cb Γ σ ⟨.vec w, []⟩ (.partsel e b w) := by
  refine ⟨by simp [tr, typeOf, hR.1, constVal], ?_⟩
  intro l hr
  cases hre : refPy be Γ σ e with
  | none => simp [refPy, hre] at hr
  | some l0 =>
    obtain ⟨h1, h2, h3, h4⟩ := hR.2 l0 hre
    obtain ⟨x, el, lo, t0, dims0, ok⟩ := l0
    simp at h2 h3 h4; subst h2 h3 h4
    cases hi : evalPy be Γ σ b with
    | none => simp [refPy, hre, hi] at hr
    | some bv =>
      have g1 := hB.self hi
      have g2 := hB.1
      simp [refPy, hre, hi] at hr
      obtain ⟨hlt, rfl⟩ := hr
      simp [tr, loc, h1, g1, g2, hlt, constVal]

/-! #### value position: signals and selects -/

/-- the RTLIR forms that denote storage -/
def isSel : RExpr → Bool
  | .sig _ _ | .tmpvar _ _ _ | .field _ _ _ | .index _ _ _ | .slice _ _ _ _ _ | .partsel _ _ _ => true
  | _ => false

theorem evalPy_sel {e : RExpr} (h : isSel e = true) :
    evalPy be Γ σ e = (refPy be Γ σ e).map (readLoc σ) := by
  cases e <;> simp [isSel] at h <;> simp only [evalPy] <;> split <;> simp_all

theorem sound_ofRef {e : RExpr} {ty : PTy} (hs : isSel e = true)
    (hR : SoundR be cb Γ σ ⟨ty, []⟩ e) (hw : ty.width = e.width) : SoundV be cb Γ σ e := by
  refine ⟨by rw [selfWidth_of_typeOf hR.1]; exact hw, ?_⟩
  intro v hv
  rw [evalPy_sel hs] at hv
  cases hre : refPy be Γ σ e with
  | none => simp [hre] at hv
  | some l =>
    obtain ⟨h1, h2, h3, h4⟩ := hR.2 l hre
    simp [hre] at hv; subst hv
    refine ⟨fun _ _ => eval_of_loc h1, ?_⟩
    have := readLoc_lt σ l
    rw [h3] at this; simpa [hw] using this

/-! #### value position: leaves -/

theorem sound_num {w v : Nat} (hv : v < 2 ^ w) : SoundV be cb Γ σ (.num w v) := by
  refine ⟨by simp [tr, selfWidth, RExpr.width], ?_⟩
  intro v' h
  simp [evalPy] at h; subst h
  exact ⟨fun S _ => by simp [tr, evalC, Nat.mod_eq_of_lt hv], hv⟩

theorem sound_castC {w v : Nat} (hv : v < 2 ^ w) : SoundV be cb Γ σ (.castC w v) := by
  refine ⟨by simp [tr, selfWidth, RExpr.width], ?_⟩
  intro v' h
  simp [evalPy] at h; subst h
  exact ⟨fun S _ => by simp [tr, evalC, Nat.mod_eq_of_lt hv], hv⟩

/-- value of `w'(x)` for a plain variable `x` -/
theorem eval_cast_ident {x : String} {ty : PTy} {w W : Nat} {S : Bool} (h : Γ x = some ⟨ty, []⟩) :
    evalC cb Γ σ W S (.cast w (.ident x)) = (σ.get (x, 0) % 2 ^ ty.width) % 2 ^ w := by
  simp [evalC, loc, h, readLoc, signedOf, ext]

/-- value of `w'(x)` for a variable `x` of a signed 32-bit type, in a context of its own width -/
theorem eval_cast_sgn_ident {x : String} {w : Nat} {S : Bool} (h : Γ x = some ⟨.vec 32, []⟩) (hw : w ≤ 32) :
    evalC cb Γ σ w S (.cast w (.sgn (.ident x))) = (σ.get (x, 0) % 2 ^ 32) % 2 ^ w := by
  have hm : max w 32 = 32 := Nat.max_eq_right hw
  simp [evalC, loc, h, readLoc, signedOf, selfWidth, ext_self, PTy.width, hm]

theorem sound_tmpI {x : String} {w : Nat} {ty : PTy} (h : Γ x = some ⟨ty, []⟩) (hw : ty.width = w) :
    SoundV be cb Γ σ (.tmpvar x w false) := by
  refine ⟨by simp [tr, selfWidth, RExpr.width], ?_⟩
  intro v hv
  simp [evalPy, refPy, h, readLoc] at hv; subst hv
  have := Nat.mod_lt (σ.get (x, 0)) (Nat.two_pow_pos ty.width)
  rw [hw] at this ⊢
  exact ⟨fun S _ => by simp [tr, eval_cast_ident h, hw, RExpr.width, Nat.mod_eq_of_lt this], this⟩

theorem sound_loopvar {blk x : String} {w : Nat} (h : Γ (loopVarName be blk x) = some ⟨.vec 32, []⟩)
    (hw : w ≤ 32) : SoundV be cb Γ σ (.loopvar blk x w) := by
  refine ⟨by cases be <;> simp [tr, selfWidth, RExpr.width], ?_⟩
  intro v hv
  simp [evalPy] at hv
  obtain ⟨hlt, rfl⟩ := hv
  have h32 : σ.get (loopVarName be blk x, 0) < 2 ^ 32 :=
    Nat.lt_of_lt_of_le hlt (Nat.pow_le_pow_right (by omega) hw)
  refine ⟨fun S _ => ?_, hlt⟩
  cases be with
  | verilog => simp [tr, eval_cast_ident h, RExpr.width, PTy.width, Nat.mod_eq_of_lt h32, Nat.mod_eq_of_lt hlt]
  | yosys => simp [tr, eval_cast_sgn_ident h hw, RExpr.width, Nat.mod_eq_of_lt h32, Nat.mod_eq_of_lt hlt]

theorem sound_constV {x : String} {w v cw : Nat} {C : List (String × Nat)} (hC : HoldsC σ C)
    (hv : v < 2 ^ w) (h : Γ x = some ⟨.vec cw, []⟩) (hcv : v < 2 ^ cw) (hm : (x, v) ∈ C) :
    SoundV .verilog cb Γ σ (.const x w v) := by
  refine ⟨by simp [tr, selfWidth, RExpr.width], ?_⟩
  intro v' hv'
  simp [evalPy] at hv'; subst hv'
  exact ⟨fun S _ => by simp [tr, eval_cast_ident h, hC x v hm, RExpr.width, PTy.width, Nat.mod_eq_of_lt hcv,
    Nat.mod_eq_of_lt hv], hv⟩

theorem sound_constY {x : String} {w v : Nat} (hv : v < 2 ^ w) :
    SoundV .yosys cb Γ σ (.const x w v) := by
  refine ⟨by simp [tr, selfWidth, RExpr.width], ?_⟩
  intro v' h
  simp [evalPy] at h; subst h
  exact ⟨fun S _ => by simp [tr, evalC, Nat.mod_eq_of_lt hv], hv⟩

theorem sound_freevarV {x : String} {w v cw : Nat} {C : List (String × Nat)} (hC : HoldsC σ C)
    (hv : v < 2 ^ w) (h : Γ ("__const__" ++ x) = some ⟨.vec cw, []⟩) (hcv : v < 2 ^ cw)
    (hm : ("__const__" ++ x, v) ∈ C) :
    SoundV .verilog cb Γ σ (.freevar x w v) := by
  refine ⟨by simp [tr, selfWidth, RExpr.width], ?_⟩
  intro v' hv'
  simp [evalPy] at hv'; subst hv'
  exact ⟨fun S _ => by simp [tr, eval_cast_ident h, hC _ v hm, RExpr.width, PTy.width, Nat.mod_eq_of_lt hcv,
    Nat.mod_eq_of_lt hv], hv⟩

theorem sound_freevarY {x : String} {w v : Nat} (hv : v < 2 ^ w) :
    SoundV .yosys cb Γ σ (.freevar x w v) := by
  refine ⟨by simp [tr, selfWidth, RExpr.width], ?_⟩
  intro v' h
  simp [evalPy] at h; subst h
  exact ⟨fun S _ => by simp [tr, evalC, Nat.mod_eq_of_lt hv], hv⟩

/-! #### value position: operators -/

theorem sound_inv {e : RExpr} (hE : SoundV be cb Γ σ e) : SoundV be cb Γ σ (.inv e) := by
  refine ⟨by simp [tr, selfWidth, RExpr.width, hE.1], ?_⟩
  intro v hv
  cases he : evalPy be Γ σ e with
  | none => simp [evalPy, he] at hv
  | some a =>
    obtain ⟨g1, g3⟩ := hE.2 a he
    simp [evalPy, he] at hv; subst hv
    have := Nat.two_pow_pos e.width
    refine ⟨fun S hS => ?_, by simp only [RExpr.width]; omega⟩
    have g1' := g1 S (fun h => by simpa [tr, signedOf] using hS h)
    simp only [tr, evalC, RExpr.width, unVal, g1', Nat.mod_eq_of_lt g3]

theorem sound_reduce {op : ROp} {e : RExpr} (hE : SoundV be cb Γ σ e) :
    SoundV be cb Γ σ (.reduce op e) := by
  refine ⟨by cases op <;> simp [tr, trRed, selfWidth, RExpr.width], ?_⟩
  intro v hv
  cases he : evalPy be Γ σ e with
  | none => simp [evalPy, he] at hv
  | some a =>
    have g1 := hE.self he
    have g2 := hE.1
    simp [evalPy, he] at hv; subst hv
    refine ⟨fun S _ => ?_, by cases op <;> simp [RExpr.width, pyReduce, b2n_le, parity_lt]⟩
    cases op <;> simp [tr, trRed, evalC, RExpr.width, unVal, pyReduce, g1, g2]

/-- the operators `+ - * % & | ^`; `%` applied to two signed operands is a signed remainder: excluded (`hss`) -/
theorem sound_arith {op : RBin} {a b : RExpr} (hA : SoundV be cb Γ σ a) (hB : SoundV be cb Γ σ b)
    (hw : a.width = b.width) (hop : op ≠ .shl ∧ op ≠ .shr)
    (hss : op = .mod → (sgnOf be a && sgnOf be b) = false) : SoundV be cb Γ σ (.bin op a b) := by
  refine ⟨by cases op <;> simp [tr, trBin, selfWidth, RExpr.width, hA.1, hB.1, hw], ?_⟩
  intro v hv
  cases hea : evalPy be Γ σ a with
  | none => simp [evalPy, hea] at hv
  | some va =>
  cases heb : evalPy be Γ σ b with
  | none => simp [evalPy, hea, heb] at hv
  | some vb =>
    obtain ⟨a1, a3⟩ := hA.2 va hea
    obtain ⟨b1, b3⟩ := hB.2 vb heb
    rw [← hw] at b1 b3
    simp [evalPy, hea, heb] at hv
    have hp := Nat.two_pow_pos a.width
    -- the type of the node: signed iff both operands are
    have hsg : signedOf (tr be (.bin op a b)) = (signedOf (tr be a) && signedOf (tr be b)) := by
      cases op <;> simp [tr, trBin, signedOf] at hop ⊢
    have key : ∀ S, (S = true → signedOf (tr be (.bin op a b)) = true) →
        evalC cb Γ σ a.width S (tr be a) = va ∧ evalC cb Γ σ a.width S (tr be b) = vb ∧
        (op = .mod → S = false) := by
      intro S hS
      rw [hsg] at hS
      refine ⟨a1 S (fun h => by have := hS h; simp at this; exact this.1),
              b1 S (fun h => by have := hS h; simp at this; exact this.2), ?_⟩
      intro hm
      have := hss hm
      cases S with
      | false => rfl
      | true => have h2 := hS rfl; simp [sgnOf] at this h2; simp [h2] at this
    cases op <;> simp [pyBin] at hv hop
    all_goals first | subst hv | (obtain ⟨hnz, rfl⟩ := hv)
    case mod =>
      refine ⟨fun S hS => ?_, Nat.lt_of_le_of_lt (Nat.mod_le _ _) a3⟩
      obtain ⟨k1, k2, k3⟩ := key S hS
      have hS0 := k3 rfl
      subst hS0
      simp [tr, trBin, evalC, RExpr.width, binVal, k1, k2, hnz]
    all_goals refine ⟨fun S hS => ?_, ?_⟩
    all_goals first
      | (obtain ⟨k1, k2, k3⟩ := key S hS
         simp only [tr, trBin, evalC, RExpr.width, binVal, k1, k2, Nat.mod_eq_of_lt b3]
         done)
      | skip
    · exact Nat.mod_lt _ hp
    · exact Nat.mod_lt _ hp
    · exact Nat.mod_lt _ hp
    · exact Nat.and_lt_two_pow _ b3
    · exact Nat.or_lt_two_pow a3 b3
    · exact Nat.xor_lt_two_pow a3 b3

theorem sound_shl {a b : RExpr} (hA : SoundV be cb Γ σ a) (hB : SoundV be cb Γ σ b) :
    SoundV be cb Γ σ (.bin .shl a b) := by
  refine ⟨by simp [tr, trBin, selfWidth, RExpr.width, hA.1], ?_⟩
  intro v hv
  cases hea : evalPy be Γ σ a with
  | none => simp [evalPy, hea] at hv
  | some va =>
  cases heb : evalPy be Γ σ b with
  | none => simp [evalPy, hea, heb] at hv
  | some vb =>
    obtain ⟨a1, a3⟩ := hA.2 va hea
    have b1 := hB.self heb
    have b2 := hB.1
    simp [evalPy, hea, heb, pyBin] at hv; subst hv
    have hp := Nat.two_pow_pos a.width
    refine ⟨fun S hS => ?_, by split; exact hp; exact Nat.mod_lt _ hp⟩
    have a1' := a1 S (fun h => by simpa [tr, trBin, signedOf] using hS h)
    simp only [tr, trBin, evalC, RExpr.width, binVal, a1', b1, b2]

theorem sound_shr {a b : RExpr} (hA : SoundV be cb Γ σ a) (hB : SoundV be cb Γ σ b) :
    SoundV be cb Γ σ (.bin .shr a b) := by
  refine ⟨by simp [tr, trBin, selfWidth, RExpr.width, hA.1], ?_⟩
  intro v hv
  cases hea : evalPy be Γ σ a with
  | none => simp [evalPy, hea] at hv
  | some va =>
  cases heb : evalPy be Γ σ b with
  | none => simp [evalPy, hea, heb] at hv
  | some vb =>
    obtain ⟨a1, a3⟩ := hA.2 va hea
    have b1 := hB.self heb
    have b2 := hB.1
    simp [evalPy, hea, heb, pyBin] at hv; subst hv
    refine ⟨fun S hS => ?_, Nat.lt_of_le_of_lt (Nat.div_le_self _ _) a3⟩
    have a1' := a1 S (fun h => by simpa [tr, trBin, signedOf] using hS h)
    simp only [tr, trBin, evalC, RExpr.width, binVal, a1', b1, b2, Nat.shiftRight_eq_div_pow]

/-- comparisons: the two operands form their own context, signed iff both are signed; an ordering comparison of
    two signed operands is a signed comparison: excluded (`hss`) -/
theorem sound_cmp {op : RCmp} {a b : RExpr} (hA : SoundV be cb Γ σ a) (hB : SoundV be cb Γ σ b)
    (hw : a.width = b.width) (hss : op.ordering = true → (sgnOf be a && sgnOf be b) = false) :
    SoundV be cb Γ σ (.cmp op a b) := by
  refine ⟨by cases op <;> simp [tr, trCmp, selfWidth, RExpr.width], ?_⟩
  intro v hv
  cases hea : evalPy be Γ σ a with
  | none => simp [evalPy, hea] at hv
  | some va =>
  cases heb : evalPy be Γ σ b with
  | none => simp [evalPy, hea, heb] at hv
  | some vb =>
    obtain ⟨a1, a3⟩ := hA.2 va hea
    obtain ⟨b1, b3⟩ := hB.2 vb heb
    have a2 := hA.1
    have b2 := hB.1
    rw [← hw] at b1 b2 b3
    simp [evalPy, hea, heb] at hv; subst hv
    have a1' := a1 (signedOf (tr be a) && signedOf (tr be b)) (fun h => by simp at h; exact h.1)
    have b1' := b1 (signedOf (tr be a) && signedOf (tr be b)) (fun h => by simp at h; exact h.2)
    refine ⟨fun S _ => ?_, by cases op <;> simp [RExpr.width, pyCmp, b2n_le]⟩
    cases op
    case eq => simp [tr, trCmp, evalC, RExpr.width, binVal, pyCmp, a1', a2, b1', b2]
    case ne => simp [tr, trCmp, evalC, RExpr.width, binVal, pyCmp, a1', a2, b1', b2]
    all_goals
      have hu := hss rfl
      simp only [sgnOf] at hu
      rw [hu] at a1' b1'
      simp [tr, trCmp, evalC, RExpr.width, binVal, pyCmp, a1', a2, b1', b2, hu]

theorem sound_ifexp {c t f : RExpr} (hC : SoundV be cb Γ σ c) (hT : SoundV be cb Γ σ t)
    (hF : SoundV be cb Γ σ f) (hw : t.width = f.width) : SoundV be cb Γ σ (.ifexp c t f) := by
  refine ⟨by simp [tr, selfWidth, RExpr.width, hT.1, hF.1, hw], ?_⟩
  intro v hv
  cases hec : evalPy be Γ σ c with
  | none => simp [evalPy, hec] at hv
  | some vc =>
    have c1 := hC.self hec
    have c2 := hC.1
    simp [evalPy, hec] at hv
    by_cases hz : vc = 0
    · simp [hz] at hv
      obtain ⟨f1, f3⟩ := hF.2 v hv
      rw [← hw] at f1 f3
      refine ⟨fun S hS => ?_, f3⟩
      have f1' := f1 S (fun h => by have := hS h; simp [tr, signedOf] at this; exact this.2)
      simp [tr, evalC, RExpr.width, c1, c2, hz, f1']
    · simp [hz] at hv
      obtain ⟨t1, t3⟩ := hT.2 v hv
      refine ⟨fun S hS => ?_, t3⟩
      have t1' := t1 S (fun h => by have := hS h; simp [tr, signedOf] at this; exact this.1)
      simp [tr, evalC, RExpr.width, c1, c2, hz, t1']

/-! #### value position: concatenation, extension, truncation, size cast -/

theorem sound_cat1 {e : RExpr} (hE : SoundV be cb Γ σ e) : SoundV be cb Γ σ (.cat1 e) := by
  refine ⟨by simp [tr, selfWidth, RExpr.width, hE.1], ?_⟩
  intro v hv
  simp only [evalPy] at hv
  have g1 := hE.self hv
  obtain ⟨_, g3⟩ := hE.2 v hv
  exact ⟨fun S _ => by simp [tr, evalC, RExpr.width, hE.1, g1], g3⟩

theorem sound_concat {a r : RExpr} (hA : SoundV be cb Γ σ a) (hR : SoundV be cb Γ σ r) :
    SoundV be cb Γ σ (.concat a r) := by
  refine ⟨by simp [tr, selfWidth, RExpr.width, hA.1, hR.1], ?_⟩
  intro v hv
  cases hea : evalPy be Γ σ a with
  | none => simp [evalPy, hea] at hv
  | some va =>
  cases her : evalPy be Γ σ r with
  | none => simp [evalPy, hea, her] at hv
  | some vr =>
    have a1 := hA.self hea
    have r1 := hR.self her
    obtain ⟨_, a3⟩ := hA.2 va hea
    obtain ⟨_, r3⟩ := hR.2 vr her
    simp [evalPy, hea, her] at hv; subst hv
    refine ⟨fun S _ => by simp only [tr, evalC, RExpr.width, hA.1, hR.1, a1, r1], ?_⟩
    simp only [RExpr.width]
    rw [Nat.pow_add]
    calc va * 2 ^ r.width + vr < va * 2 ^ r.width + 2 ^ r.width := by omega
      _ = (va + 1) * 2 ^ r.width := by rw [Nat.add_mul, Nat.one_mul]
      _ ≤ 2 ^ a.width * 2 ^ r.width := Nat.mul_le_mul_right _ a3

/-- `{ {k{1'b0}}, x }` has the value of `x` and `k` more bits -/
theorem zextTpl_eval {k W : Nat} {S : Bool} {x : Expr} :
    evalC cb Γ σ W S (zextTpl k x) = evalC cb Γ σ (selfWidth Γ x) (signedOf x) x := by
  simp [zextTpl, evalC, selfWidth, constVal, replVal_one_zero]

theorem zextTpl_width {k : Nat} {x : Expr} : selfWidth Γ (zextTpl k x) = k + selfWidth Γ x := by
  simp [zextTpl, selfWidth, constVal]

theorem sound_zext {w : Nat} {e : RExpr} (hE : SoundV be cb Γ σ e) (hw : e.width ≤ w) :
    SoundV be cb Γ σ (.zext w e) := by
  have hle : 2 ^ e.width ≤ 2 ^ w := Nat.pow_le_pow_right (by omega) hw
  by_cases hk : w - e.width = 0
  · have : e.width = w := by omega
    refine ⟨by simp [tr, RExpr.width, hE.1, this], ?_⟩
    intro v hv
    simp only [evalPy] at hv
    obtain ⟨g1, g3⟩ := hE.2 v hv
    simp only [tr, hk, RExpr.width, if_true]
    rw [← this]; exact ⟨g1, g3⟩
  · refine ⟨by simp [tr, hk, RExpr.width, zextTpl_width, hE.1]; omega, ?_⟩
    intro v hv
    simp only [evalPy] at hv
    have g1 := hE.self hv
    obtain ⟨_, g3⟩ := hE.2 v hv
    refine ⟨fun S _ => ?_, by simp only [RExpr.width]; omega⟩
    simp only [tr, hk, RExpr.width, if_false, zextTpl_eval, hE.1, g1]

theorem sound_trunc {w : Nat} {e : RExpr} (hE : SoundV be cb Γ σ e) (hw : w ≤ e.width) :
    SoundV be cb Γ σ (.trunc w e) := by
  by_cases hk : e.width > w
  · refine ⟨by simp [tr, hk, RExpr.width, selfWidth], ?_⟩
    intro v hv
    cases he : evalPy be Γ σ e with
    | none => simp [evalPy, he] at hv
    | some a =>
      have g1 := hE.self he
      simp [evalPy, he] at hv; subst hv
      have hm : max w e.width = e.width := by omega
      refine ⟨fun S _ => ?_, Nat.mod_lt _ (Nat.two_pow_pos _)⟩
      simp only [tr, hk, RExpr.width, if_true, evalC, hE.1, hm, ite_self, g1, ext_self]
  · have : e.width = w := by omega
    refine ⟨by simp [tr, RExpr.width, hE.1, this], ?_⟩
    intro v hv
    cases he : evalPy be Γ σ e with
    | none => simp [evalPy, he] at hv
    | some a =>
      obtain ⟨g1, g3⟩ := hE.2 a he
      simp [evalPy, he] at hv; subst hv
      simp only [tr, hk, RExpr.width, if_false]
      rw [← this, Nat.mod_eq_of_lt g3]; exact ⟨g1, g3⟩

/-- size cast to the operand's own width (both backends) -/
theorem sound_castEq {w : Nat} {e : RExpr} (hE : SoundV be cb Γ σ e) (hw : e.width = w) :
    SoundV be cb Γ σ (.cast w e) := by
  subst hw
  cases be with
  | verilog =>
    refine ⟨by simp [tr, selfWidth, RExpr.width], ?_⟩
    intro v hv
    simp only [evalPy] at hv
    have g1 := hE.self hv
    obtain ⟨_, g3⟩ := hE.2 v hv
    exact ⟨fun S _ => by simp [tr, evalC, RExpr.width, hE.1, g1, ext_self, Nat.mod_eq_of_lt g3], g3⟩
  | yosys =>
    refine ⟨by simp [tr, RExpr.width, hE.1], ?_⟩
    intro v hv
    simp only [evalPy] at hv
    obtain ⟨g1, g3⟩ := hE.2 v hv
    simp only [tr, RExpr.width, if_true]
    exact ⟨g1, g3⟩

/-- widening size cast, Yosys backend: zero-extension template -/
theorem sound_castY {w : Nat} {e : RExpr} (hE : SoundV .yosys cb Γ σ e) (hw : e.width < w) :
    SoundV .yosys cb Γ σ (.cast w e) := by
  have hle : 2 ^ e.width ≤ 2 ^ w := Nat.pow_le_pow_right (by omega) (Nat.le_of_lt hw)
  have h1 : ¬ e.width = w := by omega
  have h2 : ¬ e.width > w := by omega
  refine ⟨by simp [tr, h1, h2, RExpr.width, zextTpl_width, hE.1]; omega, ?_⟩
  intro v hv
  simp only [evalPy] at hv
  have g1 := hE.self hv
  obtain ⟨_, g3⟩ := hE.2 v hv
  refine ⟨fun S _ => ?_, by simp only [RExpr.width]; omega⟩
  simp only [tr, h1, h2, RExpr.width, if_false, zextTpl_eval, hE.1, g1]

/-- widening size cast, SystemVerilog backend: `w'(x)` for an operand whose value does not depend on
    the context (literal, identifier, cast of an identifier, select, concatenation, comparison …) -/
theorem sound_castV {w : Nat} {e : RExpr} (hE : SoundV .verilog cb Γ σ e) (hw : e.width ≤ w)
    (hcf : ctxFree (tr .verilog e) = true) : SoundV .verilog cb Γ σ (.cast w e) := by
  have hle : 2 ^ e.width ≤ 2 ^ w := Nat.pow_le_pow_right (by omega) hw
  refine ⟨by simp [tr, selfWidth, RExpr.width], ?_⟩
  intro v hv
  simp only [evalPy] at hv
  have g1 := hE.self hv
  obtain ⟨_, g3⟩ := hE.2 v hv
  have hv' : v < 2 ^ w := by omega
  refine ⟨fun S _ => ?_, hv'⟩
  simp only [tr, evalC, RExpr.width, ext_self]
  rw [eval_ctxFree hcf _ e.width _ (signedOf (tr .verilog e)), g1, Nat.mod_eq_of_lt hv']

/-! #### value position: sign extension -/

theorem sextTpl_width {k : Nat} {b x : Expr} :
    selfWidth Γ (sextTpl k b x) = k * selfWidth Γ b + selfWidth Γ x := by
  simp [sextTpl, selfWidth, constVal]

theorem sextTpl_eval {k W : Nat} {S : Bool} {b x : Expr} :
    evalC cb Γ σ W S (sextTpl k b x) =
      replVal (selfWidth Γ b) (evalC cb Γ σ (selfWidth Γ b) (signedOf b) b) k * 2 ^ selfWidth Γ x
        + evalC cb Γ σ (selfWidth Γ x) (signedOf x) x := by
  simp [sextTpl, evalC, selfWidth, constVal]

/-- `_selectable` of `visit_SignExt`: the operands whose text can be bit-selected -/
def sextSelectable : RExpr → Bool
  | .sig _ _ | .field _ _ _ | .index _ _ _ | .slice _ _ _ _ _ => true
  | .tmpvar _ _ ex => ex
  | _ => false

/-- Attribute / TmpVar nodes (a one-bit operand of another kind is its own sign bit) -/
def sextAttrOrTmp : RExpr → Bool
  | .sig _ _ | .field _ _ _ | .const _ _ _ | .tmpvar _ _ _ => true
  | _ => false

/-- plain signals and elements of lists of signals, whose last bit is selected: `x[n-1]` -/
def isBaseSel : RExpr → Bool
  | .sig _ _ | .field _ _ _ | .index _ _ _ => true
  | .tmpvar _ _ ex => ex
  | _ => false

/-! the decision tree of the `.sext` clause of `tr` -/

theorem tr_sext_id {be : Backend} {w : Nat} {e : RExpr} (hk : w - e.width = 0) :
    tr be (.sext w e) = tr be e := by
  cases e <;> simp_all [tr]

theorem tr_sext_one {be : Backend} {w : Nat} {e : RExpr} (hk : ¬ w - e.width = 0)
    (h1 : e.width = 1) (ha : sextAttrOrTmp e = false) :
    tr be (.sext w e) = sextTpl (w - e.width) (tr be e) (tr be e) := by
  cases e <;> simp [sextAttrOrTmp] at ha <;> simp_all [tr, RExpr.width]

theorem tr_sext_cmp {be : Backend} {w : Nat} {e : RExpr} (hk : ¬ w - e.width = 0)
    (h1 : ¬ (e.width = 1 ∧ sextAttrOrTmp e = false)) (hs : sextSelectable e = false) :
    tr be (.sext w e) =
      sextTpl (w - e.width) (.bin .ge (tr be e) (.lit e.width (2 ^ (e.width - 1)))) (tr be e) := by
  cases e <;> simp [sextSelectable] at hs <;> simp_all [tr, RExpr.width, sextAttrOrTmp]

theorem tr_sext_slice {be : Backend} {w : Nat} {b : RExpr} {lo hi lw uw : Nat}
    (hk : ¬ w - (hi - lo) = 0) (h1 : ¬ hi - lo = 1) :
    tr be (.sext w (.slice b lo hi lw uw)) =
      sextTpl (w - (hi - lo)) (.index (tr be b) (.lit uw (hi - 1))) (tr be (.slice b lo hi lw uw)) := by
  simp [tr, RExpr.width, hk, h1]

theorem tr_sext_sel {be : Backend} {w : Nat} {e : RExpr} (hk : ¬ w - e.width = 0)
    (h1 : ¬ (e.width = 1 ∧ sextAttrOrTmp e = false)) (hs : isBaseSel e = true) :
    tr be (.sext w e) = sextTpl (w - e.width) (.index (tr be e) (.num (e.width - 1))) (tr be e) := by
  cases e <;> simp [isBaseSel] at hs <;> simp_all [tr, RExpr.width, sextAttrOrTmp]

/-- sign extension to the operand's own width is the identity -/
theorem sound_sextId {w : Nat} {e : RExpr} (hE : SoundV be cb Γ σ e) (hw : e.width = w) :
    SoundV be cb Γ σ (.sext w e) := by
  subst hw
  have htr : tr be (.sext e.width e) = tr be e := tr_sext_id (by simp)
  refine ⟨by rw [htr]; simp [RExpr.width, hE.1], ?_⟩
  intro v hv
  cases he : evalPy be Γ σ e with
  | none => simp [evalPy, he] at hv
  | some a =>
    obtain ⟨g1, g3⟩ := hE.2 a he
    simp [evalPy, he, pySext] at hv; subst hv
    rw [htr]; simp only [RExpr.width]; exact ⟨g1, g3⟩

/-- all templates: `{ {k{B}}, v }` where the one-bit expression `B` is the sign bit of the operand -/
theorem sound_sext_core {w : Nat} {e : RExpr} {B : Expr} (hE : SoundV be cb Γ σ e)
    (hlt : e.width < w)
    (htr : tr be (.sext w e) = sextTpl (w - e.width) B (tr be e))
    (hB1 : selfWidth Γ B = 1)
    (hB2 : ∀ v, evalPy be Γ σ e = some v →
      evalC cb Γ σ 1 (signedOf B) B = b2n (decide (v ≥ 2 ^ (e.width - 1)))) :
    SoundV be cb Γ σ (.sext w e) := by
  refine ⟨by rw [htr, sextTpl_width, hB1, hE.1]; simp [RExpr.width]; omega, ?_⟩
  intro v hv
  cases he : evalPy be Γ σ e with
  | none => simp [evalPy, he] at hv
  | some a =>
    have g1 := hE.self he
    obtain ⟨_, g3⟩ := hE.2 a he
    simp [evalPy, he] at hv; subst hv
    refine ⟨fun S _ => ?_, pySext_lt _ _ _ (Nat.le_of_lt hlt) g3⟩
    rw [htr, sextTpl_eval, hB1, hB2 a he, hE.1, g1, sext_val _ _ _ hlt]

/-- (1) a one-bit operand that is not an Attribute / TmpVar node is replicated itself -/
theorem sound_sextOne {w : Nat} {e : RExpr} (hE : SoundV be cb Γ σ e) (h1 : e.width = 1)
    (ha : sextAttrOrTmp e = false) (hlt : 1 < w) : SoundV be cb Γ σ (.sext w e) := by
  have hk : ¬ w - e.width = 0 := by omega
  apply sound_sext_core (B := tr be e) hE (by omega) (tr_sext_one hk h1 ha)
  · rw [hE.1, h1]
  · intro v hv
    have g1 := hE.self hv
    obtain ⟨_, g3⟩ := hE.2 v hv
    rw [h1] at g1 g3
    rw [g1, h1]
    have : v = 0 ∨ v = 1 := by omega
    rcases this with rfl | rfl <;> simp [b2n]

/-- (2) any operand that is not a signal reference: sign bit by comparison with `2^(n-1)`
    (or rule (1) when it is one bit wide); the literal is unsigned, so the comparison is -/
theorem sound_sextCmp {w : Nat} {e : RExpr} (hE : SoundV be cb Γ σ e)
    (hs : sextSelectable e = false) (hpos : 0 < e.width) (hlt : e.width < w) :
    SoundV be cb Γ σ (.sext w e) := by
  by_cases h1 : e.width = 1 ∧ sextAttrOrTmp e = false
  · exact sound_sextOne hE h1.1 h1.2 (by omega)
  have hk : ¬ w - e.width = 0 := by omega
  have hp : 2 ^ (e.width - 1) < 2 ^ e.width := Nat.pow_lt_pow_right (by omega) (by omega)
  apply sound_sext_core (B := .bin .ge (tr be e) (.lit e.width (2 ^ (e.width - 1)))) hE hlt
    (tr_sext_cmp hk h1 hs)
  · simp [selfWidth]
  · intro v hv
    obtain ⟨g1, g3⟩ := hE.2 v hv
    have g1' := g1 false (by simp)
    simp [evalC, selfWidth, signedOf, hE.1, g1', binVal, Nat.mod_eq_of_lt hp]

/-- (3) `x[hi-1:lo]` is extended with `x[hi-1]` (a one-bit slice by rule (1)) -/
theorem sound_sextSlice {w : Nat} {b : RExpr} {lo hi lw uw W : Nat}
    (hR : SoundR be cb Γ σ ⟨.vec W, []⟩ b) (h1 : lo < hi) (h2 : hi ≤ W) (h3 : lo < 2 ^ lw)
    (h4 : hi - 1 < 2 ^ uw) (hlt : hi - lo < w) :
    SoundV be cb Γ σ (.sext w (.slice b lo hi lw uw)) := by
  have hS := sound_rslice (lw := lw) (uw := uw) hR h1 h2 h3 h4
  have hE : SoundV be cb Γ σ (.slice b lo hi lw uw) := sound_ofRef rfl hS rfl
  by_cases hb : hi - lo = 1
  · exact sound_sextOne hE hb rfl (by omega)
  · have hk : ¬ w - (hi - lo) = 0 := by omega
    apply sound_sext_core (B := .index (tr be b) (.lit uw (hi - 1))) hE hlt (tr_sext_slice hk hb)
    · simp [selfWidth, typeOf, hR.1, PTy.width]
    · intro v hv
      rw [evalPy_sel rfl] at hv
      cases hre : refPy be Γ σ b with
      | none => simp [refPy, hre] at hv
      | some l0 =>
        obtain ⟨g1, g2, g3, g4⟩ := hR.2 l0 hre
        obtain ⟨x, el, lo0, t0, dims0, ok⟩ := l0
        simp at g2 g3 g4; subst g2 g3 g4
        simp [refPy, hre, h1, h2, readLoc, PTy.width] at hv; subst hv
        have hloc : loc cb Γ σ (.index (tr be b) (.lit uw (hi - 1))) =
            some ⟨x, el, lo0 + (hi - 1), .vec 1, [], true⟩ := by
          have : hi - 1 < W := by omega
          simp [loc, g1, evalC, selfWidth, Nat.mod_eq_of_lt h4, this]
        rw [eval_of_loc hloc]
        have hm := msb_eq (σ.get (x, el) / 2 ^ (lo0 + lo) % 2 ^ (hi - lo)) (hi - lo) (by omega)
          (Nat.mod_lt _ (Nat.two_pow_pos _))
        rw [bit_of_field _ _ _ _ (by omega)] at hm
        refine Eq.trans ?_ hm
        have : lo0 + (hi - 1) = lo0 + lo + (hi - lo - 1) := by omega
        simp [readLoc, PTy.width, this]

/-- (4) a signal, struct member, explicit temporary or element of a list of signals, of vector type:
    extended with its last bit `x[n-1]` (a one-bit element by rule (1)) -/
theorem sound_sextSel {w : Nat} {e : RExpr} (hR : SoundR be cb Γ σ ⟨.vec e.width, []⟩ e)
    (hc : isBaseSel e = true) (hpos : 0 < e.width) (hlt : e.width < w) :
    SoundV be cb Γ σ (.sext w e) := by
  have hs : isSel e = true := by cases e <;> simp_all [isBaseSel, isSel]
  have hE : SoundV be cb Γ σ e := sound_ofRef hs hR rfl
  by_cases h1 : e.width = 1 ∧ sextAttrOrTmp e = false
  · exact sound_sextOne hE h1.1 h1.2 (by omega)
  have hk : ¬ w - e.width = 0 := by omega
  apply sound_sext_core (B := .index (tr be e) (.num (e.width - 1))) hE hlt (tr_sext_sel hk h1 hc)
  · simp [selfWidth, typeOf, hR.1, PTy.width]
  · intro v hv
    rw [evalPy_sel hs] at hv
    cases hre : refPy be Γ σ e with
    | none => simp [hre] at hv
    | some l0 =>
      obtain ⟨g1, g2, g3, g4⟩ := hR.2 l0 hre
      obtain ⟨x, el, lo0, t0, dims0, ok⟩ := l0
      simp at g2 g3 g4; subst g2 g3 g4
      simp [hre, readLoc, PTy.width] at hv; subst hv
      have hloc : loc cb Γ σ (.index (tr be e) (.num (e.width - 1))) =
          some ⟨x, el, lo0 + (e.width - 1), .vec 1, [], true⟩ := by
        simp [loc, g1, evalC, selfWidth, ext_self]; omega
      rw [eval_of_loc hloc]
      have hm := msb_eq (σ.get (x, el) / 2 ^ lo0 % 2 ^ e.width) e.width hpos
        (Nat.mod_lt _ (Nat.two_pow_pos _))
      rw [bit_of_field _ _ _ _ (by omega)] at hm
      refine Eq.trans ?_ hm
      simp [readLoc, PTy.width]

end cases

/-! ### (1) the typing invariant -/

/-- What `BehavioralRTLIRTypeCheckL1–L5` (plus the restriction to the plain-Verilog forms for the Yosys
    backend) guarantee about a typed RTLIR expression.  The mode index distinguishes
    * `none`: value position — the node is an operand, its annotation `RExpr.width` is its bit width;
    * `some d`: reference position — the node denotes (part of) the declared variable at its root and
      `d` is the SystemVerilog type (packed type, remaining unpacked dimensions) of that part.
    `C`: the constants of the component as (`localparam` name, value). -/
inductive WTm (be : Backend) (Γ : Env) (C : List (String × Nat)) : Option Decl → RExpr → Prop
  /- reference position -/
  | rsig {x w d} : Γ x = some d → WTm be Γ C (some d) (.sig x w)
  | rtmp {x w d} : Γ x = some d → WTm be Γ C (some d) (.tmpvar x w true)
  | rfield {e f w n fs off t} : be = .verilog → WTm be Γ C (some ⟨.struct n fs, []⟩) e →
      fs.find f = some (off, t) → WTm be Γ C (some ⟨t, []⟩) (.field e f w)
  | ridxU {e i w t d ds} : WTm be Γ C (some ⟨t, d :: ds⟩) e → WTm be Γ C none i →
      WTm be Γ C (some ⟨t, ds⟩) (.index e i w)
  | ridxA {e i w n t} : WTm be Γ C (some ⟨.arr n t, []⟩) e → WTm be Γ C none i →
      WTm be Γ C (some ⟨t, []⟩) (.index e i w)
  | ridxB {e i w W} : WTm be Γ C (some ⟨.vec W, []⟩) e → WTm be Γ C none i →
      WTm be Γ C (some ⟨.vec 1, []⟩) (.index e i w)
  | rslice {e lo hi lw uw W} : WTm be Γ C (some ⟨.vec W, []⟩) e → lo < hi → hi ≤ W → lo < 2 ^ lw →
      hi - 1 < 2 ^ uw → WTm be Γ C (some ⟨.vec (hi - lo), []⟩) (.slice e lo hi lw uw)
  | rpartsel {e b w W} : WTm be Γ C (some ⟨.vec W, []⟩) e → WTm be Γ C none b → 0 < w → w ≤ W →
      WTm be Γ C (some ⟨.vec w, []⟩) (.partsel e b w)
  /- value position: a fully selected signal (no unpacked dimension left) whose packed width is the
     annotated width -/
  | ofRef {e ty} : WTm be Γ C (some ⟨ty, []⟩) e → ty.width = e.width → 0 < e.width → WTm be Γ C none e
  /- value position: leaves -/
  | num {w v} : 0 < w → v < 2 ^ w → WTm be Γ C none (.num w v)
  | castC {w v} : 0 < w → v < 2 ^ w → WTm be Γ C none (.castC w v)
  | tmpI {x w ty} : Γ x = some ⟨ty, []⟩ → ty.width = w → 0 < w → WTm be Γ C none (.tmpvar x w false)
  | loopvar {blk x w} : Γ (loopVarName be blk x) = some ⟨.vec 32, []⟩ → 0 < w → w ≤ 32 →
      WTm be Γ C none (.loopvar blk x w)
  | constV {x w v cw} : be = .verilog → 0 < w → v < 2 ^ w → Γ x = some ⟨.vec cw, []⟩ → v < 2 ^ cw →
      (x, v) ∈ C → WTm be Γ C none (.const x w v)
  | constY {x w v} : be = .yosys → 0 < w → v < 2 ^ w → WTm be Γ C none (.const x w v)
  | freevarV {x w v cw} : be = .verilog → 0 < w → v < 2 ^ w →
      Γ ("__const__" ++ x) = some ⟨.vec cw, []⟩ → v < 2 ^ cw → ("__const__" ++ x, v) ∈ C →
      WTm be Γ C none (.freevar x w v)
  | freevarY {x w v} : be = .yosys → 0 < w → v < 2 ^ w → WTm be Γ C none (.freevar x w v)
  /- size cast -/
  | castEq {w e} : WTm be Γ C none e → e.width = w → WTm be Γ C none (.cast w e)
  | castY {w e} : be = .yosys → WTm be Γ C none e → e.width < w → WTm be Γ C none (.cast w e)
  | castV {w e} : be = .verilog → WTm be Γ C none e → e.width ≤ w → ctxFree (tr .verilog e) = true →
      WTm be Γ C none (.cast w e)
  /- concatenation, extension, truncation -/
  | cat1 {e} : WTm be Γ C none e → WTm be Γ C none (.cat1 e)
  | concat {a r} : WTm be Γ C none a → WTm be Γ C none r → WTm be Γ C none (.concat a r)
  | zext {w e} : WTm be Γ C none e → e.width ≤ w → WTm be Γ C none (.zext w e)
  | trunc {w e} : WTm be Γ C none e → 0 < w → w ≤ e.width → WTm be Γ C none (.trunc w e)
  | sextId {w e} : WTm be Γ C none e → e.width = w → WTm be Γ C none (.sext w e)
  | sextOne {w e} : WTm be Γ C none e → e.width = 1 → sextAttrOrTmp e = false → 1 < w →
      WTm be Γ C none (.sext w e)
  | sextCmp {w e} : WTm be Γ C none e → sextSelectable e = false → e.width < w →
      WTm be Γ C none (.sext w e)
  | sextSlice {w b lo hi lw uw W} : WTm be Γ C (some ⟨.vec W, []⟩) b → lo < hi → hi ≤ W →
      lo < 2 ^ lw → hi - 1 < 2 ^ uw → hi - lo < w → WTm be Γ C none (.sext w (.slice b lo hi lw uw))
  | sextSel {w e} : WTm be Γ C (some ⟨.vec e.width, []⟩) e → isBaseSel e = true → 0 < e.width →
      e.width < w → WTm be Γ C none (.sext w e)
  /- operators -/
  | reduce {op e} : WTm be Γ C none e → WTm be Γ C none (.reduce op e)
  | inv {e} : WTm be Γ C none e → WTm be Γ C none (.inv e)
  | arith {op a b} : WTm be Γ C none a → WTm be Γ C none b → a.width = b.width →
      op ≠ .shl ∧ op ≠ .shr → WTm be Γ C none (.bin op a b)
  | shl {a b} : WTm be Γ C none a → WTm be Γ C none b → WTm be Γ C none (.bin .shl a b)
  | shr {a b} : WTm be Γ C none a → WTm be Γ C none b → WTm be Γ C none (.bin .shr a b)
  | cmp {op a b} : WTm be Γ C none a → WTm be Γ C none b → a.width = b.width →
      WTm be Γ C none (.cmp op a b)
  | ifexp {c t f} : WTm be Γ C none c → WTm be Γ C none t → WTm be Γ C none f → t.width = f.width →
      WTm be Γ C none (.ifexp c t f)

/-- value position -/
def WT (be : Backend) (Γ : Env) (C : List (String × Nat)) (e : RExpr) : Prop := WTm be Γ C none e
/-- reference position, of SystemVerilog type `d` -/
def WTrefT (be : Backend) (Γ : Env) (C : List (String × Nat)) (d : Decl) (e : RExpr) : Prop :=
  WTm be Γ C (some d) e
/-- reference position -/
def WTref (be : Backend) (Γ : Env) (C : List (String × Nat)) (e : RExpr) : Prop :=
  ∃ d, WTm be Γ C (some d) e

/-- every node in value position has a positive width -/
theorem WTm.width_pos {be Γ C m e} (h : WTm be Γ C m e) : m = none → 0 < e.width := by
  induction h with
  | rsig | rtmp | rfield | ridxU | ridxA | ridxB | rslice | rpartsel => intro h; cases h
  | ofRef _ _ hp => intro _; exact hp
  | num hp | castC hp | loopvar _ hp | constV _ hp | constY _ hp | freevarV _ hp | freevarY _ hp =>
    intro _; exact hp
  | tmpI _ _ hp => intro _; exact hp
  | castEq _ hw ih => intro _; have := ih rfl; simp only [RExpr.width]; omega
  | castY _ _ hw ih => intro _; have := ih rfl; simp only [RExpr.width]; omega
  | castV _ _ hw _ ih => intro _; have := ih rfl; simp only [RExpr.width]; omega
  | cat1 _ ih => intro _; exact ih rfl
  | concat _ _ iha ihr => intro _; have := iha rfl; simp only [RExpr.width]; omega
  | zext _ hw ih => intro _; have := ih rfl; simp only [RExpr.width]; omega
  | trunc _ hp _ _ => intro _; exact hp
  | sextId _ hw ih => intro _; have := ih rfl; simp only [RExpr.width]; omega
  | sextOne _ _ _ hw _ => intro _; simp only [RExpr.width]; omega
  | sextCmp _ _ hw ih => intro _; have := ih rfl; simp only [RExpr.width]; omega
  | sextSlice _ _ _ _ _ hw _ => intro _; simp only [RExpr.width]; omega
  | sextSel _ _ _ hw _ => intro _; simp only [RExpr.width]; omega
  | reduce => intro _; simp [RExpr.width]
  | inv _ ih => intro _; exact ih rfl
  | arith _ _ _ _ iha _ => intro _; exact iha rfl
  | shl _ _ iha _ => intro _; exact iha rfl
  | shr _ _ iha _ => intro _; exact iha rfl
  | cmp => intro _; simp [RExpr.width]
  | ifexp _ _ _ _ _ iht _ => intro _; exact iht rfl

theorem WT.width_pos {be Γ C e} (h : WT be Γ C e) : 0 < e.width := WTm.width_pos h rfl

/-- soundness at either mode -/
def Sound (be : Backend) (cb : Bool) (Γ : Env) (σ : Store) : Option Decl → RExpr → Prop
  | none, e => SoundV be cb Γ σ e
  | some d, e => SoundR be cb Γ σ d e

theorem isSel_of_WTm {be Γ C d e} (h : WTm be Γ C (some d) e) : isSel e = true := by
  cases h <;> rfl

/-! ### signedness of the emitted expressions -/

mutual
/-- nothing the SystemVerilog backend emits is signed: its loop variables are `int unsigned`, everything else is
    `logic`, a sized literal or a concatenation -/
theorem signedOf_tr_verilog : ∀ e : RExpr, signedOf (tr .verilog e) = false
  | .num _ _ => by simp [tr, signedOf]
  | .castC _ _ => by simp [tr, signedOf]
  | .cast _ e => by simp [tr, signedOf, signedOf_tr_verilog e]
  | .sig _ _ => by simp [tr, signedOf]
  | .const _ _ _ => by simp [tr, signedOf]
  | .freevar _ _ _ => by simp [tr, signedOf]
  | .loopvar _ _ _ => by simp [tr, signedOf]
  | .tmpvar _ _ ex => by cases ex <;> simp [tr, signedOf]
  | .field _ _ _ => by simp [tr, signedOf]
  | .index _ _ _ => by simp [tr, signedOf]
  | .slice _ _ _ _ _ => by simp [tr, signedOf]
  | .partsel _ _ _ => by simp [tr, signedOf]
  | .cat1 _ => by simp [tr, signedOf]
  | .concat _ _ => by simp [tr, signedOf]
  | .zext w e => by
    by_cases h : w - e.width = 0 <;> simp [tr, h, zextTpl, signedOf, signedOf_tr_verilog e]
  | .sext w e => by
    by_cases h : w - e.width = 0
    · rw [tr_sext_id h]; exact signedOf_tr_verilog e
    · have key : ∃ k B, tr .verilog (.sext w e) = sextTpl k B (tr .verilog e) := by
        by_cases h1 : e.width = 1 ∧ sextAttrOrTmp e = false
        · exact ⟨_, _, tr_sext_one h h1.1 h1.2⟩
        · by_cases h2 : sextSelectable e = false
          · exact ⟨_, _, tr_sext_cmp h h1 h2⟩
          · cases e <;> simp [sextSelectable] at h2
            case slice b lo hi lw uw =>
              by_cases hb : hi - lo = 1
              · exact ⟨_, _, tr_sext_one (by simpa [RExpr.width] using h) (by simpa [RExpr.width] using hb) rfl⟩
              · exact ⟨_, _, tr_sext_slice (by simpa [RExpr.width] using h) hb⟩
            all_goals exact ⟨_, _, tr_sext_sel h h1 (by simp [isBaseSel, h2])⟩
      obtain ⟨k, B, hk⟩ := key
      rw [hk]; simp [sextTpl, signedOf]
  | .trunc w e => by
    by_cases h : e.width > w <;> simp [tr, h, signedOf, signedOf_tr_verilog e]
  | .reduce op _ => by cases op <;> simp [tr, trRed, signedOf]
  | .inv e => by simp [tr, signedOf, signedOf_tr_verilog e]
  | .bin op a b => by cases op <;> simp [tr, trBin, signedOf, signedOf_tr_verilog a, signedOf_tr_verilog b]
  | .cmp op _ _ => by cases op <;> simp [tr, trCmp, signedOf]
  | .ifexp _ t f => by simp [tr, signedOf, signedOf_tr_verilog t, signedOf_tr_verilog f]
end

/-- the side condition of the Yosys theorems holds for everything the SystemVerilog backend emits -/
theorem signSafe_verilog (e : RExpr) : signSafe .verilog e = true := by
  induction e <;> simp_all [signSafe, sgnOf, signedOf_tr_verilog]

theorem signSafeS_verilog (s : RStmt) : signSafeS .verilog s = true := by
  induction s <;> simp_all [signSafeS, signSafe_verilog]

/-! ### (2) the main theorem -/

theorem sound {be : Backend} {cb : Bool} {Γ : Env} {C : List (String × Nat)} {σ : Store}
    (hC : HoldsC σ C) {m : Option Decl} {e : RExpr} (h : WTm be Γ C m e) (hs : signSafe be e = true) :
    Sound be cb Γ σ m e := by
  induction h with
  | rsig h => exact sound_rsig h
  | rtmp h => exact sound_rtmp h
  | rfield hbe _ hf ih => subst hbe; simp [signSafe] at hs; exact sound_rfield (ih hs) hf
  | ridxU _ _ ihe ihi => simp [signSafe] at hs; exact sound_ridxU (ihe hs.1) (ihi hs.2)
  | ridxA _ _ ihe ihi => simp [signSafe] at hs; exact sound_ridxA (ihe hs.1) (ihi hs.2)
  | ridxB _ _ ihe ihi => simp [signSafe] at hs; exact sound_ridxB (ihe hs.1) (ihi hs.2)
  | rslice _ h1 h2 h3 h4 ih => simp [signSafe] at hs; exact sound_rslice (ih hs) h1 h2 h3 h4
  | rpartsel _ _ _ _ ihe ihb => simp [signSafe] at hs; exact sound_rpartsel (ihe hs.1) (ihb hs.2)
  | ofRef h hw _ ih => exact sound_ofRef (isSel_of_WTm h) (ih hs) hw
  | num _ hv => exact sound_num hv
  | castC _ hv => exact sound_castC hv
  | tmpI h hw _ => exact sound_tmpI h hw
  | loopvar h _ hw => exact sound_loopvar h hw
  | constV hbe _ hv h hcv hm => subst hbe; exact sound_constV hC hv h hcv hm
  | constY hbe _ hv => subst hbe; exact sound_constY hv
  | freevarV hbe _ hv h hcv hm => subst hbe; exact sound_freevarV hC hv h hcv hm
  | freevarY hbe _ hv => subst hbe; exact sound_freevarY hv
  | castEq _ hw ih => simp [signSafe] at hs; exact sound_castEq (ih hs) hw
  | castY hbe _ hw ih => subst hbe; simp [signSafe] at hs; exact sound_castY (ih hs) hw
  | castV hbe _ hw hcf ih => subst hbe; simp [signSafe] at hs; exact sound_castV (ih hs) hw hcf
  | cat1 _ ih => simp [signSafe] at hs; exact sound_cat1 (ih hs)
  | concat _ _ iha ihr => simp [signSafe] at hs; exact sound_concat (iha hs.1) (ihr hs.2)
  | zext _ hw ih => simp [signSafe] at hs; exact sound_zext (ih hs) hw
  | trunc _ _ hw ih => simp [signSafe] at hs; exact sound_trunc (ih hs) hw
  | sextId _ hw ih => simp [signSafe] at hs; exact sound_sextId (ih hs) hw
  | sextOne _ h1 ha hw ih => simp [signSafe] at hs; exact sound_sextOne (ih hs) h1 ha hw
  | sextCmp h hss hw ih => simp [signSafe] at hs; exact sound_sextCmp (ih hs) hss (WTm.width_pos h rfl) hw
  | sextSlice _ h1 h2 h3 h4 hw ih => simp [signSafe] at hs; exact sound_sextSlice (ih hs) h1 h2 h3 h4 hw
  | sextSel _ hc hp hw ih => simp [signSafe] at hs; exact sound_sextSel (ih hs) hc hp hw
  | reduce _ ih => simp [signSafe] at hs; exact sound_reduce (ih hs)
  | inv _ ih => simp [signSafe] at hs; exact sound_inv (ih hs)
  | arith _ _ hw hop iha ihb =>
    simp [signSafe] at hs
    exact sound_arith (iha hs.1.1) (ihb hs.1.2) hw hop (fun hm => by
      rcases hs.2 with (h1 | h1) | h1 <;> simp_all)
  | shl _ _ iha ihb => simp [signSafe] at hs; exact sound_shl (iha hs.1) (ihb hs.2)
  | shr _ _ iha ihb => simp [signSafe] at hs; exact sound_shr (iha hs.1) (ihb hs.2)
  | cmp _ _ hw iha ihb =>
    simp [signSafe] at hs
    exact sound_cmp (iha hs.1.1) (ihb hs.1.2) hw (fun hm => by
      rcases hs.2 with (h1 | h1) | h1 <;> simp_all)
  | ifexp _ _ _ hw ihc iht ihf =>
    simp [signSafe] at hs; exact sound_ifexp (ihc hs.1.1) (iht hs.1.2) (ihf hs.2) hw

/-- **Semantic preservation, value position.**  If the PyMTL simulation of a well-typed expression
    yields `v` (raises no exception), the emitted expression, evaluated in a context of the node's
    width under either reading `cb` of the size cast, yields `v`; its self-determined width is the
    node's width; and `v` fits that width.  `hs`: no ordering comparison / remainder of two SIGNED
    operands (always true for the SystemVerilog backend, `signSafe_verilog`; for the Yosys backend it
    excludes operators whose operands are all loop variables, `Props/C12.lean`). -/
theorem expr_correct (be : Backend) (cb : Bool) (Γ : Env) (C : List (String × Nat)) (σ : Store)
    (hC : HoldsC σ C) {e : RExpr} (hwt : WT be Γ C e) (hs : signSafe be e = true) {v : Nat}
    (hv : evalPy be Γ σ e = some v) :
    eval cb Γ σ e.width (tr be e) = v ∧ selfWidth Γ (tr be e) = e.width ∧ v < 2 ^ e.width := by
  have h : SoundV be cb Γ σ e := sound hC hwt hs
  exact ⟨h.self hv, h.1, (h.2 v hv).2⟩

/-- … and in a context of whatever type the enclosing expression propagates to the node -/
theorem expr_correct_ctx (be : Backend) (cb : Bool) (Γ : Env) (C : List (String × Nat)) (σ : Store)
    (hC : HoldsC σ C) {e : RExpr} (hwt : WT be Γ C e) (hs : signSafe be e = true) {v : Nat}
    (hv : evalPy be Γ σ e = some v) (S : Bool) (hS : S = true → signedOf (tr be e) = true) :
    evalC cb Γ σ e.width S (tr be e) = v :=
  ((sound (cb := cb) hC hwt hs : SoundV be cb Γ σ e).2 v hv).1 S hS

/-- **Semantic preservation, reference position**, with the type made explicit. -/
theorem ref_correctT (be : Backend) (cb : Bool) (Γ : Env) (C : List (String × Nat)) (σ : Store)
    (hC : HoldsC σ C) {e : RExpr} {d : Decl} (hwt : WTrefT be Γ C d e) (hs : signSafe be e = true) {l : Loc}
    (hr : refPy be Γ σ e = some l) :
    loc cb Γ σ (tr be e) = some l ∧ l.ok = true ∧ l.ty = d.ty ∧ l.dims = d.dims ∧
      typeOf Γ (tr be e) = some d := by
  have h : SoundR be cb Γ σ d e := sound hC hwt hs
  obtain ⟨h1, h2, h3, h4⟩ := h.2 l hr
  exact ⟨h1, h2, h3, h4, h.1⟩

/-- **Semantic preservation, reference position.**  The emitted select chain resolves to the storage
    the PyMTL expression denotes, in range, and has its type. -/
theorem ref_correct (be : Backend) (cb : Bool) (Γ : Env) (C : List (String × Nat)) (σ : Store)
    (hC : HoldsC σ C) {e : RExpr} (hwt : WTref be Γ C e) (hs : signSafe be e = true) {l : Loc}
    (hr : refPy be Γ σ e = some l) :
    loc cb Γ σ (tr be e) = some l ∧ l.ok = true ∧ typeOf Γ (tr be e) = some ⟨l.ty, l.dims⟩ := by
  obtain ⟨d, hd⟩ := hwt
  obtain ⟨h1, h2, h3, h4, h5⟩ := ref_correctT be cb Γ C σ hC hd hs hr
  refine ⟨h1, h2, ?_⟩
  rw [h5, h3, h4]

/-- the value assigned to a target of the node's width -/
theorem evalRhs_correct (be : Backend) (cb : Bool) (Γ : Env) (C : List (String × Nat)) (σ : Store)
    (hC : HoldsC σ C) {e : RExpr} (hwt : WT be Γ C e) (hs : signSafe be e = true) {v : Nat}
    (hv : evalPy be Γ σ e = some v) :
    evalRhs cb Γ σ e.width (tr be e) = v := by
  obtain ⟨h1, h2, h3⟩ := expr_correct be cb Γ C σ hC hwt hs hv
  simp [evalRhs, h2, h1, Nat.mod_eq_of_lt h3]

-- #print axioms PV.SVProofs.expr_correct
-- #print axioms PV.SVProofs.evalRhs_correct
-- #print axioms PV.SVProofs.ref_correct
-- #print axioms PV.SVProofs.ref_correctT
-- #print axioms PV.SVProofs.WT.width_pos

end PV.SVProofs
