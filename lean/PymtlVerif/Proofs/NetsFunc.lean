import PymtlVerif.Proofs.NetsElab
/-!
# `@s.func` helper functions: the set of functions an update block reaches

`HDesign.reached` (frontier expansion over "calls", fuel = number of functions, proved sufficient)
is exactly the reflexive-transitive closure of the call relation from the block's direct calls, and
the flattened design gives a block exactly its own writes plus the writes of the functions it
reaches.
-/
namespace PV.Nets

/-- `b` is reached from `a` by following calls -/
inductive DReach (succ : Nat → List Nat) : Nat → Nat → Prop
  | refl (a : Nat) : DReach succ a a
  | step {a b c : Nat} : DReach succ a b → c ∈ succ b → DReach succ a c

variable {succ : Nat → List Nat}

theorem dreach_trans {a b c : Nat} (h1 : DReach succ a b) (h2 : DReach succ b c) : DReach succ a c := by
  induction h2 with
  | refl => exact h1
  | step _ hs ih => exact DReach.step ih hs

theorem mem_dstep (S : List Nat) (b : Nat) :
    b ∈ dstep succ S ↔ b ∈ S ∨ (b ∉ S ∧ ∃ a ∈ S, b ∈ succ a) := by
  unfold dstep
  simp only [List.mem_append, mem_dedup, List.mem_filter, List.mem_flatMap, decide_eq_true_eq]
  constructor
  · rintro (h | ⟨⟨a, ha, hs⟩, hn⟩)
    · exact Or.inl h
    · exact Or.inr ⟨hn, a, ha, hs⟩
  · rintro (h | ⟨hn, a, ha, hs⟩)
    · exact Or.inl h
    · exact Or.inr ⟨⟨a, ha, hs⟩, hn⟩

theorem dclosed_iff (S : List Nat) : dclosed succ S = true ↔ ∀ a ∈ S, ∀ b ∈ succ a, b ∈ S := by
  unfold dclosed
  simp only [List.all_eq_true, List.mem_flatMap, decide_eq_true_eq]
  constructor
  · intro h a ha b hb; exact h b ⟨a, ha, hb⟩
  · rintro h b ⟨a, ha, hb⟩; exact h a ha b hb

theorem dclosure_sound : ∀ (f : Nat) (S : List Nat), ∀ b ∈ dclosure succ f S, ∃ a ∈ S, DReach succ a b := by
  intro f
  induction f with
  | zero => intro S b hb; exact ⟨b, hb, DReach.refl b⟩
  | succ f ih =>
    intro S b hb
    simp only [dclosure] at hb
    split at hb
    · exact ⟨b, hb, DReach.refl b⟩
    · obtain ⟨m, hm, hmb⟩ := ih _ b hb
      rcases (mem_dstep S m).mp hm with h | ⟨_, a, ha, hs⟩
      · exact ⟨m, h, hmb⟩
      · exact ⟨a, ha, dreach_trans (DReach.step (DReach.refl a) hs) hmb⟩

theorem subset_dclosure : ∀ (f : Nat) (S : List Nat), ∀ a ∈ S, a ∈ dclosure succ f S := by
  intro f
  induction f with
  | zero => intro S a ha; exact ha
  | succ f ih =>
    intro S a ha
    simp only [dclosure]
    split
    · exact ha
    · exact ih _ a ((mem_dstep S a).mpr (Or.inl ha))

theorem dclosed_complete {T : List Nat} (hc : dclosed succ T = true) {a b : Nat} (ha : a ∈ T)
    (hr : DReach succ a b) : b ∈ T := by
  have hcl := (dclosed_iff T).mp hc
  induction hr with
  | refl => exact ha
  | step _ hs ih => exact hcl _ ih _ hs

def dunvisited (n : Nat) (S : List Nat) : Nat := ((List.range n).filter (fun x => decide (x ∉ S))).length

theorem dclosure_closed (n : Nat) (hb : ∀ x, ∀ y ∈ succ x, y < n) :
    ∀ (f : Nat) (S : List Nat), dunvisited n S ≤ f → dclosed succ (dclosure succ f S) = true := by
  intro f
  induction f with
  | zero =>
    intro S h
    simp only [dclosure]
    rw [dclosed_iff]
    intro a _ b hs
    have hbn := hb a b hs
    unfold dunvisited at h
    have hz := List.length_eq_zero_iff.mp (Nat.le_zero.mp h)
    apply Classical.byContradiction
    intro hbS
    have hm : b ∈ (List.range n).filter (fun x => decide (x ∉ S)) := by
      simp [List.mem_filter, hbn, hbS]
    rw [hz] at hm
    cases hm
  | succ f ih =>
    intro S h
    simp only [dclosure]
    split
    · next hc => exact hc
    · next hc =>
      apply ih
      have hn : ¬ (∀ a ∈ S, ∀ b ∈ succ a, b ∈ S) := fun hcl => hc ((dclosed_iff S).mpr hcl)
      have : ∃ a ∈ S, ∃ b ∈ succ a, b ∉ S := by
        apply Classical.byContradiction
        intro hno
        apply hn
        intro a ha b hs
        apply Classical.byContradiction
        intro hbS
        exact hno ⟨a, ha, b, hs, hbS⟩
      obtain ⟨a, ha, b, hs, hbS⟩ := this
      have hlt : dunvisited n (dstep succ S) < dunvisited n S := by
        unfold dunvisited
        apply filter_length_lt (x := b)
        · intro x hx
          simp only [decide_eq_true_eq] at hx ⊢
          exact fun hxS => hx ((mem_dstep S x).mpr (Or.inl hxS))
        · exact List.mem_range.mpr (hb a b hs)
        · simp [hbS]
        · simp only [decide_eq_false_iff_not, Decidable.not_not]
          exact (mem_dstep S b).mpr (Or.inr ⟨hbS, a, ha, hs⟩)
      omega

/-- the calls of a well-formed design stay inside the function table -/
def HDesign.CallsOk (H : HDesign) : Prop := ∀ x, ∀ y ∈ H.callees x, y < H.funcs.length

theorem HDesign.callsOk_of_wf {H : HDesign} (h : H.wf = true) : H.CallsOk := by
  unfold HDesign.wf at h
  simp only [Bool.and_eq_true, decide_eq_true_eq, List.all_eq_true] at h
  obtain ⟨_, hf⟩ := h
  intro x y hy
  unfold HDesign.callees at hy
  rw [List.getD_eq_getElem?_getD] at hy
  by_cases hx : x < H.funcs.length
  · rw [List.getElem?_eq_getElem hx] at hy
    exact hf _ (List.getElem_mem hx) y hy
  · rw [List.getElem?_eq_none (by omega)] at hy
    cases hy

/-- the functions a block reaches are exactly those connected to one of its direct calls by a chain
of calls -/
theorem HDesign.mem_reached (H : HDesign) (hc : H.CallsOk) (roots : List Nat) (f : Nat) :
    f ∈ H.reached roots ↔ ∃ r ∈ roots, DReach H.callees r f := by
  unfold HDesign.reached
  constructor
  · intro h
    obtain ⟨a, ha, hr⟩ := dclosure_sound _ _ f h
    exact ⟨a, (mem_dedup roots a).mp ha, hr⟩
  · rintro ⟨r, hr, hreach⟩
    have hcl := dclosure_closed (succ := H.callees) H.funcs.length hc H.funcs.length (dedup roots)
      (by unfold dunvisited; exact Nat.le_trans (List.length_filter_le _ _) (by simp))
    exact dclosed_complete hcl (subset_dclosure _ _ r ((mem_dedup roots r).mpr hr)) hreach

/-- the writes of a block of the flattened design: its own and those of every function it reaches -/
theorem HDesign.flatten_writes (H : HDesign) (hc : H.CallsOk) (b o : Nat) :
    (b, o) ∈ H.flatten.writes ↔
      ((b, o) ∈ H.base.writes ∨
        (b < H.base.blks.length ∧ ∃ r ∈ H.bcalls.getD b [], ∃ f, DReach H.callees r f ∧ o ∈ (H.funcs.getD f default).writes)) := by
  rw [Design.mem_writes, Design.mem_writes]
  unfold HDesign.flatten
  simp only [List.getElem?_mapIdx]
  constructor
  · rintro ⟨blk, hblk, op, hw⟩
    cases hb : H.base.blks[b]? with
    | none => rw [hb] at hblk; cases hblk
    | some b0 =>
      rw [hb] at hblk
      simp only [Option.map_some, Option.some.injEq] at hblk
      subst hblk
      simp only [List.mem_append, List.mem_flatMap, List.mem_map, Prod.mk.injEq] at hw
      rcases hw with hw | ⟨f, hf, o', ho', rfl, _⟩
      · exact Or.inl ⟨b0, rfl, op, hw⟩
      · right
        have hlt : b < H.base.blks.length := by
          rcases Nat.lt_or_ge b H.base.blks.length with h | h
          · exact h
          · rw [List.getElem?_eq_none h] at hb; cases hb
        obtain ⟨r, hr, hreach⟩ := (H.mem_reached hc _ f).mp hf
        exact ⟨hlt, r, hr, f, hreach, ho'⟩
  · rintro (⟨blk, hblk, op, hw⟩ | ⟨hlt, r, hr, f, hreach, ho⟩)
    · refine ⟨_, by rw [hblk]; rfl, op, ?_⟩
      simp only [List.mem_append]
      exact Or.inl hw
    · refine ⟨_, by rw [List.getElem?_eq_getElem hlt]; rfl, (if H.base.blks[b].ff then Op.ff else Op.at), ?_⟩
      simp only [List.mem_append, List.mem_flatMap, List.mem_map, Prod.mk.injEq]
      exact Or.inr ⟨f, (H.mem_reached hc _ f).mpr ⟨r, hr, hreach⟩, o, ho, rfl, trivial⟩

end PV.Nets
