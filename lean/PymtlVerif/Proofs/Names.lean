import PymtlVerif.Model.Names
/-!
# Lemmas about `Model/Names.lean` (C13)

* the component table: `lookup_translateAll` (the table answers exactly like "first instance with that name"),
  distinct keys, entries come from instances, relation to the repaired walk `translateChecked`;
* names: cancellation lemma for parameter suffixes (`suffix_cancel`), shape of `nameTail`;
* `sortByKey`: sorted, a permutation, and unique for distinct keys (`sortByKey_perm_eq`);
* Boolean checkers `nodupB`, `idShape`.
-/
namespace PV.Names

/-! ## component table -/

section table
variable {β : Type}

theorem has_eq_lookup (t : Table β) (n : String) : t.has n = (t.lookup n).isSome := by
  induction t with
  | nil => rfl
  | cons e t ih =>
    obtain ⟨k, b⟩ := e
    simp only [Table.has, List.any_cons, List.lookup_cons] at ih ⊢
    by_cases h : n = k
    · subst h; simp
    · have h1 : (k == n) = false := by simp [Ne.symm h]
      have h2 : (n == k) = false := by simp [h]
      simp [h1, h2, ih]

theorem has_iff_mem_keys (t : Table β) (n : String) : t.has n = true ↔ n ∈ t.map (·.1) := by
  simp only [Table.has, List.any_eq_true, beq_iff_eq, List.mem_map]

theorem lookup_insertIfAbsent_append (t rest : Table β) (nb : String × β) (n : String) :
    (insertIfAbsent t nb ++ rest).lookup n = (t ++ nb :: rest).lookup n := by
  unfold insertIfAbsent
  by_cases hh : t.has nb.1 = true
  · simp only [hh, if_true, List.lookup_append]
    obtain ⟨k, b⟩ := nb
    by_cases hn : n = k
    · subst hn
      have : (List.lookup n t).isSome = true := by rw [← has_eq_lookup]; exact hh
      cases hl : List.lookup n t with
      | none => simp [hl] at this
      | some v => simp
    · have : (n == k) = false := by simp [hn]
      simp [List.lookup_cons, this]
  · simp [hh]

theorem lookup_foldl (t : Table β) (is : List (String × β)) (n : String) :
    (is.foldl insertIfAbsent t).lookup n = (t ++ is).lookup n := by
  induction is generalizing t with
  | nil => simp
  | cons nb rest ih =>
    rw [List.foldl_cons, ih]
    exact lookup_insertIfAbsent_append t rest nb n

/-- The table answers like "the first instance of the walk that has this name". -/
theorem lookup_translateAll (is : List (String × β)) (n : String) :
    (translateAll is).lookup n = is.lookup n := by
  simpa [translateAll] using lookup_foldl ([] : Table β) is n

theorem keys_nodup_foldl (t : Table β) (is : List (String × β)) (h : (t.map (·.1)).Nodup) :
    ((is.foldl insertIfAbsent t).map (·.1)).Nodup := by
  induction is generalizing t with
  | nil => simpa using h
  | cons nb rest ih =>
    rw [List.foldl_cons]
    apply ih
    unfold insertIfAbsent
    by_cases hh : t.has nb.1 = true
    · simpa [hh] using h
    · have hn : nb.1 ∉ t.map (·.1) := fun hm => hh ((has_iff_mem_keys t nb.1).mpr hm)
      simp only [hh, Bool.false_eq_true, if_false, List.map_append, List.map_cons, List.map_nil]
      rw [List.nodup_append]
      refine ⟨h, by simp, ?_⟩
      intro a ha b hb
      simp only [List.mem_cons, List.not_mem_nil, or_false] at hb
      subst hb
      intro hab; subst hab; exact hn ha

theorem keys_nodup_translateAll (is : List (String × β)) : ((translateAll is).map (·.1)).Nodup :=
  keys_nodup_foldl [] is (by simp)

theorem mem_foldl (t : Table β) (is : List (String × β)) (e : String × β)
    (h : e ∈ is.foldl insertIfAbsent t) : e ∈ t ∨ e ∈ is := by
  induction is generalizing t with
  | nil => exact Or.inl (by simpa using h)
  | cons nb rest ih =>
    rw [List.foldl_cons] at h
    rcases ih _ h with h1 | h1
    · unfold insertIfAbsent at h1
      by_cases hh : t.has nb.1 = true
      · simp only [hh, if_true] at h1; exact Or.inl h1
      · simp only [hh, Bool.false_eq_true, if_false, List.mem_append, List.mem_cons, List.not_mem_nil, or_false] at h1
        rcases h1 with h1 | h1
        · exact Or.inl h1
        · exact Or.inr (by simp [h1])
    · exact Or.inr (List.mem_cons_of_mem _ h1)

theorem mem_translateAll (is : List (String × β)) (e : String × β) (h : e ∈ translateAll is) : e ∈ is := by
  rcases mem_foldl [] is e h with h | h
  · simp at h
  · exact h

/-- in a list, `lookup` of the key of a member is defined and is the body of a member with that key -/
theorem lookup_of_mem (is : List (String × β)) (n : String) (b : β) (h : (n, b) ∈ is) :
    ∃ b', is.lookup n = some b' ∧ (n, b') ∈ is := by
  induction is with
  | nil => simp at h
  | cons e rest ih =>
    obtain ⟨k, v⟩ := e
    by_cases hk : n = k
    · subst hk; exact ⟨v, by simp, by simp⟩
    · have : (n == k) = false := by simp [hk]
      have hm : (n, b) ∈ rest := by
        simp only [List.mem_cons, Prod.mk.injEq] at h
        rcases h with ⟨h1, _⟩ | h
        · exact absurd h1 hk
        · exact h
      obtain ⟨b', h1, h2⟩ := ih hm
      exact ⟨b', by simp [List.lookup_cons, this, h1], List.mem_cons_of_mem _ h2⟩

theorem mem_of_lookup (is : List (String × β)) (n : String) (b : β) (h : is.lookup n = some b) : (n, b) ∈ is := by
  induction is with
  | nil => simp at h
  | cons e rest ih =>
    obtain ⟨k, v⟩ := e
    by_cases hk : n = k
    · subst hk
      simp at h
      simp [h]
    · have : (n == k) = false := by simp [hk]
      simp only [List.lookup_cons, this] at h
      exact List.mem_cons_of_mem _ (ih h)

/-! ### the repaired walk -/

variable [DecidableEq β]

theorem insertChecked_ok (t t' : Table β) (nb : String × β) (h : insertChecked t nb = .ok t') :
    t' = insertIfAbsent t nb ∧ t'.lookup nb.1 = some nb.2 := by
  unfold insertChecked at h
  unfold insertIfAbsent
  rw [has_eq_lookup]
  cases hl : List.lookup nb.1 t with
  | none =>
    simp only [hl] at h
    have ht : t' = t ++ [nb] := by injection h with h; exact h.symm
    subst ht
    refine ⟨by simp, ?_⟩
    obtain ⟨k, b⟩ := nb
    simp only at hl
    simp [List.lookup_append, hl]
  | some b =>
    simp only [hl] at h
    by_cases hb : b = nb.2
    · simp only [hb, if_true] at h
      have ht : t' = t := by injection h with h; exact h.symm
      subst ht
      exact ⟨by simp, by rw [hl, hb]⟩
    · simp [hb] at h

theorem insertChecked_error (t : Table β) (nb : String × β) (e : String) (h : insertChecked t nb = .error e) :
    e = nb.1 ∧ ∃ b, t.lookup nb.1 = some b ∧ b ≠ nb.2 := by
  unfold insertChecked at h
  cases hl : List.lookup nb.1 t with
  | none => simp [hl] at h
  | some b =>
    simp only [hl] at h
    by_cases hb : b = nb.2
    · simp [hb] at h
    · simp only [hb, if_false] at h
      injection h with h
      exact ⟨h.symm, b, rfl, hb⟩

theorem checkedFrom_ok (t t' : Table β) (is : List (String × β)) (h : translateCheckedFrom t is = .ok t') :
    t' = is.foldl insertIfAbsent t ∧ ∀ e ∈ is, t'.lookup e.1 = some e.2 := by
  induction is generalizing t with
  | nil =>
    simp only [translateCheckedFrom] at h
    injection h with h
    exact ⟨by simp [h], by simp⟩
  | cons nb rest ih =>
    simp only [translateCheckedFrom] at h
    cases hi : insertChecked t nb with
    | error e => simp [hi] at h
    | ok t1 =>
      simp only [hi] at h
      obtain ⟨h1, h2⟩ := insertChecked_ok t t1 nb hi
      obtain ⟨h3, h4⟩ := ih t1 h
      refine ⟨by rw [List.foldl_cons, ← h1]; exact h3, ?_⟩
      intro e he
      simp only [List.mem_cons] at he
      rcases he with rfl | he
      · -- the entry made (or confirmed) for nb survives the rest of the walk
        rw [h3, lookup_foldl, List.lookup_append, h2]; rfl
      · exact h4 e he

theorem checkedFrom_error (t : Table β) (is : List (String × β)) (n : String)
    (h : translateCheckedFrom t is = .error n) :
    ∃ b b', (n, b) ∈ t ++ is ∧ (n, b') ∈ t ++ is ∧ b ≠ b' := by
  induction is generalizing t with
  | nil => simp [translateCheckedFrom] at h
  | cons nb rest ih =>
    simp only [translateCheckedFrom] at h
    cases hi : insertChecked t nb with
    | error e =>
      simp only [hi] at h
      injection h with h
      obtain ⟨h1, b, h2, h3⟩ := insertChecked_error t nb e hi
      subst h; subst h1
      exact ⟨b, nb.2, by simp [mem_of_lookup t nb.1 b h2], by simp, h3⟩
    | ok t1 =>
      simp only [hi] at h
      obtain ⟨h1, _⟩ := insertChecked_ok t t1 nb hi
      obtain ⟨b, b', m1, m2, hne⟩ := ih t1 h
      have sub : ∀ x, x ∈ t1 ++ rest → x ∈ t ++ nb :: rest := by
        intro x hx
        simp only [List.mem_append] at hx
        rcases hx with hx | hx
        · rw [h1] at hx
          unfold insertIfAbsent at hx
          by_cases hh : t.has nb.1 = true
          · simp only [hh, if_true] at hx; simp [hx]
          · simp only [hh, Bool.false_eq_true, if_false, List.mem_append, List.mem_cons, List.not_mem_nil, or_false] at hx
            rcases hx with hx | hx
            · simp [hx]
            · simp [hx]
        · simp [hx]
      exact ⟨b, b', sub _ m1, sub _ m2, hne⟩

end table

/-! ## Boolean checkers -/

theorem nodupB_iff (l : List String) : nodupB l = true ↔ l.Nodup := by
  induction l with
  | nil => simp [nodupB]
  | cons x xs ih =>
    simp only [nodupB, Bool.and_eq_true, Bool.not_eq_true', List.nodup_cons, ih]
    constructor
    · rintro ⟨h1, h2⟩
      refine ⟨?_, h2⟩
      intro hm
      have := List.contains_iff_mem.mpr hm
      rw [this] at h1
      exact Bool.noConfusion h1
    · rintro ⟨h1, h2⟩
      refine ⟨?_, h2⟩
      cases hc : xs.contains x with
      | false => rfl
      | true => exact absurd (List.contains_iff_mem.mp hc) h1

/-! ## names -/

/-- character list of a parameter suffix -/
theorem suffix_cons_toList (k v : String) (ps : List (String × String)) :
    (suffix ((k, v) :: ps)).toList = '_' :: '_' :: (k.toList ++ '_' :: (v.toList ++ (suffix ps).toList)) := by
  simp [suffix, String.toList_append]

theorem suffix_nil_toList : (suffix []).toList = [] := by simp [suffix]

/-- a suffix is empty (no parameters) or starts with the separator -/
theorem suffix_shape (ps : List (String × String)) :
    (ps = [] ∧ (suffix ps).toList = []) ∨ (ps ≠ [] ∧ ∃ r, (suffix ps).toList = '_' :: '_' :: r) := by
  cases ps with
  | nil => exact Or.inl ⟨rfl, suffix_nil_toList⟩
  | cons kv ps =>
    obtain ⟨k, v⟩ := kv
    exact Or.inr ⟨by simp, _, suffix_cons_toList k v ps⟩

/-- No separator inside a value: it does not contain `__` and does not end in `_`. -/
def NoSep (s : String) : Prop :=
  (∀ p q, s.toList ≠ p ++ '_' :: '_' :: q) ∧ (∀ p, s.toList ≠ p ++ ['_'])

/-- Cancellation: values without separators followed by tails that are both empty or both start with `__`. -/
theorem value_cancel (a a' T T' : List Char)
    (ha : (∀ p q, a ≠ p ++ '_' :: '_' :: q) ∧ (∀ p, a ≠ p ++ ['_']))
    (ha' : (∀ p q, a' ≠ p ++ '_' :: '_' :: q) ∧ (∀ p, a' ≠ p ++ ['_']))
    (hT : T = [] ∨ ∃ r, T = '_' :: '_' :: r) (hT' : T' = [] ∨ ∃ r, T' = '_' :: '_' :: r)
    (hiff : T = [] ↔ T' = []) (h : a ++ T = a' ++ T') : a = a' ∧ T = T' := by
  -- one direction, then symmetry
  have key : ∀ (a a' T T' : List Char),
      ((∀ p q, a' ≠ p ++ '_' :: '_' :: q) ∧ (∀ p, a' ≠ p ++ ['_'])) →
      (T = [] ∨ ∃ r, T = '_' :: '_' :: r) → (T' = [] ∨ ∃ r, T' = '_' :: '_' :: r) → (T = [] ↔ T' = []) →
      ∀ d, a' = a ++ d → T = d ++ T' → d = [] := by
    intro a a' T T' ha' hT hT' hiff d h1 h2
    cases d with
    | nil => rfl
    | cons c d =>
      exfalso
      rcases hT with hT | ⟨r, hT⟩
      · rw [hT] at h2; simp at h2
      · rcases hT' with hT' | ⟨r', hT'⟩
        · have := hiff.mpr hT'; rw [this] at hT; simp at hT
        · cases d with
          | nil =>
            rw [hT, hT'] at h2
            simp at h2
            obtain ⟨hc, _⟩ := h2
            exact ha'.2 a (by rw [h1, ← hc])
          | cons c2 d =>
            rw [hT] at h2
            simp at h2
            obtain ⟨hc, hc2, _⟩ := h2
            exact ha'.1 a d (by rw [h1, ← hc, ← hc2])
  rcases List.append_eq_append_iff.mp h with ⟨d, h1, h2⟩ | ⟨d, h1, h2⟩
  · have := key a a' T T' ha' hT hT' hiff d h1 h2
    subst this; simp at h1 h2; exact ⟨h1.symm, h2⟩
  · have := key a' a T' T ha hT' hT hiff.symm d h1 h2
    subst this; simp at h1 h2; exact ⟨h1, h2.symm⟩

/-- Parameter suffixes with the same keys and separator-free values are equal only if the values are equal. -/
theorem suffix_inj (ps ps' : List (String × String)) (hk : ps.map (·.1) = ps'.map (·.1))
    (hv : ∀ kv ∈ ps, NoSep kv.2) (hv' : ∀ kv ∈ ps', NoSep kv.2)
    (h : (suffix ps).toList = (suffix ps').toList) : ps = ps' := by
  induction ps generalizing ps' with
  | nil =>
    cases ps' with
    | nil => rfl
    | cons kv ps' => simp at hk
  | cons kv ps ih =>
    cases ps' with
    | nil => simp at hk
    | cons kv' ps' =>
      obtain ⟨k, v⟩ := kv
      obtain ⟨k', v'⟩ := kv'
      simp only [List.map_cons, List.cons.injEq] at hk
      obtain ⟨hk1, hk2⟩ := hk
      subst hk1
      rw [suffix_cons_toList, suffix_cons_toList] at h
      simp only [List.cons.injEq, true_and, List.append_cancel_left_eq] at h
      have sh := suffix_shape ps
      have sh' := suffix_shape ps'
      have hlen : ps = [] ↔ ps' = [] := by
        have := congrArg List.length hk2
        simp only [List.length_map] at this
        constructor
        · intro e; subst e; exact List.eq_nil_of_length_eq_zero (by simpa using this.symm)
        · intro e; subst e; exact List.eq_nil_of_length_eq_zero (by simpa using this)
      have hT : (suffix ps).toList = [] ∨ ∃ r, (suffix ps).toList = '_' :: '_' :: r := by
        rcases sh with ⟨_, h⟩ | ⟨_, h⟩
        · exact Or.inl h
        · exact Or.inr h
      have hT' : (suffix ps').toList = [] ∨ ∃ r, (suffix ps').toList = '_' :: '_' :: r := by
        rcases sh' with ⟨_, h⟩ | ⟨_, h⟩
        · exact Or.inl h
        · exact Or.inr h
      have hiff : (suffix ps).toList = [] ↔ (suffix ps').toList = [] := by
        constructor
        · intro e
          rcases sh with ⟨e1, _⟩ | ⟨_, r, e2⟩
          · have := hlen.mp e1; subst this; exact suffix_nil_toList
          · rw [e2] at e; simp at e
        · intro e
          rcases sh' with ⟨e1, _⟩ | ⟨_, r, e2⟩
          · have := hlen.mpr e1; subst this; exact suffix_nil_toList
          · rw [e2] at e; simp at e
      obtain ⟨e1, e2⟩ := value_cancel v.toList v'.toList _ _ (hv (k, v) (by simp)) (hv' (k, v') (by simp)) hT hT' hiff h
      have ev : v = v' := String.toList_inj.mp e1
      subst ev
      have := ih ps' hk2 (fun kv hkv => hv kv (List.mem_cons_of_mem _ hkv))
        (fun kv hkv => hv' kv (List.mem_cons_of_mem _ hkv)) e2
      rw [this]

theorem fullName_eq (cls : String) (ps : List (String × String)) : fullName cls ps = cls ++ nameTail ps := by
  unfold fullName nameTail
  by_cases h : ps.isEmpty = true <;> simp [h]

theorem nameTail_inj (ps ps' : List (String × String)) (hk : ps.map (·.1) = ps'.map (·.1))
    (hv : ∀ kv ∈ ps, NoSep kv.2) (hv' : ∀ kv ∈ ps', NoSep kv.2)
    (h : nameTail ps = nameTail ps') : ps = ps' := by
  cases ps with
  | nil =>
    cases ps' with
    | nil => rfl
    | cons kv ps' => simp at hk
  | cons kv ps =>
    cases ps' with
    | nil => simp at hk
    | cons kv' ps' =>
      simp only [nameTail, List.isEmpty_cons, Bool.false_eq_true, if_false] at h
      exact suffix_inj _ _ hk hv hv' (by rw [h])

/-- the hashed form `cls__<hex>` is never a plain full name of the same class (hex digits contain no `_`) -/
theorem nameTail_ne_hashed (ps : List (String × String)) (hx : String) (hhex : '_' ∉ hx.toList) :
    nameTail ps ≠ "__" ++ hx := by
  intro h
  have h2 := congrArg String.toList h
  cases ps with
  | nil =>
    simp [nameTail, String.toList_append] at h2
  | cons kv ps =>
    obtain ⟨k, v⟩ := kv
    simp only [nameTail, List.isEmpty_cons, Bool.false_eq_true, if_false] at h2
    rw [suffix_cons_toList] at h2
    simp [String.toList_append] at h2
    apply hhex
    rw [← h2]
    simp

/-! ## sorting by key -/

section sort
variable {α : Type} (key : α → String)

theorem insertByKey_perm (x : α) (l : List α) : (insertByKey key x l).Perm (x :: l) := by
  induction l with
  | nil => simp [insertByKey]
  | cons y ys ih =>
    simp only [insertByKey]
    by_cases h : key y < key x
    · simp only [h, if_true]
      exact ((List.perm_cons y).mpr ih).trans (List.Perm.swap x y ys)
    · simp [h]

theorem sortByKey_perm (l : List α) : (sortByKey key l).Perm l := by
  induction l with
  | nil => simp [sortByKey]
  | cons x xs ih =>
    simp only [sortByKey]
    exact (insertByKey_perm key x _).trans ((List.perm_cons x).mpr ih)

theorem insertByKey_sorted (x : α) (l : List α) (h : l.Pairwise (fun a b => key a ≤ key b)) :
    (insertByKey key x l).Pairwise (fun a b => key a ≤ key b) := by
  induction l with
  | nil => simp [insertByKey]
  | cons y ys ih =>
    simp only [insertByKey]
    have hy := List.pairwise_cons.mp h
    by_cases hlt : key y < key x
    · simp only [hlt, if_true]
      have hle : key y ≤ key x := String.not_lt.mp (fun h' => String.lt_irrefl _ (String.lt_trans hlt h'))
      refine List.pairwise_cons.mpr ⟨?_, ih hy.2⟩
      intro b hb
      have := (insertByKey_perm key x ys).subset hb
      simp only [List.mem_cons] at this
      rcases this with rfl | hb
      · exact hle
      · exact hy.1 b hb
    · simp only [hlt, if_false]
      have hle : key x ≤ key y := String.not_lt.mp hlt
      refine List.pairwise_cons.mpr ⟨?_, h⟩
      intro b hb
      simp only [List.mem_cons] at hb
      rcases hb with rfl | hb
      · exact hle
      · exact String.le_trans hle (hy.1 b hb)

theorem sortByKey_sorted (l : List α) : (sortByKey key l).Pairwise (fun a b => key a ≤ key b) := by
  induction l with
  | nil => simp [sortByKey]
  | cons x xs ih => exact insertByKey_sorted key x _ ih

/-- Sorting is insensitive to the order in which the elements are supplied, when the keys are distinct. -/
theorem sortByKey_perm_eq (l l' : List α) (hp : l.Perm l')
    (hinj : ∀ a ∈ l, ∀ b ∈ l, key a = key b → a = b) : sortByKey key l = sortByKey key l' := by
  apply List.Perm.eq_of_pairwise (le := fun a b => key a ≤ key b)
  · intro a b ha hb h1 h2
    have ha' : a ∈ l := (sortByKey_perm key l).subset ha
    have hb' : b ∈ l := hp.symm.subset ((sortByKey_perm key l').subset hb)
    exact hinj a ha' b hb' (String.le_antisymm h1 h2)
  · exact sortByKey_sorted key l
  · exact sortByKey_sorted key l'
  · exact (sortByKey_perm key l).trans (hp.trans (sortByKey_perm key l').symm)

end sort

end PV.Names
