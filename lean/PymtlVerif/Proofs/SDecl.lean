import PymtlVerif.Model.SDecl
import PymtlVerif.Proofs.NamesMangle
/-!
# Lemmas about `Model/SDecl.lean` (C03 / C12, structural declarations)

Specification-side definitions (not linked into the driver):
* `Family`, `families`  — the objects of a structural table, enumerated independently of the translators: every port / wire /
  interface member / sub-component port with the list of its enclosing levels (name, list dimensions), outermost first;
* `OPath`               — a signal as PyMTL names it (`s.c[i][j].ifc[k].p[l].fld[m][a:b]`) and the signal expression
  `gen_signal_expr` builds for it;
* `PVal`, `denotePy`, `denoteSV`, `envOf` — values, the PyMTL reading of a path, the SystemVerilog reading of a rendered reference
  over the environment of unpacked arrays that the declarations create.
-/
namespace PV.SDecl
open PV.SV PV.Names

/-! ## families: the objects of a table -/

structure Level where
  name : String
  dims : List Nat
deriving Inhabited, Repr, DecidableEq

structure Family where
  levels : List Level
  dir : Dir
  ty : PTy

def Family.names (f : Family) : List Seg := f.levels.map fun l => Seg.name l.name
def Family.dims (f : Family) : List Nat := f.levels.flatMap (·.dims)
def Family.decl (f : Family) : Decl := ⟨f.dir, f.names, f.ty, f.dims⟩

def sigFam (s : Sig) : Family := ⟨[⟨s.name, s.dims⟩], s.dir, s.ty⟩

def memberFams (pre : List Level) : Members → List Family
  | .nil => []
  | .port n dims dir ty rest => ⟨pre ++ [⟨n, dims⟩], dir, ty⟩ :: memberFams pre rest
  | .ifc n dims sub rest => memberFams (pre ++ [⟨n, dims⟩]) sub ++ memberFams pre rest

def ifcFams (e : IfcE) : List Family := memberFams [⟨e.name, e.dims⟩] e.ms

/-- ports of the element type of a sub-component slot, relative to the child -/
def childFams (ports : List Sig) (ifcs : List IfcE) : List Family := ports.map sigFam ++ ifcs.flatMap ifcFams

def subFams (k : Sub) : List Family :=
  (childFams k.ports k.ifcs).map fun f => ⟨⟨k.name, k.dims⟩ :: f.levels, .wire, f.ty⟩

def portFams (T : Table) : List Family := childFams T.ports T.ifcs

def families (T : Table) : List Family := portFams T ++ T.wires.map sigFam ++ T.subs.flatMap subFams

/-- every declaration of the emitted module that stands for an object of the table -/
def vAllDecls (T : Table) : Option (List Decl) :=
  (vModulePorts T).map fun ds => ds ++ vModuleWires T ++ T.subs.flatMap vSubWires

/-! ## L4 (sub-component view): no quirk, equals the families -/

def lvNames (ls : List Level) : List Seg := ls.map fun l => Seg.name l.name
def lvDims (ls : List Level) : List Nat := ls.flatMap (·.dims)

theorem lvNames_append (a b : List Level) : lvNames (a ++ b) = lvNames a ++ lvNames b := by simp [lvNames]
theorem lvDims_append (a b : List Level) : lvDims (a ++ b) = lvDims a ++ lvDims b := by simp [lvDims]

theorem vSubIfcMembers_eq (pre : List Level) (ms : Members) :
    vSubIfcMembers (lvNames pre) (lvDims pre) ms = (memberFams pre ms).map Family.decl := by
  induction ms generalizing pre with
  | nil => simp [vSubIfcMembers, memberFams]
  | port n dims dir ty rest ih =>
    simp only [vSubIfcMembers, memberFams, List.map_cons, ih pre]
    congr 1
    simp [Family.decl, Family.names, Family.dims, lvNames, lvDims]
  | ifc n dims sub rest ihs ihr =>
    simp only [vSubIfcMembers, memberFams, List.map_append, ← ihr pre]
    have := ihs (pre ++ [⟨n, dims⟩])
    rw [lvNames_append, lvDims_append] at this
    simp only [lvNames, lvDims, List.map_cons, List.map_nil, List.flatMap_cons, List.flatMap_nil, List.append_nil] at this ⊢
    rw [this]

theorem vSubIfc_eq (e : IfcE) : vSubIfc e = (ifcFams e).map Family.decl := by
  have := vSubIfcMembers_eq [⟨e.name, e.dims⟩] e.ms
  simpa [vSubIfc, ifcFams, lvNames, lvDims] using this

theorem vSigDecl_eq (s : Sig) : vSigDecl s = (sigFam s).decl := by
  simp [vSigDecl, sigFam, Family.decl, Family.names, Family.dims]

theorem flatMap_vSubIfc_eq (es : List IfcE) : es.flatMap vSubIfc = (es.flatMap ifcFams).map Family.decl := by
  induction es with
  | nil => rfl
  | cons e es ih => simp [List.flatMap_cons, vSubIfc_eq, ih]

theorem vSubDescs_eq (k : Sub) : vSubDescs k = (childFams k.ports k.ifcs).map Family.decl := by
  simp only [vSubDescs, childFams, List.map_append, List.map_map, flatMap_vSubIfc_eq]
  congr 1
  apply List.map_congr_left
  intro s _
  exact vSigDecl_eq s

theorem vSubWires_eq (k : Sub) : vSubWires k = (subFams k).map Family.decl := by
  simp only [vSubWires, subFams, vSubDescs_eq, List.map_map]
  apply List.map_congr_left
  intro f _
  simp [Family.decl, Family.names, Family.dims]

/-! ## L3 (the module's own interfaces): where it does not raise, it agrees with L4 -/

/-- the recursive call succeeds only on scalar ports and empty nested interfaces, and then yields `adims = []` declarations -/
theorem vIfcMembers_false (pre : List Seg) (ms : Members) (ds : List Decl) (h : vIfcMembers false pre ms = some ds) :
    ds = vSubIfcMembers pre [] ms := by
  induction ms generalizing pre ds with
  | nil => simp [vIfcMembers] at h; simp [vSubIfcMembers, h]
  | port n dims dir ty rest ih =>
    simp only [vIfcMembers] at h
    split at h
    · cases h
    · rename_i r hr
      simp only [Bool.false_or] at h
      split at h
      · rename_i hd
        cases h
        have hd' : dims = [] := by simpa using hd
        simp [vSubIfcMembers, hd', ih pre r hr]
      · cases h
  | ifc n dims sub rest ihs ihr =>
    simp only [vIfcMembers] at h
    split at h
    · rename_i inner r hi hr
      simp only [Bool.false_eq_true, if_false] at h
      split at h
      · rename_i he
        cases h
        have hin := ihs (pre ++ [.name n]) inner hi
        have hnil : inner = [] := by simpa using he
        -- the nested interface contributed nothing; the L4 walk of it is empty whatever dimensions are handed down
        have e0 : vSubIfcMembers (pre ++ [.name n]) dims sub = [] := by
          have aux : ∀ (p : List Seg) (a b : List Nat) (m : Members), vSubIfcMembers p a m = [] → vSubIfcMembers p b m = [] := by
            intro p a b m
            induction m generalizing p a b with
            | nil => simp [vSubIfcMembers]
            | port => simp [vSubIfcMembers]
            | ifc n' d' s' r' i1 i2 =>
              simp only [vSubIfcMembers, List.append_eq_nil_iff]
              rintro ⟨h1, h2⟩
              exact ⟨i1 _ _ _ h1, i2 _ _ _ h2⟩
          exact aux _ [] _ _ (by rw [← hin, hnil])
        simp only [vSubIfcMembers, List.nil_append, e0]
        exact ihr pre ds hr
      · cases h
    · cases h

theorem vIfcMembers_true (pre : List Seg) (ms : Members) (ds : List Decl) (h : vIfcMembers true pre ms = some ds) :
    ds = vSubIfcMembers pre [] ms := by
  induction ms generalizing pre ds with
  | nil => simp [vIfcMembers] at h; simp [vSubIfcMembers, h]
  | port n dims dir ty rest ih =>
    simp only [vIfcMembers] at h
    split at h
    · cases h
    · rename_i r hr
      simp only [Bool.true_or, if_true] at h
      cases h
      simp [vSubIfcMembers, ih pre r hr]
  | ifc n dims sub rest ihs ihr =>
    simp only [vIfcMembers] at h
    split at h
    · rename_i inner r hi hr
      simp only [if_true] at h
      cases h
      have hin := vIfcMembers_false (pre ++ [.name n]) sub inner hi
      -- prefixing the dimensions of the nested interface
      have pref : ∀ (p : List Seg) (a b : List Nat) (m : Members),
          (vSubIfcMembers p b m).map (fun d => { d with dims := a ++ d.dims }) = vSubIfcMembers p (a ++ b) m := by
        intro p a b m
        induction m generalizing p a b with
        | nil => simp [vSubIfcMembers]
        | port n' d' dr' t' r' i1 => simp [vSubIfcMembers, i1]
        | ifc n' d' s' r' i1 i2 =>
          simp only [vSubIfcMembers, List.map_append, i2, i1, List.append_assoc]
      simp only [vSubIfcMembers, List.nil_append, ← ihr pre r hr]
      rw [hin, pref, List.append_nil]
    · cases h

/-- **L3 = L4**: what the module declares for one of its interfaces is what its parent declares wires and port maps for -/
theorem vIfcDecl_eq (e : IfcE) (ds : List Decl) (h : vIfcDecl e = some ds) : ds = vSubIfc e := by
  simp only [vIfcDecl, Option.map_eq_some_iff] at h
  obtain ⟨ms, hm, rfl⟩ := h
  have := vIfcMembers_true [] e.ms ms hm
  subst this
  -- prefixing name and dimensions of the interface
  have pref : ∀ (p : List Seg) (a : List Nat) (m : Members),
      (vSubIfcMembers p a m).map (fun d => (⟨d.dir, Seg.name e.name :: d.path, d.ty, e.dims ++ d.dims⟩ : Decl))
        = vSubIfcMembers (Seg.name e.name :: p) (e.dims ++ a) m := by
    intro p a m
    induction m generalizing p a with
    | nil => simp [vSubIfcMembers]
    | port n' d' dr' t' r' i1 => simp [vSubIfcMembers, i1]
    | ifc n' d' s' r' i1 i2 =>
      simp only [vSubIfcMembers, List.map_append, i2, i1, List.cons_append, List.append_assoc]
  simpa [vSubIfc] using pref [] [] e.ms

theorem vIfcDecls_eq (es : List IfcE) (ds : List Decl) (h : vIfcDecls es = some ds) : ds = es.flatMap vSubIfc := by
  induction es generalizing ds with
  | nil => simp [vIfcDecls] at h; simp [h]
  | cons e es ih =>
    simp only [vIfcDecls] at h
    split at h
    · rename_i a b ha hb
      cases h
      simp [List.flatMap_cons, vIfcDecl_eq e a ha, ih b hb]
    · cases h

theorem vModulePorts_eq (T : Table) (ds : List Decl) (h : vModulePorts T = some ds) :
    ds = (portFams T).map Family.decl := by
  simp only [vModulePorts, Option.map_eq_some_iff] at h
  obtain ⟨is, hi, rfl⟩ := h
  rw [vIfcDecls_eq T.ifcs is hi, portFams, childFams, List.map_append, flatMap_vSubIfc_eq, List.map_map]
  congr 1
  apply List.map_congr_left
  intro s _
  exact vSigDecl_eq s

theorem vAllDecls_eq (T : Table) (ds : List Decl) (h : vAllDecls T = some ds) : ds = (families T).map Family.decl := by
  simp only [vAllDecls, Option.map_eq_some_iff] at h
  obtain ⟨ps, hp, rfl⟩ := h
  rw [vModulePorts_eq T ps hp, families, List.map_append, List.map_append, vModuleWires, List.map_map]
  congr 1
  · congr 1
    apply List.map_congr_left
    intro s _
    exact vSigDecl_eq s
  · induction T.subs with
    | nil => rfl
    | cons k ks ih => simp [List.flatMap_cons, vSubWires_eq, ih]

/-! ## index tuples -/

/-- `ix` is an index tuple of a list with dimensions `ds`: same length, every index below its dimension -/
def IdxLt : List Nat → List Nat → Prop
  | [], [] => True
  | i :: ix, d :: ds => i < d ∧ IdxLt ix ds
  | _, _ => False

theorem IdxLt.length_eq {ix ds : List Nat} (h : IdxLt ix ds) : ix.length = ds.length := by
  induction ix generalizing ds with
  | nil => cases ds with
    | nil => rfl
    | cons => exact h.elim
  | cons i ix ih => cases ds with
    | nil => exact h.elim
    | cons d ds => simp [ih h.2]

theorem mem_allIdx (ds ix : List Nat) : ix ∈ allIdx ds ↔ IdxLt ix ds := by
  induction ds generalizing ix with
  | nil =>
    simp only [allIdx, List.mem_singleton]
    constructor
    · rintro rfl; exact trivial
    · intro h; cases ix with
      | nil => rfl
      | cons => exact h.elim
  | cons d ds ih =>
    simp only [allIdx, List.mem_flatMap, List.mem_range, List.mem_map]
    constructor
    · rintro ⟨i, hi, t, ht, rfl⟩
      exact ⟨hi, (ih t).mp ht⟩
    · intro h
      cases ix with
      | nil => exact h.elim
      | cons i t => exact ⟨_, h.1, _, (ih _).mpr h.2, rfl⟩

theorem allIdx_nodup (ds : List Nat) : (allIdx ds).Nodup := by
  induction ds with
  | nil => simp [allIdx]
  | cons d ds ih =>
    simp only [allIdx, List.Nodup, List.pairwise_flatMap]
    refine ⟨?_, ?_⟩
    · intro i _
      rw [List.pairwise_map]
      exact ih.imp (by intro a b h e; exact h (List.cons.inj e).2)
    · apply List.Pairwise.imp_of_mem _ (List.nodup_range (n := d))
      intro i j _ _ hij
      simp only [List.mem_map]
      rintro _ ⟨a, _, rfl⟩ _ ⟨b, _, rfl⟩ h
      exact hij (List.cons.inj h).1

end PV.SDecl
