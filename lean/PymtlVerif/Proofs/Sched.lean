/-!
Abstract theory of update-block scheduling (core Lean only): blocks with read/write footprints over an
arbitrary variable type. Used by C01, C02, C07, C11 through the concrete instance in `Proofs/Rtl.lean`.
-/
namespace PV.Sched

variable {Var Val : Type}

abbrev St (Var Val : Type) := Var → Val

structure Blk (Var Val : Type) where
  R   : Var → Prop
  W   : Var → Prop
  run : St Var Val → St Var Val

/-- frame conditions: only W changes, W-part depends only on R, block does not read what it writes -/
structure Blk.Wf (b : Blk Var Val) : Prop where
  frame : ∀ s v, ¬ b.W v → b.run s v = s v
  dep   : ∀ s s', (∀ v, b.R v → s v = s' v) → ∀ v, b.W v → b.run s v = b.run s' v
  noself : ∀ v, b.R v → ¬ b.W v

def runList (bs : List (Blk Var Val)) (s : St Var Val) : St Var Val :=
  bs.foldl (fun s b => b.run s) s

theorem runList_nil (s : St Var Val) : runList [] s = s := rfl
theorem runList_cons (b : Blk Var Val) (bs) (s : St Var Val) :
    runList (b :: bs) s = runList bs (b.run s) := rfl
theorem runList_append (xs ys : List (Blk Var Val)) (s : St Var Val) :
    runList (xs ++ ys) s = runList ys (runList xs s) := by
  simp [runList, List.foldl_append]

/-- a variable not written by any block of the list is unchanged -/
theorem runList_frame (bs : List (Blk Var Val)) (hwf : ∀ b ∈ bs, b.Wf) (s : St Var Val) (v : Var)
    (h : ∀ b ∈ bs, ¬ b.W v) : runList bs s v = s v := by
  induction bs generalizing s with
  | nil => rfl
  | cons b bs ih =>
    rw [runList_cons]
    rw [ih (fun c hc => hwf c (List.mem_cons_of_mem _ hc)) _ (fun c hc => h c (List.mem_cons_of_mem _ hc))]
    exact (hwf b (List.mem_cons_self)).frame s v (h b (List.mem_cons_self))

/-- single writer -/
def SingleWriter (bs : List (Blk Var Val)) : Prop :=
  bs.Pairwise (fun a b => ∀ v, a.W v → ¬ b.W v)

/-- topological: nobody later in the list writes what an earlier-or-same block reads -/
def Topo (bs : List (Blk Var Val)) : Prop :=
  bs.Pairwise (fun a b => ∀ v, a.R v → ¬ b.W v)

theorem fixed_point_of_topo (bs : List (Blk Var Val)) (hwf : ∀ b ∈ bs, b.Wf)
    (hsw : SingleWriter bs) (htopo : Topo bs) (s : St Var Val) :
    ∀ b ∈ bs, b.run (runList bs s) = runList bs s := by
  intro b hb
  obtain ⟨pre, post, rfl⟩ := List.append_of_mem hb
  have hbwf := hwf b hb
  -- facts about post
  have hsw' : ∀ c ∈ post, ∀ v, b.W v → ¬ c.W v := by
    have := (List.pairwise_append.mp hsw).2.1
    exact fun c hc => (List.pairwise_cons.mp this).1 c hc
  have htopo' : ∀ c ∈ post, ∀ v, b.R v → ¬ c.W v := by
    have := (List.pairwise_append.mp htopo).2.1
    exact fun c hc => (List.pairwise_cons.mp this).1 c hc
  have hwfpost : ∀ c ∈ post, c.Wf := fun c hc => hwf c (by simp [hc])
  generalize hs1 : runList pre s = s1
  have hfinal : runList (pre ++ b :: post) s = runList post (b.run s1) := by
    rw [runList_append, runList_cons, hs1]
  rw [hfinal]
  funext v
  by_cases hv : b.W v
  · -- v written by b
    have h1 : runList post (b.run s1) v = b.run s1 v :=
      runList_frame post hwfpost _ v (fun c hc => hsw' c hc v hv)
    rw [h1]
    apply hbwf.dep _ _ _ v hv
    intro u hu
    have h2 : runList post (b.run s1) u = b.run s1 u :=
      runList_frame post hwfpost _ u (fun c hc => htopo' c hc u hu)
    rw [h2]
    exact hbwf.frame s1 u (hbwf.noself u hu)
  · exact hbwf.frame _ v hv

/-- every reader comes after the writer of what it reads (the other reading of "topological"). -/
theorem unique_fixed_point (bs : List (Blk Var Val)) (hwf : ∀ b ∈ bs, b.Wf)
    (htopo : Topo bs) (t t' : St Var Val)
    (hin : ∀ v, (∀ b ∈ bs, ¬ b.W v) → t v = t' v)
    (ht : ∀ b ∈ bs, b.run t = t) (ht' : ∀ b ∈ bs, b.run t' = t') :
    t = t' := by
  suffices h : ∀ (post pre : List (Blk Var Val)), pre ++ post = bs →
      (∀ b ∈ pre, ∀ v, b.W v → t v = t' v) → ∀ b ∈ bs, ∀ v, b.W v → t v = t' v by
    funext v
    by_cases hv : ∃ b ∈ bs, b.W v
    · obtain ⟨b, hb, hbv⟩ := hv
      exact h bs [] (by simp) (by simp) b hb v hbv
    · exact hin v (fun b hb hbv => hv ⟨b, hb, hbv⟩)
  intro post
  induction post with
  | nil => intro pre hpp hpre; simpa [← hpp] using hpre
  | cons c post ih =>
    intro pre hpp hpre
    apply ih (pre ++ [c]) (by simpa using hpp)
    intro b hb v hbv
    rcases List.mem_append.mp hb with hb | hb
    · exact hpre b hb v hbv
    · have hbc : b = c := by simpa using hb
      subst hbc
      have hbmem : b ∈ bs := by rw [← hpp]; simp
      have hbwf := hwf b hbmem
      have e1 : t v = b.run t v := by rw [ht b hbmem]
      have e2 : t' v = b.run t' v := by rw [ht' b hbmem]
      rw [e1, e2]
      apply hbwf.dep _ _ _ v hbv
      intro u hu
      by_cases hw : ∃ d ∈ bs, d.W u
      · obtain ⟨d, hd, hdu⟩ := hw
        rw [← hpp] at hd
        rcases List.mem_append.mp hd with hd | hd
        · exact hpre d hd u hdu
        · rcases List.mem_cons.mp hd with hd | hd
          · subst hd; exact absurd hdu (hbwf.noself u hu)
          · exfalso
            rw [← hpp] at htopo
            have := (List.pairwise_append.mp htopo).2.1
            exact (List.pairwise_cons.mp this).1 d hd u hu hdu
      · exact hin u (fun d hd hdu => hw ⟨d, hd, hdu⟩)

theorem schedule_independent (o1 o2 : List (Blk Var Val)) (hperm : o1.Perm o2)
    (hwf : ∀ b ∈ o1, b.Wf) (hsw : SingleWriter o1)
    (h1 : Topo o1) (h2 : Topo o2) (s : St Var Val) :
    runList o1 s = runList o2 s := by
  have hwf2 : ∀ b ∈ o2, b.Wf := fun b hb => hwf b (hperm.mem_iff.mpr hb)
  have hsw2 : SingleWriter o2 := by
    unfold SingleWriter at *
    exact hperm.pairwise hsw (fun {a b} h v hb ha => h v ha hb)
  apply unique_fixed_point o1 hwf h1
  · intro v hv
    rw [runList_frame o1 hwf s v hv,
        runList_frame o2 hwf2 s v (fun b hb => hv b (hperm.mem_iff.mpr hb))]
  · exact fixed_point_of_topo o1 hwf hsw h1 s
  · intro b hb
    exact fixed_point_of_topo o2 hwf2 hsw2 h2 s b (hperm.mem_iff.mp hb)

/-! ## strongly connected groups and commuting (flip-flop) blocks -/


theorem stable_is_fixed_point (scc : List (Blk Var Val)) (hwf : ∀ b ∈ scc, b.Wf)
    (hsw : SingleWriter scc) (watch : Var → Prop)
    (hwatch : ∀ v, (∃ a ∈ scc, a.W v) → (∃ b ∈ scc, b.R v) → watch v)
    (s : St Var Val) (hst : ∀ v, watch v → runList scc s v = s v) :
    ∀ b ∈ scc, b.run (runList scc s) = runList scc s := by
  intro b hb
  obtain ⟨pre, post, rfl⟩ := List.append_of_mem hb
  have hbwf := hwf b hb
  have hsplit := List.pairwise_append.mp hsw
  have hpre_post : ∀ a ∈ pre, ∀ c ∈ b :: post, ∀ v, a.W v → ¬ c.W v := hsplit.2.2
  have hb_post : ∀ c ∈ post, ∀ v, b.W v → ¬ c.W v := fun c hc => (List.pairwise_cons.mp hsplit.2.1).1 c hc
  have hwfpre : ∀ c ∈ pre, c.Wf := fun c hc => hwf c (by simp [hc])
  have hwfpost : ∀ c ∈ post, c.Wf := fun c hc => hwf c (by simp [hc])
  generalize hs1 : runList pre s = s1
  have hfinal : runList (pre ++ b :: post) s = runList post (b.run s1) := by
    rw [runList_append, runList_cons, hs1]
  rw [hfinal] at hst ⊢
  -- reads of b see their final values already in s1
  have hread : ∀ u, b.R u → s1 u = runList post (b.run s1) u := by
    intro u hu
    have hnb : ¬ b.W u := hbwf.noself u hu
    by_cases hc : ∃ c ∈ post, c.W u
    · obtain ⟨c, hcm, hcu⟩ := hc
      have hw : watch u := hwatch u ⟨c, by simp [hcm], hcu⟩ ⟨b, hb, hu⟩
      have h1 : s1 u = s u := by
        rw [← hs1]
        exact runList_frame pre hwfpre s u
          (fun a ha haw => hpre_post a ha c (List.mem_cons_of_mem _ hcm) u haw hcu)
      rw [h1, hst u hw]
    · have h2 : runList post (b.run s1) u = b.run s1 u :=
        runList_frame post hwfpost _ u (fun c hcm hcu => hc ⟨c, hcm, hcu⟩)
      rw [h2, hbwf.frame s1 u hnb]
  funext v
  by_cases hv : b.W v
  · have h1 : runList post (b.run s1) v = b.run s1 v :=
      runList_frame post hwfpost _ v (fun c hc => hb_post c hc v hv)
    rw [h1]
    exact hbwf.dep _ _ (fun u hu => (hread u hu).symm) v hv
  · exact hbwf.frame _ v hv

/-- two blocks with disjoint write sets that do not read each other's writes commute -/
theorem commute (a b : Blk Var Val) (ha : a.Wf) (hb : b.Wf)
    (hww : ∀ v, a.W v → ¬ b.W v) (hab : ∀ v, a.R v → ¬ b.W v) (hba : ∀ v, b.R v → ¬ a.W v)
    (s : St Var Val) : b.run (a.run s) = a.run (b.run s) := by
  funext v
  by_cases hav : a.W v
  · have hbv : ¬ b.W v := hww v hav
    rw [hb.frame _ v hbv]
    exact ha.dep _ _ (fun u hu => (hb.frame s u (hab u hu)).symm) v hav
  · rw [ha.frame _ v hav]
    by_cases hbv : b.W v
    · exact hb.dep _ _ (fun u hu => ha.frame s u (hba u hu)) v hbv
    · rw [hb.frame _ v hbv, hb.frame _ v hbv, ha.frame _ v hav]

/-- flip-flop style blocks: nobody reads anything that anybody writes (reads are of `cur`, writes of `next`) -/
theorem perm_of_no_read_write (o1 o2 : List (Blk Var Val)) (hperm : o1.Perm o2)
    (hwf : ∀ b ∈ o1, b.Wf) (hsw : ∀ a ∈ o1, ∀ b ∈ o1, a ≠ b → ∀ v, a.W v → ¬ b.W v)
    (hnrw : ∀ a ∈ o1, ∀ b ∈ o1, ∀ v, a.R v → ¬ b.W v) (hnd : o1.Nodup) (s : St Var Val) :
    runList o1 s = runList o2 s := by
  induction hperm generalizing s with
  | nil => rfl
  | cons x _ ih =>
    rw [runList_cons, runList_cons]
    exact ih (fun b hb => hwf b (List.mem_cons_of_mem _ hb))
      (fun a ha b hb => hsw a (List.mem_cons_of_mem _ ha) b (List.mem_cons_of_mem _ hb))
      (fun a ha b hb => hnrw a (List.mem_cons_of_mem _ ha) b (List.mem_cons_of_mem _ hb))
      (List.nodup_cons.mp hnd).2 _
  | swap x y l =>
    rw [runList_cons, runList_cons, runList_cons, runList_cons]
    have hxy : y ≠ x := by
      intro h; subst h
      have := (List.nodup_cons.mp hnd).1
      simp at this
    congr 1
    exact commute y x (hwf y (by simp)) (hwf x (by simp))
      (hsw y (by simp) x (by simp) hxy)
      (hnrw y (by simp) x (by simp)) (hnrw x (by simp) y (by simp)) s
  | trans h1 h2 ih1 ih2 =>
    rw [ih1 hwf hsw hnrw hnd s]
    exact ih2 (fun b hb => hwf b (h1.mem_iff.mpr hb))
      (fun a ha b hb => hsw a (h1.mem_iff.mpr ha) b (h1.mem_iff.mpr hb))
      (fun a ha b hb => hnrw a (h1.mem_iff.mpr ha) b (h1.mem_iff.mpr hb))
      (h1.nodup_iff.mp hnd) s


/-- same as `perm_of_no_read_write` with the single-writer hypothesis as a `Pairwise` (no `Nodup` needed) -/
theorem perm_commute (o1 o2 : List (Blk Var Val)) (hperm : o1.Perm o2)
    (hwf : ∀ b ∈ o1, b.Wf) (hsw : SingleWriter o1)
    (hnrw : ∀ a ∈ o1, ∀ b ∈ o1, ∀ v, a.R v → ¬ b.W v) (s : St Var Val) :
    runList o1 s = runList o2 s := by
  have symm : ∀ {a b : Blk Var Val}, (∀ v, a.W v → ¬ b.W v) → (∀ v, b.W v → ¬ a.W v) :=
    fun h v hb ha => h v ha hb
  induction hperm generalizing s with
  | nil => rfl
  | cons x _ ih =>
    rw [runList_cons, runList_cons]
    exact ih (fun b hb => hwf b (List.mem_cons_of_mem _ hb))
      (List.pairwise_cons.mp hsw).2
      (fun a ha b hb => hnrw a (List.mem_cons_of_mem _ ha) b (List.mem_cons_of_mem _ hb)) _
  | swap x y l =>
    rw [runList_cons, runList_cons, runList_cons, runList_cons]
    congr 1
    have hyx : ∀ v, y.W v → ¬ x.W v := (List.pairwise_cons.mp hsw).1 x (by simp)
    exact commute y x (hwf y (by simp)) (hwf x (by simp)) hyx
      (hnrw y (by simp) x (by simp)) (hnrw x (by simp) y (by simp)) s
  | trans h1 h2 ih1 ih2 =>
    rw [ih1 hwf hsw hnrw s]
    exact ih2 (fun b hb => hwf b (h1.mem_iff.mpr hb))
      (by unfold SingleWriter at *; exact h1.pairwise hsw symm)
      (fun a ha b hb => hnrw a (h1.mem_iff.mpr ha) b (h1.mem_iff.mpr hb)) s

end PV.Sched
