import PymtlVerif.Proofs.PipeGhost
/-!
# LEVEL 2 corollaries of the ghost invariant `J` (`Proofs/PipeGhost.lean`)

For every `(s, g)` reachable from the power-on state under ANY environment input list (resets at any time):
no instruction is duplicated or lost, instructions move in order, the drop unit drops exactly the responses
of squashed fetches.
-/
namespace PV.Pipe

/-- `(s, g)`: model state and ghost state after some input list from power-on -/
def Reach (s : State) (g : Ghost) : Prop := ∃ envs, grun State.init {} envs = (s, g)

theorem reach_run (envs : List EnvIn) : Reach (grun State.init {} envs).1 (grun State.init {} envs).2 :=
  ⟨envs, rfl⟩
theorem Reach.inv {s : State} {g : Ghost} (h : Reach s g) : J s g := by
  obtain ⟨envs, e⟩ := h
  have := J_run envs
  rw [e] at this; exact this
/-- the model component of a reachable pair is a reachable model state ... -/
theorem Reach.state {s : State} {g : Ghost} (h : Reach s g) : ∃ envs, s = runS State.init envs := by
  obtain ⟨envs, e⟩ := h
  exact ⟨envs, by rw [← grun_fst State.init {} envs, e]⟩
/-- ... and every reachable model state carries a ghost state -/
theorem reach_of_runS (envs : List EnvIn) : ∃ g, Reach (runS State.init envs) g :=
  ⟨(grun State.init {} envs).2, envs, by rw [← grun_fst State.init {} envs]⟩
theorem Reach.step {s : State} {g : Ghost} (h : Reach s g) (i : EnvIn) : Reach (next s i) (gnext s g i) := by
  obtain ⟨envs, e⟩ := h
  exact ⟨envs ++ [i], by rw [grun_append, e]; rfl⟩

section
variable {s : State} {g : Ghost}

/-! ## 1, 2: in order, no duplication -/

theorem commits_sublist_of_J (h : J s g) :
    List.Sublist
      (g.commits ++ opt [g.tW] s.val_W ++ opt [g.tM] s.val_M ++ opt [g.tX] s.val_X ++ opt [g.tD] s.val_D
        ++ opt [g.tWait] s.drop_wait ++ opt [g.tF] s.val_F)
      (List.range' g.base (g.nxt - g.base)) := by
  rw [← h.W, ← h.M, ← h.X, h.F]
  refine List.Sublist.append (List.Sublist.append ?_ (List.Sublist.refl _)) (List.Sublist.refl _)
  refine List.Sublist.trans (l₂ := g.outD.map (·.1) ++ opt [g.tD] s.val_D) ?_ ?_
  · exact List.Sublist.append (List.Sublist.map _ List.filter_sublist) (List.Sublist.refl _)
  · rw [← h.D]; exact List.Sublist.map _ List.filter_sublist

/-- committed tags, then the tags in W, M, X, D, the drop unit, F: a subsequence of the tags issued since
the last reset -/
theorem commits_sublist (h : Reach s g) :
    List.Sublist
      (g.commits ++ opt [g.tW] s.val_W ++ opt [g.tM] s.val_M ++ opt [g.tX] s.val_X ++ opt [g.tD] s.val_D
        ++ opt [g.tWait] s.drop_wait ++ opt [g.tF] s.val_F)
      (List.range' g.base (g.nxt - g.base)) := commits_sublist_of_J h.inv

/-- ... hence strictly increasing: commits are in fetch order without repetition, everything committed is
older than everything in flight, and the pipeline holds strictly younger tags from W back to F -/
theorem tags_increasing (h : Reach s g) :
    List.Pairwise (· < ·)
      (g.commits ++ opt [g.tW] s.val_W ++ opt [g.tM] s.val_M ++ opt [g.tX] s.val_X ++ opt [g.tD] s.val_D
        ++ opt [g.tWait] s.drop_wait ++ opt [g.tF] s.val_F) :=
  List.Pairwise.sublist (commits_sublist h) List.pairwise_lt_range'

/-! ## 3: nothing lost, nothing duplicated -/

theorem count_map_filter_split {α β : Type} [BEq β] [LawfulBEq β] (a : β) (l : List α) (f : α → β) (p : α → Bool) :
    List.count a (l.map f) =
      List.count a ((l.filter p).map f) + List.count a ((l.filter (fun e => !p e)).map f) := by
  rw [← List.count_append, ← List.map_append]
  exact ((List.filter_append_perm p l).map f).symm.count_eq a

/-- every tag issued since the last reset is exactly one of: committed, squashed in D, squashed in F (this
includes the one the drop unit still waits for), or still in W / M / X / D / F -/
theorem fate_partition (h : Reach s g) :
    List.Perm
      (g.commits ++ (g.outD.filter (·.2)).map (·.1) ++ g.sqF ++
        (opt [g.tW] s.val_W ++ opt [g.tM] s.val_M ++ opt [g.tX] s.val_X ++ opt [g.tD] s.val_D ++ opt [g.tF] s.val_F))
      (List.range' g.base (g.nxt - g.base)) := by
  have j := h.inv
  rw [List.perm_iff_count]
  intro a
  have cF := congrArg (List.count a) j.F
  have cd := congrArg (List.count a) j.drop
  have cD := congrArg (List.count a) j.D
  have cX := congrArg (List.count a) j.X
  have cM := congrArg (List.count a) j.M
  have cW := congrArg (List.count a) j.W
  have s1 := count_map_filter_split a g.consumedF (·.1) (·.2)
  have s2 := count_map_filter_split a g.outD (·.1) (·.2)
  simp only [List.count_append] at *
  omega

/-! ## 4: a squash hits only younger instructions -/

theorem squashed_are_younger (h : Reach s g) (i : EnvIn) (hq : osquash_X s i = true) :
    (s.val_D = true → g.tX < g.tD) ∧ (s.val_F = true → g.tX < g.tF) ∧
    (i.reset = false → (gnext s g i).outX = g.outX ++ [g.tX]) := by
  obtain ⟨hx, hs, _⟩ := osquash_X_origin s i hq
  have t := tags_increasing h
  refine ⟨?_, ?_, ?_⟩
  · intro hd
    rw [hx, hd] at t
    have sub : List.Sublist [g.tX, g.tD]
        (g.commits ++ opt [g.tW] s.val_W ++ opt [g.tM] s.val_M ++ opt [g.tX] true ++ opt [g.tD] true
          ++ opt [g.tWait] s.drop_wait ++ opt [g.tF] s.val_F) :=
      ((((((List.nil_sublist g.commits).append (List.nil_sublist _)).append (List.nil_sublist _)).append
        (List.Sublist.refl [g.tX])).append (List.Sublist.refl [g.tD])).append (List.nil_sublist _)).append
        (List.nil_sublist _)
    have := List.Pairwise.sublist sub t
    simpa using this
  · intro hf
    rw [hx, hf] at t
    have sub : List.Sublist [g.tX, g.tF]
        (g.commits ++ opt [g.tW] s.val_W ++ opt [g.tM] s.val_M ++ opt [g.tX] true ++ opt [g.tD] s.val_D
          ++ opt [g.tWait] s.drop_wait ++ opt [g.tF] true) :=
      ((((((List.nil_sublist g.commits).append (List.nil_sublist _)).append (List.nil_sublist _)).append
        (List.Sublist.refl [g.tX])).append (List.nil_sublist _)).append (List.nil_sublist _)).append
        (List.Sublist.refl [g.tF])
    have := List.Pairwise.sublist sub t
    simpa using this
  · intro hr
    simp [gnext_nr s g i hr, next_val_X, hx, hs]

/-! ## 5: the drop unit -/

theorem drop_exact (h : Reach s g) :
    g.sqF = (g.consumedF.filter (·.2)).map (·.1) ++ opt [g.tWait] s.drop_wait ∧
    (g.consumedF.filter (fun e => !e.2)).map (·.1) = g.outD.map (·.1) ++ opt [g.tD] s.val_D ∧
    (∀ e ∈ g.consumedF, e.2 = true → e.1 ∈ g.sqF) := by
  have j := h.inv
  refine ⟨j.drop, j.D, ?_⟩
  intro e he h2
  rw [j.drop]
  exact List.mem_append_left _ (List.mem_map.2 ⟨e, List.mem_filter.2 ⟨he, h2⟩, rfl⟩)

end

/-! ## 6: every dequeue of `imemresp_q` is accounted for (one cycle, any state) -/

/-- a real dequeue (`en` and `rdy`) of the instruction-response queue is a WAIT-drop, a squash-drop, a
delivery to D, or happens while F holds no fetch at all (a response nobody asked for); the ghost log
`consumedF` records exactly the first three -/
theorem deq_accounted (s : State) (g : Ghost) (i : EnvIn) (hr : i.reset = false)
    (hen : drop_in_en s i = true) (hrdy : drop_in_rdy s i = true) :
    (s.drop_wait = true ∧ (gnext s g i).consumedF = g.consumedF ++ [(g.tWait, true)]) ∨
    (s.drop_wait = false ∧ squash_F s i = true ∧ (gnext s g i).consumedF = g.consumedF ++ [(g.tF, true)]) ∨
    (s.drop_wait = false ∧ next_val_F s i = true ∧ (gnext s g i).consumedF = g.consumedF ++ [(g.tF, false)]) ∨
    (s.drop_wait = false ∧ s.val_F = false ∧ (gnext s g i).consumedF = g.consumedF) := by
  rw [gnext_nr s g i hr]
  rcases Bool.eq_false_or_eq_true s.drop_wait with hw | hw
  · simp [hw, hrdy]
  · rcases Bool.eq_false_or_eq_true (squash_F s i) with hq | hq
    · simp [hw, hq, hrdy]
    · rcases Bool.eq_false_or_eq_true (next_val_F s i) with hn | hn
      · simp [hw, hq, hn]
      · simp only [hw, hq, hn]
        simp [drop_in_en, hw, imemresp_en, hq] at hen
        simp [next_val_F, hq, hen] at hn
        simp [hn]

/-- conversely the ghost log `consumedF` grows only on a real dequeue -/
theorem consumed_is_deq (s : State) (g : Ghost) (i : EnvIn) (hr : i.reset = false)
    (h : (gnext s g i).consumedF ≠ g.consumedF) : drop_in_en s i = true ∧ drop_in_rdy s i = true := by
  rw [gnext_nr s g i hr] at h
  rcases Bool.eq_false_or_eq_true s.drop_wait with hw | hw
  · rcases Bool.eq_false_or_eq_true (drop_in_rdy s i) with hy | hy
    · simp [drop_in_en, hw, hy]
    · simp [hw, hy] at h
  · rcases Bool.eq_false_or_eq_true (squash_F s i) with hq | hq
    · rcases Bool.eq_false_or_eq_true (drop_in_rdy s i) with hy | hy
      · simp [drop_in_en, hw, hy, imemresp_en, hq]
      · simp [hw, hy] at h
        obtain ⟨a, _, _, _, b⟩ := drop_in_rdy_of_next_val_F s i h
        rw [a] at hy; cases hy
    · rcases Bool.eq_false_or_eq_true (next_val_F s i) with hn | hn
      · obtain ⟨a, _, _, _, b⟩ := drop_in_rdy_of_next_val_F s i hn
        simp [drop_in_en, hw, imemresp_en, a, b]
      · simp [hw, hq, hn] at h

end PV.Pipe
