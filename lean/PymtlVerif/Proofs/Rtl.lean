import PymtlVerif.Model.Rtl
import PymtlVerif.Proofs.Sched
/-!
Bridge between the executable RTL model (`Model/Rtl.lean`) and the abstract scheduling theory
(`Proofs/Sched.lean`): every concrete block denotes an abstract block whose footprints are its
syntactic bit ranges; the Boolean checks the driver runs (`topoB`, `singleWriterB`, `noSelf`,
`watchOKB`) are sound for the corresponding abstract predicates.
-/
namespace PV.Rtl
open PV.Sched

def inRngs (rs : List Rng) (v : Var) : Prop := ∃ r ∈ rs, r.has v

theorem overlap_of_common (a b : Rng) (v : Var) (ha : a.has v) (hb : b.has v) : a.overlap b = true := by
  unfold Rng.has at ha hb
  unfold Rng.overlap
  obtain ⟨h1, h2, h3⟩ := ha
  obtain ⟨g1, g2, g3⟩ := hb
  have : a.sig = b.sig := by rw [← h1, ← g1]
  simp [this]; omega

theorem rngsOverlap_false (xs ys : List Rng) (h : rngsOverlap xs ys = false) :
    ∀ v, inRngs xs v → ¬ inRngs ys v := by
  intro v ⟨x, hx, hxv⟩ ⟨y, hy, hyv⟩
  have : rngsOverlap xs ys = true := by
    unfold rngsOverlap
    exact List.any_eq_true.mpr ⟨x, hx, List.any_eq_true.mpr ⟨y, hy, overlap_of_common x y v hxv hyv⟩⟩
  rw [h] at this; cases this

theorem bitsToNat_congr (f g : Nat → Bool) (w : Nat) (h : ∀ i, i < w → f i = g i) :
    bitsToNat f w = bitsToNat g w := by
  induction w with
  | zero => rfl
  | succ w ih =>
    simp only [bitsToNat]
    rw [ih (fun i hi => h i (Nat.lt_succ_of_lt hi)), h w (Nat.lt_succ_self w)]

theorem eval_congr (e : Expr) (s s' : St) (h : ∀ v, inRngs e.reads v → s v = s' v) :
    e.eval s = e.eval s' := by
  induction e with
  | const w v => rfl
  | rd r =>
    simp only [Expr.eval]
    apply bitsToNat_congr
    intro i hi
    apply h
    exact ⟨r, by simp [Expr.reads], by unfold Rng.has; simp; omega⟩
  | not w e ih =>
    simp only [Expr.eval]
    rw [ih (fun v hv => h v hv)]
  | bin op w a b iha ihb =>
    simp only [Expr.eval]
    rw [iha (fun v ⟨r, hr, hv⟩ => h v ⟨r, by simp [Expr.reads, hr], hv⟩),
        ihb (fun v ⟨r, hr, hv⟩ => h v ⟨r, by simp [Expr.reads, hr], hv⟩)]
  | mux c a b ihc iha ihb =>
    simp only [Expr.eval]
    rw [ihc (fun v ⟨r, hr, hv⟩ => h v ⟨r, by simp [Expr.reads, hr], hv⟩),
        iha (fun v ⟨r, hr, hv⟩ => h v ⟨r, by simp [Expr.reads, hr], hv⟩),
        ihb (fun v ⟨r, hr, hv⟩ => h v ⟨r, by simp [Expr.reads, hr], hv⟩)]
  | cat a wb b iha ihb =>
    simp only [Expr.eval]
    rw [iha (fun v ⟨r, hr, hv⟩ => h v ⟨r, by simp [Expr.reads, hr], hv⟩),
        ihb (fun v ⟨r, hr, hv⟩ => h v ⟨r, by simp [Expr.reads, hr], hv⟩)]

theorem Asg.run_frame (a : Asg) (s : St) (v : Var) (h : ¬ a.tgt.has v) : a.run s v = s v := by
  simp [Asg.run, h]

theorem foldl_run_frame (as : List Asg) (s : St) (v : Var) (h : ∀ a ∈ as, ¬ a.tgt.has v) :
    (as.foldl (fun s a => a.run s) s) v = s v := by
  induction as generalizing s with
  | nil => rfl
  | cons a as ih =>
    simp only [List.foldl_cons]
    rw [ih _ (fun b hb => h b (List.mem_cons_of_mem _ hb))]
    exact Asg.run_frame a s v (h a List.mem_cons_self)

theorem Blk.run_frame (b : Blk) (s : St) (v : Var) (h : ¬ inRngs b.writes v) : b.run s v = s v := by
  apply foldl_run_frame
  intro a ha hv
  exact h ⟨a.tgt, by simp [Blk.writes]; exact ⟨a, ha, rfl⟩, hv⟩

/-- two runs that agree on a set `X` containing all bits the assignments read agree, afterwards, on `X`
and on everything written -/
theorem foldl_run_dep (as : List Asg) (X : Var → Prop) (s s' : St)
    (hR : ∀ a ∈ as, ∀ v, inRngs a.e.reads v → X v) (hX : ∀ v, X v → s v = s' v) :
    ∀ v, (X v ∨ ∃ a ∈ as, a.tgt.has v) →
      (as.foldl (fun s a => a.run s) s) v = (as.foldl (fun s a => a.run s) s') v := by
  induction as generalizing X s s' with
  | nil =>
    intro v hv
    rcases hv with hv | ⟨a, ha, _⟩
    · exact hX v hv
    · cases ha
  | cons a as ih =>
    intro v hv
    simp only [List.foldl_cons]
    have hev : a.e.eval s = a.e.eval s' :=
      eval_congr a.e s s' (fun u hu => hX u (hR a List.mem_cons_self u hu))
    apply ih (fun u => X u ∨ a.tgt.has u) (a.run s) (a.run s')
    · intro c hc u hu; exact Or.inl (hR c (List.mem_cons_of_mem _ hc) u hu)
    · intro u hu
      by_cases ht : a.tgt.has u
      · simp [Asg.run, ht, hev]
      · rw [Asg.run_frame a s u ht, Asg.run_frame a s' u ht]
        rcases hu with hu | hu
        · exact hX u hu
        · exact absurd hu ht
    · rcases hv with hv | ⟨c, hc, hcv⟩
      · exact Or.inl (Or.inl hv)
      · rcases List.mem_cons.mp hc with rfl | hc
        · exact Or.inl (Or.inr hcv)
        · exact Or.inr ⟨c, hc, hcv⟩

theorem Blk.run_dep (b : Blk) (s s' : St) (h : ∀ v, inRngs b.reads v → s v = s' v) :
    ∀ v, inRngs b.writes v → b.run s v = b.run s' v := by
  intro v ⟨r, hr, hv⟩
  apply foldl_run_dep b.asgs (inRngs b.reads) s s'
  · intro a ha u ⟨r, hr, hu⟩
    exact ⟨r, by simp only [Blk.reads, List.mem_flatMap]; exact ⟨a, ha, hr⟩, hu⟩
  · exact h
  · simp only [Blk.writes, List.mem_map] at hr
    obtain ⟨a, ha, rfl⟩ := hr
    exact Or.inr ⟨a, ha, hv⟩

/-- the abstract block a concrete block denotes -/
def denote (b : Blk) : Sched.Blk Var Bool :=
  { R := inRngs b.reads, W := inRngs b.writes, run := b.run }

theorem denote_wf (b : Blk) (h : b.noSelf = true) : (denote b).Wf := by
  refine ⟨?_, ?_, ?_⟩
  · intro s v hv; exact Blk.run_frame b s v hv
  · intro s s' hs v hv; exact Blk.run_dep b s s' hs v hv
  · intro v hr
    have : rngsOverlap b.reads b.writes = false := by
      unfold Blk.noSelf at h; simpa using h
    exact rngsOverlap_false _ _ this v hr

theorem runBlocks_eq (bs : List Blk) (s : St) : runBlocks bs s = runList (bs.map denote) s := by
  unfold runBlocks runList
  induction bs generalizing s with
  | nil => rfl
  | cons b bs ih => simp only [List.foldl_cons, List.map_cons]; exact ih _

theorem pairwiseB_iff {α : Type} (p : α → α → Bool) (l : List α) :
    pairwiseB p l = true ↔ l.Pairwise (fun a b => p a b = true) := by
  induction l with
  | nil => simp [pairwiseB]
  | cons x xs ih =>
    simp only [pairwiseB, Bool.and_eq_true, List.all_eq_true, List.pairwise_cons, ih]

theorem topoB_sound (bs : List Blk) (h : topoB bs = true) : Topo (bs.map denote) := by
  unfold Topo
  rw [List.pairwise_map]
  unfold topoB at h
  rw [pairwiseB_iff] at h
  apply h.imp
  intro a c hac v hr
  have : rngsOverlap a.reads c.writes = false := by simpa using hac
  exact rngsOverlap_false _ _ this v hr

theorem singleWriterB_sound (bs : List Blk) (h : singleWriterB bs = true) : SingleWriter (bs.map denote) := by
  unfold SingleWriter
  rw [List.pairwise_map]
  unfold singleWriterB at h
  rw [pairwiseB_iff] at h
  apply h.imp
  intro a c hac v hw
  have : rngsOverlap a.writes c.writes = false := by simpa using hac
  exact rngsOverlap_false _ _ this v hw

/-- completeness of the Boolean check in the other direction: a common bit is found -/
theorem rngsOverlap_true (xs ys : List Rng) (hx : ∀ r ∈ xs, 0 < r.w) (hy : ∀ r ∈ ys, 0 < r.w)
    (h : rngsOverlap xs ys = true) : ∃ v, inRngs xs v ∧ inRngs ys v := by
  unfold rngsOverlap at h
  obtain ⟨x, hxm, h2⟩ := List.any_eq_true.mp h
  obtain ⟨y, hym, h3⟩ := List.any_eq_true.mp h2
  unfold Rng.overlap at h3
  simp only [Bool.and_eq_true, beq_iff_eq, decide_eq_true_eq] at h3
  obtain ⟨⟨hs, h4⟩, h5⟩ := h3
  have hxw := hx x hxm
  have hyw := hy y hym
  refine ⟨(x.sig, max x.lo y.lo), ⟨x, hxm, ?_⟩, ⟨y, hym, ?_⟩⟩
  · unfold Rng.has; simp; omega
  · unfold Rng.has; simp; omega

end PV.Rtl
