import PymtlVerif.Model.Nets
/-!
# Lemmas about `Model/Nets.lean` (C08, C09)

1. graph part: frontier expansion computes exactly the reachable set (with proved fuel
   sufficiency), canonical sorted/deduplicated lists, nets = Reach classes, invariance of
   reachability under permutation / orientation of the edge list;
2. the incremental loop test `cyc` and the declarative `HasCycle`;
3. objects: `related` is symmetric and is "shares a bit";
4. writer resolution: invariants of the rounds and the least-fixed-point characterisation.
-/
namespace PV.Nets

/-! ## 1. graph part -/

def Step (E : List Edge) (a b : Nat) : Prop := (a, b) ∈ E ∨ (b, a) ∈ E

theorem Step.symm {E : List Edge} {a b : Nat} (h : Step E a b) : Step E b a := Or.symm h

theorem mem_adj (E : List Edge) (a b : Nat) : b ∈ adj E a ↔ Step E a b := by
  unfold adj Step
  simp only [List.mem_filterMap]
  constructor
  · rintro ⟨⟨x, y⟩, he, h⟩
    simp only at h
    split at h
    · next h1 => subst h1; simp at h; subst h; exact Or.inl he
    · split at h
      · next _ h2 => subst h2; simp at h; subst h; exact Or.inr he
      · cases h
  · rintro (h | h)
    · exact ⟨(a, b), h, by simp⟩
    · refine ⟨(b, a), h, ?_⟩
      simp only
      split
      · next h1 => subst h1; rfl
      · simp

theorem mem_dedup {α : Type} [DecidableEq α] (l : List α) (a : α) : a ∈ dedup l ↔ a ∈ l := by
  induction l with
  | nil => simp [dedup]
  | cons b l ih =>
    simp only [dedup]
    split
    · next h =>
      rw [ih]
      constructor
      · exact fun h' => List.mem_cons_of_mem _ h'
      · intro h'
        rcases List.mem_cons.mp h' with rfl | h''
        · exact ih.mp h
        · exact h''
    · simp [ih]

theorem nodup_dedup {α : Type} [DecidableEq α] (l : List α) : (dedup l).Nodup := by
  induction l with
  | nil => simp [dedup]
  | cons b l ih =>
    simp only [dedup]
    split
    · exact ih
    · next h => exact List.nodup_cons.mpr ⟨h, ih⟩

theorem closed_iff (E : List Edge) (S : List Nat) :
    closed E S = true ↔ ∀ a ∈ S, ∀ b, Step E a b → b ∈ S := by
  unfold closed
  simp only [List.all_eq_true, List.mem_flatMap, decide_eq_true_eq]
  constructor
  · intro h a ha b hs
    exact h b ⟨a, ha, (mem_adj E a b).mpr hs⟩
  · rintro h b ⟨a, ha, hb⟩
    exact h a ha b ((mem_adj E a b).mp hb)

/-- undirected reachability in the connection graph -/
inductive Reach (E : List Edge) : Nat → Nat → Prop
  | refl (a : Nat) : Reach E a a
  | step {a b c : Nat} : Reach E a b → Step E b c → Reach E a c

theorem reach_trans {E : List Edge} {a b c : Nat} (h1 : Reach E a b) (h2 : Reach E b c) : Reach E a c := by
  induction h2 with
  | refl => exact h1
  | step _ hs ih => exact Reach.step ih hs

theorem reach_symm {E : List Edge} {a b : Nat} (h : Reach E a b) : Reach E b a := by
  induction h with
  | refl => exact Reach.refl _
  | step _ hs ih => exact reach_trans (Reach.step (Reach.refl _) hs.symm) ih

theorem Reach.single {E : List Edge} {a b : Nat} (h : Step E a b) : Reach E a b :=
  Reach.step (Reach.refl a) h

theorem mem_expand (E : List Edge) (S : List Nat) (b : Nat) :
    b ∈ expand E S ↔ b ∈ S ∨ (b ∉ S ∧ ∃ a ∈ S, Step E a b) := by
  unfold expand
  simp only [List.mem_append, mem_dedup, List.mem_filter, List.mem_flatMap, decide_eq_true_eq, mem_adj]
  constructor
  · rintro (h | ⟨⟨a, ha, hs⟩, hn⟩)
    · exact Or.inl h
    · exact Or.inr ⟨hn, a, ha, hs⟩
  · rintro (h | ⟨hn, a, ha, hs⟩)
    · exact Or.inl h
    · exact Or.inr ⟨⟨a, ha, hs⟩, hn⟩

theorem expand_sound (E : List Edge) (S : List Nat) :
    ∀ b ∈ expand E S, ∃ a ∈ S, Reach E a b := by
  intro b hb
  rcases (mem_expand E S b).mp hb with h | ⟨_, a, ha, hs⟩
  · exact ⟨b, h, Reach.refl b⟩
  · exact ⟨a, ha, Reach.single hs⟩

theorem subset_expand (E : List Edge) (S : List Nat) : ∀ a ∈ S, a ∈ expand E S :=
  fun a ha => (mem_expand E S a).mpr (Or.inl ha)

theorem closure_sound (E : List Edge) : ∀ (f : Nat) (S : List Nat),
    ∀ b ∈ closure E f S, ∃ a ∈ S, Reach E a b := by
  intro f
  induction f with
  | zero => intro S b hb; exact ⟨b, hb, Reach.refl b⟩
  | succ f ih =>
    intro S b hb
    simp only [closure] at hb
    split at hb
    · exact ⟨b, hb, Reach.refl b⟩
    · obtain ⟨m, hm, hmb⟩ := ih _ b hb
      obtain ⟨a, ha, ham⟩ := expand_sound E S m hm
      exact ⟨a, ha, reach_trans ham hmb⟩

theorem subset_closure (E : List Edge) : ∀ (f : Nat) (S : List Nat), ∀ a ∈ S, a ∈ closure E f S := by
  intro f
  induction f with
  | zero => intro S a ha; exact ha
  | succ f ih =>
    intro S a ha
    simp only [closure]
    split
    · exact ha
    · exact ih _ a (subset_expand E S a ha)

/-- a closed set that contains `a` contains everything reachable from `a` -/
theorem closed_complete {E : List Edge} {T : List Nat} (hc : closed E T = true) {a b : Nat}
    (ha : a ∈ T) (hr : Reach E a b) : b ∈ T := by
  have hcl := (closed_iff E T).mp hc
  induction hr with
  | refl => exact ha
  | step _ hs ih => exact hcl _ ih _ hs

/-! ### sorted, duplicate-free lists -/

theorem mem_insertU (a : Nat) (l : List Nat) (x : Nat) : x ∈ insertU a l ↔ x = a ∨ x ∈ l := by
  induction l with
  | nil => simp [insertU]
  | cons b l ih =>
    simp only [insertU]
    split
    · simp
    · split
      · next h => subst h; simp
      · simp only [List.mem_cons, ih]
        constructor
        · rintro (h | h | h)
          · exact Or.inr (Or.inl h)
          · exact Or.inl h
          · exact Or.inr (Or.inr h)
        · rintro (h | h | h)
          · exact Or.inr (Or.inl h)
          · exact Or.inl h
          · exact Or.inr (Or.inr h)

abbrev Sorted (l : List Nat) : Prop := l.Pairwise (· < ·)

theorem sorted_insertU (a : Nat) (l : List Nat) (h : Sorted l) : Sorted (insertU a l) := by
  induction l with
  | nil => simp [insertU, Sorted]
  | cons b l ih =>
    simp only [insertU]
    have hb := (List.pairwise_cons.mp h)
    split
    · next hab =>
      refine List.pairwise_cons.mpr ⟨?_, h⟩
      intro x hx
      rcases List.mem_cons.mp hx with rfl | hx
      · exact hab
      · exact Nat.lt_trans hab (hb.1 x hx)
    · split
      · exact h
      · next h1 h2 =>
        refine List.pairwise_cons.mpr ⟨?_, ih hb.2⟩
        intro x hx
        rcases (mem_insertU a l x).mp hx with rfl | hx
        · omega
        · exact hb.1 x hx

theorem mem_sortDedup (l : List Nat) (x : Nat) : x ∈ sortDedup l ↔ x ∈ l := by
  induction l with
  | nil => simp [sortDedup]
  | cons a l ih =>
    simp only [sortDedup, List.foldr_cons] at ih ⊢
    rw [mem_insertU, ih]
    simp

theorem sorted_sortDedup (l : List Nat) : Sorted (sortDedup l) := by
  induction l with
  | nil => simp [sortDedup, Sorted]
  | cons a l ih =>
    simp only [sortDedup, List.foldr_cons] at ih ⊢
    exact sorted_insertU a _ ih

/-- a strictly increasing list is determined by its members -/
theorem sorted_ext : ∀ (l₁ l₂ : List Nat), Sorted l₁ → Sorted l₂ → (∀ x, x ∈ l₁ ↔ x ∈ l₂) → l₁ = l₂ := by
  intro l₁
  induction l₁ with
  | nil =>
    intro l₂ _ _ h
    cases l₂ with
    | nil => rfl
    | cons b l₂ => exact absurd ((h b).mpr (List.mem_cons_self ..)) (by simp)
  | cons a l₁ ih =>
    intro l₂ h1 h2 h
    cases l₂ with
    | nil => exact absurd ((h a).mp (List.mem_cons_self ..)) (by simp)
    | cons b l₂ =>
      have ha := List.pairwise_cons.mp h1
      have hb := List.pairwise_cons.mp h2
      have hab : a = b := by
        have h1' := (h a).mp (List.mem_cons_self ..)
        have h2' := (h b).mpr (List.mem_cons_self ..)
        rcases List.mem_cons.mp h1' with e | m1
        · exact e
        · rcases List.mem_cons.mp h2' with e | m2
          · exact e.symm
          · have := hb.1 a m1; have := ha.1 b m2; omega
      subst hab
      congr 1
      apply ih l₂ ha.2 hb.2
      intro x
      constructor
      · intro hx
        have := (h x).mp (List.mem_cons_of_mem _ hx)
        rcases List.mem_cons.mp this with e | m
        · subst e; exact absurd (ha.1 x hx) (Nat.lt_irrefl _)
        · exact m
      · intro hx
        have := (h x).mpr (List.mem_cons_of_mem _ hx)
        rcases List.mem_cons.mp this with e | m
        · subst e; exact absurd (hb.1 x hx) (Nat.lt_irrefl _)
        · exact m

theorem sortDedup_congr {l₁ l₂ : List Nat} (h : ∀ x, x ∈ l₁ ↔ x ∈ l₂) : sortDedup l₁ = sortDedup l₂ :=
  sorted_ext _ _ (sorted_sortDedup _) (sorted_sortDedup _) (by intro x; simp [mem_sortDedup, h])

theorem sorted_nodup {l : List Nat} (h : Sorted l) : l.Nodup :=
  h.imp (fun hab => Nat.ne_of_lt hab)

theorem sorted_filter {l : List Nat} (p : Nat → Bool) (h : Sorted l) : Sorted (l.filter p) :=
  List.Pairwise.filter p h

/-! ### nodes, fuel sufficiency -/

theorem mem_nodesOf (E : List Edge) (a : Nat) : a ∈ nodesOf E ↔ ∃ b, Step E a b := by
  unfold nodesOf
  rw [mem_sortDedup]
  simp only [List.mem_flatMap, List.mem_cons, List.not_mem_nil, or_false]
  constructor
  · rintro ⟨⟨x, y⟩, he, h | h⟩
    · simp only at h; subst h; exact ⟨y, Or.inl he⟩
    · simp only at h; subst h; exact ⟨x, Or.inr he⟩
  · rintro ⟨b, h | h⟩
    · exact ⟨(a, b), h, Or.inl rfl⟩
    · exact ⟨(b, a), h, Or.inr rfl⟩

theorem filter_length_lt {l : List Nat} {p q : Nat → Bool} (hpq : ∀ x, q x = true → p x = true)
    {x : Nat} (hx : x ∈ l) (hp : p x = true) (hq : q x = false) :
    (l.filter q).length < (l.filter p).length := by
  induction l with
  | nil => cases hx
  | cons a l ih =>
    have hle : ∀ l : List Nat, (l.filter q).length ≤ (l.filter p).length := by
      intro l
      induction l with
      | nil => simp
      | cons b l ihl =>
        simp only [List.filter_cons]
        by_cases hqb : q b = true
        · simp [hqb, hpq b hqb, ihl]
        · by_cases hpb : p b = true
          · simp [hqb, hpb]; omega
          · simp [hqb, hpb, ihl]
    rcases List.mem_cons.mp hx with rfl | hx'
    · simp only [List.filter_cons, hp, hq]
      simp only [if_true, List.length_cons]
      have := hle l
      simp
      omega
    · have := ih hx'
      simp only [List.filter_cons]
      by_cases hqa : q a = true
      · simp [hqa, hpq a hqa]; omega
      · by_cases hpa : p a = true
        · simp [hqa, hpa]; omega
        · simp [hqa, hpa]; omega

/-- number of nodes of the graph not yet in `S` -/
def unvisited (E : List Edge) (S : List Nat) : Nat := ((nodesOf E).filter (fun x => decide (x ∉ S))).length

theorem closed_of_unvisited_zero (E : List Edge) (S : List Nat) (h : unvisited E S = 0) : closed E S = true := by
  rw [closed_iff]
  intro a _ b hs
  have hb : b ∈ nodesOf E := (mem_nodesOf E b).mpr ⟨a, hs.symm⟩
  unfold unvisited at h
  have := List.length_eq_zero_iff.mp h
  by_cases hbS : b ∈ S
  · exact hbS
  · have hm : b ∈ (nodesOf E).filter (fun x => decide (x ∉ S)) := by
      simp [List.mem_filter, hb, hbS]
    rw [this] at hm
    cases hm

theorem unvisited_expand_lt (E : List Edge) (S : List Nat) (h : closed E S = false) :
    unvisited E (expand E S) < unvisited E S := by
  have hn : ¬ (∀ a ∈ S, ∀ b, Step E a b → b ∈ S) := by
    intro hc
    rw [(closed_iff E S).mpr hc] at h
    cases h
  have : ∃ a ∈ S, ∃ b, Step E a b ∧ b ∉ S := by
    apply Classical.byContradiction
    intro hno
    apply hn
    intro a ha b hs
    apply Classical.byContradiction
    intro hb
    exact hno ⟨a, ha, b, hs, hb⟩
  obtain ⟨a, ha, b, hs, hb⟩ := this
  unfold unvisited
  apply filter_length_lt (x := b)
  · intro x hx
    simp only [decide_eq_true_eq] at hx ⊢
    intro hxS
    exact hx (subset_expand E S x hxS)
  · exact (mem_nodesOf E b).mpr ⟨a, hs.symm⟩
  · simp [hb]
  · simp only [decide_eq_false_iff_not, Decidable.not_not]
    exact (mem_expand E S b).mpr (Or.inr ⟨hb, a, ha, hs⟩)

theorem closure_closed (E : List Edge) : ∀ (f : Nat) (S : List Nat), unvisited E S ≤ f →
    closed E (closure E f S) = true := by
  intro f
  induction f with
  | zero =>
    intro S h
    simp only [closure]
    exact closed_of_unvisited_zero E S (by omega)
  | succ f ih =>
    intro S h
    simp only [closure]
    split
    · next hc => exact hc
    · next hc =>
      have hc' : closed E S = false := by simpa using hc
      have := unvisited_expand_lt E S hc'
      exact ih _ (by omega)

theorem unvisited_le (E : List Edge) (S : List Nat) : unvisited E S ≤ (nodesOf E).length :=
  List.length_filter_le _ _

/-- `|nodes|` rounds of expansion always reach the fixed point -/
theorem component_closed (E : List Edge) (a : Nat) : closed E (component E a) = true :=
  closure_closed E _ _ (unvisited_le E [a])

/-- frontier expansion computes exactly the reachable set -/
theorem mem_component (E : List Edge) (a b : Nat) : b ∈ component E a ↔ Reach E a b := by
  constructor
  · intro h
    obtain ⟨x, hx, hr⟩ := closure_sound E _ _ b h
    simp only [List.mem_singleton] at hx
    subst hx
    exact hr
  · intro h
    exact closed_complete (component_closed E a) (subset_closure E _ _ a (by simp)) h

theorem mem_netOf (E : List Edge) (a b : Nat) : b ∈ netOf E a ↔ Reach E a b := by
  unfold netOf
  rw [mem_sortDedup, mem_component]

/-! ### reachability depends only on the edge set -/

theorem reach_mono {E E' : List Edge} (h : ∀ a b, Step E a b → Step E' a b) {a b : Nat}
    (hr : Reach E a b) : Reach E' a b := by
  induction hr with
  | refl => exact Reach.refl _
  | step _ hs ih => exact Reach.step ih (h _ _ hs)

theorem reach_congr {E E' : List Edge} (h : ∀ a b, Step E a b ↔ Step E' a b) (a b : Nat) :
    Reach E a b ↔ Reach E' a b :=
  ⟨reach_mono (fun a b => (h a b).mp), reach_mono (fun a b => (h a b).mpr)⟩

theorem step_perm {E E' : List Edge} (hp : E.Perm E') (a b : Nat) : Step E a b ↔ Step E' a b := by
  unfold Step
  rw [hp.mem_iff, hp.mem_iff]

/-- swap the two sides of the statements selected by `p` (by position) -/
def flipWhere (p : Nat → Bool) (E : List Edge) : List Edge :=
  E.mapIdx (fun i e => if p i then (e.2, e.1) else e)

theorem step_flipWhere (p : Nat → Bool) (E : List Edge) (a b : Nat) :
    Step (flipWhere p E) a b ↔ Step E a b := by
  unfold Step flipWhere
  simp only [List.mem_mapIdx]
  constructor
  · rintro (⟨i, hi, h⟩ | ⟨i, hi, h⟩)
    · split at h
      · have : E[i] = (b, a) := by
          have h1 := congrArg Prod.fst h; have h2 := congrArg Prod.snd h
          simp only at h1 h2
          exact Prod.ext h2 h1
        exact Or.inr (this ▸ List.getElem_mem hi)
      · exact Or.inl (h ▸ List.getElem_mem hi)
    · split at h
      · have : E[i] = (a, b) := by
          have h1 := congrArg Prod.fst h; have h2 := congrArg Prod.snd h
          simp only at h1 h2
          exact Prod.ext h2 h1
        exact Or.inl (this ▸ List.getElem_mem hi)
      · exact Or.inr (h ▸ List.getElem_mem hi)
  · rintro (h | h)
    · obtain ⟨i, hi, he⟩ := List.getElem_of_mem h
      by_cases hp : p i = true
      · exact Or.inr ⟨i, hi, by simp [hp, he]⟩
      · exact Or.inl ⟨i, hi, by simp [hp, he]⟩
    · obtain ⟨i, hi, he⟩ := List.getElem_of_mem h
      by_cases hp : p i = true
      · exact Or.inl ⟨i, hi, by simp [hp, he]⟩
      · exact Or.inr ⟨i, hi, by simp [hp, he]⟩

/-! ### nets are the Reach classes with at least two members -/

theorem nodesOf_congr {E E' : List Edge} (h : ∀ a b, Step E a b ↔ Step E' a b) : nodesOf E = nodesOf E' := by
  refine sorted_ext (nodesOf E) (nodesOf E') (sorted_sortDedup _) (sorted_sortDedup _) ?_
  intro x
  rw [mem_nodesOf, mem_nodesOf]
  exact ⟨fun ⟨b, hb⟩ => ⟨b, (h x b).mp hb⟩, fun ⟨b, hb⟩ => ⟨b, (h x b).mpr hb⟩⟩

theorem netOf_congr {E E' : List Edge} (h : ∀ a b, Step E a b ↔ Step E' a b) (a : Nat) : netOf E a = netOf E' a := by
  refine sorted_ext (netOf E a) (netOf E' a) (sorted_sortDedup _) (sorted_sortDedup _) ?_
  intro x
  rw [mem_netOf, mem_netOf]
  exact reach_congr h a x

/-- the list of nets is a function of the undirected edge *set* -/
theorem nets_congr {E E' : List Edge} (h : ∀ a b, Step E a b ↔ Step E' a b) : nets E = nets E' := by
  unfold nets
  rw [nodesOf_congr h]
  have : netOf E = netOf E' := funext (netOf_congr h)
  rw [this]

theorem netOf_eq_of_reach {E : List Edge} {a b : Nat} (h : Reach E a b) : netOf E a = netOf E b := by
  refine sorted_ext (netOf E a) (netOf E b) (sorted_sortDedup _) (sorted_sortDedup _) ?_
  intro x
  rw [mem_netOf, mem_netOf]
  exact ⟨fun hx => reach_trans (reach_symm h) hx, fun hx => reach_trans h hx⟩

theorem mem_nets {E : List Edge} {N : List Nat} :
    N ∈ nets E ↔ ∃ a, a ∈ nodesOf E ∧ (netOf E a).head? = some a ∧ N = netOf E a ∧ 2 ≤ N.length := by
  unfold nets
  simp only [List.mem_filter, List.mem_map, decide_eq_true_eq, beq_iff_eq]
  constructor
  · rintro ⟨⟨a, ⟨ha, hh⟩, rfl⟩, hl⟩
    exact ⟨a, ha, hh, rfl, hl⟩
  · rintro ⟨a, ha, hh, rfl, hl⟩
    exact ⟨⟨a, ⟨ha, hh⟩, rfl⟩, hl⟩

theorem rep_netOf {E : List Edge} {a : Nat} (h : (netOf E a).head? = some a) : rep (netOf E a) = a := by
  unfold rep
  cases hN : netOf E a with
  | nil => rw [hN] at h; cases h
  | cons x l => rw [hN] at h; simp at h; simp [h]

/-- every net is strictly increasing and is exactly the Reach class of its least member `rep N` -/
theorem nets_spec {E : List Edge} {N : List Nat} (h : N ∈ nets E) :
    Sorted N ∧ 2 ≤ N.length ∧ rep N ∈ N ∧ ∀ b, b ∈ N ↔ Reach E (rep N) b := by
  obtain ⟨a, _, hh, rfl, hl⟩ := mem_nets.mp h
  rw [rep_netOf hh]
  exact ⟨sorted_sortDedup _, hl, (mem_netOf E a a).mpr (Reach.refl a), fun b => mem_netOf E a b⟩

theorem reach_ne_step {E : List Edge} {a b : Nat} (h : Reach E a b) (hne : a ≠ b) : ∃ c, Step E a c := by
  induction h with
  | refl => exact absurd rfl hne
  | @step b c hab hs ih =>
    by_cases e : a = b
    · subst e; exact ⟨c, hs⟩
    · exact ih e

theorem length_ge_two_of_mem {l : List Nat} {a b : Nat} (ha : a ∈ l) (hb : b ∈ l) (hne : a ≠ b) : 2 ≤ l.length := by
  match l, ha, hb with
  | [x], ha, hb =>
    simp only [List.mem_singleton] at ha hb
    exact absurd (ha.trans hb.symm) hne
  | _ :: _ :: _, _, _ => simp

/-- every pair of different connected nodes lies in one net -/
theorem nets_cover {E : List Edge} {a b : Nat} (hr : Reach E a b) (hne : a ≠ b) :
    ∃ N ∈ nets E, a ∈ N ∧ b ∈ N := by
  have haa : a ∈ netOf E a := (mem_netOf E a a).mpr (Reach.refl a)
  have hba : b ∈ netOf E a := (mem_netOf E a b).mpr hr
  have hlen := length_ge_two_of_mem haa hba hne
  cases hN : netOf E a with
  | nil => rw [hN] at haa; cases haa
  | cons m l =>
    have hm : m ∈ netOf E a := by rw [hN]; exact List.mem_cons_self ..
    have ham : Reach E a m := (mem_netOf E a m).mp hm
    have heq : netOf E m = netOf E a := (netOf_eq_of_reach ham).symm
    have hhead : (netOf E m).head? = some m := by rw [heq, hN]; rfl
    refine ⟨netOf E a, mem_nets.mpr ⟨m, ?_, hhead, heq.symm, hlen⟩, haa, hba⟩
    -- m has a neighbour: it reaches a different member of the class
    have : ∃ x, Reach E m x ∧ m ≠ x := by
      by_cases e : m = a
      · exact ⟨b, e ▸ hr, e ▸ hne⟩
      · exact ⟨a, reach_symm ham, e⟩
    obtain ⟨x, hmx, hne'⟩ := this
    exact (mem_nodesOf E m).mpr (reach_ne_step hmx hne')

/-- two nets that share a member are the same net -/
theorem nets_disjoint {E : List Edge} {N M : List Nat} (hN : N ∈ nets E) (hM : M ∈ nets E) {x : Nat}
    (hxN : x ∈ N) (hxM : x ∈ M) : N = M := by
  obtain ⟨sN, _, _, hrN⟩ := nets_spec hN
  obtain ⟨sM, _, _, hrM⟩ := nets_spec hM
  apply sorted_ext _ _ sN sM
  intro y
  rw [hrN, hrM]
  have h1 := (hrN x).mp hxN
  have h2 := (hrM x).mp hxM
  exact ⟨fun h => reach_trans h2 (reach_trans (reach_symm h1) h), fun h => reach_trans h1 (reach_trans (reach_symm h2) h)⟩

theorem rep_inj {E : List Edge} {N M : List Nat} (hN : N ∈ nets E) (hM : M ∈ nets E) (h : rep N = rep M) : N = M :=
  nets_disjoint hN hM (nets_spec hN).2.2.1 (h ▸ (nets_spec hM).2.2.1)

theorem nets_nodup (E : List Edge) : (nets E).Nodup := by
  unfold nets
  apply List.Pairwise.filter
  rw [List.pairwise_map]
  have hs : Sorted ((nodesOf E).filter (fun a => (netOf E a).head? == some a)) :=
    sorted_filter _ (sorted_sortDedup _)
  refine List.Pairwise.imp_of_mem ?_ hs
  intro a b ha hb hab heq
  simp only [List.mem_filter, beq_iff_eq] at ha hb
  have h1 := rep_netOf ha.2
  have h2 := rep_netOf hb.2
  rw [heq] at h1
  have : a = b := h1.symm.trans h2
  omega

/-! ## 2. loops -/

/-- the connection multigraph has a cycle: some connection joins two nodes that remain connected
when that one connection is removed (a self connection does so trivially) -/
def HasCycle (E : List Edge) : Prop := ∃ e ∈ E, Reach (E.erase e) e.1 e.2

theorem step_cons {e : Edge} {F : List Edge} {a b : Nat} (h : Step (e :: F) a b) :
    Step F a b ∨ (a = e.1 ∧ b = e.2) ∨ (a = e.2 ∧ b = e.1) := by
  unfold Step at h
  rcases h with h | h
  · rcases List.mem_cons.mp h with h | h
    · exact Or.inr (Or.inl ⟨by rw [← h], by rw [← h]⟩)
    · exact Or.inl (Or.inl h)
  · rcases List.mem_cons.mp h with h | h
    · exact Or.inr (Or.inr ⟨by rw [← h], by rw [← h]⟩)
    · exact Or.inl (Or.inr h)

/-- a path that may use the extra edge `e` either avoids it or crosses it -/
theorem reach_cons {e : Edge} {F : List Edge} {a b : Nat} (h : Reach (e :: F) a b) :
    Reach F a b ∨ (Reach F a e.1 ∧ Reach F e.2 b) ∨ (Reach F a e.2 ∧ Reach F e.1 b) := by
  induction h with
  | refl => exact Or.inl (Reach.refl _)
  | @step b c _ hs ih =>
    rcases step_cons hs with hs | ⟨hb, hc⟩ | ⟨hb, hc⟩
    · rcases ih with h | ⟨h1, h2⟩ | ⟨h1, h2⟩
      · exact Or.inl (Reach.step h hs)
      · exact Or.inr (Or.inl ⟨h1, Reach.step h2 hs⟩)
      · exact Or.inr (Or.inr ⟨h1, Reach.step h2 hs⟩)
    · subst hb hc
      rcases ih with h | ⟨h1, _⟩ | ⟨h1, _⟩
      · exact Or.inr (Or.inl ⟨h, Reach.refl _⟩)
      · exact Or.inr (Or.inl ⟨h1, Reach.refl _⟩)
      · exact Or.inl h1
    · subst hb hc
      rcases ih with h | ⟨h1, _⟩ | ⟨h1, _⟩
      · exact Or.inr (Or.inr ⟨h, Reach.refl _⟩)
      · exact Or.inl h1
      · exact Or.inr (Or.inr ⟨h1, Reach.refl _⟩)

theorem step_of_mem_erase {E : List Edge} {x : Edge} {a b : Nat} (h : Step (E.erase x) a b) : Step E a b :=
  h.imp List.mem_of_mem_erase List.mem_of_mem_erase

theorem step_cons_of_step {e : Edge} {F : List Edge} {a b : Nat} (h : Step F a b) : Step (e :: F) a b :=
  h.imp (List.mem_cons_of_mem _) (List.mem_cons_of_mem _)

/-- the incremental test decides `HasCycle` -/
theorem cyc_iff (E : List Edge) : cyc E = true ↔ HasCycle E := by
  induction E with
  | nil => simp [cyc, HasCycle]
  | cons e E ih =>
    simp only [cyc, Bool.or_eq_true, decide_eq_true_eq, mem_component]
    constructor
    · rintro (h | h)
      · obtain ⟨x, hx, hr⟩ := ih.mp h
        by_cases hex : e = x
        · subst hex
          exact ⟨e, List.mem_cons_self .., by
            rw [List.erase_cons_head]; exact reach_mono (fun _ _ => step_of_mem_erase) hr⟩
        · refine ⟨x, List.mem_cons_of_mem _ hx, ?_⟩
          rw [List.erase_cons_tail (by simpa using hex)]
          exact reach_mono (fun _ _ => step_cons_of_step) hr
      · exact ⟨e, List.mem_cons_self .., by rw [List.erase_cons_head]; exact h⟩
    · rintro ⟨x, hx, hr⟩
      by_cases hex : e = x
      · subst hex
        rw [List.erase_cons_head] at hr
        exact Or.inr hr
      · have hxE : x ∈ E := by
          rcases List.mem_cons.mp hx with h | h
          · exact absurd h.symm hex
          · exact h
        rw [List.erase_cons_tail (by simpa using hex)] at hr
        have up : ∀ {a b}, Reach (E.erase x) a b → Reach E a b :=
          fun h => reach_mono (fun _ _ => step_of_mem_erase) h
        have sx : Step E x.1 x.2 := Or.inl hxE
        rcases reach_cons hr with h | ⟨h1, h2⟩ | ⟨h1, h2⟩
        · exact Or.inl (ih.mpr ⟨x, hxE, h⟩)
        · exact Or.inr (reach_trans (reach_symm (up h1)) (reach_trans (Reach.single sx) (reach_symm (up h2))))
        · exact Or.inr (reach_trans (up h2) (reach_trans (Reach.single sx.symm) (up h1)))

theorem hasCycle_perm {E E' : List Edge} (hp : E.Perm E') : HasCycle E ↔ HasCycle E' := by
  have key : ∀ {E E' : List Edge}, E.Perm E' → HasCycle E → HasCycle E' := by
    rintro E E' hp ⟨e, he, hr⟩
    exact ⟨e, hp.mem_iff.mp he, (reach_congr (step_perm (hp.erase e)) _ _).mp hr⟩
  exact ⟨key hp, key hp.symm⟩

theorem normEdge_swap (e : Edge) : normEdge (e.2, e.1) = normEdge e := by
  unfold normEdge
  obtain ⟨a, b⟩ := e
  simp only
  by_cases h1 : a ≤ b <;> by_cases h2 : b ≤ a <;> simp [h1, h2]
  · omega
  · omega

theorem mem_simple (E : List Edge) (x : Edge) : x ∈ simple E ↔ ∃ e ∈ E, normEdge e = x := by
  unfold simple
  rw [mem_dedup, List.mem_map]

theorem simple_perm_of_mem_iff {E E' : List Edge} (h : ∀ x, (∃ e ∈ E, normEdge e = x) ↔ (∃ e ∈ E', normEdge e = x)) :
    (simple E).Perm (simple E') := by
  unfold simple
  rw [List.perm_ext_iff_of_nodup (nodup_dedup _) (nodup_dedup _)]
  intro x
  have h1 := mem_simple E x
  have h2 := mem_simple E' x
  unfold simple at h1 h2
  rw [h1, h2]
  exact h x

/-- the loop verdict does not depend on the order of the connect statements -/
theorem hasLoop_perm {E E' : List Edge} (hp : E.Perm E') : hasLoop E = hasLoop E' := by
  have hs : (simple E).Perm (simple E') := simple_perm_of_mem_iff (by
    intro x
    constructor
    · rintro ⟨e, he, h⟩; exact ⟨e, hp.mem_iff.mp he, h⟩
    · rintro ⟨e, he, h⟩; exact ⟨e, hp.mem_iff.mpr he, h⟩)
  have := hasCycle_perm hs
  unfold hasLoop
  rw [Bool.eq_iff_iff, cyc_iff, cyc_iff]
  exact this

/-- … nor on which side of a statement a signal is written -/
theorem hasLoop_flip (p : Nat → Bool) (E : List Edge) : hasLoop (flipWhere p E) = hasLoop E := by
  have hs : (simple (flipWhere p E)).Perm (simple E) := simple_perm_of_mem_iff (by
    intro x
    unfold flipWhere
    simp only [List.mem_mapIdx]
    constructor
    · rintro ⟨e, ⟨i, hi, rfl⟩, h⟩
      refine ⟨E[i], List.getElem_mem hi, ?_⟩
      split at h
      · rw [normEdge_swap] at h; exact h
      · exact h
    · rintro ⟨e, he, h⟩
      obtain ⟨i, hi, rfl⟩ := List.getElem_of_mem he
      refine ⟨_, ⟨i, hi, rfl⟩, ?_⟩
      split
      · rw [normEdge_swap]; exact h
      · exact h)
  have := hasCycle_perm hs
  unfold hasLoop
  rw [Bool.eq_iff_iff, cyc_iff, cyc_iff]
  exact this

/-! ## 3. objects -/

theorem isPrefix_iff (p q : List Nat) : isPrefix p q = true ↔ p <+: q := by
  induction p generalizing q with
  | nil => simp [isPrefix]
  | cons a p ih =>
    cases q with
    | nil => simp [isPrefix]
    | cons b q =>
      simp only [isPrefix, Bool.and_eq_true, beq_iff_eq, ih, List.cons_prefix_cons]

theorem overlap_spec (x y : Nat × Nat) (hx : x.1 < x.2) (hy : y.1 < y.2) :
    overlap x y = true ↔ ∃ i, (x.1 ≤ i ∧ i < x.2) ∧ (y.1 ≤ i ∧ i < y.2) := by
  unfold overlap
  split
  · simp only [decide_eq_true_eq]
    constructor
    · intro h; exact ⟨y.1, ⟨by omega, h⟩, ⟨Nat.le_refl _, hy⟩⟩
    · rintro ⟨i, ⟨_, _⟩, ⟨_, _⟩⟩; omega
  · simp only [decide_eq_true_eq]
    constructor
    · intro h; exact ⟨x.1, ⟨Nat.le_refl _, hx⟩, ⟨by omega, h⟩⟩
    · rintro ⟨i, ⟨_, _⟩, ⟨_, _⟩⟩; omega

theorem overlap_symm (x y : Nat × Nat) (hx : x.1 < x.2) (hy : y.1 < y.2) : overlap x y = overlap y x := by
  rw [Bool.eq_iff_iff, overlap_spec x y hx hy, overlap_spec y x hy hx]
  exact ⟨fun ⟨i, a, b⟩ => ⟨i, b, a⟩, fun ⟨i, a, b⟩ => ⟨i, b, a⟩⟩

/-- a bit of a top-level signal: the Bits-typed leaf it lies in (field positions from the top) and
its index inside the leaf -/
structure Bit where
  sid : Nat
  leaf : List Nat
  idx : Nat

/-- object `o` contains bit `b` -/
def covers (o : Obj) (b : Bit) : Prop :=
  o.kind ≠ .const ∧ o.sid = b.sid ∧ o.fields <+: b.leaf ∧
  ∀ s, o.slice = some s → o.fields = b.leaf ∧ s.1 ≤ b.idx ∧ b.idx < s.2

/-- the Bits-typed leaves of each top-level signal: (field path, width) -/
abbrev Leaves := Nat → List (List Nat × Nat)

def ValidBit (L : Leaves) (b : Bit) : Prop := ∃ n, (b.leaf, n) ∈ L b.sid ∧ b.idx < n

/-- the object exists in a signal with leaf table `L`: its field path leads towards a leaf of
positive width, a slice sits on a leaf and is a non-empty range inside it -/
def WfObj (L : Leaves) (o : Obj) : Prop :=
  o.kind ≠ .const → ∃ leaf n, (leaf, n) ∈ L o.sid ∧ 1 ≤ n ∧ o.fields <+: leaf ∧
    ∀ s, o.slice = some s → o.fields = leaf ∧ s.1 < s.2 ∧ s.2 ≤ n

theorem prefix_comparable {p q l : List Nat} (hp : p <+: l) (hq : q <+: l) : p <+: q ∨ q <+: p := by
  rcases Nat.le_total p.length q.length with h | h
  · exact Or.inl (List.prefix_of_prefix_length_le hp hq h)
  · exact Or.inr (List.prefix_of_prefix_length_le hq hp h)

/-- the code's relation between two objects is exactly "they share a bit" -/
theorem related_iff_overlap (L : Leaves) (a b : Obj) (ha : WfObj L a) (hb : WfObj L b) :
    related a b = true ↔ ∃ bit, ValidBit L bit ∧ covers a bit ∧ covers b bit := by
  unfold related
  constructor
  · intro h
    simp only [Bool.and_eq_true, bne_iff_ne, ne_eq, beq_iff_eq] at h
    obtain ⟨⟨⟨hka, hkb⟩, hsid⟩, hm⟩ := h
    obtain ⟨la, na, hla, hna, hpa, hsa⟩ := ha hka
    obtain ⟨lb, nb, hlb, hnb, hpb, hsb⟩ := hb hkb
    cases hA : a.slice with
    | none =>
      cases hB : b.slice with
      | none =>
        rw [hA, hB] at hm
        simp only [Bool.or_eq_true, isPrefix_iff] at hm
        rcases hm with hm | hm
        · refine ⟨⟨b.sid, lb, 0⟩, ⟨nb, hlb, hnb⟩, ⟨hka, hsid, hm.trans hpb, ?_⟩, ⟨hkb, rfl, hpb, ?_⟩⟩
          · intro s hs; rw [hA] at hs; cases hs
          · intro s hs; rw [hB] at hs; cases hs
        · refine ⟨⟨a.sid, la, 0⟩, ⟨na, hla, hna⟩, ⟨hka, rfl, hpa, ?_⟩, ⟨hkb, hsid.symm, hm.trans hpa, ?_⟩⟩
          · intro s hs; rw [hA] at hs; cases hs
          · intro s hs; rw [hB] at hs; cases hs
      | some y =>
        rw [hA, hB] at hm
        simp only [isPrefix_iff] at hm
        obtain ⟨hfb, hy1, hy2⟩ := hsb y hB
        refine ⟨⟨b.sid, lb, y.1⟩, ⟨nb, hlb, Nat.lt_of_lt_of_le hy1 hy2⟩, ⟨hka, hsid, hm.trans hpb, ?_⟩, ⟨hkb, rfl, hpb, ?_⟩⟩
        · intro s hs; rw [hA] at hs; cases hs
        · intro s hs; rw [hB] at hs; cases hs; exact ⟨hfb, Nat.le_refl _, hy1⟩
    | some x =>
      obtain ⟨hfa, hx1, hx2⟩ := hsa x hA
      cases hB : b.slice with
      | none =>
        rw [hA, hB] at hm
        simp only [isPrefix_iff] at hm
        refine ⟨⟨a.sid, la, x.1⟩, ⟨na, hla, Nat.lt_of_lt_of_le hx1 hx2⟩, ⟨hka, rfl, hpa, ?_⟩, ⟨hkb, hsid.symm, hm.trans hpa, ?_⟩⟩
        · intro s hs; rw [hA] at hs; cases hs; exact ⟨hfa, Nat.le_refl _, hx1⟩
        · intro s hs; rw [hB] at hs; cases hs
      | some y =>
        rw [hA, hB] at hm
        simp only [Bool.and_eq_true, beq_iff_eq] at hm
        obtain ⟨hfb, hy1, hy2⟩ := hsb y hB
        obtain ⟨i, ⟨hi1, hi2⟩, ⟨hi3, hi4⟩⟩ := (overlap_spec x y hx1 hy1).mp hm.2
        refine ⟨⟨a.sid, la, i⟩, ⟨na, hla, Nat.lt_of_lt_of_le hi2 hx2⟩, ⟨hka, rfl, hpa, ?_⟩, ⟨hkb, hsid.symm, ?_, ?_⟩⟩
        · intro s hs; rw [hA] at hs; cases hs; exact ⟨hfa, hi1, hi2⟩
        · rw [← hm.1, hfa]; exact List.prefix_refl _
        · intro s hs; rw [hB] at hs; cases hs; exact ⟨by rw [← hm.1, hfa], hi3, hi4⟩
  · rintro ⟨bit, _, ⟨hka, hsa, hpa, hca⟩, ⟨hkb, hsb, hpb, hcb⟩⟩
    simp only [Bool.and_eq_true, bne_iff_ne, ne_eq, beq_iff_eq]
    refine ⟨⟨⟨hka, hkb⟩, hsa.trans hsb.symm⟩, ?_⟩
    cases hA : a.slice with
    | none =>
      cases hB : b.slice with
      | none =>
        simp only [Bool.or_eq_true, isPrefix_iff]
        exact prefix_comparable hpa hpb
      | some y =>
        simp only [isPrefix_iff]
        rw [(hcb y hB).1]; exact hpa
    | some x =>
      cases hB : b.slice with
      | none =>
        simp only [isPrefix_iff]
        rw [(hca x hA).1]; exact hpb
      | some y =>
        simp only [Bool.and_eq_true, beq_iff_eq]
        obtain ⟨h1, h2, h3⟩ := hca x hA
        obtain ⟨h4, h5, h6⟩ := hcb y hB
        refine ⟨h1.trans h4.symm, ?_⟩
        unfold overlap
        split <;> simp only [decide_eq_true_eq] <;> omega

/-- slices are non-empty ranges (`Signal.__getitem__` asserts `start < stop`) -/
def SliceOk (o : Obj) : Prop := ∀ s, o.slice = some s → s.1 < s.2

theorem related_symm (a b : Obj) (ha : SliceOk a) (hb : SliceOk b) : related a b = related b a := by
  unfold related
  have e1 : (a.sid == b.sid) = (b.sid == a.sid) := by
    rw [Bool.eq_iff_iff]; simp only [beq_iff_eq]; exact eq_comm
  cases hA : a.slice with
  | none =>
    cases hB : b.slice with
    | none =>
      simp only [e1, Bool.or_comm (isPrefix a.fields b.fields)]
      cases (a.kind != .const) <;> cases (b.kind != .const) <;> rfl
    | some y =>
      simp only [e1]
      cases (a.kind != .const) <;> cases (b.kind != .const) <;> rfl
  | some x =>
    cases hB : b.slice with
    | none =>
      simp only [e1]
      cases (a.kind != .const) <;> cases (b.kind != .const) <;> rfl
    | some y =>
      have e2 : (a.fields == b.fields) = (b.fields == a.fields) := by
        rw [Bool.eq_iff_iff]; simp only [beq_iff_eq]; exact eq_comm
      simp only [e1, e2, overlap_symm x y (ha x hA) (hb y hB)]
      cases (a.kind != .const) <;> cases (b.kind != .const) <;> rfl

/-! ## 4. writer resolution -/

/-- specification of the propagatable writer marks, as a least fixed point that does not mention
any processing order: written by a block; top-level input port in a net; member of a net, other
than a member `w` of that net which is a constant or is related to an object marked from elsewhere -/
inductive Mark (D : Design) : Nat → Origin → Prop
  | blk {b t : Nat} : (b, t) ∈ D.writes → Mark D t (.blk b)
  | ext {t : Nat} {N : List Nat} : N ∈ D.nets → t ∈ N → D.topIn t = true → Mark D t .ext
  | rdConst {N : List Nat} {w v : Nat} : N ∈ D.nets → w ∈ N → D.isConst w = true → v ∈ N → v ≠ w →
      Mark D v (.net (rep N))
  | rdRel {N : List Nat} {w v t : Nat} {o : Origin} : N ∈ D.nets → w ∈ N → Mark D t o → o ≠ .net (rep N) →
      D.rel w t = true → v ∈ N → v ≠ w → Mark D v (.net (rep N))

/-- `x` is driven by something other than the net whose least member is `r`: it is a constant, or
it is related to (shares a bit with) an object that carries a mark of another origin -/
def Src (D : Design) (r x : Nat) : Prop :=
  D.isConst x = true ∨ ∃ t o, Mark D t o ∧ o ≠ Origin.net r ∧ D.rel x t = true

/-- the same with respect to the marks collected so far -/
def SrcT (D : Design) (T : Marks) (r x : Nat) : Prop :=
  D.isConst x = true ∨ ∃ m ∈ T, m.2 ≠ Origin.net r ∧ D.rel x m.1 = true

/-- a net with two independently driven members -/
def Bad (D : Design) : Prop :=
  ∃ N ∈ D.nets, ∃ x ∈ N, ∃ y ∈ N, x ≠ y ∧ Src D (rep N) x ∧ Src D (rep N) y

theorem drivenBy_iff (D : Design) (T : Marks) (v : Nat) :
    drivenBy D T v = true ↔ D.isConst v = true ∨ ∃ m ∈ T, D.rel v m.1 = true := by
  unfold drivenBy
  simp [List.any_eq_true]

theorem SrcT.mono {D : Design} {T T' : Marks} {r x : Nat} (h : ∀ m ∈ T, m ∈ T') (hs : SrcT D T r x) : SrcT D T' r x := by
  rcases hs with hs | ⟨m, hm, h1, h2⟩
  · exact Or.inl hs
  · exact Or.inr ⟨m, h m hm, h1, h2⟩

structure Inv (D : Design) (st : RState) : Prop where
  sound : ∀ m ∈ st.marks, Mark D m.1 m.2
  base : ∀ m ∈ initMarks D, m ∈ st.marks
  hnets : ∀ wn ∈ st.headed, wn.2 ∈ D.nets ∧ wn.1 ∈ wn.2 ∧
    ∀ v ∈ wn.2, v ≠ wn.1 → (v, Origin.net (rep wn.2)) ∈ st.marks
  orig : ∀ m ∈ st.marks, ∀ r, m.2 = Origin.net r → ∃ wn ∈ st.headed, rep wn.2 = r
  key : ∀ wn ∈ st.headed, ∀ x ∈ wn.2, SrcT D st.marks (rep wn.2) x → x = wn.1
  wsrc : ∀ wn ∈ st.headed, SrcT D st.marks (rep wn.2) wn.1

theorem Design.nets_rep_inj (D : Design) {N M : List Nat} (hN : N ∈ D.nets) (hM : M ∈ D.nets)
    (h : rep N = rep M) : N = M := rep_inj hN hM h

/-- no mark has the origin of a net that is not resolved yet -/
theorem Inv.fresh {D : Design} {st : RState} (hI : Inv D st) {N : List Nat} (hN : N ∈ D.nets)
    (hf : ∀ wn ∈ st.headed, wn.2 ≠ N) : ∀ m ∈ st.marks, m.2 ≠ Origin.net (rep N) := by
  intro m hm heq
  obtain ⟨wn, hwn, hr⟩ := hI.orig m hm _ heq
  exact hf wn hwn (D.nets_rep_inj (hI.hnets wn hwn).1 hN hr)

theorem Inv.srcT_sound {D : Design} {st : RState} (hI : Inv D st) {r x : Nat} (h : SrcT D st.marks r x) : Src D r x := by
  rcases h with h | ⟨m, hm, h1, h2⟩
  · exact Or.inl h
  · exact Or.inr ⟨m.1, m.2, hI.sound m hm, h1, h2⟩

theorem filter_two {l : List Nat} (h0 : l ≠ []) (h1 : ∀ w, l ≠ [w]) : ∃ x y r, l = x :: y :: r := by
  match l with
  | [] => exact absurd rfl h0
  | [w] => exact absurd rfl (h1 w)
  | x :: y :: r => exact ⟨x, y, r, rfl⟩

/-- a net that is found to have two driven members really has two independently driven members -/
theorem stepNet_error {D : Design} {st : RState} {N : List Nat} (hI : Inv D st) (hN : N ∈ D.nets)
    (hf : ∀ wn ∈ st.headed, wn.2 ≠ N) {e : Err} (h : stepNet D st N = .error e) : e = .multiWriter ∧ Bad D := by
  unfold stepNet at h
  split at h
  · cases h
  · cases h
  · next h0 h1 =>
    cases h
    refine ⟨rfl, ?_⟩
    obtain ⟨x, y, r, hl⟩ := filter_two h0 h1
    have hnd : (N.filter (drivenBy D st.marks)).Nodup := (sorted_nodup (nets_spec hN).1).filter _
    rw [hl] at hnd
    have hxy : x ≠ y := by
      intro e; subst e
      exact (List.nodup_cons.mp hnd).1 (List.mem_cons_self ..)
    have hx : x ∈ N.filter (drivenBy D st.marks) := by rw [hl]; simp
    have hy : y ∈ N.filter (drivenBy D st.marks) := by rw [hl]; simp
    rw [List.mem_filter] at hx hy
    have src : ∀ z, drivenBy D st.marks z = true → Src D (rep N) z := by
      intro z hz
      rcases (drivenBy_iff D st.marks z).mp hz with hc | ⟨m, hm, hr⟩
      · exact Or.inl hc
      · exact Or.inr ⟨m.1, m.2, hI.sound m hm, hI.fresh hN hf m hm, hr⟩
    exact ⟨N, hN, x, hx.1, y, hy.1, hxy, src x hx.2, src y hy.2⟩

theorem stepNet_headless {D : Design} {st st' : RState} {N : List Nat}
    (h0 : N.filter (drivenBy D st.marks) = []) (h : stepNet D st N = .ok st') :
    st' = { st with headless := st.headless ++ [N] } := by
  unfold stepNet at h
  rw [h0] at h
  simp only at h
  cases h; rfl

theorem stepNet_headed {D : Design} {st st' : RState} {N : List Nat} {w : Nat}
    (h1 : N.filter (drivenBy D st.marks) = [w]) (h : stepNet D st N = .ok st') :
    st' = { marks := st.marks ++ (N.filter (fun v => decide (v ≠ w))).map (fun v => (v, Origin.net (rep N))),
            headed := st.headed ++ [(w, N)], headless := st.headless } := by
  unfold stepNet at h
  rw [h1] at h
  simp only at h
  cases h; rfl

/-- resolving a net keeps the invariant (this is where the symmetry of `related` is used: a reader
that becomes a mark cannot make an already resolved net acquire a second source, because the
member of that net it is related to is itself a mark and would have made it a second source of its
own net) -/
theorem stepNet_inv {D : Design} (hsym : ∀ i j, D.rel i j = D.rel j i) {st st' : RState} {N : List Nat}
    (hI : Inv D st) (hN : N ∈ D.nets) (hf : ∀ wn ∈ st.headed, wn.2 ≠ N)
    (h : stepNet D st N = .ok st') : Inv D st' := by
  cases hc : N.filter (drivenBy D st.marks) with
  | nil =>
    rw [stepNet_headless hc h]
    exact ⟨hI.sound, hI.base, hI.hnets, hI.orig, hI.key, hI.wsrc⟩
  | cons w rest =>
    cases rest with
    | cons y r =>
      unfold stepNet at h
      rw [hc] at h
      simp only at h
      cases h
    | nil =>
      rw [stepNet_headed hc h]
      have hw : w ∈ N ∧ drivenBy D st.marks w = true := by
        have : w ∈ N.filter (drivenBy D st.marks) := by rw [hc]; simp
        exact List.mem_filter.mp this
      have huniq : ∀ x ∈ N, drivenBy D st.marks x = true → x = w := by
        intro x hx hd
        have : x ∈ N.filter (drivenBy D st.marks) := List.mem_filter.mpr ⟨hx, hd⟩
        rw [hc] at this
        simpa using this
      have hfresh := hI.fresh hN hf
      have memNew : ∀ m, m ∈ (N.filter (fun v => decide (v ≠ w))).map (fun v => (v, Origin.net (rep N))) ↔
          ∃ v ∈ N, v ≠ w ∧ m = (v, Origin.net (rep N)) := by
        intro m
        simp only [List.mem_map, List.mem_filter, decide_eq_true_eq]
        constructor
        · rintro ⟨v, ⟨hv, hne⟩, rfl⟩; exact ⟨v, hv, hne, rfl⟩
        · rintro ⟨v, hv, hne, rfl⟩; exact ⟨v, ⟨hv, hne⟩, rfl⟩
      have wSrc : SrcT D st.marks (rep N) w := by
        rcases (drivenBy_iff D st.marks w).mp hw.2 with hc' | ⟨m, hm, hr⟩
        · exact Or.inl hc'
        · exact Or.inr ⟨m, hm, hfresh m hm, hr⟩
      refine ⟨?_, ?_, ?_, ?_, ?_, ?_⟩
      · -- sound
        intro m hm
        rcases List.mem_append.mp hm with hm | hm
        · exact hI.sound m hm
        · obtain ⟨v, hv, hne, rfl⟩ := (memNew m).mp hm
          rcases (drivenBy_iff D st.marks w).mp hw.2 with hc' | ⟨t, ht, hr⟩
          · exact Mark.rdConst hN hw.1 hc' hv hne
          · exact Mark.rdRel hN hw.1 (hI.sound t ht) (hfresh t ht) hr hv hne
      · intro m hm; exact List.mem_append_left _ (hI.base m hm)
      · -- hnets
        intro wn hwn
        rcases List.mem_append.mp hwn with hwn | hwn
        · obtain ⟨a, b, c⟩ := hI.hnets wn hwn
          exact ⟨a, b, fun v hv hne => List.mem_append_left _ (c v hv hne)⟩
        · simp only [List.mem_singleton] at hwn
          subst hwn
          exact ⟨hN, hw.1, fun v hv hne => List.mem_append_right _ ((memNew _).mpr ⟨v, hv, hne, rfl⟩)⟩
      · -- orig
        intro m hm r hr
        rcases List.mem_append.mp hm with hm | hm
        · obtain ⟨wn, hwn, h'⟩ := hI.orig m hm r hr
          exact ⟨wn, List.mem_append_left _ hwn, h'⟩
        · obtain ⟨v, _, _, rfl⟩ := (memNew m).mp hm
          simp only [Origin.net.injEq] at hr
          exact ⟨(w, N), List.mem_append_right _ (by simp), hr⟩
      · -- key
        intro wn hwn x hx hs
        rcases List.mem_append.mp hwn with hwn | hwn
        · rcases hs with hs | ⟨m, hm, hne, hr⟩
          · exact hI.key wn hwn x hx (Or.inl hs)
          · rcases List.mem_append.mp hm with hm | hm
            · exact hI.key wn hwn x hx (Or.inr ⟨m, hm, hne, hr⟩)
            · obtain ⟨v, hv, hvw, rfl⟩ := (memNew m).mp hm
              apply Classical.byContradiction
              intro hxw
              have hxm := (hI.hnets wn hwn).2.2 x hx hxw
              have hvd : drivenBy D st.marks v = true :=
                (drivenBy_iff D st.marks v).mpr (Or.inr ⟨_, hxm, by rw [hsym]; exact hr⟩)
              exact hvw (huniq v hv hvd)
        · simp only [List.mem_singleton] at hwn
          subst hwn
          apply huniq x hx
          rcases hs with hs | ⟨m, hm, hne, hr⟩
          · exact (drivenBy_iff D st.marks x).mpr (Or.inl hs)
          · rcases List.mem_append.mp hm with hm | hm
            · exact (drivenBy_iff D st.marks x).mpr (Or.inr ⟨m, hm, hr⟩)
            · obtain ⟨v, _, _, rfl⟩ := (memNew m).mp hm
              exact absurd rfl hne
      · -- wsrc
        intro wn hwn
        rcases List.mem_append.mp hwn with hwn | hwn
        · exact (hI.wsrc wn hwn).mono (fun m hm => List.mem_append_left _ hm)
        · simp only [List.mem_singleton] at hwn
          subst hwn
          exact wSrc.mono (fun m hm => List.mem_append_left _ hm)

/-- resolved nets, headless nets and the nets still to be visited in this round are the nets of the
design, each exactly once -/
def Part (D : Design) (st : RState) (pending : List (List Nat)) : Prop :=
  (st.headed.map (·.2) ++ st.headless ++ pending).Perm D.nets

theorem Part.head_mem {D : Design} {st : RState} {N : List Nat} {rest : List (List Nat)}
    (hP : Part D st (N :: rest)) : N ∈ D.nets ∧ ∀ wn ∈ st.headed, wn.2 ≠ N := by
  have hm : N ∈ st.headed.map (·.2) ++ st.headless ++ N :: rest := by simp
  refine ⟨hP.mem_iff.mp hm, ?_⟩
  have hnd : (st.headed.map (·.2) ++ st.headless ++ N :: rest).Nodup := hP.nodup_iff.mpr (nets_nodup _)
  intro wn hwn heq
  rw [List.append_assoc] at hnd
  have := (List.nodup_append.mp hnd).2.2 wn.2 (List.mem_map.mpr ⟨wn, hwn, rfl⟩) N (by simp)
  exact this heq

theorem pass_spec {D : Design} (hsym : ∀ i j, D.rel i j = D.rel j i) :
    ∀ (pending : List (List Nat)) (st : RState), Inv D st → Part D st pending →
    (∀ st', pass D pending st = .ok st' → Inv D st' ∧ Part D st' [] ∧
        st'.headless.length ≤ st.headless.length + pending.length ∧
        (st'.headless.length = st.headless.length + pending.length →
          st'.marks = st.marks ∧ st'.headed = st.headed ∧ st'.headless = st.headless ++ pending ∧
          ∀ N ∈ pending, N.filter (drivenBy D st.marks) = [])) ∧
    (∀ e, pass D pending st = .error e → e = .multiWriter ∧ Bad D) := by
  intro pending
  induction pending with
  | nil =>
    intro st hI hP
    refine ⟨?_, ?_⟩
    · intro st' h
      simp only [pass] at h
      cases h
      exact ⟨hI, hP, by simp, fun _ => ⟨rfl, rfl, by simp, by simp⟩⟩
    · intro e h; simp only [pass] at h; cases h
  | cons N rest ih =>
    intro st hI hP
    obtain ⟨hN, hf⟩ := hP.head_mem
    cases hstep : stepNet D st N with
    | error e0 =>
      refine ⟨?_, ?_⟩
      · intro st' h; simp only [pass, hstep] at h; cases h
      · intro e h
        simp only [pass, hstep] at h
        cases h
        exact stepNet_error hI hN hf hstep
    | ok st1 =>
      have hI1 := stepNet_inv hsym hI hN hf hstep
      have hpass : pass D (N :: rest) st = pass D rest st1 := by simp only [pass, hstep]
      cases hc : N.filter (drivenBy D st.marks) with
      | nil =>
        have e1 := stepNet_headless hc hstep
        have hP1 : Part D st1 rest := by
          unfold Part at hP ⊢
          rw [e1]
          simpa [List.append_assoc] using hP
        obtain ⟨ihok, iherr⟩ := ih st1 hI1 hP1
        refine ⟨?_, ?_⟩
        · intro st' h
          rw [hpass] at h
          obtain ⟨a, b, c, d⟩ := ihok st' h
          have hl1 : st1.headless.length = st.headless.length + 1 := by rw [e1]; simp
          refine ⟨a, b, by simp only [List.length_cons]; omega, ?_⟩
          intro heq
          have := d (by simp only [List.length_cons] at heq; omega)
          obtain ⟨m1, m2, m3, m4⟩ := this
          have hm : st1.marks = st.marks := by rw [e1]
          refine ⟨m1.trans hm, m2.trans (by rw [e1]), ?_, ?_⟩
          · rw [m3, e1]; simp [List.append_assoc]
          · intro M hM
            rcases List.mem_cons.mp hM with rfl | hM
            · exact hc
            · rw [← hm]; exact m4 M hM
        · intro e h; rw [hpass] at h; exact iherr e h
      | cons w r =>
        cases r with
        | cons y r' =>
          unfold stepNet at hstep
          rw [hc] at hstep
          simp only at hstep
          cases hstep
        | nil =>
          have e1 := stepNet_headed hc hstep
          have hP1 : Part D st1 rest := by
            unfold Part at hP ⊢
            rw [e1]
            simp only [List.map_append, List.map_cons, List.map_nil, List.append_assoc]
            refine List.Perm.trans ?_ (by simpa [List.append_assoc] using hP)
            apply List.Perm.append_left
            simp only [List.singleton_append]
            exact List.perm_middle.symm
          obtain ⟨ihok, iherr⟩ := ih st1 hI1 hP1
          refine ⟨?_, ?_⟩
          · intro st' h
            rw [hpass] at h
            obtain ⟨a, b, c, _⟩ := ihok st' h
            have hl1 : st1.headless.length = st.headless.length := by rw [e1]
            refine ⟨a, b, by simp only [List.length_cons]; omega, ?_⟩
            intro heq
            simp only [List.length_cons] at heq
            omega
          · intro e h; rw [hpass] at h; exact iherr e h

theorem rounds_spec {D : Design} (hsym : ∀ i j, D.rel i j = D.rel j i) :
    ∀ (f : Nat) (st : RState), Inv D st → Part D st [] → st.headless.length < f →
    (∀ st', rounds D f st = .ok st' → Inv D st' ∧ Part D st' [] ∧
        ∀ N ∈ st'.headless, N.filter (drivenBy D st'.marks) = []) ∧
    (∀ e, rounds D f st = .error e → e = .multiWriter ∧ Bad D) := by
  intro f
  induction f with
  | zero => intro st _ _ h; omega
  | succ f ih =>
    intro st hI hP hlt
    by_cases hemp : st.headless.isEmpty = true
    · refine ⟨?_, ?_⟩
      · intro st' h
        simp only [rounds, hemp, if_true] at h
        cases h
        refine ⟨hI, hP, ?_⟩
        intro N hN
        rw [List.isEmpty_iff.mp hemp] at hN
        cases hN
      · intro e h; simp only [rounds, hemp, if_true] at h; cases h
    · have hI0 : Inv D { st with headless := [] } := ⟨hI.sound, hI.base, hI.hnets, hI.orig, hI.key, hI.wsrc⟩
      have hP0 : Part D { st with headless := [] } st.headless := by
        unfold Part at hP ⊢
        simpa using hP
      obtain ⟨pok, perr⟩ := pass_spec hsym st.headless _ hI0 hP0
      cases hp : pass D st.headless { st with headless := [] } with
      | error e0 =>
        refine ⟨?_, ?_⟩
        · intro st' h; simp only [rounds, hemp, hp] at h; cases h
        · intro e h
          simp only [rounds, hemp, hp] at h
          cases h
          exact perr e0 hp
      | ok st1 =>
        obtain ⟨a, b, c, d⟩ := pok st1 hp
        simp only [List.length_nil, Nat.zero_add] at c d
        by_cases heq : st1.headless.length = st.headless.length
        · refine ⟨?_, ?_⟩
          · intro st' h
            simp only [rounds, hemp, hp, heq, if_true] at h
            cases h
            obtain ⟨m1, _, m3, m4⟩ := d heq
            refine ⟨a, b, ?_⟩
            intro N hN
            rw [m3] at hN
            simp only [List.nil_append] at hN
            have := m4 N hN
            rw [m1]; exact this
          · intro e h; simp only [rounds, hemp, hp, heq, if_true] at h; cases h
        · have hlt1 : st1.headless.length < f := by omega
          obtain ⟨rok, rerr⟩ := ih st1 a b hlt1
          refine ⟨?_, ?_⟩
          · intro st' h
            simp only [rounds, hemp, hp, heq, if_false] at h
            exact rok st' h
          · intro e h
            simp only [rounds, hemp, hp, heq, if_false] at h
            exact rerr e h

theorem mem_initMarks (D : Design) (m : Nat × Origin) :
    m ∈ initMarks D ↔ (∃ b, (b, m.1) ∈ D.writes ∧ m.2 = Origin.blk b) ∨
      (m.2 = Origin.ext ∧ D.topIn m.1 = true ∧ ∃ N ∈ D.nets, m.1 ∈ N) := by
  unfold initMarks
  simp only [List.mem_append, List.mem_map, List.mem_filter, List.mem_flatMap, id]
  constructor
  · rintro (⟨w, hw, rfl⟩ | ⟨t, ⟨⟨N, hN, ht⟩, htop⟩, rfl⟩)
    · exact Or.inl ⟨w.1, hw, rfl⟩
    · exact Or.inr ⟨rfl, htop, N, hN, ht⟩
  · rintro (⟨b, hw, hm⟩ | ⟨hm, htop, N, hN, ht⟩)
    · exact Or.inl ⟨(b, m.1), hw, by rw [← hm]⟩
    · exact Or.inr ⟨m.1, ⟨⟨N, hN, ht⟩, htop⟩, by rw [← hm]⟩

theorem inv_init (D : Design) : Inv D { marks := initMarks D, headed := [], headless := D.nets } := by
  refine ⟨?_, fun m hm => hm, ?_, ?_, ?_, ?_⟩
  · intro m hm
    rcases (mem_initMarks D m).mp hm with ⟨b, hw, h2⟩ | ⟨h2, htop, N, hN, ht⟩
    · rw [h2]; exact Mark.blk hw
    · rw [h2]; exact Mark.ext hN ht htop
  · intro wn h; cases h
  · intro m hm r hr
    rcases (mem_initMarks D m).mp hm with ⟨b, _, h2⟩ | ⟨h2, _⟩
    · rw [h2] at hr; cases hr
    · rw [h2] at hr; cases hr
  · intro wn h; cases h
  · intro wn h; cases h

/-- what `resolve` returns, in terms of its own marks -/
theorem resolve_spec {D : Design} (hsym : ∀ i j, D.rel i j = D.rel j i) :
    (∀ st, resolve D = .ok st → Inv D st ∧ Part D st [] ∧
        ∀ N ∈ st.headless, N.filter (drivenBy D st.marks) = []) ∧
    (∀ e, resolve D = .error e → e = .multiWriter ∧ Bad D) := by
  unfold resolve
  apply rounds_spec hsym _ _ (inv_init D)
  · unfold Part; simp
  · simp

/-- the marks collected by a successful run are exactly the specified ones -/
theorem mark_complete {D : Design} {st : RState} (hI : Inv D st) (hP : Part D st [])
    (hfin : ∀ N ∈ st.headless, N.filter (drivenBy D st.marks) = []) {t : Nat} {o : Origin}
    (h : Mark D t o) : (t, o) ∈ st.marks := by
  have split : ∀ N ∈ D.nets, (∃ w, (w, N) ∈ st.headed) ∨ N ∈ st.headless := by
    intro N hN
    have := hP.mem_iff.mpr hN
    simp only [List.append_nil, List.mem_append, List.mem_map] at this
    rcases this with ⟨wn, hwn, rfl⟩ | h
    · exact Or.inl ⟨wn.1, hwn⟩
    · exact Or.inr h
  have reader : ∀ N ∈ D.nets, ∀ w ∈ N, drivenBy D st.marks w = true → SrcT D st.marks (rep N) w →
      ∀ v ∈ N, v ≠ w → (v, Origin.net (rep N)) ∈ st.marks := by
    intro N hN w hw hd hs v hv hne
    rcases split N hN with ⟨w', hh⟩ | hl
    · have := hI.key _ hh w hw hs
      simp only at this
      subst this
      exact (hI.hnets _ hh).2.2 v hv hne
    · have := hfin N hl
      have hm : w ∈ N.filter (drivenBy D st.marks) := List.mem_filter.mpr ⟨hw, hd⟩
      rw [this] at hm
      cases hm
  induction h with
  | blk hw => exact hI.base _ ((mem_initMarks D _).mpr (Or.inl ⟨_, hw, rfl⟩))
  | ext hN ht htop => exact hI.base _ ((mem_initMarks D _).mpr (Or.inr ⟨rfl, htop, _, hN, ht⟩))
  | rdConst hN hw hc hv hne =>
    exact reader _ hN _ hw ((drivenBy_iff D _ _).mpr (Or.inl hc)) (Or.inl hc) _ hv hne
  | rdRel hN hw _ ho hr hv hne ih =>
    exact reader _ hN _ hw ((drivenBy_iff D _ _).mpr (Or.inr ⟨_, ih, hr⟩)) (Or.inr ⟨_, ih, ho, hr⟩) _ hv hne

theorem src_iff_srcT {D : Design} {st : RState} (hI : Inv D st) (hP : Part D st [])
    (hfin : ∀ N ∈ st.headless, N.filter (drivenBy D st.marks) = []) (r x : Nat) :
    Src D r x ↔ SrcT D st.marks r x := by
  constructor
  · rintro (h | ⟨t, o, hm, ho, hr⟩)
    · exact Or.inl h
    · exact Or.inr ⟨(t, o), mark_complete hI hP hfin hm, ho, hr⟩
  · exact hI.srcT_sound

/-! ### confluence: the result does not depend on the order in which nets and marks are visited -/

/-- a state in which the rounds have stopped -/
structure Final (D : Design) (st : RState) : Prop where
  inv : Inv D st
  part : Part D st []
  fin : ∀ N ∈ st.headless, N.filter (drivenBy D st.marks) = []

theorem resolveFrom_spec {D : Design} (hsym : ∀ i j, D.rel i j = D.rel j i) (T0 : Marks) (ns : List (List Nat))
    (hT : ∀ m, m ∈ T0 ↔ m ∈ initMarks D) (hns : ns.Perm D.nets) :
    (∀ st, resolveFrom D T0 ns = .ok st → Final D st) ∧
    (∀ e, resolveFrom D T0 ns = .error e → e = .multiWriter ∧ Bad D) := by
  unfold resolveFrom
  have hI : Inv D { marks := T0, headed := [], headless := ns } := by
    have h0 := inv_init D
    refine ⟨?_, fun m hm => (hT m).mpr hm, ?_, ?_, ?_, ?_⟩
    · intro m hm; exact h0.sound m ((hT m).mp hm)
    · intro wn h; cases h
    · intro m hm r hr; exact h0.orig m ((hT m).mp hm) r hr
    · intro wn h; cases h
    · intro wn h; cases h
  have hP : Part D { marks := T0, headed := [], headless := ns } [] := by
    unfold Part; simpa using hns
  obtain ⟨a, b⟩ := rounds_spec hsym (ns.length + 1) _ hI hP (by simp)
  exact ⟨fun st h => let ⟨x, y, z⟩ := a st h; ⟨x, y, z⟩, b⟩

theorem Final.split {D : Design} {st : RState} (hF : Final D st) {N : List Nat} (hN : N ∈ D.nets) :
    (∃ w, (w, N) ∈ st.headed) ∨ N ∈ st.headless := by
  have := hF.part.mem_iff.mpr hN
  simp only [List.append_nil, List.mem_append, List.mem_map] at this
  rcases this with ⟨wn, hwn, rfl⟩ | h
  · exact Or.inl ⟨wn.1, hwn⟩
  · exact Or.inr h

theorem Final.drivenBy_of_src {D : Design} {st : RState} (hF : Final D st) {r x : Nat} (h : Src D r x) :
    drivenBy D st.marks x = true := by
  rcases (src_iff_srcT hF.inv hF.part hF.fin r x).mp h with h | ⟨m, hm, _, hr⟩
  · exact (drivenBy_iff D _ x).mpr (Or.inl h)
  · exact (drivenBy_iff D _ x).mpr (Or.inr ⟨m, hm, hr⟩)

/-- which pairs end up resolved, without reference to any order -/
theorem Final.headed_iff {D : Design} {st : RState} (hF : Final D st) (w : Nat) (N : List Nat) :
    (w, N) ∈ st.headed ↔ N ∈ D.nets ∧ w ∈ N ∧ Src D (rep N) w := by
  constructor
  · intro h
    exact ⟨(hF.inv.hnets _ h).1, (hF.inv.hnets _ h).2.1, hF.inv.srcT_sound (hF.inv.wsrc _ h)⟩
  · rintro ⟨hN, hw, hs⟩
    rcases hF.split hN with ⟨w', hh⟩ | hl
    · have := hF.inv.key _ hh w hw ((src_iff_srcT hF.inv hF.part hF.fin _ _).mp hs)
      simp only at this
      subst this; exact hh
    · have hm : w ∈ N.filter (drivenBy D st.marks) := List.mem_filter.mpr ⟨hw, hF.drivenBy_of_src hs⟩
      rw [hF.fin N hl] at hm
      cases hm

/-- which nets end up without writer, without reference to any order -/
theorem Final.headless_iff {D : Design} {st : RState} (hF : Final D st) (N : List Nat) :
    N ∈ st.headless ↔ N ∈ D.nets ∧ ∀ x ∈ N, ¬ Src D (rep N) x := by
  constructor
  · intro h
    refine ⟨hF.part.mem_iff.mp (by simp [h]), ?_⟩
    intro x hx hs
    have hm : x ∈ N.filter (drivenBy D st.marks) := List.mem_filter.mpr ⟨hx, hF.drivenBy_of_src hs⟩
    rw [hF.fin N h] at hm
    cases hm
  · rintro ⟨hN, hno⟩
    rcases hF.split hN with ⟨w, hh⟩ | hl
    · exact absurd (hF.inv.srcT_sound (hF.inv.wsrc _ hh)) (hno w (hF.inv.hnets _ hh).2.1)
    · exact hl

theorem Final.not_bad {D : Design} {st : RState} (hF : Final D st) : ¬ Bad D := by
  rintro ⟨N, hN, x, hx, y, hy, hne, sx, sy⟩
  have h1 := (hF.headed_iff x N).mpr ⟨hN, hx, sx⟩
  have h2 := (hF.headed_iff y N).mpr ⟨hN, hy, sy⟩
  have k1 := hF.inv.key _ h1 y hy ((src_iff_srcT hF.inv hF.part hF.fin _ _).mp sy)
  exact hne k1.symm

end PV.Nets
