import PymtlVerif.Model.HierHook
/-!
# Lemmas about `Model/HierHook.lean` (the naming hook as a state transformer) used by `Props/C14h.lean`
-/
namespace PV.Hier

/-! ## nested lists: indexing, the queue walk -/

theorem mutL_eq_map (id : Nat) (f : List HVal → List HVal) (xs : List HVal) :
    HVal.mutL id f xs = xs.map (HVal.mut id f) := by
  induction xs with
  | nil => simp [HVal.mutL]
  | cons x r ih => simp [HVal.mutL, ih]

theorem hgetPath_append (v : HVal) (a b : List Nat) :
    hgetPath v (a ++ b) = (hgetPath v a).bind (hgetPath · b) := by
  induction a generalizing v with
  | nil => simp [hgetPath]
  | cons i r ih =>
    cases v with
    | obj o => simp [hgetPath]
    | other => simp [hgetPath]
    | lst id xs =>
      simp only [List.cons_append, hgetPath]
      cases xs[i]? with
      | none => simp
      | some w => simpa using ih w

theorem mem_henum {ix : List Nat} {k : Nat} {xs : List HVal} {v : HVal} {p : List Nat} :
    (v, p) ∈ henum ix k xs ↔ ∃ i, xs[i]? = some v ∧ p = ix ++ [k + i] := by
  induction xs generalizing k with
  | nil => simp [henum]
  | cons w r ih =>
    simp only [henum, List.mem_cons, Prod.mk.injEq, ih]
    constructor
    · rintro (⟨rfl, rfl⟩ | ⟨i, hi, rfl⟩)
      · exact ⟨0, by simp⟩
      · exact ⟨i + 1, by simpa using hi, by simp; omega⟩
    · rintro ⟨i, hi, rfl⟩
      cases i with
      | zero => left; simpa using hi.symm
      | succ j => right; exact ⟨j, by simpa using hi, by simp; omega⟩

theorem hqSize_append (a b : List (HVal × List Nat)) : hqSize (a ++ b) = hqSize a + hqSize b := by
  induction a with
  | nil => simp [hqSize]
  | cons p r ih => simp [hqSize, ih]; omega

theorem hqSize_henum (ix : List Nat) (k : Nat) (xs : List HVal) : hqSize (henum ix k xs) = HVal.sizeL xs := by
  induction xs generalizing k with
  | nil => simp [henum, hqSize, HVal.sizeL]
  | cons v r ih => simp [henum, hqSize, HVal.sizeL, ih]

theorem size_pos (v : HVal) : 0 < v.size := by
  cases v <;> simp [HVal.size]

/-- **The queue walk visits every `NamedObject` of the nested list with its index path, and nothing
else** (for a step bound that covers the queue). -/
theorem mem_hbfsF (n : Nat) (q : List (HVal × List Nat)) (hn : hqSize q ≤ n) (o : Nat) (ix : List Nat) :
    (o, ix) ∈ hbfsF n q ↔ ∃ v pre suf, (v, pre) ∈ q ∧ ix = pre ++ suf ∧ hgetPath v suf = some (.obj o) := by
  induction n generalizing q with
  | zero =>
    cases q with
    | nil => simp [hbfsF]
    | cons p r =>
      have := size_pos p.1
      simp [hqSize] at hn; omega
  | succ n ih =>
    cases q with
    | nil => simp [hbfsF]
    | cons p q =>
      obtain ⟨v0, jx⟩ := p
      cases v0 with
      | obj c =>
        have hq : hqSize q ≤ n := by simp [hqSize, HVal.size] at hn; omega
        simp only [hbfsF, List.mem_cons, Prod.mk.injEq, ih q hq]
        constructor
        · rintro (⟨rfl, rfl⟩ | ⟨v, pre, suf, hm, rfl, hp⟩)
          · exact ⟨.obj o, ix, [], Or.inl ⟨rfl, rfl⟩, by simp, rfl⟩
          · exact ⟨v, pre, suf, Or.inr hm, rfl, hp⟩
        · rintro ⟨v, pre, suf, (⟨rfl, rfl⟩ | hm), rfl, hp⟩
          · cases suf with
            | nil => simp [hgetPath] at hp; left; exact ⟨hp.symm, by simp⟩
            | cons i r => simp [hgetPath] at hp
          · exact Or.inr ⟨v, pre, suf, hm, rfl, hp⟩
      | other =>
        have hq : hqSize q ≤ n := by simp [hqSize, HVal.size] at hn; omega
        simp only [hbfsF, ih q hq]
        constructor
        · rintro ⟨v, pre, suf, hm, rfl, hp⟩
          exact ⟨v, pre, suf, List.mem_cons_of_mem _ hm, rfl, hp⟩
        · rintro ⟨v, pre, suf, hm, rfl, hp⟩
          rcases List.mem_cons.1 hm with h | hm
          · cases h
            cases suf <;> simp [hgetPath] at hp
          · exact ⟨v, pre, suf, hm, rfl, hp⟩
      | lst id xs =>
        have hq : hqSize (q ++ henum jx 0 xs) ≤ n := by
          rw [hqSize_append, hqSize_henum]; simp [hqSize, HVal.size] at hn; omega
        simp only [hbfsF, ih _ hq]
        constructor
        · rintro ⟨v, pre, suf, hm, rfl, hp⟩
          rcases List.mem_append.1 hm with hm | hm
          · exact ⟨v, pre, suf, List.mem_cons_of_mem _ hm, rfl, hp⟩
          · obtain ⟨i, hi, rfl⟩ := mem_henum.1 hm
            refine ⟨.lst id xs, jx, i :: suf, List.mem_cons_self, by simp, ?_⟩
            simp [hgetPath, hi, hp]
        · rintro ⟨v, pre, suf, hm, rfl, hp⟩
          rcases List.mem_cons.1 hm with h | hm
          · cases h
            cases suf with
            | nil => simp [hgetPath] at hp
            | cons i r =>
              simp only [hgetPath] at hp
              cases hi : xs[i]? with
              | none => simp [hi] at hp
              | some w =>
                simp only [hi] at hp
                exact ⟨w, jx ++ [i], r, List.mem_append_right _ (mem_henum.2 ⟨i, hi, by simp⟩), by simp, hp⟩
          · exact ⟨v, pre, suf, List.mem_append_left _ hm, rfl, hp⟩

theorem mem_hbfs (q : List (HVal × List Nat)) (o : Nat) (ix : List Nat) :
    (o, ix) ∈ hbfs q ↔ ∃ v pre suf, (v, pre) ∈ q ∧ ix = pre ++ suf ∧ hgetPath v suf = some (.obj o) :=
  mem_hbfsF _ q (Nat.le_refl _) o ix

/-- the objects the hook visits for `s.a = v` are exactly the objects at the index paths of `v` -/
theorem mem_visited {v : HVal} {u : Nat} {ix : List Nat} :
    (u, ix) ∈ visited v ↔ hgetPath v ix = some (.obj u) := by
  cases v with
  | obj c =>
    cases ix with
    | nil => simp [visited, hgetPath, eq_comm]
    | cons i r => simp [visited, hgetPath]
  | other =>
    cases ix <;> simp [visited, hgetPath]
  | lst id xs =>
    simp only [visited, mem_hbfs]
    constructor
    · rintro ⟨v, pre, suf, hm, rfl, hp⟩
      obtain ⟨i, hi, rfl⟩ := mem_henum.1 hm
      simp [hgetPath, hi, hp]
    · intro h
      cases ix with
      | nil => simp [hgetPath] at h
      | cons i r =>
        simp only [hgetPath] at h
        cases hi : xs[i]? with
        | none => simp [hi] at h
        | some w =>
          simp only [hi] at h
          exact ⟨w, [i], r, mem_henum.2 ⟨i, hi, by simp⟩, by simp, h⟩

/-- a value that takes the "anything else" branch holds no `NamedObject` at any index path -/
theorem no_obj_of_not_hw {v : HVal} (h : v.takesHook = false)
    {ix : List Nat} {u : Nat} : hgetPath v ix ≠ some (.obj u) := by
  cases v with
  | obj c => simp [HVal.takesHook] at h
  | other => cases ix <;> simp [hgetPath]
  | lst id xs =>
    simp only [HVal.takesHook, List.any_eq_false] at h
    cases ix with
    | nil => simp [hgetPath]
    | cons i r =>
      simp only [hgetPath]
      cases hi : xs[i]? with
      | none => simp
      | some w =>
        have hw := h w (List.mem_of_getElem? hi)
        cases w with
        | other => cases r <;> simp [hgetPath]
        | obj c => simp [HVal.isHw] at hw
        | lst j ys => simp [HVal.isHw] at hw

/-! ## the loop body -/

theorem nameWalk_attrs (s : Nat) (a : String) (ext : Bool) (st : HSt) (occ : List (Nat × List Nat)) :
    (nameWalk s a ext st occ).attrs = st.attrs := by
  induction occ generalizing st with
  | nil => rfl
  | cons p r ih =>
    obtain ⟨u, ix⟩ := p
    simp only [nameWalk]
    split
    · exact ih st
    · rw [ih]; simp only [nameOne]; split <;> rfl

theorem nameOne_dsl {st : HSt} {s : Nat} {sd : Dsl} (hs : st.dsl s = some sd) (a : String) (ix : List Nat) (u : Nat) :
    (nameOne st s a ix u).dsl = upd st.dsl u (some (mkDsl sd s a ix)) := by
  simp [nameOne, hs]

/-- what the walk leaves in `_dsl`: the owner's record is untouched; an object that is not visited, or
that is skipped (`extended` and already named), keeps its record; every other visited object gets the
record of one of its positions in the list. -/
theorem nameWalk_spec (s : Nat) (a : String) (ext : Bool) {sd : Dsl} (occ : List (Nat × List Nat)) (st : HSt)
    (hs : st.dsl s = some sd) (hne : ∀ p ∈ occ, p.1 ≠ s) :
    (nameWalk s a ext st occ).dsl s = some sd ∧
    ∀ u, ((¬ (∃ ix, (u, ix) ∈ occ) ∨ (ext = true ∧ (st.dsl u).isSome = true)) →
            (nameWalk s a ext st occ).dsl u = st.dsl u) ∧
         ((∃ ix, (u, ix) ∈ occ) → ¬ (ext = true ∧ (st.dsl u).isSome = true) →
            ∃ ix, (u, ix) ∈ occ ∧ (nameWalk s a ext st occ).dsl u = some (mkDsl sd s a ix)) := by
  induction occ generalizing st with
  | nil => exact ⟨hs, fun u => ⟨fun _ => rfl, fun h => by simp at h⟩⟩
  | cons p r ih =>
    obtain ⟨u0, ix0⟩ := p
    have hne' : ∀ p ∈ r, p.1 ≠ s := fun p hp => hne p (List.mem_cons_of_mem _ hp)
    have hu0 : u0 ≠ s := hne (u0, ix0) List.mem_cons_self
    simp only [nameWalk]
    by_cases hskip : (ext && (st.dsl u0).isSome) = true
    · rw [if_pos hskip]
      have hsk : ext = true ∧ (st.dsl u0).isSome = true := by simpa using hskip
      obtain ⟨h1, h2⟩ := ih st hs hne'
      refine ⟨h1, fun u => ⟨?_, ?_⟩⟩
      · rintro (hno | hex)
        · exact (h2 u).1 (Or.inl fun ⟨ix, hm⟩ => hno ⟨ix, List.mem_cons_of_mem _ hm⟩)
        · exact (h2 u).1 (Or.inr hex)
      · rintro ⟨ix, hm⟩ hn
        rcases List.mem_cons.1 hm with h | hm
        · cases h; exact absurd hsk hn
        · obtain ⟨ix', hm', hd⟩ := (h2 u).2 ⟨ix, hm⟩ hn
          exact ⟨ix', List.mem_cons_of_mem _ hm', hd⟩
    · rw [if_neg hskip]
      have hnsk : ¬ (ext = true ∧ (st.dsl u0).isSome = true) := by simpa using hskip
      have hd1 := nameOne_dsl hs a ix0 u0
      have hs1 : (nameOne st s a ix0 u0).dsl s = some sd := by
        rw [hd1]; simp [upd, Ne.symm hu0, hs]
      obtain ⟨h1, h2⟩ := ih (nameOne st s a ix0 u0) hs1 hne'
      have hother : ∀ u, u ≠ u0 → (nameOne st s a ix0 u0).dsl u = st.dsl u := by
        intro u hu; rw [hd1]; simp [upd, hu]
      have hself : (nameOne st s a ix0 u0).dsl u0 = some (mkDsl sd s a ix0) := by
        rw [hd1]; simp [upd]
      refine ⟨h1, fun u => ⟨?_, ?_⟩⟩
      · rintro (hno | hex)
        · have hu : u ≠ u0 := fun h => hno ⟨ix0, h ▸ List.mem_cons_self⟩
          rw [(h2 u).1 (Or.inl fun ⟨ix, hm⟩ => hno ⟨ix, List.mem_cons_of_mem _ hm⟩), hother u hu]
        · have hu : u ≠ u0 := fun h => hnsk (h ▸ hex)
          rw [← hother u hu] at hex
          rw [(h2 u).1 (Or.inr hex), hother u hu]
      · rintro ⟨ix, hm⟩ hn
        by_cases hu : u = u0
        · subst hu
          by_cases hex : ∃ jx, (u, jx) ∈ r
          · by_cases he : ext = true
            · have : (nameWalk s a ext (nameOne st s a ix0 u) r).dsl u = (nameOne st s a ix0 u).dsl u :=
                (h2 u).1 (Or.inr ⟨he, by rw [hself]; rfl⟩)
              exact ⟨ix0, List.mem_cons_self, by rw [this, hself]⟩
            · obtain ⟨ix', hm', hd⟩ := (h2 u).2 hex (fun h => he h.1)
              exact ⟨ix', List.mem_cons_of_mem _ hm', hd⟩
          · have : (nameWalk s a ext (nameOne st s a ix0 u) r).dsl u = (nameOne st s a ix0 u).dsl u :=
              (h2 u).1 (Or.inl hex)
            exact ⟨ix0, List.mem_cons_self, by rw [this, hself]⟩
        · have hm' : (u, ix) ∈ r := by
            rcases List.mem_cons.1 hm with h | h
            · cases h; exact absurd rfl hu
            · exact h
          have hn' : ¬ (ext = true ∧ ((nameOne st s a ix0 u0).dsl u).isSome = true) := by
            rw [hother u hu]; exact hn
          obtain ⟨ix', hm'', hd⟩ := (h2 u).2 ⟨ix, hm'⟩ hn'
          exact ⟨ix', List.mem_cons_of_mem _ hm'', hd⟩

/-! ## evaluation depends on `getattr` results only -/

theorem hrun_append (st : HSt) (v : HVal) (a b : List Tok) :
    hrun st v (a ++ b) = (hrun st v a).bind (hrun st · b) := by
  induction a generalizing v with
  | nil => simp [hrun]
  | cons t r ih =>
    simp only [List.cons_append, hrun]
    cases hstep st v t with
    | none => simp
    | some w => simpa using ih w

theorem hrun_idx (st : HSt) (v : HVal) (ix : List Nat) : hrun st v (ix.map .idx) = hgetPath v ix := by
  induction ix generalizing v with
  | nil => simp [hrun, hgetPath]
  | cons i r ih =>
    cases v with
    | obj o => simp [hrun, hstep, hgetPath]
    | other => simp [hrun, hstep, hgetPath]
    | lst id xs =>
      simp only [List.map_cons, hrun, hstep, hgetPath]
      cases xs[i]? with
      | none => rfl
      | some w => exact ih w

/-- `st'` answers every `getattr` that succeeds in `st` the same way -/
def LookupLe (st st' : HSt) : Prop :=
  ∀ o b w, (st.attrs o).lookup b = some w → (st'.attrs o).lookup b = some w

theorem hrun_mono {st st' : HSt} (h : LookupLe st st') {v r : HVal} {toks : List Tok}
    (hr : hrun st v toks = some r) : hrun st' v toks = some r := by
  induction toks generalizing v with
  | nil => simpa [hrun] using hr
  | cons t ts ih =>
    simp only [hrun] at hr ⊢
    cases hs : hstep st v t with
    | none => simp [hs] at hr
    | some w =>
      simp only [hs] at hr
      have hs' : hstep st' v t = some w := by
        cases v with
        | obj o =>
          cases t with
          | attr b => exact h o b w (by simpa [hstep] using hs)
          | root => simp [hstep] at hs
          | idx i => simp [hstep] at hs
          | slice lo hi => simp [hstep] at hs
        | other => simp [hstep] at hs
        | lst id xs => cases t <;> simp_all [hstep]
      simp only [hs']
      exact ih hr

theorem hresolve_mono {st st' : HSt} (h : LookupLe st st') {root : Nat} {n : Name} {r : HVal}
    (hr : hresolve st root n = some r) : hresolve st' root n = some r := by
  cases n with
  | nil => simp [hresolve] at hr
  | cons t tl =>
    cases t with
    | root => simp only [hresolve] at hr ⊢; exact hrun_mono h hr
    | attr b => simp [hresolve] at hr
    | idx i => simp [hresolve] at hr
    | slice lo hi => simp [hresolve] at hr

theorem reach_mono {st st' : HSt} (h : LookupLe st st') {root : Nat} {w : HVal}
    (hr : HReach st root w) : HReach st' root w := by
  induction hr with
  | root => exact .root
  | attr _ hp hl ih => exact .attr ih hp (h _ _ _ hl)
  | elem _ hx ih => exact .elem ih hx

theorem lookupLe_setAttr_new {st : HSt} {s : Nat} {a : String} (v : HVal) (st0 : HSt)
    (ha : st0.attrs = st.attrs) (hnone : (st.attrs s).lookup a = none) : LookupLe st (setAttr st0 s a v) := by
  intro o b w hl
  simp only [setAttr, upd, ha]
  by_cases ho : o = s
  · subst ho
    simp only [if_true, List.lookup]
    have hb : (b == a) = false := by
      cases hba : b == a with
      | false => rfl
      | true => rw [eq_of_beq hba, hnone] at hl; cases hl
    simp [hb, hl]
  · simp [ho, hl]

theorem lookupLe_setAttr_same {st : HSt} {s : Nat} {a : String} {v : HVal} (st0 : HSt)
    (ha : st0.attrs = st.attrs) (hsame : (st.attrs s).lookup a = some v) :
    LookupLe st (setAttr st0 s a v) ∧ LookupLe (setAttr st0 s a v) st := by
  have key : ∀ o b, ((setAttr st0 s a v).attrs o).lookup b = (st.attrs o).lookup b := by
    intro o b
    simp only [setAttr, upd, ha]
    by_cases ho : o = s
    · subst ho
      simp only [if_true, List.lookup]
      cases hba : b == a with
      | false => rfl
      | true => rw [eq_of_beq hba, hsame]
    · simp [ho]
  exact ⟨fun o b w hl => by rw [key]; exact hl, fun o b w hl => by rw [← key]; exact hl⟩

theorem lookup_setAttr_self (st0 : HSt) (s : Nat) (a : String) (v : HVal) :
    ((setAttr st0 s a v).attrs s).lookup a = some v := by
  simp [setAttr, upd]

/-! ## in-place extension of a list -/

theorem lookup_map_mut (id : Nat) (f : List HVal → List HVal) (d : List (String × HVal)) (b : String) :
    (d.map fun p => (p.1, p.2.mut id f)).lookup b = (d.lookup b).map (HVal.mut id f) := by
  induction d with
  | nil => simp [List.lookup]
  | cons p r ih =>
    obtain ⟨k, w⟩ := p
    simp only [List.map_cons, List.lookup]
    cases b == k with
    | true => simp
    | false => simpa using ih

theorem mut_lst (id : Nat) (f : List HVal → List HVal) (i : Nat) (xs : List HVal) :
    (HVal.lst i xs).mut id f = .lst i (if i = id then f (xs.map (HVal.mut id f)) else xs.map (HVal.mut id f)) := by
  simp [HVal.mut, mutL_eq_map]

/-- evaluation commutes with appending to a list: an expression that evaluated to `r` evaluates to
the extended `r` -/
theorem hrun_mutate_append {st : HSt} (id : Nat) (extra : List HVal) {v r : HVal} {toks : List Tok}
    (hr : hrun st v toks = some r) :
    hrun (st.mutate id (· ++ extra)) (v.mut id (· ++ extra)) toks = some (r.mut id (· ++ extra)) := by
  induction toks generalizing v with
  | nil => simp only [hrun] at hr ⊢; cases hr; rfl
  | cons t ts ih =>
    simp only [hrun] at hr ⊢
    cases hs : hstep st v t with
    | none => simp [hs] at hr
    | some w =>
      simp only [hs] at hr
      have hs' : hstep (st.mutate id (· ++ extra)) (v.mut id (· ++ extra)) t = some (w.mut id (· ++ extra)) := by
        cases v with
        | obj o =>
          cases t with
          | attr b =>
            have : (st.attrs o).lookup b = some w := by simpa [hstep] using hs
            simp [hstep, HVal.mut, HSt.mutate, lookup_map_mut, this]
          | root => simp [hstep] at hs
          | idx i => simp [hstep] at hs
          | slice lo hi => simp [hstep] at hs
        | other => simp [hstep] at hs
        | lst i xs =>
          cases t with
          | idx k =>
            have hk : xs[k]? = some w := by simpa [hstep] using hs
            have hlt : k < xs.length := by
              rcases List.getElem?_eq_some_iff.1 hk with ⟨h, _⟩; exact h
            rw [mut_lst]
            by_cases hi : i = id
            · simp only [hi, if_true, hstep]
              rw [List.getElem?_append_left (by simpa using hlt)]
              simp [hk]
            · simp [hi, hstep, hk]
          | root => simp [hstep] at hs
          | attr b => simp [hstep] at hs
          | slice lo hi => simp [hstep] at hs
      simp only [hs']
      exact ih hr

theorem hresolve_mutate_append {st : HSt} (id : Nat) (extra : List HVal) {root : Nat} {n : Name} {o : Nat}
    (hr : hresolve st root n = some (.obj o)) : hresolve (st.mutate id (· ++ extra)) root n = some (.obj o) := by
  cases n with
  | nil => simp [hresolve] at hr
  | cons t tl =>
    cases t with
    | root =>
      simp only [hresolve] at hr ⊢
      have := hrun_mutate_append id extra hr
      simpa [HVal.mut] using this
    | attr b => simp [hresolve] at hr
    | idx i => simp [hresolve] at hr
    | slice lo hi => simp [hresolve] at hr

/-- a list method that removes no element keeps everything in the design -/
theorem reach_mutate_fwd {st : HSt} (id : Nat) (f : List HVal → List HVal) (hf : ∀ l x, x ∈ l → x ∈ f l)
    {root : Nat} {w : HVal} (hr : HReach st root w) : HReach (st.mutate id f) root (w.mut id f) := by
  induction hr with
  | root => exact .root
  | @attr o a v _ hp hl ih =>
    refine .attr (o := o) (a := a) (by simpa [HVal.mut] using ih) hp ?_
    simp [HSt.mutate, lookup_map_mut, hl]
  | @elem i xs x _ hx ih =>
    rw [mut_lst] at ih
    refine .elem ih ?_
    have : x.mut id f ∈ xs.map (HVal.mut id f) := List.mem_map_of_mem hx
    by_cases hi : i = id
    · simp only [hi, if_true]; exact hf _ _ this
    · simpa [hi] using this

/-- an object found in an extended value was in the value or is in the extension -/
theorem getPath_mut_append_obj (id : Nat) (extra : List HVal) {w : HVal} {ix : List Nat} {u : Nat}
    (h : hgetPath (w.mut id (· ++ extra)) ix = some (.obj u)) :
    (∃ jx, hgetPath w jx = some (.obj u)) ∨ (∃ e ∈ extra, ∃ jx, hgetPath e jx = some (.obj u)) := by
  induction ix generalizing w with
  | nil =>
    cases w with
    | obj o => simp [hgetPath, HVal.mut] at h; exact Or.inl ⟨[], by simp [hgetPath, h]⟩
    | other => simp [hgetPath, HVal.mut] at h
    | lst i xs => simp [hgetPath, mut_lst] at h
  | cons k r ih =>
    cases w with
    | obj o => simp [hgetPath, HVal.mut] at h
    | other => simp [hgetPath, HVal.mut] at h
    | lst i xs =>
      rw [mut_lst] at h
      simp only [hgetPath] at h
      have key : ∀ y, (xs.map (HVal.mut id (· ++ extra)))[k]? = some y → hgetPath y r = some (.obj u) →
          (∃ jx, hgetPath (.lst i xs) jx = some (.obj u)) ∨ (∃ e ∈ extra, ∃ jx, hgetPath e jx = some (.obj u)) := by
        intro y hy hp
        rw [List.getElem?_map] at hy
        cases hx : xs[k]? with
        | none => simp [hx] at hy
        | some x =>
          simp only [hx, Option.map_some, Option.some.injEq] at hy
          subst hy
          rcases ih hp with ⟨jx, hj⟩ | hr
          · exact Or.inl ⟨k :: jx, by simp [hgetPath, hx, hj]⟩
          · exact Or.inr hr
      by_cases hi : i = id
      · simp only [hi, if_true] at h
        cases hy : (xs.map (HVal.mut id (· ++ extra)) ++ extra)[k]? with
        | none => simp [hy] at h
        | some y =>
          simp only [hy] at h
          by_cases hlt : k < (xs.map (HVal.mut id (· ++ extra))).length
          · rw [List.getElem?_append_left hlt] at hy
            exact key y hy h
          · rw [List.getElem?_append_right (Nat.le_of_not_lt hlt)] at hy
            exact Or.inr ⟨y, List.mem_of_getElem? hy, r, h⟩
      · simp only [hi, if_false] at h
        cases hy : (xs.map (HVal.mut id (· ++ extra)))[k]? with
        | none => simp [hy] at h
        | some y => simp only [hy] at h; exact key y hy h

/-! ## the hook, case by case -/

theorem addField_attrs (st : HSt) (s : Nat) (a : String) : (addField st s a).attrs = st.attrs := by
  simp only [addField]; split <;> rfl

theorem addField_dsl (st : HSt) (s : Nat) (a : String) : (addField st s a).dsl = st.dsl := by
  simp only [addField]; split <;> rfl

/-- A successful hook call on a public name either does nothing (the field holds this very object
already), or walks a list of visited objects — exactly the objects at the index paths of the value —
and stores the value; `ext` (only elements without a name are named) iff the field exists already. -/
theorem assign_spec {st st' : HSt} {s : Nat} {a : String} {v : HVal} {sd : Dsl}
    (hp : isPublic a = true) (hsd : st.dsl s = some sd) (h : assign st s a v = .ok st') :
    (st' = st ∧ ∃ u, v = .obj u) ∨
    ∃ ext st0 occ, st0.attrs = st.attrs ∧ st0.dsl = st.dsl ∧
      st' = setAttr (nameWalk s a ext st0 occ) s a v ∧
      (∀ u ix, (u, ix) ∈ occ ↔ hgetPath v ix = some (.obj u)) ∧
      (occ = [] ∨ ext = (st.fields s).contains a) := by
  simp only [assign, hp, Bool.not_true, Bool.false_eq_true, if_false] at h
  by_cases hnw : v.takesHook = false
  · -- anything else
    simp only [hnw, Bool.not_false, if_true] at h
    cases h
    refine Or.inr ⟨false, st, [], rfl, rfl, rfl, fun u ix => ?_, Or.inl rfl⟩
    simp only [List.not_mem_nil, false_iff]
    exact no_obj_of_not_hw hnw
  · have hw : v.takesHook = true := by simpa using hnw
    simp only [hw, Bool.not_true, Bool.false_eq_true, if_false, hsd, Option.isNone_some] at h
    by_cases hf : (st.fields s).contains a = true
    · -- the field exists
      simp only [hf, if_true] at h
      cases hl : (st.attrs s).lookup a with
      | none => simp [hl] at h
      | some w =>
        simp only [hl] at h
        by_cases hsame : w.same v = true
        · simp only [hsame, if_true] at h
          by_cases hlst : v.isLst = true
          · simp only [hlst, if_true] at h
            cases h
            exact Or.inr ⟨true, st, visited v, rfl, rfl, rfl, fun u ix => mem_visited, Or.inr hf.symm⟩
          · simp only [hlst] at h
            cases h
            left
            refine ⟨rfl, ?_⟩
            cases v with
            | obj u => exact ⟨u, rfl⟩
            | other => simp [HVal.takesHook] at hw
            | lst id xs => simp [HVal.isLst] at hlst
        · simp [hsame] at h
    · simp only [hf] at h
      cases h
      exact Or.inr ⟨false, addField st s a, visited v, addField_attrs _ _ _, addField_dsl _ _ _, rfl,
        fun u ix => mem_visited, Or.inr (by simpa using hf)⟩

/-! ## construct code that goes through the hook -/

/-- what construct code may put into a value stored on `s`: an object of the design, or a new object
(never seen by the hook, no attributes yet); never `s` itself -/
def Placeable (st : HSt) (root s u : Nat) : Prop :=
  u ≠ s ∧ (HReach st root (.obj u) ∨ (st.dsl u = none ∧ st.attrs u = []))

/-- One statement of construct code that reaches the hook.
* `bind`: `s.a = v` for an attribute name `s` does not have yet (an existing hardware field raises
  `FieldReassignError` or is the no-op of assigning the same object), `v` an object, a (nested) list,
  an existing list of the design (`s.k = s.l`), anything else;
* `iadd`: `s.a += extra` (any number of times, nested lists in `extra`, `s.a` possibly shared with
  another attribute). -/
inductive HStep (root : Nat) : HSt → HSt → Prop where
  | bind {st st' : HSt} {s : Nat} {a : String} {v : HVal} :
      HReach st root (.obj s) → isPublic a = true → (st.attrs s).lookup a = none →
      (∀ u ix, hgetPath v ix = some (.obj u) → Placeable st root s u) →
      assign st s a v = .ok st' → HStep root st st'
  | iadd {st st' : HSt} {s : Nat} {a : String} {extra : List HVal} :
      HReach st root (.obj s) → isPublic a = true →
      (∀ e ∈ extra, ∀ u ix, hgetPath e ix = some (.obj u) → Placeable st root s u) →
      (∀ w u ix, (st.attrs s).lookup a = some w → hgetPath w ix = some (.obj u) → u ≠ s) →
      iadd st s a extra = .ok st' → HStep root st st'

inductive HSteps (root : Nat) : HSt → HSt → Prop where
  | refl (st : HSt) : HSteps root st st
  | tail {st st' st'' : HSt} : HSteps root st st' → HStep root st' st'' → HSteps root st st''

/-- **every object of the design has a name, and the name evaluates back to the object** -/
def HInv (st : HSt) (root : Nat) : Prop :=
  ∀ o, HReach st root (.obj o) → ∃ d, st.dsl o = some d ∧ hresolve st root d.full = some (.obj o)

theorem reach_getPath {st : HSt} {root : Nat} {v w : HVal} {ix : List Nat}
    (hv : HReach st root v) (h : hgetPath v ix = some w) : HReach st root w := by
  induction ix generalizing v with
  | nil => simp [hgetPath] at h; exact h ▸ hv
  | cons i r ih =>
    cases v with
    | obj o => simp [hgetPath] at h
    | other => simp [hgetPath] at h
    | lst id xs =>
      simp only [hgetPath] at h
      cases hi : xs[i]? with
      | none => simp [hi] at h
      | some x =>
        simp only [hi] at h
        exact ih (.elem hv (List.mem_of_getElem? hi)) h

theorem getPath_snoc_lst {v x : HVal} {ix : List Nat} {id : Nat} {xs : List HVal}
    (h : hgetPath v ix = some (.lst id xs)) (hx : x ∈ xs) : ∃ k, hgetPath v (ix ++ [k]) = some x := by
  obtain ⟨k, hk, hkx⟩ := List.getElem_of_mem hx
  refine ⟨k, ?_⟩
  rw [hgetPath_append, h]
  simp [hgetPath, List.getElem?_eq_getElem hk, hkx]

/-- after `s.a = v` on a new attribute name, everything in the design was there before or lies in `v` -/
theorem reach_bind_inv {st st0 : HSt} {root s : Nat} {a : String} {v : HVal}
    (ha : st0.attrs = st.attrs)
    (hpl : ∀ u ix, hgetPath v ix = some (.obj u) → Placeable st root s u)
    {w : HVal} (hr : HReach (setAttr st0 s a v) root w) :
    HReach st root w ∨ ∃ ix, hgetPath v ix = some w := by
  induction hr with
  | root => exact Or.inl .root
  | @attr o b w _ hp hl ih =>
    have old : HReach st root (.obj o) → HReach st root w ∨ ∃ ix, hgetPath v ix = some w := by
      intro ho
      simp only [setAttr, upd, ha] at hl
      by_cases hos : o = s
      · subst hos
        simp only [if_true, List.lookup] at hl
        cases hba : b == a with
        | true => simp only [hba] at hl; cases hl; exact Or.inr ⟨[], rfl⟩
        | false => simp only [hba] at hl; exact Or.inl (.attr ho hp hl)
      · simp only [hos, if_false] at hl
        exact Or.inl (.attr ho hp hl)
    rcases ih with ho | ⟨ix, hix⟩
    · exact old ho
    · obtain ⟨hne, hor⟩ := hpl o ix hix
      rcases hor with ho | ⟨_, hat⟩
      · exact old ho
      · simp only [setAttr, upd, ha, hne, if_false, hat, List.lookup] at hl
        cases hl
  | @elem id xs x _ hx ih =>
    rcases ih with ho | ⟨ix, hix⟩
    · exact Or.inl (.elem ho hx)
    · obtain ⟨k, hk⟩ := getPath_snoc_lst hix hx
      exact Or.inr ⟨_, hk⟩

/-- after the in-place extension of a list, everything in the design is the extended form of something
that was there before, or lies in the extension -/
theorem reach_mutate_inv {st : HSt} {root s : Nat} (id : Nat) (extra : List HVal)
    (hpl : ∀ e ∈ extra, ∀ u ix, hgetPath e ix = some (.obj u) → Placeable st root s u)
    {w : HVal} (hr : HReach (st.mutate id (· ++ extra)) root w) :
    (∃ w0, HReach st root w0 ∧ w = w0.mut id (· ++ extra)) ∨ ∃ e ∈ extra, ∃ ix, hgetPath e ix = some w := by
  induction hr with
  | root => exact Or.inl ⟨.obj root, .root, rfl⟩
  | @attr o b w _ hp hl ih =>
    have old : HReach st root (.obj o) →
        (∃ w0, HReach st root w0 ∧ w = w0.mut id (· ++ extra)) ∨ ∃ e ∈ extra, ∃ ix, hgetPath e ix = some w := by
      intro ho
      simp only [HSt.mutate, lookup_map_mut] at hl
      cases hl0 : (st.attrs o).lookup b with
      | none => simp [hl0] at hl
      | some w0 =>
        simp only [hl0, Option.map_some, Option.some.injEq] at hl
        exact Or.inl ⟨w0, .attr ho hp hl0, hl.symm⟩
    rcases ih with ⟨w0, hw0, he⟩ | ⟨e, hemem, ix, hix⟩
    · cases w0 with
      | obj o' => simp only [HVal.mut, HVal.obj.injEq] at he; subst he; exact old hw0
      | other => simp [HVal.mut] at he
      | lst i xs => simp [mut_lst] at he
    · obtain ⟨_, hor⟩ := hpl e hemem o ix hix
      rcases hor with ho | ⟨_, hat⟩
      · exact old ho
      · simp [HSt.mutate, hat] at hl
  | @elem i xs x _ hx ih =>
    rcases ih with ⟨w0, hw0, he⟩ | ⟨e, hemem, ix, hix⟩
    · cases w0 with
      | obj o' => simp [HVal.mut] at he
      | other => simp [HVal.mut] at he
      | lst j ys =>
        rw [mut_lst] at he
        simp only [HVal.lst.injEq] at he
        obtain ⟨rfl, hxs⟩ := he
        have inmap : x ∈ ys.map (HVal.mut id (· ++ extra)) →
            (∃ w0, HReach st root w0 ∧ x = w0.mut id (· ++ extra)) ∨ ∃ e ∈ extra, ∃ ix, hgetPath e ix = some x := by
          intro hm
          obtain ⟨y, hy, rfl⟩ := List.mem_map.1 hm
          exact Or.inl ⟨y, .elem hw0 hy, rfl⟩
        by_cases hi : i = id
        · simp only [hi, if_true] at hxs
          rw [hxs] at hx
          rcases List.mem_append.1 hx with hm | hm
          · exact inmap hm
          · exact Or.inr ⟨x, hm, [], rfl⟩
        · simp only [hi, if_false] at hxs
          rw [hxs] at hx
          exact inmap hx
    · obtain ⟨k, hk⟩ := getPath_snoc_lst hix hx
      exact Or.inr ⟨e, hemem, _, hk⟩

/-! ## what one statement does to the naming state -/

/-- the facts about one step from which the invariants follow -/
structure StepSummary (root : Nat) (st st' : HSt) : Prop where
  /-- names that evaluated to an object still evaluate to it -/
  resolves : ∀ n r, hresolve st root n = some (.obj r) → hresolve st' root n = some (.obj r)
  /-- nothing leaves the design -/
  keeps : ∀ o, HReach st root (.obj o) → HReach st' root (.obj o)
  /-- what is in the design now was there before, or was new and has a name now -/
  news : ∀ o, HReach st' root (.obj o) → HReach st root (.obj o) ∨ (st.dsl o = none ∧ (st'.dsl o).isSome = true)
  /-- the owner `s` of the statement is in the design with an unchanged record `sd`; every record is
  unchanged or is the record of a position `s.a[ix…]` which now evaluates to the object -/
  records : ∃ s sd a, st.dsl s = some sd ∧ st'.dsl s = some sd ∧ HReach st' root (.obj s) ∧
    ∀ o, st'.dsl o = st.dsl o ∨
      ∃ ix, st'.dsl o = some (mkDsl sd s a ix) ∧ hresolve st' root (sd.full ++ suffixOf a ix) = some (.obj o)

theorem full_root_cons {st : HSt} {root : Nat} {n : Name} {r : HVal} (h : hresolve st root n = some r) :
    ∃ tl, n = .root :: tl ∧ hrun st (.obj root) tl = some r := by
  cases n with
  | nil => simp [hresolve] at h
  | cons t tl =>
    cases t with
    | root => exact ⟨tl, rfl, by simpa [hresolve] using h⟩
    | attr b => simp [hresolve] at h
    | idx i => simp [hresolve] at h
    | slice lo hi => simp [hresolve] at h

/-- the name `s.a[ix…]` evaluates to the element once `v` is stored in `s.a` -/
theorem resolve_new_name {stB : HSt} {root s : Nat} {sd : Dsl} {a : String} {v : HVal} {ix : List Nat} {o : Nat}
    (hs : hresolve stB root sd.full = some (.obj s)) (hl : (stB.attrs s).lookup a = some v)
    (hp : hgetPath v ix = some (.obj o)) :
    hresolve stB root (sd.full ++ suffixOf a ix) = some (.obj o) := by
  obtain ⟨tl, hn, hrun1⟩ := full_root_cons hs
  rw [hn]
  simp only [List.cons_append, hresolve, hrun_append, hrun1, Option.bind_some, suffixOf, hrun, hstep, hl]
  rw [hrun_idx]; exact hp

/-- the common part of both kinds of statements: the hook runs in a state `stA` (the state before the
statement, or the state with the list already extended) and leaves `stB`. -/
theorem walk_summary {stA st0 : HSt} {root s : Nat} {sd : Dsl} {a : String} {v : HVal} {ext : Bool}
    {occ : List (Nat × List Nat)}
    (hd : st0.dsl = stA.dsl)
    (hsd : stA.dsl s = some sd) (hsres : hresolve stA root sd.full = some (.obj s))
    (hocc : ∀ u ix, (u, ix) ∈ occ ↔ hgetPath v ix = some (.obj u))
    (hne : ∀ u ix, hgetPath v ix = some (.obj u) → u ≠ s)
    (hle : LookupLe stA (setAttr (nameWalk s a ext st0 occ) s a v)) :
    let stB := setAttr (nameWalk s a ext st0 occ) s a v
    stB.dsl s = some sd ∧
    (∀ o, (stB.dsl o = stA.dsl o ∧ ((∃ ix, hgetPath v ix = some (.obj o)) → (stA.dsl o).isSome = true)) ∨
      ∃ ix, stB.dsl o = some (mkDsl sd s a ix) ∧ hresolve stB root (sd.full ++ suffixOf a ix) = some (.obj o)) := by
  intro stB
  have hs0 : st0.dsl s = some sd := by rw [hd]; exact hsd
  have hne' : ∀ p ∈ occ, p.1 ≠ s := fun p hp => hne p.1 p.2 ((hocc p.1 p.2).1 hp)
  obtain ⟨h1, h2⟩ := nameWalk_spec s a ext occ st0 hs0 hne'
  have hBdsl : stB.dsl = (nameWalk s a ext st0 occ).dsl := rfl
  refine ⟨by rw [hBdsl]; exact h1, fun o => ?_⟩
  by_cases hex : ∃ ix, (o, ix) ∈ occ
  · by_cases hsk : ext = true ∧ (st0.dsl o).isSome = true
    · left
      refine ⟨by rw [hBdsl, (h2 o).1 (Or.inr hsk), hd], fun _ => by rw [← hd]; exact hsk.2⟩
    · right
      obtain ⟨ix, hm, hdo⟩ := (h2 o).2 hex hsk
      refine ⟨ix, by rw [hBdsl]; exact hdo, ?_⟩
      exact resolve_new_name (hresolve_mono hle hsres) (lookup_setAttr_self _ s a v) ((hocc o ix).1 hm)
  · left
    refine ⟨by rw [hBdsl, (h2 o).1 (Or.inl hex), hd], fun ⟨ix, hix⟩ => absurd ⟨ix, (hocc o ix).2 hix⟩ hex⟩

theorem reach_lookup_congr {st st' : HSt} (h1 : LookupLe st st') (h2 : LookupLe st' st) {root : Nat} {w : HVal} :
    HReach st root w ↔ HReach st' root w := ⟨reach_mono h1, reach_mono h2⟩

theorem step_summary {root : Nat} {st st' : HSt} (hinv : HInv st root) (h : HStep root st st') :
    StepSummary root st st' := by
  cases h with
  | @bind s a v hs hp hnone hpl hok =>
    obtain ⟨sd, hsd, hsres⟩ := hinv s hs
    rcases assign_spec hp hsd hok with ⟨rfl, _⟩ | ⟨ext, st0, occ, ha, hd, rfl, hocc, _⟩
    · exact ⟨fun _ _ h => h, fun _ h => h, fun _ h => Or.inl h,
        ⟨s, sd, a, hsd, hsd, hs, fun _ => Or.inl rfl⟩⟩
    · have ha' : (nameWalk s a ext st0 occ).attrs = st.attrs := by rw [nameWalk_attrs, ha]
      have hle := lookupLe_setAttr_new v (nameWalk s a ext st0 occ) ha' hnone
      have hne : ∀ u ix, hgetPath v ix = some (.obj u) → u ≠ s := fun u ix h => (hpl u ix h).1
      obtain ⟨hB, hrec⟩ := walk_summary (root := root) hd hsd hsres hocc hne hle
      refine ⟨fun n r h => hresolve_mono hle h, fun o h => reach_mono hle h, fun o ho => ?_,
        ⟨s, sd, a, hsd, hB, reach_mono hle hs, fun o => ?_⟩⟩
      · rcases reach_bind_inv ha' hpl ho with h | ⟨ix, hix⟩
        · exact Or.inl h
        · rcases (hpl o ix hix).2 with h | ⟨hnone', _⟩
          · exact Or.inl h
          · right
            refine ⟨hnone', ?_⟩
            rcases hrec o with ⟨_, hsome⟩ | ⟨jx, hj, _⟩
            · have := hsome ⟨ix, hix⟩; rw [hnone'] at this; cases this
            · rw [hj]; rfl
      · rcases hrec o with ⟨h, _⟩ | h
        · exact Or.inl h
        · exact Or.inr h
  | @iadd s a extra hs hp hpl hself hok =>
    obtain ⟨sd, hsd, hsres⟩ := hinv s hs
    simp only [iadd] at hok
    split at hok
    · rename_i id xs hl
      have hl1 : ((st.mutate id (· ++ extra)).attrs s).lookup a = some ((HVal.lst id xs).mut id (· ++ extra)) := by
        simp [HSt.mutate, lookup_map_mut, hl]
      simp only [hl1] at hok
      generalize hv1 : (HVal.lst id xs).mut id (· ++ extra) = v1 at hl1 hok
      have hsd1 : (st.mutate id (· ++ extra)).dsl s = some sd := hsd
      have hsres1 := hresolve_mutate_append id extra hsres
      -- objects in the extended list
      have hobj : ∀ u ix, hgetPath v1 ix = some (.obj u) →
          u ≠ s ∧ (HReach st root (.obj u) ∨ (st.dsl u = none ∧ st.attrs u = [])) := by
        intro u ix hix
        rw [← hv1] at hix
        rcases getPath_mut_append_obj id extra hix with ⟨jx, hj⟩ | ⟨e, he, jx, hj⟩
        · exact ⟨hself _ u jx hl hj, Or.inl (reach_getPath (.attr hs hp hl) hj)⟩
        · exact hpl e he u jx hj
      rcases assign_spec hp hsd1 hok with ⟨_, u, hu⟩ | ⟨ext, st0, occ, ha, hd, rfl, hocc, _⟩
      · rw [← hv1, mut_lst] at hu; cases hu
      · have ha' : (nameWalk s a ext st0 occ).attrs = (st.mutate id (· ++ extra)).attrs := by rw [nameWalk_attrs, ha]
        obtain ⟨hle, hle'⟩ := lookupLe_setAttr_same (nameWalk s a ext st0 occ) ha' hl1
        obtain ⟨hB, hrec⟩ := walk_summary (root := root) hd hsd1 hsres1 hocc (fun u ix h => (hobj u ix h).1) hle
        have hkeep : ∀ o, HReach st root (.obj o) →
            HReach (setAttr (nameWalk s a ext st0 occ) s a v1) root (.obj o) := by
          intro o ho
          have := reach_mutate_fwd id (· ++ extra) (fun l x hx => List.mem_append_left _ hx) ho
          exact reach_mono hle (by simpa [HVal.mut] using this)
        refine ⟨fun n r h => hresolve_mono hle (hresolve_mutate_append id extra h), hkeep, fun o ho => ?_,
          ⟨s, sd, a, hsd, hB, hkeep s hs, fun o => ?_⟩⟩
        · have ho1 : HReach (st.mutate id (· ++ extra)) root (.obj o) := reach_mono hle' ho
          rcases reach_mutate_inv id extra hpl ho1 with ⟨w0, hw0, he⟩ | ⟨e, hemem, ix, hix⟩
          · cases w0 with
            | obj o' => simp only [HVal.mut, HVal.obj.injEq] at he; subst he; exact Or.inl hw0
            | other => simp [HVal.mut] at he
            | lst i ys => simp [mut_lst] at he
          · rcases (hpl e hemem o ix hix).2 with h | ⟨hnone', _⟩
            · exact Or.inl h
            · right
              refine ⟨hnone', ?_⟩
              -- the element sits in the extended list
              obtain ⟨k, hk, hke⟩ := List.getElem_of_mem hemem
              have hpath : hgetPath v1 ((xs.length + k) :: ix) = some (.obj o) := by
                rw [← hv1, mut_lst]
                simp only [if_true, hgetPath]
                rw [List.getElem?_append_right (by simp)]
                simp [List.getElem?_eq_getElem hk, hke, hix]
              rcases hrec o with ⟨_, hsome⟩ | ⟨jx, hj, _⟩
              · have := hsome ⟨_, hpath⟩
                have hn : (st.mutate id (· ++ extra)).dsl o = none := hnone'
                rw [hn] at this; cases this
              · rw [hj]; rfl
        · rcases hrec o with ⟨h, _⟩ | h
          · exact Or.inl h
          · exact Or.inr h
    · cases hok

/-! ## the invariants -/

theorem reach_init {root : Nat} {w : HVal} (h : HReach (HSt.init root) root w) : w = .obj root := by
  induction h with
  | root => rfl
  | attr _ _ hl => simp [HSt.init] at hl
  | elem _ _ ih => cases ih

theorem hinv_init (root : Nat) : HInv (HSt.init root) root := by
  intro o ho
  have := reach_init ho
  cases this
  exact ⟨⟨[.root], none, 0, "s", []⟩, by simp [HSt.init], by simp [hresolve, hrun]⟩

end PV.Hier
