import PymtlVerif.Proofs.SDeclRender
/-!
# Yosys backend: wire forms, flat port ↔ wire form connections, operand rendering (C12)
-/
namespace PV.SDecl
open PV.SV PV.Names

/-! ## wire forms: list dimensions first, then the dimensions of the packed-array fields on the way, in order -/

/-- `(f, t)` is a member of the struct -/
inductive FieldTy : Fields → String → PTy → Prop
  | here (f : String) (t : PTy) (rest : Fields) : FieldTy (.cons f t rest) f t
  | there (g : String) (u : PTy) (rest : Fields) (f : String) (t : PTy) : FieldTy rest f t → FieldTy (.cons g u rest) f t

/-- the packed-array dimensions met on the way from a data type down a path of field names, outermost first -/
inductive DimsAlong : PTy → List Seg → List Nat → Prop
  | vec (w : Nat) : DimsAlong (.vec w) [] []
  | top (n : String) (fs : Fields) : DimsAlong (.struct n fs) [] []
  | arr (n : Nat) (e : PTy) (p : List Seg) (ds : List Nat) : DimsAlong e p ds → DimsAlong (.arr n e) p (n :: ds)
  | fld (n : String) (fs : Fields) (f : String) (t : PTy) (p : List Seg) (ds : List Nat) :
      FieldTy fs f t → DimsAlong t p ds → DimsAlong (.struct n fs) (.name f :: p) ds

mutual
  theorem yWires_dims : ∀ (T : PTy) (nd : List Nat), ∀ w ∈ yWires T nd, ∃ ds, DimsAlong T w.path ds ∧ w.dims = nd ++ ds
    | .vec w, nd => by
      intro x hx
      simp only [yWires, List.mem_singleton] at hx
      subst hx
      exact ⟨[], .vec w, by simp⟩
    | .struct nm fs, nd => by
      intro x hx
      simp only [yWires, List.mem_append, List.mem_singleton] at hx
      rcases hx with hx | rfl
      · obtain ⟨f, t, p, ds, hft, hda, hp, hd⟩ := yWiresF_dims fs nd x hx
        exact ⟨ds, hp ▸ .fld nm fs f t p ds hft hda, hd⟩
      · exact ⟨[], .top nm fs, by simp⟩
    | .arr n e, nd => by
      intro x hx
      simp only [yWires] at hx
      obtain ⟨ds, hda, hd⟩ := yWires_dims e (nd ++ [n]) x hx
      exact ⟨n :: ds, .arr n e _ ds hda, by simp [hd]⟩
  theorem yWiresF_dims : ∀ (fs : Fields) (nd : List Nat), ∀ w ∈ yWiresF fs nd,
      ∃ f t p ds, FieldTy fs f t ∧ DimsAlong t p ds ∧ w.path = .name f :: p ∧ w.dims = nd ++ ds
    | .nil, nd => by intro x hx; simp [yWiresF] at hx
    | .cons g u rest, nd => by
      intro x hx
      simp only [yWiresF, List.mem_append, List.mem_map] at hx
      rcases hx with ⟨w, hw, rfl⟩ | hx
      · obtain ⟨ds, hda, hd⟩ := yWires_dims u nd w hw
        exact ⟨g, u, w.path, ds, .here g u rest, hda, rfl, hd⟩
      · obtain ⟨f, t, p, ds, hft, hda, hp, hd⟩ := yWiresF_dims rest nd x hx
        exact ⟨f, t, p, ds, .there g u rest f t hft, hda, hp, hd⟩
end

/-! ## flat port ↔ element of the wire form -/

def segNames : List Seg → List Seg
  | [] => []
  | .name n :: p => .name n :: segNames p
  | .idx _ :: p => segNames p

def segIdxs : List Seg → List Nat
  | [] => []
  | .name _ :: p => segIdxs p
  | .idx i :: p => i :: segIdxs p

/-- the flat port `pid` (names and indices interleaved) is paired with the element of the wire form called by the names alone,
selected by the indices in the same order -/
def ConnOk (c : YConn) : Prop := c.wid = segNames c.pid ∧ c.idx = (segIdxs c.pid).map Sel.idx

theorem segNames_append (a b : List Seg) : segNames (a ++ b) = segNames a ++ segNames b := by
  induction a with
  | nil => rfl
  | cons s a ih => cases s <;> simp [segNames, ih]

theorem segIdxs_append (a b : List Seg) : segIdxs (a ++ b) = segIdxs a ++ segIdxs b := by
  induction a with
  | nil => rfl
  | cons s a ih => cases s <;> simp [segIdxs, ih]

theorem segNames_idx (ix : List Nat) : segNames (ix.map Seg.idx) = [] := by
  induction ix with
  | nil => rfl
  | cons i ix ih => simp [segNames, ih]

theorem segIdxs_idx (ix : List Nat) : segIdxs (ix.map Seg.idx) = ix := by
  induction ix with
  | nil => rfl
  | cons i ix ih => simp [segIdxs, ih]

mutual
  theorem yConns_ok (d : Dir) : ∀ (T : PTy), ∀ c ∈ yConns d T, c.present = false → ConnOk c
    | .vec _ => by
      intro c hc _
      simp only [yConns, List.mem_singleton] at hc
      subst hc
      simp [ConnOk, segNames, segIdxs]
    | .struct nm fs => by
      intro c hc hp
      simp only [yConns, List.mem_append, List.mem_map] at hc
      rcases hc with hc | ⟨l, _, rfl⟩
      · exact yConnsF_ok d fs c hc hp
      · simp at hp
    | .arr n e => by
      intro c hc hp
      simp only [yConns, List.mem_flatMap, List.mem_range, List.mem_map] at hc
      obtain ⟨i, _, c', hc', rfl⟩ := hc
      obtain ⟨h1, h2⟩ := yConns_ok d e c' hc' (by simpa using hp)
      simp [ConnOk, segNames, segIdxs, h1, h2]
  theorem yConnsF_ok (d : Dir) : ∀ (fs : Fields), ∀ c ∈ yConnsF d fs, c.present = false → ConnOk c
    | .nil => by intro c hc; simp [yConnsF] at hc
    | .cons f t rest => by
      intro c hc hp
      simp only [yConnsF, List.mem_append, List.mem_map] at hc
      rcases hc with ⟨c', hc', rfl⟩ | hc
      · obtain ⟨h1, h2⟩ := yConns_ok d t c' hc' (by simpa using hp)
        simp [ConnOk, segNames, segIdxs, h1, h2]
      · exact yConnsF_ok d rest c hc hp
end

theorem yNestConns_ok (dims : List Nat) (cs : List YConn) (h : ∀ c ∈ cs, c.present = false → ConnOk c) :
    ∀ c ∈ yNestConns dims cs, c.present = false → ConnOk c := by
  induction dims with
  | nil => simpa [yNestConns] using h
  | cons d ds ih =>
    intro c hc hp
    simp only [yNestConns, List.mem_flatMap, List.mem_range, List.mem_map] at hc
    obtain ⟨i, _, c', hc', rfl⟩ := hc
    obtain ⟨h1, h2⟩ := ih c' hc' (by simpa using hp)
    simp [ConnOk, segNames, segIdxs, h1, h2]

/-- all (non-slice) connections of a record pair a flat port with the same element of its wire form -/
def RecOk (r : YRec) : Prop := ∀ c ∈ r.conns, c.present = false → ConnOk c

theorem yOfSig_ok (s : Sig) : RecOk (yOfSig s) := by
  intro c hc hp
  simp only [yOfSig, List.mem_map] at hc
  obtain ⟨c', hc', rfl⟩ := hc
  obtain ⟨h1, h2⟩ := yNestConns_ok s.dims _ (yConns_ok s.dir s.ty) c' hc' (by simpa using hp)
  simp [ConnOk, segNames, segIdxs, h1, h2]

theorem recOk_append (a b : YRec) (ha : RecOk a) (hb : RecOk b) : RecOk (a ++ b) := by
  intro c hc hp
  have : c ∈ a.conns ++ b.conns := hc
  rcases List.mem_append.mp this with h | h
  · exact ha c h hp
  · exact hb c h hp

theorem recOk_empty : RecOk YRec.empty := by intro c hc; simp [YRec.empty] at hc

theorem recOk_concat (rs : List YRec) (h : ∀ r ∈ rs, RecOk r) : RecOk (yConcat rs) := by
  induction rs with
  | nil => exact recOk_empty
  | cons r rs ih =>
    exact recOk_append _ _ (h r (by simp)) (ih fun r' hr' => h r' (List.mem_cons_of_mem _ hr'))

/-- an enclosing list of interfaces / sub-components (`ifc_conn_gen`, `_subcomp_conn_gen`): the indices of the enclosing list go
in front, in the identifier of the flat port and in the selection of the wire form alike -/
theorem yWrap_ok (name : String) (dims : List Nat) (r : YRec) (h : RecOk r) : RecOk (yWrap name dims false r) := by
  intro c hc hp
  simp only [yWrap, Bool.false_eq_true, if_false, List.mem_flatMap, List.mem_map] at hc
  obtain ⟨c', hc', ix, _, rfl⟩ := hc
  obtain ⟨h1, h2⟩ := h c' hc' (by simpa using hp)
  simp [ConnOk, segNames, segIdxs, segNames_append, segIdxs_append, segNames_idx, segIdxs_idx, h1, h2]

/-- a single interface nested in an interface (`_gen_ifc` with no dimensions) only prefixes its name -/
theorem yWrap_inline_nil_ok (name : String) (r : YRec) (h : RecOk r) : RecOk (yWrap name [] true r) := by
  intro c hc hp
  simp only [yWrap, if_true, allIdx, List.flatMap_cons, List.flatMap_nil, List.append_nil, List.mem_map] at hc
  obtain ⟨c', hc', rfl⟩ := hc
  obtain ⟨h1, h2⟩ := h c' hc' (by simpa using hp)
  simp [ConnOk, segNames, segIdxs, h1, h2]

/-- no LIST of interfaces inside an interface (that shape is known finding F25) -/
def NoNestedLists : Members → Prop
  | .nil => True
  | .port _ _ _ _ rest => NoNestedLists rest
  | .ifc _ dims sub rest => dims = [] ∧ NoNestedLists sub ∧ NoNestedLists rest

theorem yOfMembers_ok (ms : Members) (h : NoNestedLists ms) : RecOk (yOfMembers ms) := by
  induction ms with
  | nil => exact recOk_empty
  | port n dims dir ty rest ih => exact recOk_append _ _ (yOfSig_ok _) (ih h)
  | ifc n dims sub rest ihs ihr =>
    obtain ⟨hd, hs, hr⟩ := h
    subst hd
    exact recOk_append _ _ (yWrap_inline_nil_ok n _ (ihs hs)) (ihr hr)

theorem yOfIfc_ok (e : IfcE) (h : NoNestedLists e.ms) : RecOk (yOfIfc e) := yWrap_ok _ _ _ (yOfMembers_ok _ h)

theorem yOfSub_ok (k : Sub) (h : ∀ e ∈ k.ifcs, NoNestedLists e.ms) : RecOk (yOfSub k) := by
  apply yWrap_ok
  apply recOk_append
  · apply recOk_concat
    intro r hr
    obtain ⟨s, _, rfl⟩ := List.mem_map.mp hr
    exact yOfSig_ok s
  · apply recOk_concat
    intro r hr
    obtain ⟨e, he, rfl⟩ := List.mem_map.mp hr
    exact yOfIfc_ok e (h e he)

/-! ## operand rendering of the Yosys backend -/

def fldNames : List PStep → List String
  | [] => []
  | .fld f :: ss => f :: fldNames ss
  | _ :: ss => fldNames ss

def nonFldSels : List PStep → List Sel
  | [] => []
  | .fld _ :: ss => nonFldSels ss
  | s :: ss => s.sel :: nonFldSels ss

theorem yRend_foldl_idx (mk : SExp → Nat → SExp)
    (hmk : ∀ e i, yRendAux (mk e i) = ((yRendAux e).1, (yRendAux e).2 ++ [Sel.idx i])) (e : SExp) (ix : List Nat) :
    yRendAux (ix.foldl mk e) = ((yRendAux e).1, (yRendAux e).2 ++ ix.map Sel.idx) := by
  induction ix generalizing e with
  | nil => simp
  | cons i ix ih => simp [ih, hmk]

theorem yRend_goIfcs (e : SExp) (mk : SExp → String → SExp)
    (hmk : ∀ a, yRendAux (mk e a) = ((yRendAux e).1 ++ [a], (yRendAux e).2)) (ifcs : List (String × List Nat)) :
    yRendAux (goIfcs e mk ifcs).1 = ((yRendAux e).1 ++ ifcs.map (·.1), (yRendAux e).2 ++ (ifcs.flatMap (·.2)).map Sel.idx) ∧
    ∀ a, yRendAux ((goIfcs e mk ifcs).2 (goIfcs e mk ifcs).1 a)
      = ((yRendAux (goIfcs e mk ifcs).1).1 ++ [a], (yRendAux (goIfcs e mk ifcs).1).2) := by
  induction ifcs generalizing e mk with
  | nil => simpa [goIfcs] using hmk
  | cons l rest ih =>
    obtain ⟨n, ix⟩ := l
    have h := ih (ix.foldl SExp.ifcIdx (mk e n)) SExp.ifcAttr (by intro a; simp [yRendAux])
    refine ⟨?_, h.2⟩
    rw [goIfcs, h.1, yRend_foldl_idx SExp.ifcIdx (by intro e i; simp [yRendAux]), hmk]
    simp [List.append_assoc]

theorem yRend_packed (ss : List PStep) (e : SExp) :
    yRendAux (ss.foldl PStep.sexp e) = ((yRendAux e).1 ++ fldNames ss, (yRendAux e).2 ++ nonFldSels ss) := by
  induction ss generalizing e with
  | nil => simp [fldNames, nonFldSels]
  | cons s ss ih =>
    cases s <;> simp [ih, PStep.sexp, yRendAux, fldNames, nonFldSels, PStep.sel, List.append_assoc]

/-- **Yosys operand of an object path**: all names (struct fields included) joined by `__`, then all indices in order -/
theorem yRender_opath (p : OPath) :
    yRender p.sexp = ⟨p.names ++ fldNames p.packed, p.allIdx.map Sel.idx ++ nonFldSels p.packed⟩ := by
  unfold yRender OPath.sexp
  simp only []
  rw [yRend_packed]
  have hhead : yRendAux p.head.1 = ((match p.comp with | some c => [c.1] | none => []), (match p.comp with | some c => c.2.map Sel.idx | none => [])) := by
    unfold OPath.head
    cases p.comp with
    | none => simp [yRendAux]
    | some c =>
      obtain ⟨n, ix⟩ := c
      simp only []
      rw [yRend_foldl_idx SExp.compIdx (by intro e i; simp [yRendAux])]
      simp [yRendAux]
  -- the first attribute after the head behaves like an append in both cases (for `cur` the base is empty)
  have hmk : ∀ a, yRendAux (p.head.2 p.head.1 a) = ((yRendAux p.head.1).1 ++ [a], (yRendAux p.head.1).2) := by
    intro a
    unfold OPath.head
    cases p.comp with
    | none => simp [yRendAux]
    | some c => simp [yRendAux]
  have hg := yRend_goIfcs p.head.1 p.head.2 hmk p.ifcs
  have key : yRendAux ((goIfcs p.head.1 p.head.2 p.ifcs).2 (goIfcs p.head.1 p.head.2 p.ifcs).1 p.sigName)
      = ((yRendAux p.head.1).1 ++ p.ifcs.map (·.1) ++ [p.sigName], (yRendAux p.head.1).2 ++ (p.ifcs.flatMap (·.2)).map Sel.idx) := by
    rw [hg.2, hg.1]
  have hsig : ∀ e, yRendAux (p.sigIdx.foldl (if p.isWire then SExp.wireIdx else SExp.portIdx) e)
      = ((yRendAux e).1, (yRendAux e).2 ++ p.sigIdx.map Sel.idx) := by
    intro e
    cases p.isWire
    · exact yRend_foldl_idx SExp.portIdx (by intro e i; simp [yRendAux]) e _
    · exact yRend_foldl_idx SExp.wireIdx (by intro e i; simp [yRendAux]) e _
  rw [hsig, key, hhead, levels_names, levels_allIdx]
  cases p.comp <;> simp [List.append_assoc]

end PV.SDecl
