import PymtlVerif.Model.SConn
import PymtlVerif.Proofs.NetsWalk
/-!
# The traversal of `gen_connections` yields a spanning tree of the writer's net (core Lean only)

`traverse H nb w` is `PV.Nets.walk` started at the writer; `Proofs/NetsWalk.lean` already has soundness, completeness and
"no node is reached twice". Added here:

* `TreeOrd V L` — the edges come in an order in which every source has been seen before (it is in `V` or the target of an
  earlier edge) and every target is new: `walk_treeOrd`;
* consequences: targets without repetition, no edge in both directions, everything reached through tree edges alone
  (`TreeOrd.reach`);
* `traverse_*`: the same for `traverse` with the fuel of the model (`Hier.fuel`), `traverse_fuel`: more fuel changes nothing;
* `tree_closed`: in a connect graph without cycle every connection between reached signals is a tree edge, one way round;
  `traverse_order_indep`: then the set of (oriented) edges does not depend on the order in which the adjacency sets are iterated.
-/
namespace PV.SConn
open PV.Nets

/-- `nb` enumerates every adjacency set of the connect graph, without repetition -/
def ValidOrder (H : Hier) (nb : Sig → List Sig) : Prop :=
  ∀ u, (nb u).Nodup ∧ ∀ v, v ∈ nb u ↔ Step H.edges u v

theorem nbrs_valid (H : Hier) : ValidOrder H H.nbrs := by
  intro u
  refine ⟨nodup_dedup _, fun v => ?_⟩
  unfold Hier.nbrs
  rw [mem_dedup, mem_adj]

theorem ValidOrder.hadj {H : Hier} {nb : Sig → List Sig} (h : ValidOrder H nb) :
    ∀ u v, v ∈ nb u ↔ Step H.edges u v := fun u => (h u).2

theorem ValidOrder.hnd {H : Hier} {nb : Sig → List Sig} (h : ValidOrder H nb) : ∀ u, (nb u).Nodup := fun u => (h u).1

/-! ### edges in discovery order -/

/-- every source is in `V` or the target of an earlier edge, every target is new -/
def TreeOrd : List Nat → List Pair → Prop
  | _, [] => True
  | V, p :: L => p.1 ∈ V ∧ p.2 ∉ V ∧ TreeOrd (p.2 :: V) L

theorem TreeOrd.congr {V V' : List Nat} (h : ∀ x, x ∈ V ↔ x ∈ V') : ∀ {L : List Pair}, TreeOrd V L → TreeOrd V' L := by
  intro L
  induction L generalizing V V' with
  | nil => intro _; trivial
  | cons p L ih =>
    intro ⟨h1, h2, h3⟩
    refine ⟨(h _).mp h1, fun hc => h2 ((h _).mpr hc), ih ?_ h3⟩
    intro x
    simp only [List.mem_cons, h x]

theorem treeOrd_append {V : List Nat} {A B : List Pair} (hA : TreeOrd V A) (hB : TreeOrd (A.map (·.2) ++ V) B) :
    TreeOrd V (A ++ B) := by
  induction A generalizing V with
  | nil => simpa using hB
  | cons p A ih =>
    obtain ⟨h1, h2, h3⟩ := hA
    refine ⟨h1, h2, ih h3 (TreeOrd.congr ?_ hB)⟩
    intro x
    simp only [List.map_cons, List.cons_append, List.mem_cons, List.mem_append]
    constructor
    · rintro (h | h | h)
      · exact Or.inr (Or.inl h)
      · exact Or.inl h
      · exact Or.inr (Or.inr h)
    · rintro (h | h | h)
      · exact Or.inr (Or.inl h)
      · exact Or.inl h
      · exact Or.inr (Or.inr h)

theorem treeOrd_star (u : Nat) : ∀ (new V : List Nat), new.Nodup → u ∈ V → (∀ x ∈ new, x ∉ V) →
    TreeOrd V (new.map (fun v => (u, v))) := by
  intro new
  induction new with
  | nil => intro _ _ _ _; trivial
  | cons v new ih =>
    intro V hnd hu hnew
    have hnd' := List.nodup_cons.mp hnd
    refine ⟨hu, hnew v (List.mem_cons_self ..), ih (v :: V) hnd'.2 (List.mem_cons_of_mem _ hu) ?_⟩
    intro x hx hc
    rcases List.mem_cons.mp hc with hc | hc
    · subst hc; exact hnd'.1 hx
    · exact hnew x (List.mem_cons_of_mem _ hx) hc

theorem walk_treeOrd {nb : Nat → List Nat} (hnd : ∀ u, (nb u).Nodup) :
    ∀ (f : Nat) (St V : List Nat), (∀ x ∈ St, x ∈ V) → TreeOrd V (walk nb f St V) := by
  intro f
  induction f with
  | zero => intro St V _; simp [walk, TreeOrd]
  | succ f ih =>
    intro St V hSt
    cases St with
    | nil => simp [walk, TreeOrd]
    | cons u St0 =>
      simp only [walk]
      apply treeOrd_append
      · apply treeOrd_star u _ V ((hnd u).filter _) (hSt u (List.mem_cons_self ..))
        intro x hx
        simpa using (List.mem_filter.mp hx).2
      · have e : (((nb u).filter (fun v => decide (v ∉ V))).map (fun v => (u, v))).map (·.2)
            = (nb u).filter (fun v => decide (v ∉ V)) := by
          simp [List.map_map, Function.comp_def]
        rw [e]
        apply ih
        intro x hx
        rcases List.mem_append.mp hx with hx | hx
        · exact List.mem_append_left _ (List.mem_reverse.mp hx)
        · exact List.mem_append_right _ (hSt x (List.mem_cons_of_mem _ hx))

theorem TreeOrd.snd_not_mem {V : List Nat} {L : List Pair} (h : TreeOrd V L) : ∀ p ∈ L, p.2 ∉ V := by
  induction L generalizing V with
  | nil => intro p hp; simp at hp
  | cons q L ih =>
    obtain ⟨_, h2, h3⟩ := h
    intro p hp
    rcases List.mem_cons.mp hp with hp | hp
    · subst hp; exact h2
    · exact fun hc => ih h3 p hp (List.mem_cons_of_mem _ hc)

theorem TreeOrd.snd_nodup {V : List Nat} {L : List Pair} (h : TreeOrd V L) : (L.map (·.2)).Nodup := by
  induction L generalizing V with
  | nil => simp
  | cons q L ih =>
    obtain ⟨_, _, h3⟩ := h
    simp only [List.map_cons, List.nodup_cons]
    refine ⟨?_, ih h3⟩
    intro hc
    obtain ⟨p, hp, hpq⟩ := List.mem_map.mp hc
    exact TreeOrd.snd_not_mem h3 p hp (by rw [hpq]; exact List.mem_cons_self ..)

theorem TreeOrd.nodup {V : List Nat} {L : List Pair} (h : TreeOrd V L) : L.Nodup := by
  have := h.snd_nodup
  exact (List.pairwise_map.mp this).imp (fun hne heq => hne (by rw [heq]))

/-- the source of an edge is in `V` or the target of an edge *before* it; its target is neither -/
theorem TreeOrd.split {V : List Nat} {pre post : List Pair} {p : Pair} (h : TreeOrd V (pre ++ p :: post)) :
    (p.1 ∈ V ∨ p.1 ∈ pre.map (·.2)) ∧ p.2 ∉ V ∧ p.2 ∉ pre.map (·.2) := by
  induction pre generalizing V with
  | nil => exact ⟨Or.inl h.1, h.2.1, by simp⟩
  | cons q pre ih =>
    obtain ⟨_, _, h3⟩ := h
    obtain ⟨a, b, c⟩ := ih h3
    refine ⟨?_, fun hc => b (List.mem_cons_of_mem _ hc), ?_⟩
    · rcases a with a | a
      · rcases List.mem_cons.mp a with a | a
        · exact Or.inr (by rw [a]; simp)
        · exact Or.inl a
      · exact Or.inr (by simp only [List.map_cons, List.mem_cons]; exact Or.inr a)
    · simp only [List.map_cons, List.mem_cons, not_or]
      exact ⟨fun hc => b (by rw [hc]; exact List.mem_cons_self ..), c⟩

theorem TreeOrd.src_ne_tgt {V : List Nat} {L : List Pair} (h : TreeOrd V L) : ∀ p ∈ L, p.1 ≠ p.2 := by
  induction L generalizing V with
  | nil => intro p hp; simp at hp
  | cons q L ih =>
    obtain ⟨h1, h2, h3⟩ := h
    intro p hp
    rcases List.mem_cons.mp hp with hp | hp
    · subst hp; intro hc; rw [hc] at h1; exact h2 h1
    · exact ih h3 p hp

/-- no connection is walked in both directions -/
theorem TreeOrd.no_swap {V : List Nat} {L : List Pair} (h : TreeOrd V L) : ∀ p ∈ L, (p.2, p.1) ∉ L := by
  induction L generalizing V with
  | nil => intro p hp; simp at hp
  | cons q L ih =>
    obtain ⟨h1, h2, h3⟩ := h
    intro p hp hs
    rcases List.mem_cons.mp hp with hp | hp <;> rcases List.mem_cons.mp hs with hs | hs
    · have e1 : p.2 = q.1 := congrArg Prod.fst hs
      rw [hp] at e1
      rw [e1] at h2; exact h2 h1
    · have := TreeOrd.snd_not_mem h3 _ hs
      apply this
      show p.1 ∈ q.2 :: V
      rw [hp]; exact List.mem_cons_of_mem _ h1
    · have e1 : p.2 = q.1 := congrArg Prod.fst hs
      have := TreeOrd.snd_not_mem h3 p hp
      apply this
      rw [e1]; exact List.mem_cons_of_mem _ h1
    · exact ih h3 p hp hs

/-- everything reached is connected to `w` through the walked edges alone -/
theorem TreeOrd.reach {E : List Edge} {w : Nat} {V : List Nat} {L : List Pair} (h : TreeOrd V L)
    (hstep : ∀ p ∈ L, Step E p.1 p.2) (hV : ∀ x ∈ V, Reach E w x) : ∀ p ∈ L, Reach E w p.1 ∧ Reach E w p.2 := by
  induction L generalizing V with
  | nil => intro p hp; simp at hp
  | cons q L ih =>
    obtain ⟨h1, _, h3⟩ := h
    have hq1 : Reach E w q.1 := hV _ h1
    have hq2 : Reach E w q.2 := Reach.step hq1 (hstep q (List.mem_cons_self ..))
    intro p hp
    rcases List.mem_cons.mp hp with hp | hp
    · subst hp; exact ⟨hq1, hq2⟩
    · apply ih h3 (fun p hp => hstep p (List.mem_cons_of_mem _ hp)) _ p hp
      intro x hx
      rcases List.mem_cons.mp hx with hx | hx
      · subst hx; exact hq2
      · exact hV x hx

/-! ### `traverse` -/

section
variable {H : Hier} {nb : Sig → List Sig}

theorem traverse_treeOrd (hv : ValidOrder H nb) (w : Sig) : TreeOrd [w] (traverse H nb w) :=
  walk_treeOrd hv.hnd _ _ _ (fun _ hx => hx)

/-- every filed pair is a connection -/
theorem traverse_step (hv : ValidOrder H nb) (w : Sig) : ∀ p ∈ traverse H nb w, Step H.edges p.1 p.2 := by
  intro p hp
  exact (walk_sound hv.hadj w _ [w] [w] (fun _ hx => hx)
    (by intro x hx; simp only [List.mem_singleton] at hx; subst hx; exact Reach.refl _) p hp).1

/-- both ends of a filed pair belong to the writer's net -/
theorem traverse_reach (hv : ValidOrder H nb) (w : Sig) :
    ∀ p ∈ traverse H nb w, Reach H.edges w p.1 ∧ Reach H.edges w p.2 :=
  (traverse_treeOrd hv w).reach (traverse_step hv w)
    (by intro x hx; simp only [List.mem_singleton] at hx; subst hx; exact Reach.refl _)

theorem closed_cons_nodesOf (E : List Edge) (w : Nat) : ∀ x ∈ w :: nodesOf E, ∀ y, Step E x y → y ∈ w :: nodesOf E := by
  intro x _ y hs
  exact List.mem_cons_of_mem _ ((mem_nodesOf E y).mpr ⟨x, hs.symm⟩)

/-- the fuel suffices: every member of the writer's net other than the writer is the target of a filed pair -/
theorem traverse_complete (hv : ValidOrder H nb) (w y : Sig) (hr : Reach H.edges w y) (hne : y ≠ w) :
    ∃ u, (u, y) ∈ traverse H nb w :=
  walk_complete hv.hadj hv.hnd (w :: nodesOf H.edges) w (List.mem_cons_self ..) (closed_cons_nodesOf _ w) y hr hne

theorem traverse_snd_nodup (hv : ValidOrder H nb) (w : Sig) : ((traverse H nb w).map (·.2)).Nodup :=
  (traverse_treeOrd hv w).snd_nodup

theorem traverse_writer_not_target (hv : ValidOrder H nb) (w : Sig) : ∀ p ∈ traverse H nb w, p.2 ≠ w := by
  intro p hp hc
  exact (traverse_treeOrd hv w).snd_not_mem p hp (by rw [hc]; exact List.mem_singleton.mpr rfl)

/-- exactly one filed pair drives a member other than the writer -/
theorem traverse_count (hv : ValidOrder H nb) (w y : Sig) (hr : Reach H.edges w y) (hne : y ≠ w) :
    ((traverse H nb w).map (·.2)).count y = 1 := by
  rw [(traverse_snd_nodup hv w).count]
  obtain ⟨u, hu⟩ := traverse_complete hv w y hr hne
  have : y ∈ (traverse H nb w).map (·.2) := List.mem_map.mpr ⟨(u, y), hu, rfl⟩
  simp [this]

/-- the set of signals seen by the traversal is the writer's net -/
theorem traverse_visits (hv : ValidOrder H nb) (w y : Sig) :
    (y = w ∨ y ∈ (traverse H nb w).map (·.2)) ↔ Reach H.edges w y := by
  constructor
  · rintro (h | h)
    · subst h; exact Reach.refl _
    · obtain ⟨p, hp, rfl⟩ := List.mem_map.mp h
      exact (traverse_reach hv w p hp).2
  · intro hr
    by_cases hne : y = w
    · exact Or.inl hne
    · obtain ⟨u, hu⟩ := traverse_complete hv w y hr hne
      exact Or.inr (List.mem_map.mpr ⟨(u, y), hu, rfl⟩)

end

/-! ### the fuel is irrelevant once it suffices -/

theorem walk_fuel {S : List Edge} {nb : Nat → List Nat} (hadj : ∀ u v, v ∈ nb u ↔ Step S u v) (hnd : ∀ u, (nb u).Nodup)
    (N : List Nat) (hN : ∀ x ∈ N, ∀ y, Step S x y → y ∈ N) :
    ∀ (f f' : Nat) (St V : List Nat), (∀ x ∈ V, x ∈ N) → (∀ x ∈ St, x ∈ V) → St.length + unseen N V < f → f ≤ f' →
      walk nb f St V = walk nb f' St V := by
  intro f
  induction f with
  | zero => intro f' St V _ _ h; omega
  | succ f ih =>
    intro f' St V hVN hSt hfuel hle
    cases f' with
    | zero => omega
    | succ f' =>
      cases St with
      | nil => simp [walk]
      | cons u St0 =>
        have hu : u ∈ V := hSt u (List.mem_cons_self ..)
        have hnewN : ∀ v ∈ (nb u).filter (fun v => decide (v ∉ V)), v ∈ N ∧ v ∉ V := by
          intro v hv
          have := List.mem_filter.mp hv
          exact ⟨hN u (hVN u hu) v ((hadj u v).mp this.1), by simpa using this.2⟩
        have hle' := unseen_append_le N V _ ((hnd u).filter _) hnewN
        simp only [walk]
        congr 1
        apply ih
        · intro z hz
          rcases List.mem_append.mp hz with hz | hz
          · exact (hnewN z hz).1
          · exact hVN z hz
        · intro z hz
          rcases List.mem_append.mp hz with hz | hz
          · exact List.mem_append_left _ (List.mem_reverse.mp hz)
          · exact List.mem_append_right _ (hSt z (List.mem_cons_of_mem _ hz))
        · simp only [List.length_append, List.length_reverse, List.length_cons] at hfuel ⊢; omega
        · omega

theorem unseen_singleton_lt (N : List Nat) (w : Nat) (hw : w ∈ N) : unseen N [w] < N.length := by
  have h := filter_length_lt (l := N) (p := fun _ => true) (q := fun x => decide (x ∉ [w]))
    (fun _ _ => rfl) hw rfl (by simp)
  have e : (N.filter (fun _ => true)).length = N.length := by simp
  unfold unseen
  omega

/-- more fuel than `Hier.fuel` files the same pairs in the same order: the fuel is not what ends the traversal -/
theorem traverse_fuel {H : Hier} {nb : Sig → List Sig} (hv : ValidOrder H nb) (w : Sig) (f : Nat) (hf : H.fuel ≤ f) :
    walk nb f [w] [w] = traverse H nb w := by
  symm
  apply walk_fuel hv.hadj hv.hnd (w :: nodesOf H.edges) (closed_cons_nodesOf _ w) H.fuel f [w] [w]
  · intro x hx; simp only [List.mem_singleton] at hx; subst hx; exact List.mem_cons_self ..
  · exact fun _ hx => hx
  · have := unseen_singleton_lt (w :: nodesOf H.edges) w (List.mem_cons_self ..)
    have hfu : H.fuel = (nodesOf H.edges).length + 2 := rfl
    simp only [List.length_cons, List.length_nil] at this ⊢
    omega
  · exact hf

/-! ### a connect graph without cycle -/

theorem step_erase_of_ne {E : List Edge} {e : Edge} {x y : Nat} (hs : Step E x y) (h1 : (x, y) ≠ e) (h2 : (y, x) ≠ e) :
    Step (E.erase e) x y := by
  rcases hs with hs | hs
  · exact Or.inl ((List.mem_erase_of_ne h1).mpr hs)
  · exact Or.inr ((List.mem_erase_of_ne h2).mpr hs)

/-- in a connect graph without cycle, every connection that touches the writer's net is walked, one way round -/
theorem tree_closed {H : Hier} {nb : Sig → List Sig} (hv : ValidOrder H nb) (hac : ¬ HasCycle H.edges) (w : Sig)
    (e : Edge) (he : e ∈ H.edges) (hr : Reach H.edges w e.1) :
    e ∈ traverse H nb w ∨ (e.2, e.1) ∈ traverse H nb w := by
  by_cases h1 : e ∈ traverse H nb w
  · exact Or.inl h1
  by_cases h2 : (e.2, e.1) ∈ traverse H nb w
  · exact Or.inr h2
  exfalso
  apply hac
  refine ⟨e, he, ?_⟩
  -- every walked edge survives the removal of `e`
  have hstep : ∀ p ∈ traverse H nb w, Step (H.edges.erase e) p.1 p.2 := by
    intro p hp
    apply step_erase_of_ne (traverse_step hv w p hp)
    · intro hc; apply h1; rw [← hc]; exact hp
    · intro hc; apply h2
      have : (e.2, e.1) = p := by rw [← hc]
      rw [this]; exact hp
  have hall := (traverse_treeOrd hv w).reach hstep
    (by intro x hx; simp only [List.mem_singleton] at hx; subst hx; exact Reach.refl _)
  have hvis : ∀ y, Reach H.edges w y → Reach (H.edges.erase e) w y := by
    intro y hy
    rcases (traverse_visits hv w y).mpr hy with h | h
    · subst h; exact Reach.refl _
    · obtain ⟨p, hp, rfl⟩ := List.mem_map.mp h
      exact (hall p hp).2
  have hr2 : Reach H.edges w e.2 := Reach.step hr (Or.inl he)
  exact reach_trans (reach_symm (hvis _ hr)) (hvis _ hr2)

/-- without cycle the orientation is forced: a connection is never walked one way under one iteration order and the
other way under another -/
theorem no_swap_across {H : Hier} {nb nb' : Sig → List Sig} (hv : ValidOrder H nb) (hv' : ValidOrder H nb')
    (hac : ¬ HasCycle H.edges) (w : Sig) (p : Pair) (hp : p ∈ traverse H nb w) : (p.2, p.1) ∉ traverse H nb' w := by
  intro hq
  have o1 := (walk_oriented hv.hadj w _ p hp).2.2
  have o2 := (walk_oriented hv'.hadj w _ (p.2, p.1) hq).2.2
  have hs := traverse_step hv w p hp
  apply hac
  rcases hs with hs | hs
  · refine ⟨p, hs, ?_⟩
    exact reach_trans (reach_symm (o1 p (Or.inl rfl))) (o2 p (Or.inr rfl))
  · refine ⟨(p.2, p.1), hs, ?_⟩
    exact reach_trans (reach_symm (o2 (p.2, p.1) (Or.inl rfl))) (o1 (p.2, p.1) (Or.inr rfl))

/-- when the connect graph of the net is a tree, the filed pairs — with their orientation — do not depend on the order in
which the adjacency sets are iterated -/
theorem traverse_order_indep {H : Hier} {nb nb' : Sig → List Sig} (hv : ValidOrder H nb) (hv' : ValidOrder H nb')
    (hac : ¬ HasCycle H.edges) (w : Sig) (p : Pair) : p ∈ traverse H nb w ↔ p ∈ traverse H nb' w := by
  suffices h : ∀ {nb nb' : Sig → List Sig}, ValidOrder H nb → ValidOrder H nb' → p ∈ traverse H nb w → p ∈ traverse H nb' w from
    ⟨h hv hv', h hv' hv⟩
  intro nb nb' hv hv' hp
  have hs := traverse_step hv w p hp
  have hr := traverse_reach hv w p hp
  rcases hs with hs | hs
  · rcases tree_closed hv' hac w p hs hr.1 with h | h
    · exact h
    · exact absurd h (no_swap_across hv hv' hac w p hp)
  · rcases tree_closed hv' hac w (p.2, p.1) hs hr.2 with h | h
    · exact absurd h (no_swap_across hv hv' hac w p hp)
    · exact h

end PV.SConn
