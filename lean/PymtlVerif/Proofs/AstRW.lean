import PymtlVerif.Model.AstRW
/-!
# Semantics of the update-block AST and lemmas for `Props/C02a.lean`

## What an execution of a block dereferences

A block runs on the component `s`.  An access chain `s.x[ e ].y[ a : b ]` that starts at a name dereferences one concrete
object path per execution: the fields as written, every index with the value its expression has at run time
(`CStep`).  `acc ρ n e`: SOME execution of the AST node `n` performs the access `e` (read or assign the path, call it) —
* every child of a compound node may be executed, any number of times, in any order (any branch outcome of `If` /
  `IfExp` / `BoolOp`, any loop count of `For` / `While`, with or without the `else` clause, cut short anywhere);
* an index expression has an arbitrary run-time value, unless it is a literal (its value) or a name that is constant
  during the execution (`ρ x = some v`: a closure or module-level name the function does not rebind);
* a chain that does not start at a name (`f( s.a ).y`, `concat( s.a, s.b )[0:4]`) is no object path: executing it
  executes its parts;
* the target of an assignment statement (`=`, `@=`, `<<=`, a `for` target) is assigned, not read.

Contents: the access semantics `acc` and the matching of names against paths; unfolding lemmas for `chain` / `visit`;
`chain_matches` (the name `_get_full_name` returns matches every path the chain can denote); completeness of the visit
(`visit_complete`, `body_complete`; induction on the size of the node); deciding `Matches`; which children are visited;
independence of the representation of `self.closure` / `self.globals`; soundness (`visit_sound`, `body_sound`); executions
as traces (`Exec`, `exec_acc`); from matched paths to covered objects (`look_covers`, `lookName_covers`).
-/
namespace PV.AstRW

/-- a run-time selector: `[k]`, `[a:b]` (a bound that is not given is `none`) -/
inductive RSel where
  | idx (k : Int)
  | slc (a b : Option Int)
deriving DecidableEq, Repr

inductive CStep where
  | fld (a : String)
  | sel (c : RSel)
deriving DecidableEq, Repr

/-- one access of an execution: the path read (`rd`), assigned (`wr`) or called (`fc`) -/
structure Access where
  kind : K
  path : List CStep
deriving DecidableEq, Repr

/-- the names that are constant during the execution, with their (integer) value -/
abbrev REnv := String → Option Int

def idxVal (ρ : REnv) : Node → Int → Prop
  | .num n, k => k = n
  | .name x _, k => ∀ v, ρ x = some v → k = v
  | _, _ => True

def bndVal (ρ : REnv) : Node → Option Int → Prop
  | .nil, b => b = none
  | .num n, b => b = some n
  | .name x _, b => ∀ v, ρ x = some v → b = some v
  | _, _ => True

/-- the concrete paths the chain `n` (which starts at a name) can denote -/
def cpath (ρ : REnv) : Node → List CStep → Prop
  | .name x _, p => p = [.fld x]
  | .attr v a _, p => ∃ q, cpath ρ v q ∧ p = q ++ [.fld a]
  | .sub v (.slice lo up _) _, p => ∃ q a b, cpath ρ v q ∧ bndVal ρ lo a ∧ bndVal ρ up b ∧ p = q ++ [.sel (.slc a b)]
  | .sub v i _, p => ∃ q k, cpath ρ v q ∧ idxVal ρ i k ∧ p = q ++ [.sel (.idx k)]
  | _, _ => False

def accKind : Ctx → K
  | .load => .rd
  | .store => .wr
  | .del => .wr

mutual
/-- some execution of `n` performs the access `e` -/
def acc (ρ : REnv) : Node → Access → Prop
  | .nil, _ => False
  | .name .., _ => False
  | .num _, _ => False
  | .str, _ => False
  | .attr v a c, e =>
    if rooted v then (∃ p, cpath ρ (.attr v a c) p ∧ e = ⟨accKind c, p⟩) ∨ accIdx ρ v e else acc ρ v e
  | .sub v i c, e =>
    (if rooted v then (∃ p, cpath ρ (.sub v i c) p ∧ e = ⟨accKind c, p⟩) ∨ accIdx ρ v e else acc ρ v e) ∨ acc ρ i e
  | .slice lo up st, e => acc ρ lo e ∨ acc ρ up e ∨ acc ρ st e
  | .call f args kws, e =>
    (if rooted f then (∃ p, cpath ρ f p ∧ e = ⟨.fc, p⟩) ∨ accIdx ρ f e else acc ρ f e) ∨ accList ρ args e ∨ accList ρ kws e
  | .assign ts v, e => accList ρ ts e ∨ acc ρ v e
  | .aug t _ v, e => acc ρ t e ∨ acc ρ v e
  | .for_ t it body orelse, e => acc ρ t e ∨ acc ρ it e ∨ accList ρ body e ∨ accList ρ orelse e
  | .node _ cs, e => accList ρ cs e
/-- the accesses of the index expressions of a chain that starts at a name -/
def accIdx (ρ : REnv) : Node → Access → Prop
  | .attr v _ _, e => accIdx ρ v e
  | .sub v i _, e => accIdx ρ v e ∨ acc ρ i e
  | _, _ => False
def accList (ρ : REnv) : List Node → Access → Prop
  | [], _ => False
  | n :: ns, e => acc ρ n e ∨ accList ρ ns e
end

/-! ## When a recorded name covers a concrete path -/

def boundMatch (σ : Valuation) : Bound → Option Int → Prop
  | .num n, b => b = some n
  | .var c x, b => ∃ v, σ c x = some v ∧ b = some v

/-- `"*"` stands for every index; a literal for itself; `(is_closure, name)` for the value `extract_obj_from_names` finds -/
def selMatch (σ : Valuation) : Idx → RSel → Prop
  | .star, _ => True
  | .num n, .idx k => k = n
  | .var c x, .idx k => σ c x = some k
  | .slice lo up, .slc a b => boundMatch σ lo a ∧ boundMatch σ up b
  | _, _ => False

def stepMatch (σ : Valuation) : NStep → CStep → Prop
  | .fld a, .fld b => a = b
  | .sel i, .sel c => selMatch σ i c
  | _, _ => False

/-- the name, step by step, matches the path -/
inductive Matches (σ : Valuation) : ObjName → List CStep → Prop where
  | nil : Matches σ [] []
  | cons {a : NStep} {b : CStep} {as : ObjName} {bs : List CStep} :
      stepMatch σ a b → Matches σ as bs → Matches σ (a :: as) (b :: bs)

/-- the recorded name denotes the accessed object or one it is part of (`s.x` covers `s.x[2:4]`) -/
def Covers (σ : Valuation) (nm : ObjName) (p : List CStep) : Prop := ∃ pre rest, p = pre ++ rest ∧ Matches σ nm pre

/-- every name the visitor resolves statically is constant during the execution and has the value the lookup will use -/
def Agree (env : Env) (σ : Valuation) (ρ : REnv) : Prop :=
  ∀ x, (x ∈ env.closure → ∃ v, ρ x = some v ∧ σ true x = some v) ∧
       (x ∉ env.closure → x ∈ env.globals → ∃ v, ρ x = some v ∧ σ false x = some v)

theorem Matches.append {σ : Valuation} {a b : ObjName} {p q : List CStep} (h1 : Matches σ a p) (h2 : Matches σ b q) :
    Matches σ (a ++ b) (p ++ q) := by
  induction h1 with
  | nil => simpa using h2
  | cons h _ ih => exact Matches.cons h ih

theorem Matches.covers {σ : Valuation} {nm : ObjName} {p : List CStep} (h : Matches σ nm p) : Covers σ nm p :=
  ⟨p, [], by simp, h⟩

theorem Matches.covers_append {σ : Valuation} {nm : ObjName} {p : List CStep} (h : Matches σ nm p) (r : List CStep) :
    Covers σ nm (p ++ r) := ⟨p, r, rfl, h⟩

/-! ## Unfolding lemmas -/

theorem bind_ok {ε α β : Type} {x : Except ε α} {f : α → Except ε β} {b : β} :
    (x >>= f) = .ok b ↔ ∃ a, x = .ok a ∧ f a = .ok b := by
  cases x <;> simp [bind, Except.bind]

@[simp] theorem pure_ok {ε α : Type} (a b : α) : ((pure a : Except ε α) = .ok b) ↔ a = b := by
  simp [pure, Except.pure]

@[simp] theorem throw_ok {ε α : Type} (e : ε) (b : α) : ((throw e : Except ε α) = .ok b) ↔ False := by
  simp [throw, throwThe, MonadExceptOf.throw]

def isSlice : Node → Bool
  | .slice .. => true
  | _ => false

/-- the visits `_get_full_name` makes for one index expression, and the marker -/
def idxEv (env : Env) (op : Op) (i : Node) : Except Err (List Ev × Idx) :=
  idxStep env i (fun _ => visit env op i)

theorem chain_sub_eq (env : Env) (op : Op) (strip : Bool) (v i : Node) (c : Ctx) (hi : isSlice i = false) :
    chain env op strip (.sub v i c) = (do
      let (e1, idx) ← idxEv env op i
      let (e2, r, _) ← chain env op false v
      pure (e1 ++ e2, r.map (· ++ [.sel idx]), [])) := by
  cases i <;> simp [isSlice] at hi <;> simp [chain, idxEv]

theorem visit_sub_eq (env : Env) (op : Op) (v i : Node) (c : Ctx) (hi : isSlice i = false) :
    visit env op (.sub v i c) = (do
      let (e1, idx) ← idxEv env op i
      let (e2, r, _) ← chain env op false v
      match r with
      | none => do
        let g ← visit env op v
        let g' ← visit env op i
        pure (e1 ++ e2 ++ g ++ g')
      | some nm => do
        let p ← record c op (nm ++ [.sel idx])
        let e' ← visit env op i
        pure (e1 ++ e2 ++ p ++ e')) := by
  cases i <;> simp [isSlice] at hi <;> simp only [visit, idxEv] <;> rfl


/-! ## The name `_get_full_name` returns -/

/-- with `strip = false` no slice is collected -/
theorem chain_false_sl {env : Env} {op : Op} : ∀ (v : Node) {e : List Ev} {r : Option ObjName} {sl : List Idx},
    chain env op false v = .ok (e, r, sl) → sl = []
  | .sub v i c, e, r, sl, h => by
    cases hi : isSlice i
    · rw [chain_sub_eq _ _ _ _ _ _ hi] at h
      simp only [bind_ok] at h
      obtain ⟨⟨e1, idx⟩, _, ⟨e2, r2, s2⟩, _, h⟩ := h
      simp at h; exact h.2.2
    · cases i <;> simp [isSlice] at hi
      simp [chain] at h
  | .attr v a c, e, r, sl, h => by
    simp only [chain, bind_ok] at h
    obtain ⟨⟨e2, r2, s2⟩, _, h⟩ := h
    simp at h; exact h.2.2
  | .name x c, e, r, sl, h => by simp [chain] at h; exact h.2.2
  | .call .., e, r, sl, h => by simp [chain] at h; exact h.2.2
  | .str, e, r, sl, h => by simp [chain] at h; exact h.2.2
  | .nil, e, r, sl, h => by simp [chain] at h
  | .num _, e, r, sl, h => by simp [chain] at h
  | .slice .., e, r, sl, h => by simp [chain] at h
  | .assign .., e, r, sl, h => by simp [chain] at h
  | .aug .., e, r, sl, h => by simp [chain] at h
  | .for_ .., e, r, sl, h => by simp [chain] at h
  | .node .., e, r, sl, h => by simp [chain] at h

/-- a chain that does not start at a name has no name (`return None, None`) -/
theorem chain_not_rooted {env : Env} {op : Op} : ∀ (v : Node) {strip : Bool} {e : List Ev} {r : Option ObjName} {sl : List Idx},
    rooted v = false → chain env op strip v = .ok (e, r, sl) → r = none
  | .sub v i c, strip, e, r, sl, hr, h => by
    cases hi : isSlice i
    · rw [chain_sub_eq _ _ _ _ _ _ hi] at h
      simp only [bind_ok] at h
      obtain ⟨⟨e1, idx⟩, _, ⟨e2, r2, s2⟩, h2, h⟩ := h
      have := chain_not_rooted v (by simpa [rooted] using hr) h2
      subst this; simp at h; exact h.2.1.symm
    · cases i <;> simp [isSlice] at hi
      cases strip
      · simp [chain] at h
      · rw [chain.eq_1] at h
        simp only [↓reduceIte, bind_ok] at h
        obtain ⟨⟨e2, r2, s2⟩, h2, h⟩ := h
        have := chain_not_rooted v (by simpa [rooted] using hr) h2
        subst this; simp at h; exact h.2.1.symm
  | .attr v a c, strip, e, r, sl, hr, h => by
    simp only [chain, bind_ok] at h
    obtain ⟨⟨e2, r2, s2⟩, h2, h⟩ := h
    have := chain_not_rooted v (by simpa [rooted] using hr) h2
    subst this; simp at h; exact h.2.1.symm
  | .name x c, _, e, r, sl, hr, h => by simp [rooted] at hr
  | .call .., _, e, r, sl, hr, h => by simp [chain] at h; exact h.2.1.symm
  | .str, _, e, r, sl, hr, h => by simp [chain] at h; exact h.2.1.symm
  | .nil, _, e, r, sl, hr, h => by simp [chain] at h
  | .num _, _, e, r, sl, hr, h => by simp [chain] at h
  | .slice .., _, e, r, sl, hr, h => by simp [chain] at h
  | .assign .., _, e, r, sl, hr, h => by simp [chain] at h
  | .aug .., _, e, r, sl, hr, h => by simp [chain] at h
  | .for_ .., _, e, r, sl, hr, h => by simp [chain] at h
  | .node .., _, e, r, sl, hr, h => by simp [chain] at h


theorem chain_strip_irrel {env : Env} {op : Op} (v : Node) (h : isSliceSub v = false) :
    chain env op true v = chain env op false v := by
  cases v with
  | sub v i c =>
    cases hi : isSlice i
    · rw [chain_sub_eq _ _ _ _ _ _ hi, chain_sub_eq _ _ _ _ _ _ hi]
    · cases i <;> simp [isSlice] at hi
      simp [isSliceSub] at h
  | _ => simp [chain]

theorem cpath_sub {ρ : REnv} {v i : Node} {c : Ctx} {p : List CStep} (hi : isSlice i = false) :
    cpath ρ (.sub v i c) p ↔ ∃ q k, cpath ρ v q ∧ idxVal ρ i k ∧ p = q ++ [.sel (.idx k)] := by
  cases i <;> simp [isSlice] at hi <;> simp [cpath]

theorem idxEv_marker {env : Env} {σ : Valuation} {ρ : REnv} (hA : Agree env σ ρ) {op : Op} {i : Node} {e1 : List Ev} {idx : Idx}
    (h : idxEv env op i = .ok (e1, idx)) {k : Int} (hk : idxVal ρ i k) : selMatch σ idx (.idx k) := by
  cases i with
  | num n => simp [idxEv, idxStep] at h; obtain ⟨_, rfl⟩ := h; simpa [selMatch, idxVal] using hk
  | name x c =>
    simp only [idxEv, idxStep, pure_ok, Prod.mk.injEq] at h
    obtain ⟨_, rfl⟩ := h
    simp only [idxVal] at hk
    unfold nameIdx
    split
    · rename_i hc
      obtain ⟨v, h1, h2⟩ := (hA x).1 hc
      simp [selMatch, hk v h1, h2]
    · rename_i hc
      split
      · rename_i hg
        obtain ⟨v, h1, h2⟩ := (hA x).2 hc hg
        simp [selMatch, hk v h1, h2]
      · simp [selMatch]
  | _ =>
    simp only [idxEv, idxStep, bind_ok] at h
    obtain ⟨_, _, h⟩ := h
    simp at h; obtain ⟨_, rfl⟩ := h; simp [selMatch]

/-- the name returned for a chain matches, step by step, every concrete path the chain can denote -/
theorem chain_matches {env : Env} {σ : Valuation} {ρ : REnv} (hA : Agree env σ ρ) {op : Op} :
    ∀ (v : Node) {e : List Ev} {nm : ObjName} {sl : List Idx},
      chain env op false v = .ok (e, some nm, sl) → ∀ p, cpath ρ v p → Matches σ nm p
  | .sub v i c, e, nm, sl, h, p, hp => by
    cases hi : isSlice i
    · rw [chain_sub_eq _ _ _ _ _ _ hi] at h
      simp only [bind_ok] at h
      obtain ⟨⟨e1, idx⟩, h1, ⟨e2, r2, s2⟩, h2, h⟩ := h
      simp at h
      obtain ⟨_, hr, _⟩ := h
      cases r2 with
      | none => simp at hr
      | some nm2 =>
        simp at hr; subst hr
        obtain ⟨q, k, hq, hk, rfl⟩ := (cpath_sub hi).1 hp
        exact (chain_matches hA v h2 q hq).append (.cons (idxEv_marker hA h1 hk) .nil)
    · cases i <;> simp [isSlice] at hi
      simp [chain] at h
  | .attr v a c, e, nm, sl, h, p, hp => by
    simp only [chain, bind_ok] at h
    obtain ⟨⟨e2, r2, s2⟩, h2, h⟩ := h
    simp at h
    obtain ⟨_, hr, _⟩ := h
    cases r2 with
    | none => simp at hr
    | some nm2 =>
      simp at hr; subst hr
      obtain ⟨q, hq, rfl⟩ := hp
      exact (chain_matches hA v h2 q hq).append (.cons (by simp [stepMatch]) .nil)
  | .name x c, e, nm, sl, h, p, hp => by
    simp [chain] at h; simp [cpath] at hp; subst hp; rw [← h.2.1]
    exact .cons (by simp [stepMatch]) .nil
  | .call .., e, nm, sl, h, p, hp => by simp [cpath] at hp
  | .str, e, nm, sl, h, p, hp => by simp [cpath] at hp
  | .nil, e, nm, sl, h, p, hp => by simp [cpath] at hp
  | .num _, e, nm, sl, h, p, hp => by simp [cpath] at hp
  | .slice .., e, nm, sl, h, p, hp => by simp [cpath] at hp
  | .assign .., e, nm, sl, h, p, hp => by simp [cpath] at hp
  | .aug .., e, nm, sl, h, p, hp => by simp [cpath] at hp
  | .for_ .., e, nm, sl, h, p, hp => by simp [cpath] at hp
  | .node .., e, nm, sl, h, p, hp => by simp [cpath] at hp


/-- a chain that starts at a name has a name -/
theorem chain_rooted {env : Env} {op : Op} : ∀ (v : Node) {strip : Bool} {e : List Ev} {r : Option ObjName} {sl : List Idx},
    rooted v = true → chain env op strip v = .ok (e, r, sl) → ∃ nm, r = some nm
  | .sub v i c, strip, e, r, sl, hr, h => by
    cases hi : isSlice i
    · rw [chain_sub_eq _ _ _ _ _ _ hi] at h
      simp only [bind_ok] at h
      obtain ⟨⟨e1, idx⟩, _, ⟨e2, r2, s2⟩, h2, h⟩ := h
      obtain ⟨nm, rfl⟩ := chain_rooted v (by simpa [rooted] using hr) h2
      simp at h; exact ⟨_, h.2.1.symm⟩
    · cases i <;> simp [isSlice] at hi
      cases strip
      · simp [chain] at h
      · rw [chain.eq_1] at h
        simp only [↓reduceIte, bind_ok] at h
        obtain ⟨⟨e2, r2, s2⟩, h2, h⟩ := h
        obtain ⟨nm, rfl⟩ := chain_rooted v (by simpa [rooted] using hr) h2
        simp at h; exact ⟨_, h.2.1.symm⟩
  | .attr v a c, strip, e, r, sl, hr, h => by
    simp only [chain, bind_ok] at h
    obtain ⟨⟨e2, r2, s2⟩, h2, h⟩ := h
    obtain ⟨nm, rfl⟩ := chain_rooted v (by simpa [rooted] using hr) h2
    simp at h; exact ⟨_, h.2.1.symm⟩
  | .name x c, _, e, r, sl, hr, h => by simp [chain] at h; exact ⟨_, h.2.1.symm⟩
  | .call .., _, e, r, sl, hr, h => by simp [rooted] at hr
  | .str, _, e, r, sl, hr, h => by simp [rooted] at hr
  | .nil, _, e, r, sl, hr, h => by simp [rooted] at hr
  | .num _, _, e, r, sl, hr, h => by simp [rooted] at hr
  | .slice .., _, e, r, sl, hr, h => by simp [rooted] at hr
  | .assign .., _, e, r, sl, hr, h => by simp [rooted] at hr
  | .aug .., _, e, r, sl, hr, h => by simp [rooted] at hr
  | .for_ .., _, e, r, sl, hr, h => by simp [rooted] at hr
  | .node .., _, e, r, sl, hr, h => by simp [rooted] at hr

/-- the condition of `supChain` on one index expression -/
def supIdx (i : Node) : Bool := !isSlice i && supported i

theorem supChain_sub (v i : Node) (c : Ctx) :
    supChain (.sub v i c) = (supIdx i && supChain v) := by
  cases i <;> simp [supChain, supIdx, isSlice]

theorem supIdx_not_slice {i : Node} (h : supIdx i = true) : isSlice i = false := by
  simp only [supIdx, Bool.and_eq_true, Bool.not_eq_true'] at h; exact h.1

theorem supChain_not_sliceSub {v : Node} (h : supChain v = true) : isSliceSub v = false := by
  cases v with
  | sub v i c => cases i <;> simp [supChain] at h <;> simp [isSliceSub]
  | _ => simp [isSliceSub]

theorem supported_sub (v i : Node) (c : Ctx) (hi : isSlice i = false) :
    supported (.sub v i c) = ((if rooted v then supChain v else supported v) && supported i) := by
  cases i <;> simp [isSlice] at hi <;> simp [supported]


/-! ## Completeness of the visit -/

mutual
def nsize : Node → Nat
  | .nil => 1
  | .name .. => 1
  | .num _ => 1
  | .str => 1
  | .attr v _ _ => nsize v + 1
  | .sub v i _ => nsize v + nsize i + 1
  | .slice a b c => nsize a + nsize b + nsize c + 1
  | .call f args kws => nsize f + nsizeList args + nsizeList kws + 1
  | .assign ts v => nsizeList ts + nsize v + 1
  | .aug t _ v => nsize t + nsize v + 1
  | .for_ t it b o => nsize t + nsize it + nsizeList b + nsizeList o + 1
  | .node _ cs => nsizeList cs + 1
def nsizeList : List Node → Nat
  | [] => 0
  | n :: ns => nsize n + nsizeList ns + 1
end

/-- the access is matched, step by step, by a record of the same kind -/
def Recorded (σ : Valuation) (evs : List Ev) (e : Access) : Prop :=
  ∃ r, r ∈ evs ∧ r.kind = e.kind ∧ Matches σ r.name e.path

theorem Recorded.mono {σ : Valuation} {a b : List Ev} {e : Access} (h : Recorded σ a e) (hs : ∀ x, x ∈ a → x ∈ b) :
    Recorded σ b e := by
  obtain ⟨r, hr, h1, h2⟩ := h
  exact ⟨r, hs r hr, h1, h2⟩

section
variable {env : Env} {σ : Valuation} {ρ : REnv}

def PVisit (env : Env) (σ : Valuation) (ρ : REnv) (n : Node) : Prop :=
  ∀ (op : Op) (evs : List Ev), supported n = true → visit env op n = .ok evs →
    ∀ e, acc ρ n e → Recorded σ evs e
def PChain (env : Env) (σ : Valuation) (ρ : REnv) (v : Node) : Prop :=
  ∀ (op : Op) (ev : List Ev) (r : Option ObjName) (sl : List Idx), supChain v = true →
    chain env op false v = .ok (ev, r, sl) → ∀ e, accIdx ρ v e → Recorded σ ev e
def PList (env : Env) (σ : Valuation) (ρ : REnv) (ns : List Node) : Prop :=
  ∀ (op : Op) (evs : List Ev), supportedList ns = true → visitList env op ns = .ok evs →
    ∀ e, accList ρ ns e → Recorded σ evs e

theorem idxEv_complete {i : Node} (hPi : PVisit env σ ρ i)
    {op : Op} {e1 : List Ev} {idx : Idx} (hs : supIdx i = true) (h : idxEv env op i = .ok (e1, idx))
    {e : Access} (ha : acc ρ i e) : Recorded σ e1 e := by
  have hsup : supported i = true := by
    simp only [supIdx, Bool.and_eq_true] at hs; exact hs.2
  cases i with
  | name => simp [acc] at ha
  | num => simp [acc] at ha
  | _ =>
    simp only [idxEv, idxStep, bind_ok] at h
    obtain ⟨evs, hv, h⟩ := h
    simp at h; obtain ⟨rfl, _⟩ := h
    exact hPi op _ hsup hv e ha

end

section
variable {env : Env} {σ : Valuation} {ρ : REnv}

theorem bound_match (hA : Agree env σ ρ) {lo : Node} {b : Bound} (h : bound? env lo = some b) {a : Option Int}
    (ha : bndVal ρ lo a) : boundMatch σ b a := by
  cases lo with
  | num n => simp [bound?] at h; subst h; simpa [boundMatch, bndVal] using ha
  | name x c =>
    simp only [bound?] at h
    simp only [bndVal] at ha
    split at h
    · rename_i hc
      obtain ⟨v, h1, h2⟩ := (hA x).1 hc
      simp at h; subst h
      exact ⟨v, h2, ha v h1⟩
    · rename_i hc
      split at h
      · rename_i hg
        obtain ⟨v, h1, h2⟩ := (hA x).2 hc hg
        simp at h; subst h
        exact ⟨v, h2, ha v h1⟩
      · simp at h
  | _ => simp [bound?] at h

theorem record_ok {c : Ctx} {op : Op} {nm : ObjName} {p : List Ev} (h : record c op nm = .ok p) :
    p = [⟨accKind c, nm, op⟩] := by
  cases c <;> simp [record] at h <;> simp [accKind, ← h]

/-- the case `Attribute` of `PVisit` -/
theorem pvisit_attr (hA : Agree env σ ρ) {v : Node} (a : String) (c : Ctx) (hv : PVisit env σ ρ v) (hc : PChain env σ ρ v) :
    PVisit env σ ρ (.attr v a c) := by
  intro op evs hs h e ha
  simp only [visit, bind_ok] at h
  obtain ⟨⟨e1, r, sl⟩, h1, h⟩ := h
  simp only [supported] at hs
  simp only [acc] at ha
  cases hr : rooted v
  · simp only [hr] at hs ha
    have := chain_not_rooted v hr h1; subst this
    simp only [bind_ok] at h
    obtain ⟨g, hg, h⟩ := h
    simp at h; subst h
    exact (hv op g (by simpa using hs) hg e ha).mono (by intro x hx; simp [hx])
  · simp only [hr, if_true] at hs ha
    obtain ⟨nm, rfl⟩ := chain_rooted v hr h1
    simp only [bind_ok] at h
    obtain ⟨p, hp, h⟩ := h
    simp at h; subst h
    have hp := record_ok hp; subst hp
    rcases ha with ⟨p, hp, rfl⟩ | ha
    · obtain ⟨q, hq, rfl⟩ := hp
      refine ⟨⟨accKind c, nm ++ [.fld a], op⟩, by simp, rfl, ?_⟩
      exact (chain_matches hA v h1 q hq).append (.cons (by simp [stepMatch]) .nil)
    · exact (hc op e1 _ sl hs h1 e ha).mono (by intro x hx; simp [hx])


/-- the case `Subscript` with an index that is not a slice -/
theorem pvisit_sub (hA : Agree env σ ρ) {v i : Node} (c : Ctx) (hi : isSlice i = false)
    (hv : PVisit env σ ρ v) (hc : PChain env σ ρ v) (hPi : PVisit env σ ρ i) :
    PVisit env σ ρ (.sub v i c) := by
  intro op evs hs h e ha
  rw [visit_sub_eq _ _ _ _ _ hi] at h
  simp only [bind_ok] at h
  obtain ⟨⟨e1, idx⟩, h1, ⟨e2, r, sl⟩, h2, h⟩ := h
  rw [supported_sub _ _ _ hi] at hs
  simp only [Bool.and_eq_true] at hs
  obtain ⟨hsv, hsi⟩ := hs
  simp only [acc] at ha
  cases hr : rooted v
  · simp only [hr] at hsv ha
    have := chain_not_rooted v hr h2; subst this
    simp only [bind_ok] at h
    obtain ⟨g, hg, g', hg', h⟩ := h
    simp at h; subst h
    rcases ha with ha | ha
    · exact (hv op g (by simpa using hsv) hg e ha).mono (by intro x hx; simp [hx])
    · exact (hPi op g' hsi hg' e ha).mono (by intro x hx; simp [hx])
  · simp only [hr, if_true] at hsv ha
    obtain ⟨nm, rfl⟩ := chain_rooted v hr h2
    simp only [bind_ok] at h
    obtain ⟨p, hp, e', he', h⟩ := h
    simp at h; subst h
    have hp := record_ok hp; subst hp
    rcases ha with (⟨p, hp, rfl⟩ | ha) | ha
    · obtain ⟨q, k, hq, hk, rfl⟩ := (cpath_sub hi).1 hp
      refine ⟨⟨accKind c, nm ++ [.sel idx], op⟩, by simp, rfl, ?_⟩
      exact (chain_matches hA v h2 q hq).append (.cons (show stepMatch σ (.sel idx) (.sel (.idx k)) from idxEv_marker hA h1 hk) .nil)
    · exact (hc op e2 _ sl hsv h2 e ha).mono (by intro x hx; simp [hx])
    · exact (hPi op e' hsi he' e ha).mono (by intro x hx; simp [hx])

/-- the case `Subscript` whose outermost index is a slice -/
theorem pvisit_subslice (hA : Agree env σ ρ) {v lo up st : Node} (c : Ctx)
    (hv : PVisit env σ ρ v) (hc : PChain env σ ρ v) (hPs : PVisit env σ ρ (.slice lo up st)) :
    PVisit env σ ρ (.sub v (.slice lo up st) c) := by
  intro op evs hs h e ha
  rw [visit.eq_6] at h
  simp only [bind_ok] at h
  obtain ⟨⟨e1, r, sl⟩, h1, r', hr', h⟩ := h
  have hss : supported (.slice lo up st) = true ∧ (if rooted v then (!isSliceSub v && supChain v) else supported v) = true := by
    simp only [supported, Bool.and_eq_true] at hs ⊢
    exact ⟨⟨⟨hs.1.1.2, hs.1.2⟩, hs.2⟩, hs.1.1.1⟩
  obtain ⟨hsl, hsv⟩ := hss
  simp only [acc] at ha
  cases hr : rooted v
  · simp only [hr] at hsv ha
    have := chain_not_rooted v hr h1; subst this
    simp [attachSlices] at hr'; subst hr'
    simp only [bind_ok] at h
    obtain ⟨g, hg, g', hg', h⟩ := h
    simp at h; subst h
    rcases ha with ha | ha
    · exact (hv op g (by simpa using hsv) hg e ha).mono (by intro x hx; simp [hx])
    · exact (hPs op g' hsl hg' e (by simpa [acc] using ha)).mono (by intro x hx; simp [hx])
  · simp only [hr, if_true, Bool.and_eq_true, Bool.not_eq_true'] at hsv ha
    obtain ⟨hns, hsv⟩ := hsv
    rw [chain_strip_irrel v hns] at h1
    have := chain_false_sl v h1; subst this
    obtain ⟨nm, rfl⟩ := chain_rooted v hr h1
    rcases ha with (⟨p, hp, rfl⟩ | ha) | ha
    · obtain ⟨q, a, b, hq, hba, hbb, rfl⟩ := hp
      have hm := chain_matches hA v h1 q hq
      simp only [List.append_nil] at hr'
      unfold knownSlice at hr'
      split at hr'
      · rename_i ba bb hlo hup
        simp [attachSlices] at hr'; subst hr'
        simp only [bind_ok] at h
        obtain ⟨p, hp, e', he', h⟩ := h
        simp at h; subst h
        have hp := record_ok hp; subst hp
        refine ⟨⟨accKind c, nm ++ [.sel (.slice ba bb)], op⟩, by simp, rfl, ?_⟩
        exact hm.append (.cons (by
          simp only [stepMatch, selMatch]
          exact ⟨bound_match hA hlo hba, bound_match hA hup hbb⟩) .nil)
      · simp [attachSlices] at hr'; subst hr'
        simp only [bind_ok] at h
        obtain ⟨p, hp, e', he', h⟩ := h
        simp at h; subst h
        have hp := record_ok hp; subst hp
        refine ⟨⟨accKind c, nm ++ [.sel .star], op⟩, by simp, rfl, ?_⟩
        exact hm.append (.cons (by simp [stepMatch, selMatch]) .nil)
    · have hrec : Recorded σ e1 e := hc op e1 _ [] hsv h1 e ha
      cases r' with
      | none =>
        simp only [bind_ok] at h
        obtain ⟨g, hg, g', hg', h⟩ := h
        simp at h; subst h
        exact hrec.mono (by intro x hx; simp [hx])
      | some nm' =>
        simp only [bind_ok] at h
        obtain ⟨p, hp, e', he', h⟩ := h
        simp at h; subst h
        exact hrec.mono (by intro x hx; simp [hx])
    · have ha' : acc ρ (.slice lo up st) e := by simpa [acc] using ha
      cases r' with
      | none =>
        simp only [bind_ok] at h
        obtain ⟨g, hg, g', hg', h⟩ := h
        simp at h; subst h
        exact (hPs op g' hsl hg' e ha').mono (by intro x hx; simp [hx])
      | some nm' =>
        simp only [bind_ok] at h
        obtain ⟨p, hp, e', he', h⟩ := h
        simp at h; subst h
        exact (hPs op e' hsl he' e ha').mono (by intro x hx; simp [hx])


/-- the case `Call` -/
theorem pvisit_call (hA : Agree env σ ρ) {f : Node} {args kws : List Node}
    (hf : PVisit env σ ρ f) (hc : PChain env σ ρ f) (ha : PList env σ ρ args) (hk : PList env σ ρ kws) :
    PVisit env σ ρ (.call f args kws) := by
  intro op evs hs h e hacc
  simp only [visit, bind_ok] at h
  obtain ⟨⟨e1, r, sl⟩, h1, r', hr', g, hg, a, hargs, k, hkws, h⟩ := h
  simp at h; subst h
  simp only [supported, Bool.and_eq_true] at hs
  obtain ⟨⟨hsf, hsa⟩, hsk⟩ := hs
  simp only [acc] at hacc
  rcases hacc with hacc | hacc | hacc
  · cases hr : rooted f
    · simp only [hr] at hsf hacc
      have := chain_not_rooted f hr h1; subst this
      simp [attachSlices] at hr'; subst hr'
      exact (hf op g (by simpa using hsf) hg e hacc).mono (by intro x hx; simp [hx])
    · simp only [hr, if_true] at hsf hacc
      rw [chain_strip_irrel f (supChain_not_sliceSub hsf)] at h1
      have := chain_false_sl f h1; subst this
      obtain ⟨nm, rfl⟩ := chain_rooted f hr h1
      simp [attachSlices] at hr'; subst hr'
      simp at hg; subst hg
      rcases hacc with ⟨p, hp, rfl⟩ | hacc
      · exact ⟨⟨.fc, nm, .none⟩, by simp, rfl, chain_matches hA f h1 p hp⟩
      · exact (hc op e1 _ [] hsf h1 e hacc).mono (by intro x hx; simp [hx])
  · exact (ha op a hsa hargs e hacc).mono (by intro x hx; simp [hx])
  · exact (hk op k hsk hkws e hacc).mono (by intro x hx; simp [hx])

theorem pchain_attr {v : Node} (a : String) (c : Ctx) (hc : PChain env σ ρ v) : PChain env σ ρ (.attr v a c) := by
  intro op ev r sl hs h e ha
  simp only [chain, bind_ok] at h
  obtain ⟨⟨e2, r2, s2⟩, h2, h⟩ := h
  simp at h; obtain ⟨rfl, _, _⟩ := h
  exact hc op _ r2 s2 (by simpa [supChain] using hs) h2 e (by simpa [accIdx] using ha)

theorem pchain_sub {v i : Node} (c : Ctx) (hc : PChain env σ ρ v) (hPi : PVisit env σ ρ i) : PChain env σ ρ (.sub v i c) := by
  intro op ev r sl hs h e ha
  rw [supChain_sub] at hs
  simp only [Bool.and_eq_true] at hs
  obtain ⟨hsi, hsv⟩ := hs
  rw [chain_sub_eq _ _ _ _ _ _ (supIdx_not_slice hsi)] at h
  simp only [bind_ok] at h
  obtain ⟨⟨e1, idx⟩, h1, ⟨e2, r2, s2⟩, h2, h⟩ := h
  simp at h; obtain ⟨rfl, _, _⟩ := h
  simp only [accIdx] at ha
  rcases ha with ha | ha
  · exact (hc op _ r2 s2 hsv h2 e ha).mono (by intro x hx; simp [hx])
  · exact (idxEv_complete hPi hsi h1 ha).mono (by intro x hx; simp [hx])

theorem pchain_other {v : Node} (h : ∀ e, ¬ accIdx ρ v e) : PChain env σ ρ v := by
  intro op ev r sl _ _ e ha
  exact absurd ha (h e)

theorem plist_nil : PList env σ ρ [] := by
  intro op evs _ _ e ha
  simp [accList] at ha

theorem plist_cons {n : Node} {ns : List Node} (hn : PVisit env σ ρ n) (hns : PList env σ ρ ns) : PList env σ ρ (n :: ns) := by
  intro op evs hs h e ha
  simp only [visitList, bind_ok] at h
  obtain ⟨a, h1, b, h2, h⟩ := h
  simp at h; subst h
  simp only [supportedList, Bool.and_eq_true] at hs
  simp only [accList] at ha
  rcases ha with ha | ha
  · exact (hn op a hs.1 h1 e ha).mono (by intro x hx; simp [hx])
  · exact (hns op b hs.2 h2 e ha).mono (by intro x hx; simp [hx])

theorem pvisit_slice {a b c : Node} (ha : PVisit env σ ρ a) (hb : PVisit env σ ρ b) (hc : PVisit env σ ρ c) :
    PVisit env σ ρ (.slice a b c) := by
  intro op evs hs h e hacc
  simp only [visit, bind_ok] at h
  obtain ⟨x, h1, y, h2, z, h3, h⟩ := h
  simp at h; subst h
  simp only [supported, Bool.and_eq_true] at hs
  simp only [acc] at hacc
  rcases hacc with hacc | hacc | hacc
  · exact (ha op x hs.1.1 h1 e hacc).mono (by intro x hx; simp [hx])
  · exact (hb op y hs.1.2 h2 e hacc).mono (by intro x hx; simp [hx])
  · exact (hc op z hs.2 h3 e hacc).mono (by intro x hx; simp [hx])

theorem pvisit_assign {ts : List Node} {v : Node} (ht : PList env σ ρ ts) (hv : PVisit env σ ρ v) :
    PVisit env σ ρ (.assign ts v) := by
  intro op evs hs h e hacc
  simp only [visit, bind_ok] at h
  obtain ⟨x, h1, y, h2, h⟩ := h
  simp at h; subst h
  simp only [supported, Bool.and_eq_true] at hs
  simp only [acc] at hacc
  rcases hacc with hacc | hacc
  · exact (ht op x hs.1 h1 e hacc).mono (by intro x hx; simp [hx])
  · exact (hv op y hs.2 h2 e hacc).mono (by intro x hx; simp [hx])

theorem pvisit_aug {t v : Node} (o : String) (ht : PVisit env σ ρ t) (hv : PVisit env σ ρ v) :
    PVisit env σ ρ (.aug t o v) := by
  intro op evs hs h e hacc
  simp only [visit, bind_ok] at h
  obtain ⟨x, h1, y, h2, h⟩ := h
  simp at h; subst h
  simp only [supported, Bool.and_eq_true] at hs
  simp only [acc] at hacc
  rcases hacc with hacc | hacc
  · exact (ht _ x hs.1 h1 e hacc).mono (by intro x hx; simp [hx])
  · exact (hv _ y hs.2 h2 e hacc).mono (by intro x hx; simp [hx])

theorem pvisit_for {t it : Node} {body orelse : List Node} (ht : PVisit env σ ρ t) (hi : PVisit env σ ρ it)
    (hb : PList env σ ρ body) (ho : PList env σ ρ orelse) : PVisit env σ ρ (.for_ t it body orelse) := by
  intro op evs hs h e hacc
  simp only [visit, bind_ok] at h
  obtain ⟨x, h1, y, h2, z, h3, w, h4, h⟩ := h
  simp at h; subst h
  simp only [supported, Bool.and_eq_true] at hs
  simp only [acc] at hacc
  rcases hacc with hacc | hacc | hacc | hacc
  · exact (ht _ x hs.1.1.1 h1 e hacc).mono (by intro x hx; simp [hx])
  · exact (hi _ y hs.1.1.2 h2 e hacc).mono (by intro x hx; simp [hx])
  · exact (hb _ z hs.1.2 h3 e hacc).mono (by intro x hx; simp [hx])
  · exact (ho _ w hs.2 h4 e hacc).mono (by intro x hx; simp [hx])

theorem pvisit_node {cs : List Node} (k : Kind) (hcs : PList env σ ρ cs) : PVisit env σ ρ (.node k cs) := by
  intro op evs hs h e hacc
  simp only [visit] at h
  exact hcs op evs (by simpa [supported] using hs) h e (by simpa [acc] using hacc)

theorem pvisit_leaf {n : Node} (h : ∀ e, ¬ acc ρ n e) : PVisit env σ ρ n := by
  intro op evs _ _ e ha
  exact absurd ha (h e)


theorem complete_aux (hA : Agree env σ ρ) : ∀ k : Nat,
    (∀ n, nsize n ≤ k → PVisit env σ ρ n) ∧ (∀ v, nsize v ≤ k → PChain env σ ρ v) ∧
    (∀ ns, nsizeList ns ≤ k → PList env σ ρ ns) := by
  intro k
  induction k with
  | zero =>
    refine ⟨?_, ?_, ?_⟩
    · intro n h; cases n <;> simp [nsize] at h
    · intro n h; cases n <;> simp [nsize] at h
    · intro ns h
      cases ns with
      | nil => exact plist_nil
      | cons n ns => simp [nsizeList] at h
  | succ k ih =>
    obtain ⟨ihv, ihc, ihl⟩ := ih
    refine ⟨?_, ?_, ?_⟩
    · intro n h
      cases n with
      | nil => exact pvisit_leaf (by simp [acc])
      | name => exact pvisit_leaf (by simp [acc])
      | num => exact pvisit_leaf (by simp [acc])
      | str => exact pvisit_leaf (by simp [acc])
      | attr v a c =>
        simp only [nsize] at h
        exact pvisit_attr hA a c (ihv v (by omega)) (ihc v (by omega))
      | sub v i c =>
        simp only [nsize] at h
        cases hi : isSlice i
        · exact pvisit_sub hA c hi (ihv v (by omega)) (ihc v (by omega)) (ihv i (by omega))
        · cases i <;> simp [isSlice] at hi
          exact pvisit_subslice hA c (ihv v (by omega)) (ihc v (by omega)) (ihv _ (by omega))
      | slice a b c =>
        simp only [nsize] at h
        exact pvisit_slice (ihv a (by omega)) (ihv b (by omega)) (ihv c (by omega))
      | call f args kws =>
        simp only [nsize] at h
        exact pvisit_call hA (ihv f (by omega)) (ihc f (by omega)) (ihl args (by omega)) (ihl kws (by omega))
      | assign ts v =>
        simp only [nsize] at h
        exact pvisit_assign (ihl ts (by omega)) (ihv v (by omega))
      | aug t o v =>
        simp only [nsize] at h
        exact pvisit_aug o (ihv t (by omega)) (ihv v (by omega))
      | for_ t it b o =>
        simp only [nsize] at h
        exact pvisit_for (ihv t (by omega)) (ihv it (by omega)) (ihl b (by omega)) (ihl o (by omega))
      | node kd cs =>
        simp only [nsize] at h
        exact pvisit_node kd (ihl cs (by omega))
    · intro v h
      cases v with
      | attr v a c =>
        simp only [nsize] at h
        exact pchain_attr a c (ihc v (by omega))
      | sub v i c =>
        simp only [nsize] at h
        exact pchain_sub c (ihc v (by omega)) (ihv i (by omega))
      | _ => exact pchain_other (by simp [accIdx])
    · intro ns h
      cases ns with
      | nil => exact plist_nil
      | cons n ns =>
        simp only [nsizeList] at h
        exact plist_cons (ihv n (by omega)) (ihl ns (by omega))

/-- every access an execution of `n` performs is covered by a record of the visit of `n` -/
theorem visit_complete (hA : Agree env σ ρ) (n : Node) : PVisit env σ ρ n :=
  (complete_aux hA (nsize n)).1 n (Nat.le_refl _)

theorem visitList_complete (hA : Agree env σ ρ) (ns : List Node) : PList env σ ρ ns :=
  (complete_aux hA (nsizeList ns)).2.2 ns (Nat.le_refl _)


end

/-! ## The whole function body -/
section
variable {σ : Valuation} {ρ : REnv}

/-- `Agree` for the environment of every statement of the body (the module-level names shrink from statement to statement) -/
def AgreeBody (σ : Valuation) (ρ : REnv) : Env → List Node → Prop
  | _, [] => True
  | env, s :: ss => Agree (enterEnv env s) σ ρ ∧ AgreeBody σ ρ (enterEnv env s) ss

theorem Agree.enter {env : Env} (h : Agree env σ ρ) (s : Node) : Agree (enterEnv env s) σ ρ := by
  intro x
  refine ⟨fun hc => (h x).1 hc, fun hc hg => (h x).2 hc ?_⟩
  simp only [enterEnv, List.mem_filter] at hg
  exact hg.1

theorem Agree.body {env : Env} (h : Agree env σ ρ) : ∀ (body : List Node), AgreeBody σ ρ env body := by
  intro body
  induction body generalizing env with
  | nil => trivial
  | cons s ss ih => exact ⟨h.enter s, ih (h.enter s)⟩

theorem body_complete : ∀ (body : List Node) {env : Env} {evs : List Ev}, AgreeBody σ ρ env body →
    supportedBody body = true → extractBody env body = .ok evs →
    ∀ e, accList ρ body e → Recorded σ evs e := by
  intro body
  induction body with
  | nil => intro env evs _ _ _ e ha; simp [accList] at ha
  | cons s ss ih =>
    intro env evs hA hs h e ha
    simp only [extractBody, bind_ok] at h
    obtain ⟨a, h1, b, h2, h⟩ := h
    simp at h; subst h
    simp only [supportedBody, supportedList, Bool.and_eq_true] at hs
    simp only [accList] at ha
    rcases ha with ha | ha
    · exact (visit_complete hA.1 s .none a hs.1 h1 e ha).mono (by intro x hx; simp [hx])
    · exact (ih hA.2 hs.2 h2 e ha).mono (by intro x hx; simp [hx])


end

/-! ## Deciding `Matches` (for the concrete examples) -/

def boundMatchB (σ : Valuation) : Bound → Option Int → Bool
  | .num n, b => b == some n
  | .var c x, b => match σ c x with | some v => b == some v | none => false

def selMatchB (σ : Valuation) : Idx → RSel → Bool
  | .star, _ => true
  | .num n, .idx k => k == n
  | .var c x, .idx k => σ c x == some k
  | .slice lo up, .slc a b => boundMatchB σ lo a && boundMatchB σ up b
  | _, _ => false

def stepMatchB (σ : Valuation) : NStep → CStep → Bool
  | .fld a, .fld b => a == b
  | .sel i, .sel c => selMatchB σ i c
  | _, _ => false

def matchesB (σ : Valuation) : ObjName → List CStep → Bool
  | [], [] => true
  | a :: as, b :: bs => stepMatchB σ a b && matchesB σ as bs
  | _, _ => false

def recordedB (σ : Valuation) (evs : List Ev) (e : Access) : Bool :=
  evs.any (fun r => r.kind == e.kind && matchesB σ r.name e.path)

theorem boundMatchB_iff (σ : Valuation) (b : Bound) (a : Option Int) : boundMatchB σ b a = true ↔ boundMatch σ b a := by
  cases b with
  | num n => simp [boundMatchB, boundMatch]
  | var c x =>
    simp only [boundMatchB, boundMatch]
    cases h : σ c x <;> simp

theorem selMatchB_iff (σ : Valuation) (i : Idx) (c : RSel) : selMatchB σ i c = true ↔ selMatch σ i c := by
  cases i <;> cases c <;> simp [selMatchB, selMatch, boundMatchB_iff]

theorem stepMatchB_iff (σ : Valuation) (a : NStep) (b : CStep) : stepMatchB σ a b = true ↔ stepMatch σ a b := by
  cases a <;> cases b <;> simp [stepMatchB, stepMatch, selMatchB_iff]

theorem matchesB_iff (σ : Valuation) : ∀ (nm : ObjName) (p : List CStep), matchesB σ nm p = true ↔ Matches σ nm p
  | [], [] => by simp [matchesB]; exact .nil
  | [], b :: bs => by
    simp only [matchesB, Bool.false_eq_true, false_iff]
    intro h; cases h
  | a :: as, [] => by
    simp only [matchesB, Bool.false_eq_true, false_iff]
    intro h; cases h
  | a :: as, b :: bs => by
    simp only [matchesB, Bool.and_eq_true, stepMatchB_iff, matchesB_iff σ as bs]
    constructor
    · rintro ⟨h1, hm⟩; exact .cons h1 hm
    · intro h; cases h with | cons h1 hm => exact ⟨h1, hm⟩

theorem recordedB_iff (σ : Valuation) (evs : List Ev) (e : Access) : recordedB σ evs e = true ↔ Recorded σ evs e := by
  simp only [recordedB, List.any_eq_true, Bool.and_eq_true, beq_iff_eq, matchesB_iff, Recorded]


/-! ## Which children are visited -/

theorem visit_for_iff {env : Env} {op : Op} {t it : Node} {body orelse : List Node} {evs : List Ev} :
    visit env op (.for_ t it body orelse) = .ok evs ↔
      ∃ a b c d, visit env .for_ t = .ok a ∧ visit env .none it = .ok b ∧ visitList env .none body = .ok c ∧
        visitList env .none orelse = .ok d ∧ evs = a ++ b ++ c ++ d := by
  simp only [visit, bind_ok, pure_ok]
  constructor
  · rintro ⟨a, ha, b, hb, c, hc, d, hd, rfl⟩; exact ⟨a, b, c, d, ha, hb, hc, hd, rfl⟩
  · rintro ⟨a, b, c, d, ha, hb, hc, hd, rfl⟩; exact ⟨a, ha, b, hb, c, hc, d, hd, rfl⟩

theorem visit_if_iff {env : Env} {op : Op} {t : Node} {body orelse : List Node} {evs : List Ev} :
    visit env op (.node .ifS [t, .node .block body, .node .block orelse]) = .ok evs ↔
      ∃ a c d, visit env op t = .ok a ∧ visitList env op body = .ok c ∧ visitList env op orelse = .ok d ∧
        evs = a ++ c ++ d := by
  simp only [visit, visitList, bind_ok, pure_ok]
  constructor
  · rintro ⟨a, ha, x, ⟨c, hc, y, ⟨d, hd, z, rfl, rfl⟩, rfl⟩, rfl⟩
    exact ⟨a, c, d, ha, hc, hd, by simp⟩
  · rintro ⟨a, c, d, ha, hc, hd, rfl⟩
    exact ⟨a, ha, _, ⟨c, hc, _, ⟨d, hd, [], rfl, rfl⟩, rfl⟩, by simp⟩

theorem visitList_mem {env : Env} {op : Op} : ∀ {cs : List Node} {evs : List Ev}, visitList env op cs = .ok evs →
    ∀ c, c ∈ cs → ∃ e, visit env op c = .ok e ∧ ∀ x, x ∈ e → x ∈ evs
  | [], _, _, c, hc => by simp at hc
  | n :: ns, evs, h, c, hc => by
    simp only [visitList, bind_ok, pure_ok] at h
    obtain ⟨a, ha, b, hb, rfl⟩ := h
    rcases List.mem_cons.1 hc with rfl | hc
    · exact ⟨a, ha, by intro x hx; simp [hx]⟩
    · obtain ⟨e, he, hsub⟩ := visitList_mem hb c hc
      exact ⟨e, he, by intro x hx; simp [hsub x hx]⟩


/-! ## The result depends on `self.closure` / `self.globals` as sets only -/

def EnvEq (e1 e2 : Env) : Prop := (∀ x, x ∈ e1.closure ↔ x ∈ e2.closure) ∧ (∀ x, x ∈ e1.globals ↔ x ∈ e2.globals)

section
variable {e1 e2 : Env}

theorem nameIdx_congr (h : EnvEq e1 e2) (x : String) : nameIdx e1 x = nameIdx e2 x := by
  simp only [nameIdx, h.1 x, h.2 x]

theorem bound_congr (h : EnvEq e1 e2) (n : Node) : bound? e1 n = bound? e2 n := by
  cases n <;> simp [bound?, h.1 _, h.2 _]

theorem knownSlice_congr (h : EnvEq e1 e2) (lo up : Node) : knownSlice e1 lo up = knownSlice e2 lo up := by
  simp only [knownSlice, bound_congr h]

theorem idxStep_congr (h : EnvEq e1 e2) (i : Node) (w : Unit → Except Err (List Ev)) :
    idxStep e1 i w = idxStep e2 i w := by
  cases i <;> simp [idxStep, nameIdx_congr h]

def QVisit (e1 e2 : Env) (n : Node) : Prop := ∀ op, visit e1 op n = visit e2 op n
def QChain (e1 e2 : Env) (n : Node) : Prop := ∀ op strip, chain e1 op strip n = chain e2 op strip n
def QList (e1 e2 : Env) (ns : List Node) : Prop := ∀ op, visitList e1 op ns = visitList e2 op ns

theorem idxEv_congr (h : EnvEq e1 e2) {i : Node} (hv : QVisit e1 e2 i) (op : Op) : idxEv e1 op i = idxEv e2 op i := by
  simp only [idxEv]; rw [idxStep_congr h, hv op]

theorem congr_aux (h : EnvEq e1 e2) : ∀ k : Nat,
    (∀ n, nsize n ≤ k → QVisit e1 e2 n) ∧ (∀ n, nsize n ≤ k → QChain e1 e2 n) ∧ (∀ ns, nsizeList ns ≤ k → QList e1 e2 ns) := by
  intro k
  induction k with
  | zero =>
    refine ⟨?_, ?_, ?_⟩
    · intro n hn; cases n <;> simp [nsize] at hn
    · intro n hn; cases n <;> simp [nsize] at hn
    · intro ns hn
      cases ns with
      | nil => intro op; simp [visitList]
      | cons n ns => simp [nsizeList] at hn
  | succ k ih =>
    obtain ⟨ihv, ihc, ihl⟩ := ih
    refine ⟨?_, ?_, ?_⟩
    · intro n hn op
      cases n with
      | nil => simp [visit]
      | name => simp [visit]
      | num => simp [visit]
      | str => simp [visit]
      | attr v a c =>
        simp only [nsize] at hn
        simp only [visit, ihc v (by omega) op false, ihv v (by omega) op]
      | sub v i c =>
        simp only [nsize] at hn
        cases hi : isSlice i
        · rw [visit_sub_eq _ _ _ _ _ hi, visit_sub_eq _ _ _ _ _ hi,
            idxEv_congr h (ihv i (by omega)) op, ihc v (by omega) op false, ihv v (by omega) op,
            ihv i (by omega) op]
        · cases i <;> simp [isSlice] at hi
          rename_i lo up st
          simp only [nsize] at hn
          rw [visit.eq_6, visit.eq_6, ihc v (by omega) op true, knownSlice_congr h, ihv v (by omega) op,
            ihv (.slice lo up st) (by simp only [nsize]; omega) op]
      | slice a b c =>
        simp only [nsize] at hn
        simp only [visit, ihv a (by omega) op, ihv b (by omega) op, ihv c (by omega) op]
      | call f args kws =>
        simp only [nsize] at hn
        simp only [visit, ihc f (by omega) op true, ihv f (by omega) op, ihl args (by omega) op, ihl kws (by omega) op]
      | assign ts v =>
        simp only [nsize] at hn
        simp only [visit, ihl ts (by omega) op, ihv v (by omega) op]
      | aug t o v =>
        simp only [nsize] at hn
        simp only [visit, ihv t (by omega) _, ihv v (by omega) _]
      | for_ t it b o =>
        simp only [nsize] at hn
        simp only [visit, ihv t (by omega) _, ihv it (by omega) _, ihl b (by omega) _, ihl o (by omega) _]
      | node kd cs =>
        simp only [nsize] at hn
        simp only [visit, ihl cs (by omega) op]
    · intro n hn op strip
      cases n with
      | attr v a c =>
        simp only [nsize] at hn
        simp only [chain, ihc v (by omega) op false]
      | sub v i c =>
        simp only [nsize] at hn
        cases hi : isSlice i
        · rw [chain_sub_eq _ _ _ _ _ _ hi, chain_sub_eq _ _ _ _ _ _ hi,
            idxEv_congr h (ihv i (by omega)) op, ihc v (by omega) op false]
        · cases i <;> simp [isSlice] at hi
          rw [chain.eq_1, chain.eq_1, ihc v (by omega) op true, knownSlice_congr h]
      | _ => simp [chain]
    · intro ns hn op
      cases ns with
      | nil => simp [visitList]
      | cons n ns =>
        simp only [nsizeList] at hn
        simp only [visitList, ihv n (by omega) op, ihl ns (by omega) op]

theorem visit_congr (h : EnvEq e1 e2) (op : Op) (n : Node) : visit e1 op n = visit e2 op n :=
  (congr_aux h (nsize n)).1 n (Nat.le_refl _) op

theorem enterEnv_congr (h : EnvEq e1 e2) (s : Node) : EnvEq (enterEnv e1 s) (enterEnv e2 s) := by
  refine ⟨h.1, ?_⟩
  intro x
  simp only [enterEnv, List.mem_filter, h.2 x]

theorem extractBody_congr : ∀ (body : List Node) {e1 e2 : Env}, EnvEq e1 e2 → extractBody e1 body = extractBody e2 body
  | [], _, _, _ => by simp [extractBody]
  | s :: ss, e1, e2, h => by
    simp only [extractBody]
    rw [visit_congr (enterEnv_congr h s), extractBody_congr ss (enterEnv_congr h s)]

end

theorem enterEnv_idem (env : Env) (s : Node) : enterEnv (enterEnv env s) s = enterEnv env s := by
  simp only [enterEnv, List.filter_filter, Bool.and_self]

theorem enterEnv_comm (env : Env) (a b : Node) : enterEnv (enterEnv env a) b = enterEnv (enterEnv env b) a := by
  simp only [enterEnv, List.filter_filter]
  congr 1
  apply List.filter_congr
  intro x _
  exact Bool.and_comm _ _

/-- the environment after the statements of `body` -/
def enterAll (env : Env) : List Node → Env
  | [] => env
  | s :: ss => enterAll (enterEnv env s) ss

theorem extractBody_append : ∀ (a b : List Node) (env : Env),
    extractBody env (a ++ b) = (do
      let x ← extractBody env a
      let y ← extractBody (enterAll env a) b
      pure (x ++ y))
  | [], b, env => by simp [extractBody, enterAll]
  | s :: ss, b, env => by
    simp only [List.cons_append, extractBody, enterAll, extractBody_append ss b]
    cases visit (enterEnv env s) .none s <;> simp [bind, Except.bind]
    cases extractBody (enterEnv env s) ss <;> simp [pure, Except.pure]
    cases extractBody (enterAll (enterEnv env s) ss) b <;> simp


/-! ## Soundness: every record is the name of a node of the source in the matching context -/

def idxMarker (env : Env) : Node → Idx
  | .num n => .num n
  | .name x _ => nameIdx env x
  | _ => .star

/-- the name of a chain, written down from the source (no slices) -/
def pname (env : Env) : Node → Option ObjName
  | .name x _ => some [.fld x]
  | .attr v a _ => (pname env v).map (· ++ [.fld a])
  | .sub _ (.slice ..) _ => none
  | .sub v i _ => (pname env v).map (· ++ [.sel (idxMarker env i)])
  | _ => none

/-- the name `_get_full_name` gives a node: one trailing slice is attached to the last element -/
def topName (env : Env) : Node → Option ObjName
  | .sub v (.slice lo up _) _ => (pname env v).map (· ++ (knownSlice env lo up).map NStep.sel)
  | n => pname env n

mutual
/-- the nodes that occur in `n`, `n` included -/
def subs : Node → List Node
  | .nil => [.nil]
  | .name x c => [.name x c]
  | .num n => [.num n]
  | .str => [.str]
  | .attr v a c => .attr v a c :: subs v
  | .sub v i c => .sub v i c :: (subs v ++ subs i)
  | .slice a b c => .slice a b c :: (subs a ++ subs b ++ subs c)
  | .call f args kws => .call f args kws :: (subs f ++ subsList args ++ subsList kws)
  | .assign ts v => .assign ts v :: (subsList ts ++ subs v)
  | .aug t o v => .aug t o v :: (subs t ++ subs v)
  | .for_ t it b o => .for_ t it b o :: (subs t ++ subs it ++ subsList b ++ subsList o)
  | .node k cs => .node k cs :: subsList cs
def subsList : List Node → List Node
  | [] => []
  | n :: ns => subs n ++ subsList ns
end

def ctxOf : Node → Option Ctx
  | .attr _ _ c => some c
  | .sub _ _ c => some c
  | _ => none

/-- the record `ev` is justified by a node among `ns`: an attribute / subscript with that name in load (read) or store
(write) context, or a call whose callee has that name -/
def Src (env : Env) (ns : List Node) (ev : Ev) : Prop :=
  (∃ m, m ∈ ns ∧ topName env m = some ev.name ∧
     ((ev.kind = .rd ∧ ctxOf m = some .load) ∨ (ev.kind = .wr ∧ ctxOf m = some .store))) ∨
  (ev.kind = .fc ∧ ∃ f args kws, Node.call f args kws ∈ ns ∧ topName env f = some ev.name)

theorem Src.mono {env : Env} {a b : List Node} {ev : Ev} (h : Src env a ev) (hs : ∀ x, x ∈ a → x ∈ b) : Src env b ev := by
  rcases h with ⟨m, hm, h1, h2⟩ | ⟨hk, f, args, kws, hm, h1⟩
  · exact Or.inl ⟨m, hs m hm, h1, h2⟩
  · exact Or.inr ⟨hk, f, args, kws, hs _ hm, h1⟩

theorem idxEv_idx {env : Env} {op : Op} {i : Node} {e1 : List Ev} {idx : Idx} (hi : isSlice i = false)
    (h : idxEv env op i = .ok (e1, idx)) : idx = idxMarker env i := by
  cases i with
  | num n => simp [idxEv, idxStep] at h; simp [idxMarker, h.2]
  | name x c => simp [idxEv, idxStep] at h; simp [idxMarker, h.2]
  | slice => simp [isSlice] at hi
  | _ => simp only [idxEv, idxStep, bind_ok] at h; obtain ⟨_, _, h⟩ := h; simp at h; simp [idxMarker, h.2]

theorem pname_sub {env : Env} {v i : Node} {c : Ctx} (hi : isSlice i = false) :
    pname env (.sub v i c) = (pname env v).map (· ++ [.sel (idxMarker env i)]) := by
  cases i <;> simp [isSlice] at hi <;> simp [pname]

theorem chain_pname {env : Env} {op : Op} : ∀ (v : Node) {e : List Ev} {nm : ObjName} {sl : List Idx},
    chain env op false v = .ok (e, some nm, sl) → pname env v = some nm
  | .sub v i c, e, nm, sl, h => by
    cases hi : isSlice i
    · rw [chain_sub_eq _ _ _ _ _ _ hi] at h
      simp only [bind_ok] at h
      obtain ⟨⟨e1, idx⟩, h1, ⟨e2, r2, s2⟩, h2, h⟩ := h
      simp at h
      obtain ⟨_, hr, _⟩ := h
      cases r2 with
      | none => simp at hr
      | some nm2 =>
        simp at hr; subst hr
        rw [pname_sub hi, chain_pname v h2, idxEv_idx hi h1]; rfl
    · cases i <;> simp [isSlice] at hi
      simp [chain] at h
  | .attr v a c, e, nm, sl, h => by
    simp only [chain, bind_ok] at h
    obtain ⟨⟨e2, r2, s2⟩, h2, h⟩ := h
    simp at h
    obtain ⟨_, hr, _⟩ := h
    cases r2 with
    | none => simp at hr
    | some nm2 => simp at hr; subst hr; simp [pname, chain_pname v h2]
  | .name x c, e, nm, sl, h => by simp [chain] at h; simp [pname, h.2.1]
  | .call .., e, nm, sl, h => by simp [chain] at h
  | .str, e, nm, sl, h => by simp [chain] at h
  | .nil, e, nm, sl, h => by simp [chain] at h
  | .num _, e, nm, sl, h => by simp [chain] at h
  | .slice .., e, nm, sl, h => by simp [chain] at h
  | .assign .., e, nm, sl, h => by simp [chain] at h
  | .aug .., e, nm, sl, h => by simp [chain] at h
  | .for_ .., e, nm, sl, h => by simp [chain] at h
  | .node .., e, nm, sl, h => by simp [chain] at h


section
variable {env : Env}

theorem knownSlice_single (env : Env) (lo up : Node) : ∃ k, knownSlice env lo up = [k] := by
  unfold knownSlice
  split
  · exact ⟨_, rfl⟩
  · exact ⟨_, rfl⟩

theorem chain_true_nil {op : Op} {v : Node} {e : List Ev} {r : Option ObjName}
    (h : chain env op true v = .ok (e, r, [])) : chain env op false v = .ok (e, r, []) := by
  cases hs : isSliceSub v
  · rw [← chain_strip_irrel v hs]; exact h
  · cases v with
    | sub v i c =>
      cases i <;> simp [isSliceSub] at hs
      rename_i lo up st
      rw [chain.eq_1] at h
      simp only [↓reduceIte, bind_ok] at h
      obtain ⟨⟨e2, r2, s2⟩, _, h⟩ := h
      obtain ⟨k, hk⟩ := knownSlice_single env lo up
      simp [hk] at h
    | _ => simp [isSliceSub] at hs

theorem topName_of_not_sliceSub {n : Node} (h : isSliceSub n = false) : topName env n = pname env n := by
  cases n with
  | sub v i c => cases i <;> simp [isSliceSub] at h <;> simp [topName]
  | _ => simp [topName]

/-- `_get_full_name( n )` returns the name written in the source -/
theorem fullName_topName {op : Op} {n : Node} {e : List Ev} {r : Option ObjName} {sl : List Idx} {nm : ObjName}
    (h : chain env op true n = .ok (e, r, sl)) (ha : attachSlices r sl = .ok (some nm)) : topName env n = some nm := by
  cases hs : isSliceSub n
  · rw [chain_strip_irrel n hs] at h
    have := chain_false_sl n h; subst this
    cases r with
    | none => simp [attachSlices] at ha
    | some nm0 =>
      simp [attachSlices] at ha; subst ha
      rw [topName_of_not_sliceSub hs]; exact chain_pname n h
  · cases n with
    | sub v i c =>
      cases i <;> simp [isSliceSub] at hs
      rename_i lo up st
      rw [chain.eq_1] at h
      simp only [↓reduceIte, bind_ok] at h
      obtain ⟨⟨e2, r2, s2⟩, h2, h⟩ := h
      simp at h
      obtain ⟨rfl, rfl, rfl⟩ := h
      obtain ⟨k, hk⟩ := knownSlice_single env lo up
      cases r2 with
      | none => simp [attachSlices] at ha
      | some nm0 =>
        cases s2 with
        | nil =>
          simp [attachSlices, hk] at ha; subst ha
          have := chain_pname v (chain_true_nil h2)
          simp [topName, this, hk]
        | cons x xs => simp [attachSlices, hk] at ha
    | _ => simp [isSliceSub] at hs

def RVisit (env : Env) (n : Node) : Prop := ∀ op evs, visit env op n = .ok evs → ∀ ev, ev ∈ evs → Src env (subs n) ev
def RChain (env : Env) (v : Node) : Prop :=
  ∀ op strip e r sl, chain env op strip v = .ok (e, r, sl) → ∀ ev, ev ∈ e → Src env (subs v) ev
def RList (env : Env) (ns : List Node) : Prop :=
  ∀ op evs, visitList env op ns = .ok evs → ∀ ev, ev ∈ evs → Src env (subsList ns) ev

theorem subs_self (n : Node) : n ∈ subs n := by cases n <;> simp [subs]

theorem idxEv_sound {i : Node} (hv : RVisit env i)
    {op : Op} {e1 : List Ev} {idx : Idx} (h : idxEv env op i = .ok (e1, idx)) : ∀ ev, ev ∈ e1 → Src env (subs i) ev := by
  cases i with
  | num n => simp [idxEv, idxStep] at h; obtain ⟨rfl, _⟩ := h; intro ev hev; simp at hev
  | name x c => simp [idxEv, idxStep] at h; obtain ⟨rfl, _⟩ := h; intro ev hev; simp at hev
  | _ =>
    simp only [idxEv, idxStep, bind_ok] at h; obtain ⟨evs, h1, h⟩ := h; simp at h; obtain ⟨rfl, _⟩ := h
    exact hv op _ h1

theorem src_record {c : Ctx} {op : Op} {nm : ObjName} {p : List Ev} {m : Node} {ns : List Node}
    (hp : record c op nm = .ok p) (hm : m ∈ ns) (hc : ctxOf m = some c) (hn : topName env m = some nm) :
    ∀ ev, ev ∈ p → Src env ns ev := by
  intro ev hev
  cases c with
  | load => simp [record] at hp; subst hp; simp at hev; subst hev; exact Or.inl ⟨m, hm, hn, Or.inl ⟨rfl, hc⟩⟩
  | store => simp [record] at hp; subst hp; simp at hev; subst hev; exact Or.inl ⟨m, hm, hn, Or.inr ⟨rfl, hc⟩⟩
  | del => simp [record] at hp

theorem rvisit_attr {v : Node} (a : String) (c : Ctx) (hv : RVisit env v) (hc : RChain env v) : RVisit env (.attr v a c) := by
  intro op evs h ev hev
  simp only [visit, bind_ok] at h
  obtain ⟨⟨e1, r, sl⟩, h1, h⟩ := h
  have he1 : ∀ ev, ev ∈ e1 → Src env (subs (.attr v a c)) ev := fun ev hev =>
    (hc op false e1 r sl h1 ev hev).mono (by intro x hx; simp [subs, hx])
  cases r with
  | none =>
    simp only [bind_ok] at h
    obtain ⟨g, hg, h⟩ := h
    simp at h; subst h
    rcases List.mem_append.1 hev with hev | hev
    · exact he1 ev hev
    · exact (hv op g hg ev hev).mono (by intro x hx; simp [subs, hx])
  | some nm =>
    simp only [bind_ok] at h
    obtain ⟨p, hp, h⟩ := h
    simp at h; subst h
    rcases List.mem_append.1 hev with hev | hev
    · exact he1 ev hev
    · refine src_record hp (subs_self _) rfl ?_ ev hev
      simp [topName, pname, chain_pname v h1]

theorem rvisit_sub {v i : Node} (c : Ctx) (hi : isSlice i = false) (hv : RVisit env v) (hc : RChain env v)
    (hPi : RVisit env i) : RVisit env (.sub v i c) := by
  intro op evs h ev hev
  rw [visit_sub_eq _ _ _ _ _ hi] at h
  simp only [bind_ok] at h
  obtain ⟨⟨e1, idx⟩, h1, ⟨e2, r, sl⟩, h2, h⟩ := h
  have he1 : ∀ ev, ev ∈ e1 → Src env (subs (.sub v i c)) ev := fun ev hev =>
    (idxEv_sound hPi h1 ev hev).mono (by intro x hx; simp [subs, hx])
  have he2 : ∀ ev, ev ∈ e2 → Src env (subs (.sub v i c)) ev := fun ev hev =>
    (hc op false e2 r sl h2 ev hev).mono (by intro x hx; simp [subs, hx])
  have hvi : ∀ g, visit env op i = .ok g → ∀ ev, ev ∈ g → Src env (subs (.sub v i c)) ev := fun g hg ev hev =>
    (hPi op g hg ev hev).mono (by intro x hx; simp [subs, hx])
  cases r with
  | none =>
    simp only [bind_ok] at h
    obtain ⟨g, hg, g', hg', h⟩ := h
    simp at h; subst h
    simp only [List.mem_append] at hev
    rcases hev with hev | hev | hev | hev
    · exact he1 ev hev
    · exact he2 ev hev
    · exact (hv op g hg ev hev).mono (by intro x hx; simp [subs, hx])
    · exact hvi g' hg' ev hev
  | some nm =>
    simp only [bind_ok] at h
    obtain ⟨p, hp, e', he', h⟩ := h
    simp at h; subst h
    simp only [List.mem_append] at hev
    rcases hev with hev | hev | hev | hev
    · exact he1 ev hev
    · exact he2 ev hev
    · refine src_record hp (subs_self _) rfl ?_ ev hev
      rw [topName_of_not_sliceSub (by cases i <;> simp [isSlice] at hi <;> simp [isSliceSub]), pname_sub hi,
        chain_pname v h2, idxEv_idx hi h1]; rfl
    · exact hvi e' he' ev hev

theorem rvisit_subslice {v lo up st : Node} (c : Ctx) (hv : RVisit env v) (hc : RChain env v)
    (hPs : RVisit env (.slice lo up st)) : RVisit env (.sub v (.slice lo up st) c) := by
  intro op evs h ev hev
  rw [visit.eq_6] at h
  simp only [bind_ok] at h
  obtain ⟨⟨e1, r, sl⟩, h1, r', hr', h⟩ := h
  have he1 : ∀ ev, ev ∈ e1 → Src env (subs (.sub v (.slice lo up st) c)) ev := fun ev hev =>
    (hc op true e1 r sl h1 ev hev).mono (by intro x hx; simp [subs, hx])
  have hvs : ∀ g, visit env op (.slice lo up st) = .ok g → ∀ ev, ev ∈ g → Src env (subs (.sub v (.slice lo up st) c)) ev :=
    fun g hg ev hev => (hPs op g hg ev hev).mono (by intro x hx; simp only [subs, List.mem_cons, List.mem_append] at hx ⊢; rcases hx with hx | (hx | hx) | hx <;> simp [hx])
  cases r' with
  | none =>
    simp only [bind_ok] at h
    obtain ⟨g, hg, g', hg', h⟩ := h
    simp at h; subst h
    simp only [List.mem_append] at hev
    rcases hev with hev | hev | hev
    · exact he1 ev hev
    · exact (hv op g hg ev hev).mono (by intro x hx; simp [subs, hx])
    · exact hvs g' hg' ev hev
  | some nm =>
    simp only [bind_ok] at h
    obtain ⟨p, hp, e', he', h⟩ := h
    simp at h; subst h
    simp only [List.mem_append] at hev
    rcases hev with hev | hev | hev
    · exact he1 ev hev
    · refine src_record hp (subs_self _) rfl ?_ ev hev
      have hch : chain env op true (.sub v (.slice lo up st) c) = .ok (e1, r, knownSlice env lo up ++ sl) := by
        rw [chain.eq_1]; simp [h1, bind, Except.bind, pure, Except.pure]
      exact fullName_topName hch hr'
    · exact hvs e' he' ev hev

theorem rvisit_call {f : Node} {args kws : List Node} (hf : RVisit env f) (hc : RChain env f) (ha : RList env args)
    (hk : RList env kws) : RVisit env (.call f args kws) := by
  intro op evs h ev hev
  simp only [visit, bind_ok] at h
  obtain ⟨⟨e1, r, sl⟩, h1, r', hr', g, hg, a, hargs, k, hkws, h⟩ := h
  simp at h; subst h
  simp only [List.mem_append] at hev
  rcases hev with hev | hev | hev | hev
  · exact (hc op true e1 r sl h1 ev hev).mono (by intro x hx; simp [subs, hx])
  · cases r' with
    | none => exact (hf op g hg ev hev).mono (by intro x hx; simp [subs, hx])
    | some nm =>
      simp at hg; subst hg
      simp at hev; subst hev
      exact Or.inr ⟨rfl, f, args, kws, subs_self _, fullName_topName h1 hr'⟩
  · exact (ha op a hargs ev hev).mono (by intro x hx; simp [subs, hx])
  · exact (hk op k hkws ev hev).mono (by intro x hx; simp [subs, hx])

theorem rchain_attr {v : Node} (a : String) (c : Ctx) (hc : RChain env v) : RChain env (.attr v a c) := by
  intro op strip e r sl h ev hev
  simp only [chain, bind_ok] at h
  obtain ⟨⟨e2, r2, s2⟩, h2, h⟩ := h
  simp at h; obtain ⟨rfl, _, _⟩ := h
  exact (hc op false _ r2 s2 h2 ev hev).mono (by intro x hx; simp [subs, hx])

theorem rchain_sub {v i : Node} (c : Ctx) (hc : RChain env v) (hPi : RVisit env i) : RChain env (.sub v i c) := by
  intro op strip e r sl h ev hev
  cases hi : isSlice i
  · rw [chain_sub_eq _ _ _ _ _ _ hi] at h
    simp only [bind_ok] at h
    obtain ⟨⟨e1, idx⟩, h1, ⟨e2, r2, s2⟩, h2, h⟩ := h
    simp at h; obtain ⟨rfl, _, _⟩ := h
    rcases List.mem_append.1 hev with hev | hev
    · exact (idxEv_sound hPi h1 ev hev).mono (by intro x hx; simp [subs, hx])
    · exact (hc op false _ r2 s2 h2 ev hev).mono (by intro x hx; simp [subs, hx])
  · cases i <;> simp [isSlice] at hi
    cases strip
    · simp [chain] at h
    · rw [chain.eq_1] at h
      simp only [↓reduceIte, bind_ok] at h
      obtain ⟨⟨e2, r2, s2⟩, h2, h⟩ := h
      simp at h; obtain ⟨rfl, _, _⟩ := h
      exact (hc op true _ r2 s2 h2 ev hev).mono (by intro x hx; simp [subs, hx])


theorem rlist_nil : RList env [] := by
  intro op evs h ev hev
  simp [visitList] at h; subst h; simp at hev

theorem rlist_cons {n : Node} {ns : List Node} (hn : RVisit env n) (hns : RList env ns) : RList env (n :: ns) := by
  intro op evs h ev hev
  simp only [visitList, bind_ok] at h
  obtain ⟨a, h1, b, h2, h⟩ := h
  simp at h; subst h
  rcases List.mem_append.1 hev with hev | hev
  · exact (hn op a h1 ev hev).mono (by intro x hx; simp [subsList, hx])
  · exact (hns op b h2 ev hev).mono (by intro x hx; simp [subsList, hx])

theorem rvisit_leaf {n : Node} (h : ∀ op, visit env op n = .ok []) : RVisit env n := by
  intro op evs h' ev hev
  rw [h op] at h'; simp at h'; subst h'; simp at hev

theorem sound_aux : ∀ k : Nat,
    (∀ n, nsize n ≤ k → RVisit env n) ∧ (∀ v, nsize v ≤ k → RChain env v) ∧ (∀ ns, nsizeList ns ≤ k → RList env ns) := by
  intro k
  induction k with
  | zero =>
    refine ⟨?_, ?_, ?_⟩
    · intro n h; cases n <;> simp [nsize] at h
    · intro n h; cases n <;> simp [nsize] at h
    · intro ns h
      cases ns with
      | nil => exact rlist_nil
      | cons n ns => simp [nsizeList] at h
  | succ k ih =>
    obtain ⟨ihv, ihc, ihl⟩ := ih
    refine ⟨?_, ?_, ?_⟩
    · intro n h
      cases n with
      | nil => exact rvisit_leaf (by simp [visit])
      | name => exact rvisit_leaf (by simp [visit])
      | num => exact rvisit_leaf (by simp [visit])
      | str => exact rvisit_leaf (by simp [visit])
      | attr v a c =>
        simp only [nsize] at h
        exact rvisit_attr a c (ihv v (by omega)) (ihc v (by omega))
      | sub v i c =>
        simp only [nsize] at h
        cases hi : isSlice i
        · exact rvisit_sub c hi (ihv v (by omega)) (ihc v (by omega)) (ihv i (by omega))
        · cases i <;> simp [isSlice] at hi
          exact rvisit_subslice c (ihv v (by omega)) (ihc v (by omega)) (ihv _ (by omega))
      | slice a b c =>
        simp only [nsize] at h
        intro op evs hv ev hev
        simp only [visit, bind_ok] at hv
        obtain ⟨x, h1, y, h2, z, h3, hv⟩ := hv
        simp at hv; subst hv
        simp only [List.mem_append] at hev
        rcases hev with hev | hev | hev
        · exact (ihv a (by omega) op x h1 ev hev).mono (by intro x hx; simp [subs, hx])
        · exact (ihv b (by omega) op y h2 ev hev).mono (by intro x hx; simp [subs, hx])
        · exact (ihv c (by omega) op z h3 ev hev).mono (by intro x hx; simp [subs, hx])
      | call f args kws =>
        simp only [nsize] at h
        exact rvisit_call (ihv f (by omega)) (ihc f (by omega)) (ihl args (by omega)) (ihl kws (by omega))
      | assign ts v =>
        simp only [nsize] at h
        intro op evs hv ev hev
        simp only [visit, bind_ok] at hv
        obtain ⟨x, h1, y, h2, hv⟩ := hv
        simp at hv; subst hv
        rcases List.mem_append.1 hev with hev | hev
        · exact (ihl ts (by omega) op x h1 ev hev).mono (by intro x hx; simp [subs, hx])
        · exact (ihv v (by omega) op y h2 ev hev).mono (by intro x hx; simp [subs, hx])
      | aug t o v =>
        simp only [nsize] at h
        intro op evs hv ev hev
        simp only [visit, bind_ok] at hv
        obtain ⟨x, h1, y, h2, hv⟩ := hv
        simp at hv; subst hv
        rcases List.mem_append.1 hev with hev | hev
        · exact (ihv t (by omega) _ x h1 ev hev).mono (by intro x hx; simp [subs, hx])
        · exact (ihv v (by omega) _ y h2 ev hev).mono (by intro x hx; simp [subs, hx])
      | for_ t it b o =>
        simp only [nsize] at h
        intro op evs hv ev hev
        obtain ⟨x, y, z, w, h1, h2, h3, h4, rfl⟩ := visit_for_iff.1 hv
        simp only [List.mem_append] at hev
        rcases hev with ((hev | hev) | hev) | hev
        · exact (ihv t (by omega) _ x h1 ev hev).mono (by intro x hx; simp [subs, hx])
        · exact (ihv it (by omega) _ y h2 ev hev).mono (by intro x hx; simp [subs, hx])
        · exact (ihl b (by omega) _ z h3 ev hev).mono (by intro x hx; simp [subs, hx])
        · exact (ihl o (by omega) _ w h4 ev hev).mono (by intro x hx; simp [subs, hx])
      | node kd cs =>
        simp only [nsize] at h
        intro op evs hv ev hev
        simp only [visit] at hv
        exact (ihl cs (by omega) op evs hv ev hev).mono (by intro x hx; simp [subs, hx])
    · intro v h
      cases v with
      | attr v a c =>
        simp only [nsize] at h
        exact rchain_attr a c (ihc v (by omega))
      | sub v i c =>
        simp only [nsize] at h
        exact rchain_sub c (ihc v (by omega)) (ihv i (by omega))
      | _ =>
        intro op strip e r sl hc ev hev
        simp [chain] at hc
        try (obtain ⟨rfl, _, _⟩ := hc; simp at hev)
    · intro ns h
      cases ns with
      | nil => exact rlist_nil
      | cons n ns =>
        simp only [nsizeList] at h
        exact rlist_cons (ihv n (by omega)) (ihl ns (by omega))

theorem visit_sound (n : Node) : RVisit env n := (sound_aux (nsize n)).1 n (Nat.le_refl _)

theorem body_sound : ∀ (body : List Node) {env : Env} {evs : List Ev}, extractBody env body = .ok evs →
    ∀ ev, ev ∈ evs → ∃ s env', s ∈ body ∧ (∀ x, x ∈ env'.closure ↔ x ∈ env.closure) ∧ (∀ x, x ∈ env'.globals → x ∈ env.globals) ∧
      Src env' (subs s) ev
  | [], env, evs, h, ev, hev => by simp [extractBody] at h; subst h; simp at hev
  | s :: ss, env, evs, h, ev, hev => by
    simp only [extractBody, bind_ok] at h
    obtain ⟨a, h1, b, h2, h⟩ := h
    simp at h; subst h
    have hg : ∀ x, x ∈ (enterEnv env s).globals → x ∈ env.globals := by
      intro x hx; simp only [enterEnv, List.mem_filter] at hx; exact hx.1
    rcases List.mem_append.1 hev with hev | hev
    · exact ⟨s, enterEnv env s, by simp, fun _ => Iff.rfl, hg, visit_sound s .none a h1 ev hev⟩
    · obtain ⟨s', env', hs', hc, hgl, hsrc⟩ := body_sound ss h2 ev hev
      exact ⟨s', env', by simp [hs'], hc, fun x hx => hg x (hgl x hx), hsrc⟩


end
/-! ## Executions as traces

`Exec ρ ns tr`: executing the nodes `ns` one after the other can produce the trace of accesses `tr`.  The rules are those
of Python, with every choice left open: an execution may stop anywhere (`stop`: exception, `return`, `break`); the children
of a compound node (`node k cs`: `If`, `While`, `IfExp`, `BoolOp`, `BinOp`, `Compare`, ...) run in any order any number of
times (`nodeStep`), which contains every branch outcome and every loop count (`exec_if_then`, `exec_if_else`,
`exec_while`, ...); a `for` evaluates its iterable once, runs target and body any number of times, then the `else` clause or
not (`break`).  `exec_acc`: every access of every trace is an access in the sense of `acc`. -/

/-- the index expressions of a chain, innermost first (the order of evaluation) -/
def idxNodes : Node → List Node
  | .attr v _ _ => idxNodes v
  | .sub v i _ => idxNodes v ++ [i]
  | _ => []

def isLeaf : Node → Bool
  | .nil => true
  | .name .. => true
  | .num _ => true
  | .str => true
  | _ => false

inductive Exec (ρ : REnv) : List Node → List Access → Prop where
  | nil : Exec ρ [] []
  | stop {ns : List Node} : Exec ρ ns []
  | leaf {n : Node} {rest : List Node} {tr : List Access} : isLeaf n = true → Exec ρ rest tr → Exec ρ (n :: rest) tr
  /-- an attribute / subscript chain that starts at a name: the index expressions, then the access itself -/
  | attrR {v : Node} {a : String} {c : Ctx} {rest : List Node} {ti tr : List Access} {p : List CStep} :
      rooted v = true → Exec ρ (idxNodes v) ti → cpath ρ (.attr v a c) p → Exec ρ rest tr →
      Exec ρ (.attr v a c :: rest) (ti ++ [⟨accKind c, p⟩] ++ tr)
  | subR {v i : Node} {c : Ctx} {rest : List Node} {ti tr : List Access} {p : List CStep} :
      rooted v = true → Exec ρ (idxNodes v ++ [i]) ti → cpath ρ (.sub v i c) p → Exec ρ rest tr →
      Exec ρ (.sub v i c :: rest) (ti ++ [⟨accKind c, p⟩] ++ tr)
  | attrN {v : Node} {a : String} {c : Ctx} {rest : List Node} {t tr : List Access} :
      rooted v = false → Exec ρ [v] t → Exec ρ rest tr → Exec ρ (.attr v a c :: rest) (t ++ tr)
  | subN {v i : Node} {c : Ctx} {rest : List Node} {t tr : List Access} :
      rooted v = false → Exec ρ [v, i] t → Exec ρ rest tr → Exec ρ (.sub v i c :: rest) (t ++ tr)
  | slice {a b c : Node} {rest : List Node} {t tr : List Access} :
      Exec ρ [a, b, c] t → Exec ρ rest tr → Exec ρ (.slice a b c :: rest) (t ++ tr)
  /-- a call whose callee is a chain that starts at a name: callee, arguments, keyword arguments, then the call -/
  | callR {f : Node} {args kws rest : List Node} {ti ta tk tr : List Access} {p : List CStep} :
      rooted f = true → Exec ρ (idxNodes f) ti → cpath ρ f p → Exec ρ args ta → Exec ρ kws tk → Exec ρ rest tr →
      Exec ρ (.call f args kws :: rest) (ti ++ ta ++ tk ++ [⟨.fc, p⟩] ++ tr)
  | callN {f : Node} {args kws rest : List Node} {t tr : List Access} :
      rooted f = false → Exec ρ (f :: (args ++ kws)) t → Exec ρ rest tr → Exec ρ (.call f args kws :: rest) (t ++ tr)
  | assign {ts : List Node} {v : Node} {rest : List Node} {tv tt tr : List Access} :
      Exec ρ [v] tv → Exec ρ ts tt → Exec ρ rest tr → Exec ρ (.assign ts v :: rest) (tv ++ tt ++ tr)
  | aug {t v : Node} {o : String} {rest : List Node} {tv tt tr : List Access} :
      Exec ρ [v] tv → Exec ρ [t] tt → Exec ρ rest tr → Exec ρ (.aug t o v :: rest) (tv ++ tt ++ tr)
  /-- `for`: the iterable, then the loop (written with the iterable already evaluated: `nil`) -/
  | forStart {t it : Node} {body orelse rest : List Node} {ti tl : List Access} :
      Exec ρ [it] ti → Exec ρ (.for_ t .nil body orelse :: rest) tl → Exec ρ (.for_ t it body orelse :: rest) (ti ++ tl)
  | forIter {t : Node} {body orelse rest : List Node} {tb tl : List Access} :
      Exec ρ (t :: body) tb → Exec ρ (.for_ t .nil body orelse :: rest) tl →
      Exec ρ (.for_ t .nil body orelse :: rest) (tb ++ tl)
  | forElse {t : Node} {body orelse rest : List Node} {to tr : List Access} :
      Exec ρ orelse to → Exec ρ rest tr → Exec ρ (.for_ t .nil body orelse :: rest) (to ++ tr)
  | forBreak {t : Node} {body orelse rest : List Node} {tr : List Access} :
      Exec ρ rest tr → Exec ρ (.for_ t .nil body orelse :: rest) tr
  | nodeStep {k : Kind} {cs rest : List Node} {c : Node} {tc tl : List Access} :
      c ∈ cs → Exec ρ [c] tc → Exec ρ (.node k cs :: rest) tl → Exec ρ (.node k cs :: rest) (tc ++ tl)
  | nodeDone {k : Kind} {cs rest : List Node} {tr : List Access} :
      Exec ρ rest tr → Exec ρ (.node k cs :: rest) tr

variable {ρ : REnv}

theorem accList_append {a b : List Node} {e : Access} : accList ρ (a ++ b) e ↔ accList ρ a e ∨ accList ρ b e := by
  induction a with
  | nil => simp [accList]
  | cons n ns ih => simp [accList, ih, or_assoc]

theorem accList_mem {cs : List Node} {c : Node} {e : Access} (hc : c ∈ cs) (h : acc ρ c e) : accList ρ cs e := by
  induction cs with
  | nil => simp at hc
  | cons n ns ih =>
    rcases List.mem_cons.1 hc with rfl | hc
    · exact Or.inl h
    · exact Or.inr (ih hc)

theorem accList_idxNodes : ∀ (v : Node) {e : Access}, accList ρ (idxNodes v) e → accIdx ρ v e
  | .attr v a c, e, h => by simp only [idxNodes] at h; simp only [accIdx]; exact accList_idxNodes v h
  | .sub v i c, e, h => by
    simp only [idxNodes, accList_append, accList] at h
    simp only [accIdx]
    rcases h with h | h | h
    · exact Or.inl (accList_idxNodes v h)
    · exact Or.inr h
    · exact absurd h (by simp)
  | .nil, e, h => by simp [idxNodes, accList] at h
  | .name .., e, h => by simp [idxNodes, accList] at h
  | .num _, e, h => by simp [idxNodes, accList] at h
  | .str, e, h => by simp [idxNodes, accList] at h
  | .slice .., e, h => by simp [idxNodes, accList] at h
  | .call .., e, h => by simp [idxNodes, accList] at h
  | .assign .., e, h => by simp [idxNodes, accList] at h
  | .aug .., e, h => by simp [idxNodes, accList] at h
  | .for_ .., e, h => by simp [idxNodes, accList] at h
  | .node .., e, h => by simp [idxNodes, accList] at h


section
variable {ρ : REnv}

theorem acc_for_nil {t it : Node} {b o : List Node} {e : Access} (h : acc ρ (.for_ t .nil b o) e) : acc ρ (.for_ t it b o) e := by
  simp only [acc] at h ⊢
  rcases h with h | h | h | h
  · exact Or.inl h
  · exact absurd h (by simp)
  · exact Or.inr (Or.inr (Or.inl h))
  · exact Or.inr (Or.inr (Or.inr h))

/-- every access of every execution is an access in the sense of `acc` -/
theorem exec_acc {ns : List Node} {tr : List Access} (h : Exec ρ ns tr) : ∀ e, e ∈ tr → accList ρ ns e := by
  induction h with
  | nil => intro e he; simp at he
  | stop => intro e he; simp at he
  | leaf _ _ ih => intro e he; exact Or.inr (ih e he)
  | @attrR v a c rest ti tr p hr _ hp _ ih1 ih2 =>
    intro e he
    simp only [List.mem_append, List.mem_singleton] at he
    simp only [accList, acc, hr, if_true]
    rcases he with (he | he) | he
    · exact Or.inl (Or.inr (accList_idxNodes v (ih1 e he)))
    · exact Or.inl (Or.inl ⟨p, hp, he⟩)
    · exact Or.inr (ih2 e he)
  | @subR v i c rest ti tr p hr _ hp _ ih1 ih2 =>
    intro e he
    simp only [List.mem_append, List.mem_singleton] at he
    simp only [accList, acc, hr, if_true]
    rcases he with (he | he) | he
    · have := ih1 e he
      simp only [accList_append, accList] at this
      rcases this with h | h | h
      · exact Or.inl (Or.inl (Or.inr (accList_idxNodes v h)))
      · exact Or.inl (Or.inr h)
      · exact absurd h (by simp)
    · exact Or.inl (Or.inl (Or.inl ⟨p, hp, he⟩))
    · exact Or.inr (ih2 e he)
  | @attrN v a c rest t tr hr _ _ ih1 ih2 =>
    intro e he
    simp only [accList, acc, hr]
    rcases List.mem_append.1 he with he | he
    · have := ih1 e he
      simp only [accList] at this
      rcases this with h | h
      · exact Or.inl (by simpa using h)
      · exact absurd h (by simp)
    · exact Or.inr (ih2 e he)
  | @subN v i c rest t tr hr _ _ ih1 ih2 =>
    intro e he
    simp only [accList, acc, hr]
    rcases List.mem_append.1 he with he | he
    · have := ih1 e he
      simp only [accList] at this
      rcases this with h | h | h
      · exact Or.inl (Or.inl (by simpa using h))
      · exact Or.inl (Or.inr h)
      · exact absurd h (by simp)
    · exact Or.inr (ih2 e he)
  | @slice a b c rest t tr _ _ ih1 ih2 =>
    intro e he
    simp only [accList, acc]
    rcases List.mem_append.1 he with he | he
    · have := ih1 e he
      simp only [accList] at this
      rcases this with h | h | h | h
      · exact Or.inl (Or.inl h)
      · exact Or.inl (Or.inr (Or.inl h))
      · exact Or.inl (Or.inr (Or.inr h))
      · exact absurd h (by simp)
    · exact Or.inr (ih2 e he)
  | @callR f args kws rest ti ta tk tr p hr _ hp _ _ _ ih1 ih2 ih3 ih4 =>
    intro e he
    simp only [List.mem_append, List.mem_singleton] at he
    simp only [accList, acc, hr, if_true]
    rcases he with (((he | he) | he) | he) | he
    · exact Or.inl (Or.inl (Or.inr (accList_idxNodes f (ih1 e he))))
    · exact Or.inl (Or.inr (Or.inl (ih2 e he)))
    · exact Or.inl (Or.inr (Or.inr (ih3 e he)))
    · exact Or.inl (Or.inl (Or.inl ⟨p, hp, he⟩))
    · exact Or.inr (ih4 e he)
  | @callN f args kws rest t tr hr _ _ ih1 ih2 =>
    intro e he
    simp only [accList, acc, hr]
    rcases List.mem_append.1 he with he | he
    · have := ih1 e he
      simp only [accList, accList_append] at this
      rcases this with h | h | h
      · exact Or.inl (Or.inl (by simpa using h))
      · exact Or.inl (Or.inr (Or.inl h))
      · exact Or.inl (Or.inr (Or.inr h))
    · exact Or.inr (ih2 e he)
  | @assign ts v rest tv tt tr _ _ _ ih1 ih2 ih3 =>
    intro e he
    simp only [List.mem_append] at he
    simp only [accList, acc]
    rcases he with (he | he) | he
    · have := ih1 e he
      simp only [accList] at this
      rcases this with h | h
      · exact Or.inl (Or.inr h)
      · exact absurd h (by simp)
    · exact Or.inl (Or.inl (ih2 e he))
    · exact Or.inr (ih3 e he)
  | @aug t v o rest tv tt tr _ _ _ ih1 ih2 ih3 =>
    intro e he
    simp only [List.mem_append] at he
    simp only [accList, acc]
    rcases he with (he | he) | he
    · have := ih1 e he
      simp only [accList] at this
      rcases this with h | h
      · exact Or.inl (Or.inr h)
      · exact absurd h (by simp)
    · have := ih2 e he
      simp only [accList] at this
      rcases this with h | h
      · exact Or.inl (Or.inl h)
      · exact absurd h (by simp)
    · exact Or.inr (ih3 e he)
  | @forStart t it body orelse rest ti tl _ _ ih1 ih2 =>
    intro e he
    rcases List.mem_append.1 he with he | he
    · have := ih1 e he
      simp only [accList] at this
      rcases this with h | h
      · exact Or.inl (by simp only [acc]; exact Or.inr (Or.inl h))
      · exact absurd h (by simp)
    · rcases ih2 e he with h | h
      · exact Or.inl (acc_for_nil h)
      · exact Or.inr h
  | @forIter t body orelse rest tb tl _ _ ih1 ih2 =>
    intro e he
    rcases List.mem_append.1 he with he | he
    · rcases ih1 e he with h | h
      · exact Or.inl (by simp only [acc]; exact Or.inl h)
      · exact Or.inl (by simp only [acc]; exact Or.inr (Or.inr (Or.inl h)))
    · exact ih2 e he
  | @forElse t body orelse rest to tr _ _ ih1 ih2 =>
    intro e he
    rcases List.mem_append.1 he with he | he
    · exact Or.inl (by simp only [acc]; exact Or.inr (Or.inr (Or.inr (ih1 e he))))
    · exact Or.inr (ih2 e he)
  | forBreak _ ih => intro e he; exact Or.inr (ih e he)
  | @nodeStep k cs rest c tc tl hc _ _ ih1 ih2 =>
    intro e he
    rcases List.mem_append.1 he with he | he
    · have := ih1 e he
      simp only [accList] at this
      rcases this with h | h
      · exact Or.inl (by simp only [acc]; exact accList_mem hc h)
      · exact absurd h (by simp)
    · exact ih2 e he
  | nodeDone _ ih => intro e he; exact Or.inr (ih e he)


end
/-! ## From covered paths to covered objects

`resolve v p`: the object the concrete path `p` reaches from `v` in the elaborated component (what the running block
dereferences).  `look_covers`: when the recorded name matches the path, every NamedObject reached is reachable from one of
the objects `lookup_variable` / `expand_array_index` put into the set — the recorded object is the accessed one, one it is
a part of (a field, bit or slice of it), or, for a list, one of its elements. -/

/-- run-time `v[ c ]` -/
def rget (v : Val) (c : RSel) : Option Val :=
  match c with
  | .idx k => match getitem v (.idx k) with | .ok (some r) => some r | _ => none
  | .slc (some a) (some b) => match getitem v (.slc a b) with | .ok (some r) => some r | _ => none
  | .slc _ _ => none

def resolve : Val → List CStep → Option Val
  | v, [] => some v
  | v, .fld a :: p => match getattr v a with | .ok c => resolve c p | .error _ => none
  | v, .sel c :: p => match rget v c with | some r => resolve r p | none => none

theorem resolve_append (v : Val) (p q : List CStep) :
    resolve v (p ++ q) = (resolve v p).bind (fun w => resolve w q) := by
  induction p generalizing v with
  | nil => simp [resolve]
  | cons st p ih =>
    cases st with
    | fld a => simp only [List.cons_append, resolve]; cases getattr v a <;> simp [ih]
    | sel c => simp only [List.cons_append, resolve]; cases rget v c <;> simp [ih]

/-- a slice is the last step of the path -/
def sliceLast : List CStep → Bool
  | [] => true
  | [_] => true
  | .sel (.slc ..) :: _ :: _ => false
  | _ :: p => sliceLast p

mutual
theorem flattenObj_reach : ∀ (o : Obj) (u : Val), u ∈ flattenObj o → ∃ q, resolve (.obj o) q = some u
  | .sig id st nb fs, u, h => by simp [flattenObj] at h; subst h; exact ⟨[], rfl⟩
  | .named id fs, u, h => by simp [flattenObj] at h; subst h; exact ⟨[], rfl⟩
  | .lst xs, u, h => by
    simp only [flattenObj] at h
    exact flattenList_reach xs 0 xs (by simp) u h
  | .other _, u, h => by simp [flattenObj] at h
  | .none, u, h => by simp [flattenObj] at h
/-- an element of the flattened suffix `ys = all.drop k` is reached through its index in `all` -/
theorem flattenList_reach : ∀ (ys : List Obj) (k : Nat) (all : List Obj), all.drop k = ys → ∀ u, u ∈ flattenList ys →
    ∃ q, resolve (.obj (.lst all)) q = some u
  | [], k, all, _, u, h => by simp [flattenList] at h
  | y :: ys, k, all, hd, u, h => by
    simp only [flattenList, List.mem_append] at h
    rcases h with h | h
    · obtain ⟨q, hq⟩ := flattenObj_reach y u h
      refine ⟨.sel (.idx k) :: q, ?_⟩
      have hk : all[k]? = some y := by
        have := congrArg List.head? hd
        simpa [List.head?_drop] using this
      simp [resolve, rget, getitem, listIdx, hk, hq, pure, Except.pure]
    · refine flattenList_reach ys (k + 1) all ?_ u h
      rw [← List.drop_drop, hd]; simp
end


theorem lookEnd_reach (v u : Val) (h : u ∈ lookEnd v) : ∃ q, resolve v q = some u := by
  cases v with
  | obj o => exact flattenObj_reach o u (by simpa [lookEnd] using h)
  | slc id lo hi => simp [lookEnd] at h; subst h; exact ⟨[], rfl⟩
  | func f => simp [lookEnd] at h

theorem mem_flattenList {xs : List Obj} {u : Val} : u ∈ flattenList xs ↔ ∃ y, y ∈ xs ∧ u ∈ flattenObj y := by
  induction xs with
  | nil => simp [flattenList]
  | cons x xs ih => simp [flattenList, ih]

theorem listIdx_mem {α : Type} {xs : List α} {k : Int} {x : α} (h : listIdx xs k = some x) : x ∈ xs := by
  unfold listIdx at h
  split at h
  · exact List.mem_of_getElem? h
  · split at h
    · exact List.mem_of_getElem? h
    · simp at h

theorem listSlice_mem {α : Type} {xs : List α} {a b : Int} {x : α} (h : x ∈ listSlice xs a b) : x ∈ xs := by
  unfold listSlice at h
  exact List.mem_of_mem_drop (List.mem_of_mem_take h)

theorem lookAll_mem {σ : Valuation} {st : List NStep} : ∀ {vs : List Val} {ws : List Val}, lookAll σ st vs = .ok ws →
    ∀ v, v ∈ vs → ∃ w', look σ st v = .ok w' ∧ ∀ x, x ∈ w' → x ∈ ws
  | [], ws, _, v, hv => by simp at hv
  | y :: ys, ws, h, v, hv => by
    simp only [lookAll, bind_ok, pure_ok] at h
    obtain ⟨a, ha, b, hb, rfl⟩ := h
    rcases List.mem_cons.1 hv with rfl | hv
    · exact ⟨a, ha, by intro x hx; simp [hx]⟩
    · obtain ⟨w', hw', hs⟩ := lookAll_mem hb v hv
      exact ⟨w', hw', by intro x hx; simp [hs x hx]⟩

theorem boundVal_of_match {σ : Valuation} {b : Bound} {a : Option Int} (h : boundMatch σ b a) :
    ∃ k, a = some k ∧ boundVal σ b = .ok k := by
  cases b with
  | num n => simp [boundMatch] at h; exact ⟨n, h, rfl⟩
  | var c x =>
    obtain ⟨v, h1, h2⟩ := h
    exact ⟨v, h2, by simp [boundVal, h1]⟩

theorem Matches.nil_right {σ : Valuation} {nm : ObjName} (h : Matches σ nm []) : nm = [] := by
  cases h; rfl

theorem look_nil (σ : Valuation) (v : Val) : look σ [] v = .ok (lookEnd v) := by
  cases v with
  | obj o => cases o <;> simp [look, Val.isNone, lookEnd, flattenObj, pure, Except.pure]
  | slc => simp [look, Val.isNone, pure, Except.pure]
  | func => simp [look, Val.isNone, pure, Except.pure]

theorem rget_none_val {c : RSel} : rget (.obj .none) c = none := by
  cases c with
  | idx k => simp [rget, getitem]
  | slc a b => cases a <;> cases b <;> simp [rget, getitem]


theorem sliceLast_tail {b : CStep} {bs : List CStep} (h : sliceLast (b :: bs) = true) : sliceLast bs = true := by
  cases bs with
  | nil => rfl
  | cons c cs =>
    cases b with
    | fld a => simpa [sliceLast] using h
    | sel s => cases s <;> simp [sliceLast] at h ⊢ <;> exact h

theorem sliceLast_slc {a b : Option Int} {bs : List CStep} (h : sliceLast (.sel (.slc a b) :: bs) = true) : bs = [] := by
  cases bs with
  | nil => rfl
  | cons c cs => simp [sliceLast] at h

/-- one indexing step of the lookup that agrees with the run-time step -/
theorem look_step {σ : Valuation} {as : List NStep} {v0 r : Val} {cs : CSel} {ws : List Val}
    (hg : getitem v0 cs = .ok (some r))
    (h : ∃ a, getitem v0 cs = .ok a ∧ (match a with
             | Option.none => (pure [] : Except LErr (List Val))
             | some c => look σ as c) = .ok ws) : look σ as r = .ok ws := by
  obtain ⟨a, ha, h⟩ := h
  rw [hg] at ha
  cases ha
  exact h

theorem look_covers {σ : Valuation} : ∀ {nm : ObjName} {p : List CStep}, Matches σ nm p → sliceLast p = true →
    ∀ {v0 v : Val} {ws : List Val}, resolve v0 p = some v → look σ nm v0 = .ok ws →
    ∀ u, u ∈ lookEnd v → ∃ w, w ∈ ws ∧ ∃ q, resolve w q = some u := by
  intro nm p hm
  induction hm with
  | nil =>
    intro _ v0 v ws hr hl u hu
    simp [resolve] at hr; subst hr
    rw [look_nil] at hl; simp at hl; subst hl
    exact ⟨u, hu, [], rfl⟩
  | @cons a b as bs hstep hrest ih =>
    intro hsl v0 v ws hr hl u hu
    have hsl' := sliceLast_tail hsl
    cases a with
    | fld f =>
      cases b with
      | sel c => simp [stepMatch] at hstep
      | fld g =>
        simp only [stepMatch] at hstep; subst hstep
        simp only [resolve] at hr
        cases hga : getattr v0 f with
        | error e => simp [hga] at hr
        | ok c =>
          simp only [hga] at hr
          have hn : v0.isNone = false := by
            cases v0 with
            | obj o => cases o <;> simp [Val.isNone] ; simp [getattr] at hga
            | _ => simp [Val.isNone]
          simp only [look, hn, Bool.false_eq_true, ↓reduceIte, hga, bind, Except.bind] at hl
          exact ih hsl' hr hl u hu
    | sel i =>
      cases b with
      | fld g => cases i <;> simp [stepMatch] at hstep
      | sel c =>
        simp only [stepMatch] at hstep
        simp only [resolve] at hr
        cases hrg : rget v0 c with
        | none => simp [hrg] at hr
        | some r =>
          simp only [hrg] at hr
          have hn : v0.isNone = false := by
            cases v0 with
            | obj o => cases o <;> simp [Val.isNone]; simp [rget_none_val] at hrg
            | _ => simp [Val.isNone]
          cases i with
          | star =>
            simp only [look, hn, Bool.false_eq_true, ↓reduceIte] at hl
            by_cases hnamed : v0.isNamed = true
            · simp only [hnamed, ↓reduceIte, pure_ok] at hl; subst hl
              obtain ⟨q', hq'⟩ := lookEnd_reach v u hu
              refine ⟨v0, by simp, (.sel c :: bs) ++ q', ?_⟩
              rw [resolve_append]
              simp [resolve, hrg, hr, hq']
            · simp only [hnamed, Bool.false_eq_true, ↓reduceIte, bind_ok] at hl
              obtain ⟨cs, hcs, hl⟩ := hl
              cases v0 with
              | obj o =>
                cases o with
                | lst xs =>
                  simp [children] at hcs; subst hcs
                  cases c with
                  | idx k =>
                    simp only [rget, getitem] at hrg
                    cases hx : listIdx xs k with
                    | none => simp [hx, pure, Except.pure] at hrg
                    | some x =>
                      simp [hx, pure, Except.pure] at hrg; subst hrg
                      obtain ⟨w', hw', hsub⟩ := lookAll_mem hl (.obj x) (by simpa using listIdx_mem hx)
                      obtain ⟨w, hw, q, hq⟩ := ih hsl' hr hw' u hu
                      exact ⟨w, hsub w hw, q, hq⟩
                  | slc a b =>
                    have hbs := sliceLast_slc hsl; subst hbs
                    have has := hrest.nil_right; subst has
                    simp [resolve] at hr; subst hr
                    cases a with
                    | none => simp [rget] at hrg
                    | some va =>
                      cases b with
                      | none => simp [rget] at hrg
                      | some vb =>
                        simp [rget, getitem, pure, Except.pure] at hrg; subst hrg
                        simp only [lookEnd, flattenObj, mem_flattenList] at hu
                        obtain ⟨y, hy, huy⟩ := hu
                        obtain ⟨w', hw', hsub⟩ := lookAll_mem hl (.obj y) (by simpa using listSlice_mem hy)
                        rw [look_nil] at hw'; simp at hw'; subst hw'
                        exact ⟨u, hsub u (by simpa [lookEnd] using huy), [], rfl⟩
                | _ => simp [children] at hcs
              | _ => simp [children] at hcs
          | num n =>
            cases c with
            | slc a b => simp [selMatch] at hstep
            | idx k =>
              simp only [selMatch] at hstep; subst hstep
              simp only [look, hn, Bool.false_eq_true, ↓reduceIte, bind_ok] at hl
              simp only [rget] at hrg
              cases hgi : getitem v0 (.idx k) with
              | error e => simp [hgi] at hrg
              | ok o =>
                cases o with
                | none => simp [hgi] at hrg
                | some r' =>
                  simp [hgi] at hrg; subst hrg
                  exact ih hsl' hr (look_step hgi hl) u hu
          | var cl x =>
            cases c with
            | slc a b => simp [selMatch] at hstep
            | idx k =>
              simp only [selMatch] at hstep
              simp only [look, hn, Bool.false_eq_true, ↓reduceIte, boundVal, hstep, bind_ok, pure_ok] at hl
              obtain ⟨k', hk', hl⟩ := hl
              subst hk'
              simp only [rget] at hrg
              cases hgi : getitem v0 (.idx k) with
              | error e => simp [hgi] at hrg
              | ok o =>
                cases o with
                | none => simp [hgi] at hrg
                | some r' =>
                  simp [hgi] at hrg; subst hrg
                  exact ih hsl' hr (look_step hgi hl) u hu
          | slice lo up =>
            cases c with
            | idx k => simp [selMatch] at hstep
            | slc a b =>
              simp only [selMatch] at hstep
              obtain ⟨va, rfl, hva⟩ := boundVal_of_match hstep.1
              obtain ⟨vb, rfl, hvb⟩ := boundVal_of_match hstep.2
              simp only [look, hn, Bool.false_eq_true, ↓reduceIte, hva, hvb, bind_ok, Except.ok.injEq] at hl
              obtain ⟨a', ha', b', hb', hl⟩ := hl
              subst ha'; subst hb'
              simp only [rget] at hrg
              cases hgi : getitem v0 (.slc va vb) with
              | error e => simp [hgi] at hrg
              | ok o =>
                cases o with
                | none => simp [hgi] at hrg
                | some r' =>
                  simp [hgi] at hrg; subst hrg
                  exact ih hsl' hr (look_step hgi hl) u hu


/-- from names to objects: a record that matches a path `s.<p>` of the component `root`, looked up by
`extract_obj_from_names`, yields an object from which every NamedObject the path reaches can be reached -/
theorem lookName_covers {σ : Valuation} {id : Nat} {fs : List (String × Obj)} {funcs : List String}
    {nm : ObjName} {p : List CStep} (hm : Matches σ nm (.fld "s" :: p)) (hsl : sliceLast p = true)
    {v : Val} (hr : resolve (.obj (.named id fs)) p = some v) {ws : List Val}
    (hl : lookName σ (.named id fs) funcs nm = .ok ws) :
    ∀ u, u ∈ lookEnd v → ∃ w, w ∈ ws ∧ ∃ q, resolve w q = some u := by
  cases hm with
  | @cons a b as bs hstep hrest =>
    cases a with
    | sel i => simp [stepMatch] at hstep
    | fld f =>
      simp only [stepMatch] at hstep; subst hstep
      simp only [lookName, ↓reduceIte] at hl
      have hdrop : as.dropWhile isSel = as := by
        cases hrest with
        | nil => rfl
        | @cons a' b' as' bs' hstep' _ =>
          cases a' with
          | fld g => simp [List.dropWhile, isSel]
          | sel i =>
            cases b' with
            | fld g => cases i <;> simp [stepMatch] at hstep'
            | sel c =>
              simp only [resolve] at hr
              have : rget (.obj (.named id fs)) c = none := by
                cases c with
                | idx k => simp [rget, getitem]
                | slc a b => cases a <;> cases b <;> simp [rget, getitem]
              simp [this] at hr
      rw [hdrop] at hl
      exact look_covers hrest hsl hr hl


end PV.AstRW
