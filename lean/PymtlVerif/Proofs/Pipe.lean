import PymtlVerif.Model.Pipe
/-!
One-cycle facts about `Model/Pipe.lean` that need no invariant (core Lean only): the stall chain
(`stall_W → stall_M → stall_X → stall_D → stall_F` for valid stages), a stalled stage keeps its
registers, a stage whose predecessor stalls / is squashed / is empty receives a bubble, squashes
originate from `osquash_X` only, register-file writes.
-/
namespace PV.Pipe
/-! stall chain -/
theorem stall_W_val (s : State) (i : EnvIn) (h : stall_W s i = true) : s.val_W = true := by
  simp [stall_W] at h; exact h.1
theorem stall_M_of_stall_W (s : State) (i : EnvIn) (h : stall_W s i = true) (hv : s.val_M = true) :
    stall_M s i = true := by
  simp [stall_W, stall_M] at *; grind
theorem stall_X_of_stall_M (s : State) (i : EnvIn) (h : stall_M s i = true) (hv : s.val_X = true) :
    stall_X s i = true := by
  simp [stall_M, stall_X] at *; grind
theorem stall_D_of_stall_X (s : State) (i : EnvIn) (h : stall_X s i = true) (hv : s.val_D = true) :
    stall_D s i = true := by
  simp [stall_X, stall_D] at *; grind
theorem stall_F_of_stall_D (s : State) (i : EnvIn) (h : stall_D s i = true) (hv : s.val_F = true) :
    stall_F s i = true := by
  simp [stall_D, stall_F] at *; grind

/-- a stage that stalls keeps its instruction -/
theorem hold_W (s : State) (i : EnvIn) (hr : i.reset = false) (h : stall_W s i = true) :
    (next s i).val_W = s.val_W ∧ (next s i).cw = s.cw ∧ (next s i).wb_result_W = s.wb_result_W := by
  simp [next, reg_en_W, h, hr]
theorem hold_M (s : State) (i : EnvIn) (hr : i.reset = false) (h : stall_M s i = true) :
    (next s i).val_M = s.val_M ∧ (next s i).cm = s.cm ∧ (next s i).ex_result_M = s.ex_result_M := by
  simp [next, reg_en_M, h, hr]
theorem hold_X (s : State) (i : EnvIn) (hr : i.reset = false) (h : stall_X s i = true) :
    (next s i).val_X = s.val_X ∧ (next s i).cx = s.cx ∧ (next s i).op1_X = s.op1_X ∧ (next s i).op2_X = s.op2_X
      ∧ (next s i).store_X = s.store_X ∧ (next s i).br_target_X = s.br_target_X := by
  simp [next, reg_en_X, h, hr]
theorem hold_D (s : State) (i : EnvIn) (hr : i.reset = false) (h : stall_D s i = true) (hs : squash_D s i = false) :
    (next s i).val_D = s.val_D ∧ (next s i).pc_D = s.pc_D ∧ (next s i).inst_D = s.inst_D := by
  simp [next, reg_en_D, h, hs, hr]
theorem hold_F (s : State) (i : EnvIn) (hr : i.reset = false) (h : stall_F s i = true) (hs : squash_F s i = false) :
    (next s i).val_F = s.val_F ∧ (next s i).pc_F = s.pc_F := by
  simp [next, reg_en_F, h, hs, hr]

theorem rf_change (s : State) (i : EnvIn) (h : (next s i).rf ≠ s.rf) :
    s.val_W = true ∧ s.cw.rf_wen_pending = true ∧ s.cw.rf_waddr ≠ 0 ∧
    (next s i).rf = s.rf.set s.cw.rf_waddr s.wb_result_W := by
  simp only [next, rf_write, rf_wen_W] at *
  by_cases hc : (s.val_W && s.cw.rf_wen_pending && s.cw.rf_waddr != 0) = true
  · simp [hc]; simp at hc; exact ⟨hc.1.1, hc.1.2, hc.2⟩
  · simp [hc] at h

/-! ### bubbles -/

theorem bubble_W (s : State) (i : EnvIn) (hr : i.reset = false) (h : stall_W s i = false)
    (hp : stall_M s i = true ∨ s.val_M = false) : (next s i).val_W = false := by
  rcases hp with hp | hp <;> simp [next, reg_en_W, h, hr, next_val_M, hp]
theorem bubble_M (s : State) (i : EnvIn) (hr : i.reset = false) (h : stall_M s i = false)
    (hp : stall_X s i = true ∨ s.val_X = false) : (next s i).val_M = false := by
  rcases hp with hp | hp <;> simp [next, reg_en_M, h, hr, next_val_X, hp]
theorem bubble_X (s : State) (i : EnvIn) (hr : i.reset = false) (h : stall_X s i = false)
    (hp : stall_D s i = true ∨ squash_D s i = true ∨ s.val_D = false) : (next s i).val_X = false := by
  rcases hp with hp | hp | hp <;> simp [next, reg_en_X, h, hr, next_val_D, hp]
theorem bubble_D (s : State) (i : EnvIn) (hr : i.reset = false) (h : reg_en_D s i = true)
    (hp : stall_F s i = true ∨ squash_F s i = true ∨ s.val_F = false) : (next s i).val_D = false := by
  rcases hp with hp | hp | hp <;> simp [next, h, hr, next_val_F, hp]

/-! ### squash -/

theorem squash_D_origin (s : State) (i : EnvIn) (h : squash_D s i = true) :
    s.val_D = true ∧ osquash_X s i = true := by
  simpa [squash_D] using h
theorem squash_F_origin (s : State) (i : EnvIn) (h : squash_F s i = true) :
    s.val_F = true ∧ osquash_X s i = true := by
  simpa [squash_F, osquash_D] using h
/-- the only source of a squash: a valid, non-stalled X-stage instruction whose control word says
"branch" and whose ALU operands differ -/
theorem osquash_X_origin (s : State) (i : EnvIn) (h : osquash_X s i = true) :
    s.val_X = true ∧ stall_X s i = false ∧ s.cx.br_type = true ∧ s.op1_X ≠ s.op2_X := by
  simp [osquash_X, pc_redirect_X, ne_X, br_ne] at h
  exact ⟨h.1.1, h.1.2, h.2.1.2, h.2.2⟩
/-- a squash empties D and X at the edge and redirects the PC to the branch target -/
theorem squash_effect (s : State) (i : EnvIn) (hr : i.reset = false) (h : osquash_X s i = true) :
    (next s i).val_D = false ∧ (next s i).val_X = false ∧
    (s.val_F = true → (next s i).pc_F = s.br_target_X) := by
  have hx := osquash_X_origin s i h
  have hX : pc_redirect_X s = true := by simp [osquash_X] at h; exact h.2
  refine ⟨?_, ?_, ?_⟩
  · by_cases hD : s.val_D = true
    · simp [next, hr, reg_en_D, squash_D, hD, h, next_val_F, squash_F, osquash_D]
      exact fun a _ => a
    · simp [next, hr, reg_en_D, squash_D, stall_D, hD, next_val_F, squash_F, osquash_D, h]
      exact fun a _ => a
  · simp [next, hr, reg_en_X, hx.2.1, next_val_D, squash_D, h]
    exact fun a _ => a
  · intro hF
    simp [next, hr, reg_en_F, squash_F, osquash_D, hF, h, imemreq_addr, pc_sel_F, hX]

/-! ### register file -/

/-- register 0 of the file is never written (`const_zero=True`) -/
theorem rf_zero (s : State) (i : EnvIn) : rf_read (next s i).rf 0 = rf_read s.rf 0 := by
  simp only [next, rf_write, rf_read]
  split
  · next h =>
    have : s.cw.rf_waddr ≠ 0 := by simp at h; exact h.2
    simp [List.getD_eq_getElem?_getD, List.getElem?_set_ne this]
  · rfl
/-- a write changes at most the addressed register -/
theorem rf_other (s : State) (i : EnvIn) (a : Nat) (h : a ≠ s.cw.rf_waddr) :
    rf_read (next s i).rf a = rf_read s.rf a := by
  simp only [next, rf_write, rf_read]
  split
  · simp [List.getD_eq_getElem?_getD, List.getElem?_set_ne (Ne.symm h)]
  · rfl

end PV.Pipe
