import PymtlVerif.Model.Arb
/-!
Helper lemmas for C19 (round-robin arbiters): the kill chain characterised in closed form
(`grantsInt_iff`: position `i` of the doubled vector is granted iff it is the first requesting
position at or after the pointer), bit-level facts about `pack`, and arithmetic of the cyclic distance.
Core Lean only.
-/
namespace PV.Arb

/-! ## the kill chain, for an arbitrary doubled request vector `rI` and a one-hot priority vector -/

section chain
variable {pI rI : Nat → Bool} {p : Nat}

/-- `kills[i] | (~kills[i] & r)` is `kills[i] | r` -/
theorem kills_succ (pI rI : Nat → Bool) (i : Nat) :
    kills pI rI (i + 1) = if pI i then rI i else (kills pI rI i || rI i) := by
  simp only [kills]
  cases kills pI rI i <;> simp

theorem kills_le (hp : ∀ i, pI i = decide (i = p)) : ∀ i, i ≤ p → kills pI rI i = true := by
  intro i
  induction i with
  | zero => intro _; rfl
  | succ i ih =>
    intro h
    have hne : i ≠ p := by omega
    rw [kills_succ]
    simp [hp, hne, ih (by omega)]

theorem kills_gt (hp : ∀ i, pI i = decide (i = p)) :
    ∀ d, (kills pI rI (p + 1 + d) = true ↔ ∃ j, j ≤ d ∧ rI (p + j) = true) := by
  intro d
  induction d with
  | zero =>
    show kills pI rI (p + 1) = true ↔ _
    rw [kills_succ]
    simp [hp]
  | succ d ih =>
    have hne : p + 1 + d ≠ p := by omega
    have : p + 1 + (d + 1) = (p + 1 + d) + 1 := by omega
    rw [this, kills_succ]
    simp only [hp, hne, decide_false, Bool.false_eq_true, if_false, Bool.or_eq_true, ih]
    constructor
    · rintro (⟨j, hj, hr⟩ | hr)
      · exact ⟨j, by omega, hr⟩
      · exact ⟨d + 1, by omega, by rw [show p + (d+1) = p + 1 + d by omega]; exact hr⟩
    · rintro ⟨j, hj, hr⟩
      by_cases hjd : j ≤ d
      · exact Or.inl ⟨j, hjd, hr⟩
      · have : j = d + 1 := by omega
        subst this
        right; rw [show p + 1 + d = p + (d+1) by omega]; exact hr

/-- `First rI p i`: `i` is the first requesting index at or after the pointer in the doubled vector -/
def First (rI : Nat → Bool) (p i : Nat) : Prop :=
  p ≤ i ∧ rI i = true ∧ ∀ j, p ≤ j → j < i → rI j = false

theorem grantsInt_iff (hp : ∀ i, pI i = decide (i = p)) (i : Nat) :
    grantsInt pI rI i = true ↔ First rI p i := by
  unfold grantsInt First
  rcases Nat.lt_trichotomy i p with hlt | heq | hgt
  · have hne : i ≠ p := by omega
    simp [hp, hne, kills_le (rI := rI) hp i (by omega)]
    intro h; omega
  · subst heq
    simp [hp]
    intro _ j h1 h2; omega
  · obtain ⟨d, rfl⟩ : ∃ d, i = p + 1 + d := ⟨i - p - 1, by omega⟩
    have hne : p + 1 + d ≠ p := by omega
    simp only [hp, hne, decide_false, Bool.false_eq_true, if_false, Bool.and_eq_true,
      Bool.not_eq_true']
    constructor
    · rintro ⟨hk, hr⟩
      refine ⟨by omega, hr, ?_⟩
      intro j hj1 hj2
      cases hrj : rI j with
      | false => rfl
      | true =>
        have : kills pI rI (p + 1 + d) = true :=
          (kills_gt hp d).mpr ⟨j - p, by omega, by rw [show p + (j - p) = j by omega]; exact hrj⟩
        rw [this] at hk; cases hk
    · rintro ⟨_, hr, hall⟩
      refine ⟨?_, hr⟩
      cases hk : kills pI rI (p + 1 + d) with
      | false => rfl
      | true =>
        obtain ⟨j, hj, hrj⟩ := (kills_gt hp d).mp hk
        rw [hall (p + j) (by omega) (by omega)] at hrj; cases hrj

theorem First_unique {i i' : Nat} (h : First rI p i) (h' : First rI p i') : i = i' := by
  rcases Nat.lt_trichotomy i i' with hlt | heq | hgt
  · have := h'.2.2 i h.1 hlt; rw [h.2.1] at this; cases this
  · exact heq
  · have := h.2.2 i' h'.1 hgt; rw [h'.2.1] at this; cases this

/-- existence of a first requester, by induction on the distance bound -/
theorem exists_first (rI : Nat → Bool) (p : Nat) : ∀ b, (∃ i, p ≤ i ∧ i ≤ p + b ∧ rI i = true) →
    ∃ i, First rI p i ∧ i ≤ p + b := by
  intro b
  induction b with
  | zero =>
    rintro ⟨i, h1, h2, h3⟩
    have : i = p := by omega
    subst this
    exact ⟨i, ⟨Nat.le_refl _, h3, fun j a c => by omega⟩, by omega⟩
  | succ b ih =>
    rintro ⟨i, h1, h2, h3⟩
    by_cases hex : ∃ i, p ≤ i ∧ i ≤ p + b ∧ rI i = true
    · obtain ⟨f, hf, hfb⟩ := ih hex
      exact ⟨f, hf, by omega⟩
    · have hi : i = p + (b + 1) := by
        rcases Nat.lt_or_ge i (p + (b+1)) with h | h
        · exact absurd ⟨i, h1, by omega, h3⟩ hex
        · omega
      refine ⟨i, ⟨h1, h3, ?_⟩, h2⟩
      intro j hj1 hj2
      cases hr : rI j with
      | false => rfl
      | true => exact absurd ⟨j, hj1, by omega, hr⟩ hex

end chain

/-! ## the two wires built from the ports -/

theorem bit_two_pow (p i : Nat) : bit (2 ^ p) i = decide (i = p) := by
  unfold bit
  rw [Nat.testBit_two_pow]
  by_cases h : p = i
  · subst h; simp
  · have : ¬ i = p := fun e => h e.symm
    simp [h, this]

/-- with the register holding 2^p (p < n), `priority_int` is one-hot at p over the whole doubled range -/
theorem prioInt_eq {n p : Nat} (hp : p < n) (i : Nat) : prioInt n (2 ^ p) i = decide (i = p) := by
  unfold prioInt
  by_cases hi : i < n
  · simp [hi, bit_two_pow]
  · have : i ≠ p := by omega
    simp [hi, this]

theorem reqsInt_lo {n k : Nat} (reqs : Nat) (hk : k < n) : reqsInt n reqs k = bit reqs k := by
  simp [reqsInt, hk]

theorem reqsInt_hi {n k : Nat} (reqs : Nat) (hk : k < n) : reqsInt n reqs (n + k) = bit reqs k := by
  have h1 : ¬ (n + k < n) := by omega
  have h2 : n + k < 2 * n := by omega
  simp [reqsInt, h1, h2]

theorem mod_sub_of_range {x n : Nat} (h1 : n ≤ x) (h2 : x < 2 * n) : x % n = x - n := by
  rw [Nat.mod_eq_sub_mod h1, Nat.mod_eq_of_lt (by omega)]

theorem reqsInt_mod {n i : Nat} (reqs : Nat) (hi : i < 2 * n) : reqsInt n reqs i = bit reqs (i % n) := by
  by_cases h : i < n
  · simp [reqsInt, h, Nat.mod_eq_of_lt h]
  · simp [reqsInt, h, hi, mod_sub_of_range (Nat.le_of_not_lt h) hi]

/-! ## cyclic distance -/

theorem dist_lt (n p k : Nat) (hn : 0 < n) : dist n p k < n := Nat.mod_lt _ hn

/-- an index i in [p, p+n) with i % n = k is p + dist p k -/
theorem idx_eq (n p k i : Nat) (hp : p < n) (hk : k < n) (h1 : p ≤ i) (h2 : i < p + n) (h3 : i % n = k) :
    i = p + dist n p k := by
  unfold dist
  by_cases hi : i < n
  · have : i = k := by rw [← h3, Nat.mod_eq_of_lt hi]
    subst this
    have : (i + n - p) % n = i - p := by
      rw [show i + n - p = (i - p) + n by omega, Nat.add_mod_right, Nat.mod_eq_of_lt (by omega)]
    omega
  · have hik : i - n = k := by
      have : i % n = (i - n) % n := by
        conv => lhs; rw [show i = (i - n) + n by omega, Nat.add_mod_right]
      rw [this, Nat.mod_eq_of_lt (by omega)] at h3; exact h3
    have : (k + n - p) % n = k + n - p := Nat.mod_eq_of_lt (by omega)
    omega

theorem pos_mod {n : Nat} (p k : Nat) (hp : p < n) (hk : k < n) : (p + dist n p k) % n = k := by
  unfold dist
  rw [Nat.add_mod, Nat.mod_mod, ← Nat.add_mod, show p + (k + n - p) = k + n by omega,
      Nat.add_mod_right, Nat.mod_eq_of_lt hk]

/-- k expressed through its distance from p -/
theorem of_dist {n : Nat} (p k : Nat) (hp : p < n) (hk : k < n) :
    (p + dist n p k < n ∧ k = p + dist n p k) ∨ (n ≤ p + dist n p k ∧ k = p + dist n p k - n) := by
  have hn : 0 < n := by omega
  have hd := dist_lt n p k hn
  have hm := pos_mod (n := n) p k hp hk
  by_cases h : p + dist n p k < n
  · left; rw [Nat.mod_eq_of_lt h] at hm; exact ⟨h, hm.symm⟩
  · right; rw [mod_sub_of_range (by omega) (by omega)] at hm; exact ⟨by omega, hm.symm⟩

/-- distance is determined by the two positions -/
theorem dist_eq_of {n : Nat} (p k d : Nat) (hp : p < n) (hd : d < n)
    (h : (p + d < n ∧ k = p + d) ∨ (n ≤ p + d ∧ k = p + d - n)) : dist n p k = d := by
  unfold dist
  rcases h with ⟨h1, rfl⟩ | ⟨h1, rfl⟩
  · rw [show p + d + n - p = d + n by omega, Nat.add_mod_right, Nat.mod_eq_of_lt hd]
  · rw [show p + d - n + n - p = d by omega, Nat.mod_eq_of_lt hd]

theorem dist_self {n : Nat} (p : Nat) (hp : p < n) : dist n p p = 0 := by
  unfold dist
  rw [show p + n - p = n by omega, Nat.mod_self]

/-- distances from the same pointer distinguish inputs -/
theorem dist_inj {n : Nat} (p k i : Nat) (hp : p < n) (hk : k < n) (hi : i < n)
    (h : dist n p k = dist n p i) : k = i := by
  have hk' := of_dist (n := n) p k hp hk
  have hi' := of_dist (n := n) p i hp hi
  rw [h] at hk'
  rcases hk' with ⟨a, b⟩ | ⟨a, b⟩ <;> rcases hi' with ⟨c, d⟩ | ⟨c, d⟩ <;> omega

/-- after granting k the pointer moves to (k+1) % n; the distance to a still-waiting input i that is not
    closer than k strictly decreases -/
theorem dist_decreases {n : Nat} (p k i : Nat) (hp : p < n) (hk : k < n) (hi : i < n)
    (hki : k ≠ i) (hle : dist n p k ≤ dist n p i) :
    dist n ((k + 1) % n) i < dist n p i := by
  have hn : 0 < n := by omega
  have hdk := dist_lt n p k hn
  have hdi := dist_lt n p i hn
  have hk' := of_dist (n := n) p k hp hk
  have hi' := of_dist (n := n) p i hp hi
  have hlt : dist n p k < dist n p i := by
    rcases Nat.lt_or_ge (dist n p k) (dist n p i) with h | h
    · exact h
    · exact absurd (dist_inj p k i hp hk hi (by omega)) hki
  generalize hdk' : dist n p k = dk at *
  generalize hdi' : dist n p i = di at *
  suffices h : dist n ((k + 1) % n) i = di - dk - 1 by omega
  have hq : (k + 1) % n < n := Nat.mod_lt _ hn
  apply dist_eq_of _ _ _ hq (by omega)
  rcases hk' with ⟨a, b⟩ | ⟨a, b⟩ <;> rcases hi' with ⟨c, d⟩ | ⟨c, d⟩
  · have : (k + 1) % n = k + 1 := Nat.mod_eq_of_lt (by omega)
    rw [this]; left; omega
  · by_cases hk1 : k + 1 < n
    · rw [Nat.mod_eq_of_lt hk1]; right; omega
    · have : k + 1 = n := by omega
      rw [this, Nat.mod_self]; left; omega
  · omega
  · have : (k + 1) % n = k + 1 := Nat.mod_eq_of_lt (by omega)
    rw [this]; left; omega

/-! ## `grants`, bit by bit, when the register holds `2^p` -/

section grantbit
variable {n p : Nat} {reqs : Nat}

/-- every set grant bit comes from the first requesting position of the doubled vector -/
theorem grantBit_first_idx (hp : p < n) (k : Nat) (hk : k < n) (hg : grantBit n reqs (2 ^ p) k = true) :
    ∃ i, First (reqsInt n reqs) p i ∧ i % n = k ∧ i < 2 * n := by
  unfold grantBit at hg
  rcases Bool.or_eq_true _ _ |>.mp hg with h | h
  · exact ⟨k, (grantsInt_iff (prioInt_eq hp) k).mp h, Nat.mod_eq_of_lt hk, by omega⟩
  · exact ⟨n + k, (grantsInt_iff (prioInt_eq hp) (n + k)).mp h,
      by simp [Nat.add_mod_left, Nat.mod_eq_of_lt hk], by omega⟩

theorem grantBit_subset (hp : p < n) (k : Nat) (hk : k < n) (hg : grantBit n reqs (2 ^ p) k = true) :
    bit reqs k = true := by
  obtain ⟨i, hi, hik, hilt⟩ := grantBit_first_idx hp k hk hg
  have := hi.2.1
  rw [reqsInt_mod reqs hilt, hik] at this
  exact this

theorem grantBit_unique (hp : p < n) (k k' : Nat) (hk : k < n) (hk' : k' < n)
    (hg : grantBit n reqs (2 ^ p) k = true) (hg' : grantBit n reqs (2 ^ p) k' = true) : k = k' := by
  obtain ⟨i, hi, rfl, _⟩ := grantBit_first_idx hp k hk hg
  obtain ⟨i', hi', rfl, _⟩ := grantBit_first_idx hp k' hk' hg'
  rw [First_unique hi hi']

theorem grantBit_exists (hp : p < n) (k : Nat) (hk : k < n) (hr : bit reqs k = true) :
    ∃ k', k' < n ∧ grantBit n reqs (2 ^ p) k' = true := by
  have hex : ∃ i, p ≤ i ∧ i ≤ p + (n - 1) ∧ reqsInt n reqs i = true := by
    by_cases hkp : p ≤ k
    · exact ⟨k, hkp, by omega, by rw [reqsInt_lo reqs hk]; exact hr⟩
    · exact ⟨n + k, by omega, by omega, by rw [reqsInt_hi reqs hk]; exact hr⟩
  obtain ⟨f, hf, hfb⟩ := exists_first (reqsInt n reqs) p (n - 1) hex
  by_cases hfn : f < n
  · refine ⟨f, hfn, ?_⟩
    simp [grantBit, (grantsInt_iff (prioInt_eq hp) f).mpr hf]
  · refine ⟨f - n, by omega, ?_⟩
    have : n + (f - n) = f := by omega
    simp [grantBit, this, (grantsInt_iff (prioInt_eq hp) f).mpr hf]

/-- the granted requester is the first one at or after the pointer in cyclic order -/
theorem grantBit_first (hp : p < n) (k : Nat) (hk : k < n) (hg : grantBit n reqs (2 ^ p) k = true)
    (j : Nat) (hj : j < n) (hr : bit reqs j = true) : dist n p k ≤ dist n p j := by
  have hn : 0 < n := by omega
  obtain ⟨i, hi, hik, hilt⟩ := grantBit_first_idx hp k hk hg
  have hdj := dist_lt n p j hn
  have hj'mod : (p + dist n p j) % n = j := pos_mod p j hp hj
  have hrj' : reqsInt n reqs (p + dist n p j) = true := by
    rw [reqsInt_mod reqs (by omega), hj'mod]; exact hr
  have hij : i ≤ p + dist n p j := by
    rcases Nat.lt_or_ge (p + dist n p j) i with h | h
    · have := hi.2.2 (p + dist n p j) (by omega) h
      rw [hrj'] at this; cases this
    · exact h
  have := idx_eq n p k i hp hk hi.1 (by omega) hik
  omega

end grantbit

/-! ## `pack` -/

theorem pack_lt (n : Nat) (f : Nat → Bool) : pack n f < 2 ^ n := by
  induction n with
  | zero => simp [pack]
  | succ n ih =>
    simp only [pack]
    have : 2 ^ (n + 1) = 2 ^ n + 2 ^ n := by rw [Nat.pow_succ]; omega
    split <;> omega

theorem bit_pack (n : Nat) (f : Nat → Bool) (i : Nat) : bit (pack n f) i = (decide (i < n) && f i) := by
  unfold bit
  induction n with
  | zero => simp [pack]
  | succ n ih =>
    simp only [pack]
    have hlt := pack_lt n f
    by_cases hf : f n
    · simp only [hf, if_true]
      have e : pack n f + 2 ^ n = 2 ^ n * 1 + pack n f := by omega
      rw [e, Nat.testBit_two_pow_mul_add _ hlt]
      by_cases hi : i < n
      · have : i < n + 1 := by omega
        simp [hi, this, ih]
      · by_cases hin : i = n
        · subst hin; simp [hf]
        · have h1 : ¬ i < n + 1 := by omega
          have h2 : i - n ≠ 0 := by omega
          have h3 : Nat.testBit 1 (i - n) = false := by
            cases h : Nat.testBit 1 (i - n) with
            | false => rfl
            | true => exact absurd (Nat.testBit_one_eq_true_iff_self_eq_zero.mp h) h2
          simp [hi, h1, h3]
    · simp only [hf, Bool.false_eq_true, if_false, Nat.add_zero, ih]
      by_cases hi : i < n
      · have : i < n + 1 := by omega
        simp [hi, this]
      · by_cases hin : i = n
        · subst hin; simp [hf]
        · have h1 : ¬ i < n + 1 := by omega
          simp [hi, h1]

theorem bit_ext {a b : Nat} (h : ∀ i, bit a i = bit b i) : a = b := Nat.eq_of_testBit_eq h

theorem pack_eq_zero (n : Nat) (f : Nat → Bool) (h : ∀ i, i < n → f i = false) : pack n f = 0 := by
  apply bit_ext
  intro i
  rw [bit_pack]
  by_cases hi : i < n
  · simp [hi, h i hi, bit]
  · simp [hi, bit]

theorem pack_eq_two_pow (n : Nat) (f : Nat → Bool) (k : Nat) (hk : k < n)
    (h : ∀ i, i < n → f i = decide (i = k)) : pack n f = 2 ^ k := by
  apply bit_ext
  intro i
  rw [bit_pack, bit_two_pow]
  by_cases hi : i < n
  · simp [hi, h i hi]
  · have : i ≠ k := by omega
    simp [hi, this]

theorem ne_zero_iff_bit (v : Nat) : v ≠ 0 ↔ ∃ i, bit v i = true := by
  constructor
  · intro h; exact Nat.exists_testBit_of_ne_zero h
  · rintro ⟨i, hi⟩ h0; subst h0; simp [bit] at hi

/-- rotating the one-hot grant 2^k left by one inside n bits gives 2^((k+1) % n) -/
theorem regIn_two_pow (n k : Nat) (hk : k < n) : regIn n (2 ^ k) = 2 ^ ((k + 1) % n) := by
  have hn : 0 < n := by omega
  unfold regIn
  apply pack_eq_two_pow n _ _ (Nat.mod_lt _ hn)
  intro i hi
  by_cases hk1 : k + 1 < n
  · rw [Nat.mod_eq_of_lt hk1]
    by_cases h0 : i = 0
    · subst h0
      have h1 : n - 1 ≠ k := by omega
      simp [bit_two_pow, h1]
    · have : (i - 1 = k) ↔ (i = k + 1) := by omega
      simp [h0, bit_two_pow, this]
  · have hkn : k + 1 = n := by omega
    rw [hkn, Nat.mod_self]
    by_cases h0 : i = 0
    · subst h0
      have h1 : n - 1 = k := by omega
      simp [bit_two_pow, h1]
    · have h1 : i - 1 ≠ k := by omega
      simp [h0, bit_two_pow, h1]

/-! ## the grants port in closed form -/

/-- one-hot or zero: when the register holds 2^p, `grants` is 0 (nothing requested) or 2^k for the
    single k whose `grantBit` is set -/
theorem grants_cases {n p : Nat} (reqs : Nat) (hp : p < n) :
    (grants n reqs (2 ^ p) = 0 ∧ ∀ k, k < n → bit reqs k = false) ∨
    (∃ k, k < n ∧ grants n reqs (2 ^ p) = 2 ^ k ∧ grantBit n reqs (2 ^ p) k = true) := by
  by_cases hex : ∃ k, k < n ∧ bit reqs k = true
  · right
    obtain ⟨j, hj, hr⟩ := hex
    obtain ⟨k, hk, hg⟩ := grantBit_exists hp j hj hr
    refine ⟨k, hk, ?_, hg⟩
    unfold grants
    apply pack_eq_two_pow n _ k hk
    intro i hi
    by_cases hik : i = k
    · subst hik; simp [hg]
    · cases hgi : grantBit n reqs (2 ^ p) i with
      | false => simp [hik]
      | true => exact absurd (grantBit_unique hp i k hi hk hgi hg) hik
  · left
    have hall : ∀ k, k < n → bit reqs k = false := by
      intro k hk
      cases h : bit reqs k with
      | false => rfl
      | true => exact absurd ⟨k, hk, h⟩ hex
    refine ⟨?_, hall⟩
    unfold grants
    apply pack_eq_zero
    intro i hi
    cases hgi : grantBit n reqs (2 ^ p) i with
    | false => rfl
    | true => have := grantBit_subset hp i hi hgi; rw [hall i hi] at this; cases this

theorem bit_grants (n reqs prio k : Nat) :
    bit (grants n reqs prio) k = (decide (k < n) && grantBit n reqs prio k) := bit_pack _ _ _

theorem two_pow_ne_zero (k : Nat) : (2 : Nat) ^ k ≠ 0 := Nat.ne_of_gt (Nat.two_pow_pos k)

theorem two_pow_inj {a b : Nat} (h : (2 : Nat) ^ a = 2 ^ b) : a = b :=
  (Nat.pow_right_inj (by decide)).mp h

/-! ## one clock cycle when the register holds a pointer -/

/-- the priority register holds a one-hot pointer to input `p`: its value is 2^p with p < n -/
def Pointer (n s p : Nat) : Prop := p < n ∧ s = 2 ^ p

/-- the wire `priority_en` is high exactly in the cycles that are counted as advancing by the inputs -/
def advances (hasEn : Bool) (inp : In) : Bool := !hasEn || inp.en

/-- a cycle, completely: either nothing is requested (no grant, register keeps its value unless reset),
    or the single first requester k from the pointer is granted and the register is loaded with
    2^((k+1) % n) when `priority_en` is high (and reset is low) -/
theorem cycle_cases (hasEn : Bool) {n s p : Nat} (inp : In) (hs : Pointer n s p) :
    ((∀ k, k < n → bit inp.reqs k = false) ∧
      cycle hasEn n s inp = ⟨s, 0, false, if inp.reset then 1 else s⟩) ∨
    (∃ k, k < n ∧ grantBit n inp.reqs s k = true ∧
      cycle hasEn n s inp = ⟨s, 2 ^ k, advances hasEn inp,
        if inp.reset then 1 else if advances hasEn inp then 2 ^ ((k + 1) % n) else s⟩) := by
  obtain ⟨hp, rfl⟩ := hs
  rcases grants_cases inp.reqs hp with ⟨hz, hall⟩ | ⟨k, hk, hg, hgb⟩
  · left
    refine ⟨hall, ?_⟩
    simp only [cycle, hz, priorityEn, regEnRst]
    cases hasEn <;> simp
  · right
    refine ⟨k, hk, hgb, ?_⟩
    simp only [cycle, hg, priorityEn, regEnRst, advances, regIn_two_pow n k hk]
    cases hasEn <;> simp

theorem enCount_cons (c : Cycle) (cs : List Cycle) :
    enCount (c :: cs) = (if c.prioEn then 1 else 0) + enCount cs := by
  unfold enCount
  cases h : c.prioEn <;> simp [h]; omega

theorem run_append (hasEn : Bool) (n : Nat) (a b : List In) :
    ∀ s, run hasEn n s (a ++ b) = run hasEn n (run hasEn n s a) b := by
  induction a with
  | nil => intro s; rfl
  | cons x a ih => intro s; simp [run, ih]

end PV.Arb
