import PymtlVerif.Proofs.Pipe
/-!
# LEVEL 2: a ghost "tag" machine on top of `Model/Pipe.lean` and its inductive invariant

Every fetch (every time the F stage register is enabled) gets a fresh tag `nxt`.  The ghost state follows the
tag through F, the drop unit, D, X, M, W using ONLY the model's own control signals (`reg_en_*`, `next_val_*`,
`squash_*`, `drop_in_rdy`, `commit_inst`) and logs every hand-over.  The ghost state never influences the
model (`grun_fst`).  `J` relates the logs: what leaves one stage is exactly what enters the next, in order.
`J` holds in the power-on state and is preserved by EVERY cycle under EVERY environment input (reset included),
hence in every reachable state (`J_run`).
-/
namespace PV.Pipe

structure Ghost where
  /-- first tag issued after the last reset cycle -/
  base : Nat := 0
  /-- next fresh tag -/
  nxt : Nat := 0
  /-- tag held by F (meaningful iff `val_F`), D, X, M, W, and of the squashed fetch the drop unit waits for
  (meaningful iff `drop_wait`) -/
  tF : Nat := 0
  tD : Nat := 0
  tX : Nat := 0
  tM : Nat := 0
  tW : Nat := 0
  tWait : Nat := 0
  /-- `(tag, dropped)`: a response taken out of `imemresp_q` on behalf of that fetch -/
  consumedF : List (Nat × Bool) := []
  /-- fetches squashed while in F -/
  sqF : List Nat := []
  /-- `(tag, squashed)` leaving D (either into X or squashed) -/
  outD : List (Nat × Bool) := []
  /-- tags leaving X, M, W (W = commit) -/
  outX : List Nat := []
  outM : List Nat := []
  commits : List Nat := []
deriving Repr, DecidableEq

/-- `l` if `b`, else nothing -/
def opt {α : Type} (l : List α) (b : Bool) : List α := if b then l else []

@[simp] theorem opt_true {α : Type} (l : List α) : opt l true = l := rfl
@[simp] theorem opt_false {α : Type} (l : List α) : opt l false = [] := rfl

/-- one ghost cycle; every signal is the model's, evaluated at `(s, i)` -/
def gnext (s : State) (g : Ghost) (i : EnvIn) : Ghost :=
  if i.reset then
    { g with base := g.nxt, consumedF := [], sqF := [], outD := [], outX := [], outM := [], commits := [] }
  else
    { base := g.base
      nxt := if reg_en_F s i then g.nxt + 1 else g.nxt
      tF := if reg_en_F s i then g.nxt else g.tF
      tD := if reg_en_D s i then g.tF else g.tD
      tX := if reg_en_X s i then g.tD else g.tX
      tM := if reg_en_M s i then g.tX else g.tM
      tW := if reg_en_W s i then g.tM else g.tW
      tWait := if !s.drop_wait && squash_F s i && !drop_in_rdy s i then g.tF else g.tWait
      consumedF := g.consumedF ++
        (if s.drop_wait then (if drop_in_rdy s i then [(g.tWait, true)] else [])
         else if squash_F s i && drop_in_rdy s i then [(g.tF, true)]
         else if next_val_F s i then [(g.tF, false)] else [])
      sqF := g.sqF ++ opt [g.tF] (squash_F s i)
      outD := g.outD ++ opt [(g.tD, squash_D s i)] (s.val_D && reg_en_D s i)
      outX := g.outX ++ opt [g.tX] (next_val_X s i)
      outM := g.outM ++ opt [g.tM] (next_val_M s i)
      commits := g.commits ++ opt [g.tW] (commit_inst s i) }

/-- model and ghost side by side -/
def grun : State → Ghost → List EnvIn → State × Ghost
  | s, g, [] => (s, g)
  | s, g, i :: is => grun (next s i) (gnext s g i) is

/-- the ghost state does not influence the model -/
theorem grun_fst (s : State) (g : Ghost) (envs : List EnvIn) : (grun s g envs).1 = runS s envs := by
  induction envs generalizing s g with
  | nil => rfl
  | cons i is ih => simp [grun, runS, ih]

theorem grun_append (s : State) (g : Ghost) (a b : List EnvIn) :
    grun s g (a ++ b) = grun (grun s g a).1 (grun s g a).2 b := by
  induction a generalizing s g with
  | nil => rfl
  | cons i is ih => simp [grun, ih]

/-- the inductive invariant: every log is the next stage's log plus what that stage currently holds -/
structure J (s : State) (g : Ghost) : Prop where
  base : g.base ≤ g.nxt
  F : List.range' g.base (g.nxt - g.base) =
        g.consumedF.map (·.1) ++ opt [g.tWait] s.drop_wait ++ opt [g.tF] s.val_F
  drop : g.sqF = (g.consumedF.filter (·.2)).map (·.1) ++ opt [g.tWait] s.drop_wait
  D : (g.consumedF.filter (fun e => !e.2)).map (·.1) = g.outD.map (·.1) ++ opt [g.tD] s.val_D
  X : (g.outD.filter (fun e => !e.2)).map (·.1) = g.outX ++ opt [g.tX] s.val_X
  M : g.outX = g.outM ++ opt [g.tM] s.val_M
  W : g.outM = g.commits ++ opt [g.tW] s.val_W
  wait : s.drop_wait = true → s.val_D = false ∧ s.val_X = false

theorem J_init : J State.init {} := by
  constructor <;> simp [State.init]

/-! ## one-cycle control facts used below -/

theorem reg_en_W_of_next_val_M (s : State) (i : EnvIn) (h : next_val_M s i = true) : reg_en_W s i = true := by
  simp [next_val_M, reg_en_W] at *
  cases hw : stall_W s i
  · rfl
  · rw [stall_M_of_stall_W s i hw h.1] at h; exact absurd h.2 (by decide)
theorem reg_en_M_of_next_val_X (s : State) (i : EnvIn) (h : next_val_X s i = true) : reg_en_M s i = true := by
  simp [next_val_X, reg_en_M] at *
  cases hw : stall_M s i
  · rfl
  · rw [stall_X_of_stall_M s i hw h.1] at h; exact absurd h.2 (by decide)
theorem reg_en_X_of_next_val_D (s : State) (i : EnvIn) (h : next_val_D s i = true) : reg_en_X s i = true := by
  simp [next_val_D, reg_en_X] at *
  cases hw : stall_X s i
  · rfl
  · rw [stall_D_of_stall_X s i hw h.1.1] at h; exact absurd h.1.2 (by decide)
theorem reg_en_D_of_next_val_F (s : State) (i : EnvIn) (h : next_val_F s i = true) : reg_en_D s i = true := by
  simp [next_val_F, reg_en_D] at *
  cases hw : stall_D s i
  · simp
  · rw [stall_F_of_stall_D s i hw h.1.1] at h; exact absurd h.1.2 (by decide)

/-- in WAIT the drop unit is not ready towards F: a valid F stalls -/
theorem stall_F_of_wait (s : State) (i : EnvIn) (hw : s.drop_wait = true) (hv : s.val_F = true) :
    stall_F s i = true := by
  simp [stall_F, ostall_F, imemresp_rdy, hw, hv]
theorem next_val_F_of_wait (s : State) (i : EnvIn) (hw : s.drop_wait = true) : next_val_F s i = false := by
  cases hv : s.val_F
  · simp [next_val_F, hv]
  · simp [next_val_F, stall_F_of_wait s i hw hv]
theorem osquash_X_val (s : State) (i : EnvIn) (h : s.val_X = false) : osquash_X s i = false := by
  simp [osquash_X, h]
theorem squash_F_of_val_X (s : State) (i : EnvIn) (h : s.val_X = false) : squash_F s i = false := by
  simp [squash_F, osquash_D, osquash_X_val s i h]
theorem squash_D_of_val_X (s : State) (i : EnvIn) (h : s.val_X = false) : squash_D s i = false := by
  simp [squash_D, osquash_X_val s i h]
/-- a delivery from F to D means the drop unit's input was ready -/
theorem drop_in_rdy_of_next_val_F (s : State) (i : EnvIn) (h : next_val_F s i = true) :
    drop_in_rdy s i = true ∧ s.drop_wait = false ∧ squash_F s i = false ∧ s.val_F = true ∧ stall_F s i = false := by
  have hw : s.drop_wait = false := by
    cases hw : s.drop_wait
    · rfl
    · rw [next_val_F_of_wait s i hw] at h; cases h
  simp [next_val_F] at h
  obtain ⟨⟨hv, hs⟩, hq⟩ := h
  refine ⟨?_, hw, hq, hv, hs⟩
  simp [stall_F, hv, ostall_F, imemresp_rdy, hw, imemresp_drop, hq] at hs
  exact hs.1.1.1.1

/-! ## the edge, non-reset and reset -/

theorem next_vals (s : State) (i : EnvIn) (hr : i.reset = false) :
    (next s i).val_F = (if reg_en_F s i then true else s.val_F) ∧
    (next s i).val_D = (if reg_en_D s i then next_val_F s i else s.val_D) ∧
    (next s i).val_X = (if reg_en_X s i then next_val_D s i else s.val_X) ∧
    (next s i).val_M = (if reg_en_M s i then next_val_X s i else s.val_M) ∧
    (next s i).val_W = (if reg_en_W s i then next_val_M s i else s.val_W) ∧
    (next s i).drop_wait = (if s.drop_wait then !drop_in_rdy s i else squash_F s i && !drop_in_rdy s i) := by
  simp [next, hr, imemresp_drop]
  cases s.drop_wait <;> simp

theorem next_reset (s : State) (i : EnvIn) (hr : i.reset = true) :
    (next s i).val_F = false ∧ (next s i).val_D = false ∧ (next s i).val_X = false ∧
    (next s i).val_M = false ∧ (next s i).val_W = false ∧ (next s i).drop_wait = false := by
  simp [next, hr]

theorem range'_snoc {b n : Nat} (h : b ≤ n) : List.range' b (n + 1 - b) = List.range' b (n - b) ++ [n] := by
  have e : n + 1 - b = (n - b) + 1 := by omega
  rw [e, List.range'_1_concat]
  congr 2; omega

theorem J_reset (s : State) (g : Ghost) (i : EnvIn) (hr : i.reset = true) : J (next s i) (gnext s g i) := by
  obtain ⟨a, b, c, d, e, f⟩ := next_reset s i hr
  constructor <;> simp [gnext, hr, a, b, c, d, e, f]

/-! ## preservation, clause by clause (non-reset cycle) -/

theorem gnext_nr (s : State) (g : Ghost) (i : EnvIn) (hr : i.reset = false) :
    gnext s g i =
    { base := g.base
      nxt := if reg_en_F s i then g.nxt + 1 else g.nxt
      tF := if reg_en_F s i then g.nxt else g.tF
      tD := if reg_en_D s i then g.tF else g.tD
      tX := if reg_en_X s i then g.tD else g.tX
      tM := if reg_en_M s i then g.tX else g.tM
      tW := if reg_en_W s i then g.tM else g.tW
      tWait := if !s.drop_wait && squash_F s i && !drop_in_rdy s i then g.tF else g.tWait
      consumedF := g.consumedF ++
        (if s.drop_wait then (if drop_in_rdy s i then [(g.tWait, true)] else [])
         else if squash_F s i && drop_in_rdy s i then [(g.tF, true)]
         else if next_val_F s i then [(g.tF, false)] else [])
      sqF := g.sqF ++ opt [g.tF] (squash_F s i)
      outD := g.outD ++ opt [(g.tD, squash_D s i)] (s.val_D && reg_en_D s i)
      outX := g.outX ++ opt [g.tX] (next_val_X s i)
      outM := g.outM ++ opt [g.tM] (next_val_M s i)
      commits := g.commits ++ opt [g.tW] (commit_inst s i) } := by
  simp [gnext, hr]

section step
variable {s : State} {g : Ghost} {i : EnvIn}

theorem J_W_step (h : J s g) (hr : i.reset = false) :
    (gnext s g i).outM = (gnext s g i).commits ++ opt [(gnext s g i).tW] (next s i).val_W := by
  have hv := (next_vals s i hr).2.2.2.2.1
  have hW := h.W
  have h1 := reg_en_W_of_next_val_M s i
  have h2 := stall_W_val s i
  rw [hv, gnext_nr s g i hr]
  simp only [commit_inst, reg_en_W] at *
  rcases Bool.eq_false_or_eq_true (stall_W s i) with hs | hs <;>
  rcases Bool.eq_false_or_eq_true (next_val_M s i) with hn | hn <;>
  rcases Bool.eq_false_or_eq_true s.val_W with hw | hw <;> simp_all

theorem stall_M_val (s : State) (i : EnvIn) (h : stall_M s i = true) : s.val_M = true := by
  simp [stall_M] at h; exact h.1
theorem stall_X_val (s : State) (i : EnvIn) (h : stall_X s i = true) : s.val_X = true := by
  simp [stall_X] at h; exact h.1
theorem stall_D_val (s : State) (i : EnvIn) (h : stall_D s i = true) : s.val_D = true := by
  simp [stall_D] at h; exact h.1
theorem stall_F_val (s : State) (i : EnvIn) (h : stall_F s i = true) : s.val_F = true := by
  simp [stall_F] at h; exact h.1

theorem J_M_step (h : J s g) (hr : i.reset = false) :
    (gnext s g i).outX = (gnext s g i).outM ++ opt [(gnext s g i).tM] (next s i).val_M := by
  have hv := (next_vals s i hr).2.2.2.1
  have hM := h.M
  have h1 := reg_en_M_of_next_val_X s i
  have h2 := stall_M_val s i
  rw [hv, gnext_nr s g i hr]
  simp only [next_val_M, reg_en_M] at *
  rcases Bool.eq_false_or_eq_true (stall_M s i) with hs | hs <;>
  rcases Bool.eq_false_or_eq_true (next_val_X s i) with hn | hn <;>
  rcases Bool.eq_false_or_eq_true s.val_M with hw | hw <;> simp_all

theorem J_X_step (h : J s g) (hr : i.reset = false) :
    ((gnext s g i).outD.filter (fun e => !e.2)).map (·.1) =
      (gnext s g i).outX ++ opt [(gnext s g i).tX] (next s i).val_X := by
  have hv := (next_vals s i hr).2.2.1
  have hX := h.X
  have h1 := reg_en_X_of_next_val_D s i
  have h2 := stall_X_val s i
  have h3 := stall_D_val s i
  have h4 := squash_D_origin s i
  rw [hv, gnext_nr s g i hr]
  simp only [next_val_X, reg_en_X, next_val_D, reg_en_D] at *
  rcases Bool.eq_false_or_eq_true (stall_X s i) with hs | hs <;>
  rcases Bool.eq_false_or_eq_true (stall_D s i) with hd | hd <;>
  rcases Bool.eq_false_or_eq_true (squash_D s i) with hq | hq <;>
  rcases Bool.eq_false_or_eq_true s.val_D with hw | hw <;>
  rcases Bool.eq_false_or_eq_true s.val_X with hx | hx <;> simp_all

theorem J_D_step (h : J s g) (hr : i.reset = false) :
    ((gnext s g i).consumedF.filter (fun e => !e.2)).map (·.1) =
      (gnext s g i).outD.map (·.1) ++ opt [(gnext s g i).tD] (next s i).val_D := by
  have hv := (next_vals s i hr).2.1
  have hD := h.D
  have h1 := reg_en_D_of_next_val_F s i
  have h2 := drop_in_rdy_of_next_val_F s i
  have h3 := stall_D_val s i
  rw [hv, gnext_nr s g i hr]
  simp only [reg_en_D] at *
  rcases Bool.eq_false_or_eq_true s.drop_wait with hw | hw <;>
  rcases Bool.eq_false_or_eq_true (drop_in_rdy s i) with hy | hy <;>
  rcases Bool.eq_false_or_eq_true (squash_F s i) with hq | hq <;>
  rcases Bool.eq_false_or_eq_true (next_val_F s i) with hn | hn <;>
  rcases Bool.eq_false_or_eq_true (stall_D s i) with hd | hd <;>
  rcases Bool.eq_false_or_eq_true (squash_D s i) with hq | hq <;>
  rcases Bool.eq_false_or_eq_true s.val_D with hv | hv <;> simp_all

theorem J_drop_step (h : J s g) (hr : i.reset = false) :
    (gnext s g i).sqF =
      ((gnext s g i).consumedF.filter (·.2)).map (·.1) ++ opt [(gnext s g i).tWait] (next s i).drop_wait := by
  have hv := (next_vals s i hr).2.2.2.2.2
  have hD := h.drop
  have h2 := drop_in_rdy_of_next_val_F s i
  have h3 : s.drop_wait = true → squash_F s i = false := fun hw => squash_F_of_val_X s i (h.wait hw).2
  rw [hv, gnext_nr s g i hr]
  rcases Bool.eq_false_or_eq_true s.drop_wait with hw | hw <;>
  rcases Bool.eq_false_or_eq_true (drop_in_rdy s i) with hy | hy <;>
  rcases Bool.eq_false_or_eq_true (squash_F s i) with hq | hq <;>
  rcases Bool.eq_false_or_eq_true (next_val_F s i) with hn | hn <;> simp_all

theorem J_base_step (h : J s g) (hr : i.reset = false) : (gnext s g i).base ≤ (gnext s g i).nxt := by
  have := h.base
  rw [gnext_nr s g i hr]; simp only; split <;> omega

theorem J_F_step (h : J s g) (hr : i.reset = false) :
    List.range' (gnext s g i).base ((gnext s g i).nxt - (gnext s g i).base) =
      (gnext s g i).consumedF.map (·.1) ++ opt [(gnext s g i).tWait] (next s i).drop_wait
        ++ opt [(gnext s g i).tF] (next s i).val_F := by
  have hv := (next_vals s i hr).2.2.2.2.2
  have hf := (next_vals s i hr).1
  have hF := h.F
  have hS := range'_snoc h.base
  have h3 : s.drop_wait = true → squash_F s i = false := fun hw => squash_F_of_val_X s i (h.wait hw).2
  have h4 := stall_F_of_wait s i
  have h5 := stall_F_val s i
  have h6 := squash_F_origin s i
  have h7 := drop_in_rdy_of_next_val_F s i
  rw [hv, hf, gnext_nr s g i hr]
  simp only [next_val_F, reg_en_F] at *
  rcases Bool.eq_false_or_eq_true s.drop_wait with hw | hw <;>
  rcases Bool.eq_false_or_eq_true (drop_in_rdy s i) with hy | hy <;>
  rcases Bool.eq_false_or_eq_true (squash_F s i) with hq | hq <;>
  rcases Bool.eq_false_or_eq_true (stall_F s i) with hs | hs <;>
  rcases Bool.eq_false_or_eq_true s.val_F with hvf | hvf <;> simp_all

theorem J_wait_step (h : J s g) (hr : i.reset = false) :
    (next s i).drop_wait = true → (next s i).val_D = false ∧ (next s i).val_X = false := by
  intro hw'
  rw [(next_vals s i hr).2.2.2.2.2] at hw'
  rcases Bool.eq_false_or_eq_true s.drop_wait with hw | hw
  · -- WAIT -> WAIT: D and X are empty, F stalls
    obtain ⟨hd, hx⟩ := h.wait hw
    have hn := next_val_F_of_wait s i hw
    rw [(next_vals s i hr).2.1, (next_vals s i hr).2.2.1]
    simp [hn, hd, hx, next_val_D]
  · -- SNOOP -> WAIT: a squash, which empties D and X
    simp [hw] at hw'
    have := squash_effect s i hr (squash_F_origin s i hw'.1).2
    exact ⟨this.1, this.2.1⟩

theorem J_step (h : J s g) (i : EnvIn) : J (next s i) (gnext s g i) := by
  rcases Bool.eq_false_or_eq_true i.reset with hr | hr
  · exact J_reset s g i hr
  · exact ⟨J_base_step h hr, J_F_step h hr, J_drop_step h hr, J_D_step h hr, J_X_step h hr, J_M_step h hr,
      J_W_step h hr, J_wait_step h hr⟩

end step

theorem J_grun {s : State} {g : Ghost} (h : J s g) (envs : List EnvIn) : J (grun s g envs).1 (grun s g envs).2 := by
  induction envs generalizing s g with
  | nil => exact h
  | cons i is ih => exact ih (J_step h i)

/-- the invariant holds in every state reachable from power-on, under any environment -/
theorem J_run (envs : List EnvIn) : J (grun State.init {} envs).1 (grun State.init {} envs).2 :=
  J_grun J_init envs

end PV.Pipe
