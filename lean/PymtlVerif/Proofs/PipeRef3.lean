import PymtlVerif.Proofs.PipeRef2
/-!
LEVEL 3, part 3: the bypass network delivers the ISA's register values (`bypass_ok`); preservation of the
clauses `x` (operands of the instruction entering X) and `inp` (mngr2proc stream) of `Inv`.
-/
namespace PV.Pipe
open PV.TinyRV0 (W32 Mem loadWord storeWord rget rset)

section step
variable {p : Prog} {N : Nat} {s : State} {E : Env} {c : Nat} {i : EnvIn}

/-- the M-stage result mux of a non-stalled valid ISA instruction in M -/
theorem bypass_M_ok (hR : Runs p N) (I : Inv p N s E c) (hE : envOk p E i (out s i)) (hv : s.val_M = true)
    (hj : iM s c < N) (hs : stall_M s i = false)
    (hu : (U.cs (wordAt p (iM s c))).rf_wen_pending = true ∨ U.p2m (wordAt p (iM s c)) = true) :
    bypass_M s i = U.wb (isaAt p (iM s c)) (wordAt p (iM s c)) := by
  have M := I.m hv hj
  have R := (runs_step hR hj).2
  simp only [bypass_M, M.sel, U.wb]
  rcases R.wb_sel with h0 | ⟨h1, hn⟩
  · simp only [h0, if_true]; exact M.val h0 hu
  · have hld : (U.cs (wordAt p (iM s c))).dmemreq_type = ld := by
      rcases R.mem_type with a | a | a
      · exact absurd a hn
      · exact a
      · rcases hu with u | u
        · rw [(R.st_nowen a).1] at u; cases u
        · exact absurd (R.p2m_nomem u) hn
    simp only [h1, show (1 : Nat) = 0 ↔ False by decide, if_false, if_true]
    exact load_value hR I hE hv hj hs hld

/-- registers after an optional stage -/
theorem regs_stage (hR : Runs p N) (v : Bool) (j : Nat) (hj : v = true → j < N) (_hj' : j ≤ N) (r : Nat) :
    rget (isaAt p (j + v.toNat)).regs r =
      if v = true ∧ (U.cs (wordAt p j)).rf_wen_pending = true ∧ rd (wordAt p j) = r ∧ r ≠ 0
      then U.wb (isaAt p j) (wordAt p j) else rget (isaAt p j).regs r := by
  rcases Bool.eq_false_or_eq_true v with h | h
  · subst h; simp only [Bool.toNat_true, true_and]; exact regs_next hR (hj rfl) r
  · subst h; simp

/-- bypass network: for an enabled source register without load-use hazard, the selected value is the
ISA's register value at D's position in program order -/
theorem bypass_ok (hR : Runs p N) (I : Inv p N s E c) (hE : envOk p E i (out s i)) (hj : iD s c < N)
    (hsm : stall_M s i = false) (r : Nat)
    (hnh : ¬(s.val_X = true ∧ s.cx.rf_wen_pending = true ∧ r = s.cx.rf_waddr ∧ s.cx.rf_waddr ≠ 0 ∧ s.cx.dmemreq_type = ld)) :
    byp_mux s i (byp_sel s true r) (rf_read s.rf r) = rget (isaAt p (iD s c)).regs r := by
  have hX : s.val_X = true → iX s c < N := fun h => by simp [iD, h] at hj; omega
  have hM : s.val_M = true → iM s c < N := fun h => by simp [iD, iX, h] at hj; omega
  have hW : s.val_W = true → c < N := fun h => by simp [iD, iX, iM, h] at hj; omega
  have hXl : iX s c ≤ N := by simp [iD] at hj; omega
  have hMl : iM s c ≤ N := by simp [iX] at hXl; omega
  have hWl : c ≤ N := by simp [iM] at hMl; omega
  have hW' := regs_stage hR s.val_W c hW hWl r
  have hM' := regs_stage hR s.val_M (iM s c) hM hMl r
  have hX' := regs_stage hR s.val_X (iX s c) hX hXl r
  change rget (isaAt p (iM s c)).regs r = _ at hW'
  change rget (isaAt p (iX s c)).regs r = _ at hM'
  change rget (isaAt p (iD s c)).regs r = _ at hX'
  rw [hX', hM', hW']
  have hrf : rf_read s.rf r = rget (isaAt p c).regs r := by rw [I.rf hWl]; rfl
  simp only [byp_sel, if_true]
  -- X
  by_cases cX : s.val_X = true ∧ (U.cs (wordAt p (iX s c))).rf_wen_pending = true ∧ rd (wordAt p (iX s c)) = r ∧ r ≠ 0
  · obtain ⟨vX, wX, rX, r0⟩ := cX
    have X := I.x vX (hX vX)
    have R := (runs_step hR (hX vX)).2
    obtain ⟨f1, f2, f3, f4, f5, f6, f7⟩ := ctlX_of_fields (wordAt p (iX s c))
    have hsel : (s.val_X && (r == s.cx.rf_waddr) && (s.cx.rf_waddr != 0) && s.cx.rf_wen_pending) = true := by
      simp [vX, X.ctl, f1, f3, wX, rX, r0]
    rw [if_pos hsel, if_pos ⟨vX, wX, rX, r0⟩]
    simp only [byp_mux, byp_x, show (1 : Nat) = 0 ↔ False by decide, if_false, if_true, bypass_X]
    rw [alu_X_ok hR I vX (hX vX) (Or.inl wX)]
    have hnl : (U.cs (wordAt p (iX s c))).dmemreq_type ≠ ld := by
      intro hl; apply hnh
      exact ⟨vX, by rw [X.ctl, f1]; exact wX, by rw [X.ctl, f3]; exact rX.symm, by rw [X.ctl, f3, rX]; exact r0,
        by rw [X.ctl, f5]; exact hl⟩
    have hnr : (U.cs (wordAt p (iX s c))).dmemreq_type = nr := by
      rcases R.mem_type with a | a | a
      · exact a
      · exact absurd a hnl
      · rw [(R.st_nowen a).1] at wX; cases wX
    simp [U.wb, R.nomem_sel hnr]
  · have hselX : (s.val_X && (r == s.cx.rf_waddr) && (s.cx.rf_waddr != 0) && s.cx.rf_wen_pending) = false := by
      rcases Bool.eq_false_or_eq_true s.val_X with vX | vX
      · have X := I.x vX (hX vX)
        obtain ⟨f1, f2, f3, f4, f5, f6, f7⟩ := ctlX_of_fields (wordAt p (iX s c))
        simp only [vX, X.ctl, f1, f3, Bool.true_and]
        rcases Bool.eq_false_or_eq_true (U.cs (wordAt p (iX s c))).rf_wen_pending with a | a
        · simp only [vX, a, true_and] at cX
          simp only [a, Bool.and_true]
          by_cases e : r = rd (wordAt p (iX s c))
          · subst e; simp at cX; simp [cX]
          · simp [e]
        · simp [a]
      · simp [vX]
    rw [if_neg (by rw [hselX]; simp), if_neg cX]
    -- M
    by_cases cM : s.val_M = true ∧ (U.cs (wordAt p (iM s c))).rf_wen_pending = true ∧ rd (wordAt p (iM s c)) = r ∧ r ≠ 0
    · obtain ⟨vM, wM, rM, r0⟩ := cM
      have M := I.m vM (hM vM)
      have hsel : (s.val_M && (r == s.cm.rf_waddr) && (s.cm.rf_waddr != 0) && s.cm.rf_wen_pending) = true := by
        simp [vM, M.wen, M.waddr, wM, rM, r0]
      rw [if_pos hsel, if_pos ⟨vM, wM, rM, r0⟩]
      simp only [byp_mux, byp_m, show (2 : Nat) = 0 ↔ False by decide, show (2 : Nat) = 1 ↔ False by decide,
        if_false, if_true]
      exact bypass_M_ok hR I hE vM (hM vM) hsm (Or.inl wM)
    · have hselM : (s.val_M && (r == s.cm.rf_waddr) && (s.cm.rf_waddr != 0) && s.cm.rf_wen_pending) = false := by
        rcases Bool.eq_false_or_eq_true s.val_M with vM | vM
        · have M := I.m vM (hM vM)
          simp only [vM, M.wen, M.waddr, Bool.true_and]
          rcases Bool.eq_false_or_eq_true (U.cs (wordAt p (iM s c))).rf_wen_pending with a | a
          · simp only [vM, a, true_and] at cM
            simp only [a, Bool.and_true]
            by_cases e : r = rd (wordAt p (iM s c))
            · subst e; simp at cM; simp [cM]
            · simp [e]
          · simp [a]
        · simp [vM]
      rw [if_neg (by rw [hselM]; simp), if_neg cM]
      -- W
      by_cases cW : s.val_W = true ∧ (U.cs (wordAt p c)).rf_wen_pending = true ∧ rd (wordAt p c) = r ∧ r ≠ 0
      · obtain ⟨vW, wW, rW, r0⟩ := cW
        have W := I.w vW (hW vW)
        have hsel : (s.val_W && (r == s.cw.rf_waddr) && (s.cw.rf_waddr != 0) && s.cw.rf_wen_pending) = true := by
          simp [vW, W.wen, W.waddr, wW, rW, r0]
        rw [if_pos hsel, if_pos ⟨vW, wW, rW, r0⟩]
        simp only [byp_mux, byp_w, show (3 : Nat) = 0 ↔ False by decide, show (3 : Nat) = 1 ↔ False by decide,
          show (3 : Nat) = 2 ↔ False by decide, if_false, bypass_W]
        exact W.val (Or.inl wW)
      · have hselW : (s.val_W && (r == s.cw.rf_waddr) && (s.cw.rf_waddr != 0) && s.cw.rf_wen_pending) = false := by
          rcases Bool.eq_false_or_eq_true s.val_W with vW | vW
          · have W := I.w vW (hW vW)
            simp only [vW, W.wen, W.waddr, Bool.true_and]
            rcases Bool.eq_false_or_eq_true (U.cs (wordAt p c)).rf_wen_pending with a | a
            · simp only [vW, a, true_and] at cW
              simp only [a, Bool.and_true]
              by_cases e : r = rd (wordAt p c)
              · subst e; simp at cW; simp [cW]
              · simp [e]
            · simp [a]
          · simp [vW]
        rw [if_neg (by rw [hselW]; simp), if_neg cW]
        simp only [byp_mux, byp_d, if_true]
        exact hrf

/-- a taken ISA branch in a non-stalled X squashes -/
theorem osquash_of_tkX (hR : Runs p N) (I : Inv p N s E c) (ht : tkX p N s c) (hs : stall_X s i = false) :
    osquash_X s i = true := by
  obtain ⟨hv, hj, hk⟩ := ht
  simp [osquash_X, hv, hs, redirect_X_ok hR I hv hj, hk]

/-- D leaving towards X is on the ISA's path -/
theorem d_onpath (hR : Runs p N) (I : Inv p N s E c) (hnv : next_val_D s i = true) (hj : iD s c < N) :
    s.pc_D = (isaAt p (iD s c)).pc ∧ s.inst_D = wordAt p (iD s c) := by
  simp [next_val_D] at hnv
  obtain ⟨⟨hv, hsd⟩, hq⟩ := hnv
  apply I.d hv hj
  intro ht
  have hsx : stall_X s i = false := by
    rcases Bool.eq_false_or_eq_true (stall_X s i) with a | a
    · rw [stall_D_of_stall_X s i a hv] at hsd; cases hsd
    · exact a
  have := osquash_of_tkX hR I ht hsx
  simp [squash_D, hv, this] at hq

/-- the mngr2proc channel: queue ++ source list loses its head exactly when D reads it -/
theorem mchan (hE : envOk p E i (out s i)) :
    let L := (if s.mngr2proc_q.full then [s.mngr2proc_q.entry] else []) ++ E.src
    let L' := (if (next s i).mngr2proc_q.full then [(next s i).mngr2proc_q.entry] else []) ++ (envNext E i (out s i)).src
    (mngr2proc_en s i = false → L' = L) ∧
    (mngr2proc_en s i = true → mngr2proc_rdy s i = true → L = mngr2proc_data s i :: L') := by
  have hr := hE.1
  obtain ⟨_, _, _, hmn⟩ := hE
  have eq : (next s i).mngr2proc_q = s.mngr2proc_q.next i.reset i.mngr2proc_en i.mngr2proc_msg (mngr2proc_en s i) := rfl
  have es : (envNext E i (out s i)).src = if i.mngr2proc_en then E.src.tail else E.src := rfl
  simp only [eq, es]
  rcases Bool.eq_false_or_eq_true i.mngr2proc_en with he | he
  · obtain ⟨hrdy, v, rest, h1, h2⟩ := hmn he
    have hf : s.mngr2proc_q.full = false := by simp [out, BypQ.enq_rdy] at hrdy; exact hrdy.2
    refine ⟨fun hd => ?_, fun hd _ => ?_⟩
    · simp [BypQ.next, hd, he, hr, hf, h1, h2]
    · simp [BypQ.next, hd, he, hf, h1, h2, mngr2proc_data, BypQ.deq_ret]
  · refine ⟨fun hd => ?_, fun hd hrdy => ?_⟩
    · simp [BypQ.next, hd, he, hr]
    · have hf : s.mngr2proc_q.full = true := by simpa [mngr2proc_rdy, BypQ.deq_rdy, he, hr] using hrdy
      simp [BypQ.next, hd, he, hf, mngr2proc_data, BypQ.deq_ret]

theorem inp_next (hR : Runs p N) (I : Inv p N s E c) (hE : envOk p E i (out s i)) :
    iD (next s i) (c' s i c) ≤ N →
    (if (next s i).mngr2proc_q.full then [(next s i).mngr2proc_q.entry] else []) ++ (envNext E i (out s i)).src =
      (isaAt p (iD (next s i) (c' s i c))).inp := by
  have hr := hE.1
  rw [iD_next s i c hr]
  obtain ⟨hc0, hc1⟩ := mchan hE
  intro hj
  by_cases hadv : (reg_en_D s i && !osquash_X s i) = true ∧ s.val_D = true
  · obtain ⟨ha, hv⟩ := hadv
    simp only [ha, if_true] at hj ⊢
    simp at ha
    have hnv : next_val_D s i = true := by
      have : squash_D s i = false := by simp [squash_D, ha.2]
      simp [next_val_D, hv, this]
      simpa [reg_en_D, this] using ha.1
    have hi : iF s c = iD s c + 1 := by simp [iF, hv]
    rw [hi] at hj ⊢
    have hjl : iD s c < N := by omega
    obtain ⟨_, hw⟩ := d_onpath hR I hnv hjl
    have R := (runs_step hR hjl).2
    rw [(runs_step hR hjl).1]
    simp only [U.next]
    have hm : mngr2proc_D s = U.m2p (wordAt p (iD s c)) := by rw [← hw]; rfl
    have hen : mngr2proc_en s i = U.m2p (wordAt p (iD s c)) := by
      simp [next_val_D] at hnv
      simp [mngr2proc_en, hnv, hm]
    rcases Bool.eq_false_or_eq_true (U.m2p (wordAt p (iD s c))) with a | a
    · have hrdy : mngr2proc_rdy s i = true := by
        simp [next_val_D] at hnv
        have := hnv.1.2
        simp [stall_D, hv, ostall_D, ostall_mngr_D, hm, a] at this
        exact this.1.1.1.1
      have := hc1 (by rw [hen]; exact a) hrdy
      rw [I.inp (by omega)] at this
      simp only [a, if_true]
      rw [this]; rfl
    · simp only [a, Bool.false_eq_true, if_false]
      rw [hc0 (by rw [hen]; exact a)]
      exact I.inp (by omega)
  · -- D does not move into X: nothing is read
    have hen : mngr2proc_en s i = false := by
      rcases Bool.eq_false_or_eq_true s.val_D with hv | hv
      · have : (reg_en_D s i && !osquash_X s i) = false := by
          rcases Bool.eq_false_or_eq_true (reg_en_D s i && !osquash_X s i) with a | a
          · exact absurd ⟨a, hv⟩ hadv
          · exact a
        simp [mngr2proc_en, hv]
        intro h1 h2
        simp [reg_en_D, h1, squash_D, hv] at this
        simp [squash_D, hv, this] at h2
      · simp [mngr2proc_en, hv]
    rw [hc0 hen]
    have : (if (reg_en_D s i && !osquash_X s i) = true then iF s c else iD s c) = iD s c := by
      split
      · next h =>
        have hv : s.val_D = false := by
          rcases Bool.eq_false_or_eq_true s.val_D with hv | hv
          · exact absurd ⟨h, hv⟩ hadv
          · exact hv
        simp [iF, hv]
      · rfl
    rw [this] at hj ⊢
    exact I.inp hj


theorem x_next (hR : Runs p N) (I : Inv p N s E c) (hE : envOk p E i (out s i)) :
    (next s i).val_X = true → iX (next s i) (c' s i c) < N → XOk p (next s i) (iX (next s i) (c' s i c)) := by
  have hr := hE.1
  obtain ⟨_, _, hX, _, _, _⟩ := next_vals s i hr
  rw [iX_next s i c hr]
  intro hv hj
  rcases Bool.eq_false_or_eq_true (stall_X s i) with hs | hs
  · simp only [hs, if_true] at hj ⊢
    obtain ⟨h1, h2, h3, h4, h5, h6⟩ := hold_X s i hr hs
    have X := I.x (stall_X_val s i hs) hj
    exact ⟨by rw [h2]; exact X.ctl, by rw [h3]; exact X.op1, by rw [h4]; exact X.op2, by rw [h5]; exact X.sto,
      by rw [h6]; exact X.tgt⟩
  · simp only [hs, Bool.false_eq_true, if_false] at hj ⊢
    have e1 : (next s i).val_X = next_val_D s i := by simp [hX, reg_en_X, hs]
    rw [e1] at hv
    obtain ⟨hpc, hw⟩ := d_onpath hR I hv hj
    have R := (runs_step hR hj).2
    have hvd : s.val_D = true := by simp [next_val_D] at hv; exact hv.1.1
    have hsd : stall_D s i = false := by simp [next_val_D] at hv; exact hv.1.2
    have hsm : stall_M s i = false := by
      simp [stall_D, hvd] at hsd
      simp [stall_M, hsd.1.2, hsd.2]
    have ecs : cs s = U.cs (wordAt p (iD s c)) := by rw [← hw]; rfl
    have hhz : ostall_hazard_D s = false := by
      simp [stall_D, hvd, ostall_D] at hsd; exact hsd.1.1.1.2
    have e2 : (next s i).cx = ctlX_next s := by simp [next, hr, reg_en_X, hs]
    have e3 : (next s i).op1_X = op1_byp_D s i := by simp [next, hr, reg_en_X, hs]
    have e4 : (next s i).op2_X = op2_D s i := by simp [next, hr, reg_en_X, hs]
    have e5 : (next s i).store_X = op2_byp_D s i := by simp [next, hr, reg_en_X, hs]
    have e6 : (next s i).br_target_X = pc_plus_imm_D s := by simp [next, hr, reg_en_X, hs]
    have hb1 : (U.cs (wordAt p (iD s c))).rs1_en = true → op1_byp_D s i = U.op1 (isaAt p (iD s c)) (wordAt p (iD s c)) := by
      intro hen
      have := bypass_ok hR I hE hj hsm (rs1 s.inst_D) (by
        intro ⟨a, b, c1, d, e⟩
        have : ostall_ld_X_rs1_D s = true := by simp [ostall_ld_X_rs1_D, ecs, hen, a, b, c1, d, e]
        simp [ostall_hazard_D, this] at hhz)
      simp only [op1_byp_D, op1_byp_sel_D, rf_rdata0_D, ecs, hen]
      rw [this, hw]; rfl
    have hb2 : (U.cs (wordAt p (iD s c))).rs2_en = true → op2_byp_D s i = U.rs2v (isaAt p (iD s c)) (wordAt p (iD s c)) := by
      intro hen
      have := bypass_ok hR I hE hj hsm (rs2 s.inst_D) (by
        intro ⟨a, b, c1, d, e⟩
        have : ostall_ld_X_rs2_D s = true := by simp [ostall_ld_X_rs2_D, ecs, hen, a, b, c1, d, e]
        simp [ostall_hazard_D, this] at hhz)
      simp only [op2_byp_D, op2_byp_sel_D, rf_rdata1_D, ecs, hen]
      rw [this, hw]; rfl
    refine ⟨by rw [e2, ctlX_next_eq, hw], by rw [e3]; exact hb1, ?_, by rw [e5]; exact hb2, ?_⟩
    · intro hu
      rw [e4]
      simp only [op2_D, ecs, U.op2]
      by_cases h0 : (U.cs (wordAt p (iD s c))).op2_sel = 0
      · simp only [h0, if_true]
        rcases hu with u | u
        · exact absurd h0 u
        · exact hb2 u
      · simp only [h0, if_false]
        by_cases h1 : (U.cs (wordAt p (iD s c))).op2_sel = 1
        · simp only [h1, if_true]; rw [← hw]; rfl
        · simp only [h1, if_false]
          have h2 : (U.cs (wordAt p (iD s c))).op2_sel = 2 := by have := R.op2_sel_lt; omega
          simp only [h2, if_true]
          have hm2 : U.m2p (wordAt p (iD s c)) = true := by rw [← R.m2p_sel]; exact h2
          have hm : mngr2proc_D s = true := by rw [← hm2, ← hw]; rfl
          have hrdy : mngr2proc_rdy s i = true := by
            simp [stall_D, hvd, ostall_D, ostall_mngr_D, hm] at hsd
            exact hsd.1.1.1.1
          have hen : mngr2proc_en s i = true := by
            simp [next_val_D] at hv
            simp [mngr2proc_en, hv, hm]
          have := (mchan hE).2 hen hrdy
          rw [I.inp (by omega)] at this
          rw [this]; rfl
    · intro hb
      rw [e6]
      simp only [pc_plus_imm_D, hpc, imm_D, ecs, U.imm, hw]

end step
end PV.Pipe
