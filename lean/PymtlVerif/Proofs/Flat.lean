import PymtlVerif.Model.Flat
import Std.Data.String.ToNat
/-!
Theorems about the flat port map of the Yosys backend (`Model/Flat.lean`).
-/
namespace PV.Flat
open PV.SV

/-! ## side conditions on types -/

def fieldNames : Fields → List String
  | .nil => []
  | .cons f _ rest => f :: fieldNames rest

mutual
  /-- every vector in the type has a positive width -/
  def Pos : PTy → Prop
    | .vec w => 0 < w
    | .arr _ e => Pos e
    | .struct _ fs => PosFields fs
  def PosFields : Fields → Prop
    | .nil => True
    | .cons _ t rest => Pos t ∧ PosFields rest
end

mutual
  /-- the field names of every struct in the type are pairwise distinct (they are the keys of a Python dict) -/
  def Distinct : PTy → Prop
    | .vec _ => True
    | .arr _ e => Distinct e
    | .struct _ fs => (fieldNames fs).Nodup ∧ DistinctFields fs
  def DistinctFields : Fields → Prop
    | .nil => True
    | .cons _ t rest => Distinct t ∧ DistinctFields rest
end

/-! ## arithmetic of part selects -/

theorem pow_mul_succ (w n : Nat) : 2 ^ ((n + 1) * w) = 2 ^ w * 2 ^ (n * w) := by
  rw [Nat.succ_mul, Nat.add_comm, Nat.pow_add]

theorem packLE_lt (w : Nat) (xs : List Nat) (h : ∀ x ∈ xs, x < 2 ^ w) :
    packLE w xs < 2 ^ (xs.length * w) := by
  induction xs with
  | nil => simp [packLE]
  | cons x xs ih =>
    have hx : x < 2 ^ w := h x (by simp)
    have hp := ih (fun y hy => h y (by simp [hy]))
    simp only [packLE, List.length_cons]
    rw [pow_mul_succ]
    calc x + 2 ^ w * packLE w xs < 2 ^ w + 2 ^ w * packLE w xs := by omega
      _ = 2 ^ w * (packLE w xs + 1) := by rw [Nat.mul_add, Nat.mul_one, Nat.add_comm]
      _ ≤ 2 ^ w * 2 ^ (xs.length * w) := Nat.mul_le_mul_left _ hp

/-- element `i` of a packed array is the part select `[i*w +: w]` -/
theorem packLE_extract (w : Nat) (xs : List Nat) (h : ∀ x ∈ xs, x < 2 ^ w) (i : Nat) (hi : i < xs.length) :
    packLE w xs / 2 ^ (i * w) % 2 ^ w = xs[i] := by
  induction xs generalizing i with
  | nil => simp at hi
  | cons x xs ih =>
    have hx : x < 2 ^ w := h x (by simp)
    have hpos : 0 < 2 ^ w := Nat.two_pow_pos w
    cases i with
    | zero =>
      simp only [packLE, Nat.zero_mul, Nat.pow_zero, Nat.div_one, List.getElem_cons_zero]
      rw [Nat.add_mul_mod_self_left, Nat.mod_eq_of_lt hx]
    | succ i =>
      simp only [packLE, List.getElem_cons_succ]
      rw [pow_mul_succ, ← Nat.div_div_eq_div_mul, Nat.add_mul_div_left _ _ hpos,
        Nat.div_eq_of_lt hx, Nat.zero_add]
      exact ih (fun y hy => h y (by simp [hy])) i (by simpa using hi)

/-- a part select of a part select -/
theorem slice_slice (X off w lsb k : Nat) (h : lsb + k ≤ w) :
    (X / 2 ^ off % 2 ^ w) / 2 ^ lsb % 2 ^ k = X / 2 ^ (lsb + off) % 2 ^ k := by
  obtain ⟨d, rfl⟩ : ∃ d, w = lsb + d := ⟨w - lsb, by omega⟩
  rw [Nat.pow_add, Nat.mod_mul_right_div_self, Nat.div_div_eq_div_mul, ← Nat.pow_add,
    Nat.add_comm off lsb]
  exact Nat.mod_mod_of_dvd _ (Nat.pow_dvd_pow 2 (by omega))


/-! ## the packed image fits its width -/

mutual
  theorem toBits_lt : ∀ (T : PTy) (v : Val), HasTy v T → toBits T v < 2 ^ T.width
    | .vec w, v, h => by
      cases v <;> simp [HasTy] at h
      simpa [toBits, PTy.width] using h
    | .arr n e, v, h => by
      cases v <;> simp [HasTy] at h
      rename_i es
      obtain ⟨hl, he⟩ := h
      simp only [toBits, PTy.width]
      have := packLE_lt e.width (es.map (toBits e)) (by
        intro x hx
        obtain ⟨v, hv, rfl⟩ := List.mem_map.mp hx
        exact toBits_lt e v (he v hv))
      simpa [hl] using this
    | .struct _ fs, v, h => by
      cases v <;> simp [HasTy] at h
      simp only [toBits, PTy.width]
      exact fieldsBits_lt fs _ h
  theorem fieldsBits_lt : ∀ (fs : Fields) (vs : List Val), HasTyFields vs fs → fieldsBits fs vs < 2 ^ fs.width
    | .nil, vs, _ => by cases vs <;> simp [fieldsBits, Fields.width]
    | .cons f t rest, vs, h => by
      cases vs with
      | nil => simp [HasTyFields] at h
      | cons v vs =>
        simp only [HasTyFields] at h
        have h1 := toBits_lt t v h.1
        have h2 := fieldsBits_lt rest vs h.2
        simp only [fieldsBits, Fields.width]
        rw [Nat.pow_add]
        calc _ < toBits t v * 2 ^ rest.width + 2 ^ rest.width := by omega
          _ = (toBits t v + 1) * 2 ^ rest.width := by rw [Nat.add_mul, Nat.one_mul]
          _ ≤ 2 ^ t.width * 2 ^ rest.width := Nat.mul_le_mul_right _ h1
end


/-! ## every leaf is a non-empty range inside the packed vector -/

theorem mem_flatArr {n w : Nat} {ls : List Leaf} {l : Leaf} :
    l ∈ flatArr n w ls ↔ ∃ i, i < n ∧ ∃ l0 ∈ ls, l = Leaf.under (.idx i) (i * w) l0 := by
  simp only [flatArr, List.mem_flatMap, List.mem_range, List.mem_map]
  constructor
  · rintro ⟨i, hi, l0, hl0, rfl⟩; exact ⟨i, hi, l0, hl0, rfl⟩
  · rintro ⟨i, hi, l0, hl0, rfl⟩; exact ⟨i, hi, l0, hl0, rfl⟩

theorem mem_flatFields_cons {f : String} {t : PTy} {rest : Fields} {l : Leaf} :
    l ∈ flatFields (.cons f t rest) ↔
      (∃ l0 ∈ flatPorts t, l = Leaf.under (.fld f) rest.width l0) ∨ l ∈ flatFields rest := by
  simp only [flatFields, List.mem_append, List.mem_map]
  constructor
  · rintro (⟨l0, hl0, rfl⟩ | h)
    · exact Or.inl ⟨l0, hl0, rfl⟩
    · exact Or.inr h
  · rintro (⟨l0, hl0, rfl⟩ | h)
    · exact Or.inl ⟨l0, hl0, rfl⟩
    · exact Or.inr h

mutual
  theorem flat_range : ∀ (T : PTy), Pos T → ∀ l ∈ flatPorts T, l.lsb ≤ l.msb ∧ l.msb < T.width
    | .vec w, hp, l, hl => by
      simp only [flatPorts, List.mem_singleton] at hl
      subst hl
      simp only [Pos] at hp
      simp only [PTy.width]
      omega
    | .arr n e, hp, l, hl => by
      simp only [flatPorts] at hl
      obtain ⟨i, hi, l0, hl0, rfl⟩ := mem_flatArr.mp hl
      have h0 := flat_range e (by simpa [Pos] using hp) l0 hl0
      simp only [Leaf.under, PTy.width]
      have h1 : (i + 1) * e.width ≤ n * e.width := Nat.mul_le_mul_right _ hi
      rw [Nat.succ_mul] at h1
      omega
    | .struct _ fs, hp, l, hl => by
      simp only [flatPorts] at hl
      simp only [PTy.width]
      exact flatFields_range fs (by simpa [Pos] using hp) l hl
  theorem flatFields_range : ∀ (fs : Fields), PosFields fs → ∀ l ∈ flatFields fs, l.lsb ≤ l.msb ∧ l.msb < fs.width
    | .nil, _, l, hl => by simp [flatFields] at hl
    | .cons f t rest, hp, l, hl => by
      simp only [PosFields] at hp
      simp only [Fields.width]
      rcases mem_flatFields_cons.mp hl with ⟨l0, hl0, rfl⟩ | h
      · have h0 := flat_range t hp.1 l0 hl0
        simp only [Leaf.under]
        omega
      · have h0 := flatFields_range rest hp.2 l h
        omega
end


/-! ## a leaf is the part select `[msb:lsb]` of the packed image -/

/-- `r` resolves to a vector-typed component whose value is bits `[msb:lsb]` of `X` -/
def SliceOK (X msb lsb : Nat) (r : Option (PTy × Val)) : Prop :=
  ∃ T' v', r = some (T', v') ∧ X / 2 ^ lsb % 2 ^ (msb + 1 - lsb) = toBits T' v' ∧
    msb + 1 - lsb = T'.width ∧ HasTy v' T' ∧ ∃ w, T' = .vec w

theorem SliceOK.lift {X x off w msb lsb : Nat} {r : Option (PTy × Val)}
    (hx : X / 2 ^ off % 2 ^ w = x) (hr : lsb ≤ msb ∧ msb < w) (h : SliceOK x msb lsb r) :
    SliceOK X (msb + off) (lsb + off) r := by
  obtain ⟨T', v', h1, h2, h3, h4, h5⟩ := h
  have hk : msb + off + 1 - (lsb + off) = msb + 1 - lsb := by omega
  refine ⟨T', v', h1, ?_, by rw [hk]; exact h3, h4, h5⟩
  rw [hk, ← slice_slice X off w lsb (msb + 1 - lsb) (by omega), hx]
  exact h2

theorem field_extract_hi (a c R W : Nat) (ha : a < 2 ^ W) (hc : c < 2 ^ R) :
    (a * 2 ^ R + c) / 2 ^ R % 2 ^ W = a := by
  rw [Nat.add_comm, Nat.add_mul_div_right _ _ (Nat.two_pow_pos R), Nat.div_eq_of_lt hc, Nat.zero_add,
    Nat.mod_eq_of_lt ha]

theorem field_extract_lo (a c R : Nat) (hc : c < 2 ^ R) :
    (a * 2 ^ R + c) / 2 ^ 0 % 2 ^ R = c := by
  rw [Nat.pow_zero, Nat.div_one, Nat.mul_add_mod_self_right, Nat.mod_eq_of_lt hc]

mutual
  theorem flat_is_slice_aux : ∀ (T : PTy) (v : Val), HasTy v T → Pos T → Distinct T →
      ∀ l ∈ flatPorts T, SliceOK (toBits T v) l.msb l.lsb (leafAt T v l.path)
    | .vec w, v, h, hp, _, l, hl => by
      simp only [flatPorts, List.mem_singleton] at hl
      subst hl
      simp only [Pos] at hp
      cases v <;> simp [HasTy] at h
      rename_i x
      refine ⟨.vec w, .bits x, by simp [leafAt], ?_, by simp [PTy.width]; omega, by simpa [HasTy] using h, w, rfl⟩
      have : w - 1 + 1 - 0 = w := by omega
      simp only [toBits, Nat.pow_zero, Nat.div_one, this]
      exact Nat.mod_eq_of_lt h
    | .arr n e, v, h, hp, hd, l, hl => by
      cases v <;> simp [HasTy] at h
      rename_i es
      obtain ⟨hlen, hes⟩ := h
      simp only [flatPorts] at hl
      obtain ⟨i, hi, l0, hl0, rfl⟩ := mem_flatArr.mp hl
      have hie : i < es.length := by omega
      have hp' : Pos e := by simpa [Pos] using hp
      have ih := flat_is_slice_aux e es[i] (hes _ (List.getElem_mem hie)) hp' (by simpa [Distinct] using hd) l0 hl0
      have hr := flat_range e hp' l0 hl0
      have hla : leafAt (.arr n e) (.arr es) (Leaf.under (.idx i) (i * e.width) l0).path
          = leafAt e es[i] l0.path := by
        simp [Leaf.under, leafAt, List.getElem?_eq_getElem hie]
      rw [hla]
      refine SliceOK.lift ?_ hr ih
      simp only [toBits]
      have := packLE_extract e.width (es.map (toBits e)) (by
        intro x hx
        obtain ⟨v, hv, rfl⟩ := List.mem_map.mp hx
        exact toBits_lt e v (hes v hv)) i (by simpa using hie)
      simpa using this
    | .struct nm fs, v, h, hp, hd, l, hl => by
      cases v <;> simp [HasTy] at h
      rename_i vs
      simp only [flatPorts] at hl
      simp only [Distinct] at hd
      obtain ⟨g, p, hpath, _, t, v, hf, hs⟩ :=
        fields_slice_aux fs vs h (by simpa [Pos] using hp) hd.1 hd.2 l hl
      have : leafAt (.struct nm fs) (.struct vs) l.path = leafAt t v p := by
        rw [hpath]; simp [leafAt, hf]
      rw [this]
      simpa [toBits] using hs
  theorem fields_slice_aux : ∀ (fs : Fields) (vs : List Val), HasTyFields vs fs → PosFields fs →
      (fieldNames fs).Nodup → DistinctFields fs → ∀ l ∈ flatFields fs,
      ∃ g p, l.path = .fld g :: p ∧ g ∈ fieldNames fs ∧ ∃ t v, fieldAt fs vs g = some (t, v) ∧
        SliceOK (fieldsBits fs vs) l.msb l.lsb (leafAt t v p)
    | .nil, _, _, _, _, _, l, hl => by simp [flatFields] at hl
    | .cons f t rest, vs, h, hp, hn, hd, l, hl => by
      cases vs with
      | nil => simp [HasTyFields] at h
      | cons v vs =>
        simp only [HasTyFields] at h
        simp only [PosFields] at hp
        simp only [DistinctFields] at hd
        simp only [fieldNames, List.nodup_cons] at hn
        have hv := toBits_lt t v h.1
        have hrest := fieldsBits_lt rest vs h.2
        rcases mem_flatFields_cons.mp hl with ⟨l0, hl0, rfl⟩ | hm
        · refine ⟨f, l0.path, rfl, by simp [fieldNames], t, v, by simp [fieldAt], ?_⟩
          have ih := flat_is_slice_aux t v h.1 hp.1 hd.1 l0 hl0
          have hr := flat_range t hp.1 l0 hl0
          exact SliceOK.lift (field_extract_hi _ _ _ _ hv hrest) hr ih
        · obtain ⟨g, p, hpath, hg, t', v', hf, hs⟩ := fields_slice_aux rest vs h.2 hp.2 hn.2 hd.2 l hm
          have hne : f ≠ g := fun e => hn.1 (e ▸ hg)
          refine ⟨g, p, hpath, by simp [fieldNames, hg], t', v', by simp [fieldAt, hne, hf], ?_⟩
          have hr := flatFields_range rest hp.2 l hm
          have := SliceOK.lift (X := fieldsBits (.cons f t rest) (v :: vs)) (off := 0)
            (field_extract_lo (toBits t v) _ _ hrest) hr hs
          simpa [fieldsBits] using this
end

/-- **flat_is_slice**: for a well-typed value `v : T`, every flattened port `l` of the Yosys backend
    names a vector-typed component `v'` of `v` (reached by `l.path`) and the bits `[l.msb : l.lsb]` of
    `to_bits(v)` are exactly that component. -/
theorem flat_is_slice {T : PTy} {v : Val} (h : HasTy v T) (hp : Pos T) (hd : Distinct T)
    {l : Leaf} (hl : l ∈ flatPorts T) :
    ∃ T' v', leafAt T v l.path = some (T', v') ∧
      toBits T v / 2 ^ l.lsb % 2 ^ (l.msb + 1 - l.lsb) = toBits T' v' ∧
      l.msb + 1 - l.lsb = T'.width ∧ HasTy v' T' ∧ ∃ w, T' = .vec w :=
  flat_is_slice_aux T v h hp hd l hl


/-! ## the leaves partition the packed vector -/

/-- bit `b` of the packed vector belongs to leaf `l` -/
def covers (b : Nat) (l : Leaf) : Bool := decide (l.lsb ≤ b) && decide (b ≤ l.msb)

theorem covers_iff {b : Nat} {l : Leaf} : covers b l = true ↔ l.lsb ≤ b ∧ b ≤ l.msb := by
  simp [covers]

theorem countP_covers_under (b : Nat) (t : Tok) (off : Nat) (ls : List Leaf) :
    (ls.map (Leaf.under t off)).countP (covers b) = if off ≤ b then ls.countP (covers (b - off)) else 0 := by
  rw [List.countP_map]
  split
  · rename_i h
    apply List.countP_congr
    intro l _
    simp only [Function.comp, covers_iff, Leaf.under]
    omega
  · rename_i h
    rw [List.countP_eq_zero]
    intro l _
    simp only [Function.comp, covers_iff, Leaf.under]
    omega

theorem ite1 (b r t : Nat) : ((if r ≤ b then (if b - r < t then 1 else 0) else 0) + (if b < r then 1 else 0) : Nat) = if b < t + r then 1 else 0 := by
  by_cases h1 : r ≤ b <;> by_cases h2 : b - r < t <;> by_cases h3 : b < r <;> by_cases h4 : b < t + r <;>
    simp only [h1, h2, h3, h4, if_true, if_false] <;> omega
theorem ite2 (b nw w : Nat) : ((if b < nw then 1 else 0) + (if nw ≤ b then (if b - nw < w then 1 else 0) else 0) : Nat) = if b < nw + w then 1 else 0 := by
  by_cases h1 : nw ≤ b <;> by_cases h2 : b - nw < w <;> by_cases h3 : b < nw <;> by_cases h4 : b < nw + w <;>
    simp only [h1, h2, h3, h4, if_true, if_false] <;> omega

theorem flatArr_succ (n w : Nat) (ls : List Leaf) :
    flatArr (n + 1) w ls = flatArr n w ls ++ ls.map (Leaf.under (.idx n) (n * w)) := by
  simp [flatArr, List.range_succ, List.flatMap_append]

theorem countP_flatArr (w : Nat) (ls : List Leaf)
    (h : ∀ b, ls.countP (covers b) = if b < w then 1 else 0) (n b : Nat) :
    (flatArr n w ls).countP (covers b) = if b < n * w then 1 else 0 := by
  induction n with
  | zero => simp [flatArr]
  | succ n ih =>
    rw [flatArr_succ, List.countP_append, ih, countP_covers_under, h, Nat.succ_mul]
    exact ite2 b (n * w) w

mutual
  theorem cover_count : ∀ (T : PTy), Pos T → ∀ b, (flatPorts T).countP (covers b) = if b < T.width then 1 else 0
    | .vec w, hp, b => by
      simp only [Pos] at hp
      simp only [flatPorts, PTy.width, List.countP_cons, List.countP_nil]
      have : covers b ⟨[], w - 1, 0⟩ = decide (b < w) := by
        simp only [covers, Nat.zero_le, decide_true, Bool.true_and, decide_eq_decide]
        omega
      rw [this]
      by_cases hb : b < w <;> simp [hb]
    | .arr n e, hp, b => by
      simp only [flatPorts, PTy.width]
      exact countP_flatArr e.width _ (cover_count e (by simpa [Pos] using hp)) n b
    | .struct _ fs, hp, b => by
      simp only [flatPorts, PTy.width]
      exact cover_count_fields fs (by simpa [Pos] using hp) b
  theorem cover_count_fields : ∀ (fs : Fields), PosFields fs → ∀ b,
      (flatFields fs).countP (covers b) = if b < fs.width then 1 else 0
    | .nil, _, b => by simp [flatFields, Fields.width]
    | .cons f t rest, hp, b => by
      simp only [PosFields] at hp
      simp only [flatFields, Fields.width, List.countP_append]
      rw [countP_covers_under, cover_count t hp.1, cover_count_fields rest hp.2]
      exact ite1 b rest.width t.width
end

theorem unique_index_of_countP_eq_one {α : Type} (p : α → Bool) (l : List α) (h : l.countP p = 1) :
    ∃ i, ∃ hi : i < l.length, p l[i] = true ∧ ∀ j (hj : j < l.length), p l[j] = true → j = i := by
  induction l with
  | nil => simp at h
  | cons x xs ih =>
    rw [List.countP_cons] at h
    by_cases hx : p x = true
    · simp only [hx, if_true] at h
      have h0 : xs.countP p = 0 := by omega
      rw [List.countP_eq_zero] at h0
      refine ⟨0, by simp, by simpa using hx, ?_⟩
      intro j hj hpj
      cases j with
      | zero => rfl
      | succ j =>
        simp only [List.getElem_cons_succ] at hpj
        exact absurd hpj (h0 _ (List.getElem_mem _))
    · simp only [hx] at h
      obtain ⟨i, hi, hpi, huniq⟩ := ih (by simpa using h)
      refine ⟨i + 1, by simpa using hi, by simpa using hpi, ?_⟩
      intro j hj hpj
      cases j with
      | zero => simp only [List.getElem_cons_zero] at hpj; exact absurd hpj hx
      | succ j =>
        simp only [List.getElem_cons_succ] at hpj
        rw [huniq j (by simpa using hj) hpj]

theorem pairwise_disjoint_of_count_le_one (ls : List Leaf) (hne : ∀ l ∈ ls, l.lsb ≤ l.msb)
    (h : ∀ b, ls.countP (covers b) ≤ 1) :
    ls.Pairwise (fun a c => a.msb < c.lsb ∨ c.msb < a.lsb) := by
  induction ls with
  | nil => exact List.Pairwise.nil
  | cons x xs ih =>
    refine List.pairwise_cons.mpr ⟨?_, ih (fun l hl => hne l (by simp [hl])) (fun b => ?_)⟩
    · intro c hc
      have hx := hne x (by simp)
      have hcne := hne c (by simp [hc])
      by_cases hdis : x.msb < c.lsb ∨ c.msb < x.lsb
      · exact hdis
      · exfalso
        have hb := h (max x.lsb c.lsb)
        rw [List.countP_cons] at hb
        have hxc : covers (max x.lsb c.lsb) x = true := by rw [covers_iff]; omega
        have hcc : covers (max x.lsb c.lsb) c = true := by rw [covers_iff]; omega
        have : 0 < xs.countP (covers (max x.lsb c.lsb)) := List.countP_pos_iff.mpr ⟨c, hc, hcc⟩
        simp only [hxc, if_true] at hb
        omega
    · have := h b
      rw [List.countP_cons] at this
      omega

/-- **flat_partition**: for a type whose vectors all have positive width, the part selects of the
    flattened ports are non-empty ranges inside `[0, T.width)`, pairwise disjoint, and every bit of the
    packed vector lies in the part select of exactly one flattened port (one list position). -/
theorem flat_partition (T : PTy) (hp : Pos T) :
    (∀ l ∈ flatPorts T, l.lsb ≤ l.msb ∧ l.msb < T.width) ∧
    (flatPorts T).Pairwise (fun a c => a.msb < c.lsb ∨ c.msb < a.lsb) ∧
    (∀ b, b < T.width → ∃ i, ∃ hi : i < (flatPorts T).length,
      ((flatPorts T)[i].lsb ≤ b ∧ b ≤ (flatPorts T)[i].msb) ∧
      ∀ j (hj : j < (flatPorts T).length),
        ((flatPorts T)[j].lsb ≤ b ∧ b ≤ (flatPorts T)[j].msb) → j = i) := by
  refine ⟨flat_range T hp, ?_, ?_⟩
  · apply pairwise_disjoint_of_count_le_one _ (fun l hl => (flat_range T hp l hl).1)
    intro b
    rw [cover_count T hp b]
    split <;> omega
  · intro b hb
    have h1 : (flatPorts T).countP (covers b) = 1 := by rw [cover_count T hp b]; simp [hb]
    obtain ⟨i, hi, hpi, huniq⟩ := unique_index_of_countP_eq_one _ _ h1
    exact ⟨i, hi, covers_iff.mp hpi, fun j hj hcj => huniq j hj (covers_iff.mpr hcj)⟩


/-! ## names of the flattened ports -/

/-! ### token level: distinct leaves have distinct paths -/

theorem path_head_of_mem_flatFields : ∀ (fs : Fields) (l : Leaf), l ∈ flatFields fs →
    ∃ g p, l.path = .fld g :: p ∧ g ∈ fieldNames fs
  | .nil, l, hl => by simp [flatFields] at hl
  | .cons f t rest, l, hl => by
    rcases mem_flatFields_cons.mp hl with ⟨l0, _, rfl⟩ | h
    · exact ⟨f, l0.path, rfl, by simp [fieldNames]⟩
    · obtain ⟨g, p, h1, h2⟩ := path_head_of_mem_flatFields rest l h
      exact ⟨g, p, h1, by simp [fieldNames, h2]⟩

theorem pairwise_under (t : Tok) (off : Nat) (ls : List Leaf)
    (h : ls.Pairwise (fun a c => a.path ≠ c.path)) :
    (ls.map (Leaf.under t off)).Pairwise (fun a c => a.path ≠ c.path) := by
  rw [List.pairwise_map]
  exact h.imp (fun {a c} hac => by simpa [Leaf.under] using hac)

theorem pairwise_flatArr (w : Nat) (ls : List Leaf) (h : ls.Pairwise (fun a c => a.path ≠ c.path)) (n : Nat) :
    (flatArr n w ls).Pairwise (fun a c => a.path ≠ c.path) := by
  induction n with
  | zero => simp [flatArr]
  | succ n ih =>
    rw [flatArr_succ, List.pairwise_append]
    refine ⟨ih, pairwise_under _ _ _ h, ?_⟩
    intro a ha c hc
    obtain ⟨i, hi, a0, _, rfl⟩ := mem_flatArr.mp ha
    obtain ⟨c0, _, rfl⟩ := List.mem_map.mp hc
    simp only [Leaf.under, ne_eq, List.cons.injEq, Tok.idx.injEq, not_and]
    omega

mutual
  theorem paths_pairwise : ∀ (T : PTy), Distinct T → (flatPorts T).Pairwise (fun a c => a.path ≠ c.path)
    | .vec w, _ => by simp [flatPorts]
    | .arr n e, hd => by
      simp only [flatPorts]
      exact pairwise_flatArr _ _ (paths_pairwise e (by simpa [Distinct] using hd)) n
    | .struct _ fs, hd => by
      simp only [Distinct] at hd
      simp only [flatPorts]
      exact paths_pairwise_fields fs hd.1 hd.2
  theorem paths_pairwise_fields : ∀ (fs : Fields), (fieldNames fs).Nodup → DistinctFields fs →
      (flatFields fs).Pairwise (fun a c => a.path ≠ c.path)
    | .nil, _, _ => by simp [flatFields]
    | .cons f t rest, hn, hd => by
      simp only [fieldNames, List.nodup_cons] at hn
      simp only [DistinctFields] at hd
      simp only [flatFields]
      rw [List.pairwise_append]
      refine ⟨pairwise_under _ _ _ (paths_pairwise t hd.1), paths_pairwise_fields rest hn.2 hd.2, ?_⟩
      intro a ha c hc
      obtain ⟨a0, _, rfl⟩ := List.mem_map.mp ha
      obtain ⟨g, p, hp, hg⟩ := path_head_of_mem_flatFields rest c hc
      rw [hp]
      simp only [Leaf.under, ne_eq, List.cons.injEq, Tok.fld.injEq, not_and]
      intro e
      exact absurd (e ▸ hg) hn.1
end

/-- token level: the list of the paths of the flattened ports has no duplicates -/
theorem flat_paths_nodup (T : PTy) (hd : Distinct T) : ((flatPorts T).map (·.path)).Nodup := by
  rw [List.nodup_iff_pairwise_ne, List.pairwise_map]
  exact paths_pairwise T hd

theorem eq_of_pairwise_ne {α β : Type} (f : α → β) (l : List α) (h : l.Pairwise (fun a c => f a ≠ f c))
    {a c : α} (ha : a ∈ l) (hc : c ∈ l) (e : f a = f c) : a = c := by
  induction l with
  | nil => simp at ha
  | cons x xs ih =>
    obtain ⟨hx, hxs⟩ := List.pairwise_cons.mp h
    rcases List.mem_cons.mp ha with rfl | ha' <;> rcases List.mem_cons.mp hc with rfl | hc'
    · rfl
    · exact absurd e (hx c hc')
    · exact absurd e.symm (hx a ha')
    · exact ih hxs ha' hc'

/-- token level: two flattened ports with the same path are the same port -/
theorem flat_paths_injective (T : PTy) (hd : Distinct T) {l₁ l₂ : Leaf}
    (h₁ : l₁ ∈ flatPorts T) (h₂ : l₂ ∈ flatPorts T) (e : l₁.path = l₂.path) : l₁ = l₂ :=
  eq_of_pairwise_ne (·.path) _ (paths_pairwise T hd) h₁ h₂ e


/-! ### string level: the mangled names `base__f__3__g` are distinct -/

/-- a field name that can be told apart inside a mangled name: it contains no `__`, does not end
    with `_`, is non-empty and does not start with a decimal digit (Python identifiers satisfy the
    last two) -/
def GoodName (f : String) : Prop :=
  (∀ p q, f.toList ≠ p ++ '_' :: '_' :: q) ∧ (∀ p, f.toList ≠ p ++ ['_']) ∧
  ∃ c r, f.toList = c :: r ∧ c.isDigit = false

/-- all field names on a path are good -/
def GoodPath (p : List Tok) : Prop := ∀ f, Tok.fld f ∈ p → GoodName f

def NoSepL (a : List Char) : Prop := (∀ p q, a ≠ p ++ '_' :: '_' :: q) ∧ (∀ p, a ≠ p ++ ['_'])

theorem noSepL_of_not_mem (a : List Char) (h : '_' ∉ a) : NoSepL a := by
  constructor
  · intro p q e; apply h; rw [e]; simp
  · intro p e; apply h; rw [e]; simp

theorem repr_toList_digits (i : Nat) : ∀ c ∈ (Nat.repr i).toList, c.isDigit = true := by
  intro c hc
  rw [Nat.toList_repr] at hc
  exact Nat.isDigit_of_mem_toDigits (by omega) (by omega) hc

theorem tok_name_noSep (t : Tok) (h : ∀ f, t = .fld f → GoodName f) : NoSepL t.name.toList := by
  cases t with
  | fld f => exact ⟨(h f rfl).1, (h f rfl).2.1⟩
  | idx i =>
    apply noSepL_of_not_mem
    intro hm
    have := repr_toList_digits i _ hm
    simp at this

theorem tok_name_inj (t t' : Tok) (h : ∀ f, t = .fld f → GoodName f) (h' : ∀ f, t' = .fld f → GoodName f)
    (e : t.name.toList = t'.name.toList) : t = t' := by
  have clash : ∀ f i, GoodName f → f.toList = (Nat.repr i).toList → False := by
    intro f i hg e
    obtain ⟨c, r, hc, hnd⟩ := hg.2.2
    have := repr_toList_digits i c (by rw [← e, hc]; simp)
    rw [hnd] at this
    exact Bool.noConfusion this
  cases t with
  | fld f =>
    cases t' with
    | fld f' => simp only [Tok.name] at e; rw [String.toList_inj.mp e]
    | idx i => exact (clash f i (h f rfl) e).elim
  | idx i =>
    cases t' with
    | fld f' => exact (clash f' i (h' f' rfl) e.symm).elim
    | idx i' =>
      simp only [Tok.name] at e
      rw [Nat.repr_injective (String.toList_inj.mp e)]

theorem mangleTail_cons_toList (t : Tok) (p : List Tok) :
    (mangleTail (t :: p)).toList = '_' :: '_' :: (t.name.toList ++ (mangleTail p).toList) := by
  simp [mangleTail, String.toList_append]

theorem mangleTail_shape (p : List Tok) :
    (mangleTail p).toList = [] ∨ ∃ r, (mangleTail p).toList = '_' :: '_' :: r := by
  cases p with
  | nil => left; simp [mangleTail]
  | cons t p => right; exact ⟨_, mangleTail_cons_toList t p⟩

/-- a name without separator followed by nothing or by a separator can be read back uniquely -/
theorem parse_unique (a a' T T' : List Char) (ha : NoSepL a) (ha' : NoSepL a')
    (hT : T = [] ∨ ∃ r, T = '_' :: '_' :: r) (hT' : T' = [] ∨ ∃ r, T' = '_' :: '_' :: r)
    (h : a ++ T = a' ++ T') : a = a' ∧ T = T' := by
  have key : ∀ (a a' T T' : List Char), NoSepL a' → (T = [] ∨ ∃ r, T = '_' :: '_' :: r) →
      ∀ d, a' = a ++ d → T = d ++ T' → d = [] := by
    intro a a' T T' ha' hT d h1 h2
    cases d with
    | nil => rfl
    | cons c d =>
      exfalso
      rcases hT with hT | ⟨r, hT⟩
      · rw [hT] at h2; simp at h2
      · rw [hT] at h2
        cases d with
        | nil =>
          simp only [List.cons_append, List.nil_append, List.cons.injEq] at h2
          exact ha'.2 a (by rw [h1, ← h2.1])
        | cons c2 d =>
          simp only [List.cons_append, List.cons.injEq] at h2
          exact ha'.1 a d (by rw [h1, ← h2.1, ← h2.2.1])
  rcases List.append_eq_append_iff.mp h with ⟨d, h1, h2⟩ | ⟨d, h1, h2⟩
  · have := key a a' T T' ha' hT d h1 h2
    subst this; simp at h1 h2; exact ⟨h1.symm, h2⟩
  · have := key a' a T' T ha hT' d h1 h2
    subst this; simp at h1 h2; exact ⟨h1, h2.symm⟩

theorem mangleTail_injective (p₁ p₂ : List Tok) (h₁ : GoodPath p₁) (h₂ : GoodPath p₂)
    (e : (mangleTail p₁).toList = (mangleTail p₂).toList) : p₁ = p₂ := by
  induction p₁ generalizing p₂ with
  | nil =>
    cases p₂ with
    | nil => rfl
    | cons t p => rw [mangleTail_cons_toList] at e; simp [mangleTail] at e
  | cons t p ih =>
    cases p₂ with
    | nil => rw [mangleTail_cons_toList] at e; simp [mangleTail] at e
    | cons t' p' =>
      rw [mangleTail_cons_toList, mangleTail_cons_toList] at e
      simp only [List.cons.injEq, true_and] at e
      have g : ∀ f, t = .fld f → GoodName f := fun f hf => h₁ f (by simp [hf])
      have g' : ∀ f, t' = .fld f → GoodName f := fun f hf => h₂ f (by simp [hf])
      obtain ⟨e1, e2⟩ := parse_unique _ _ _ _ (tok_name_noSep t g) (tok_name_noSep t' g')
        (mangleTail_shape p) (mangleTail_shape p') e
      rw [tok_name_inj t t' g g' e1,
        ih p' (fun f hf => h₁ f (List.mem_cons_of_mem _ hf)) (fun f hf => h₂ f (List.mem_cons_of_mem _ hf)) e2]

/-- the name mangling `base__tok__tok…` is injective on paths with good field names (any base name) -/
theorem mangle_injective (base : String) (p₁ p₂ : List Tok) (h₁ : GoodPath p₁) (h₂ : GoodPath p₂)
    (e : mangle base p₁ = mangle base p₂) : p₁ = p₂ := by
  apply mangleTail_injective p₁ p₂ h₁ h₂
  have := congrArg String.toList e
  simpa [mangle, String.toList_append] using this

mutual
  /-- well-formed names: in every struct the field names are pairwise distinct and good -/
  def WFNames : PTy → Prop
    | .vec _ => True
    | .arr _ e => WFNames e
    | .struct _ fs => (fieldNames fs).Nodup ∧ WFNamesFields fs
  def WFNamesFields : Fields → Prop
    | .nil => True
    | .cons f t rest => GoodName f ∧ WFNames t ∧ WFNamesFields rest
end

mutual
  theorem WFNames.distinct : ∀ (T : PTy), WFNames T → Distinct T
    | .vec _, _ => by simp [Distinct]
    | .arr _ e, h => by simp only [WFNames] at h; simp only [Distinct]; exact WFNames.distinct e h
    | .struct _ fs, h => by
      simp only [WFNames] at h; simp only [Distinct]; exact ⟨h.1, WFNamesFields.distinct fs h.2⟩
  theorem WFNamesFields.distinct : ∀ (fs : Fields), WFNamesFields fs → DistinctFields fs
    | .nil, _ => by simp [DistinctFields]
    | .cons _ t rest, h => by
      simp only [WFNamesFields] at h; simp only [DistinctFields]
      exact ⟨WFNames.distinct t h.2.1, WFNamesFields.distinct rest h.2.2⟩
end

theorem goodPath_cons {t : Tok} {p : List Tok} (ht : ∀ f, t = .fld f → GoodName f) (hp : GoodPath p) :
    GoodPath (t :: p) := by
  intro f hf
  rcases List.mem_cons.mp hf with e | hm
  · exact ht f e.symm
  · exact hp f hm

mutual
  theorem flat_paths_good : ∀ (T : PTy), WFNames T → ∀ l ∈ flatPorts T, GoodPath l.path
    | .vec w, _, l, hl => by
      simp only [flatPorts, List.mem_singleton] at hl
      subst hl; intro f hf; simp at hf
    | .arr n e, h, l, hl => by
      simp only [flatPorts] at hl
      simp only [WFNames] at h
      obtain ⟨i, _, l0, hl0, rfl⟩ := mem_flatArr.mp hl
      exact goodPath_cons (fun f hf => by simp at hf) (flat_paths_good e h l0 hl0)
    | .struct _ fs, h, l, hl => by
      simp only [flatPorts] at hl
      simp only [WFNames] at h
      exact flat_paths_good_fields fs h.2 l hl
  theorem flat_paths_good_fields : ∀ (fs : Fields), WFNamesFields fs → ∀ l ∈ flatFields fs, GoodPath l.path
    | .nil, _, l, hl => by simp [flatFields] at hl
    | .cons f t rest, h, l, hl => by
      simp only [WFNamesFields] at h
      rcases mem_flatFields_cons.mp hl with ⟨l0, hl0, rfl⟩ | hm
      · exact goodPath_cons (fun g hg => by simp only [Tok.fld.injEq] at hg; exact hg ▸ h.1)
          (flat_paths_good t h.2.1 l0 hl0)
      · exact flat_paths_good_fields rest h.2.2 l hm
end

/-- **flat_names_injective** (string level): for a type with well-formed field names, two flattened
    ports of a port `base` with the same mangled name are the same port (same path, same part select).
    Nothing is assumed about `base`. -/
theorem flat_names_injective (T : PTy) (hw : WFNames T) (base : String) {l₁ l₂ : Leaf}
    (h₁ : l₁ ∈ flatPorts T) (h₂ : l₂ ∈ flatPorts T)
    (e : mangle base l₁.path = mangle base l₂.path) : l₁ = l₂ :=
  flat_paths_injective T (WFNames.distinct T hw) h₁ h₂
    (mangle_injective base _ _ (flat_paths_good T hw l₁ h₁) (flat_paths_good T hw l₂ h₂) e)

/-- the same for the names the driver produces (`portLeaves true`): the port signal `t :: rest` of the
    component (a port, an element of a list of ports, a port of an interface …) -/
theorem portLeaves_names_injective (T : PTy) (hw : WFNames T) (t : Tok) (rest : List Tok) (hr : GoodPath rest)
    (dims : List Nat) {q₁ q₂ : PortLeaf}
    (h₁ : q₁ ∈ portLeaves true (t :: rest) dims T) (h₂ : q₂ ∈ portLeaves true (t :: rest) dims T)
    (e : q₁.svName = q₂.svName) : q₁ = q₂ := by
  simp only [portLeaves, if_true, List.mem_map] at h₁ h₂
  obtain ⟨l₁, hl₁, rfl⟩ := h₁
  obtain ⟨l₂, hl₂, rfl⟩ := h₂
  simp only [List.cons_append, mangleAll] at e
  have good : ∀ l ∈ flatPorts T, GoodPath (rest ++ l.path) := by
    intro l hl f hf
    rcases List.mem_append.mp hf with hf | hf
    · exact hr f hf
    · exact flat_paths_good T hw l hl f hf
  have := mangle_injective _ _ _ (good l₁ hl₁) (good l₂ hl₂) e
  have := flat_paths_injective T (WFNames.distinct T hw) hl₁ hl₂ (List.append_cancel_left this)
  rw [this]


/-! ## non-vacuity: `struct Pt { a : vec 4; b : arr 3 (vec 2); c : struct Inner { x : vec 3; y : vec 5 } }` -/

def exInner : PTy := .struct "Inner" (.cons "x" (.vec 3) (.cons "y" (.vec 5) .nil))
def exPt : PTy := .struct "Pt" (.cons "a" (.vec 4) (.cons "b" (.arr 3 (.vec 2)) (.cons "c" exInner .nil)))
def exAB : PTy := .struct "AB" (.cons "a" (.vec 4) (.cons "b" (.arr 3 (.vec 2)) .nil))
def exPtVal : Val := .struct [.bits 0xA, .arr [.bits 1, .bits 2, .bits 3], .struct [.bits 5, .bits 0x13]]

/-- what the real translator emits for a port `p : Pt`:
    `p__a [17:14]`, `p__b__0 [9:8]`, `p__b__1 [11:10]`, `p__b__2 [13:12]`, `p__c__x [7:5]`, `p__c__y [4:0]` -/
example : (flatPorts exPt).map (fun l => (mangle "p" l.path, l.msb, l.lsb)) =
    [("p__a", 17, 14), ("p__b__0", 9, 8), ("p__b__1", 11, 10), ("p__b__2", 13, 12),
     ("p__c__x", 7, 5), ("p__c__y", 4, 0)] := by decide

/-- `to_bits()` of `AB(a=0xA, b=[1,2,3])` is `0x2b9` -/
example : toBits exAB (.struct [.bits 0xA, .arr [.bits 1, .bits 2, .bits 3]]) = 0x2b9 := by decide

example : toBits exPt exPtVal = 0x2b9 * 2 ^ 8 + 5 * 2 ^ 5 + 0x13 := by decide
example : toBits exPt exPtVal / 2 ^ 8 % 2 ^ 10 = 0x2b9 := by decide

example : HasTy exPtVal exPt := by simp [exPtVal, exPt, exInner, HasTy, HasTyFields]
example : Pos exPt := by simp [exPt, exInner, Pos, PosFields]
example : leafAt exPt exPtVal [.fld "b", .idx 1] = some (.vec 2, .bits 2) := by
  simp [exPt, exPtVal, leafAt, fieldAt]
example : toBits exPt exPtVal / 2 ^ 10 % 2 ^ (11 + 1 - 10) = 2 := by decide
/-- a handy sufficient condition: no underscore at all, first character not a digit -/
theorem goodName_of_no_underscore (f : String) (h : '_' ∉ f.toList)
    (hd : ∃ c r, f.toList = c :: r ∧ c.isDigit = false) : GoodName f :=
  ⟨(noSepL_of_not_mem _ h).1, (noSepL_of_not_mem _ h).2, hd⟩

example : GoodName "msg" := goodName_of_no_underscore _ (by decide) ⟨'m', ['s', 'g'], by decide, by decide⟩
example : WFNames exPt := by
  have ga : GoodName "a" := goodName_of_no_underscore _ (by decide) ⟨'a', [], by decide, by decide⟩
  have gb : GoodName "b" := goodName_of_no_underscore _ (by decide) ⟨'b', [], by decide, by decide⟩
  have gc : GoodName "c" := goodName_of_no_underscore _ (by decide) ⟨'c', [], by decide, by decide⟩
  have gx : GoodName "x" := goodName_of_no_underscore _ (by decide) ⟨'x', [], by decide, by decide⟩
  have gy : GoodName "y" := goodName_of_no_underscore _ (by decide) ⟨'y', [], by decide, by decide⟩
  simp only [exPt, exInner, WFNames, WFNamesFields, fieldNames, and_true, true_and, ga, gb, gc, gx, gy]
  decide
/-- the side conditions matter: without them two different paths can be mangled to the same name -/
example : mangle "p" [.fld "a", .fld "b"] = mangle "p" [.fld "a__b"] := by decide
example : mangle "p" [.fld "3"] = mangle "p" [.idx 3] := by decide
example : mangle "p" [.fld "a_", .fld "b"] = mangle "p" [.fld "a", .fld "_b"] := by decide
example : portLeaves false [.fld "ifc", .idx 1, .fld "msg"] [2] exPt = [⟨"ifc__msg", 1, 17, 0⟩] := by decide
example : (portLeaves true [.fld "ifc", .idx 1, .fld "msg"] [2] exPt).map (·.svName) =
    ["ifc__1__msg__a", "ifc__1__msg__b__0", "ifc__1__msg__b__1", "ifc__1__msg__b__2",
     "ifc__1__msg__c__x", "ifc__1__msg__c__y"] := by decide

end PV.Flat
