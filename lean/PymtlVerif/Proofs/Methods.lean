import PymtlVerif.Model.Methods
/-!
Helper lemmas for `Props/C02m.lean`: the generic work-list closure computes exactly the reachable set once the fuel
covers a finite universe that is closed under `next` (so the fuel of the model is never the reason to stop), and the
membership characterisations of the model's small list functions.
-/
namespace PV.Methods

/-- reflexive-transitive closure of "t ∈ next s" -/
inductive Reach {α : Type} (next : α → List α) : α → α → Prop
  | refl (a : α) : Reach next a a
  | tail {a b c : α} : Reach next a b → c ∈ next b → Reach next a c

theorem Reach.trans {α : Type} {next : α → List α} {a b c : α} (h1 : Reach next a b) (h2 : Reach next b c) :
    Reach next a c := by
  induction h2 with
  | refl => exact h1
  | tail _ hc ih => exact Reach.tail ih hc

theorem Reach.head {α : Type} {next : α → List α} {a b c : α} (h1 : b ∈ next a) (h2 : Reach next b c) :
    Reach next a c := Reach.trans (Reach.tail (Reach.refl a) h1) h2

section closure
variable {α : Type} [DecidableEq α]

theorem pushAll_spec (fifo : Bool) (ts : List α) : ∀ (work vis : List α),
    (∀ x, x ∈ (pushAll fifo ts work vis).2 ↔ x ∈ vis ∨ x ∈ ts) ∧
    (∀ x, x ∈ (pushAll fifo ts work vis).1 ↔ x ∈ work ∨ (x ∈ ts ∧ x ∉ vis)) ∧
    (vis.Nodup → (pushAll fifo ts work vis).2.Nodup) ∧
    (pushAll fifo ts work vis).1.length + vis.length = work.length + (pushAll fifo ts work vis).2.length := by
  induction ts with
  | nil => intro work vis; simp [pushAll]
  | cons t ts ih =>
    intro work vis
    unfold pushAll
    by_cases ht : t ∈ vis
    · simp only [ht, if_true]
      obtain ⟨h1, h2, h3, h4⟩ := ih work vis
      refine ⟨?_, ?_, h3, h4⟩
      · intro x; rw [h1]; simp only [List.mem_cons]
        constructor
        · rintro (h | h); exact Or.inl h; exact Or.inr (Or.inr h)
        · rintro (h | h | h); exact Or.inl h; exact Or.inl (h ▸ ht); exact Or.inr h
      · intro x; rw [h2]; simp only [List.mem_cons]
        constructor
        · rintro (h | ⟨h, h'⟩); exact Or.inl h; exact Or.inr ⟨Or.inr h, h'⟩
        · rintro (h | ⟨h | h, h'⟩); exact Or.inl h; exact absurd (h ▸ ht) h'; exact Or.inr ⟨h, h'⟩
    · simp only [ht, if_false]
      obtain ⟨h1, h2, h3, h4⟩ := ih (if fifo then work ++ [t] else t :: work) (t :: vis)
      have hw : ∀ x, x ∈ (if fifo then work ++ [t] else t :: work) ↔ x = t ∨ x ∈ work := by
        intro x; cases fifo <;> simp [or_comm]
      have hl : (if fifo then work ++ [t] else t :: work).length = work.length + 1 := by
        cases fifo <;> simp
      refine ⟨?_, ?_, ?_, ?_⟩
      · intro x; rw [h1]; simp only [List.mem_cons]
        constructor
        · rintro ((h | h) | h); exact Or.inr (Or.inl h); exact Or.inl h; exact Or.inr (Or.inr h)
        · rintro (h | h | h); exact Or.inl (Or.inr h); exact Or.inl (Or.inl h); exact Or.inr h
      · intro x; rw [h2, hw]; simp only [List.mem_cons, not_or]
        constructor
        · rintro ((h | h) | ⟨h, h', h''⟩)
          · exact Or.inr ⟨Or.inl h, h ▸ ht⟩
          · exact Or.inl h
          · exact Or.inr ⟨Or.inr h, h''⟩
        · rintro (h | ⟨h | h, h'⟩)
          · exact Or.inl (Or.inr h)
          · exact Or.inl (Or.inl h)
          · by_cases hx : x = t
            · exact Or.inl (Or.inl hx)
            · exact Or.inr ⟨h, hx, h'⟩
      · intro hn; exact h3 (List.nodup_cons.mpr ⟨ht, hn⟩)
      · rw [hl] at h4; simp only [List.length_cons] at h4; omega

/-- invariant of the work-list loop -/
structure Inv (next : α → List α) (start : α) (U work vis done : List α) : Prop where
  visU : ∀ s ∈ vis, s ∈ U
  nodup : vis.Nodup
  cover : ∀ s ∈ vis, s ∈ work ∨ s ∈ done
  workVis : ∀ s ∈ work, s ∈ vis
  doneVis : ∀ s ∈ done, s ∈ vis
  closed : ∀ s ∈ done, ∀ t ∈ next s, t ∈ vis
  reach : ∀ s ∈ vis, Reach next start s
  start : start ∈ vis

omit [DecidableEq α] in
theorem Inv.final {next : α → List α} {start : α} {U vis done : List α} (h : Inv next start U [] vis done) (s : α) :
    s ∈ done ↔ Reach next start s := by
  constructor
  · intro hs; exact h.reach s (h.doneVis s hs)
  · intro hr
    have hvd : ∀ x ∈ vis, x ∈ done := by
      intro x hx; rcases h.cover x hx with h' | h'
      · cases h'
      · exact h'
    induction hr with
    | refl => exact hvd _ h.start
    | tail _ hc ih => exact hvd _ (h.closed _ ih _ hc)

theorem closure_spec_aux (next : α → List α) (fifo : Bool) (start : α) (U : List α)
    (hU : ∀ s ∈ U, ∀ t ∈ next s, t ∈ U) :
    ∀ (fuel : Nat) (work vis done : List α), Inv next start U work vis done →
      (U.length - vis.length) + work.length ≤ fuel →
      ∀ s, s ∈ closure next fifo fuel work vis done ↔ Reach next start s := by
  intro fuel
  induction fuel with
  | zero =>
    intro work vis done hinv hm s
    have : work = [] := List.eq_nil_of_length_eq_zero (by omega)
    subst this
    simp only [closure]; exact hinv.final s
  | succ f ih =>
    intro work vis done hinv hm s
    match work, hinv, hm with
    | [], hinv, _ => simp only [closure]; exact hinv.final s
    | x :: rest, hinv, hm =>
      simp only [closure]
      obtain ⟨h1, h2, h3, h4⟩ := pushAll_spec fifo (next x) rest vis
      have hxv : x ∈ vis := hinv.workVis x (by simp)
      have hinv' : Inv next start U (pushAll fifo (next x) rest vis).1 (pushAll fifo (next x) rest vis).2 (x :: done) := by
        refine ⟨?_, h3 hinv.nodup, ?_, ?_, ?_, ?_, ?_, ?_⟩
        · intro y hy; rcases (h1 y).mp hy with h | h
          · exact hinv.visU y h
          · exact hU x (hinv.visU x hxv) y h
        · intro y hy
          by_cases hyv : y ∈ vis
          · rcases hinv.cover y hyv with h | h
            · rcases List.mem_cons.mp h with h | h
              · exact Or.inr (by simp [h])
              · exact Or.inl ((h2 y).mpr (Or.inl h))
            · exact Or.inr (List.mem_cons_of_mem _ h)
          · rcases (h1 y).mp hy with h | h
            · exact absurd h hyv
            · exact Or.inl ((h2 y).mpr (Or.inr ⟨h, hyv⟩))
        · intro y hy; rcases (h2 y).mp hy with h | ⟨h, _⟩
          · exact (h1 y).mpr (Or.inl (hinv.workVis y (List.mem_cons_of_mem _ h)))
          · exact (h1 y).mpr (Or.inr h)
        · intro y hy; rcases List.mem_cons.mp hy with h | h
          · exact (h1 y).mpr (Or.inl (h ▸ hxv))
          · exact (h1 y).mpr (Or.inl (hinv.doneVis y h))
        · intro y hy t ht; rcases List.mem_cons.mp hy with h | h
          · subst h; exact (h1 t).mpr (Or.inr ht)
          · exact (h1 t).mpr (Or.inl (hinv.closed y h t ht))
        · intro y hy; rcases (h1 y).mp hy with h | h
          · exact hinv.reach y h
          · exact Reach.tail (hinv.reach x hxv) h
        · exact (h1 start).mpr (Or.inl hinv.start)
      have hle : (pushAll fifo (next x) rest vis).2.length ≤ U.length :=
        List.Nodup.length_le_of_subset hinv'.nodup (fun y hy => hinv'.visU y hy)
      refine ih _ _ _ hinv' ?_ s
      simp only [List.length_cons] at hm
      omega

/-- the work-list closure from `start`, with fuel covering a finite universe closed under `next`, examines exactly the
    states reachable from `start` (the order of the work list — FIFO or LIFO — does not matter) -/
theorem closure_spec (next : α → List α) (fifo : Bool) (start : α) (U : List α) (fuel : Nat)
    (hs : start ∈ U) (hU : ∀ s ∈ U, ∀ t ∈ next s, t ∈ U) (hf : U.length ≤ fuel) (s : α) :
    s ∈ closure next fifo fuel [start] [start] [] ↔ Reach next start s := by
  refine closure_spec_aux next fifo start U hU fuel [start] [start] [] ?_ ?_ s
  · refine ⟨?_, by simp, ?_, ?_, ?_, ?_, ?_, by simp⟩
    · intro y hy; simp only [List.mem_singleton] at hy; exact hy ▸ hs
    · intro y hy; exact Or.inl hy
    · intro y hy; exact hy
    · intro y hy; cases hy
    · intro y hy; cases hy
    · intro y hy; simp only [List.mem_singleton] at hy; exact hy ▸ Reach.refl _
  · have : 0 < U.length := List.length_pos_of_mem hs
    simp only [List.length_singleton]; omega

end closure

/-! ## the model's list functions as relations on the input -/
namespace Input
variable (I : Input)

/-- the declared strict constraint `x < y` (M(x) < M(y), U(x) < M(y), M(x) < U(y)) -/
def Lt (x y : Nat) : Prop := (x, y, false) ∈ I.mcons
/-- one declared `M(x) == M(y)`, read in either direction -/
def Eqv (x y : Nat) : Prop := (x, y, true) ∈ I.mcons ∨ (y, x, true) ∈ I.mcons
/-- block `b` calls (actual) method `m` -/
def Calls (b m : Nat) : Prop := (b, m) ∈ I.calls

theorem mem_pred {u v : Nat} : v ∈ I.pred u ↔ I.Lt v u := by
  unfold pred Lt
  simp only [List.mem_map, List.mem_filter, Bool.and_eq_true, Bool.not_eq_true', beq_iff_eq]
  constructor
  · rintro ⟨⟨a, b, e⟩, ⟨hm, he, hb⟩, rfl⟩; simp only at he hb; subst he hb; exact hm
  · intro h; exact ⟨(v, u, false), ⟨h, rfl, rfl⟩, rfl⟩

theorem mem_succ {u v : Nat} : v ∈ I.succ u ↔ I.Lt u v := by
  unfold succ Lt
  simp only [List.mem_map, List.mem_filter, Bool.and_eq_true, Bool.not_eq_true', beq_iff_eq]
  constructor
  · rintro ⟨⟨a, b, e⟩, ⟨hm, he, hb⟩, rfl⟩; simp only at he hb; subst he hb; exact hm
  · intro h; exact ⟨(u, v, false), ⟨h, rfl, rfl⟩, rfl⟩

theorem mem_eqAdj {u v : Nat} : v ∈ I.eqAdj u ↔ I.Eqv u v := by
  unfold eqAdj Eqv
  simp only [List.mem_flatMap]
  constructor
  · rintro ⟨⟨a, b, e⟩, hm, hv⟩
    cases e with
    | false => simp at hv
    | true =>
      simp only [if_true, List.mem_append] at hv
      rcases hv with hv | hv
      · by_cases h : a = u
        · simp only [h, if_true, List.mem_singleton] at hv; subst h hv; exact Or.inl hm
        · simp [h] at hv
      · by_cases h : b = u
        · simp only [h, if_true, List.mem_singleton] at hv; subst h hv; exact Or.inr hm
        · simp [h] at hv
  · rintro (h | h)
    · exact ⟨(u, v, true), h, by simp⟩
    · exact ⟨(v, u, true), h, by simp⟩

theorem mem_callers {b m : Nat} : b ∈ I.callers m ↔ I.Calls b m := by
  unfold callers Calls
  simp only [List.mem_map, List.mem_filter, beq_iff_eq]
  constructor
  · rintro ⟨⟨a, c⟩, ⟨hm, hc⟩, rfl⟩; simp only at hc; subst hc; exact hm
  · intro h; exact ⟨(b, m), ⟨h, rfl⟩, rfl⟩

theorem hasCallers_iff {m : Nat} : I.hasCallers m = true ↔ ∃ b, I.Calls b m := by
  unfold hasCallers Calls
  simp only [List.any_eq_true, beq_iff_eq]
  constructor
  · rintro ⟨⟨a, c⟩, hm, hc⟩; simp only at hc; subst hc; exact ⟨a, hm⟩
  · rintro ⟨b, h⟩; exact ⟨(b, m), h, rfl⟩

theorem mem_methodKeys {m : Nat} : m ∈ I.methodKeys ↔ ∃ b, I.Calls b m := by
  unfold methodKeys Calls
  simp only [List.mem_eraseDups, List.mem_map]
  constructor
  · rintro ⟨⟨a, c⟩, hm, rfl⟩; exact ⟨a, hm⟩
  · rintro ⟨b, h⟩; exact ⟨(b, m), h, rfl⟩

theorem inEquiv_iff {u : Nat} : I.inEquiv u = true ↔ ∃ v, I.Eqv u v := by
  unfold inEquiv Eqv
  simp only [List.any_eq_true, Bool.and_eq_true, Bool.or_eq_true, beq_iff_eq]
  constructor
  · rintro ⟨⟨a, b, e⟩, hm, he, h⟩
    simp only at he h; subst he
    rcases h with h | h
    · subst h; exact ⟨b, Or.inl hm⟩
    · subst h; exact ⟨a, Or.inr hm⟩
  · rintro ⟨v, h | h⟩
    · exact ⟨(u, v, true), h, rfl, Or.inl rfl⟩
    · exact ⟨(v, u, true), h, rfl, Or.inr rfl⟩

theorem calls_mem_nodes {b m : Nat} (h : I.Calls b m) : m ∈ I.nodes := by
  unfold nodes; exact List.mem_append_left _ (List.mem_map.mpr ⟨(b, m), h, rfl⟩)

theorem mcons_mem_nodes {x y : Nat} {e : Bool} (h : (x, y, e) ∈ I.mcons) : x ∈ I.nodes ∧ y ∈ I.nodes := by
  unfold nodes
  constructor <;> exact List.mem_append_right _ (List.mem_flatMap.mpr ⟨(x, y, e), h, by simp⟩)

theorem eqv_mem_nodes {x y : Nat} (h : I.Eqv x y) : x ∈ I.nodes ∧ y ∈ I.nodes := by
  rcases h with h | h
  · exact I.mcons_mem_nodes h
  · exact (I.mcons_mem_nodes h).symm

/-- `equiv[u]` after the flood fill = everything connected to `u` by declared `==` constraints -/
theorem mem_cls {u v : Nat} : v ∈ I.cls u ↔ Reach I.eqAdj u v := by
  unfold cls
  refine closure_spec I.eqAdj true u (u :: I.nodes) _ (by simp) ?_ (by simp) v
  intro s _ t ht
  exact List.mem_cons_of_mem _ (I.eqv_mem_nodes (I.mem_eqAdj.mp ht)).2

theorem mem_eqClass {u v : Nat} : v ∈ I.eqClass u ↔ Reach I.eqAdj u v := by
  unfold eqClass
  by_cases h : I.inEquiv u = true
  · simp only [h, if_true]; exact I.mem_cls
  · simp only [h, Bool.false_eq_true, if_false, List.mem_singleton]
    constructor
    · rintro rfl; exact Reach.refl _
    · intro hr
      have hno : ∀ a b, Reach I.eqAdj a b → a = u → b = u := by
        intro a b hab
        induction hab with
        | refl => intro h; exact h
        | tail _ hc ih =>
          intro ha
          have := ih ha
          subst this
          exact absurd (I.inEquiv_iff.mpr ⟨_, I.mem_eqAdj.mp hc⟩) h
      exact hno u v hr rfl

/-- one step of the per-method search, in terms of the declared constraints -/
theorem mem_nexts {s t : State} :
    t ∈ I.nexts s ↔
      (t.2 = s.2 ∧ (∃ x, I.Eqv s.1 x) ∧ Reach I.eqAdj s.1 t.1) ∨
      (s.2 ≤ 0 ∧ t.2 = -1 ∧ I.Lt t.1 s.1 ∧ t.1 ∉ I.blocks) ∨
      (s.2 ≥ 0 ∧ t.2 = 1 ∧ I.Lt s.1 t.1 ∧ t.1 ∉ I.blocks) := by
  obtain ⟨u, w⟩ := s
  obtain ⟨v, w'⟩ := t
  unfold nexts
  simp only [List.mem_append]
  constructor
  · rintro ((h | h) | h)
    · by_cases he : I.inEquiv u = true
      · simp only [he, if_true, List.mem_map] at h
        obtain ⟨x, hx, hxe⟩ := h
        simp only [Prod.mk.injEq] at hxe
        obtain ⟨rfl, rfl⟩ := hxe
        exact Or.inl ⟨rfl, I.inEquiv_iff.mp he, I.mem_cls.mp hx⟩
      · simp [he] at h
    · by_cases hw : w ≤ 0
      · simp only [hw, if_true, List.mem_map, List.mem_filter, decide_eq_true_eq] at h
        obtain ⟨x, ⟨hx, hb⟩, hxe⟩ := h
        simp only [Prod.mk.injEq] at hxe
        obtain ⟨rfl, rfl⟩ := hxe
        exact Or.inr (Or.inl ⟨hw, rfl, I.mem_pred.mp hx, hb⟩)
      · simp [hw] at h
    · by_cases hw : w ≥ 0
      · simp only [hw, if_true, List.mem_map, List.mem_filter, decide_eq_true_eq] at h
        obtain ⟨x, ⟨hx, hb⟩, hxe⟩ := h
        simp only [Prod.mk.injEq] at hxe
        obtain ⟨rfl, rfl⟩ := hxe
        exact Or.inr (Or.inr ⟨hw, rfl, I.mem_succ.mp hx, hb⟩)
      · simp [hw] at h
  · rintro (⟨hw, he, hr⟩ | ⟨hw, hw', hl, hb⟩ | ⟨hw, hw', hl, hb⟩)
    · subst hw
      refine Or.inl (Or.inl ?_)
      simp only [I.inEquiv_iff.mpr he, if_true, List.mem_map]
      exact ⟨v, I.mem_cls.mpr hr, rfl⟩
    · subst hw'
      refine Or.inl (Or.inr ?_)
      simp only [hw, if_true, List.mem_map, List.mem_filter, decide_eq_true_eq]
      exact ⟨v, ⟨I.mem_pred.mpr hl, hb⟩, rfl⟩
    · subst hw'
      refine Or.inr ?_
      simp only [hw, if_true, List.mem_map, List.mem_filter, decide_eq_true_eq]
      exact ⟨v, ⟨I.mem_succ.mpr hl, hb⟩, rfl⟩

/-- the stateSpace of search states for the search that starts at `m` -/
def stateSpace (m : Nat) : List State :=
  (m :: I.nodes).map (fun n => (n, (-1 : Int))) ++ (m :: I.nodes).map (fun n => (n, (0 : Int))) ++
  (m :: I.nodes).map (fun n => (n, (1 : Int)))

theorem mem_stateSpace {m : Nat} {s : State} :
    s ∈ I.stateSpace m ↔ (s.1 = m ∨ s.1 ∈ I.nodes) ∧ (s.2 = -1 ∨ s.2 = 0 ∨ s.2 = 1) := by
  obtain ⟨u, w⟩ := s
  unfold stateSpace
  simp only [List.mem_append, List.mem_map, List.mem_cons, Prod.mk.injEq]
  constructor
  · rintro ((⟨n, hn, rfl, rfl⟩ | ⟨n, hn, rfl, rfl⟩) | ⟨n, hn, rfl, rfl⟩)
    · exact ⟨hn, Or.inl rfl⟩
    · exact ⟨hn, Or.inr (Or.inl rfl)⟩
    · exact ⟨hn, Or.inr (Or.inr rfl)⟩
  · rintro ⟨hn, rfl | rfl | rfl⟩
    · exact Or.inl (Or.inl ⟨u, hn, rfl, rfl⟩)
    · exact Or.inl (Or.inr ⟨u, hn, rfl, rfl⟩)
    · exact Or.inr ⟨u, hn, rfl, rfl⟩

theorem reach_eqAdj_nodes {u v : Nat} (h : Reach I.eqAdj u v) : v = u ∨ v ∈ I.nodes := by
  cases h with
  | refl => exact Or.inl rfl
  | tail _ hc => exact Or.inr (I.eqv_mem_nodes (I.mem_eqAdj.mp hc)).2

/-- the per-method search examines exactly the states reachable from `(m, 0)`: its fuel always suffices -/
theorem mem_search {m : Nat} {s : State} : s ∈ I.search m ↔ Reach I.nexts (m, 0) s := by
  unfold search
  refine closure_spec I.nexts false (m, 0) (I.stateSpace m) _ ?_ ?_ ?_ s
  · exact I.mem_stateSpace.mpr ⟨Or.inl rfl, Or.inr (Or.inl rfl)⟩
  · intro a ha t ht
    obtain ⟨hn, hw⟩ := I.mem_stateSpace.mp ha
    rw [I.mem_stateSpace]
    rcases I.mem_nexts.mp ht with ⟨h1, _, h3⟩ | ⟨_, h2, h3, _⟩ | ⟨_, h2, h3, _⟩
    · refine ⟨?_, h1 ▸ hw⟩
      rcases I.reach_eqAdj_nodes h3 with h | h
      · rw [h]; exact hn
      · exact Or.inr h
    · exact ⟨Or.inr (I.mcons_mem_nodes h3).1, Or.inl h2⟩
    · exact ⟨Or.inr (I.mcons_mem_nodes h3).2, Or.inr (Or.inr h2)⟩
  · unfold stateSpace; simp only [List.length_append, List.length_map, List.length_cons]; omega

/-- exact characterisation of the added pairs: those emitted at a state reachable from the start state of a called
    method -/
theorem mem_process {e : Nat × Nat} :
    e ∈ I.process ↔ ∃ m, (∃ b, I.Calls b m) ∧ ∃ s, Reach I.nexts (m, 0) s ∧ e ∈ I.emit m s := by
  unfold process
  simp only [List.mem_flatMap, I.mem_methodKeys, I.mem_search]

end Input

/-! ## chains of declared constraints -/

/-- `Rel I strict a b`: a chain of declared constraints from `a` to `b`, every step either a declared `==` (in either
    direction) or a declared `<` taken forwards; `strict` says whether the chain contains a `<` step -/
inductive Rel (I : Input) : Bool → Nat → Nat → Prop
  | refl (a : Nat) : Rel I false a a
  | eqv {s : Bool} {a b c : Nat} : Rel I s a b → I.Eqv b c → Rel I s a c
  | lt {s : Bool} {a b c : Nat} : Rel I s a b → I.Lt b c → Rel I true a c

/-- walk of the search from the called method `m` along `succ` (target of a `<` step is not a block) -/
inductive Fwd (I : Input) : Nat → Nat → Prop
  | refl (m : Nat) : Fwd I m m
  | eqv {m u v : Nat} : Fwd I m u → I.Eqv u v → Fwd I m v
  | lt {m u v : Nat} : Fwd I m u → I.Lt u v → v ∉ I.blocks → Fwd I m v

/-- walk of the search from the called method `m` along `pred` -/
inductive Bwd (I : Input) : Nat → Nat → Prop
  | refl (m : Nat) : Bwd I m m
  | eqv {m u v : Nat} : Bwd I m u → I.Eqv u v → Bwd I m v
  | lt {m u v : Nat} : Bwd I m u → I.Lt v u → v ∉ I.blocks → Bwd I m v

namespace Input
variable (I : Input)

theorem Eqv.symm {I : Input} {a b : Nat} (h : I.Eqv a b) : I.Eqv b a := Or.symm h

end Input

namespace Rel
variable {I : Input}

theorem trans {s t : Bool} {a b c : Nat} (h1 : Rel I s a b) (h2 : Rel I t b c) : Rel I (s || t) a c := by
  induction h2 with
  | refl => simpa using h1
  | eqv _ e ih => exact (ih h1).eqv e
  | lt _ l ih => simpa using (ih h1).lt l

theorem symm {a b : Nat} (h : Rel I false a b) : Rel I false b a := by
  have : ∀ s a b, Rel I s a b → s = false → Rel I false b a := by
    intro s a b h
    induction h with
    | refl => intro _; exact Rel.refl _
    | eqv _ e ih => intro hs; simpa using ((Rel.refl _).eqv e.symm).trans (ih hs)
    | lt _ _ _ => intro hs; cases hs
  exact this _ _ _ h rfl

theorem of_reach {a b : Nat} (h : Reach I.eqAdj a b) : Rel I false a b := by
  induction h with
  | refl => exact Rel.refl _
  | tail _ hc ih => exact ih.eqv (I.mem_eqAdj.mp hc)

theorem to_reach {a b : Nat} (h : Rel I false a b) : Reach I.eqAdj a b := by
  have : ∀ s a b, Rel I s a b → s = false → Reach I.eqAdj a b := by
    intro s a b h
    induction h with
    | refl => intro _; exact Reach.refl _
    | eqv _ e ih => intro hs; exact Reach.tail (ih hs) (I.mem_eqAdj.mpr e)
    | lt _ _ _ => intro hs; cases hs
  exact this _ _ _ h rfl

end Rel

namespace Fwd
variable {I : Input}

theorem of_reach {m u v : Nat} (h : Fwd I m u) (hr : Reach I.eqAdj u v) : Fwd I m v := by
  induction hr with
  | refl => exact h
  | tail _ hc ih => exact ih.eqv (I.mem_eqAdj.mp hc)

theorem of_rel {m u : Nat} (h : Rel I false m u) : Fwd I m u := (Fwd.refl m).of_reach h.to_reach

/-- a forward walk is a chain of constraints -/
theorem rel {m u : Nat} (h : Fwd I m u) : ∃ s, Rel I s m u := by
  induction h with
  | refl => exact ⟨false, Rel.refl _⟩
  | eqv _ e ih => obtain ⟨s, hs⟩ := ih; exact ⟨s, hs.eqv e⟩
  | lt _ l _ ih => obtain ⟨s, hs⟩ := ih; exact ⟨true, hs.lt l⟩

/-- every forward walk ends in a state the search examines -/
theorem reach {m u : Nat} (h : Fwd I m u) : ∃ w : Int, 0 ≤ w ∧ Reach I.nexts (m, 0) (u, w) := by
  induction h with
  | refl => exact ⟨0, Int.le_refl _, Reach.refl _⟩
  | eqv _ e ih =>
    obtain ⟨w, hw, hr⟩ := ih
    exact ⟨w, hw, Reach.tail hr (I.mem_nexts.mpr (Or.inl ⟨rfl, ⟨_, e⟩, Reach.tail (Reach.refl _) (I.mem_eqAdj.mpr e)⟩))⟩
  | lt _ l hb ih =>
    obtain ⟨w, hw, hr⟩ := ih
    exact ⟨1, by decide, Reach.tail hr (I.mem_nexts.mpr (Or.inr (Or.inr ⟨hw, rfl, l, hb⟩)))⟩

end Fwd

namespace Bwd
variable {I : Input}

theorem of_reach {m u v : Nat} (h : Bwd I m u) (hr : Reach I.eqAdj u v) : Bwd I m v := by
  induction hr with
  | refl => exact h
  | tail _ hc ih => exact ih.eqv (I.mem_eqAdj.mp hc)

theorem of_rel {m u : Nat} (h : Rel I false m u) : Bwd I m u := (Bwd.refl m).of_reach h.to_reach

/-- a backward walk is a chain of constraints read from its end -/
theorem rel {m u : Nat} (h : Bwd I m u) : ∃ s, Rel I s u m := by
  induction h with
  | refl => exact ⟨false, Rel.refl _⟩
  | eqv _ e ih => obtain ⟨s, hs⟩ := ih; exact ⟨false || s, ((Rel.refl _).eqv e.symm).trans hs⟩
  | lt _ l _ ih => obtain ⟨s, hs⟩ := ih; exact ⟨true || s, ((Rel.refl _).lt l).trans hs⟩

theorem reach {m u : Nat} (h : Bwd I m u) : ∃ w : Int, w ≤ 0 ∧ Reach I.nexts (m, 0) (u, w) := by
  induction h with
  | refl => exact ⟨0, Int.le_refl _, Reach.refl _⟩
  | eqv _ e ih =>
    obtain ⟨w, hw, hr⟩ := ih
    exact ⟨w, hw, Reach.tail hr (I.mem_nexts.mpr (Or.inl ⟨rfl, ⟨_, e⟩, Reach.tail (Reach.refl _) (I.mem_eqAdj.mpr e)⟩))⟩
  | lt _ l hb ih =>
    obtain ⟨w, hw, hr⟩ := ih
    exact ⟨-1, by decide, Reach.tail hr (I.mem_nexts.mpr (Or.inr (Or.inl ⟨hw, rfl, l, hb⟩)))⟩

end Bwd

namespace Input
variable (I : Input)

/-- every state the search examines is the end of a walk: forwards if `w ≥ 0`, backwards if `w ≤ 0` -/
theorem reach_walk {m : Nat} {s : State} (h : Reach I.nexts (m, 0) s) :
    (0 ≤ s.2 → Fwd I m s.1) ∧ (s.2 ≤ 0 → Bwd I m s.1) := by
  induction h with
  | refl => exact ⟨fun _ => Fwd.refl _, fun _ => Bwd.refl _⟩
  | @tail b c _ hc ih =>
    rcases I.mem_nexts.mp hc with ⟨h1, _, h3⟩ | ⟨h1, h2, h3, h4⟩ | ⟨h1, h2, h3, h4⟩
    · rw [h1]; exact ⟨fun h => (ih.1 h).of_reach h3, fun h => (ih.2 h).of_reach h3⟩
    · rw [h2]; exact ⟨fun h => absurd h (by decide), fun _ => (ih.2 h1).lt h3 h4⟩
    · rw [h2]; exact ⟨fun _ => (ih.1 h1).lt h3 h4, fun h => absurd h (by decide)⟩

/-- the inner loops over the callers of the methods of `v`'s class -/
theorem mem_emit_inner (v : Nat) (assoc X Y : List Nat) (f : Nat → Nat → Nat × Nat) (e : Nat × Nat) :
    e ∈ (I.eqClass v).flatMap (fun vv =>
          if I.hasCallers vv then
            (I.callers vv).flatMap (fun vb =>
              if vb ∈ X then []
              else (assoc.filter (fun blk => decide (blk ∉ Y ∧ vb ≠ blk))).map (fun blk => f vb blk))
          else []) ↔
      ∃ vv vb blk, Reach I.eqAdj v vv ∧ I.Calls vb vv ∧ vb ∉ X ∧ blk ∈ assoc ∧ blk ∉ Y ∧ vb ≠ blk ∧ e = f vb blk := by
  simp only [List.mem_flatMap]
  constructor
  · rintro ⟨vv, hvv, h⟩
    by_cases hc : I.hasCallers vv = true
    · simp only [hc, if_true, List.mem_flatMap] at h
      obtain ⟨vb, hvb, h⟩ := h
      by_cases hx : vb ∈ X
      · simp [hx] at h
      · simp only [hx, if_false, List.mem_map, List.mem_filter, decide_eq_true_eq] at h
        obtain ⟨blk, ⟨hb, hy, hne⟩, rfl⟩ := h
        exact ⟨vv, vb, blk, I.mem_eqClass.mp hvv, I.mem_callers.mp hvb, hx, hb, hy, hne, rfl⟩
    · simp [hc] at h
  · rintro ⟨vv, vb, blk, hr, hc, hx, hb, hy, hne, rfl⟩
    refine ⟨vv, I.mem_eqClass.mpr hr, ?_⟩
    simp only [I.hasCallers_iff.mpr ⟨vb, hc⟩, if_true, List.mem_flatMap]
    refine ⟨vb, I.mem_callers.mpr hc, ?_⟩
    simp only [hx, if_false, List.mem_map, List.mem_filter, decide_eq_true_eq]
    exact ⟨blk, ⟨hb, hy, hne⟩, rfl⟩

theorem mem_emit_blk (v : Nat) (assoc Y : List Nat) (f : Nat → Nat × Nat) (e : Nat × Nat) :
    e ∈ (assoc.filter (fun blk => decide (blk ∉ Y ∧ v ≠ blk))).map (fun blk => f blk) ↔
      ∃ blk, blk ∈ assoc ∧ blk ∉ Y ∧ v ≠ blk ∧ e = f blk := by
  simp only [List.mem_map, List.mem_filter, decide_eq_true_eq]
  constructor
  · rintro ⟨blk, ⟨hb, hy, hne⟩, rfl⟩; exact ⟨blk, hb, hy, hne, rfl⟩
  · rintro ⟨blk, hb, hy, hne, rfl⟩; exact ⟨blk, ⟨hb, hy, hne⟩, rfl⟩

/-- what is added while state `(u, w)` is examined, in terms of the declared constraints -/
theorem mem_emit {m : Nat} {s : State} {e : Nat × Nat} :
    e ∈ I.emit m s ↔
      (s.2 ≤ 0 ∧ ∃ v, I.Lt v s.1 ∧
        ((v ∈ I.blocks ∧ ∃ blk, I.Calls blk m ∧ ¬ I.Lt blk s.1 ∧ v ≠ blk ∧ e = (v, blk)) ∨
         (v ∉ I.blocks ∧ ∃ vv vb blk, Reach I.eqAdj v vv ∧ I.Calls vb vv ∧ ¬ I.Lt s.1 vb ∧ I.Calls blk m ∧
            ¬ I.Lt blk v ∧ vb ≠ blk ∧ e = (vb, blk)))) ∨
      (0 ≤ s.2 ∧ ∃ v, I.Lt s.1 v ∧
        ((v ∈ I.blocks ∧ ∃ blk, I.Calls blk m ∧ ¬ I.Lt s.1 blk ∧ v ≠ blk ∧ e = (blk, v)) ∨
         (v ∉ I.blocks ∧ ∃ vv vb blk, Reach I.eqAdj v vv ∧ I.Calls vb vv ∧ ¬ I.Lt vb s.1 ∧ I.Calls blk m ∧
            ¬ I.Lt v blk ∧ vb ≠ blk ∧ e = (blk, vb)))) := by
  obtain ⟨u, w⟩ := s
  unfold emit
  simp only [List.mem_append]
  refine or_congr ?_ ?_
  · by_cases hw : w ≤ 0
    · simp only [hw, if_true, true_and, List.mem_flatMap]
      refine exists_congr (fun v => ?_)
      rw [I.mem_pred]
      refine and_congr_right (fun _ => ?_)
      by_cases hb : v ∈ I.blocks
      · simp only [hb, if_true, true_and, not_true_eq_false, false_and, or_false]
        rw [mem_emit_blk v (I.callers m) (I.pred u) (fun blk => (v, blk)) e]
        simp only [I.mem_callers, I.mem_pred]
      · simp only [hb, if_false, false_and, false_or, not_false_eq_true, true_and]
        rw [I.mem_emit_inner v (I.callers m) (I.succ u) (I.pred v) (fun vb blk => (vb, blk)) e]
        simp only [I.mem_callers, I.mem_pred, I.mem_succ]
    · simp [hw]
  · by_cases hw : w ≥ 0
    · have hw' : 0 ≤ w := hw
      simp only [hw, if_true, true_and, List.mem_flatMap]
      refine exists_congr (fun v => ?_)
      rw [I.mem_succ]
      refine and_congr_right (fun _ => ?_)
      by_cases hb : v ∈ I.blocks
      · simp only [hb, if_true, true_and, not_true_eq_false, false_and, or_false]
        rw [mem_emit_blk v (I.callers m) (I.succ u) (fun blk => (blk, v)) e]
        simp only [I.mem_callers, I.mem_succ]
      · simp only [hb, if_false, false_and, false_or, not_false_eq_true, true_and]
        rw [I.mem_emit_inner v (I.callers m) (I.pred u) (I.succ v) (fun vb blk => (blk, vb)) e]
        simp only [I.mem_callers, I.mem_pred, I.mem_succ]
    · have hw' : ¬ 0 ≤ w := hw
      simp [hw]

end Input

end PV.Methods
