import PymtlVerif.Proofs.OpenLoopTopo
import PymtlVerif.Proofs.OpenLoopRun
/-!
Static part of `Model/OpenLoop.lean`: the dictionaries, the edge sets, the SCC-level schedule on the (possibly cyclic)
condensation built from `E`, `update_schedule`, and the shape of `schedule` the run-time lemmas need (`SchedOK`).
Lemmas for `Props/C02o.lean`.
-/
namespace PV.OpenLoop
open PV.Scc

/-- `vertices` after the shuffle is a duplicate-free list of exactly the members of `V` -/
structure InputOK (inp : Input) : Prop where
  nodup : inp.order.Nodup
  mem : ∀ v, v ∈ inp.order ↔ v ∈ verts inp

/-- iterating a set / the intra-SCC BFS only permutes -/
structure EnvOK (env : Env) : Prop where
  row_mem : ∀ r x, x ∈ env.rowOrd r ↔ x ∈ r
  row_nodup : ∀ r, r.Nodup → (env.rowOrd r).Nodup
  intra_mem : ∀ g x, x ∈ env.intra g ↔ x ∈ g
  intra_nodup : ∀ g, g.Nodup → (env.intra g).Nodup

theorem nodup_reverse' {l : List Nat} (h : l.Nodup) : l.reverse.Nodup :=
  nodup_of_reverse (by rw [List.reverse_reverse]; exact h)

/-! ## the dictionaries -/

/-- the keys of `method_callee_mapping` in insertion order -/
def rawKeys (inp : Input) : List Nat := inp.ports.map (·.2) ++ inp.ifcs.flatMap (fun x => [x.rawM, x.rawR])

/-- `method_callee_mapping` when no assert fires -/
def mapList (inp : Input) : Map :=
  (inp.ifcs.reverse.flatMap (fun x => [(x.rawR, x.rdy), (x.rawM, x.meth)])) ++ inp.ports.reverse.map (fun p => (p.2, p.1))

theorem lookup_isSome_iff (m : Map) (k : Nat) : (m.lookup k).isSome = true ↔ k ∈ m.map (·.1) := by
  induction m with
  | nil => simp
  | cons a m ih =>
    obtain ⟨a1, a2⟩ := a
    by_cases h : k = a1
    · subst h; simp [List.lookup]
    · have : (k == a1) = false := by simpa using h
      simp [List.lookup, this, ih, h]

theorem foldl_addPort (ps : List (Nat × Nat)) : ∀ (m : Map), ((ps.map (·.2)) ++ m.map (·.1)).Nodup →
    ps.foldl addPort (some m) = some (ps.reverse.map (fun p => (p.2, p.1)) ++ m) := by
  induction ps with
  | nil => intro m _; rfl
  | cons p ps ih =>
    intro m h
    simp only [List.map_cons, List.cons_append, List.nodup_cons] at h
    have hnot : (m.lookup p.2).isSome = false := by
      cases hh : (m.lookup p.2).isSome with
      | false => rfl
      | true =>
        exfalso
        exact h.1 (List.mem_append_right _ ((lookup_isSome_iff m p.2).mp hh))
    simp only [List.foldl_cons, addPort, Option.bind_some, hnot, Bool.false_eq_true, if_false]
    rw [ih]
    · simp
    · have h2 := h.2
      rw [List.nodup_append] at h2 ⊢
      refine ⟨h2.1, ?_, ?_⟩
      · simp only [List.map_cons, List.nodup_cons]
        exact ⟨fun hm => h.1 (List.mem_append_right _ hm), h2.2.1⟩
      · intro a ha b hb hab
        simp only [List.map_cons, List.mem_cons] at hb
        rcases hb with rfl | hb
        · subst hab; exact h.1 (List.mem_append_left _ ha)
        · exact h2.2.2 a ha b hb hab

theorem foldl_addIfc_none (xs : List Ifc) : xs.foldl addIfc none = none := by
  induction xs with
  | nil => rfl
  | cons x xs ih => simp [List.foldl_cons, addIfc, ih]

theorem foldl_addIfc (xs : List Ifc) : ∀ (m : Map), ((xs.flatMap (fun x => [x.rawM, x.rawR])) ++ m.map (·.1)).Nodup →
    xs.foldl addIfc (some m) = some (xs.reverse.flatMap (fun x => [(x.rawR, x.rdy), (x.rawM, x.meth)]) ++ m) := by
  induction xs with
  | nil => intro m _; rfl
  | cons x xs ih =>
    intro m h
    simp only [List.flatMap_cons, List.cons_append, List.nil_append, List.nodup_cons] at h
    obtain ⟨h1, h2, h3⟩ := h
    have hnot : (m.lookup x.rawM).isSome = false := by
      cases hh : (m.lookup x.rawM).isSome with
      | false => rfl
      | true =>
        exfalso
        exact h1 (List.mem_cons_of_mem _ (List.mem_append_right _ ((lookup_isSome_iff m x.rawM).mp hh)))
    simp only [List.foldl_cons, addIfc, Option.bind_some, hnot, Bool.false_eq_true, if_false]
    rw [ih]
    · simp [List.flatMap_append]
    · rw [List.nodup_append] at h3 ⊢
      refine ⟨h3.1, ?_, ?_⟩
      · simp only [List.map_cons, List.nodup_cons, List.mem_cons, not_or]
        refine ⟨⟨?_, fun hm => h2 (List.mem_append_right _ hm)⟩, fun hm => h1 (List.mem_cons_of_mem _ (List.mem_append_right _ hm)), h3.2.1⟩
        intro e; exact h1 (e ▸ List.mem_cons_self)
      · intro a ha b hb hab
        simp only [List.map_cons, List.mem_cons] at hb
        rcases hb with rfl | rfl | hb
        · subst hab; exact h2 (List.mem_append_left _ ha)
        · subst hab; exact h1 (List.mem_cons_of_mem _ (List.mem_append_left _ ha))
        · exact h3.2.2 a ha b hb hab

/-- with pairwise different ACTUAL methods no assert fires and the dict is `mapList` -/
theorem calleeMap_of_nodup (inp : Input) (h : (rawKeys inp).Nodup) : calleeMap inp = some (mapList inp) := by
  unfold calleeMap mapList rawKeys at *
  rw [List.nodup_append] at h
  rw [foldl_addPort inp.ports [] (by simpa using h.1), List.append_nil]
  rw [foldl_addIfc]
  rw [List.nodup_append]
  refine ⟨h.2.1, ?_, ?_⟩
  · have : (inp.ports.reverse.map (fun p => (p.2, p.1))).map (·.1) = (inp.ports.map (·.2)).reverse := by
      simp [List.map_reverse]
    rw [this]; exact nodup_reverse' h.1
  · intro a ha b hb hab
    have : b ∈ inp.ports.map (·.2) := by
      simp only [List.map_map, List.mem_map, List.mem_reverse] at hb ⊢
      obtain ⟨p, hp, rfl⟩ := hb
      exact ⟨p, hp, rfl⟩
    exact h.2.2 b this a ha hab.symm

theorem lookup_of_nodup_keys : ∀ (m : Map) (k v : Nat), (m.map (·.1)).Nodup → (k, v) ∈ m → m.lookup k = some v := by
  intro m
  induction m with
  | nil => intro k v _ h; simp at h
  | cons a m ih =>
    intro k v hnd h
    obtain ⟨a1, a2⟩ := a
    simp only [List.map_cons, List.nodup_cons] at hnd
    rcases List.mem_cons.mp h with h' | h'
    · cases h'; simp [List.lookup]
    · have hne : k ≠ a1 := by
        intro e; subst e
        exact hnd.1 (List.mem_map.mpr ⟨(k, v), h', rfl⟩)
      have : (k == a1) = false := by simpa using hne
      simp only [List.lookup, this]
      exact ih k v hnd.2 h'

theorem lookup_none_of_not_key : ∀ (m : Map) (k : Nat), k ∉ m.map (·.1) → m.lookup k = none := by
  intro m k h
  cases hh : m.lookup k with
  | none => rfl
  | some v =>
    exfalso
    exact h ((lookup_isSome_iff m k).mp (by rw [hh]; rfl))

theorem mapList_keys (inp : Input) : ∀ k, k ∈ (mapList inp).map (·.1) ↔ k ∈ rawKeys inp := by
  intro k
  unfold mapList rawKeys
  simp only [List.map_append, List.mem_append, List.mem_map, List.mem_flatMap, List.mem_reverse, List.mem_cons,
    List.not_mem_nil, or_false, Prod.exists]
  constructor
  · rintro (⟨a, b, ⟨x, hx, h | h⟩, rfl⟩ | ⟨a, b, ⟨p1, p2, hp, h⟩, rfl⟩)
    · cases h; exact .inr ⟨x, hx, .inr rfl⟩
    · cases h; exact .inr ⟨x, hx, .inl rfl⟩
    · cases h; exact .inl ⟨_, _, hp, rfl⟩
  · rintro (⟨a, b, hp, rfl⟩ | ⟨x, hx, rfl | rfl⟩)
    · exact .inr ⟨b, a, ⟨a, b, hp, rfl⟩, rfl⟩
    · exact .inl ⟨x.rawM, x.meth, ⟨x, hx, .inr rfl⟩, rfl⟩
    · exact .inl ⟨x.rawR, x.rdy, ⟨x, hx, .inl rfl⟩, rfl⟩

theorem mapList_keys_eq (inp : Input) : (mapList inp).map (·.1) = (rawKeys inp).reverse := by
  unfold mapList rawKeys
  simp only [List.map_append, List.reverse_append, List.map_reverse, List.map_map, List.map_flatMap, List.reverse_flatMap]
  congr 1

theorem mapList_keys_nodup (inp : Input) (h : (rawKeys inp).Nodup) : ((mapList inp).map (·.1)).Nodup := by
  rw [mapList_keys_eq]; exact nodup_reverse' h

theorem through_of_mem {m : Map} {k v : Nat} (hnd : (m.map (·.1)).Nodup) (h : (k, v) ∈ m) : through m k = v := by
  unfold through; rw [lookup_of_nodup_keys m k v hnd h]; rfl

theorem through_of_not_key {m : Map} {k : Nat} (h : k ∉ m.map (·.1)) : through m k = k := by
  unfold through; rw [lookup_none_of_not_key m k h]; rfl

/-- the ACTUAL-method -> CalleePort translation, when the ACTUAL methods are pairwise different -/
theorem through_mapList (inp : Input) (h : (rawKeys inp).Nodup) :
    (∀ p ∈ inp.ports, through (mapList inp) p.2 = p.1) ∧
    (∀ x ∈ inp.ifcs, through (mapList inp) x.rawM = x.meth ∧ through (mapList inp) x.rawR = x.rdy) ∧
    (∀ k, k ∉ rawKeys inp → through (mapList inp) k = k) := by
  have hnd := mapList_keys_nodup inp h
  refine ⟨?_, ?_, ?_⟩
  · intro p hp
    apply through_of_mem hnd
    unfold mapList
    exact List.mem_append_right _ (List.mem_map.mpr ⟨p, List.mem_reverse.mpr hp, rfl⟩)
  · intro x hx
    constructor
    · apply through_of_mem hnd
      unfold mapList
      exact List.mem_append_left _ (List.mem_flatMap.mpr ⟨x, List.mem_reverse.mpr hx, by simp⟩)
    · apply through_of_mem hnd
      unfold mapList
      exact List.mem_append_left _ (List.mem_flatMap.mpr ⟨x, List.mem_reverse.mpr hx, by simp⟩)
  · intro k hk
    exact through_of_not_key (fun hm => hk ((mapList_keys inp k).mp hm))

theorem guardMap_eq (inp : Input) : guardMap inp = inp.ifcs.reverse.map (fun x => (x.meth, x.rdy)) := by
  unfold guardMap
  have : ∀ (xs : List Ifc) (m : Map), xs.foldl (fun m x => (x.meth, x.rdy) :: m) m = xs.reverse.map (fun x => (x.meth, x.rdy)) ++ m := by
    intro xs
    induction xs with
    | nil => intro m; rfl
    | cons x xs ih => intro m; simp [ih]
  rw [this, List.append_nil]

/-- the method -> rdy translation, when the method ports of the interfaces are pairwise different -/
theorem through_guardMap (inp : Input) (h : (inp.ifcs.map (·.meth)).Nodup) :
    (∀ x ∈ inp.ifcs, through (guardMap inp) x.meth = x.rdy) ∧
    (∀ k, k ∉ inp.ifcs.map (·.meth) → through (guardMap inp) k = k) := by
  rw [guardMap_eq]
  have hk : (inp.ifcs.reverse.map (fun x => (x.meth, x.rdy))).map (·.1) = (inp.ifcs.map (·.meth)).reverse := by
    simp [List.map_reverse]
  refine ⟨?_, ?_⟩
  · intro x hx
    apply through_of_mem (by rw [hk]; exact nodup_reverse' h)
    exact List.mem_map.mpr ⟨x, List.mem_reverse.mpr hx, rfl⟩
  · intro k hk'
    apply through_of_not_key
    rw [hk]; intro hm; exact hk' (List.mem_reverse.mp hm)

/-! ## edges -/

theorem mem_gEdges (inp : Input) (cm : Map) (e : Nat × Nat) :
    e ∈ gEdges inp cm ↔ (e.1 ∈ verts inp ∧ e.2 ∈ verts inp) ∧
      (e ∈ inp.cons ∨ ∃ c ∈ inp.tlc, mapPair cm (guardMap inp) c = e) := by
  unfold gEdges inV
  simp only [List.mem_append, List.mem_filter, List.mem_map, Bool.and_eq_true, decide_eq_true_eq]
  constructor
  · rintro (⟨h1, h2⟩ | ⟨⟨c, hc, rfl⟩, h2⟩)
    · exact ⟨h2, .inl h1⟩
    · exact ⟨h2, .inr ⟨c, hc, rfl⟩⟩
  · rintro ⟨h2, h1 | ⟨c, hc, rfl⟩⟩
    · exact .inl ⟨h1, h2⟩
    · exact .inr ⟨⟨c, hc, rfl⟩, h2⟩

theorem mem_eEdges (inp : Input) (cm : Map) (e : Nat × Nat) :
    e ∈ eEdges inp cm ↔ (∃ x ∈ inp.ifcs, e = (x.rdy, x.meth)) ∨ e ∈ gEdges inp cm := by
  unfold eEdges ifcEdges
  simp only [List.mem_append, List.mem_map]
  constructor
  · rintro (⟨x, hx, rfl⟩ | h)
    · exact .inl ⟨x, hx, rfl⟩
    · exact .inr h
  · rintro (⟨x, hx, rfl⟩ | h)
    · exact .inl ⟨x, hx, rfl⟩
    · exact .inr h

theorem eEdges_in_verts (inp : Input) (cm : Map) (e : Nat × Nat) (h : e ∈ eEdges inp cm) : e.1 ∈ verts inp ∧ e.2 ∈ verts inp := by
  rcases (mem_eEdges inp cm e).mp h with ⟨x, hx, rfl⟩ | h
  · unfold verts portVerts
    constructor
    · exact List.mem_append_right _ (List.mem_append_right _ (List.mem_flatMap.mpr ⟨x, hx, by simp⟩))
    · exact List.mem_append_right _ (List.mem_append_right _ (List.mem_flatMap.mpr ⟨x, hx, by simp⟩))
  · exact ((mem_gEdges inp cm e).mp h).1

/-! ## what `static` returns -/

theorem static_ok {inp : Input} {env : Env} {st : Static} (h : static inp env = .ok st) :
    ∃ cm, calleeMap inp = some cm ∧ st.cmap = cm ∧
      st.kos = kosaraju (adjOf (gEdges inp cm)) (adjTOf (gEdges inp cm)) inp.order ∧
      st.t3 = topo pickFirst (gnOf env (gnewE st.kos.vmap (eEdges inp cm))) st.kos.sccs.length ∧
      st.t3.out.length = st.kos.sccs.length ∧
      st.update = entries st.kos.sccs env.intra st.t3.out 0 ∧
      st.schedule = st.update.map (slotOf (portVerts inp)) ++ (ffsLayout inp.ff).map Slot.ff := by
  unfold static at h
  cases hc : calleeMap inp with
  | none => simp [hc] at h
  | some cm =>
    simp only [hc] at h
    split at h
    · cases h
    · next hlen =>
      cases h
      exact ⟨cm, rfl, rfl, rfl, rfl, by simpa using hlen, rfl, rfl⟩

theorem static_err_sched {inp : Input} {env : Env} (h : static inp env = .error .schedAssert) :
    ∃ cm, calleeMap inp = some cm ∧
      (topo pickFirst (gnOf env (gnewE (kosaraju (adjOf (gEdges inp cm)) (adjTOf (gEdges inp cm)) inp.order).vmap (eEdges inp cm)))
        (kosaraju (adjOf (gEdges inp cm)) (adjTOf (gEdges inp cm)) inp.order).sccs.length).out.length ≠
      (kosaraju (adjOf (gEdges inp cm)) (adjTOf (gEdges inp cm)) inp.order).sccs.length := by
  unfold static at h
  cases hc : calleeMap inp with
  | none => simp [hc] at h
  | some cm =>
    simp only [hc] at h
    split at h
    · next hlen => exact ⟨cm, rfl, hlen⟩
    · cases h

theorem static_err_map {inp : Input} {env : Env} (h : static inp env = .error .mapAssert) : calleeMap inp = none := by
  unfold static at h
  cases hc : calleeMap inp with
  | none => rfl
  | some cm =>
    simp only [hc] at h
    split at h <;> cases h

theorem wf_of_ok {inp : Input} (ok : InputOK inp) (cm : Map) :
    WF (adjOf (gEdges inp cm)) (adjTOf (gEdges inp cm)) inp.order :=
  wf_adjOf inp.order (gEdges inp cm) ok.nodup (fun e he => by
    obtain ⟨⟨h1, h2⟩, _⟩ := (mem_gEdges inp cm e).mp he
    exact ⟨(ok.mem _).mpr h1, (ok.mem _).mpr h2⟩)

/-- the condensation built from `E`, iterated in the order of `env`, satisfies what the worklist sort needs -/
theorem condW_of_ok {inp : Input} {env : Env} (ok : InputOK inp) (eok : EnvOK env) (cm : Map) :
    let k := kosaraju (adjOf (gEdges inp cm)) (adjTOf (gEdges inp cm)) inp.order
    CondW (gnOf env (gnewE k.vmap (eEdges inp cm))) k.sccs.length ∧
    ∀ i j, j ∈ gnOf env (gnewE k.vmap (eEdges inp cm)) i ↔
      i ≠ j ∧ ∃ e ∈ eEdges inp cm, vscc k.vmap e.1 = i ∧ vscc k.vmap e.2 = j := by
  intro k
  have h0 : GnSpec k.vmap (rowOf []) [] := ⟨by simp [rowOf], by simp [rowOf]⟩
  have spec := foldl_addEdge_spec k.vmap (eEdges inp cm) _ _ h0
  rw [List.nil_append] at spec
  change GnSpec k.vmap (rowOf (gnewE k.vmap (eEdges inp cm))) (eEdges inp cm) at spec
  have hmem : ∀ i j, j ∈ gnOf env (gnewE k.vmap (eEdges inp cm)) i ↔
      i ≠ j ∧ ∃ e ∈ eEdges inp cm, vscc k.vmap e.1 = i ∧ vscc k.vmap e.2 = j := by
    intro i j
    unfold gnOf
    rw [eok.row_mem, spec.2]
  refine ⟨⟨?_, ?_, ?_⟩, hmem⟩
  · intro i _; exact eok.row_nodup _ (spec.1 i)
  · intro i _ j hj
    obtain ⟨_, e, he, _, h2⟩ := (hmem i j).mp hj
    rw [← h2]
    exact (kosaraju_facts (wf_of_ok ok cm)).vscc_lt ((ok.mem _).mpr (eEdges_in_verts inp cm e he).2)
  · intro i _ j hj
    exact fun e => ((hmem i j).mp hj).1 e.symm

/-! ## `update_schedule` -/

/-- the vertices an entry of `update_schedule` stands for: itself, or `tmp_schedule` of its SCC -/
def grpMembers (intra : List Nat → List Nat) (g : List Nat) : List Nat :=
  match g with
  | [u] => [u]
  | g => intra g

theorem entries_members (sccs : List (List Nat)) (intra : List Nat → List Nat) : ∀ (sched : List Nat) (id : Nat),
    (entries sccs intra sched id).map Entry.members = sched.map (fun i => grpMembers intra (sccs.getD i [])) := by
  intro sched
  induction sched with
  | nil => intro id; rfl
  | cons i rest ih =>
    intro id
    unfold entries
    split
    · next u hu => simp only [List.map_cons, ih, Entry.members, grpMembers, hu]
    · next hne =>
      simp only [List.map_cons, ih, Entry.members]
      congr 1
      unfold grpMembers
      split
      · next u hu => exact absurd hu (hne u)
      · rfl

theorem grpMembers_mem {env : Env} (eok : EnvOK env) (g : List Nat) (x : Nat) : x ∈ grpMembers env.intra g ↔ x ∈ g := by
  unfold grpMembers
  split
  · rfl
  · exact eok.intra_mem _ _

theorem grpMembers_nodup {env : Env} (eok : EnvOK env) (g : List Nat) (h : g.Nodup) : (grpMembers env.intra g).Nodup := by
  unfold grpMembers
  split
  · exact h
  · exact eok.intra_nodup _ h

/-- the ids of the SCC wrappers are increasing (so no two wrappers are equal as schedule entries) -/
theorem entries_ids (sccs : List (List Nat)) (intra : List Nat → List Nat) : ∀ (sched : List Nat) (id : Nat),
    (∀ e ∈ entries sccs intra sched id, ∀ k ms, e = Entry.grp k ms → id < k) ∧
    (entries sccs intra sched id).Pairwise (fun a b => ∀ k ms k' ms', a = Entry.grp k ms → b = Entry.grp k' ms' → k < k') := by
  intro sched
  induction sched with
  | nil => intro id; simp [entries]
  | cons i rest ih =>
    intro id
    unfold entries
    split
    · obtain ⟨h1, h2⟩ := ih id
      refine ⟨?_, ?_⟩
      · intro e he k ms hk
        rcases List.mem_cons.mp he with rfl | he
        · cases hk
        · exact h1 e he k ms hk
      · refine List.pairwise_cons.mpr ⟨?_, h2⟩
        intro b _ k ms k' ms' hk; cases hk
    · obtain ⟨h1, h2⟩ := ih (id + 1)
      refine ⟨?_, ?_⟩
      · intro e he k ms hk
        rcases List.mem_cons.mp he with rfl | he
        · cases hk; omega
        · have := h1 e he k ms hk; omega
      · refine List.pairwise_cons.mpr ⟨?_, h2⟩
        intro b hb k ms k' ms' hk hk'
        cases hk
        exact h1 b hb k' ms' hk'

/-- the vertices a slot of `schedule` stands for -/
def Slot.members : Slot → List Nat
  | .port v => [v]
  | .blk v => [v]
  | .scc _ ms => ms
  | .ff _ => []

theorem slotOf_members (pv : List Nat) (e : Entry) : (slotOf pv e).members = e.members := by
  cases e with
  | one v =>
    simp only [slotOf]
    split <;> rfl
  | grp id ms => rfl

/-- the facts about a successful `static` that the theorems use -/
structure StaticFacts (inp : Input) (env : Env) (st : Static) : Prop where
  /-- `scc_schedule` lists every group exactly once -/
  sched_nodup : st.t3.out.Nodup
  sched_mem : ∀ i, i ∈ st.t3.out ↔ i < st.kos.sccs.length
  /-- entry `q` of `update_schedule` stands for the members of group `scc_schedule[q]` -/
  up_len : st.update.length = st.t3.out.length
  up_mem : ∀ q (hq : q < st.update.length) (hq' : q < st.t3.out.length) x,
    x ∈ st.update[q].members ↔ x ∈ st.kos.sccs.getD st.t3.out[q] []
  /-- every vertex is in the group `v_SCC` says, and only there -/
  grp : ∀ x ∈ verts inp, ∀ i, i < st.kos.sccs.length → (x ∈ st.kos.sccs.getD i [] ↔ vscc st.kos.vmap x = i)
  grp_verts : ∀ i, i < st.kos.sccs.length → ∀ x ∈ st.kos.sccs.getD i [], x ∈ verts inp
  vlt : ∀ x ∈ verts inp, vscc st.kos.vmap x < st.kos.sccs.length
  /-- every edge of `E` between two groups goes forward in `scc_schedule` -/
  order : ∀ e ∈ eEdges inp st.cmap, vscc st.kos.vmap e.1 ≠ vscc st.kos.vmap e.2 →
    ∃ pre post, st.t3.out = pre ++ vscc st.kos.vmap e.1 :: post ∧ vscc st.kos.vmap e.2 ∈ post

theorem static_facts {inp : Input} {env : Env} {st : Static} (ok : InputOK inp) (eok : EnvOK env)
    (h : static inp env = .ok st) : StaticFacts inp env st := by
  obtain ⟨cm, _, hcm, hk, ht, hlen, hup, _⟩ := static_ok h
  have wf := wf_of_ok ok cm
  have f := kosaraju_facts wf
  rw [← hk] at f
  obtain ⟨hc, hgn⟩ := condW_of_ok ok eok cm
  simp only [← hk] at hc hgn
  obtain ⟨_, hnd, hlt, hord, _, hall⟩ := schedule_factsW hc pickFirst
  have hout : st.t3.out = sccSchedule pickFirst (gnOf env (gnewE st.kos.vmap (eEdges inp cm))) st.kos.sccs.length := by
    rw [ht]; rfl
  rw [← hout] at hnd hlt hord hall
  have hmemall := hall.mp hlen
  have hupmap := entries_members st.kos.sccs env.intra st.t3.out 0
  rw [← hup] at hupmap
  have huplen : st.update.length = st.t3.out.length := by
    have := congrArg List.length hupmap; simpa using this
  have hgrp : ∀ x ∈ verts inp, ∀ i, i < st.kos.sccs.length → (x ∈ st.kos.sccs.getD i [] ↔ vscc st.kos.vmap x = i) := by
    intro x hx i hi
    have e : st.kos.sccs.getD i [] = st.kos.sccs[i] := by
      rw [List.getD_eq_getElem?_getD, List.getElem?_eq_getElem hi]; rfl
    rw [e]
    exact f.mem_iff_vscc ((ok.mem x).mpr hx) (List.getElem?_eq_getElem hi)
  refine ⟨hnd, fun i => ⟨hlt i, hmemall i⟩, huplen, ?_, hgrp, ?_, fun x hx => f.vscc_lt ((ok.mem x).mpr hx), ?_⟩
  · intro q hq hq' x
    have h1 : (st.update.map Entry.members)[q]'(by simpa using hq) = st.update[q].members := by simp
    rw [← h1]
    simp only [hupmap, List.getElem_map]
    exact grpMembers_mem eok _ _
  · intro i hi x hx
    have e : st.kos.sccs.getD i [] = st.kos.sccs[i] := by
      rw [List.getD_eq_getElem?_getD, List.getElem?_eq_getElem hi]; rfl
    rw [e] at hx
    have part := f.partition wf
    exact (ok.mem x).mp ((part.2.2 x).mp (List.mem_flatten.mpr ⟨_, List.getElem_mem hi, hx⟩))
  · intro e he hne
    rw [hcm] at he
    have hv := eEdges_in_verts inp cm e he
    have hi : vscc st.kos.vmap e.1 < st.kos.sccs.length := f.vscc_lt ((ok.mem _).mpr hv.1)
    have hj : vscc st.kos.vmap e.2 < st.kos.sccs.length := f.vscc_lt ((ok.mem _).mpr hv.2)
    exact hord _ _ hi ((hgn _ _).mpr ⟨hne, e, he, rfl, rfl⟩) (hmemall _ hj)

theorem nodup_map_of_inj_on {α β : Type} {f : α → β} {l : List α} (h : l.Nodup)
    (hinj : ∀ a ∈ l, ∀ b ∈ l, f a = f b → a = b) : (l.map f).Nodup := by
  unfold List.Nodup at *
  rw [List.pairwise_map]
  exact h.imp_of_mem (fun ha hb hne e => hne (hinj _ ha _ hb e))

theorem nodup_of_map {α β : Type} {f : α → β} {l : List α} (h : (l.map f).Nodup) : l.Nodup := by
  unfold List.Nodup at *
  rw [List.pairwise_map] at h
  exact h.imp (fun hne e => hne (congrArg f e))

/-- index form of `StaticFacts.order` -/
theorem StaticFacts.order_idx {inp : Input} {env : Env} {st : Static} (sf : StaticFacts inp env st)
    (e : Nat × Nat) (he : e ∈ eEdges inp st.cmap) (hne : vscc st.kos.vmap e.1 ≠ vscc st.kos.vmap e.2) :
    ∃ q1 q2, q1 < q2 ∧ ∃ (h2 : q2 < st.update.length), ∃ (h1 : q1 < st.update.length),
      e.1 ∈ st.update[q1].members ∧ e.2 ∈ st.update[q2].members := by
  obtain ⟨pre, post, hpp, hj⟩ := sf.order e he hne
  obtain ⟨p1, p2, hp12⟩ := List.append_of_mem hj
  have hlen : st.t3.out.length = pre.length + 1 + p1.length + 1 + p2.length := by
    rw [hpp, hp12]; simp; omega
  have h1 : pre.length < st.update.length := by rw [sf.up_len]; omega
  have h2 : pre.length + 1 + p1.length < st.update.length := by rw [sf.up_len]; omega
  have hv : ∀ e' ∈ eEdges inp st.cmap, e'.1 ∈ verts inp ∧ e'.2 ∈ verts inp := fun e' he' => eEdges_in_verts inp _ e' he'
  have g1 : st.t3.out[pre.length]'(by omega) = vscc st.kos.vmap e.1 := by
    simp only [hpp]; simp
  have g2 : st.t3.out[pre.length + 1 + p1.length]'(by omega) = vscc st.kos.vmap e.2 := by
    simp only [hpp, hp12]
    rw [List.getElem_append_right (by omega)]
    have : pre.length + 1 + p1.length - pre.length = p1.length + 1 := by omega
    simp only [this]
    simp
  refine ⟨pre.length, pre.length + 1 + p1.length, by omega, h2, h1, ?_, ?_⟩
  · rw [sf.up_mem _ h1 (by omega), g1]
    exact (sf.grp _ (hv e he).1 _ (sf.vlt _ (hv e he).1)).mpr rfl
  · rw [sf.up_mem _ h2 (by omega), g2]
    exact (sf.grp _ (hv e he).2 _ (sf.vlt _ (hv e he).2)).mpr rfl

/-- every vertex is a member of exactly one entry of `update_schedule` -/
theorem StaticFacts.partition {inp : Input} {env : Env} {st : Static} (sf : StaticFacts inp env st)
    (ok : InputOK inp) (eok : EnvOK env) (h : static inp env = .ok st) :
    (st.update.flatMap Entry.members).Nodup ∧ (∀ x, x ∈ st.update.flatMap Entry.members ↔ x ∈ verts inp) ∧
    (∀ e ∈ st.update, e.members ≠ []) ∧ st.update.Nodup := by
  obtain ⟨cm, _, hcm, hk, ht, hlen, hup, _⟩ := static_ok h
  have wf := wf_of_ok ok cm
  have f := kosaraju_facts wf
  rw [← hk] at f
  have hupmap := entries_members st.kos.sccs env.intra st.t3.out 0
  rw [← hup] at hupmap
  have hget : ∀ i, i < st.kos.sccs.length → st.kos.sccs.getD i [] = st.kos.sccs[i]! := by
    intro i hi
    rw [List.getD_eq_getElem?_getD, getElem!_pos st.kos.sccs i hi, List.getElem?_eq_getElem hi]; rfl
  have hgnd : ∀ i, i < st.kos.sccs.length → (st.kos.sccs.getD i []).Nodup := by
    intro i hi
    have e : st.kos.sccs.getD i [] = st.kos.sccs[i] := by
      rw [List.getD_eq_getElem?_getD, List.getElem?_eq_getElem hi]; rfl
    rw [e]; exact f.nodup _ (List.getElem_mem hi)
  have hgne : ∀ i, i < st.kos.sccs.length → st.kos.sccs.getD i [] ≠ [] := by
    intro i hi
    have e : st.kos.sccs.getD i [] = st.kos.sccs[i] := by
      rw [List.getD_eq_getElem?_getD, List.getElem?_eq_getElem hi]; rfl
    rw [e]; exact (f.partition wf).1 _ (List.getElem_mem hi)
  -- groups with different indices are disjoint
  have hdisj : ∀ i j, i < st.kos.sccs.length → j < st.kos.sccs.length → ∀ x, x ∈ st.kos.sccs.getD i [] →
      x ∈ st.kos.sccs.getD j [] → i = j := by
    intro i j hi hj x hxi hxj
    have hx := sf.grp_verts i hi x hxi
    rw [← (sf.grp x hx i hi).mp hxi, ← (sf.grp x hx j hj).mp hxj]
  have hmemF : ∀ i x, x ∈ grpMembers env.intra (st.kos.sccs.getD i []) ↔ x ∈ st.kos.sccs.getD i [] :=
    fun i x => grpMembers_mem eok _ _
  have hflat : st.update.flatMap Entry.members =
      (st.t3.out.map (fun i => grpMembers env.intra (st.kos.sccs.getD i []))).flatten := by
    rw [List.flatMap_def, hupmap]
  refine ⟨?_, ?_, ?_, ?_⟩
  · rw [hflat]
    apply flatten_nodup
    · intro l hl
      obtain ⟨i, hi, rfl⟩ := List.mem_map.mp hl
      exact grpMembers_nodup eok _ (hgnd i ((sf.sched_mem i).mp hi))
    · rw [List.pairwise_map]
      have := sf.sched_nodup
      unfold List.Nodup at this
      refine this.imp_of_mem ?_
      intro i j hi hj hne x hx hx'
      rw [hmemF] at hx hx'
      exact hne (hdisj i j ((sf.sched_mem i).mp hi) ((sf.sched_mem j).mp hj) x hx hx')
  · intro x
    rw [hflat, List.mem_flatten]
    constructor
    · rintro ⟨l, hl, hx⟩
      obtain ⟨i, hi, rfl⟩ := List.mem_map.mp hl
      rw [hmemF] at hx
      exact sf.grp_verts i ((sf.sched_mem i).mp hi) x hx
    · intro hx
      have hi := sf.vlt x hx
      exact ⟨_, List.mem_map.mpr ⟨_, (sf.sched_mem _).mpr hi, rfl⟩, (hmemF _ x).mpr ((sf.grp x hx _ hi).mpr rfl)⟩
  · intro e he hnil
    have : e.members ∈ st.update.map Entry.members := List.mem_map.mpr ⟨e, he, rfl⟩
    rw [hupmap] at this
    obtain ⟨i, hi, hie⟩ := List.mem_map.mp this
    have hi' := (sf.sched_mem i).mp hi
    cases hg : st.kos.sccs.getD i [] with
    | nil => exact hgne i hi' hg
    | cons a r =>
      have : a ∈ grpMembers env.intra (st.kos.sccs.getD i []) := (hmemF i a).mpr (by rw [hg]; simp)
      rw [hie, hnil] at this; simp at this
  · apply nodup_of_map (f := Entry.members)
    rw [hupmap]
    apply nodup_map_of_inj_on sf.sched_nodup
    intro i hi j hj hij
    have hi' := (sf.sched_mem i).mp hi
    have hj' := (sf.sched_mem j).mp hj
    cases hg : st.kos.sccs.getD i [] with
    | nil => exact absurd hg (hgne i hi')
    | cons a r =>
      have h1 : a ∈ st.kos.sccs.getD i [] := by rw [hg]; simp
      have h2 : a ∈ st.kos.sccs.getD j [] := by
        rw [← hmemF j a, ← hij, hmemF i a]; exact h1
      exact hdisj i j hi' hj' a h1 h2

/-! ## `ffs`, and the shape of `schedule` -/

theorem ffsLayout_ne_nil (c : FfCfg) : ffsLayout c ≠ [] := by simp [ffsLayout]

theorem ffsLayout_head (c : FfCfg) : (ffsLayout c).head? = some FfFn.constFalse := by simp [ffsLayout]

theorem ffsLayout_nodup (c : FfCfg) (h1 : c.ffBlocks.Nodup) (h2 : c.flips.Nodup) : (ffsLayout c).Nodup := by
  unfold ffsLayout
  have hb : (c.ffBlocks.map FfFn.ffBlk).Nodup := nodup_map_of_inj_on h1 (fun a _ b _ e => by cases e; rfl)
  have hf : (c.flips.map FfFn.flip).Nodup := nodup_map_of_inj_on h2 (fun a _ b _ e => by cases e; rfl)
  cases c.printTrace <;> cases c.vcd <;> cases c.textwave <;> cases c.clearCl <;>
    simp [List.nodup_append, List.nodup_cons, hb, hf] <;>
    (try (intro a _ b hb' e; subst e; rcases hb' with ⟨_, _, h⟩ | h <;> cases h))

theorem slotOf_inj (pv : List Nat) (a b : Entry) (h : slotOf pv a = slotOf pv b) : a = b := by
  cases a with
  | one u =>
    cases b with
    | one v =>
      simp only [slotOf] at h
      split at h <;> split at h <;> cases h <;> rfl
    | grp id ms => simp only [slotOf] at h; split at h <;> cases h
  | grp id ms =>
    cases b with
    | one v => simp only [slotOf] at h; split at h <;> cases h
    | grp id' ms' => simp only [slotOf] at h; cases h; rfl

theorem slotOf_not_ff (pv : List Nat) (a : Entry) (f : FfFn) : slotOf pv a ≠ Slot.ff f := by
  cases a with
  | one u => simp only [slotOf]; split <;> simp
  | grp id ms => simp [slotOf]

/-- the schedule the model builds has the shape the run-time lemmas need -/
theorem schedOK_of_static {inp : Input} {env : Env} {st : Static} (ok : InputOK inp) (eok : EnvOK env)
    (h : static inp env = .ok st) (h1 : inp.ff.ffBlocks.Nodup) (h2 : inp.ff.flips.Nodup) : SchedOK st.schedule := by
  obtain ⟨_, _, _, _, _, _, _, hs⟩ := static_ok h
  have sf := static_facts ok eok h
  obtain ⟨_, _, _, hund⟩ := sf.partition ok eok h
  refine ⟨?_, ?_⟩
  · rw [hs, snm_append]
    have hff : snm ((ffsLayout inp.ff).map Slot.ff) = (ffsLayout inp.ff).map Slot.ff := by
      unfold snm
      rw [List.filter_eq_self]
      intro x hx
      obtain ⟨f, _, rfl⟩ := List.mem_map.mp hx
      rfl
    rw [hff, List.nodup_append]
    refine ⟨?_, ?_, ?_⟩
    · unfold snm
      exact List.Pairwise.filter _ (nodup_map_of_inj_on hund (fun a _ b _ e => slotOf_inj _ a b e))
    · exact nodup_map_of_inj_on (ffsLayout_nodup _ h1 h2) (fun a _ b _ e => by cases e; rfl)
    · intro a ha b hb hab
      subst hab
      obtain ⟨f, _, rfl⟩ := List.mem_map.mp hb
      unfold snm at ha
      obtain ⟨e, _, he⟩ := List.mem_map.mp (List.mem_filter.mp ha).1
      exact slotOf_not_ff _ e f he
  · rw [hs, List.getLast?_append, List.getLast?_map]
    cases hl : (ffsLayout inp.ff).getLast? with
    | none =>
      rw [List.getLast?_eq_none_iff] at hl
      exact absurd hl (ffsLayout_ne_nil _)
    | some f => exact ⟨Slot.ff f, by simp, rfl⟩

end PV.OpenLoop
