import PymtlVerif.Proofs.SConn
/-!
# Hosting rule, filing, orientation and emission (core Lean only)

* the four cases: `hostOf_none_iff`, `host_can_name`, `hostOf_legal` (a statement whose ends the executing component can
  name is filed under that component, except when both ends are signals of one and the same child: then under the child);
* `filed` / `treeEdges`: membership, targets without repetition over all nets, no pair in both directions;
* `emitFrom`: exact characterisation of success (`emitFrom_ok_iff`) and failure (`emitFrom_error_iff`);
  `emit_eq_assigns`: the list a component emits is the part of `assigns` tagged with it;
* `assigns_perm`: when nothing raises, the emitted pairs are a permutation of the filed tree edges.
-/
namespace PV.SConn
open PV.Nets

/-! ### the hosting rule -/

/-- component `c` can name signal `s`: its own signal, or a signal of a direct child -/
def CanName (H : Hier) (c : Comp) (s : Sig) : Prop := H.hostC s = c ∨ H.parent (H.hostC s) = c

/-- the host components are related as one of the four cases wants -/
def Related (H : Hier) (u v : Sig) : Prop :=
  H.hostC u = H.hostC v ∨ H.parent (H.hostC u) = H.hostC v ∨ H.hostC u = H.parent (H.hostC v) ∨
    H.parent (H.hostC u) = H.parent (H.hostC v)

theorem hostOf_none_iff (H : Hier) (u v : Sig) : hostOf H (u, v) = none ↔ ¬ Related H u v := by
  unfold hostOf Related
  simp only
  split
  · simp [*]
  · split
    · simp [*]
    · split
      · simp [*]
      · split
        · simp [*]
        · simp [*]

theorem host_total (H : Hier) (u v : Sig) (h : Related H u v) : ∃ c, hostOf H (u, v) = some c := by
  cases hh : hostOf H (u, v) with
  | none => exact absurd h ((hostOf_none_iff H u v).mp hh)
  | some c => exact ⟨c, rfl⟩

theorem host_can_name (H : Hier) (u v : Sig) (c : Comp) (h : hostOf H (u, v) = some c) : CanName H c u ∧ CanName H c v := by
  unfold hostOf at h
  simp only at h
  unfold CanName
  split at h
  · next e => cases h; exact ⟨Or.inl rfl, Or.inl e.symm⟩
  · split at h
    · next e => cases h; exact ⟨Or.inr e, Or.inl rfl⟩
    · split at h
      · next e => cases h; exact ⟨Or.inl rfl, Or.inr e.symm⟩
      · split at h
        · next e => cases h; exact ⟨Or.inr rfl, Or.inr e.symm⟩
        · cases h

theorem canName_related {H : Hier} {c : Comp} {u v : Sig} (hu : CanName H c u) (hv : CanName H c v) : Related H u v := by
  unfold Related
  rcases hu with hu | hu <;> rcases hv with hv | hv
  · exact Or.inl (hu.trans hv.symm)
  · exact Or.inr (Or.inr (Or.inl (hu.trans hv.symm)))
  · exact Or.inr (Or.inl (hu.trans hv.symm))
  · exact Or.inr (Or.inr (Or.inr (hu.trans hv.symm)))

/-- a statement whose two ends component `c` can name is filed under `c` — unless both ends are hosted by the same
component, then under that one (for a child of `c`: a connection between two ports of one child, written in the parent) -/
theorem hostOf_legal {H : Hier} {c : Comp} {u v : Sig} (hu : CanName H c u) (hv : CanName H c v)
    (hT : H.parent (H.parent c) ≠ c) :
    hostOf H (u, v) = some (if H.hostC u = H.hostC v then H.hostC u else c) := by
  unfold hostOf
  simp only
  by_cases e : H.hostC u = H.hostC v
  · simp [e]
  · simp only [if_neg e]
    rcases hu with hu | hu <;> rcases hv with hv | hv
    · exact absurd (hu.trans hv.symm) e
    · -- u is c's own signal, v a signal of a child
      have h2 : ¬ H.parent (H.hostC u) = H.hostC v := by
        intro h
        apply hT
        rw [← hu] at hv ⊢
        rw [h, hv]
      rw [if_neg h2, if_pos (hu.trans hv.symm), hu]
    · rw [if_pos (hu.trans hv.symm), hv]
    · by_cases h2 : H.parent (H.hostC u) = H.hostC v
      · rw [if_pos h2, ← h2, hu]
      · rw [if_neg h2]
        by_cases h3 : H.hostC u = H.parent (H.hostC v)
        · rw [if_pos h3, h3, hv]
        · rw [if_neg h3, if_pos (hu.trans hv.symm), hu]

/-- the legal shapes filed under another component than the one that executed the statement -/
theorem host_elsewhere_iff {H : Hier} {c : Comp} {u v : Sig} (hu : CanName H c u) (hv : CanName H c v)
    (hT : H.parent (H.parent c) ≠ c) :
    hostOf H (u, v) ≠ some c ↔ (H.hostC u = H.hostC v ∧ H.hostC u ≠ c) := by
  rw [hostOf_legal hu hv hT]
  by_cases e : H.hostC u = H.hostC v
  · simp only [if_pos e, ne_eq, Option.some.injEq]
    exact ⟨fun h => ⟨e, h⟩, fun h => h.2⟩
  · simp [e]

/-! ### filing -/

theorem mem_treeEdges {H : Hier} {nb : Sig → List Sig} {p : Pair} :
    p ∈ treeEdges H nb ↔ ∃ n ∈ H.nets, p ∈ traverse H nb n.1 := by
  simp [treeEdges, List.mem_flatMap]

theorem mem_filed {H : Hier} {nb : Sig → List Sig} {c : Comp} {p : Pair} :
    p ∈ filed H nb c ↔ p ∈ treeEdges H nb ∧ hostOf H p = some c := by
  simp [filed, filedOf, List.mem_filter]

theorem typeErr_false_iff {H : Hier} {nb : Sig → List Sig} :
    typeErr H nb = false ↔ ∀ p ∈ treeEdges H nb, ∃ c, hostOf H p = some c := by
  unfold typeErr typeErrOf
  rw [Bool.eq_false_iff]
  simp only [ne_eq, List.any_eq_true, not_exists, not_and]
  constructor
  · intro h p hp
    cases hh : hostOf H p with
    | none => exact absurd (by simp [hh]) (h p hp)
    | some c => exact ⟨c, rfl⟩
  · intro h p hp hn
    obtain ⟨c, hc⟩ := h p hp
    simp [hc] at hn

/-- what elaboration guarantees about `get_all_value_nets()`: the members of a net are the signals connected to its writer,
different nets are not connected, every connected signal belongs to a net (no net without writer is left) -/
structure NetsOk (H : Hier) : Prop where
  members : ∀ n ∈ H.nets, ∀ m, m ∈ n.2 ↔ Reach H.edges n.1 m
  disjoint : H.nets.Pairwise (fun a b => ¬ Reach H.edges a.1 b.1)
  cover : ∀ e ∈ H.edges, ∃ n ∈ H.nets, Reach H.edges n.1 e.1

theorem pairwise_mem {α : Type} {R : α → α → Prop} {l : List α} (h : l.Pairwise R) {a b : α} (ha : a ∈ l) (hb : b ∈ l) :
    a = b ∨ R a b ∨ R b a := by
  induction l with
  | nil => simp at ha
  | cons x l ih =>
    obtain ⟨h1, h2⟩ := List.pairwise_cons.mp h
    rcases List.mem_cons.mp ha with ha | ha <;> rcases List.mem_cons.mp hb with hb | hb
    · exact Or.inl (ha.trans hb.symm)
    · rw [ha]; exact Or.inr (Or.inl (h1 b hb))
    · rw [hb]; exact Or.inr (Or.inr (h1 a ha))
    · exact ih h2 ha hb

section
variable {H : Hier} {nb : Sig → List Sig}

/-- two nets that reach a common signal are the same entry of the net list -/
theorem net_unique (hd : H.nets.Pairwise (fun a b => ¬ Reach H.edges a.1 b.1)) {n n' : Sig × List Sig}
    (hn : n ∈ H.nets) (hn' : n' ∈ H.nets) {x : Sig} (h : Reach H.edges n.1 x) (h' : Reach H.edges n'.1 x) : n = n' := by
  rcases pairwise_mem hd hn hn' with e | r | r
  · exact e
  · exact absurd (reach_trans h (reach_symm h')) r
  · exact absurd (reach_trans h' (reach_symm h)) r

theorem flatMap_snd_nodup (hv : ValidOrder H nb) : ∀ (ns : List (Sig × List Sig)),
    ns.Pairwise (fun a b => ¬ Reach H.edges a.1 b.1) →
    ((ns.flatMap (fun n => traverse H nb n.1)).map (·.2)).Nodup := by
  intro ns
  induction ns with
  | nil => intro _; simp
  | cons n ns ih =>
    intro hp
    obtain ⟨h1, h2⟩ := List.pairwise_cons.mp hp
    simp only [List.flatMap_cons, List.map_append]
    rw [List.nodup_append]
    refine ⟨traverse_snd_nodup hv n.1, ih h2, ?_⟩
    intro a ha b hb hab
    subst hab
    obtain ⟨p, hp, rfl⟩ := List.mem_map.mp ha
    obtain ⟨q, hq, hqe⟩ := List.mem_map.mp hb
    obtain ⟨n', hn', hq'⟩ := List.mem_flatMap.mp hq
    apply h1 n' hn'
    have r1 := (traverse_reach hv n.1 p hp).2
    have r2 := (traverse_reach hv n'.1 q hq').2
    rw [hqe] at r2
    exact reach_trans r1 (reach_symm r2)

/-- over all nets, no signal is the target of two filed pairs -/
theorem treeEdges_snd_nodup (hv : ValidOrder H nb) (hd : H.nets.Pairwise (fun a b => ¬ Reach H.edges a.1 b.1)) :
    ((treeEdges H nb).map (·.2)).Nodup := flatMap_snd_nodup hv H.nets hd

theorem treeEdges_nodup (hv : ValidOrder H nb) (hd : H.nets.Pairwise (fun a b => ¬ Reach H.edges a.1 b.1)) :
    (treeEdges H nb).Nodup :=
  (List.pairwise_map.mp (treeEdges_snd_nodup hv hd)).imp (fun hne heq => hne (by rw [heq]))

theorem treeEdges_no_swap (hv : ValidOrder H nb) (hd : H.nets.Pairwise (fun a b => ¬ Reach H.edges a.1 b.1))
    (p : Pair) (hp : p ∈ treeEdges H nb) : (p.2, p.1) ∉ treeEdges H nb := by
  intro hs
  obtain ⟨n, hn, hpn⟩ := mem_treeEdges.mp hp
  obtain ⟨n', hn', hsn⟩ := mem_treeEdges.mp hs
  have r1 := (traverse_reach hv n.1 p hpn).2
  have r2 := (traverse_reach hv n'.1 _ hsn).1
  have e := net_unique hd hn hn' r1 r2
  subst e
  exact (traverse_treeOrd hv n.1).no_swap p hpn hsn

/-- no filed pair has a writer as its target -/
theorem treeEdges_writer_not_target (hv : ValidOrder H nb) (hd : H.nets.Pairwise (fun a b => ¬ Reach H.edges a.1 b.1))
    (n : Sig × List Sig) (hn : n ∈ H.nets) : ∀ p ∈ treeEdges H nb, p.2 ≠ n.1 := by
  intro p hp hc
  obtain ⟨n', hn', hpn⟩ := mem_treeEdges.mp hp
  have r := (traverse_reach hv n'.1 p hpn).2
  rw [hc] at r
  have e := net_unique hd hn' hn r (Reach.refl _)
  subst e
  exact traverse_writer_not_target hv n'.1 p hpn hc

/-- every connection of a connect graph without cycle is filed, one way round -/
theorem stmt_is_tree_edge (hv : ValidOrder H nb) (hn : NetsOk H) (hac : ¬ HasCycle H.edges) (e : Edge) (he : e ∈ H.edges) :
    e ∈ treeEdges H nb ∨ (e.2, e.1) ∈ treeEdges H nb := by
  obtain ⟨n, hnm, hr⟩ := hn.cover e he
  rcases tree_closed hv hac n.1 e he hr with h | h
  · exact Or.inl (mem_treeEdges.mpr ⟨n, hnm, h⟩)
  · exact Or.inr (mem_treeEdges.mpr ⟨n, hnm, h⟩)

end

/-! ### orientation and emission -/

theorem orient_eq_some {F : List Pair} {x y : Pair} (h : orient F x = some y) : y ∈ F ∧ (y = x ∨ y = (x.2, x.1)) := by
  unfold orient at h
  split at h
  · next hx => cases h; exact ⟨hx, Or.inl rfl⟩
  · split at h
    · next hx => cases h; exact ⟨hx, Or.inr rfl⟩
    · cases h

theorem orient_eq_none {F : List Pair} {x : Pair} : orient F x = none ↔ x ∉ F ∧ (x.2, x.1) ∉ F := by
  unfold orient
  by_cases h1 : x ∈ F
  · simp [h1]
  · by_cases h2 : (x.2, x.1) ∈ F
    · simp [h1, h2]
    · simp [h1, h2]

theorem orient_of_mem {F : List Pair} {x : Pair} (h : x ∈ F) : orient F x = some x := by simp [orient, h]

theorem orient_of_swap_mem {F : List Pair} {x : Pair} (h1 : x ∉ F) (h2 : (x.2, x.1) ∈ F) : orient F x = some (x.2, x.1) := by
  simp [orient, h1, h2]

/-- two lists of the same length whose elements at the same position are related -/
inductive Forall2 {α β : Type} (R : α → β → Prop) : List α → List β → Prop
  | nil : Forall2 R [] []
  | cons {a b l₁ l₂} : R a b → Forall2 R l₁ l₂ → Forall2 R (a :: l₁) (b :: l₂)

theorem Forall2.length_eq {α β : Type} {R : α → β → Prop} {l₁ : List α} {l₂ : List β} (h : Forall2 R l₁ l₂) :
    l₁.length = l₂.length := by
  induction h with
  | nil => rfl
  | cons _ _ ih => simp [ih]

theorem Forall2.get {α β : Type} {R : α → β → Prop} {l₁ : List α} {l₂ : List β} (h : Forall2 R l₁ l₂) :
    ∀ (i : Nat) (h1 : i < l₁.length) (h2 : i < l₂.length), R l₁[i] l₂[i] := by
  induction h with
  | nil => intro i h1; simp at h1
  | cons hr _ ih =>
    intro i h1 h2
    cases i with
    | zero => exact hr
    | succ i => exact ih i (by simpa using h1) (by simpa using h2)

theorem Forall2.imp {α β : Type} {R S : α → β → Prop} (hRS : ∀ a b, R a b → S a b) {l₁ : List α} {l₂ : List β}
    (h : Forall2 R l₁ l₂) : Forall2 S l₁ l₂ := by
  induction h with
  | nil => exact .nil
  | cons hr _ ih => exact .cons (hRS _ _ hr) ih

/-- success: every statement is found, the result lists the found orientations in the order of the statements -/
theorem emitFrom_ok_iff (F : List Pair) : ∀ (xs ys : List Pair),
    emitFrom F xs = .ok ys ↔ Forall2 (fun x y => orient F x = some y) xs ys := by
  intro xs
  induction xs with
  | nil =>
    intro ys
    simp only [emitFrom]
    constructor
    · intro h; cases h; exact Forall2.nil
    · intro h; cases h; rfl
  | cons x xs ih =>
    intro ys
    simp only [emitFrom]
    constructor
    · intro h
      cases ho : orient F x with
      | none => rw [ho] at h; cases h
      | some y =>
        rw [ho] at h
        cases hr : emitFrom F xs with
        | error e => rw [hr] at h; cases h
        | ok zs =>
          rw [hr] at h
          cases h
          exact Forall2.cons ho ((ih zs).mp hr)
    · intro h
      cases h with
      | cons h1 h2 =>
        rw [h1]
        simp only
        rw [(ih _).mpr h2]

/-- failure: some statement is filed in neither orientation; the only error is the failed assertion -/
theorem emitFrom_error_iff (F : List Pair) : ∀ (xs : List Pair) (e : Err),
    emitFrom F xs = .error e ↔ e = .conversion ∧ ∃ x ∈ xs, x ∉ F ∧ (x.2, x.1) ∉ F := by
  intro xs
  induction xs with
  | nil => intro e; simp [emitFrom]
  | cons x xs ih =>
    intro e
    simp only [emitFrom]
    cases ho : orient F x with
    | none =>
      simp only
      constructor
      · intro h; cases h
        exact ⟨rfl, x, List.mem_cons_self .., orient_eq_none.mp ho⟩
      · rintro ⟨rfl, _⟩; rfl
    | some y =>
      simp only
      have hx : ¬ (x ∉ F ∧ (x.2, x.1) ∉ F) := fun h => by rw [orient_eq_none.mpr h] at ho; cases ho
      cases hr : emitFrom F xs with
      | error e' =>
        simp only
        have := (ih e').mp hr
        constructor
        · intro h; cases h
          obtain ⟨h1, z, hz, hz'⟩ := this
          exact ⟨h1, z, List.mem_cons_of_mem _ hz, hz'⟩
        · rintro ⟨rfl, _⟩
          rw [this.1]
      | ok zs =>
        simp only
        constructor
        · intro h; cases h
        · rintro ⟨rfl, z, hz, hz'⟩
          rcases List.mem_cons.mp hz with hz | hz
          · subst hz; exact absurd hz' hx
          · have := (ih .conversion).mpr ⟨rfl, z, hz, hz'⟩
            rw [hr] at this; cases this

theorem emitFrom_total (F : List Pair) (xs : List Pair) :
    (∃ ys, emitFrom F xs = .ok ys) ∨ emitFrom F xs = .error .conversion := by
  cases h : emitFrom F xs with
  | ok ys => exact Or.inl ⟨ys, rfl⟩
  | error e => rw [((emitFrom_error_iff F xs e).mp h).1]; exact Or.inr rfl

theorem emitFrom_ok_of_all (F : List Pair) (xs : List Pair) (h : ∀ x ∈ xs, (orient F x).isSome) :
    emitFrom F xs = .ok (xs.filterMap (orient F)) := by
  induction xs with
  | nil => rfl
  | cons x xs ih =>
    have hx := h x (List.mem_cons_self ..)
    obtain ⟨y, hy⟩ := Option.isSome_iff_exists.mp hx
    simp only [emitFrom, hy, ih (fun z hz => h z (List.mem_cons_of_mem _ hz)), List.filterMap_cons]

section
variable {H : Hier} {nb : Sig → List Sig}

theorem mem_connectOrder {c : Comp} {x : Pair} : x ∈ H.connectOrder c ↔ (c, x) ∈ H.stmts := by
  unfold Hier.connectOrder
  simp only [List.mem_map, List.mem_filter, beq_iff_eq]
  constructor
  · rintro ⟨s, ⟨hs, hc⟩, rfl⟩
    rw [← hc]; exact hs
  · intro h; exact ⟨(c, x), ⟨h, rfl⟩, rfl⟩

/-- the `connections` metadata of a component is the part of `assigns` tagged with it, in the same order -/
theorem emit_eq_assigns (c : Comp) (l : List Pair) (h : emit H nb c = .ok l) :
    l = ((assigns H nb).filter (fun a => a.1 == c)).map (·.2) := by
  unfold emit emitOf Hier.connectOrder at h
  unfold assigns assignsOf
  change emitFrom (filed H nb c) _ = _ at h
  change l = List.map _ (List.filter _ (List.filterMap (fun s => (orient (filed H nb s.1) s.2).map (fun y => (s.1, y))) H.stmts))
  generalize H.stmts = ss at h ⊢
  induction ss generalizing l with
  | nil => simp [emitFrom] at h; simp [h]
  | cons s ss ih =>
    by_cases hc : s.1 = c
    · have hb : (s.1 == c) = true := by simp [hc]
      simp only [List.filter_cons, hb, if_true, List.map_cons, emitFrom] at h
      cases ho : orient (filed H nb c) s.2 with
      | none => rw [ho] at h; cases h
      | some y =>
        rw [ho] at h
        cases hr : emitFrom (filed H nb c) ((ss.filter (fun s => s.1 == c)).map (·.2)) with
        | error e => rw [hr] at h; cases h
        | ok zs =>
          rw [hr] at h
          cases h
          have := ih zs hr
          simp only [List.filterMap_cons, hc, ho, Option.map_some, List.filter_cons, beq_self_eq_true, if_true, List.map_cons]
          rw [← this]
    · have hb : (s.1 == c) = false := by simp [hc]
      simp only [List.filter_cons, hb] at h
      have := ih l h
      simp only [List.filterMap_cons]
      cases ho : orient (filed H nb s.1) s.2 with
      | none => simpa using this
      | some y =>
        simp only [Option.map_some, List.filter_cons, hb]
        simpa using this

theorem assigns_snd (H : Hier) (nb : Sig → List Sig) :
    (assigns H nb).map (·.2) = H.stmts.filterMap (fun s => orient (filed H nb s.1) s.2) := by
  unfold assigns assignsOf
  change List.map _ (List.filterMap (fun s => (orient (filed H nb s.1) s.2).map (fun y => (s.1, y))) H.stmts) = _
  rw [List.map_filterMap]
  congr 1
  funext s
  cases orient (filed H nb s.1) s.2 <;> simp

theorem mem_assigns {a : Comp × Pair} :
    a ∈ assigns H nb ↔ ∃ x, (a.1, x) ∈ H.stmts ∧ orient (filed H nb a.1) x = some a.2 := by
  unfold assigns assignsOf
  change a ∈ List.filterMap (fun s => (orient (filed H nb s.1) s.2).map (fun y => (s.1, y))) H.stmts ↔ _
  simp only [List.mem_filterMap, Option.map_eq_some_iff]
  constructor
  · rintro ⟨s, hs, y, hy, rfl⟩
    exact ⟨s.2, hs, hy⟩
  · rintro ⟨x, hx, hy⟩
    exact ⟨(a.1, x), hx, a.2, hy, rfl⟩

/-- an emitted pair is filed under the component that emits it -/
theorem assigns_filed {a : Comp × Pair} (h : a ∈ assigns H nb) : a.2 ∈ filed H nb a.1 := by
  obtain ⟨x, _, hy⟩ := mem_assigns.mp h
  exact (orient_eq_some hy).1

theorem accepted_iff : accepted H nb = true ↔ typeErr H nb = false ∧ ∀ c, ∃ l, emit H nb c = .ok l := by
  unfold accepted acceptedOf
  change (!typeErr H nb && H.stmts.all (fun s => (orient (filed H nb s.1) s.2).isSome)) = true ↔ _
  simp only [Bool.and_eq_true, Bool.not_eq_true', List.all_eq_true]
  constructor
  · rintro ⟨h1, h2⟩
    refine ⟨h1, fun c => ⟨_, emitFrom_ok_of_all _ _ ?_⟩⟩
    intro x hx
    exact h2 (c, x) (mem_connectOrder.mp hx)
  · rintro ⟨h1, h2⟩
    refine ⟨h1, fun s hs => ?_⟩
    obtain ⟨l, hl⟩ := h2 s.1
    cases ho : orient (filed H nb s.1) s.2 with
    | some y => rfl
    | none =>
      exfalso
      have := (emitFrom_error_iff (filed H nb s.1) (H.connectOrder s.1) .conversion).mpr
        ⟨rfl, s.2, mem_connectOrder.mpr hs, orient_eq_none.mp ho⟩
      unfold emit emitOf at hl
      change emitFrom (filed H nb s.1) _ = _ at hl
      rw [hl] at this; cases this

/-! ### the emitted pairs are the filed pairs -/

/-- no component states the same pair twice, either way round -/
def StmtsNodup (H : Hier) : Prop := (H.stmts.map (fun s => (s.1, normEdge s.2))).Nodup

theorem nodup_of_map {α β : Type} (f : α → β) {l : List α} (h : (l.map f).Nodup) : l.Nodup :=
  (List.pairwise_map.mp h).imp (fun hne heq => hne (by rw [heq]))

theorem filterMap_key (ss : List (Comp × Pair)) (h : ∀ s ∈ ss, (orient (filed H nb s.1) s.2).isSome) :
    (ss.filterMap (fun s => orient (filed H nb s.1) s.2)).map (fun y => ((hostOf H y).getD 0, normEdge y))
      = ss.map (fun s => (s.1, normEdge s.2)) := by
  induction ss with
  | nil => rfl
  | cons s ss ih =>
    obtain ⟨y, hy⟩ := Option.isSome_iff_exists.mp (h s (List.mem_cons_self ..))
    simp only [List.filterMap_cons, hy, List.map_cons, ih (fun z hz => h z (List.mem_cons_of_mem _ hz))]
    congr 1
    obtain ⟨hf, ho⟩ := orient_eq_some hy
    have hh := (mem_filed.mp hf).2
    rw [hh]
    simp only [Option.getD_some]
    rcases ho with ho | ho
    · rw [ho]
    · rw [ho, normEdge_swap]

/-- when no component raises: the emitted pairs, taken over the whole hierarchy, are the filed tree edges, each once -/
theorem assigns_perm (hv : ValidOrder H nb) (hd : H.nets.Pairwise (fun a b => ¬ Reach H.edges a.1 b.1))
    (hs : StmtsNodup H) (hacc : accepted H nb = true) : ((assigns H nb).map (·.2)).Perm (treeEdges H nb) := by
  have hall : ∀ s ∈ H.stmts, (orient (filed H nb s.1) s.2).isSome := by
    unfold accepted acceptedOf at hacc
    simp only [Bool.and_eq_true, List.all_eq_true] at hacc
    exact hacc.2
  rw [assigns_snd]
  have hA : (H.stmts.filterMap (fun s => orient (filed H nb s.1) s.2)).Nodup := by
    apply nodup_of_map (fun y => ((hostOf H y).getD 0, normEdge y))
    rw [filterMap_key _ hall]
    exact hs
  apply (List.perm_ext_iff_of_nodup hA (treeEdges_nodup hv hd)).mpr
  intro p
  constructor
  · intro hp
    obtain ⟨s, _, hy⟩ := List.mem_filterMap.mp hp
    exact (mem_filed.mp (orient_eq_some hy).1).1
  · intro hp
    -- the connection behind the tree edge was stated somewhere
    obtain ⟨n, hn, hpn⟩ := mem_treeEdges.mp hp
    have hstep := traverse_step hv n.1 p hpn
    have : ∃ s ∈ H.stmts, s.2 = p ∨ s.2 = (p.2, p.1) := by
      rcases hstep with h | h
      · obtain ⟨s, hs1, hs2⟩ := List.mem_map.mp h
        exact ⟨s, hs1, Or.inl hs2⟩
      · obtain ⟨s, hs1, hs2⟩ := List.mem_map.mp h
        exact ⟨s, hs1, Or.inr hs2⟩
    obtain ⟨s, hs1, hs2⟩ := this
    obtain ⟨y, hy⟩ := Option.isSome_iff_exists.mp (hall s hs1)
    refine List.mem_filterMap.mpr ⟨s, hs1, ?_⟩
    rw [hy]
    obtain ⟨hf, ho⟩ := orient_eq_some hy
    have hyT := (mem_filed.mp hf).1
    -- y is p or its swap; the swap of a tree edge is not a tree edge
    have : y = p ∨ y = (p.2, p.1) := by
      rcases hs2 with hs2 | hs2 <;> rcases ho with ho | ho
      · exact Or.inl (ho.trans hs2)
      · right; rw [ho, hs2]
      · exact Or.inr (ho.trans hs2)
      · left; rw [ho, hs2]
    rcases this with e | e
    · rw [e]
    · rw [e] at hyT
      exact absurd hyT (treeEdges_no_swap hv hd p hp)

end

/-! ### values along the tree -/

theorem TreeOrd.const {α : Type} {σ : Sig → α} {a : α} {V : List Nat} {L : List Pair} (h : TreeOrd V L)
    (hL : ∀ p ∈ L, σ p.2 = σ p.1) (hV : ∀ x ∈ V, σ x = a) : ∀ p ∈ L, σ p.2 = a := by
  induction L generalizing V with
  | nil => intro p hp; simp at hp
  | cons q L ih =>
    obtain ⟨h1, _, h3⟩ := h
    have hq : σ q.2 = a := (hL q (List.mem_cons_self ..)).trans (hV _ h1)
    intro p hp
    rcases List.mem_cons.mp hp with hp | hp
    · subst hp; exact hq
    · apply ih h3 (fun p hp => hL p (List.mem_cons_of_mem _ hp)) _ p hp
      intro x hx
      rcases List.mem_cons.mp hx with hx | hx
      · subst hx; exact hq
      · exact hV x hx

end PV.SConn

/-! ### the preconditions as the driver evaluates them -/

namespace PV.SConn
open PV.Nets

theorem nodupB_sound : ∀ (l : List Nat), nodupB l = true → l.Nodup := by
  intro l
  induction l with
  | nil => intro _; exact List.nodup_nil
  | cons a l ih =>
    intro h
    simp only [nodupB, Bool.and_eq_true, Bool.not_eq_true', decide_eq_false_iff_not] at h
    exact List.nodup_cons.mpr ⟨h.1, ih h.2⟩

theorem sameMembers_sound {a b : List Nat} (h : sameMembers a b = true) : ∀ x, x ∈ a ↔ x ∈ b := by
  simp only [sameMembers, Bool.and_eq_true, List.all_eq_true, decide_eq_true_eq] at h
  exact fun x => ⟨h.1 x, h.2 x⟩

/-- `valid 1` in the driver's reply, for an order that is empty outside the connected signals (the driver's is: it falls
back to `Hier.nbrs`) -/
theorem validOrderB_sound {H : Hier} {nb : Sig → List Sig} (h : validOrderB H nb = true)
    (h0 : ∀ u, u ∉ nodesOf H.edges → nb u = []) : ValidOrder H nb := by
  intro u
  by_cases hu : u ∈ nodesOf H.edges
  · simp only [validOrderB, List.all_eq_true, Bool.and_eq_true] at h
    obtain ⟨h1, h2⟩ := h u hu
    refine ⟨nodupB_sound _ h1, fun v => ?_⟩
    rw [sameMembers_sound h2 v, mem_adj]
  · rw [h0 u hu]
    refine ⟨List.nodup_nil, fun v => ?_⟩
    constructor
    · intro h; simp at h
    · intro hs; exact absurd ((mem_nodesOf _ u).mpr ⟨v, hs⟩) hu

/-- `nodup 1` in the driver's reply -/
theorem stmtsNodupB_sound {H : Hier} (h : stmtsNodupB H = true) : StmtsNodup H := by
  simp only [stmtsNodupB, decide_eq_true_eq] at h
  unfold StmtsNodup
  rw [← h]
  exact nodup_dedup _

theorem pairwiseB_sound {α : Type} {r : α → α → Bool} : ∀ {l : List α}, pairwiseB r l = true → l.Pairwise (fun a b => r a b = true) := by
  intro l
  induction l with
  | nil => intro _; exact List.Pairwise.nil
  | cons a l ih =>
    intro h
    simp only [pairwiseB, Bool.and_eq_true, List.all_eq_true] at h
    exact List.pairwise_cons.mpr ⟨h.1, ih h.2⟩

/-- `netsok 1` in the driver's reply -/
theorem netsOkB_sound {H : Hier} (h : netsOkB H = true) : NetsOk H := by
  simp only [netsOkB, Bool.and_eq_true, List.all_eq_true, List.any_eq_true, beq_iff_eq, decide_eq_true_eq, List.mem_map,
    forall_exists_index, and_imp, forall_apply_eq_imp_iff₂] at h
  obtain ⟨⟨h1, h2⟩, h3⟩ := h
  refine ⟨?_, ?_, ?_⟩
  · intro n hn m
    rw [← mem_netOf, ← h1 n hn, mem_sortDedup]
  · have := List.pairwise_map.mp (pairwiseB_sound h2)
    apply this.imp
    intro a b hab hr
    simp only [Bool.not_eq_true', decide_eq_false_iff_not] at hab
    exact hab ((mem_netOf _ _ _).mpr hr)
  · intro e he
    obtain ⟨c, ⟨n, hn, rfl⟩, hm⟩ := h3 e he
    exact ⟨n, hn, (mem_netOf _ _ _).mp hm⟩

end PV.SConn
