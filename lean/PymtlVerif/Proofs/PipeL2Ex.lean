import PymtlVerif.Proofs.PipeL2
import PymtlVerif.Proofs.PipeDemo
/-!
# LEVEL 2: non-vacuity of the ghost machine on concrete runs

`demoTrace` (`Proofs/PipeDemo.lean`) is a recorded run of the real `ProcRTL`; its taken `bne` (cycle 13) squashes
one instruction in D and one fetch in F whose response is there in the same cycle (dropped in SNOOP).
`waitTrace` replays the first 13 cycles, then withholds the instruction response in the squash cycle, so the
drop unit goes to WAIT and drops the late response two cycles later; then a reset in mid-flight.
-/
namespace PV.Pipe
open PV.C20p

/-! ## the recorded trace -/

example : (grun State.init {} demoTrace).2.sqF = [8] := by decide
example : ((grun State.init {} demoTrace).2.outD.filter (·.2)).map (·.1) = [7] := by decide
example : (grun State.init {} demoTrace).2.commits = [0, 1, 2, 3, 4, 5, 6, 9, 10, 11, 12, 13, 14, 15, 16, 17] := by
  decide
example : (grun State.init {} demoTrace).2.consumedF.filter (·.2) = [(8, true)] := by decide
-- 23 fetches: 16 committed, 1 squashed in D, 1 squashed in F, 5 in flight (W, M, X, D, F all valid)
set_option maxRecDepth 4000 in
example : let p := grun State.init {} demoTrace
    (p.2.base, p.2.nxt, p.2.tW, p.2.tM, p.2.tX, p.2.tD, p.2.tF) = (0, 23, 18, 19, 20, 21, 22) ∧
    (p.1.val_W, p.1.val_M, p.1.val_X, p.1.val_D, p.1.val_F, p.1.drop_wait) = (true, true, true, true, true, false) := by
  decide
-- the squash cycle itself: X holds tag 6 (the `bne`), D tag 7, F tag 8
example : let p := grun State.init {} (demoTrace.take 13)
    osquash_X p.1 (demoTrace.getD 13 {}) = true ∧ (p.2.tX, p.2.tD, p.2.tF) = (6, 7, 8) ∧
    drop_in_rdy p.1 (demoTrace.getD 13 {}) = true := by decide

/-! ## a run through the WAIT state of the drop unit, then a reset -/

def quiet : EnvIn := { imem_req_rdy := true, dmem_req_rdy := true, proc2mngr_rdy := true, xcel_req_rdy := true }
/-- an instruction response carrying `nop` -/
def nopResp : EnvIn := { quiet with imem_resp_en := true, imem_resp_data := 19 }
def waitTrace : List EnvIn :=
  demoTrace.take 13 ++
    [quiet, quiet, nopResp, nopResp, nopResp, nopResp, nopResp, nopResp, { reset := true }, quiet, nopResp, nopResp]

-- squash without a response: WAIT, the squashed fetch (tag 8) is remembered, nothing consumed yet
example : let p := grun State.init {} (waitTrace.take 14)
    p.1.drop_wait = true ∧ p.2.tWait = 8 ∧ p.2.sqF = [8] ∧ p.2.consumedF.filter (·.2) = [] ∧
    (p.1.val_D, p.1.val_X) = (false, false) := by decide
example : (grun State.init {} (waitTrace.take 15)).1.drop_wait = true := by decide
-- the late response arrives: dropped on behalf of tag 8, back to SNOOP
example : let p := grun State.init {} (waitTrace.take 16)
    p.1.drop_wait = false ∧ p.2.sqF = [8] ∧ p.2.consumedF.filter (·.2) = [(8, true)] := by decide
-- all three fates are populated before the reset
example : let p := grun State.init {} (waitTrace.take 21)
    p.2.commits = [0, 1, 2, 3, 4, 5, 6, 9] ∧ (p.2.outD.filter (·.2)).map (·.1) = [7] ∧ p.2.sqF = [8] ∧
    (p.2.base, p.2.nxt) = (0, 15) := by decide
-- the reset cycle clears the logs and starts a new tag epoch; fetching resumes with fresh tags
example : let p := grun State.init {} (waitTrace.take 22)
    (p.2.base, p.2.nxt) = (15, 15) ∧ p.2.commits = [] ∧ p.2.sqF = [] := by decide
example : let p := grun State.init {} waitTrace
    (p.2.base, p.2.nxt, p.2.tX, p.2.tD, p.2.tF) = (15, 18, 15, 16, 17) ∧
    (p.1.val_X, p.1.val_D, p.1.val_F) = (true, true, true) := by decide

/-! ## the lists of `fate_partition` / `tags_increasing` on the recorded trace (`Proofs/PipeL2.lean` proves the
permutation / the ordering for every reachable state; here they are concrete and non-empty) -/

example : let p := grun State.init {} demoTrace
    p.2.commits ++ (p.2.outD.filter (·.2)).map (·.1) ++ p.2.sqF ++
      (opt [p.2.tW] p.1.val_W ++ opt [p.2.tM] p.1.val_M ++ opt [p.2.tX] p.1.val_X ++ opt [p.2.tD] p.1.val_D
        ++ opt [p.2.tF] p.1.val_F)
    = [0, 1, 2, 3, 4, 5, 6, 9, 10, 11, 12, 13, 14, 15, 16, 17] ++ [7] ++ [8] ++ [18, 19, 20, 21, 22] := by decide
example : let p := grun State.init {} (waitTrace.take 15)
    p.2.commits ++ opt [p.2.tW] p.1.val_W ++ opt [p.2.tM] p.1.val_M ++ opt [p.2.tX] p.1.val_X ++ opt [p.2.tD] p.1.val_D
        ++ opt [p.2.tWait] p.1.drop_wait ++ opt [p.2.tF] p.1.val_F
    = [0, 1, 2, 3, 4, 5] ++ [6] ++ [] ++ [] ++ [] ++ [8] ++ [9] := by decide

end PV.Pipe
