import PymtlVerif.Model.Mem
/-!
Lemmas about `Model/Mem.lean` used by `Props/C18.lean`: byte store, sequential specification,
slot pipelines, and the invariant of the two system models.
-/
namespace PV.Mem

/-! ## byte store -/

theorem writeLE_byte : ∀ (k : Nat) (m : Store) (a d b : Nat),
    writeLE m a k d b = if a ≤ b ∧ b < a + k then (d / 256 ^ (b - a)) % 256 else m b
  | 0, m, a, d, b => by
    simp only [writeLE]
    rw [if_neg (by omega)]
  | k+1, m, a, d, b => by
    simp only [writeLE]
    rw [writeLE_byte k]
    by_cases h1 : a + 1 ≤ b ∧ b < a + 1 + k
    · have h2 : a ≤ b ∧ b < a + (k + 1) := by omega
      rw [if_pos h1, if_pos h2]
      have : b - a = (b - (a + 1)) + 1 := by omega
      rw [this, Nat.pow_succ', ← Nat.div_div_eq_div_mul]
    · rw [if_neg h1]
      by_cases h3 : b = a
      · subst h3
        have h2 : b ≤ b ∧ b < b + (k + 1) := by omega
        rw [if_pos h2]; simp [upd]
      · have h2 : ¬ (a ≤ b ∧ b < a + (k + 1)) := by omega
        rw [if_neg h2]; simp [upd, h3]

theorem write_frame (k : Nat) (m : Store) (a d b : Nat) (h : b < a ∨ a + k ≤ b) :
    writeLE m a k d b = m b := by
  rw [writeLE_byte]; exact if_neg (by omega)

theorem read_congr : ∀ (k : Nat) (m m' : Store) (a : Nat), (∀ b, a ≤ b → b < a + k → m b = m' b) →
    readLE m a k = readLE m' a k
  | 0, _, _, _, _ => rfl
  | k+1, m, m', a, h => by
    simp only [readLE]
    rw [h a (by omega) (by omega), read_congr k m m' (a+1) (fun b h1 h2 => h b (by omega) (by omega))]

theorem read_write : ∀ (k : Nat) (m : Store) (a d : Nat), readLE (writeLE m a k d) a k = d % 256 ^ k
  | 0, m, a, d => by simp [readLE, Nat.mod_one]
  | k+1, m, a, d => by
    simp only [readLE, writeLE]
    rw [write_frame k _ (a+1) _ a (by omega)]
    rw [read_write k _ (a+1) (d / 256)]
    simp only [upd, if_true]
    rw [Nat.pow_succ, Nat.mul_comm (256 ^ k) 256, Nat.mod_mul]

/-- a store all of whose cells are bytes -/
def Bytes (m : Store) : Prop := ∀ b, m b < 256

theorem write_bytes (k : Nat) (m : Store) (a d : Nat) (h : Bytes m) : Bytes (writeLE m a k d) := by
  intro b
  rw [writeLE_byte]
  split
  · exact Nat.mod_lt _ (by omega)
  · exact h b

theorem readLE_lt : ∀ (k : Nat) (m : Store) (a : Nat), Bytes m → readLE m a k < 256 ^ k
  | 0, _, _, _ => by simp [readLE]
  | k+1, m, a, h => by
    simp only [readLE]
    have := readLE_lt k m (a+1) h
    have := h a
    rw [Nat.pow_succ]; omega

/-- byte `i` of a read is the store cell `a + i` -/
theorem readLE_byte : ∀ (k : Nat) (m : Store) (a i : Nat), Bytes m → i < k →
    (readLE m a k / 256 ^ i) % 256 = m (a + i)
  | 0, _, _, _, _, h => by omega
  | k+1, m, a, i, hb, h => by
    simp only [readLE]
    cases i with
    | zero =>
      have := hb a
      simp; omega
    | succ j =>
      have ih := readLE_byte k m (a+1) j hb (by omega)
      have h1 := hb a
      rw [Nat.pow_succ', ← Nat.div_div_eq_div_mul]
      have : (m a + 256 * readLE m (a + 1) k) / 256 = readLE m (a+1) k := by omega
      rw [this, ih]; congr 1; omega

/-- the low `k` bytes of `d % 2^(8k)` are those of `d` -/
theorem byte_mod (d k j : Nat) (h : j < k) : (d % 2 ^ (8 * k) / 256 ^ j) % 256 = (d / 256 ^ j) % 256 := by
  have e : (2 : Nat) ^ (8 * k) = 256 ^ j * (256 * 256 ^ (k - j - 1)) := by
    have : (256 : Nat) = 2 ^ 8 := by decide
    rw [this, ← Nat.pow_mul, ← Nat.pow_mul, ← Nat.pow_add, ← Nat.pow_add]
    congr 1; omega
  rw [e, Nat.mod_mul_right_div_self, Nat.mod_mul_right_mod]

theorem pow256 (k : Nat) : (2 : Nat) ^ (8 * k) = 256 ^ k := by
  have : (256 : Nat) = 2 ^ 8 := by decide
  rw [this, ← Nat.pow_mul]

/-- every `AMO_FUNS` entry maps two `w`-bit operands to a `w`-bit value (so what an AMO writes back needs no truncation) -/
theorem amoFun_lt (w : Nat) (op : AmoOp) (m a : Nat) (hm : m < 2 ^ w) (ha : a < 2 ^ w) : amoFun w op m a < 2 ^ w := by
  cases op <;> simp only [amoFun]
  case add => exact Nat.mod_lt _ (Nat.two_pow_pos w)
  case and => exact Nat.and_lt_two_pow _ ha
  case or => exact Nat.or_lt_two_pow hm ha
  case xor => exact Nat.xor_lt_two_pow hm ha
  case swap => exact ha
  all_goals (split <;> assumption)

/-! ## sequential specification -/

theorem service_bytes (r : Req) (m : Store) (h : Bytes m) : Bytes (service r m).2 := by
  unfold service
  cases r.kind with
  | read => exact h
  | write => exact write_bytes _ _ _ _ h
  | amo op => exact write_bytes _ _ _ _ h

theorem seqSpec_bytes : ∀ (l : List Req) (m : Store), Bytes m → Bytes (seqSpec l m).2
  | [], _, h => h
  | r :: rs, m, h => by
    simp only [seqSpec]
    exact seqSpec_bytes rs _ (service_bytes r m h)

theorem seqSpec_append : ∀ (l1 l2 : List Req) (m : Store),
    seqSpec (l1 ++ l2) m =
      ((seqSpec l1 m).1 ++ (seqSpec l2 (seqSpec l1 m).2).1, (seqSpec l2 (seqSpec l1 m).2).2)
  | [], l2, m => by simp [seqSpec]
  | r :: rs, l2, m => by
    simp only [List.cons_append, seqSpec]
    rw [seqSpec_append rs l2]

theorem seqSpec_length : ∀ (l : List Req) (m : Store), (seqSpec l m).1.length = l.length
  | [], _ => rfl
  | r :: rs, m => by simp [seqSpec, seqSpec_length rs]

theorem runLog_seqSpec : ∀ (log : List (Nat × Req)) (m : Store),
    runLog log m = ((log.map (·.1)).zip (seqSpec (log.map (·.2)) m).1, (seqSpec (log.map (·.2)) m).2)
  | [], _ => rfl
  | (i, r) :: rs, m => by
    simp only [runLog, List.map_cons, seqSpec, List.zip_cons_cons]
    rw [runLog_seqSpec rs]

theorem runLog_snoc : ∀ (log : List (Nat × Req)) (m0 : Store) (rlog : List (Nat × Resp)) (m : Store)
    (i : Nat) (r : Req) (x : Resp) (m' : Store),
    runLog log m0 = (rlog, m) → service r m = (x, m') →
    runLog (log ++ [(i, r)]) m0 = (rlog ++ [(i, x)], m')
  | [], m0, rlog, m, i, r, x, m', h, hs => by
    simp only [runLog, Prod.mk.injEq] at h
    obtain ⟨h1, h2⟩ := h
    subst h1; subst h2
    simp [runLog, hs]
  | (j, q) :: rs, m0, rlog, m, i, r, x, m', h, hs => by
    simp only [runLog, Prod.mk.injEq] at h
    obtain ⟨h1, h2⟩ := h
    have ih := runLog_snoc rs (service q m0).2 (runLog rs (service q m0).2).1 m i r x m'
      (by rw [← h2]) hs
    simp only [List.cons_append, runLog, ih]
    rw [← h1]; simp

/-- `service` echoes type and opaque, and sets the test field to 0 -/
theorem service_echo (r : Req) (m : Store) :
    (service r m).1.type = r.kind.code ∧ (service r m).1.opq = r.opq ∧ (service r m).1.test = 0 := by
  unfold service
  cases r.kind <;> simp [Kind.code]

theorem service_store (r : Req) (m : Store) (b : Nat) :
    (service r m).2 b =
      match effect r m with
      | some e => if e.covers b then e.byte b else m b
      | none => m b := by
  unfold service effect
  cases r.kind with
  | read => rfl
  | write => simp only [writeLE_byte, WEvent.covers, WEvent.byte]; simp
  | amo op => simp only [writeLE_byte, WEvent.covers, WEvent.byte]; simp

theorem latest_append : ∀ (es1 es2 : List WEvent) (b : Nat),
    latest (es1 ++ es2) b = match latest es2 b with | some v => some v | none => latest es1 b
  | [], es2, b => by simp [latest]; cases latest es2 b <;> rfl
  | e :: es, es2, b => by
    simp only [List.cons_append, latest, latest_append es es2 b]
    cases latest es2 b <;> rfl

/-- every byte of the final store is the byte put there by the latest processed request that
stored to it, or the initial byte if there is none -/
theorem store_latest : ∀ (l : List Req) (m : Store) (b : Nat),
    (seqSpec l m).2 b = (latest (effects l m) b).getD (m b)
  | [], m, b => rfl
  | r :: rs, m, b => by
    simp only [seqSpec, effects]
    rw [store_latest rs, latest_append, service_store]
    cases h : latest (effects rs (service r m).2) b with
    | some v => simp
    | none =>
      cases h2 : effect r m with
      | none => simp [latest]
      | some e =>
        simp only [Option.toList, latest, Option.getD]
        split <;> simp_all

/-! ## slot pipelines -/

namespace Slots
variable {α : Type}

theorem eq_of_getLast? {p : Slots α} {x : Option α} (h : p.getLast? = some x) : p = p.dropLast ++ [x] := by
  obtain ⟨ys, rfl⟩ := List.getLast?_eq_some_iff.mp h
  simp

theorem contents_append_single (d : Slots α) (x : Option α) :
    contents (d ++ [x]) = x.toList ++ contents d := by
  cases x <;> simp [contents]

theorem contents_cons (x : Option α) (t : Slots α) : contents (x :: t) = contents t ++ x.toList := by
  cases x <;> simp [contents]

theorem contents_rot (p : Slots α) (h : p.getLast? = some none) : p.rot.contents = p.contents := by
  have e := eq_of_getLast? h
  rw [rot, h]
  conv => rhs; rw [e]
  simp [contents_append_single, contents_cons]

theorem contents_setLast (p : Slots α) (x : α) (h : p.getLast? = some (some x)) :
    p.contents = x :: (p.setLast none).contents := by
  have e := eq_of_getLast? h
  rw [setLast, h]
  conv => lhs; rw [e]
  simp [contents_append_single]

theorem getLast?_setLast (p : Slots α) (v y : Option α) (h : p.getLast? = some y) :
    (p.setLast v).getLast? = some v := by
  simp [setLast, h]

theorem length_rot (p : Slots α) : p.rot.length = p.length := by
  unfold rot
  cases h : p.getLast? with
  | none => rfl
  | some x =>
    have e := eq_of_getLast? h
    conv => rhs; rw [e]
    simp

theorem length_setLast (p : Slots α) (v : Option α) : (p.setLast v).length = p.length := by
  unfold setLast
  cases h : p.getLast? with
  | none => rfl
  | some x =>
    have e := eq_of_getLast? h
    conv => rhs; rw [e]
    simp

theorem length_setHead (p : Slots α) (v : Option α) : (p.setHead v).length = p.length := by
  cases p <;> simp [setHead]

theorem headFree_spec {p : Slots α} (h : p.headFree = true) : ∃ t, p = none :: t := by
  unfold headFree at h
  split at h
  · exact ⟨_, rfl⟩
  · cases h

theorem contents_empty (n : Nat) : (empty n : Slots α).contents = [] := by
  simp [empty, contents]

end Slots

/-! ### the three delay pipes refine a FIFO queue (`Slots.contents`) -/

namespace DeqPipe
variable {α : Type}

theorem tick_contents (p : Slots α) : (tick p).contents = p.contents := by
  unfold tick
  split
  · next h => exact Slots.contents_rot p h
  · rfl

theorem enq_contents (p : Slots α) (x : α) (h : enqRdy p = true) : (enq p x).contents = p.contents ++ [x] := by
  obtain ⟨t, rfl⟩ := Slots.headFree_spec h
  simp [enq, Slots.setHead, Slots.contents_cons]

theorem deq_contents (p p' : Slots α) (x : α) (h : deq p = some (x, p')) : p.contents = x :: p'.contents := by
  unfold deq at h
  split at h
  · next y hy =>
    simp only [Option.some.injEq, Prod.mk.injEq] at h
    obtain ⟨h1, h2⟩ := h
    subst h1; subst h2
    exact Slots.contents_setLast p y hy
  · cases h

end DeqPipe

namespace SendPipe
variable {α : Type}

theorem tick_contents (rdy : Bool) (p : Slots α) :
    (tick rdy p).2.toList ++ (tick rdy p).1.contents = p.contents := by
  unfold tick
  split
  · next x hx =>
    cases rdy with
    | true =>
      simp only [if_true, Option.toList]
      rw [Slots.contents_rot _ (Slots.getLast?_setLast p none _ hx), Slots.contents_setLast p x hx]
      rfl
    | false => simp
  · next h => simp [Slots.contents_rot p h]
  · simp

theorem enq_contents (p : Slots α) (x : α) (h : enqRdy p = true) : (enq p x).contents = p.contents ++ [x] :=
  DeqPipe.enq_contents p x h

end SendPipe

namespace IPipe
variable {α : Type}

/-- the registered handshake signals agree with the slots -/
structure OK (q : IPipe α) : Prop where
  len : 2 ≤ q.slots.length
  val : q.sendVal = true → ∃ x, q.sendMsg = some x ∧ q.slots.getLast? = some (some x)
  nval : q.sendVal = false → q.slots.getLast? = some none
  rdy : q.recvRdy = true → ∃ t, q.slots = none :: t

theorem init_ok (d : Nat) (hd : 1 ≤ d) : (init d : IPipe α).OK := by
  refine ⟨by simp [init, Slots.empty]; omega, by simp [init], ?_, by simp [init]⟩
  intro _
  simp only [init, Slots.empty, List.replicate_succ']
  simp

theorem getLast?_setHead (p : Slots α) (v : Option α) (h : 2 ≤ p.length) :
    (p.setHead v).getLast? = p.getLast? := by
  match p, h with
  | a :: b :: t, _ => simp [Slots.setHead, List.getLast?_cons_cons]

theorem edge_spec (q : IPipe α) (hq : q.OK) (recvVal : Bool) (msg : α) (sinkRdy : Bool) :
    (q.edge recvVal msg sinkRdy).1.OK ∧
    (q.edge recvVal msg sinkRdy).2.toList ++ (q.edge recvVal msg sinkRdy).1.slots.contents =
      q.slots.contents ++ (if q.recvRdy && recvVal then [msg] else []) := by
  -- stage 1: the slots after the optional enqueue
  let p1 : Slots α := if q.recvRdy && recvVal then q.slots.setHead (some msg) else q.slots
  have hp1len : p1.length = q.slots.length := by
    simp only [p1]; split
    · exact Slots.length_setHead _ _
    · rfl
  have hp1last : p1.getLast? = q.slots.getLast? := by
    simp only [p1]; split
    · exact getLast?_setHead _ _ hq.len
    · rfl
  have hp1c : p1.contents = q.slots.contents ++ (if q.recvRdy && recvVal then [msg] else []) := by
    simp only [p1]
    by_cases h : (q.recvRdy && recvVal) = true
    · simp only [h, if_true]
      have hr : q.recvRdy = true := by simp_all
      obtain ⟨t, ht⟩ := hq.rdy hr
      rw [ht]; simp [Slots.setHead, Slots.contents_cons]
    · simp [h]
  -- stage 2: the slots after send / rotate, and what goes out
  let p2 : Slots α := if q.sendVal then (if sinkRdy then (p1.setLast none).rot else p1) else p1.rot
  let out : Option α := if q.sendVal && sinkRdy then q.sendMsg else none
  have hp2len : p2.length = q.slots.length := by
    simp only [p2]; split
    · split
      · rw [Slots.length_rot, Slots.length_setLast, hp1len]
      · exact hp1len
    · rw [Slots.length_rot, hp1len]
  have hp2c : out.toList ++ p2.contents = p1.contents := by
    simp only [p2, out]
    cases hv : q.sendVal with
    | true =>
      obtain ⟨x, hx1, hx2⟩ := hq.val hv
      cases sinkRdy with
      | true =>
        simp only [Bool.and_self, if_true, hx1, Option.toList]
        rw [Slots.contents_rot _ (Slots.getLast?_setLast p1 none _ (hp1last.trans hx2)),
            Slots.contents_setLast p1 x (hp1last.trans hx2)]
        rfl
      | false => simp
    | false =>
      have := hq.nval hv
      simp [Slots.contents_rot p1 (hp1last.trans this)]
  have hne : p2 ≠ [] := by
    intro h; rw [h] at hp2len; have := hq.len; simp at hp2len; omega
  have key : (q.edge recvVal msg sinkRdy).2 = out ∧ (q.edge recvVal msg sinkRdy).1.slots = p2 ∧
      (q.edge recvVal msg sinkRdy).1.OK := by
    unfold edge
    simp only []
    show _ ∧ _ ∧ _
    split
    · next x hx =>
      refine ⟨rfl, rfl, ⟨?_, ?_, ?_, ?_⟩⟩
      · exact hp2len ▸ hq.len
      · intro _; exact ⟨x, rfl, hx⟩
      · intro h; cases h
      · intro h
        exact Slots.headFree_spec (p := p2) h
    · next hx =>
      refine ⟨rfl, rfl, ⟨?_, ?_, ?_, ?_⟩⟩
      · exact hp2len ▸ hq.len
      · intro h; cases h
      · intro _
        show p2.getLast? = some none
        cases hl : p2.getLast? with
        | none => exact absurd (List.getLast?_eq_none_iff.mp hl) hne
        | some y =>
          cases y with
          | none => rfl
          | some z => exact absurd hl (hx z)
      · intro h
        exact Slots.headFree_spec (p := p2) h
  obtain ⟨k1, k2, k3⟩ := key
  refine ⟨k3, ?_⟩
  rw [k1, k2, hp2c, hp1c]

end IPipe

/-! ### arbitrary operation histories on the pipes

An operation that is not enabled (`enq` on a full head slot, `deq` on an empty last slot) is
skipped, as the callers do after testing `rdy`. `acc` collects the accepted messages, `out` the
messages that left the pipe. -/

inductive DeqOp (α : Type) where
  | tick | enq (x : α) | deq

inductive SendOp (α : Type) where
  | tick (sinkRdy : Bool) | enq (x : α)

namespace DeqPipe
variable {α : Type}

def runOps : List (DeqOp α) → Slots α → List α → List α → Slots α × List α × List α
  | [], p, acc, out => (p, acc, out)
  | .tick :: ops, p, acc, out => runOps ops (tick p) acc out
  | .enq x :: ops, p, acc, out =>
    if enqRdy p then runOps ops (enq p x) (acc ++ [x]) out else runOps ops p acc out
  | .deq :: ops, p, acc, out =>
    match deq p with
    | some (x, p') => runOps ops p' acc (out ++ [x])
    | none => runOps ops p acc out

theorem runOps_fifo : ∀ (ops : List (DeqOp α)) (p : Slots α) (acc out : List α),
    out ++ p.contents = acc →
    (runOps ops p acc out).2.2 ++ (runOps ops p acc out).1.contents = (runOps ops p acc out).2.1
  | [], _, _, _, h => h
  | .tick :: ops, p, acc, out, h => by
    simp only [runOps]; exact runOps_fifo ops _ _ _ (by rw [tick_contents]; exact h)
  | .enq x :: ops, p, acc, out, h => by
    simp only [runOps]
    split
    · next hr => exact runOps_fifo ops _ _ _ (by rw [enq_contents _ _ hr, ← List.append_assoc, h])
    · exact runOps_fifo ops _ _ _ h
  | .deq :: ops, p, acc, out, h => by
    simp only [runOps]
    split
    · next x p' hd =>
      exact runOps_fifo ops _ _ _ (by rw [← h, deq_contents _ _ _ hd]; simp)
    · exact runOps_fifo ops _ _ _ h

end DeqPipe

namespace SendPipe
variable {α : Type}

def runOps : List (SendOp α) → Slots α → List α → List α → Slots α × List α × List α
  | [], p, acc, out => (p, acc, out)
  | .tick rdy :: ops, p, acc, out => runOps ops (tick rdy p).1 acc (out ++ (tick rdy p).2.toList)
  | .enq x :: ops, p, acc, out =>
    if enqRdy p then runOps ops (enq p x) (acc ++ [x]) out else runOps ops p acc out

theorem runOps_fifo : ∀ (ops : List (SendOp α)) (p : Slots α) (acc out : List α),
    out ++ p.contents = acc →
    (runOps ops p acc out).2.2 ++ (runOps ops p acc out).1.contents = (runOps ops p acc out).2.1
  | [], _, _, _, h => h
  | .tick rdy :: ops, p, acc, out, h => by
    simp only [runOps]
    exact runOps_fifo ops _ _ _ (by rw [List.append_assoc, tick_contents]; exact h)
  | .enq x :: ops, p, acc, out, h => by
    simp only [runOps]
    split
    · next hr => exact runOps_fifo ops _ _ _ (by rw [enq_contents _ _ hr, ← List.append_assoc, h])
    · exact runOps_fifo ops _ _ _ h

end SendPipe

namespace IPipe
variable {α : Type}

/-- a history of clock edges `(recv.val, recv.msg, send.rdy)` -/
def runEdges : List (Bool × α × Bool) → IPipe α → List α → List α → IPipe α × List α × List α
  | [], q, acc, out => (q, acc, out)
  | (v, msg, rdy) :: es, q, acc, out =>
    runEdges es (q.edge v msg rdy).1 (acc ++ (if q.recvRdy && v then [msg] else []))
      (out ++ (q.edge v msg rdy).2.toList)

theorem runEdges_fifo : ∀ (es : List (Bool × α × Bool)) (q : IPipe α) (acc out : List α),
    q.OK → out ++ q.slots.contents = acc →
    (runEdges es q acc out).2.2 ++ (runEdges es q acc out).1.slots.contents = (runEdges es q acc out).2.1
  | [], _, _, _, _, h => h
  | (v, msg, rdy) :: es, q, acc, out, hq, h => by
    simp only [runEdges]
    have he := edge_spec q hq v msg rdy
    exact runEdges_fifo es _ _ _ he.1 (by rw [List.append_assoc, he.2, ← List.append_assoc, h])

end IPipe

/-! ## the invariant shared by the two system models -/

theorem procs_snoc (j i : Nat) (r : Req) (log : List (Nat × Req)) :
    procs j (log ++ [(i, r)]) = if i = j then procs j log ++ [r] else procs j log := by
  unfold procs
  by_cases h : i = j <;> simp [List.filter_append, h]

theorem portResps_snoc (j i : Nat) (x : Resp) (rlog : List (Nat × Resp)) :
    portResps j (rlog ++ [(i, x)]) = if i = j then portResps j rlog ++ [x] else portResps j rlog := by
  unfold portResps
  by_cases h : i = j <;> simp [List.filter_append, h]

/-- what a port looks like when its pipelines are read as queues -/
structure View where
  pending : List Req
  inReq : List Req
  inResp : List Resp
  delivered : List Resp

/-- a step that only moves messages along inside one port -/
def View.Local (v v' : View) : Prop :=
  v'.inReq ++ v'.pending = v.inReq ++ v.pending ∧ v'.delivered ++ v'.inResp = v.delivered ++ v.inResp

/-- a step in which the memory services the oldest waiting request `r` of the port with response `x` -/
def View.Served (v v' : View) (r : Req) (x : Resp) : Prop :=
  v.inReq ++ v.pending = r :: (v'.inReq ++ v'.pending) ∧
  v'.delivered ++ v'.inResp = v.delivered ++ v.inResp ++ [x]

theorem View.Local.refl (v : View) : v.Local v := ⟨rfl, rfl⟩
theorem View.Local.trans {a b c : View} (h1 : a.Local b) (h2 : b.Local c) : a.Local c :=
  ⟨h2.1.trans h1.1, h2.2.trans h1.2⟩

structure Inv (n : Nat) (reqs : Nat → List Req) (m0 : Store) (view : Nat → View)
    (store : Store) (log : List (Nat × Req)) (rlog : List (Nat × Resp)) : Prop where
  spec : runLog log m0 = (rlog, store)
  req : ∀ i, procs i log ++ ((view i).inReq ++ (view i).pending) = reqs i
  resp : ∀ i, (view i).delivered ++ (view i).inResp = portResps i rlog
  bound : ∀ e ∈ log, e.1 < n

theorem Inv.local_step {n reqs m0 view store log rlog} (h : Inv n reqs m0 view store log rlog)
    (view' : Nat → View) (i : Nat) (hv : ∀ j, j ≠ i → view' j = view j) (hl : (view i).Local (view' i)) :
    Inv n reqs m0 view' store log rlog := by
  refine ⟨h.spec, ?_, ?_, h.bound⟩
  · intro j
    by_cases hj : j = i
    · subst hj; rw [hl.1]; exact h.req j
    · rw [hv j hj]; exact h.req j
  · intro j
    by_cases hj : j = i
    · subst hj; rw [hl.2]; exact h.resp j
    · rw [hv j hj]; exact h.resp j

theorem Inv.service_step {n reqs m0 view store log rlog} (h : Inv n reqs m0 view store log rlog)
    (view' : Nat → View) (i : Nat) (hi : i < n) (hv : ∀ j, j ≠ i → view' j = view j) (r : Req)
    (hl : (view i).Served (view' i) r (service r store).1) :
    Inv n reqs m0 view' (service r store).2 (log ++ [(i, r)]) (rlog ++ [(i, (service r store).1)]) := by
  refine ⟨runLog_snoc log m0 rlog store i r _ _ h.spec rfl, ?_, ?_, ?_⟩
  · intro j
    rw [procs_snoc]
    by_cases hj : j = i
    · subst hj
      rw [if_pos rfl, List.append_assoc, List.singleton_append, ← hl.1]; exact h.req j
    · rw [if_neg (Ne.symm hj), hv j hj]; exact h.req j
  · intro j
    rw [portResps_snoc]
    by_cases hj : j = i
    · subst hj
      rw [if_pos rfl, hl.2, h.resp j]
    · rw [if_neg (Ne.symm hj), hv j hj]; exact h.resp j
  · intro e he
    rw [List.mem_append] at he
    cases he with
    | inl h1 => exact h.bound e h1
    | inr h1 => simp at h1; subst h1; exact hi

theorem forPorts_inv {σ : Type} (f : Nat → σ → σ) (P : σ → Prop) (n : Nat)
    (h : ∀ i s, i < n → P s → P (f i s)) : ∀ k, k ≤ n → ∀ s, P s → P (forPorts f k s)
  | 0, _, _, hs => hs
  | k+1, hk, s, hs => h k _ (by omega) (forPorts_inv f P n h k (by omega) s hs)

theorem foldl_inv {σ β : Type} (f : σ → β → σ) (P : σ → Prop) (h : ∀ s b, P s → P (f s b)) :
    ∀ (l : List β) (s : σ), P s → P (l.foldl f s)
  | [], _, hs => hs
  | b :: bs, s, hs => foldl_inv f P h bs _ (h s b hs)

/-! ### what the invariant says in terms of `seqSpec` -/

/-- responses of port `i` when `resps` are the responses to the requests of `log`, in order -/
def respsOf (i : Nat) (log : List (Nat × Req)) (resps : List Resp) : List Resp :=
  portResps i ((log.map (·.1)).zip resps)

def tyOpq (x : Resp) : Nat × Nat := (x.type, x.opq)
def reqTyOpq (r : Req) : Nat × Nat := (r.kind.code, r.opq)

theorem runLog_echo (i : Nat) : ∀ (log : List (Nat × Req)) (m : Store),
    (portResps i (runLog log m).1).map tyOpq = (procs i log).map reqTyOpq
  | [], _ => rfl
  | (j, r) :: rs, m => by
    have ih := runLog_echo i rs (service r m).2
    have he := service_echo r m
    simp only [runLog, portResps, procs, List.filter_cons] at ih ⊢
    by_cases h : j = i
    · simp only [h, beq_self_eq_true, if_true, List.map_cons, ih, tyOpq, reqTyOpq, he.1, he.2.1]
    · have : (j == i) = false := by simp [h]
      simp only [this, Bool.false_eq_true, if_false]; exact ih

theorem procs_all_zero : ∀ (log : List (Nat × Req)), (∀ e ∈ log, e.1 < 1) → procs 0 log = log.map (·.2)
  | [], _ => rfl
  | (j, r) :: rs, h => by
    have hj : j = 0 := by have := h (j, r) (by simp); simp at this; exact this
    subst hj
    have ih := procs_all_zero rs (fun e he => h e (by simp [he]))
    simp only [procs] at ih ⊢
    simp [ih]

theorem portResps_all_zero : ∀ (log : List (Nat × Req)) (resps : List Resp), (∀ e ∈ log, e.1 < 1) →
    resps.length = log.length → respsOf 0 log resps = resps
  | [], [], _, _ => rfl
  | [], _ :: _, _, h => by simp at h
  | _ :: _, [], _, h => by simp at h
  | (j, r) :: rs, x :: xs, h, hl => by
    have hj : j = 0 := by have := h (j, r) (by simp); simp at this; exact this
    subst hj
    have ih := portResps_all_zero rs xs (fun e he => h e (by simp [he])) (by simpa using hl)
    simp only [respsOf, portResps] at ih ⊢
    simp [ih]

section
variable {n : Nat} {reqs : Nat → List Req} {m0 : Store} {view : Nat → View}
  {store : Store} {log : List (Nat × Req)} {rlog : List (Nat × Resp)}

/-- the invariant, read against the sequential specification of the processed log -/
theorem Inv.main (h : Inv n reqs m0 view store log rlog) :
    store = (seqSpec (log.map (·.2)) m0).2 ∧
    (∀ i, (view i).delivered ++ (view i).inResp = respsOf i log (seqSpec (log.map (·.2)) m0).1) ∧
    (∀ i, procs i log ++ (view i).inReq ++ (view i).pending = reqs i) := by
  have hs := h.spec
  rw [runLog_seqSpec] at hs
  simp only [Prod.mk.injEq] at hs
  refine ⟨hs.2.symm, ?_, ?_⟩
  · intro i; rw [h.resp i, ← hs.1]; rfl
  · intro i; rw [List.append_assoc]; exact h.req i

/-- a port's received responses are a prefix of its responses under the sequential specification -/
theorem Inv.delivered_prefix (h : Inv n reqs m0 view store log rlog) (i : Nat) :
    (view i).delivered <+: respsOf i log (seqSpec (log.map (·.2)) m0).1 :=
  ⟨(view i).inResp, (h.main.2.1 i)⟩

/-- the requests of a port the memory has processed are a prefix of the port's request stream -/
theorem Inv.procs_prefix (h : Inv n reqs m0 view store log rlog) (i : Nat) : procs i log <+: reqs i :=
  ⟨(view i).inReq ++ (view i).pending, h.req i⟩

/-- responses come back in request order carrying the requests' type and opaque fields -/
theorem Inv.echo (h : Inv n reqs m0 view store log rlog) (i : Nat) :
    (view i).delivered.map tyOpq <+: (reqs i).map reqTyOpq := by
  have h1 : (portResps i rlog).map tyOpq = (procs i log).map reqTyOpq := by
    have := runLog_echo i log m0
    rw [h.spec] at this; exact this
  have h2 : (view i).delivered.map tyOpq <+: (portResps i rlog).map tyOpq := by
    rw [← h.resp i, List.map_append]; exact List.prefix_append _ _
  rw [h1] at h2
  exact h2.trans (List.IsPrefix.map _ (h.procs_prefix i))

/-- nothing in flight: every request was processed and every response delivered -/
theorem Inv.drained (h : Inv n reqs m0 view store log rlog) (i : Nat)
    (h1 : (view i).pending = []) (h2 : (view i).inReq = []) (h3 : (view i).inResp = []) :
    procs i log = reqs i ∧ (view i).delivered = respsOf i log (seqSpec (log.map (·.2)) m0).1 := by
  have := h.main
  refine ⟨?_, ?_⟩
  · have := this.2.2 i; simpa [h1, h2] using this
  · have := this.2.1 i; simpa [h3] using this

/-- with a single port the response contents do not depend on timing at all: whatever was received
is a prefix of the sequential specification applied to the port's request list -/
theorem Inv.single_port (h : Inv 1 reqs m0 view store log rlog) :
    (view 0).delivered <+: (seqSpec (reqs 0) m0).1 ∧
    ((view 0).pending = [] → (view 0).inReq = [] → store = (seqSpec (reqs 0) m0).2) := by
  have hz := procs_all_zero log h.bound
  have hm := h.main
  have hp := h.procs_prefix 0
  rw [hz] at hp
  obtain ⟨rest, hrest⟩ := hp
  constructor
  · have h1 := h.delivered_prefix 0
    rw [portResps_all_zero log _ h.bound (by rw [seqSpec_length]; simp)] at h1
    rw [← hrest, seqSpec_append]
    exact h1.trans (List.prefix_append _ _)
  · intro h1 h2
    have := hm.2.2 0
    rw [h1, h2, hz] at this
    simp at this
    rw [← this]; exact hm.1

end

/-! ### ports working on disjoint address regions: contents independent of the interleaving -/

/-- the bytes a request touches -/
def footprint (r : Req) (b : Nat) : Prop := r.addr ≤ b ∧ b < r.addr + nbytes r.nb r.len

def AgreeOn (S : Nat → Prop) (m m' : Store) : Prop := ∀ b, S b → m b = m' b

theorem service_congr (r : Req) (m m' : Store) (S : Nat → Prop)
    (hf : ∀ b, footprint r b → S b) (h : AgreeOn S m m') :
    (service r m).1 = (service r m').1 ∧ AgreeOn S (service r m).2 (service r m').2 := by
  have hr : readLE m r.addr (nbytes r.nb r.len) = readLE m' r.addr (nbytes r.nb r.len) :=
    read_congr _ _ _ _ (fun b h1 h2 => h b (hf b ⟨h1, h2⟩))
  unfold service
  cases r.kind with
  | read => exact ⟨by simp only [hr], h⟩
  | write =>
    refine ⟨rfl, fun b hb => ?_⟩
    simp only [writeLE_byte]
    split
    · rfl
    · exact h b hb
  | amo op =>
    refine ⟨by simp only [hr], fun b hb => ?_⟩
    simp only [writeLE_byte, hr]
    split
    · rfl
    · exact h b hb

theorem service_frame (r : Req) (m : Store) (S : Nat → Prop)
    (hd : ∀ b, footprint r b → ¬ S b) : AgreeOn S (service r m).2 m := by
  intro b hb
  have hn : ¬ (r.addr ≤ b ∧ b < r.addr + nbytes r.nb r.len) := fun h => hd b h hb
  unfold service
  cases r.kind with
  | read => rfl
  | write => simp only [writeLE_byte, if_neg hn]
  | amo op => simp only [writeLE_byte, if_neg hn]

/-- a memory of `size` bytes: if every request stays inside `[0, size)`, the responses and the first `size` cells depend
only on the first `size` cells of the initial store, and no cell at or beyond `size` is ever written -/
theorem seqSpec_in_range (size : Nat) : ∀ (l : List Req) (m m' : Store),
    (∀ r ∈ l, r.addr + nbytes r.nb r.len ≤ size) → AgreeOn (· < size) m m' →
    (seqSpec l m).1 = (seqSpec l m').1 ∧ AgreeOn (· < size) (seqSpec l m).2 (seqSpec l m').2 ∧
    AgreeOn (fun b => size ≤ b) (seqSpec l m).2 m
  | [], _, _, _, h => ⟨rfl, h, fun _ _ => rfl⟩
  | r :: rs, m, m', hl, h => by
    have hr := hl r (by simp)
    have hc := service_congr r m m' (· < size) (fun b hb => by have := hb.2; show b < size; omega) h
    have hf := service_frame r m (fun b => size ≤ b) (fun b hb h2 => by have := hb.2; have : size ≤ b := h2; omega)
    have ih := seqSpec_in_range size rs _ _ (fun q hq => hl q (by simp [hq])) hc.2
    simp only [seqSpec]
    refine ⟨by rw [hc.1, ih.1], ih.2.1, fun b hb => ?_⟩
    exact (ih.2.2 b hb).trans (hf b hb)

theorem runLog_disjoint (region : Nat → Nat → Prop)
    (hdisj : ∀ i j b, i ≠ j → region i b → ¬ region j b) (i : Nat) :
    ∀ (log : List (Nat × Req)) (m m' : Store),
      (∀ e ∈ log, ∀ b, footprint e.2 b → region e.1 b) → AgreeOn (region i) m m' →
      portResps i (runLog log m).1 = (seqSpec (procs i log) m').1 ∧
      AgreeOn (region i) (runLog log m).2 (seqSpec (procs i log) m').2
  | [], m, m', _, h => ⟨rfl, h⟩
  | (j, r) :: rs, m, m', hf, h => by
    have hfr := hf (j, r) (by simp)
    have hrest : ∀ e ∈ rs, ∀ b, footprint e.2 b → region e.1 b := fun e he => hf e (by simp [he])
    by_cases hj : j = i
    · subst hj
      have hc := service_congr r m m' (region j) hfr h
      have ih := runLog_disjoint region hdisj j rs _ _ hrest hc.2
      have e1 : procs j ((j, r) :: rs) = r :: procs j rs := by simp [procs]
      rw [e1]
      simp only [runLog, seqSpec, portResps, List.filter_cons, beq_self_eq_true, if_true, List.map_cons]
      exact ⟨by rw [hc.1]; congr 1; exact ih.1, ih.2⟩
    · have hfrm := service_frame r m (region i) (fun b hb hi => hdisj j i b hj (hfr b hb) hi)
      have ih := runLog_disjoint region hdisj i rs (service r m).2 m' hrest
        (fun b hb => (hfrm b hb).trans (h b hb))
      have e1 : procs i ((j, r) :: rs) = procs i rs := by simp [procs, hj]
      have e2 : (j == i) = false := by simp [hj]
      rw [e1]
      simp only [runLog, portResps, List.filter_cons, e2]
      exact ih

theorem mem_procs_of_mem : ∀ (log : List (Nat × Req)) (e : Nat × Req), e ∈ log → e.2 ∈ procs e.1 log
  | [], _, h => by simp at h
  | (j, r) :: rs, e, h => by
    simp only [List.mem_cons] at h
    cases h with
    | inl h => subst h; simp [procs]
    | inr h =>
      have ih := mem_procs_of_mem rs e h
      simp only [procs, List.filter_cons] at ih ⊢
      split
      · simp only [List.map_cons, List.mem_cons]; exact Or.inr ih
      · exact ih

/-- if the ports work on pairwise disjoint regions, each port's responses are those of the
sequential specification applied to *its own* request list, whatever the interleaving -/
theorem Inv.disjoint {n : Nat} {reqs : Nat → List Req} {m0 : Store} {view : Nat → View}
    {store : Store} {log : List (Nat × Req)} {rlog : List (Nat × Resp)}
    (h : Inv n reqs m0 view store log rlog) (region : Nat → Nat → Prop)
    (hdisj : ∀ i j b, i ≠ j → region i b → ¬ region j b)
    (hreg : ∀ i, ∀ r ∈ reqs i, ∀ b, footprint r b → region i b) (i : Nat) :
    (view i).delivered <+: (seqSpec (reqs i) m0).1 ∧
    ((view i).pending = [] → (view i).inReq = [] → AgreeOn (region i) store (seqSpec (reqs i) m0).2) := by
  have hlog : ∀ e ∈ log, ∀ b, footprint e.2 b → region e.1 b := by
    intro e he b hb
    have h1 := mem_procs_of_mem log e he
    obtain ⟨t, ht⟩ := h.procs_prefix e.1
    exact hreg e.1 e.2 (by rw [← ht]; exact List.mem_append_left _ h1) b hb
  have hd := runLog_disjoint region hdisj i log m0 m0 hlog (fun _ _ => rfl)
  rw [h.spec] at hd
  obtain ⟨t, ht⟩ := h.procs_prefix i
  constructor
  · have h1 : (view i).delivered <+: portResps i rlog := ⟨_, h.resp i⟩
    rw [hd.1] at h1
    rw [← ht, seqSpec_append]
    exact h1.trans (List.prefix_append _ _)
  · intro h1 h2
    have := h.req i
    rw [h1, h2] at this
    simp at this
    rw [← this]; exact hd.2

/-! ## `MagicMemoryCL` -/
namespace CL

def Port.view (p : Port) : View := ⟨p.pending, p.reqQ.contents, p.respQ.contents, p.delivered⟩

def SInv (n : Nat) (reqs : Nat → List Req) (m0 : Store) (s : Sys) : Prop :=
  Inv n reqs m0 (fun i => (s.ports i).view) s.store s.log s.rlog

theorem respTick_local (e : Env) (p : Port) : p.view.Local (respTick e p).view := by
  have h := SendPipe.tick_contents e.sinkRdy p.respQ
  unfold respTick
  generalize SendPipe.tick e.sinkRdy p.respQ = t at h
  obtain ⟨q, o⟩ := t
  cases o with
  | none => simp at h; exact ⟨rfl, by simp [Port.view, h]⟩
  | some r =>
    simp at h
    refine ⟨rfl, ?_⟩
    simp [Port.view, ← h]

theorem reqTick_local (p : Port) : p.view.Local (reqTick p).view := by
  refine ⟨?_, rfl⟩
  simp [Port.view, reqTick, DeqPipe.tick_contents]

theorem srcSend_local (e : Env) (p : Port) : p.view.Local (srcSend e p).view := by
  unfold srcSend
  split
  · next h =>
    have hr : DeqPipe.enqRdy p.reqQ = true := by simp_all
    split
    · next r rest hp =>
      refine ⟨?_, rfl⟩
      simp [Port.view, DeqPipe.enq_contents _ _ hr, hp]
    · exact View.Local.refl _
  · exact View.Local.refl _

theorem portPre_local (e : Env) (p : Port) : p.view.Local (portPre e p).view :=
  ((respTick_local e p).trans (reqTick_local _)).trans (srcSend_local e _)

theorem prePort_inv {n reqs m0} (env : Nat → Env) (i : Nat) (s : Sys) (h : SInv n reqs m0 s) :
    SInv n reqs m0 (prePort env i s) := by
  refine Inv.local_step h _ i ?_ ?_
  · intro j hj; simp [prePort, updPort, hj]
  · simp only [prePort, updPort, if_true]; exact portPre_local _ _

theorem memPort_inv {n reqs m0} (env : Nat → Env) (i : Nat) (hi : i < n) (s : Sys)
    (h : SInv n reqs m0 s) : SInv n reqs m0 (memPort env i s) := by
  unfold memPort
  simp only []
  split
  · exact h
  · next r reqQ' hd =>
    have hc := DeqPipe.deq_contents _ _ _ hd
    split
    · next hq =>
      split
      · refine Inv.service_step h _ i hi ?_ r ?_
        · intro j hj; simp [updPort, hj]
        · simp only [updPort, if_true]
          refine ⟨?_, ?_⟩
          · simp [Port.view, hc]
          · simp [Port.view, hq, Slots.contents]
      · exact h
    · split
      · next hr =>
        refine Inv.service_step h _ i hi ?_ r ?_
        · intro j hj; simp [updPort, hj]
        · simp only [updPort, if_true]
          refine ⟨?_, ?_⟩
          · simp [Port.view, hc]
          · simp [Port.view, SendPipe.enq_contents _ _ hr]
      · exact h

theorem cycle_inv {n reqs m0} (env : Nat → Env) (s : Sys) (h : SInv n reqs m0 s) :
    SInv n reqs m0 (cycle n env s) := by
  unfold cycle
  apply forPorts_inv _ _ n (fun i s hi hs => memPort_inv env i hi s hs) n (Nat.le_refl _)
  exact forPorts_inv _ _ n (fun i s _ hs => prePort_inv env i s hs) n (Nat.le_refl _) s h

theorem init_inv (n latency : Nat) (reqs : Nat → List Req) (m0 : Store) :
    SInv n reqs m0 (init latency reqs m0) := by
  refine ⟨rfl, ?_, ?_, ?_⟩
  · intro i; simp [init, Port.view, procs, Slots.contents_empty]
  · intro i; simp [init, Port.view, portResps, Slots.contents_empty]
  · intro e he; simp [init] at he

theorem run_inv (n latency : Nat) (reqs : Nat → List Req) (m0 : Store) (env : Nat → Nat → Env) (T : Nat) :
    SInv n reqs m0 (run n env T (init latency reqs m0)) :=
  foldl_inv _ _ (fun s t hs => cycle_inv (env t) s hs) _ _ (init_inv n latency reqs m0)

end CL

/-! ## stream `MagicMemoryRTL` -/
namespace RTL

def Port.view (p : Port) : View := ⟨p.pending, [], p.pipe.slots.contents, p.delivered⟩

def SInv (n : Nat) (reqs : Nat → List Req) (m0 : Store) (s : Sys) : Prop :=
  Inv n reqs m0 (fun i => (s.ports i).view) s.store s.log s.rlog ∧ ∀ i, (s.ports i).pipe.OK

theorem deliver_view (p : Port) (q : IPipe Resp) (out : Option Resp) (pend : List Req) :
    (deliver p q out pend).view = ⟨pend, [], q.slots.contents, p.delivered ++ out.toList⟩ ∧
    (deliver p q out pend).pipe = q := by
  cases out <;> simp [deliver, Port.view]

theorem portCycle_inv {n reqs m0} (env : Nat → Env) (i : Nat) (hi : i < n) (s : Sys)
    (h : SInv n reqs m0 s) : SInv n reqs m0 (portCycle env i s) := by
  obtain ⟨hI, hO⟩ := h
  have idle : SInv n reqs m0 { s with ports := updPort s.ports i (idle (env i) (s.ports i)) } := by
    unfold RTL.idle
    simp only []
    have he := IPipe.edge_spec (s.ports i).pipe (hO i) false ⟨0, 0, 0, 0, 0⟩ (env i).sinkRdy
    constructor
    · refine Inv.local_step hI _ i ?_ ?_
      · intro j hj; simp [updPort, hj]
      · simp only [updPort, if_true, (deliver_view _ _ _ _).1]
        refine ⟨rfl, ?_⟩
        simp only [Port.view, List.append_assoc]
        rw [he.2]; simp
    · intro j
      by_cases hj : j = i
      · subst hj; simp only [updPort, if_true, (deliver_view _ _ _ _).2]; exact he.1
      · simp only [updPort, if_neg hj]; exact hO j
  unfold portCycle
  simp only []
  split
  · next r rest hp =>
    split
    · next hc =>
      have hr : (s.ports i).pipe.recvRdy = true := by simp_all
      have he := IPipe.edge_spec (s.ports i).pipe (hO i) true (service r s.store).1 (env i).sinkRdy
      constructor
      · refine Inv.service_step hI _ i hi ?_ r ?_
        · intro j hj; simp [updPort, hj]
        · simp only [updPort, if_true, (deliver_view _ _ _ _).1]
          refine ⟨by simp [Port.view, hp], ?_⟩
          simp only [Port.view, List.append_assoc]
          rw [he.2]; simp [hr]
      · intro j
        by_cases hj : j = i
        · subst hj; simp only [updPort, if_true, (deliver_view _ _ _ _).2]; exact he.1
        · simp only [updPort, if_neg hj]; exact hO j
    · exact idle
  · exact idle

theorem cycle_inv {n reqs m0} (env : Nat → Env) (s : Sys) (h : SInv n reqs m0 s) :
    SInv n reqs m0 (cycle n env s) :=
  forPorts_inv _ _ n (fun i s hi hs => portCycle_inv env i hi s hs) n (Nat.le_refl _) s h

theorem init_inv (n extra : Nat) (reqs : Nat → List Req) (m0 : Store) :
    SInv n reqs m0 (init extra reqs m0) := by
  refine ⟨⟨rfl, ?_, ?_, ?_⟩, fun i => IPipe.init_ok _ (by omega)⟩
  · intro i; simp [init, Port.view, procs]
  · intro i; simp [init, Port.view, portResps, IPipe.init, Slots.contents_empty]
  · intro e he; simp [init] at he

theorem run_inv (n extra : Nat) (reqs : Nat → List Req) (m0 : Store) (env : Nat → Nat → Env) (T : Nat) :
    SInv n reqs m0 (run n env T (init extra reqs m0)) :=
  foldl_inv _ _ (fun s t hs => cycle_inv (env t) s hs) _ _ (init_inv n extra reqs m0)

end RTL

end PV.Mem
