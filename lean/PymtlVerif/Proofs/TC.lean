import PymtlVerif.Model.TC
import PymtlVerif.Model.PyEval
import PymtlVerif.Model.TCSpec
import PymtlVerif.Props.C05
/-!
Helper lemmas for C10: literal widths, the enforcer, "a `Bits` operation on operands of the right
width never raises a width error", and the typing invariant `Agrees` (core Lean only).
-/
namespace PV.TC
open PV.Bits

/-! ## literal widths -/

theorem log2_lt_succ (v : Nat) (h : v ≠ 0) : v < 2 ^ (Nat.log2 v + 1) :=
  (Nat.log2_lt h).mp (Nat.lt_succ_self _)

theorem bitLen_fits (v : Nat) : v < 2 ^ bitLen v := by
  unfold bitLen
  by_cases h : v = 0
  · simp [h]
  · simp only [h, ↓reduceIte]; exact log2_lt_succ v h

theorem bitLen_least (v w : Nat) (h : v < 2 ^ w) : bitLen v ≤ w := by
  unfold bitLen
  by_cases h0 : v = 0
  · simp [h0]
  · simp only [h0, ↓reduceIte]
    have := (Nat.log2_lt h0).mpr h
    omega

theorem nbitsOf_fits (v : Nat) : v < 2 ^ nbitsOf v := by
  unfold nbitsOf
  by_cases h : v ≤ 1
  · simp only [h, ↓reduceIte]; omega
  · simp only [h, ↓reduceIte]; exact bitLen_fits v

theorem nbitsOf_pos (v : Nat) : 1 ≤ nbitsOf v := by
  unfold nbitsOf bitLen
  by_cases h : v ≤ 1
  · simp [h]
  · have : v ≠ 0 := by omega
    simp [h, this]

theorem nbitsOf_least (v w : Nat) (hw : 1 ≤ w) (h : v < 2 ^ w) : nbitsOf v ≤ w := by
  unfold nbitsOf
  by_cases h1 : v ≤ 1
  · simp [h1, hw]
  · simp only [h1, ↓reduceIte]; exact bitLen_least v w h

theorem nbitsInt_natCast (v : Nat) : nbitsInt (v : Int) = nbitsOf v := by
  unfold nbitsInt nbitsOf
  by_cases h : v ≤ 1
  · have : (-1 : Int) ≤ (v : Int) ∧ (v : Int) ≤ 1 := by omega
    simp [h, this]
  · have h1 : ¬ ((v : Int) ≤ 1) := by omega
    have h2 : ¬ ((v : Int) < 0) := by omega
    simp [h, h1, h2]

/-- an int `k` fits `w` bits as an unsigned operand of a `Bits<w>` -/
def Fits (w : Nat) (k : Int) : Prop := 0 ≤ k ∧ k < 2 ^ w

theorem Fits.mono {w w' : Nat} {k : Int} (h : Fits w k) (hw : w ≤ w') : Fits w' k := by
  refine ⟨h.1, Int.lt_of_lt_of_le h.2 ?_⟩
  have := Nat.pow_le_pow_right (by decide : 2 > 0) hw
  exact_mod_cast this

theorem fits_nbitsInt (v : Int) (h : 0 ≤ v) : Fits (nbitsInt v) v := by
  obtain ⟨n, rfl⟩ := Int.eq_ofNat_of_zero_le h
  rw [nbitsInt_natCast]
  refine ⟨h, ?_⟩
  have := nbitsOf_fits n
  exact_mod_cast this

theorem Fits.toNat_lt {w : Nat} {k : Int} (h : Fits w k) : k.toNat < 2 ^ w := by
  obtain ⟨n, rfl⟩ := Int.eq_ofNat_of_zero_le h.1
  have := h.2
  simp only [Int.toNat_natCast]
  exact_mod_cast this

theorem Fits.le_upper {w : Nat} {k : Int} (h : Fits w k) : ¬ (k < 0 ∨ k > (upper w : Int)) := by
  have h1 := h.toNat_lt
  have h2 := (le_upper_iff w k.toNat).mpr h1
  have := h.1
  omega

/-! ## the enforcer -/

@[simp] theorem ann_leaf (a : Ann) : (AT.leaf a).ann = a := rfl
@[simp] theorem ann_idx (a : Ann) (k : AT) : (AT.idx a k).ann = a := rfl
@[simp] theorem ann_n1 (a : Ann) (k : AT) : (AT.n1 a k).ann = a := rfl
@[simp] theorem ann_n2 (a : Ann) (k1 k2 : AT) : (AT.n2 a k1 k2).ann = a := rfl
@[simp] theorem ann_ite (a : Ann) (c t f : AT) : (AT.ite a c t f).ann = a := rfl

theorem resize_ex (w : Nat) (a : Ann) : (resize w a).ex = a.ex := by
  unfold resize; split <;> rfl

theorem resize_val (w : Nat) (a : Ann) : (resize w a).val = a.val := by
  unfold resize; split <;> rfl

theorem resize_of_ex (w : Nat) (a : Ann) (h : a.ex = true) : resize w a = a := by
  unfold resize; simp [h]

theorem enforce_ann_ex (w : Nat) (t : AT) : (enforce w t).ann.ex = t.ann.ex := by
  cases t <;> simp only [enforce, AT.ann, resize_ex]
  split <;> simp [resize_ex]

theorem enforce_ann_val (w : Nat) (t : AT) : (enforce w t).ann.val = t.ann.val := by
  cases t <;> simp only [enforce, AT.ann, resize_val]
  split <;> simp [resize_val]

theorem enforce_ann_of_ex (w : Nat) (t : AT) (h : t.ann.ex = true) : (enforce w t).ann = t.ann := by
  cases t <;> simp_all [enforce, AT.ann, resize_of_ex]

/-! ## results of `Bits` operations -/

/-- an operation result that is a well-formed `Bits<n>` or an error that is not a width error -/
def GoodR (n : Nat) : Bits.R → Prop
  | .ok b => b.n = n ∧ b.Wf
  | .error e => e ≠ .width ∧ e ≠ .range

theorem binRaw_err (op : Bits.BinOp) (n a b : Nat) (e : Bits.Err) (h : binRaw op n a b = .error e) :
    e = .zerodiv := by
  cases op <;> simp only [binRaw] at h <;> (try cases h)
  all_goals (split at h <;> first | (cases h; rfl) | cases h)

theorem goodR_binop_bits (op : Bits.BinOp) (x y : B) (hx : x.Wf) (hy : y.Wf) (hn : y.n = x.n) :
    GoodR x.n (binop op x (.bits y)) := by
  cases h : binop op x (.bits y) with
  | ok r =>
    refine ⟨?_, PV.C04.range_invariant_binop op x (.bits y) r hx hy h⟩
    unfold binop at h
    simp only [hn, ne_eq, not_true_eq_false, ↓reduceIte] at h
    split at h
    · cases h; rfl
    · cases h
  | error e =>
    unfold binop at h
    simp only [hn, ne_eq, not_true_eq_false, ↓reduceIte] at h
    split at h
    · cases h
    · next e' he => cases h; rw [binRaw_err _ _ _ _ _ he]; simp [GoodR]

theorem goodR_binop_int (op : Bits.BinOp) (x : B) (k : Int) (hx : x.Wf) (hk : Fits x.n k) :
    GoodR x.n (binop op x (.int k)) := by
  have hr := hk.le_upper
  cases h : binop op x (.int k) with
  | ok r =>
    refine ⟨?_, PV.C04.range_invariant_binop op x (.int k) r hx trivial h⟩
    unfold binop at h
    simp only [decide_eq_true_eq, Bool.or_eq_true, hr, ↓reduceIte] at h
    split at h
    · cases h; rfl
    · cases h
  | error e =>
    unfold binop at h
    simp only [decide_eq_true_eq, Bool.or_eq_true, hr, ↓reduceIte] at h
    split at h
    · cases h
    · next e' he => cases h; rw [binRaw_err _ _ _ _ _ he]; simp [GoodR]

theorem goodR_of_eq {n : Nat} {r r' : Bits.R} (h : r = r') (g : GoodR n r) : GoodR n r' := h ▸ g

theorem goodR_rbinop_int (op : Bits.BinOp) (x : B) (k : Int) (hx : x.Wf) (hk : Fits x.n k) :
    GoodR x.n (rbinop op (.int k) x) := by
  have hr := hk.le_upper
  cases h : rbinop op (.int k) x with
  | ok r =>
    refine ⟨?_, PV.C04.range_invariant_rbinop op x (.int k) r hx h⟩
    cases op <;> simp only [rbinop] at h
    case lshift => cases h
    case rshift => cases h
    case sub | floordiv | mod =>
      simp only [decide_eq_true_eq, Bool.or_eq_true, hr, ↓reduceIte] at h
      split at h
      · cases h; rfl
      · cases h
    all_goals exact (goodR_of_eq h (goodR_binop_int _ x k hx hk)).1
  | error e =>
    cases op <;> simp only [rbinop] at h
    case lshift => cases h; simp [GoodR]
    case rshift => cases h; simp [GoodR]
    case sub | floordiv | mod =>
      simp only [decide_eq_true_eq, Bool.or_eq_true, hr, ↓reduceIte] at h
      split at h
      · cases h
      · next e' he => cases h; rw [binRaw_err _ _ _ _ _ he]; simp [GoodR]
    all_goals exact goodR_of_eq h (goodR_binop_int _ x k hx hk)

theorem b1_wf (c : Bool) : (b1 c).n = 1 ∧ (b1 c).Wf := by
  unfold b1 B.Wf; cases c <;> simp

theorem goodR_cmpop_bits (op : CmpOp) (x y : B) (hn : y.n = x.n) : GoodR 1 (cmpop op x (.bits y)) := by
  simp only [cmpop, hn, ne_eq, not_true_eq_false, ↓reduceIte, GoodR]
  exact b1_wf _

theorem goodR_cmpop_int (op : CmpOp) (x : B) (k : Int) (hk : Fits x.n k) : GoodR 1 (cmpop op x (.int k)) := by
  have hr := hk.le_upper
  simp only [cmpop, decide_eq_true_eq, Bool.or_eq_true, hr, ↓reduceIte, GoodR]
  exact b1_wf _

/-! ## the typing invariant -/

/-- what a checked term may evaluate to.  `h` = the term is *hard* (`hardE`): it certainly is a `Bits`.
    A `Bits` value has exactly the static width (and the node is explicit); a Python int is only possible
    for a term that is not hard, it fits the static width, and it is the folded constant if the node is
    implicit and has one. -/
def Agrees (h : Bool) (a : Ann) : Val → Prop
  | .bits b => a.ex = true ∧ b.n = a.w ∧ b.Wf
  | .int k => h = false ∧ Fits a.w k ∧ (a.ex = false → ∀ v, a.val = some v → k = v)

/-- evaluation yields a value that agrees with the annotation, or an error that is not a width error -/
def Safe (h : Bool) (a : Ann) : PR → Prop
  | .ok v => Agrees h a v
  | .error e => e.isWidth = false

/-- weaker: whatever the value, no width error (positions where only `bool()` / `int()` is taken) -/
def NoWidthErr {α : Type} : Except PyErr α → Prop
  | .ok _ => True
  | .error e => e.isWidth = false

theorem Safe.noWidthErr {h : Bool} {a : Ann} {r : PR} (s : Safe h a r) : NoWidthErr r := by
  cases r <;> simp_all [Safe, NoWidthErr]

theorem safe_liftR {h : Bool} {n : Nat} {a : Ann} {r : Bits.R} (g : GoodR n r) (hn : n = a.w)
    (he : a.ex = true) : Safe h a (liftR r) := by
  cases r with
  | ok b => exact ⟨he, hn ▸ g.1, g.2⟩
  | error e => cases e <;> simp_all [GoodR, liftR, Safe, PyErr.ofBits, PyErr.isWidth]

theorem noWidthErr_liftR {n : Nat} {r : Bits.R} (g : GoodR n r) : NoWidthErr (liftR r) := by
  cases r with
  | ok b => trivial
  | error e => cases e <;> simp_all [GoodR, liftR, NoWidthErr, PyErr.ofBits, PyErr.isWidth]

/-- what `unify` guarantees about the operand annotations -/
def UOK (la ra : Ann) : Prop :=
  (la.ex = true → ra.ex = true → la.w = ra.w) ∧
  (la.ex = true → ra.ex = false → ra.w ≤ la.w) ∧
  (la.ex = false → ra.ex = true → la.w ≤ ra.w)

theorem unify_ok {tl tr : AT} {p : AT × AT} (h : unify tl tr = .ok p) : UOK tl.ann tr.ann := by
  unfold unify at h
  refine ⟨?_, ?_, ?_⟩
  · intro h1 h2
    simp only [h1, h2, Bool.and_self, ↓reduceIte] at h
    split at h
    · assumption
    · cases h
  · intro h1 h2
    simp only [h1, h2, Bool.and_false, Bool.false_eq_true, ↓reduceIte, Bool.not_true, Bool.not_false,
      Bool.false_and] at h
    split at h
    · cases h
    · omega
  · intro h1 h2
    simp only [h1, h2, Bool.false_and, Bool.false_eq_true, ↓reduceIte, Bool.not_false, Bool.not_true,
      Bool.and_false] at h
    split at h
    · cases h
    · omega

theorem Op.toBits_shift (op : Op) : op.isShift = true → (op.toBits = .lshift ∨ op.toBits = .rshift) := by
  cases op <;> simp [Op.isShift, Op.toBits]

/-- a max-width operator with at least one hard operand -/
theorem pyBin_max_safe (op : Op) {hl hr : Bool} {la ra : Ann} {x y : Val}
    (hx : Agrees hl la x) (hy : Agrees hr ra y) (hu : UOK la ra) (hh : (hl || hr) = true) :
    Safe true ⟨max la.w ra.w, la.ex || ra.ex, none⟩ (pyBin op x y) := by
  obtain ⟨u1, u2, u3⟩ := hu
  cases x with
  | bits a =>
    obtain ⟨hle, hna, hwa⟩ := hx
    cases y with
    | bits b =>
      obtain ⟨hre, hnb, hwb⟩ := hy
      have hw := u1 hle hre
      refine safe_liftR (goodR_binop_bits op.toBits a b hwa hwb (by omega)) ?_ (by simp [hle])
      simp only; omega
    | int k =>
      obtain ⟨_, hk, _⟩ := hy
      have hle' : ra.w ≤ la.w := by
        cases hre : ra.ex
        · exact u2 hle hre
        · have := u1 hle hre; omega
      refine safe_liftR (goodR_binop_int op.toBits a k hwa (hna ▸ hk.mono hle')) ?_ (by simp [hle])
      simp only; omega
  | int k =>
    obtain ⟨hl0, hk, _⟩ := hx
    cases y with
    | bits b =>
      obtain ⟨hre, hnb, hwb⟩ := hy
      have hle' : la.w ≤ ra.w := by
        cases hle : la.ex
        · exact u3 hle hre
        · have := u1 hle hre; omega
      refine safe_liftR (goodR_rbinop_int op.toBits b k hwb (hnb ▸ hk.mono hle')) ?_ (by simp [hre])
      simp only; omega
    | int j =>
      obtain ⟨hr0, _, _⟩ := hy
      simp [hl0, hr0] at hh

/-- a shift whose left operand is hard and whose amount is aligned -/
theorem pyBin_shift_safe (op : Op) {hr : Bool} {la ra : Ann} {x y : Val}
    (hx : Agrees true la x) (hy : Agrees hr ra y)
    (ha : if ra.ex then ra.w = la.w else ra.w ≤ la.w) :
    Safe true ⟨la.w, la.ex, none⟩ (pyBin op x y) := by
  cases x with
  | int k => exact absurd hx.1 (by simp)
  | bits a =>
    obtain ⟨hle, hna, hwa⟩ := hx
    cases y with
    | bits b =>
      obtain ⟨hre, hnb, hwb⟩ := hy
      simp only [hre, ↓reduceIte] at ha
      exact safe_liftR (goodR_binop_bits op.toBits a b hwa hwb (by omega)) hna hle
    | int k =>
      obtain ⟨_, hk, _⟩ := hy
      have hle' : ra.w ≤ la.w := by
        cases hre : ra.ex <;> simp only [hre, ↓reduceIte, Bool.false_eq_true] at ha <;> omega
      exact safe_liftR (goodR_binop_int op.toBits a k hwa (hna ▸ hk.mono hle')) hna hle

/-- an operator on two implicit constants whose folded value is not negative -/
theorem pyBin_fold_safe (op : Op) {la ra : Ann} {x y : Val} {l r v : Int}
    (hx : Agrees false la x) (hy : Agrees false ra y) (hle : la.ex = false) (hre : ra.ex = false)
    (hl : la.val = some l) (hr : ra.val = some r) (hv : intBin op l r = .ok v) (h0 : 0 ≤ v) :
    Safe false ⟨nbitsInt v, false, some v⟩ (pyBin op x y) := by
  cases x with
  | bits a => exact absurd hx.1 (by simp [hle])
  | int k =>
    cases y with
    | bits b => exact absurd hy.1 (by simp [hre])
    | int j =>
      have hk : k = l := hx.2.2 hle l hl
      have hj : j = r := hy.2.2 hre r hr
      subst hk hj
      simp only [pyBin, hv, liftI]
      exact ⟨rfl, fits_nbitsInt v h0, fun _ w hw => by cases hw; rfl⟩

theorem pyCmp_safe (op : CmpOp) {hl hr : Bool} {la ra : Ann} {x y : Val}
    (hx : Agrees hl la x) (hy : Agrees hr ra y) (hu : UOK la ra) (hh : (hl || hr) = true) :
    Safe true ⟨1, true, none⟩ (pyCmp op x y) := by
  obtain ⟨u1, u2, u3⟩ := hu
  cases x with
  | bits a =>
    obtain ⟨hle, hna, hwa⟩ := hx
    cases y with
    | bits b =>
      obtain ⟨hre, hnb, hwb⟩ := hy
      have hw := u1 hle hre
      exact safe_liftR (goodR_cmpop_bits op a b (by omega)) rfl rfl
    | int k =>
      obtain ⟨_, hk, _⟩ := hy
      have hle' : ra.w ≤ la.w := by
        cases hre : ra.ex
        · exact u2 hle hre
        · have := u1 hle hre; omega
      exact safe_liftR (goodR_cmpop_int op a k (hna ▸ hk.mono hle')) rfl rfl
  | int k =>
    obtain ⟨hl0, hk, _⟩ := hx
    cases y with
    | bits b =>
      obtain ⟨hre, hnb, hwb⟩ := hy
      have hle' : la.w ≤ ra.w := by
        cases hle : la.ex
        · exact u3 hle hre
        · have := u1 hle hre; omega
      exact safe_liftR (goodR_cmpop_int op.swap b k (hnb ▸ hk.mono hle')) rfl rfl
    | int j =>
      obtain ⟨hr0, _, _⟩ := hy
      simp [hl0, hr0] at hh

/-! ## node rules: accepted + clean ⇒ safe -/

theorem foldBin_cases {op : Op} {la ra a : Ann} {res : Nat} {ex : Bool}
    (h : foldBin op la ra res ex = .ok a) :
    (a = ⟨res, ex, none⟩) ∨
    (∃ l r v, la.val = some l ∧ ra.val = some r ∧ intBin op l r = .ok v ∧ ex = false ∧
      a = ⟨nbitsInt v, ex, some v⟩) := by
  unfold foldBin at h
  cases hex : ex with
  | true => simp only [hex, ↓reduceIte] at h; cases h; left; rfl
  | false =>
    simp only [hex, Bool.false_eq_true, ↓reduceIte] at h
    cases hl : la.val with
    | none => simp only [hl] at h; cases h; left; rfl
    | some l =>
      cases hr : ra.val with
      | none => simp only [hl, hr] at h; cases h; left; rfl
      | some r =>
        simp only [hl, hr] at h
        cases hv : intBin op l r with
        | error e => simp [hv] at h
        | ok v => simp only [hv] at h; cases h; right; exact ⟨l, r, v, rfl, rfl, hv, rfl, rfl⟩

theorem agrees_hard_ex {a : Ann} {x : Val} (h : Agrees true a x) : a.ex = true := by
  cases x with
  | bits b => exact h.1
  | int k => exact absurd h.1 (by simp)

theorem foldedNonneg_iff {a : Ann} : foldedNonneg a = true ↔ ∃ v, a.val = some v ∧ 0 ≤ v := by
  unfold foldedNonneg
  cases a.val <;> simp

theorem binRule_safe (op : Op) {tl tr t : AT} {hl hr : Bool} {x y : Val}
    (h : binRule op tl tr = .ok t) (hx : Agrees hl tl.ann x) (hy : Agrees hr tr.ann y)
    (hc : binIssues op tl.ann tr.ann hl hr t.ann = []) :
    Safe (if op.isShift then hl else hl || hr) t.ann (pyBin op x y) := by
  unfold binRule at h
  unfold binIssues at hc
  cases hs : op.isShift
  · -- max-width operator
    simp only [hs, Bool.false_eq_true, ↓reduceIte] at h hc ⊢
    cases hu : unify tl tr with
    | error e => simp [hu] at h
    | ok p =>
      obtain ⟨tl', tr'⟩ := p
      simp only [hu] at h
      cases hf : foldBin op tl.ann tr.ann (max tl.ann.w tr.ann.w) (tl.ann.ex || tr.ann.ex) with
      | error e => simp [hf] at h
      | ok a =>
        simp only [hf] at h; cases h
        simp only [ann_n2] at hc ⊢
        have huok := unify_ok hu
        rcases foldBin_cases hf with rfl | ⟨l, r, v, hlv, hrv, hv, hex, rfl⟩
        · -- not folded
          by_cases hh : (hl || hr) = true
          · rw [hh]; exact pyBin_max_safe op hx hy huok hh
          · simp only [hh, Bool.false_eq_true, ↓reduceIte, foldedNonneg] at hc
            split at hc <;> simp at hc
        · have hle : tl.ann.ex = false := by cases h1 : tl.ann.ex <;> simp_all
          have hre : tr.ann.ex = false := by cases h1 : tr.ann.ex <;> simp_all
          have hl0 : hl = false := by
            cases hl with
            | false => rfl
            | true => have := agrees_hard_ex hx; simp [hle] at this
          have hr0 : hr = false := by
            cases hr with
            | false => rfl
            | true => have := agrees_hard_ex hy; simp [hre] at this
          subst hl0 hr0
          simp only [Bool.or_self, Bool.false_eq_true, ↓reduceIte, hle, hre, Bool.not_false, Bool.and_self] at hc ⊢
          by_cases hn : foldedNonneg ⟨nbitsInt v, false, some v⟩ = true
          · obtain ⟨v', hv', h0⟩ := foldedNonneg_iff.mp hn
            cases hv'
            exact pyBin_fold_safe op hx hy hle hre hlv hrv hv h0
          · simp [hn] at hc
  · -- shift
    simp only [hs, ↓reduceIte] at h hc ⊢
    cases hf : foldBin op tl.ann tr.ann tl.ann.w tl.ann.ex with
    | error e => simp [hf] at h
    | ok a =>
      simp only [hf] at h; cases h
      simp only [ann_n2] at hc ⊢
      rcases foldBin_cases hf with rfl | ⟨l, r, v, hlv, hrv, hv, hex, rfl⟩
      · cases hl with
        | true =>
          simp only [↓reduceIte] at hc
          refine pyBin_shift_safe op hx hy ?_
          cases hre : tr.ann.ex <;> simp only [hre, ↓reduceIte, Bool.false_eq_true] at hc ⊢
          · by_cases hw : tr.ann.w ≤ tl.ann.w
            · exact hw
            · simp [hw] at hc
          · by_cases hw : tr.ann.w = tl.ann.w
            · exact hw
            · simp [hw] at hc
        | false =>
          simp only [Bool.false_eq_true, ↓reduceIte, foldedNonneg] at hc
          split at hc <;> (try split at hc) <;> simp at hc
      · have hl0 : hl = false := by
          cases hl with
          | false => rfl
          | true => have := agrees_hard_ex hx; simp [hex] at this
        subst hl0
        simp only [Bool.false_eq_true, ↓reduceIte] at hc
        by_cases hi : (!tl.ann.ex && !tr.ann.ex) = true
        · simp only [hi, ↓reduceIte] at hc
          have hre : tr.ann.ex = false := by cases h1 : tr.ann.ex <;> simp_all
          by_cases hn : foldedNonneg ⟨nbitsInt v, tl.ann.ex, some v⟩ = true
          · obtain ⟨v', hv', h0⟩ := foldedNonneg_iff.mp hn
            cases hv'
            have hy' : Agrees false tr.ann y := by
              cases y with
              | bits b => exact absurd hy.1 (by simp [hre])
              | int k => exact ⟨rfl, hy.2⟩
            have := pyBin_fold_safe op hx hy' hex hre hlv hrv hv h0
            simpa [hex] using this
          · simp [hn] at hc
        · simp only [hi, Bool.false_eq_true, ↓reduceIte] at hc
          split at hc <;> simp at hc

theorem cmpRule_safe (op : CmpOp) {tl tr t : AT} {hl hr : Bool} {x y : Val}
    (h : cmpRule tl tr = .ok t) (hx : Agrees hl tl.ann x) (hy : Agrees hr tr.ann y)
    (hc : cmpIssues tl.ann tr.ann hl hr = []) :
    Safe (hl || hr) t.ann (pyCmp op x y) := by
  unfold cmpRule at h
  cases hu : unify tl tr with
  | error e => simp [hu] at h
  | ok p =>
    obtain ⟨tl', tr'⟩ := p
    simp only [hu] at h; cases h
    unfold cmpIssues softKind at hc
    by_cases hh : (hl || hr) = true
    · rw [hh]; exact pyCmp_safe op hx hy (unify_ok hu) hh
    · simp only [hh, Bool.false_eq_true, ↓reduceIte] at hc
      split at hc <;> simp at hc

theorem unRule_safe (op : UOp) {te : AT} {x : Val} (hx : Agrees true te.ann x) :
    Safe true (unRule op te).ann (pyUn op x) := by
  cases x with
  | int k => exact absurd hx.1 (by simp)
  | bits b =>
    obtain ⟨he, hn, hw⟩ := hx
    cases op with
    | inv =>
      simp only [pyUn, unRule, ann_n1, Safe, Agrees]
      exact ⟨he, hn, PV.C04.range_invariant_invert b hw⟩
    | neg => simp [pyUn, Safe, PyErr.isWidth]

/-- the annotation of an if-expression, clean: both branch values agree with it -/
theorem ite_branch_safe {h : Bool} {ba : Ann} {a : Ann} {x : Val} {h' : Bool}
    (hx : Agrees h ba x) (hw : ba.w ≤ a.w) (hwe : ba.ex = true → ba.w = a.w) (hex : ba.ex = true → a.ex = true)
    (hv : a.val = none) (hh : h' = true → h = true) :
    Agrees h' a x := by
  cases x with
  | bits b =>
    obtain ⟨he, hn, hwf⟩ := hx
    exact ⟨hex he, by rw [hn]; exact hwe he, hwf⟩
  | int k =>
    obtain ⟨h0, hk, _⟩ := hx
    refine ⟨?_, hk.mono hw, fun _ v hv' => by simp [hv] at hv'⟩
    cases h' with
    | false => rfl
    | true => simp [hh rfl] at h0

theorem iteRule_ann {tc tt tf t : AT} (h : iteRule tc tt tf = .ok t) :
    t.ann.ex = (tt.ann.ex || tf.ann.ex) ∧ t.ann.val = none := by
  unfold iteRule at h
  simp only at h
  repeat' split at h
  all_goals (cases h <;> simp)

theorem goodR_ctor_bits (n : Nat) (b : B) (h1 : 1 ≤ n) (h2 : n < 1024) (hn : b.n = n) (hw : b.Wf) (t : Bool) :
    GoodR n (ctor n (.bits b) t) := by
  obtain ⟨m, v⟩ := b
  simp only at hn; subst hn
  rw [PV.C04.ctor_from_bits m m v h1 h2 t]
  simp only [↓reduceIte, GoodR]
  exact ⟨trivial, hw⟩

theorem goodR_ctor_int (n : Nat) (k : Int) (h1 : 1 ≤ n) (h2 : n < 1024) (hk : Fits n k) :
    GoodR n (ctor n (.int k) false) := by
  have hlow : -(2 ^ (n - 1) : Int) ≤ k := by
    have : (0 : Int) < 2 ^ (n - 1) := Int.pow_pos (by decide)
    have := hk.1; omega
  rw [(PV.C04.ctor_spec n h1 h2 k).1 ⟨hlow, hk.2⟩]
  exact ⟨rfl, h1, h2, maskInt_lt n k⟩

theorem goodR_ctor_trunc (n : Nat) (k : Nat) (h1 : 1 ≤ n) (h2 : n < 1024) :
    GoodR n (ctor n (.int k) true) := by
  have hn : ¬ ((n : Int) < 1 ∨ (n : Int) ≥ 1024) := by omega
  simp only [ctor, hn, ↓reduceIte, Bool.not_true, Bool.false_and, Bool.false_eq_true, GoodR, Int.toNat_natCast]
  exact ⟨trivial, h1, h2, maskInt_lt n k⟩

theorem pyCast_safe {h : Bool} {n : Nat} {ea : Ann} {x : Val} {v : Option Int}
    (hx : Agrees h ea x) (h1 : 1 ≤ n) (h2 : n < 1024)
    (hw : if ea.ex then ea.w = n else ea.w ≤ n) :
    Safe true ⟨n, true, v⟩ (pyCast n x) := by
  cases x with
  | bits b =>
    obtain ⟨he, hn, hwf⟩ := hx
    simp only [he, ↓reduceIte] at hw
    exact safe_liftR (goodR_ctor_bits n b h1 h2 (by omega) hwf false) rfl rfl
  | int k =>
    obtain ⟨_, hk, _⟩ := hx
    have hle : ea.w ≤ n := by
      cases he : ea.ex <;> simp only [he, ↓reduceIte, Bool.false_eq_true] at hw <;> omega
    exact safe_liftR (goodR_ctor_int n k h1 h2 (hk.mono hle)) rfl rfl

theorem toInt_fits (b : B) (hw : b.Wf) (n : Nat) (hn : b.n ≤ n) :
    -(2 ^ (n - 1) : Int) ≤ toInt b ∧ toInt b < 2 ^ n := by
  obtain ⟨m, v⟩ := b
  obtain ⟨h1, h2, h3⟩ := hw
  simp only at h1 h2 h3 hn
  have hs := (PV.C04.int_signed m v h1 h3).1
  have hp1 : (2 : Int) ^ (m - 1) ≤ 2 ^ (n - 1) := by
    have := Nat.pow_le_pow_right (by decide : 2 > 0) (show m - 1 ≤ n - 1 by omega)
    exact_mod_cast this
  have hp2 : (2 : Int) ^ m ≤ 2 ^ n := by
    have := Nat.pow_le_pow_right (by decide : 2 > 0) hn
    exact_mod_cast this
  have hpm : (2 : Int) ^ m = 2 ^ (m - 1) * 2 := by
    have : m = (m - 1) + 1 := by omega
    rw [this, Int.pow_succ]; simp
  have hv : (v : Int) < 2 ^ m := by exact_mod_cast h3
  have hpos : (0 : Int) < 2 ^ (m - 1) := Int.pow_pos (by decide)
  have hp3 : (2 : Int) ^ (n - 1) ≤ 2 ^ n := by
    have := Nat.pow_le_pow_right (by decide : 2 > 0) (show n - 1 ≤ n by omega)
    exact_mod_cast this
  rw [hs]
  by_cases hlt : v < 2 ^ (m - 1)
  · simp only [hlt, ↓reduceIte]
    have hv1 : (v : Int) < 2 ^ (m - 1) := by exact_mod_cast hlt
    constructor <;> omega
  · simp only [hlt, ↓reduceIte]
    have hv1 : (2 : Int) ^ (m - 1) ≤ v := by exact_mod_cast (Nat.le_of_not_lt hlt)
    constructor <;> omega

theorem goodR_ctor_range (n : Nat) (k : Int) (h1 : 1 ≤ n) (h2 : n < 1024)
    (hk : -(2 ^ (n - 1) : Int) ≤ k ∧ k < 2 ^ n) : GoodR n (ctor n (.int k) false) := by
  rw [(PV.C04.ctor_spec n h1 h2 k).1 hk]
  exact ⟨rfl, h1, h2, maskInt_lt n k⟩

theorem pyExt_safe {h : Bool} {k : ExtK} {ty : Bool} {te t : AT} {n : Nat} {x : Val}
    (hr : extRule k te n = .ok t) (hx : Agrees h te.ann x) (h1 : 1 ≤ n) (h2 : n < 1024) :
    Safe true t.ann (pyExt k ty x n) := by
  cases x with
  | int j => simp [pyExt, Safe, PyErr.isWidth]
  | bits b =>
    obtain ⟨he, hn, hwf⟩ := hx
    have hwf' := hwf
    obtain ⟨hb1, hb2, hb3⟩ := hwf
    unfold extRule at hr
    cases k with
    | trunc =>
      simp only at hr
      split at hr
      · cases hr
      · split at hr
        · cases hr
        · cases hr
          have hle : n ≤ b.n := by omega
          have hge : ¬ ¬ ((n : Int) ≤ (b.n : Int)) := by omega
          cases ty
          · simp only [pyExt, trunc, hge, ↓reduceIte, ann_n1]
            exact safe_liftR (goodR_ctor_trunc n b.v h1 h2) rfl rfl
          · simp only [pyExt, truncT, ann_n1]
            exact safe_liftR (goodR_ctor_trunc n b.v h1 h2) rfl rfl
    | zext =>
      simp only at hr
      split at hr
      · cases hr
      · cases hr
        have hle : b.n ≤ n := by omega
        have hge : ¬ ¬ ((n : Int) ≥ (b.n : Int)) := by omega
        have hk : Fits n (b.v : Int) := by
          refine ⟨by omega, ?_⟩
          have := Nat.lt_of_lt_of_le hb3 (Nat.pow_le_pow_right (by decide : 2 > 0) hle)
          exact_mod_cast this
        cases ty
        · simp only [pyExt, zext, hge, ↓reduceIte, ann_n1]
          exact safe_liftR (goodR_ctor_int n _ h1 h2 hk) rfl rfl
        · simp only [pyExt, zextT, ann_n1]
          exact safe_liftR (goodR_ctor_int n _ h1 h2 hk) rfl rfl
    | sext =>
      simp only at hr
      split at hr
      · cases hr
      · cases hr
        have hle : b.n ≤ n := by omega
        have hge : ¬ ¬ ((n : Int) ≥ (b.n : Int)) := by omega
        have hk := toInt_fits b hwf' n hle
        cases ty
        · simp only [pyExt, sext, hge, ↓reduceIte, ann_n1]
          exact safe_liftR (goodR_ctor_range n _ h1 h2 hk) rfl rfl
        · simp only [pyExt, sextT, ann_n1]
          exact safe_liftR (goodR_ctor_range n _ h1 h2 hk) rfl rfl

theorem pyRed_safe (op : ROp) (x : Val) : Safe true ⟨1, true, none⟩ (pyRed op x) := by
  cases op <;> cases x <;> simp only [pyRed, reduceAnd, reduceOr, reduceXor]
  all_goals first
    | exact ⟨rfl, (b1_wf _).1, (b1_wf _).2⟩
    | (show PyErr.isWidth _ = false; rfl)
    | (split <;> first | (show PyErr.isWidth _ = false; rfl) | exact ⟨rfl, (b1_wf _).1, (b1_wf _).2⟩)

theorem pyCat_safe {hl hr : Bool} {la ra : Ann} {x y : Val}
    (hx : Agrees hl la x) (hy : Agrees hr ra y) (hw : la.w + ra.w < 1024) :
    Safe true ⟨la.w + ra.w, true, none⟩ (pyCat x y) := by
  cases x with
  | int k => simp [pyCat, Safe, PyErr.isWidth]
  | bits a =>
    cases y with
    | int k => simp [pyCat, Safe, PyErr.isWidth]
    | bits b =>
      obtain ⟨_, hna, hwa⟩ := hx
      obtain ⟨_, hnb, hwb⟩ := hy
      have hall : ∀ z ∈ [a, b], z.v < 2 ^ z.n := by
        intro z hz
        simp only [List.mem_cons, List.not_mem_nil, or_false] at hz
        rcases hz with rfl | rfl
        · exact hwa.2.2
        · exact hwb.2.2
      have hs := PV.C05.concat_spec [a, b] hall
      have h1 : (catSpec [a, b]).1 = a.n + b.n := by simp [catSpec]
      have hok := hs.1 ⟨by have := hwa.1; omega, by omega⟩
      simp only [pyCat, hok]
      refine ⟨rfl, by simp only; omega, ?_, ?_, hs.2.2⟩
      · have := hwa.1; simp only; omega
      · simp only; omega

theorem goodR_getBit (x : B) (i : Int) : GoodR 1 (getBit x i) := by
  unfold getBit
  split
  · simp [GoodR]
  · refine ⟨rfl, ?_, ?_, ?_⟩ <;> simp only <;> omega

theorem goodR_getSlice (w v : Nat) (l u : Int) (h0 : 0 ≤ l) (h1 : l < u) (h2 : u ≤ w) (hw : w < 1024) :
    GoodR (u - l).toNat (getSlice ⟨w, v⟩ (some l) (some u) none) := by
  have hv : 0 ≤ l ∧ l < u ∧ u ≤ (w : Int) := ⟨h0, h1, h2⟩
  simp only [getSlice, sliceBounds, Option.isSome_none, Bool.false_eq_true, ↓reduceIte, Option.getD_some, hv,
    and_self, GoodR]
  refine ⟨by omega, by simp only; omega, by simp only; omega, ?_⟩
  exact Nat.mod_lt _ (Nat.two_pow_pos _)

/-! ## inversion of `checkE` -/

@[simp] theorem annOf_ok (t : AT) : annOf (.ok t) = t.ann := rfl

theorem checkE_un_inv {Γ : Env} {op : UOp} {e : Expr} {t : AT} (h : checkE Γ (.un op e) = .ok t) :
    ∃ te, checkE Γ e = .ok te ∧ t = unRule op te := by
  simp only [checkE] at h
  cases he : checkE Γ e with
  | error er => simp [he] at h
  | ok te => simp only [he] at h; cases h; exact ⟨te, rfl, rfl⟩

theorem checkE_bin_inv {Γ : Env} {op : Op} {l r : Expr} {t : AT} (h : checkE Γ (.bin op l r) = .ok t) :
    ∃ tl tr, checkE Γ l = .ok tl ∧ checkE Γ r = .ok tr ∧ binRule op tl tr = .ok t := by
  simp only [checkE] at h
  cases hl : checkE Γ l with
  | error er => simp [hl] at h
  | ok tl =>
    cases hr : checkE Γ r with
    | error er => simp [hl, hr] at h
    | ok tr => simp only [hl, hr] at h; exact ⟨tl, tr, rfl, rfl, h⟩

theorem checkE_cmp_inv {Γ : Env} {op : CmpOp} {l r : Expr} {t : AT} (h : checkE Γ (.cmp op l r) = .ok t) :
    ∃ tl tr, checkE Γ l = .ok tl ∧ checkE Γ r = .ok tr ∧ cmpRule tl tr = .ok t := by
  simp only [checkE] at h
  cases hl : checkE Γ l with
  | error er => simp [hl] at h
  | ok tl =>
    cases hr : checkE Γ r with
    | error er => simp [hl, hr] at h
    | ok tr => simp only [hl, hr] at h; exact ⟨tl, tr, rfl, rfl, h⟩

theorem checkE_ite_inv {Γ : Env} {c a b : Expr} {t : AT} (h : checkE Γ (.ite c a b) = .ok t) :
    ∃ tc tt tf, checkE Γ c = .ok tc ∧ checkE Γ a = .ok tt ∧ checkE Γ b = .ok tf ∧ iteRule tc tt tf = .ok t := by
  simp only [checkE] at h
  cases hc : checkE Γ c with
  | error er => simp [hc] at h
  | ok tc =>
    cases hl : checkE Γ a with
    | error er => simp [hc, hl] at h
    | ok tl =>
      cases hr : checkE Γ b with
      | error er => simp [hc, hl, hr] at h
      | ok tr => simp only [hc, hl, hr] at h; exact ⟨tc, tl, tr, rfl, rfl, rfl, h⟩

theorem checkE_cast_inv {Γ : Env} {n : Nat} {e : Expr} {t : AT} (h : checkE Γ (.cast n e) = .ok t) :
    ∃ te, checkE Γ e = .ok te ∧ t = castRule n te := by
  simp only [checkE] at h
  cases he : checkE Γ e with
  | error er => simp [he] at h
  | ok te => simp only [he] at h; cases h; exact ⟨te, rfl, rfl⟩

theorem checkE_ext_inv {Γ : Env} {k : ExtK} {ty : Bool} {n : Nat} {e : Expr} {t : AT}
    (h : checkE Γ (.ext k ty e n) = .ok t) : ∃ te, checkE Γ e = .ok te ∧ extRule k te n = .ok t := by
  simp only [checkE] at h
  cases he : checkE Γ e with
  | error er => simp [he] at h
  | ok te => simp only [he] at h; exact ⟨te, rfl, h⟩

theorem checkE_red_inv {Γ : Env} {op : ROp} {e : Expr} {t : AT} (h : checkE Γ (.red op e) = .ok t) :
    ∃ te, checkE Γ e = .ok te ∧ t = .n1 ⟨1, true, none⟩ te := by
  simp only [checkE] at h
  cases he : checkE Γ e with
  | error er => simp [he] at h
  | ok te => simp only [he] at h; cases h; exact ⟨te, rfl, rfl⟩

theorem checkE_cat_inv {Γ : Env} {l r : Expr} {t : AT} (h : checkE Γ (.cat l r) = .ok t) :
    ∃ tl tr, checkE Γ l = .ok tl ∧ checkE Γ r = .ok tr ∧ t = .n2 ⟨tl.ann.w + tr.ann.w, true, none⟩ tl tr := by
  simp only [checkE] at h
  cases hl : checkE Γ l with
  | error er => simp [hl] at h
  | ok tl =>
    cases hr : checkE Γ r with
    | error er => simp [hl, hr] at h
    | ok tr => simp only [hl, hr] at h; cases h; exact ⟨tl, tr, rfl, rfl, rfl⟩

theorem checkE_idx_inv {Γ : Env} {x w : Nat} {i : Expr} {t : AT} (h : checkE Γ (.idx x w i) = .ok t) :
    ∃ ti, checkE Γ i = .ok ti ∧ idxRule w ti = .ok t := by
  simp only [checkE] at h
  cases he : checkE Γ i with
  | error er => simp [he] at h
  | ok te => simp only [he] at h; exact ⟨te, rfl, h⟩

theorem checkE_slc_inv {Γ : Env} {x w : Nat} {lo hi : Expr} {t : AT} (h : checkE Γ (.slc x w lo hi) = .ok t) :
    ∃ tlo thi, checkE Γ lo = .ok tlo ∧ checkE Γ hi = .ok thi ∧ slcRule w lo hi tlo thi = .ok t := by
  simp only [checkE] at h
  cases hl : checkE Γ lo with
  | error er => simp [hl] at h
  | ok tl =>
    cases hr : checkE Γ hi with
    | error er => simp [hl, hr] at h
    | ok tr => simp only [hl, hr] at h; exact ⟨tl, tr, rfl, rfl, h⟩

theorem idxRule_ann {w : Nat} {ti t : AT} (h : idxRule w ti = .ok t) : t.ann = ⟨1, true, none⟩ := by
  unfold idxRule at h
  repeat' split at h
  all_goals (cases h <;> simp)

theorem binRule_val {op : Op} {tl tr t : AT} {v : Int} (h : binRule op tl tr = .ok t)
    (hv : t.ann.val = some v) :
    ∃ l r, tl.ann.val = some l ∧ tr.ann.val = some r ∧ intBin op l r = .ok v := by
  unfold binRule at h
  simp only at h
  split at h
  · cases hf : foldBin op tl.ann tr.ann tl.ann.w tl.ann.ex with
    | error e => simp [hf] at h
    | ok a =>
      simp only [hf] at h; cases h
      rcases foldBin_cases hf with rfl | ⟨l, r, v', hl, hr, hi, _, rfl⟩
      · simp at hv
      · simp only [ann_n2] at hv; cases hv; exact ⟨l, r, hl, hr, hi⟩
  · cases hu : unify tl tr with
    | error e => simp [hu] at h
    | ok p =>
      simp only [hu] at h
      cases hf : foldBin op tl.ann tr.ann (max tl.ann.w tr.ann.w) (tl.ann.ex || tr.ann.ex) with
      | error e => simp [hf] at h
      | ok a =>
        simp only [hf] at h; cases h
        rcases foldBin_cases hf with rfl | ⟨l, r, v', hl, hr, hi, _, rfl⟩
        · simp at hv
        · simp only [ann_n2] at hv; cases hv; exact ⟨l, r, hl, hr, hi⟩

/-! ## plain integer expressions -/

theorem liftI_noWidth (r : Except IErr Int) :
    (∃ v, r = .ok v ∧ liftI r = .ok (.int v)) ∨ (∃ er, liftI r = .error er ∧ er.isWidth = false) := by
  cases r with
  | ok v => left; exact ⟨v, rfl, rfl⟩
  | error e => right; cases e <;> exact ⟨_, rfl, rfl⟩

/-- a plain integer expression evaluates to a Python int (the folded constant, if the checker computed
    one) or raises something that is not a width error -/
theorem intOnly_eval (Γ : Env) (ρ : Rho) : ∀ (e : Expr), intOnly e = true → ∀ t, checkE Γ e = .ok t →
    (∃ k, evalPy ρ e = .ok (.int k) ∧ ∀ v, t.ann.val = some v → k = v) ∨
    (∃ er, evalPy ρ e = .error er ∧ er.isWidth = false) := by
  intro e
  induction e with
  | num v =>
    intro _ t h; simp only [checkE] at h; cases h
    left; exact ⟨v, rfl, fun w hw => by simp at hw; exact hw⟩
  | lv i =>
    intro _ t h
    simp only [checkE] at h
    cases hl : Γ.lvs.lookup i with
    | none => simp [hl] at h
    | some w =>
      simp only [hl] at h; cases h
      simp only [evalPy]
      cases ρ.lvs.lookup i with
      | none => right; exact ⟨_, rfl, rfl⟩
      | some k => left; exact ⟨k, rfl, fun v hv => by simp at hv⟩
  | un op e ih =>
    intro hi t h
    simp only [intOnly] at hi
    obtain ⟨te, he, rfl⟩ := checkE_un_inv h
    simp only [evalPy]
    rcases ih hi te he with ⟨k, hk, hv⟩ | ⟨er, her, hw⟩
    · left
      refine ⟨intUn op k, by simp [hk, pyUn], ?_⟩
      intro v hv'
      simp only [unRule, ann_n1, Option.map_eq_some_iff] at hv'
      obtain ⟨v0, h0, rfl⟩ := hv'
      rw [hv v0 h0]
    · right; exact ⟨er, by simp [her], hw⟩
  | bin op l r ihl ihr =>
    intro hi t h
    simp only [intOnly, Bool.and_eq_true] at hi
    obtain ⟨tl, tr, hl, hr, hb⟩ := checkE_bin_inv h
    simp only [evalPy]
    rcases ihl hi.1 tl hl with ⟨k1, hk1, hv1⟩ | ⟨er, her, hw⟩
    · rcases ihr hi.2 tr hr with ⟨k2, hk2, hv2⟩ | ⟨er, her, hw⟩
      · simp only [hk1, hk2, pyBin]
        rcases liftI_noWidth (intBin op k1 k2) with ⟨v, hv, hlv⟩ | ⟨er, her, hw⟩
        · left
          refine ⟨v, hlv, ?_⟩
          intro v' hv'
          obtain ⟨l', r', h1, h2, h3⟩ := binRule_val hb hv'
          rw [hv1 l' h1, hv2 r' h2] at hv
          rw [h3] at hv; cases hv; rfl
        · right; exact ⟨er, her, hw⟩
      · right; exact ⟨er, by simp [hk1, her], hw⟩
    · right; exact ⟨er, by simp [her], hw⟩
  | cmp op l r ihl ihr =>
    intro hi t h
    simp only [intOnly, Bool.and_eq_true] at hi
    obtain ⟨tl, tr, hl, hr, hb⟩ := checkE_cmp_inv h
    simp only [evalPy]
    rcases ihl hi.1 tl hl with ⟨k1, hk1, hv1⟩ | ⟨er, her, hw⟩
    · rcases ihr hi.2 tr hr with ⟨k2, hk2, hv2⟩ | ⟨er, her, hw⟩
      · left
        refine ⟨if cmpInt op k1 k2 then 1 else 0, by simp only [hk1, hk2, pyCmp], ?_⟩
        intro v hv
        unfold cmpRule at hb
        split at hb
        · cases hb
        · cases hb; simp at hv
      · right; exact ⟨er, by simp [hk1, her], hw⟩
    · right; exact ⟨er, by simp [her], hw⟩
  | sig _ _ | tmp _ | ite _ _ _ _ _ _ | cast _ _ _ | ext _ _ _ _ _ | red _ _ _ | cat _ _ _ _ | idx _ _ _ _
  | slc _ _ _ _ _ _ => intro hi; simp [intOnly] at hi

theorem intOnly_noWidthErr (Γ : Env) (ρ : Rho) {e : Expr} {t : AT} (hi : intOnly e = true)
    (h : checkE Γ e = .ok t) : NoWidthErr (evalPy ρ e) := by
  rcases intOnly_eval Γ ρ e hi t h with ⟨k, hk, _⟩ | ⟨er, her, hw⟩
  · rw [hk]; trivial
  · rw [her]; exact hw

theorem slcRule_const {w : Nat} {lo hi : Expr} {tlo thi t : AT} {l u : Int}
    (h : slcRule w lo hi tlo thi = .ok t) (hl : tlo.ann.val = some l) (hu : thi.ann.val = some u) :
    l < u ∧ 0 ≤ l ∧ u ≤ w ∧ t.ann = ⟨(u - l).toNat, true, none⟩ := by
  unfold slcRule at h
  cases h1 : handleIdx (idxW w) tlo true with
  | error e => simp [h1] at h
  | ok tlo' =>
    cases h2 : handleIdx (idxW w) thi false with
    | error e => simp [h1, h2] at h
    | ok thi' =>
      simp only [h1, h2, hl, hu] at h
      split at h
      · cases h
      · split at h
        · cases h; refine ⟨by omega, by omega, by omega, rfl⟩
        · cases h


theorem widthIssues_nil {w : Nat} (h : widthIssues w = []) : 1 ≤ w ∧ w < 1024 := by
  unfold widthIssues at h
  split at h
  · assumption
  · cases h

theorem unify_val {tl tr : AT} {p : AT × AT} (h : unify tl tr = .ok p) :
    p.1.ann.val = tl.ann.val ∧ p.2.ann.val = tr.ann.val := by
  unfold unify at h
  simp only at h
  repeat' split at h
  all_goals (cases h <;> simp [enforce_ann_val])

theorem binRule_kid_val {op : Op} {tl tr t : AT} (h : binRule op tl tr = .ok t) :
    ∃ a k1 k2, t = .n2 a k1 k2 ∧ k2.ann.val = tr.ann.val := by
  unfold binRule at h
  simp only at h
  split at h
  · split at h
    · cases h; exact ⟨_, _, _, rfl, rfl⟩
    · cases h
  · cases hu : unify tl tr with
    | error e => simp [hu] at h
    | ok p =>
      simp only [hu] at h
      split at h
      · cases h; exact ⟨_, _, _, rfl, (unify_val hu).2⟩
      · cases h

theorem goodR_getSlice_any (w v : Nat) (l u : Int) (n : Nat) (hw : w < 1024)
    (hn : 0 ≤ l → l < u → u ≤ w → (u - l).toNat = n) :
    GoodR n (getSlice ⟨w, v⟩ (some l) (some u) none) := by
  by_cases hv : 0 ≤ l ∧ l < u ∧ u ≤ (w : Int)
  · have := goodR_getSlice w v l u hv.1 hv.2.1 hv.2.2 hw
    rw [hn hv.1 hv.2.1 hv.2.2] at this; exact this
  · rw [PV.C05.get_invalid w v l u hv]; simp [GoodR]


theorem slcRule_ann_shape {w : Nat} {lo hi : Expr} {tlo thi t : AT} (hr : slcRule w lo hi tlo thi = .ok t) :
    ∃ n, t.ann = ⟨n, true, none⟩ := by
  unfold slcRule at hr
  repeat' split at hr
  all_goals (cases hr <;> exact ⟨_, rfl⟩)

/-- inversion of the `lo : lo + N` form of `visit_Slice` -/
theorem slcRule_plus_inv (Γ : Env) {w : Nat} {lo hi : Expr} {tlo thi t : AT}
    (hhi : checkE Γ hi = .ok thi) (hr : slcRule w lo hi tlo thi = .ok t)
    (hnc : ¬ (tlo.ann.val.isSome = true ∧ thi.ann.val.isSome = true)) :
    ∃ (sz : Int) (nn : Expr) (tN : AT), hi = .bin .add lo nn ∧ checkE Γ nn = .ok tN ∧ tN.ann.val = some sz ∧
      1 ≤ sz ∧ t.ann = ⟨sz.toNat, true, none⟩ := by
  unfold slcRule at hr
  cases h1 : handleIdx (idxW w) tlo true with
  | error e => simp [h1] at hr
  | ok tlo' =>
    cases h2 : handleIdx (idxW w) thi false with
    | error e => simp [h1, h2] at hr
    | ok thi' =>
      simp only [h1, h2] at hr
      have hps : ∃ sz, plusSize lo hi thi = some sz ∧ sz ≥ 1 ∧ t.ann = ⟨sz.toNat, true, none⟩ := by
        split at hr
        · next l u hl hu => exact absurd ⟨by simp [hl], by simp [hu]⟩ hnc
        · split at hr
          · next sz hsz =>
            split at hr
            · next hge => cases hr; exact ⟨sz, hsz, hge, rfl⟩
            · cases hr
          · cases hr
      obtain ⟨sz, hsz, hge, hann⟩ := hps
      unfold plusSize at hsz
      split at hsz
      · next op' x nn a kk1 tn =>
        split at hsz
        · next hx =>
          subst hx
          obtain ⟨tl, tN, hcl, hcN, hb⟩ := checkE_bin_inv hhi
          obtain ⟨a', j1, j2, hshape, hval⟩ := binRule_kid_val hb
          cases hshape
          rw [hval] at hsz
          exact ⟨sz, nn, tN, rfl, hcN, hsz, hge, hann⟩
        · cases hsz
      · cases hsz

/-- the `lo : lo + N` form -/
theorem slc_plus_aux (Γ : Env) (ρ : Rho) {w : Nat} {lo hi : Expr} {tlo thi t : AT}
    (hhi : checkE Γ hi = .ok thi) (hr : slcRule w lo hi tlo thi = .ok t)
    (hio : intOnly lo = true ∧ intOnly hi = true) (k1 k2 : Int)
    (hk1 : evalPy ρ lo = .ok (.int k1)) (hk2 : evalPy ρ hi = .ok (.int k2))
    (hnc : ¬ (tlo.ann.val.isSome = true ∧ thi.ann.val.isSome = true)) :
    ∃ n, t.ann = ⟨n, true, none⟩ ∧
      ((∃ k1 k2, evalPy ρ lo = .ok (.int k1) ∧ evalPy ρ hi = .ok (.int k2) ∧
          (0 ≤ k1 → k1 < k2 → k2 ≤ w → (k2 - k1).toNat = n)) ∨
       (∃ er, evalPy ρ lo = .error er ∧ er.isWidth = false) ∨
       (∃ k1 er, evalPy ρ lo = .ok (.int k1) ∧ evalPy ρ hi = .error er ∧ er.isWidth = false)) := by
  obtain ⟨sz, nn, tN, rfl, hcN, hsz, hge, hann⟩ := slcRule_plus_inv Γ hhi hr hnc
  refine ⟨_, hann, Or.inl ⟨k1, k2, hk1, hk2, ?_⟩⟩
  simp only [intOnly, Bool.and_eq_true] at hio
  rcases intOnly_eval Γ ρ nn hio.2.2 tN hcN with ⟨m, hm, hvm⟩ | ⟨er, her, _⟩
  · have hmsz : m = sz := hvm sz hsz
    simp only [evalPy, hk1, hm, pyBin, intBin, liftI] at hk2
    cases hk2
    intro _ _ _
    subst hmsz; omega
  · simp [evalPy, hk1, her] at hk2

/-- the bounds of an accepted, clean slice `s.x[ lo : hi ]` (constant bounds, or `lo : lo + N`, all plain
    integer expressions): they evaluate to Python ints `k1`, `k2` (or raise something that is not a width
    error), and whenever `[k1:k2]` is a valid slice its width is the static width of the node -/
theorem slc_bounds (Γ : Env) (ρ : Rho) {x w : Nat} {lo hi : Expr} {tlo thi t : AT}
    (hlo : checkE Γ lo = .ok tlo) (hhi : checkE Γ hi = .ok thi) (hr : slcRule w lo hi tlo thi = .ok t)
    (hc : issuesE Γ (.slc x w lo hi) = []) :
    w < 1024 ∧ ∃ n, t.ann = ⟨n, true, none⟩ ∧
      ((∃ k1 k2, evalPy ρ lo = .ok (.int k1) ∧ evalPy ρ hi = .ok (.int k2) ∧
          (0 ≤ k1 → k1 < k2 → k2 ≤ w → (k2 - k1).toNat = n)) ∨
       (∃ er, evalPy ρ lo = .error er ∧ er.isWidth = false) ∨
       (∃ k1 er, evalPy ρ lo = .ok (.int k1) ∧ evalPy ρ hi = .error er ∧ er.isWidth = false)) := by
  simp only [issuesE, hlo, hhi, annOf_ok, List.append_eq_nil_iff] at hc
  obtain ⟨hcw, hcb⟩ := hc
  obtain ⟨_, hw2⟩ := widthIssues_nil hcw
  refine ⟨hw2, ?_⟩
  have hio : intOnly lo = true ∧ intOnly hi = true := by
    by_cases hb : (intOnly lo && intOnly hi) = true
    · simpa using hb
    · split at hcb <;> simp [hb] at hcb
  obtain ⟨n0, hn0⟩ := slcRule_ann_shape hr
  rcases intOnly_eval Γ ρ lo hio.1 tlo hlo with ⟨k1, hk1, hv1⟩ | ⟨er, her, hwe⟩
  · rcases intOnly_eval Γ ρ hi hio.2 thi hhi with ⟨k2, hk2, hv2⟩ | ⟨er, her, hwe⟩
    · -- both bounds are ints
      cases hvl : tlo.ann.val with
      | some l =>
        cases hvu : thi.ann.val with
        | some u =>
          obtain ⟨h1, h2, h3, hann⟩ := slcRule_const hr hvl hvu
          refine ⟨_, hann, Or.inl ⟨k1, k2, hk1, hk2, ?_⟩⟩
          intro _ _ _
          rw [hv1 l hvl, hv2 u hvu]
        | none => exact slc_plus_aux Γ ρ hhi hr hio k1 k2 hk1 hk2 (by simp [hvu])
      | none => exact slc_plus_aux Γ ρ hhi hr hio k1 k2 hk1 hk2 (by simp [hvl])
    · exact ⟨n0, hn0, Or.inr (Or.inr ⟨k1, er, hk1, her, hwe⟩)⟩
  · exact ⟨n0, hn0, Or.inr (Or.inl ⟨er, her, hwe⟩)⟩

/-! ## environments -/

/-- the simulator state agrees with the checker's environment: every loop variable in scope is bound to
    an int that fits its inferred width; every temporary that is bound holds a value that agrees with
    its recorded type (a temporary recorded as explicit holds a `Bits`) -/
structure EnvOK (Γ : Env) (ρ : Rho) : Prop where
  lv : ∀ i w, Γ.lvs.lookup i = some w → ∃ k, ρ.lvs.lookup i = some k ∧ Fits w k
  tmp : ∀ t w ex v, Γ.tmps.lookup t = some (w, ex) → ρ.tmps.lookup t = some v → Agrees ex ⟨w, ex, none⟩ v

/-- **soundness of the checker on clean expressions**: an accepted expression without issues evaluates
    to a value of the assigned kind and width, or raises something that is not a width error -/
theorem expr_safe (Γ : Env) (ρ : Rho) (henv : EnvOK Γ ρ) :
    ∀ (e : Expr) (t : AT), checkE Γ e = .ok t → issuesE Γ e = [] →
      Safe (hardE Γ e) t.ann (evalPy ρ e) := by
  intro e
  induction e with
  | sig x w =>
    intro t h hc
    simp only [checkE] at h; cases h
    simp only [issuesE] at hc
    obtain ⟨h1, h2⟩ := widthIssues_nil hc
    exact ⟨rfl, rfl, h1, h2, Nat.mod_lt _ (Nat.two_pow_pos _)⟩
  | num v =>
    intro t h _
    simp only [checkE] at h; cases h
    refine ⟨rfl, ⟨by omega, ?_⟩, fun _ w hw => by simp at hw; exact hw⟩
    have := nbitsOf_fits v
    exact_mod_cast this
  | lv i =>
    intro t h _
    simp only [checkE] at h
    cases hl : Γ.lvs.lookup i with
    | none => simp [hl] at h
    | some w =>
      simp only [hl] at h; cases h
      obtain ⟨k, hk, hf⟩ := henv.lv i w hl
      simp only [evalPy, hk]
      exact ⟨rfl, hf, fun _ v hv => by simp at hv⟩
  | tmp t0 =>
    intro t h _
    simp only [checkE] at h
    cases hl : Γ.tmps.lookup t0 with
    | none => simp [hl] at h
    | some p =>
      obtain ⟨w, ex⟩ := p
      simp only [hl] at h; cases h
      simp only [evalPy, hardE, hl]
      cases hv : ρ.tmps.lookup t0 with
      | none => exact (rfl : PyErr.isWidth .name = false)
      | some v => exact henv.tmp t0 w ex v hl hv
  | un op e ih =>
    intro t h hc
    obtain ⟨te, he, rfl⟩ := checkE_un_inv h
    simp only [issuesE, he, annOf_ok, List.append_eq_nil_iff] at hc
    obtain ⟨hce, hcu⟩ := hc
    have hh : hardE Γ e = true := by
      unfold unIssues at hcu
      cases hhe : hardE Γ e
      · simp only [hhe, Bool.false_eq_true, ↓reduceIte] at hcu; split at hcu <;> cases hcu
      · rfl
    have ihe := ih te he hce
    simp only [evalPy, hardE, hh] at ihe ⊢
    cases hx : evalPy ρ e with
    | error er => rw [hx] at ihe; exact ihe
    | ok x => rw [hx] at ihe; exact unRule_safe op ihe
  | bin op l r ihl ihr =>
    intro t h hc
    obtain ⟨tl, tr, hl, hr, hb⟩ := checkE_bin_inv h
    simp only [issuesE, hl, hr, h, annOf_ok, List.append_eq_nil_iff] at hc
    obtain ⟨⟨hcl, hcr⟩, hcb⟩ := hc
    have ih1 := ihl tl hl hcl
    have ih2 := ihr tr hr hcr
    simp only [evalPy, hardE]
    cases hx : evalPy ρ l with
    | error er => rw [hx] at ih1; exact ih1
    | ok x =>
      cases hy : evalPy ρ r with
      | error er => rw [hy] at ih2; exact ih2
      | ok y =>
        rw [hx] at ih1; rw [hy] at ih2
        exact binRule_safe op hb ih1 ih2 hcb
  | cmp op l r ihl ihr =>
    intro t h hc
    obtain ⟨tl, tr, hl, hr, hb⟩ := checkE_cmp_inv h
    simp only [issuesE, hl, hr, annOf_ok, List.append_eq_nil_iff] at hc
    obtain ⟨⟨hcl, hcr⟩, hcb⟩ := hc
    have ih1 := ihl tl hl hcl
    have ih2 := ihr tr hr hcr
    simp only [evalPy, hardE]
    cases hx : evalPy ρ l with
    | error er => rw [hx] at ih1; exact ih1
    | ok x =>
      cases hy : evalPy ρ r with
      | error er => rw [hy] at ih2; exact ih2
      | ok y =>
        rw [hx] at ih1; rw [hy] at ih2
        exact cmpRule_safe op hb ih1 ih2 hcb
  | ite c a b ihc iha ihb =>
    intro t h hc
    obtain ⟨tc, tt, tf, hcc, hca, hcb, hrule⟩ := checkE_ite_inv h
    simp only [issuesE, hca, hcb, h, annOf_ok, List.append_eq_nil_iff] at hc
    obtain ⟨⟨⟨hpc, hia⟩, hib⟩, hiw⟩ := hc
    have hcond : NoWidthErr (evalPy ρ c) := by
      by_cases hio : intOnly c = true
      · exact intOnly_noWidthErr Γ ρ hio hcc
      · simp only [hio, Bool.false_eq_true, ↓reduceIte] at hpc
        exact (ihc tc hcc hpc).noWidthErr
    obtain ⟨hex, hval⟩ := iteRule_ann hrule
    unfold iteIssues at hiw
    split at hiw
    · next hw =>
      obtain ⟨w1, w2, w3, w4⟩ := hw
      simp only [evalPy, hardE]
      cases hx : evalPy ρ c with
      | error er => rw [hx] at hcond; exact hcond
      | ok vc =>
        simp only
        split
        · have := iha tt hca hia
          cases hy : evalPy ρ a with
          | error er => rw [hy] at this; exact this
          | ok y =>
            rw [hy] at this
            exact ite_branch_safe this w1 w3 (fun he => by simp [hex, he]) hval
              (fun hh => by simp only [Bool.and_eq_true] at hh; exact hh.1)
        · have := ihb tf hcb hib
          cases hy : evalPy ρ b with
          | error er => rw [hy] at this; exact this
          | ok y =>
            rw [hy] at this
            exact ite_branch_safe this w2 w4 (fun he => by simp [hex, he]) hval
              (fun hh => by simp only [Bool.and_eq_true] at hh; exact hh.2)
    · cases hiw
  | cast n e ih =>
    intro t h hc
    obtain ⟨te, he, rfl⟩ := checkE_cast_inv h
    simp only [issuesE, he, annOf_ok, List.append_eq_nil_iff, castIssues] at hc
    obtain ⟨hce, hcw, hcc⟩ := hc
    obtain ⟨h1, h2⟩ := widthIssues_nil hcw
    have ihe := ih te he hce
    simp only [evalPy, hardE, castRule, ann_n1]
    cases hx : evalPy ρ e with
    | error er => rw [hx] at ihe; exact ihe
    | ok x =>
      rw [hx] at ihe
      refine pyCast_safe ihe h1 h2 ?_
      cases hex : te.ann.ex <;> simp only [hex, ↓reduceIte, Bool.false_eq_true] at hcc ⊢
      · by_cases hw : te.ann.w ≤ n
        · exact hw
        · simp [hw] at hcc
      · by_cases hw : te.ann.w = n
        · exact hw
        · simp [hw] at hcc
  | ext k ty e n ih =>
    intro t h hc
    obtain ⟨te, he, hr⟩ := checkE_ext_inv h
    simp only [issuesE, List.append_eq_nil_iff] at hc
    obtain ⟨hce, hcw⟩ := hc
    obtain ⟨h1, h2⟩ := widthIssues_nil hcw
    have ihe := ih te he hce
    simp only [evalPy, hardE]
    cases hx : evalPy ρ e with
    | error er => rw [hx] at ihe; exact ihe
    | ok x => rw [hx] at ihe; exact pyExt_safe hr ihe h1 h2
  | red op e ih =>
    intro t h hc
    obtain ⟨te, he, rfl⟩ := checkE_red_inv h
    simp only [issuesE] at hc
    have ihe := ih te he hc
    simp only [evalPy, hardE, ann_n1]
    cases hx : evalPy ρ e with
    | error er => rw [hx] at ihe; exact ihe
    | ok x => exact pyRed_safe op x
  | cat l r ihl ihr =>
    intro t h hc
    obtain ⟨tl, tr, hl, hr, rfl⟩ := checkE_cat_inv h
    simp only [issuesE, hl, hr, annOf_ok, List.append_eq_nil_iff] at hc
    obtain ⟨⟨hcl, hcr⟩, hcw⟩ := hc
    obtain ⟨_, h2⟩ := widthIssues_nil hcw
    have ih1 := ihl tl hl hcl
    have ih2 := ihr tr hr hcr
    simp only [evalPy, hardE, ann_n2]
    cases hx : evalPy ρ l with
    | error er => rw [hx] at ih1; exact ih1
    | ok x =>
      cases hy : evalPy ρ r with
      | error er => rw [hy] at ih2; exact ih2
      | ok y =>
        rw [hx] at ih1; rw [hy] at ih2
        exact pyCat_safe ih1 ih2 h2
  | idx x w i ih =>
    intro t h hc
    obtain ⟨ti, hi, hr⟩ := checkE_idx_inv h
    simp only [issuesE, List.append_eq_nil_iff] at hc
    obtain ⟨_, hpi⟩ := hc
    have hpos : NoWidthErr (evalPy ρ i) := by
      by_cases hio : intOnly i = true
      · exact intOnly_noWidthErr Γ ρ hio hi
      · simp only [hio, Bool.false_eq_true, ↓reduceIte] at hpi
        exact (ih ti hi hpi).noWidthErr
    simp only [evalPy, hardE, idxRule_ann hr]
    cases hx : evalPy ρ i with
    | error er => rw [hx] at hpos; exact hpos
    | ok vi => exact safe_liftR (goodR_getBit _ _) rfl rfl
  | slc x w lo hi _ _ =>
    intro t h hc
    obtain ⟨tlo, thi, hlo, hhi, hr⟩ := checkE_slc_inv h
    obtain ⟨hw2, n, hann, hb⟩ := slc_bounds Γ ρ hlo hhi hr hc
    simp only [evalPy, hardE, hann]
    rcases hb with ⟨k1, k2, hk1, hk2, hn⟩ | ⟨er, her, hwe⟩ | ⟨k1, er, hk1, her, hwe⟩
    · rw [hk1, hk2]
      exact safe_liftR (goodR_getSlice_any w _ k1 k2 n hw2 hn) rfl rfl
    · rw [her]; exact hwe
    · rw [hk1, her]; exact hwe

/-! ## statements -/

theorem pyRangeAux_mem (stop step : Int) : ∀ (fuel : Nat) (x k : Int), k ∈ pyRangeAux stop step fuel x →
    (step > 0 ∧ x ≤ k ∧ k < stop) ∨ (step < 0 ∧ k ≤ x ∧ k > stop) := by
  intro fuel
  induction fuel with
  | zero => intro x k h; simp [pyRangeAux] at h
  | succ n ih =>
    intro x k h
    simp only [pyRangeAux] at h
    split at h
    · next hc =>
      simp only [List.mem_cons] at h
      rcases h with rfl | h
      · rcases hc with ⟨h1, h2⟩ | ⟨h1, h2⟩
        · left; exact ⟨h1, Int.le_refl _, h2⟩
        · right; exact ⟨h1, Int.le_refl _, h2⟩
      · rcases ih (x + step) k h with ⟨h1, h2, h3⟩ | ⟨h1, h2, h3⟩
        · left; exact ⟨h1, by omega, h3⟩
        · right; exact ⟨h1, by omega, h3⟩
    · simp at h

theorem maxList_ge (xs : List Int) : ∀ m, m ≤ maxList xs m ∧ ∀ x ∈ xs, x ≤ maxList xs m := by
  induction xs with
  | nil => intro m; simp [maxList]
  | cons y ys ih =>
    intro m
    simp only [maxList]
    obtain ⟨h1, h2⟩ := ih (if y > m then y else m)
    by_cases hy : y > m
    · simp only [hy, ↓reduceIte] at h1 h2 ⊢
      refine ⟨by omega, ?_⟩
      intro x hx
      simp only [List.mem_cons] at hx
      rcases hx with rfl | hx
      · exact h1
      · exact h2 x hx
    · simp only [hy, ↓reduceIte] at h1 h2 ⊢
      refine ⟨h1, ?_⟩
      intro x hx
      simp only [List.mem_cons] at hx
      rcases hx with rfl | hx
      · omega
      · exact h2 x hx

/-- every value the loop variable takes fits the width `visit_For` infers -/
theorem loop_fits (start stop step : Int) (h0 : 0 ≤ start) (h1 : 0 ≤ stop) (k : Int)
    (hk : k ∈ pyRange start stop step) : Fits (loopWidth start stop step) k := by
  have hpos : 0 ≤ k := by
    rcases pyRangeAux_mem stop step _ start k hk with ⟨_, h, _⟩ | ⟨_, _, h⟩ <;> omega
  unfold loopWidth
  cases hl : pyRange start stop step with
  | nil => rw [hl] at hk; simp at hk
  | cons x xs =>
    simp only
    rw [hl] at hk
    have hm := maxList_ge xs x
    have hle : k ≤ maxList xs x := by
      simp only [List.mem_cons] at hk
      rcases hk with rfl | hk
      · exact hm.1
      · exact hm.2 k hk
    have hf := fits_nbitsInt (maxList xs x) (by omega)
    exact ⟨hpos, by have := hf.2; omega⟩

/-- temporaries of `Γ` are temporaries of `G` with the same recorded type -/
def ExtT (Γ G : Env) : Prop := ∀ t p, Γ.tmps.lookup t = some p → G.tmps.lookup t = some p

def TmpOK (G : Env) (ρ : Rho) : Prop :=
  ∀ t w ex v, G.tmps.lookup t = some (w, ex) → ρ.tmps.lookup t = some v → Agrees ex ⟨w, ex, none⟩ v

def LvOK (Γ : Env) (ρ : Rho) : Prop :=
  ∀ i w, Γ.lvs.lookup i = some w → ∃ k, ρ.lvs.lookup i = some k ∧ Fits w k

theorem envOK_of {Γ G : Env} {ρ : Rho} (he : ExtT Γ G) (ht : TmpOK G ρ) (hl : LvOK Γ ρ) : EnvOK Γ ρ :=
  ⟨hl, fun t w ex v h1 h2 => ht t w ex v (he t _ h1) h2⟩

theorem ExtT.refl (Γ : Env) : ExtT Γ Γ := fun _ _ h => h
theorem ExtT.trans {A B C : Env} (h1 : ExtT A B) (h2 : ExtT B C) : ExtT A C := fun t p h => h2 t p (h1 t p h)

theorem checkS_lvs : ∀ (s : Stmt) (Γ Γ' : Env) (a : AS), checkS Γ s = .ok (Γ', a) → Γ'.lvs = Γ.lvs := by
  intro s
  induction s with
  | skip => intro Γ Γ' a h; simp only [checkS] at h; cases h; rfl
  | seq s1 s2 ih1 ih2 =>
    intro Γ Γ' a h
    simp only [checkS] at h
    cases h1 : checkS Γ s1 with
    | error e => simp [h1] at h
    | ok p1 =>
      obtain ⟨Γ1, a1⟩ := p1
      cases h2 : checkS Γ1 s2 with
      | error e => simp [h1, h2] at h
      | ok p2 =>
        obtain ⟨Γ2, a2⟩ := p2
        simp only [h1, h2] at h; cases h
        rw [ih2 Γ1 _ a2 h2, ih1 Γ Γ1 a1 h1]
  | asg tgt e =>
    intro Γ Γ' a h
    simp only [checkS] at h
    repeat' split at h
    all_goals (cases h <;> rfl)
  | tasg t e =>
    intro Γ Γ' a h
    simp only [checkS] at h
    repeat' split at h
    all_goals (cases h <;> rfl)
  | ifs c b o ihb iho =>
    intro Γ Γ' a h
    simp only [checkS] at h
    cases hc : checkE Γ c with
    | error e => simp [hc] at h
    | ok tc =>
      cases h1 : checkS Γ b with
      | error e => simp [hc, h1] at h
      | ok p1 =>
        obtain ⟨Γ1, a1⟩ := p1
        cases h2 : checkS Γ1 o with
        | error e => simp [hc, h1, h2] at h
        | ok p2 =>
          obtain ⟨Γ2, a2⟩ := p2
          simp only [hc, h1, h2] at h; cases h
          rw [iho Γ1 _ a2 h2, ihb Γ Γ1 a1 h1]
  | for_ i a b c body ih =>
    intro Γ Γ' as h
    simp only [checkS] at h
    repeat' split at h
    all_goals (cases h <;> rfl)

theorem lookup_setTmp (Γ : Env) (t : Nat) (e : Nat × Bool) (t' : Nat) :
    (Γ.setTmp t e).tmps.lookup t' = if t' = t then some e else Γ.tmps.lookup t' := by
  simp only [Env.setTmp, List.lookup_cons]
  by_cases h : t' = t
  · simp [h]
  · have : (t' == t) = false := by simpa using h
    simp [h, this]

theorem envAfter_ok {Γ Γ1 : Env} {s : Stmt} {a : AS} (h : checkS Γ s = .ok (Γ1, a)) : envAfter Γ s = Γ1 := by
  simp [envAfter, h]

theorem checkS_tasg_inv {Γ Γ' : Env} {t : Nat} {e : Expr} {a : AS} (h : checkS Γ (.tasg t e) = .ok (Γ', a)) :
    ∃ te, checkE Γ e = .ok te ∧ Γ' = Γ.setTmp t (te.ann.w, te.ann.ex) ∧
      (∀ w ex, Γ.tmps.lookup t = some (w, ex) → w = te.ann.w) := by
  simp only [checkS] at h
  cases he : checkE Γ e with
  | error er => simp [he] at h
  | ok te =>
    simp only [he] at h
    cases hl : Γ.tmps.lookup t with
    | none => simp only [hl] at h; cases h; exact ⟨te, rfl, rfl, fun _ _ h => by cases h⟩
    | some p =>
      obtain ⟨w, ex⟩ := p
      simp only [hl] at h
      split at h
      · next hw => cases h; exact ⟨te, rfl, rfl, fun _ _ h => by cases h; exact hw⟩
      · cases h

theorem checkS_asg_inv {Γ Γ' : Env} {tgt e : Expr} {a : AS} (h : checkS Γ (.asg tgt e) = .ok (Γ', a)) :
    isTarget tgt = true ∧ Γ' = Γ ∧ ∃ tt te, checkE Γ tgt = .ok tt ∧ checkE Γ e = .ok te ∧ asgRule tt te = .ok a := by
  simp only [checkS] at h
  cases ht : isTarget tgt with
  | false => simp [ht] at h
  | true =>
    simp only [ht, Bool.not_true, Bool.false_eq_true, ↓reduceIte] at h
    cases h1 : checkE Γ tgt with
    | error er => simp [h1] at h
    | ok tt =>
      cases h2 : checkE Γ e with
      | error er => simp [h1, h2] at h
      | ok te =>
        simp only [h1, h2] at h
        cases h3 : asgRule tt te with
        | error er => simp [h3] at h
        | ok s => simp only [h3] at h; cases h; exact ⟨rfl, rfl, tt, te, rfl, rfl, h3⟩

/-- `checkS` only extends the temporaries (their recorded types never change on a clean block) -/
theorem checkS_ext : ∀ (s : Stmt) (Γ Γ' : Env) (a : AS), checkS Γ s = .ok (Γ', a) → issuesS Γ s = [] →
    ExtT Γ Γ' := by
  intro s
  induction s with
  | skip => intro Γ Γ' a h _; simp only [checkS] at h; cases h; exact ExtT.refl _
  | seq s1 s2 ih1 ih2 =>
    intro Γ Γ' a h hc
    simp only [checkS] at h
    cases h1 : checkS Γ s1 with
    | error e => simp [h1] at h
    | ok p1 =>
      obtain ⟨Γ1, a1⟩ := p1
      cases h2 : checkS Γ1 s2 with
      | error e => simp [h1, h2] at h
      | ok p2 =>
        obtain ⟨Γ2, a2⟩ := p2
        simp only [h1, h2] at h; cases h
        simp only [issuesS, envAfter_ok h1, List.append_eq_nil_iff] at hc
        exact (ih1 Γ Γ1 a1 h1 hc.1).trans (ih2 Γ1 _ a2 h2 hc.2)
  | asg tgt e =>
    intro Γ Γ' a h _
    obtain ⟨_, rfl, _⟩ := checkS_asg_inv h
    exact ExtT.refl _
  | tasg t e =>
    intro Γ Γ' a h hc
    obtain ⟨te, he, rfl, hw⟩ := checkS_tasg_inv h
    simp only [issuesS, he, annOf_ok, List.append_eq_nil_iff] at hc
    obtain ⟨⟨_, hflip⟩, _⟩ := hc
    intro t' p hp
    rw [lookup_setTmp]
    by_cases ht : t' = t
    · subst ht
      simp only [↓reduceIte]
      obtain ⟨w, ex⟩ := p
      have := hw w ex hp
      subst this
      simp only [hp] at hflip
      split at hflip
      · next hex => rw [hex]
      · cases hflip
    · simp [ht, hp]
  | ifs c b o ihb iho =>
    intro Γ Γ' a h hc
    simp only [checkS] at h
    cases hcc : checkE Γ c with
    | error e => simp [hcc] at h
    | ok tc =>
      cases h1 : checkS Γ b with
      | error e => simp [hcc, h1] at h
      | ok p1 =>
        obtain ⟨Γ1, a1⟩ := p1
        cases h2 : checkS Γ1 o with
        | error e => simp [hcc, h1, h2] at h
        | ok p2 =>
          obtain ⟨Γ2, a2⟩ := p2
          simp only [hcc, h1, h2] at h; cases h
          simp only [issuesS, envAfter_ok h1, List.append_eq_nil_iff] at hc
          exact (ihb Γ Γ1 a1 h1 hc.1.2).trans (iho Γ1 _ a2 h2 hc.2)
  | for_ i a b c body ih =>
    intro Γ Γ' as h hc
    simp only [checkS] at h
    split at h
    · cases h
    · split at h
      · cases h
      · split at h
        · cases h
        · cases h1 : checkS { Γ with lvs := (i, loopWidth a b c) :: Γ.lvs } body with
          | error e => simp [h1] at h
          | ok p1 =>
            obtain ⟨Γ1, a1⟩ := p1
            simp only [h1] at h; cases h
            simp only [issuesS] at hc
            have := ih { Γ with lvs := (i, loopWidth a b c) :: Γ.lvs } Γ1 a1 h1 hc
            exact fun t p hp => this t p hp

theorem goodR_imatmul {h : Bool} {ea : Ann} {v : Val} {cur : B} (hv : Agrees h ea v) (hc : cur.Wf)
    (hex : ea.ex = true → ea.w = cur.n) (him : ea.ex = false → ea.w ≤ cur.n) :
    GoodR cur.n (imatmul cur v.opnd) := by
  cases v with
  | bits b =>
    obtain ⟨he, hn, hwf⟩ := hv
    have : b.n = cur.n := by rw [hn]; exact hex he
    simp only [Val.opnd, imatmul, this, ne_eq, not_true_eq_false, ↓reduceIte, GoodR]
    exact ⟨trivial, hc.1, hc.2.1, this ▸ hwf.2.2⟩
  | int k =>
    obtain ⟨_, hk, _⟩ := hv
    have hle : ea.w ≤ cur.n := by
      cases he : ea.ex
      · exact him he
      · have := hex he; omega
    have hk' := hk.mono hle
    have hup := hk'.le_upper
    have hlow : ¬ (k < lower cur.n) := by
      unfold lower
      have : (0 : Int) < 2 ^ (cur.n - 1) := Int.pow_pos (by decide)
      have := hk'.1; omega
    have hcond : (decide (k < lower cur.n) || decide (k > (upper cur.n : Int))) = false := by
      simp only [Bool.or_eq_false_iff, decide_eq_false_iff_not]
      exact ⟨hlow, by omega⟩
    simp only [Val.opnd, imatmul, hcond, Bool.false_eq_true, ↓reduceIte, GoodR]
    exact ⟨trivial, hc.1, hc.2.1, maskInt_lt _ _⟩

theorem asgRule_ok {tt te : AT} {s : AS} (h : asgRule tt te = .ok s) :
    (te.ann.ex = true → te.ann.w = tt.ann.w) ∧ (te.ann.ex = false → te.ann.w ≤ tt.ann.w) := by
  unfold asgRule at h
  simp only at h
  constructor
  · intro hex
    simp only [hex, Bool.not_true, Bool.false_and, Bool.false_eq_true, ↓reduceIte] at h
    split at h
    · assumption
    · cases h
  · intro hex
    simp only [hex, Bool.not_false, Bool.true_and] at h
    split at h
    · split at h
      · cases h
      · omega
    · next hne =>
      have : te.ann.w = tt.ann.w := by simpa using hne
      omega

theorem sig_wf (ρ : Rho) (x w : Nat) (h1 : 1 ≤ w) (h2 : w < 1024) : (ρ.sig x w).Wf :=
  ⟨h1, h2, Nat.mod_lt _ (Nat.two_pow_pos _)⟩

theorem setBit_bits1 (x : B) (i : Int) (nb cur : B) (hg : getBit x i = .ok cur) (hn : nb.n = 1) :
    ∃ r, setBit x i (.bits nb) = .ok r := by
  unfold getBit at hg
  unfold setBit
  split at hg
  · cases hg
  · next hi =>
    simp only [hi, ↓reduceIte]
    have : ¬ nb.n > 1 := by omega
    simp [this]

theorem setSlice_bits (x : B) (lo hi : Bound) (nb cur : B) (hg : getSlice x lo hi none = .ok cur)
    (hn : nb.n = cur.n) : ∃ r, setSlice x lo hi none (.bits nb) = .ok r := by
  unfold getSlice at hg
  unfold setSlice
  cases hs : sliceBounds x.n lo hi none with
  | none => simp [hs] at hg
  | some p =>
    obtain ⟨a, b⟩ := p
    simp only [hs] at hg ⊢
    cases hg
    simp only at hn
    simp [hn]

@[simp] theorem liftB_ok (b : B) : liftB (.ok b) = .ok b := rfl
@[simp] theorem liftB_err (e : Bits.Err) : liftB (.error e) = .error (PyErr.ofBits e) := rfl

theorem liftB_good {n : Nat} {r : Bits.R} (g : GoodR n r) :
    match liftB r with
    | .ok b => b.n = n ∧ b.Wf
    | .error e => e.isWidth = false := by
  cases r with
  | ok b => exact g
  | error e => cases e <;> simp_all [GoodR, liftB, PyErr.ofBits, PyErr.isWidth]

/-- result of one assignment: only signal values change -/
def AsgSafe (ρ : Rho) : Except PyErr Rho → Prop
  | .ok ρ' => ρ'.lvs = ρ.lvs ∧ ρ'.tmps = ρ.tmps
  | .error er => er.isWidth = false

theorem pos_noWidthErr (Γ : Env) (ρ : Rho) (henv : EnvOK Γ ρ) {e : Expr} {t : AT}
    (h : checkE Γ e = .ok t) (hc : (if intOnly e then [] else issuesE Γ e) = []) : NoWidthErr (evalPy ρ e) := by
  by_cases hio : intOnly e = true
  · exact intOnly_noWidthErr Γ ρ hio h
  · simp only [hio, Bool.false_eq_true, ↓reduceIte] at hc
    exact (expr_safe Γ ρ henv e t h hc).noWidthErr

theorem execAsg_safe (Γ : Env) (ρ : Rho) (henv : EnvOK Γ ρ) {tgt e : Expr} {tt te : AT} {s : AS}
    (hct : checkE Γ tgt = .ok tt) (hce : checkE Γ e = .ok te)
    (hr : asgRule tt te = .ok s) (hit : issuesE Γ tgt = []) (hie : issuesE Γ e = []) :
    AsgSafe ρ (execAsg ρ tgt e) := by
  have hv := expr_safe Γ ρ henv e te hce hie
  have hex := (asgRule_ok hr).1
  have him := (asgRule_ok hr).2
  -- the common tail: evaluate `e`, `__imatmul__` on the loaded object
  have tail : ∀ (cur : B), cur.Wf → cur.n = tt.ann.w →
      match evalPy ρ e with
      | .error er => er.isWidth = false
      | .ok v => match liftB (imatmul cur v.opnd) with
        | .ok nb => nb.n = cur.n
        | .error er => er.isWidth = false := by
    intro cur hcw hcn
    cases hx : evalPy ρ e with
    | error er => rw [hx] at hv; exact hv
    | ok v =>
      rw [hx] at hv
      have g := goodR_imatmul hv hcw (fun h => by rw [hcn]; exact hex h) (fun h => by rw [hcn]; exact him h)
      have := liftB_good g
      simp only
      cases hl : liftB (imatmul cur v.opnd) with
      | ok nb => rw [hl] at this; exact this.1
      | error er => rw [hl] at this; exact this
  cases tgt with
  | sig x w =>
    simp only [checkE] at hct; cases hct
    simp only [issuesE] at hit
    obtain ⟨h1, h2⟩ := widthIssues_nil hit
    have := tail (ρ.sig x w) (sig_wf ρ x w h1 h2) rfl
    simp only [execAsg]
    cases hx : evalPy ρ e with
    | error er => rw [hx] at this; exact this
    | ok v =>
      rw [hx] at this
      simp only at this ⊢
      cases hl : liftB (imatmul (ρ.sig x w) v.opnd) with
      | ok nb => exact ⟨rfl, rfl⟩
      | error er => rw [hl] at this; exact this
  | idx x w i =>
    obtain ⟨ti, hi, hrule⟩ := checkE_idx_inv hct
    simp only [issuesE, List.append_eq_nil_iff] at hit
    have hpos := pos_noWidthErr Γ ρ henv hi hit.2
    have hann := idxRule_ann hrule
    simp only [execAsg]
    cases hx : evalPy ρ i with
    | error er => rw [hx] at hpos; exact hpos
    | ok vi =>
      simp only
      have g := liftB_good (goodR_getBit (ρ.sig x w) (toIndex vi))
      cases hg : getBit (ρ.sig x w) (toIndex vi) with
      | error er0 =>
        have hgb : liftB (getBit (ρ.sig x w) (toIndex vi)) = .error (PyErr.ofBits er0) := by rw [hg]; rfl
        rw [hgb] at g
        simp only [liftB_err]; exact g
      | ok cur =>
        have hgb : liftB (getBit (ρ.sig x w) (toIndex vi)) = .ok cur := by rw [hg]; rfl
        rw [hgb] at g
        simp only [liftB_ok]
        have := tail cur g.2 (by rw [g.1, hann])
        cases hy : evalPy ρ e with
        | error er => rw [hy] at this; exact this
        | ok v =>
          rw [hy] at this
          simp only at this ⊢
          cases hl : liftB (imatmul cur v.opnd) with
          | error er => rw [hl] at this; exact this
          | ok nb =>
            rw [hl] at this
            obtain ⟨r, hr'⟩ := setBit_bits1 (ρ.sig x w) (toIndex vi) nb cur hg (by rw [this, g.1])
            have hrb : liftB (setBit (ρ.sig x w) (toIndex vi) (.bits nb)) = .ok r := by rw [hr']; rfl
            simp only [hrb]
            exact ⟨rfl, rfl⟩
  | slc x w lo hi =>
    obtain ⟨tlo, thi, hlo, hhi, hrule⟩ := checkE_slc_inv hct
    obtain ⟨hw2, n, hann, hb⟩ := slc_bounds Γ ρ hlo hhi hrule hit
    simp only [execAsg]
    rcases hb with ⟨k1, k2, hk1, hk2, hn⟩ | ⟨er, her, hwe⟩ | ⟨k1, er, hk1, her, hwe⟩
    · rw [hk1, hk2]
      simp only [toIndex]
      have g0 : GoodR n (getSlice (ρ.sig x w) (some k1) (some k2) none) :=
        goodR_getSlice_any w ((ρ.sigs.lookup x).getD 0 % 2 ^ w) k1 k2 n hw2 hn
      have g := liftB_good g0
      cases hg : getSlice (ρ.sig x w) (some k1) (some k2) none with
      | error er0 =>
        have hgb : liftB (getSlice (ρ.sig x w) (some k1) (some k2) none) = .error (PyErr.ofBits er0) := by
          rw [hg]; rfl
        rw [hgb] at g
        simp only [liftB_err]; exact g
      | ok cur =>
        have hgb : liftB (getSlice (ρ.sig x w) (some k1) (some k2) none) = .ok cur := by rw [hg]; rfl
        rw [hgb] at g
        simp only [liftB_ok]
        have := tail cur g.2 (by rw [g.1, hann])
        cases hy : evalPy ρ e with
        | error er => rw [hy] at this; exact this
        | ok v =>
          rw [hy] at this
          simp only at this ⊢
          cases hl : liftB (imatmul cur v.opnd) with
          | error er => rw [hl] at this; exact this
          | ok nb =>
            rw [hl] at this
            obtain ⟨r, hr'⟩ := setSlice_bits (ρ.sig x w) (some k1) (some k2) nb cur hg this
            have hrb : liftB (setSlice (ρ.sig x w) (some k1) (some k2) none (.bits nb)) = .ok r := by
              rw [hr']; rfl
            simp only [hrb]
            exact ⟨rfl, rfl⟩
    · rw [her]; exact hwe
    · rw [hk1, her]; exact hwe
  | num _ | lv _ | tmp _ | un _ _ | bin _ _ _ | cmp _ _ _ | ite _ _ _ | cast _ _ | ext _ _ _ _ | red _ _
  | cat _ _ => simp [execAsg, AsgSafe, PyErr.isWidth]

/-- result of a statement: the temporaries still agree with the (final) type environment `G`, the loop
    variables in scope are unchanged; or an error that is not a width error -/
def StmtSafe (G : Env) (ρ : Rho) : Except PyErr Rho → Prop
  | .ok ρ' => TmpOK G ρ' ∧ ρ'.lvs = ρ.lvs
  | .error er => er.isWidth = false

theorem TmpOK.congr {G : Env} {ρ ρ' : Rho} (h : ρ'.tmps = ρ.tmps) (ht : TmpOK G ρ) : TmpOK G ρ' := by
  intro t w ex v h1 h2; rw [h] at h2; exact ht t w ex v h1 h2

theorem LvOK.congr {Γ : Env} {ρ ρ' : Rho} (h : ρ'.lvs = ρ.lvs) (hl : LvOK Γ ρ) : LvOK Γ ρ' := by
  intro i w h1; rw [h]; exact hl i w h1

theorem runLoop_safe {G Γ : Env} {i w : Nat} {f : Rho → Except PyErr Rho}
    (hf : ∀ ρ, TmpOK G ρ → LvOK { Γ with lvs := (i, w) :: Γ.lvs } ρ → StmtSafe G ρ (f ρ)) :
    ∀ (ks : List Int) (ρ : Rho), (∀ k ∈ ks, Fits w k) → TmpOK G ρ → LvOK Γ ρ →
      StmtSafe G ρ (runLoop f i ks ρ) := by
  intro ks
  induction ks with
  | nil => intro ρ _ ht _; exact ⟨ht, rfl⟩
  | cons k ks ih =>
    intro ρ hk ht hl
    simp only [runLoop]
    have hl' : LvOK { Γ with lvs := (i, w) :: Γ.lvs } { ρ with lvs := (i, k) :: ρ.lvs } := by
      intro j wj hj
      simp only [List.lookup_cons] at hj ⊢
      by_cases hji : (j == i) = true
      · simp only [hji] at hj ⊢
        cases hj
        exact ⟨k, rfl, hk k (by simp)⟩
      · have : (j == i) = false := by simpa using hji
        simp only [this] at hj ⊢
        exact hl j wj hj
    have hs := hf { ρ with lvs := (i, k) :: ρ.lvs } (TmpOK.congr rfl ht) hl'
    cases hr : f { ρ with lvs := (i, k) :: ρ.lvs } with
    | error er => rw [hr] at hs; exact hs
    | ok ρ1 =>
      rw [hr] at hs
      simp only
      have := ih { ρ1 with lvs := ρ.lvs } (fun k' hk' => hk k' (by simp [hk'])) (TmpOK.congr rfl hs.1)
        (LvOK.congr rfl hl)
      cases hr2 : runLoop f i ks { ρ1 with lvs := ρ.lvs } with
      | error er => rw [hr2] at this; exact this
      | ok ρ2 => rw [hr2] at this; exact ⟨this.1, this.2⟩

/-- **soundness of the checker on clean statements** -/
theorem stmt_safe (G : Env) : ∀ (s : Stmt) (Γ Γ' : Env) (a : AS) (ρ : Rho),
    checkS Γ s = .ok (Γ', a) → issuesS Γ s = [] → ExtT Γ' G → TmpOK G ρ → LvOK Γ ρ →
    StmtSafe G ρ (execS s ρ) := by
  intro s
  induction s with
  | skip => intro Γ Γ' a ρ _ _ _ ht _; exact ⟨ht, rfl⟩
  | seq s1 s2 ih1 ih2 =>
    intro Γ Γ' a ρ h hc hext ht hl
    simp only [checkS] at h
    cases h1 : checkS Γ s1 with
    | error e => simp [h1] at h
    | ok p1 =>
      obtain ⟨Γ1, a1⟩ := p1
      cases h2 : checkS Γ1 s2 with
      | error e => simp [h1, h2] at h
      | ok p2 =>
        obtain ⟨Γ2, a2⟩ := p2
        simp only [h1, h2] at h; cases h
        simp only [issuesS, envAfter_ok h1, List.append_eq_nil_iff] at hc
        have hext1 : ExtT Γ1 G := (checkS_ext s2 Γ1 _ a2 h2 hc.2).trans hext
        have r1 := ih1 Γ Γ1 a1 ρ h1 hc.1 hext1 ht hl
        simp only [execS]
        cases hr : execS s1 ρ with
        | error er => rw [hr] at r1; exact r1
        | ok ρ1 =>
          rw [hr] at r1
          have hl1 : LvOK Γ1 ρ1 := by
            intro i w hi
            rw [checkS_lvs s1 Γ Γ1 a1 h1] at hi
            rw [r1.2]; exact hl i w hi
          have r2 := ih2 Γ1 _ a2 ρ1 h2 hc.2 hext r1.1 hl1
          simp only
          cases hr2 : execS s2 ρ1 with
          | error er => rw [hr2] at r2; exact r2
          | ok ρ2 => rw [hr2] at r2; exact ⟨r2.1, by rw [r2.2, r1.2]⟩
  | asg tgt e =>
    intro Γ Γ' a ρ h hc hext ht hl
    obtain ⟨_, hΓ, tt, te, hct, hce, hr⟩ := checkS_asg_inv h
    rw [hΓ] at hext
    simp only [issuesS, List.append_eq_nil_iff] at hc
    obtain ⟨hit, hie⟩ := hc
    have henv := envOK_of hext ht hl
    have := execAsg_safe Γ ρ henv hct hce hr hit hie
    simp only [execS]
    cases hx : execAsg ρ tgt e with
    | error er => rw [hx] at this; exact this
    | ok ρ' => rw [hx] at this; exact ⟨TmpOK.congr this.2 ht, this.1⟩
  | tasg t e =>
    intro Γ Γ' a ρ h hc hext ht hl
    obtain ⟨te, he, rfl, _⟩ := checkS_tasg_inv h
    simp only [issuesS, he, annOf_ok, List.append_eq_nil_iff] at hc
    obtain ⟨⟨hie, _⟩, hsoft⟩ := hc
    have hext0 : ExtT Γ G := by
      have := checkS_ext (.tasg t e) Γ _ a h (by
        simp only [issuesS, he, annOf_ok, List.append_eq_nil_iff]; exact ⟨⟨hie, by assumption⟩, hsoft⟩)
      exact this.trans hext
    have henv := envOK_of hext0 ht hl
    have hv := expr_safe Γ ρ henv e te he hie
    simp only [execS]
    cases hx : evalPy ρ e with
    | error er => rw [hx] at hv; exact hv
    | ok v =>
      rw [hx] at hv
      refine ⟨?_, rfl⟩
      intro t' w ex v' hg hr
      simp only [Rho.setTmp, List.lookup_cons] at hr
      by_cases htt : (t' == t) = true
      · simp only [htt] at hr; cases hr
        have ht' : t' = t := by simpa using htt
        subst ht'
        have hg' := hext t' (te.ann.w, te.ann.ex) (by rw [lookup_setTmp]; simp)
        rw [hg'] at hg; cases hg
        cases v with
        | bits b => exact ⟨hv.1, hv.2.1, hv.2.2⟩
        | int k =>
          obtain ⟨h0, hk, _⟩ := hv
          refine ⟨?_, hk, fun _ v hv' => by simp at hv'⟩
          cases hex : te.ann.ex
          · rfl
          · simp only [hex, h0, Bool.not_false, Bool.and_self, ↓reduceIte] at hsoft
            cases hsoft
      · have : (t' == t) = false := by simpa using htt
        simp only [this] at hr
        exact ht t' w ex v' hg hr
  | ifs c b o ihb iho =>
    intro Γ Γ' a ρ h hc hext ht hl
    simp only [checkS] at h
    cases hcc : checkE Γ c with
    | error e => simp [hcc] at h
    | ok tc =>
      cases h1 : checkS Γ b with
      | error e => simp [hcc, h1] at h
      | ok p1 =>
        obtain ⟨Γ1, a1⟩ := p1
        cases h2 : checkS Γ1 o with
        | error e => simp [hcc, h1, h2] at h
        | ok p2 =>
          obtain ⟨Γ2, a2⟩ := p2
          simp only [hcc, h1, h2] at h; cases h
          simp only [issuesS, envAfter_ok h1, List.append_eq_nil_iff, posIssues] at hc
          obtain ⟨⟨hpc, hcb⟩, hco⟩ := hc
          have hext1 : ExtT Γ1 G := (checkS_ext o Γ1 _ a2 h2 hco).trans hext
          have hext0 : ExtT Γ G := (checkS_ext b Γ Γ1 a1 h1 hcb).trans hext1
          have henv := envOK_of hext0 ht hl
          have hcond := pos_noWidthErr Γ ρ henv hcc hpc
          simp only [execS]
          cases hx : evalPy ρ c with
          | error er => rw [hx] at hcond; exact hcond
          | ok vc =>
            simp only
            split
            · exact ihb Γ Γ1 a1 ρ h1 hcb hext1 ht hl
            · have hl1 : LvOK Γ1 ρ := by
                intro i w hi
                rw [checkS_lvs b Γ Γ1 a1 h1] at hi
                exact hl i w hi
              exact iho Γ1 _ a2 ρ h2 hco hext ht hl1
  | for_ i a b c body ih =>
    intro Γ Γ' as ρ h hc hext ht hl
    simp only [checkS] at h
    split at h
    · cases h
    · next hstart =>
      split at h
      · cases h
      · next hstop =>
        split at h
        · cases h
        · cases h1 : checkS { Γ with lvs := (i, loopWidth a b c) :: Γ.lvs } body with
          | error e => simp [h1] at h
          | ok p1 =>
            obtain ⟨Γ1, a1⟩ := p1
            simp only [h1] at h; cases h
            simp only [issuesS] at hc
            have hext1 : ExtT Γ1 G := fun t p hp => hext t p hp
            simp only [execS]
            refine runLoop_safe (G := G) (Γ := Γ) (w := loopWidth a b c) ?_ _ ρ ?_ ht hl
            · intro ρ' ht' hl'
              exact ih _ Γ1 a1 ρ' h1 hc hext1 ht' hl'
            · intro k hk
              exact loop_fits a b c (by omega) (by omega) k hk

end PV.TC
