import PymtlVerif.Proofs.PipeSpec
import PymtlVerif.Proofs.PipeGhost
/-!
LEVEL 3, part 0: consequences of `Runs` (each of the first `N` ISA steps is the uniform step `U.next`),
and how the program-order indices of the stages move with the stall / squash signals.
-/
namespace PV.Pipe
open PV.TinyRV0 (W32 Mem loadWord storeWord rget rset)

theorem runs_step {p : Prog} {N : Nat} (h : Runs p N) {j : Nat} (hj : j < N) :
    isaAt p (j + 1) = U.next (isaAt p j) (wordAt p j) ∧ RowOk (isaAt p j) (wordAt p j) := by
  obtain ⟨⟨s', hs⟩, hw⟩ := h j hj
  have h1 : isaAt p (j + 1) = s' := by simp [isaAt, hs]
  unfold TinyRV0.step TinyRV0.fetch at hs
  split at hs
  · next ins hf =>
    split at hf
    · split at hf
      · next ins' hd =>
        cases hf
        rw [hw] at hd
        obtain ⟨a, b⟩ := exec_uniform _ _ _ _ hd hs
        exact ⟨h1.trans a, b⟩
      · cases hf
    · cases hf
  · cases hs

theorem regs_len {p : Prog} {N : Nat} (h : Runs p N) : ∀ j, j ≤ N → (isaAt p j).regs.length = 32
  | 0, _ => by simp [isaAt, TinyRV0.State.init]
  | j + 1, hj => by
    rw [(runs_step h (by omega : j < N)).1]
    simp only [U.next]
    split
    · rw [TinyRV0.rset_length]; exact regs_len h j (by omega)
    · exact regs_len h j (by omega)

theorem regs_x0 {p : Prog} {N : Nat} (h : Runs p N) : ∀ j, j ≤ N → rget (isaAt p j).regs 0 = 0
  | 0, _ => by simp [isaAt, TinyRV0.State.init, rget]
  | j + 1, hj => by
    rw [(runs_step h (by omega : j < N)).1]
    simp only [U.next]
    split
    · rw [TinyRV0.rget_rset_zero]; exact regs_x0 h j (by omega)
    · exact regs_x0 h j (by omega)

/-- register read of the next ISA state -/
theorem regs_next {p : Prog} {N : Nat} (h : Runs p N) {j : Nat} (hj : j < N) (r : Nat) :
    rget (isaAt p (j + 1)).regs r =
      if (U.cs (wordAt p j)).rf_wen_pending = true ∧ rd (wordAt p j) = r ∧ r ≠ 0
      then U.wb (isaAt p j) (wordAt p j) else rget (isaAt p j).regs r := by
  rw [(runs_step h hj).1]
  simp only [U.next]
  have hl := regs_len h j (by omega)
  have hr : rd (wordAt p j) < 32 := by unfold rd; omega
  by_cases hw : (U.cs (wordAt p j)).rf_wen_pending = true
  · rw [if_pos hw, TinyRV0.rget_rset]
    by_cases he : rd (wordAt p j) = r
    · subst he
      by_cases h0 : rd (wordAt p j) = 0
      · simp [h0]
      · simp [h0, hw, hl, hr]
    · simp [he]
  · simp [hw]

/-! ### index movement (no reset) -/

section idx
variable (s : State) (i : EnvIn) (c : Nat) (hr : i.reset = false)
include hr

/-- number of commits after the cycle -/
abbrev c' (s : State) (i : EnvIn) (c : Nat) : Nat := c + (commit_inst s i).toNat

theorem iM_next : iM (next s i) (c' s i c) = if stall_M s i then iM s c else iX s c := by
  obtain ⟨_, _, _, hM, hW, _⟩ := next_vals s i hr
  have h1 := stall_M_of_stall_W s i
  have h2 := stall_W_val s i
  have h3 := stall_M_val s i
  simp only [iM, iX, c', hW, commit_inst, reg_en_W, next_val_M]
  rcases Bool.eq_false_or_eq_true (stall_M s i) with h0 | h0 <;> rcases Bool.eq_false_or_eq_true (stall_W s i) with h1 | h1 <;> rcases Bool.eq_false_or_eq_true (s.val_W) with h2 | h2 <;> rcases Bool.eq_false_or_eq_true (s.val_M) with h3 | h3 <;>
    simp_all

theorem iX_next : iX (next s i) (c' s i c) = if stall_X s i then iX s c else iD s c := by
  obtain ⟨_, _, _, hM, _, _⟩ := next_vals s i hr
  have hm := iM_next s i c hr
  have h1 := stall_X_of_stall_M s i
  have h3 := stall_X_val s i
  have h4 := stall_M_val s i
  unfold iX at *
  rw [hm, hM]
  simp only [iD, iX, reg_en_M, next_val_X]
  rcases Bool.eq_false_or_eq_true (stall_M s i) with h0 | h0 <;> rcases Bool.eq_false_or_eq_true (stall_X s i) with h1 | h1 <;> rcases Bool.eq_false_or_eq_true (s.val_X) with h2 | h2 <;> rcases Bool.eq_false_or_eq_true (s.val_M) with h3 | h3 <;>
    simp_all <;> omega

theorem iD_next : iD (next s i) (c' s i c) =
    if reg_en_D s i && !osquash_X s i then iF s c else iD s c := by
  obtain ⟨_, _, hX, _, _, _⟩ := next_vals s i hr
  have hx := iX_next s i c hr
  have h1 := stall_D_of_stall_X s i
  have h3 := stall_X_val s i
  have h4 := stall_D_val s i
  have h5 : osquash_X s i = true → s.val_X = true ∧ stall_X s i = false := fun h =>
    ⟨(osquash_X_origin s i h).1, (osquash_X_origin s i h).2.1⟩
  unfold iD at *
  rw [hx, hX]
  simp only [iF, iD, reg_en_X, reg_en_D, next_val_D, squash_D]
  rcases Bool.eq_false_or_eq_true (stall_D s i) with h0 | h0 <;> rcases Bool.eq_false_or_eq_true (stall_X s i) with h1 | h1 <;> rcases Bool.eq_false_or_eq_true (s.val_X) with h2 | h2 <;> rcases Bool.eq_false_or_eq_true (s.val_D) with h3 | h3 <;> rcases Bool.eq_false_or_eq_true (osquash_X s i) with h4 | h4 <;>
    simp_all <;> omega

theorem iF_next : iF (next s i) (c' s i c) =
    if reg_en_D s i then (if osquash_X s i then iD s c else iF s c) + (next_val_F s i).toNat else iF s c := by
  obtain ⟨_, hD, _, _, _, _⟩ := next_vals s i hr
  have hd := iD_next s i c hr
  unfold iF at *
  rw [hd, hD]
  rcases Bool.eq_false_or_eq_true (reg_en_D s i) with h0 | h0 <;> rcases Bool.eq_false_or_eq_true (osquash_X s i) with h1 | h1 <;> simp_all

end idx

end PV.Pipe
