/-! # C02 — property theorems (stub: not built yet) -/
namespace PV.C02
end PV.C02
