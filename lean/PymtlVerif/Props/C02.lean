import PymtlVerif.Proofs.Rtl
import PymtlVerif.Proofs.Kahn
/-!
# C02 — within a cycle every reader runs after its writer, in every scheduler

* the overlap test used for pairing writers with readers is exact at the bit level
  (`Connectable._overlap` / parent-chain walk ⇔ sharing a bit: `overlap_spec`, `rngsOverlap_spec`);
* the schedule check the driver applies to every real schedule (`topoB`) says precisely "each block exactly
  where every block that writes a bit it reads comes earlier" (`topo_iff_writer_before_reader`);
* Kahn's algorithm, with an *arbitrary* tie-break (random shuffle in SimpleSchedulePass, priority queue in
  HeuristicTopoPass), never emits a block twice, puts every edge's source before its target, and when it
  stops early the leftovers contain a cycle (`kahn_sound`, `kahn_leftover`) — the UpblkCyclicError case.

The method-constraint search of `GenDAGPass._process_methods` is modelled in `Model/Methods.lean` and its
theorems are in `Props/C02m.lean` (namespace `PV.C02m`).
-/
namespace PV.C02
open PV.Rtl

/-- two non-empty ranges overlap (the code's `_overlap` on slices of one signal) iff they share a bit -/
theorem overlap_spec (a b : Rng) (ha : 0 < a.w) (hb : 0 < b.w) :
    a.overlap b = true ↔ ∃ v, a.has v ∧ b.has v := by
  constructor
  · intro h
    have := rngsOverlap_true [a] [b] (by simpa using ha) (by simpa using hb) (by simpa [rngsOverlap] using h)
    obtain ⟨v, ⟨x, hx, hxv⟩, ⟨y, hy, hyv⟩⟩ := this
    simp only [List.mem_singleton] at hx hy
    subst hx hy
    exact ⟨v, hxv, hyv⟩
  · intro ⟨v, h1, h2⟩; exact overlap_of_common a b v h1 h2

/-- footprint lists overlap iff some bit is in both (whole signals, fields, nested fields and slices are
all bit ranges of the top-level signal) -/
theorem rngsOverlap_spec (xs ys : List Rng) (hx : ∀ r ∈ xs, 0 < r.w) (hy : ∀ r ∈ ys, 0 < r.w) :
    rngsOverlap xs ys = true ↔ ∃ v, inRngs xs v ∧ inRngs ys v := by
  constructor
  · exact rngsOverlap_true xs ys hx hy
  · intro ⟨v, h1, h2⟩
    cases h : rngsOverlap xs ys with
    | true => rfl
    | false => exact absurd h2 (rngsOverlap_false xs ys h v h1)

theorem rngsOverlap_comm (xs ys : List Rng) : rngsOverlap xs ys = rngsOverlap ys xs := by
  have hc : ∀ a b : Rng, a.overlap b = b.overlap a := by
    intro a b; unfold Rng.overlap
    rw [Bool.eq_iff_iff]; simp only [Bool.and_eq_true, beq_iff_eq, decide_eq_true_eq]
    constructor <;> (intro ⟨⟨h1, h2⟩, h3⟩; exact ⟨⟨h1.symm, h3⟩, h2⟩)
  rw [Bool.eq_iff_iff]
  unfold rngsOverlap
  simp only [List.any_eq_true]
  constructor
  · intro ⟨x, hx, y, hy, h⟩; exact ⟨y, hy, x, hx, by rw [hc]; exact h⟩
  · intro ⟨y, hy, x, hx, h⟩; exact ⟨x, hx, y, hy, by rw [hc]; exact h⟩

/-- a schedule passes the check iff, for every two different positions, a block that writes a bit the
other reads stands earlier — "every reader runs after its writer", each block being a list position
(exactly once) -/
theorem topo_iff_writer_before_reader (bs : List Blk) :
    topoB bs = true ↔
      ∀ (i j : Nat) (hi : i < bs.length) (hj : j < bs.length), i ≠ j →
        rngsOverlap bs[i].writes bs[j].reads = true → i < j := by
  unfold topoB
  rw [pairwiseB_iff, List.pairwise_iff_getElem]
  constructor
  · intro h i j hi hj hne hov
    rcases Nat.lt_or_gt_of_ne hne with hlt | hgt
    · exact hlt
    · exfalso
      have := h j i hj hi hgt
      rw [rngsOverlap_comm] at this
      simp [hov] at this
  · intro h i j hi hj hlt
    cases hov : rngsOverlap bs[i].reads bs[j].writes with
    | false => rfl
    | true =>
      exfalso
      rw [rngsOverlap_comm] at hov
      have := h j i hj hi (by omega) hov
      omega

/-- Kahn's algorithm with any tie-break: no duplicates, every scheduled edge in order -/
theorem kahn_sound {α : Type} [DecidableEq α] (pick : List α → Nat) (V : List α) (E : List (α × α)) (fuel : Nat) :
    (PV.Kahn.kahn pick V E fuel []).Nodup ∧
    ∀ e ∈ E, e.2 ∈ PV.Kahn.kahn pick V E fuel [] →
      ∃ pre post, PV.Kahn.kahn pick V E fuel [] = pre ++ e.1 :: post ∧ e.2 ∈ post :=
  PV.Kahn.kahn_sound pick V E fuel

/-- with fuel |V|: every vertex is emitted unless the leftovers are closed under predecessors (a cycle) -/
theorem kahn_leftover {α : Type} [DecidableEq α] (pick : List α → Nat) (V : List α) (E : List (α × α)) :
    ∀ v ∈ V, v ∉ PV.Kahn.kahn pick V E V.length [] →
      ∃ e ∈ E, e.2 = v ∧ e.1 ∉ PV.Kahn.kahn pick V E V.length [] :=
  PV.Kahn.kahn_leftover pick V E V.length [] trivial (by simp) (by simp)

/-! ## non-vacuity -/
example : Rng.overlap ⟨0, 0, 6⟩ ⟨0, 4, 4⟩ = true ∧ Rng.overlap ⟨0, 0, 4⟩ ⟨0, 4, 4⟩ = false := by decide
example : PV.Kahn.kahn (fun _ => 0) [1, 2, 3] [(1, 2), (2, 3)] 3 [] = [1, 2, 3] := by decide
example : PV.Kahn.kahn (fun _ => 0) [1, 2, 3] [(1, 2), (2, 3), (3, 2)] 3 [] = [1] := by decide

end PV.C02
