import PymtlVerif.Proofs.SDeclYosys
import PymtlVerif.Proofs.SDeclGen
/-!
# C03 / C12 — declarations, instances and operand rendering of the structural translators

Property theorems about `Model/SDecl.lean` (the model of `StructuralTranslatorL1…L4.translate_decls`, of the `rtlir_tr_*` hooks of
`VStructuralTranslatorL1…L4` / `YosysStructuralTranslatorL1…L4` and of `gen_signal_expr`), for every structural table.

* `decls_cover`, `decl_dims_in_order` — the declarations the SystemVerilog backend emits are exactly the objects of the table (one
  per port / wire / interface member / sub-component port, in order), each under the `__`-joined names of its levels, with the
  list dimensions of the levels concatenated outermost first.
* `ifc_decl_matches_subcomp`, `inst_binds_child_ports`, `insts_cover_elements` — where the module's own interface declaration
  does not raise, it equals what the parent derives for the same interface; every instance block binds every declared port of
  the child exactly once, in order, to the wire declared for it (same packed type, dimensions = the slot's, then the port's)
  selected by the instance's index tuple; there is exactly one instance per index tuple.
* `tokens_in_order` — the token stack of `gen_signal_expr` yields, outermost object first, the attribute and then its list
  indices in their own order.
* `gen_signal_expr_path` — on a path that is well typed in the table `gen_signal_expr` builds the node classes of `OPath.sexp`.
* `render_path`, `render_queue_empty`, `operand_denotes` — the text of an operand is the declared identifier followed by all list
  indices in declaration order and the selects into the data type; read over the environment of unpacked arrays that the
  declarations create it denotes the same value as the PyMTL object path (`denoteSV (render p) = denotePy p`); the index queue
  is left empty.  `transposed_operand_differs`: the statement is false for a transposed index order.
* `names_injective`, `decl_idents_nodup`, `inst_names_injective` — under `Names.okName` different objects get different identifiers.
* Yosys: `ywire_dims_in_order`, `yconn_pairs_same_element`, `yrender_path`.
-/
namespace PV.C03d
open PV.SDecl
open PV.SV (PTy Fields)
open PV.Names (Seg flatId okName flatId_inj_aux)

/-! ## declarations -/

/-- **Declarations cover exactly the objects of the table**, in order. -/
theorem decls_cover (T : Table) (ds : List Decl) (h : vAllDecls T = some ds) : ds = (families T).map Family.decl :=
  vAllDecls_eq T ds h

/-- every declared variable carries the `__`-joined names of its levels and the concatenation of their list dimensions,
outermost level first, inside a level in the order of `get_dim_sizes()` -/
theorem decl_dims_in_order (T : Table) (ds : List Decl) (h : vAllDecls T = some ds) (d : Decl) (hd : d ∈ ds) :
    ∃ f ∈ families T, d.ident = flatId (f.levels.map fun l => Seg.name l.name) ∧ d.dims = f.levels.flatMap (·.dims) ∧ d.ty = f.ty := by
  rw [decls_cover T ds h] at hd
  obtain ⟨f, hf, rfl⟩ := List.mem_map.mp hd
  exact ⟨f, hf, rfl, rfl, rfl⟩

example :
    let T : Table := ⟨[⟨"in_", [2, 3], .input, .vec 8⟩], [⟨"w", [3, 2], .wire, .vec 4⟩],
      [⟨"ifc", [2], .port "msg" [3] .input (.vec 4) (.ifc "sub" [] (.port "ack" [] .output (.vec 1) .nil) .nil)⟩], []⟩
    (vAllDecls T).map (fun ds => ds.map fun d => (d.ident, d.dims)) =
      some [("in_", [2, 3]), ("ifc__msg", [2, 3]), ("ifc__sub__ack", [2]), ("w", [3, 2])] := by decide

/-- the quirk of `rtlir_tr_interface_port_decl`: a list of ports inside a nested interface raises -/
example : vIfcDecl ⟨"ifc", [], .ifc "sub" [] (.port "v" [2] .output (.vec 1) .nil) .nil⟩ = none := by decide

/-! ## instances -/

/-- **The module's own interface declarations = the parent's view of them** (where the former do not raise). -/
theorem ifc_decl_matches_subcomp (C : Table) (k : Sub) (hp : k.ports = C.ports) (hi : k.ifcs = C.ifcs)
    (ds : List Decl) (hds : vModulePorts C = some ds) : vSubDescs k = ds := by
  rw [vSubDescs_eq, vModulePorts_eq C ds hds, portFams, hp, hi]

/-- **Every port of the child is bound exactly once, to the wire declared for it.**  `ds` = the ports the child module declares.
The wires the parent declares for the slot are, port by port, `<slot>__<port>` with the child's packed type and the dimensions
of the slot followed by the port's own; every instance block binds, port by port, the formal `<port>` to that wire selected by
the instance's index tuple, which is an index tuple of the slot. -/
theorem inst_binds_child_ports (C : Table) (k : Sub) (hp : k.ports = C.ports) (hi : k.ifcs = C.ifcs)
    (ds : List Decl) (hds : vModulePorts C = some ds) :
    vSubWires k = ds.map (fun d => ⟨.wire, Seg.name k.name :: d.path, d.ty, k.dims ++ d.dims⟩) ∧
    ∀ I ∈ vSubInsts k, ∃ ix, IdxLt ix k.dims ∧ I.name = Seg.name k.name :: ix.map Seg.idx ∧
      I.conns.map (fun c => (c.formal, c.wire, c.idx)) = ds.map (fun d => (d.ident, Seg.name k.name :: d.path, ix)) := by
  have hd := ifc_decl_matches_subcomp C k hp hi ds hds
  refine ⟨by simp [vSubWires, hd], ?_⟩
  intro I hI
  simp only [vSubInsts, List.mem_map] at hI
  obtain ⟨⟨ix, m⟩, hz, rfl⟩ := hI
  refine ⟨ix, (mem_allIdx _ _).mp (List.of_mem_zip hz).1, rfl, ?_⟩
  simp [vInst, hd, Decl.ident, Function.comp_def]

/-- "exactly once": the formals of a port map are the declared identifiers of the child, so they are distinct when those are -/
theorem inst_formals_nodup (C : Table) (k : Sub) (hp : k.ports = C.ports) (hi : k.ifcs = C.ifcs)
    (ds : List Decl) (hds : vModulePorts C = some ds) (hn : (ds.map Decl.ident).Nodup) :
    ∀ I ∈ vSubInsts k, (I.conns.map (·.formal)).Nodup := by
  intro I hI
  obtain ⟨ix, _, _, h⟩ := (inst_binds_child_ports C k hp hi ds hds).2 I hI
  have : I.conns.map (·.formal) = ds.map Decl.ident := by
    have := congrArg (List.map (·.1)) h
    simpa [List.map_map, Function.comp_def] using this
  rw [this]; exact hn

/-- **one instance per element**: the instance names are `<slot>__i__j` for the index tuples of the slot, each exactly once,
in row-major order -/
theorem insts_cover_elements (k : Sub) (hm : k.mods.length = (allIdx k.dims).length) :
    (vSubInsts k).map (·.name) = (allIdx k.dims).map (fun ix => Seg.name k.name :: ix.map Seg.idx) ∧
    (allIdx k.dims).Nodup ∧ ∀ ix, ix ∈ allIdx k.dims ↔ IdxLt ix k.dims := by
  refine ⟨?_, allIdx_nodup _, mem_allIdx _⟩
  simp only [vSubInsts, List.map_map, Function.comp_def, vInst]
  have : ∀ (a : List (List Nat)) (b : List String), b.length = a.length →
      (a.zip b).map (fun p => Seg.name k.name :: p.1.map Seg.idx) = a.map fun ix => Seg.name k.name :: ix.map Seg.idx := by
    intro a
    induction a with
    | nil => intro b _; simp
    | cons x a ih =>
      intro b hb
      cases b with
      | nil => simp at hb
      | cons y b => simp [ih b (by simpa using hb)]
  exact this _ _ hm

example :
    let k : Sub := ⟨"c", [2, 3], ["M0", "M1", "M2", "M3", "M4", "M5"], [⟨"p", [2], .input, .vec 4⟩], []⟩
    ((vSubWires k).map fun d => (d.ident, d.dims)) = [("c__p", [2, 3, 2])] ∧
    ((vSubInsts k).map fun I => (flatId I.name, I.mod, I.conns.map fun c => (c.formal, flatId c.wire, c.idx))) =
      [("c__0__0", "M0", [("p", "c__p", [0, 0])]), ("c__0__1", "M1", [("p", "c__p", [0, 1])]), ("c__0__2", "M2", [("p", "c__p", [0, 2])]),
       ("c__1__0", "M3", [("p", "c__p", [1, 0])]), ("c__1__1", "M4", [("p", "c__p", [1, 1])]), ("c__1__2", "M5", [("p", "c__p", [1, 2])])] := by
  decide

/-! ## operands -/

/-- **Token order of `gen_signal_expr`**: outermost object first; per object its attribute, then its list indices in their own
order; the slice last. -/
theorem tokens_in_order (sl : Option (Nat × Nat)) (frames : List Frame) :
    tokens sl frames = (frames.reverse.flatMap fun f => Tk.attr f.name :: f.idxs.map Tk.idx) ++ sliceTk sl :=
  tokens_eq sl frames

/-- **`gen_signal_expr` on a well-typed object path**: `construct_attr` / `construct_index` / `construct_slice`, driven by the
RTLIR types of the table, build exactly `OPath.sexp` — the expression the rendering theorems are about. -/
theorem gen_signal_expr_path (T : Table) (p : OPath) (h : p.TypedIn T) (sl : Option (Nat × Nat)) (frames : List Frame)
    (ht : tokens sl frames = p.toks) : ∃ t, genSExp T sl frames = some (p.sexp, t) := by
  unfold genSExp
  rw [ht]
  exact constructAll_opath T p h

example :
    let T : Table := ⟨[], [], [], [⟨"c", [2, 3], ["M", "M", "M", "M", "M", "M"], [⟨"p", [2], .input, .vec 4⟩], []⟩]⟩
    let p : OPath := ⟨some ("c", [0, 2]), [], "p", [1], false, [.slice 0 4]⟩
    tokens (some (0, 4)) [⟨"p", [1]⟩, ⟨"c", [0, 2]⟩] = p.toks ∧
    (genSExp T (some (0, 4)) [⟨"p", [1]⟩, ⟨"c", [0, 2]⟩]).map (·.1) = some p.sexp := by decide

/-- **The text of an operand.** -/
theorem render_path (p : OPath) (hw : p.WireLocal) :
    (render p.sexp).map (·.ref) = some ⟨p.names, p.allIdx.map Sel.idx ++ p.packed.map PStep.sel⟩ := by
  simp [render_opath p hw]

/-- the shared index queue `_rtlir_tr_unpacked_q` is empty after every operand (nothing leaks into the next one) -/
theorem render_queue_empty (p : OPath) (hw : p.WireLocal) : (render p.sexp).map (·.q) = some [] := by
  simp [render_opath p hw]

theorem famOf_eq (fams : List Family) (f : Family) (hf : f ∈ fams)
    (huniq : ∀ g ∈ fams, flatId g.names = flatId f.names → g = f) : famOf fams (flatId f.names) = some f := by
  unfold famOf
  induction fams with
  | nil => cases hf
  | cons g gs ih =>
    simp only [List.find?_cons]
    by_cases hg : flatId g.names = flatId f.names
    · simp [huniq g (by simp) hg]
    · have : (flatId g.names == flatId f.names) = false := by simpa using hg
      rw [this]
      rcases List.mem_cons.mp hf with rfl | hf'
      · exact (hg rfl).elim
      · exact ih hf' (fun g' hg' => huniq g' (List.mem_cons_of_mem _ hg'))

/-- **`denoteSV (render p) = denotePy p`.**  `fams` are the objects the module declares variables for, `ρ` gives every PyMTL
signal object its value; the SystemVerilog side reads the rendered reference over `envOf fams ρ`: element `ix` of the array
declared for a family stands for the object reached by cutting `ix` level by level — the meaning the declarations
(`decls_cover`) and the port maps (`inst_binds_child_ports`) give it. -/
theorem operand_denotes (fams : List Family) (ρ : List Seg → Option PVal) (p : OPath) (f : Family) (hf : f ∈ fams)
    (hin : InFamily p f) (huniq : ∀ g ∈ fams, flatId g.names = flatId f.names → g = f) (hw : p.WireLocal)
    (hok : ∀ v, ρ p.objPath = some v → StepsOk v p.packed) :
    ∃ st, render p.sexp = some st ∧ denoteSV (dimsOf fams) (envOf fams ρ) st.ref = denotePy ρ p := by
  refine ⟨_, render_opath p hw, ?_⟩
  have hid : (Ref.mk p.names (p.allIdx.map Sel.idx ++ p.packed.map PStep.sel)).ident = flatId f.names := by
    have : f.names = p.names.map Seg.name := by
      unfold Family.names OPath.names
      have := congrArg (List.map Seg.name) hin.1
      simpa [List.map_map, Function.comp_def] using this
    rw [this, flatId_names]; rfl
  have hfam := famOf_eq fams f hf huniq
  unfold denoteSV dimsOf envOf denotePy
  simp only [hid, hfam, Option.map_some, Option.bind_some, dims_length p f hin, splitSels_map_idx, objPath_eq p f hin]
  cases hv : ρ p.objPath with
  | none => rfl
  | some v => simpa using stepsSV_sel v p.packed (hok v hv)

/-- the uniqueness hypothesis of `operand_denotes` follows from well-formed names and pairwise different name lists -/
theorem names_injective (f g : Family) (hf : ∀ l ∈ f.levels, okName l.name = true) (hg : ∀ l ∈ g.levels, okName l.name = true)
    (h : flatId f.names = flatId g.names) : f.names = g.names := by
  apply flatId_inj_aux
  · intro s hs; obtain ⟨l, hl, rfl⟩ := List.mem_map.mp hs; exact hf l hl
  · intro s hs; obtain ⟨l, hl, rfl⟩ := List.mem_map.mp hs; exact hg l hl
  · rw [h]

/-- **every identifier is declared once**: well-formed names and pairwise different objects -/
theorem decl_idents_nodup (fams : List Family) (hok : ∀ f ∈ fams, ∀ l ∈ f.levels, okName l.name = true)
    (hd : (fams.map Family.names).Nodup) : ((fams.map Family.decl).map Decl.ident).Nodup := by
  induction fams with
  | nil => simp
  | cons f fs ih =>
    have hd' := List.nodup_cons.mp hd
    simp only [List.map_cons, List.nodup_cons, List.mem_map, not_exists, not_and]
    refine ⟨?_, ih (fun g hg => hok g (List.mem_cons_of_mem _ hg)) hd'.2⟩
    rintro _ ⟨g, hg, rfl⟩ e
    have := names_injective g f (hok g (List.mem_cons_of_mem _ hg)) (hok f (by simp)) e
    exact hd'.1 (List.mem_map.mpr ⟨g, hg, this⟩)

theorem uniq_of_wf (fams : List Family) (hok : ∀ f ∈ fams, ∀ l ∈ f.levels, okName l.name = true)
    (hd : (fams.map Family.names).Nodup) (f : Family) (hf : f ∈ fams) :
    ∀ g ∈ fams, flatId g.names = flatId f.names → g = f := by
  intro g hg e
  have hn := names_injective g f (hok g hg) (hok f hf) e
  induction fams with
  | nil => cases hf
  | cons a as ih =>
    have hd' := List.nodup_cons.mp hd
    rcases List.mem_cons.mp hg with rfl | hg' <;> rcases List.mem_cons.mp hf with rfl | hf'
    · rfl
    · exact (hd'.1 (List.mem_map.mpr ⟨f, hf', hn.symm⟩)).elim
    · exact (hd'.1 (List.mem_map.mpr ⟨g, hg', hn⟩)).elim
    · exact ih (fun x hx => hok x (List.mem_cons_of_mem _ hx)) hd'.2 hf' hg'

/-- instance names never collide with each other (slot names well formed) -/
theorem inst_names_injective (a b : String) (ix jx : List Nat) (ha : okName a = true) (hb : okName b = true)
    (h : flatId (Seg.name a :: ix.map Seg.idx) = flatId (Seg.name b :: jx.map Seg.idx)) : a = b ∧ ix = jx := by
  have hok : ∀ (n : String) (l : List Nat), okName n = true → ∀ s ∈ Seg.name n :: l.map Seg.idx, s.ok = true := by
    intro n l hn s hs
    rcases List.mem_cons.mp hs with rfl | hs
    · exact hn
    · obtain ⟨i, _, rfl⟩ := List.mem_map.mp hs; rfl
  have := flatId_inj_aux (Seg.name a :: ix.map Seg.idx) (Seg.name b :: jx.map Seg.idx) (hok a ix ha) (hok b jx hb) (by rw [h])
  simp only [List.cons.injEq, Seg.name.injEq] at this
  refine ⟨this.1, ?_⟩
  have inj : ∀ (x y : List Nat), x.map Seg.idx = y.map Seg.idx → x = y := by
    intro x
    induction x with
    | nil => intro y hy; cases y with
      | nil => rfl
      | cons => simp at hy
    | cons i x ih => intro y hy; cases y with
      | nil => simp at hy
      | cons j y =>
        simp only [List.map_cons, List.cons.injEq, Seg.idx.injEq] at hy
        rw [hy.1, ih y hy.2]
  exact inj _ _ this.2

/-! ### non-vacuity: a 2 × 3 list of sub-components with a 2-element port list; the transposed index is a different object -/

def exFam : Family := ⟨[⟨"c", [2, 3]⟩, ⟨"p", [2]⟩], .wire, .vec 4⟩

def exFams : List Family := [exFam, ⟨[⟨"q", []⟩], .input, .vec 4⟩]

def exPath : OPath := ⟨some ("c", [0, 2]), [], "p", [1], false, [.slice 0 4]⟩

/-- every object carries the number spelled by its own indices -/
def exRho : List Seg → Option PVal
  | [.name "c", .idx i, .idx j, .name "p", .idx k] => some (.bits 4 (i * 6 + j * 2 + k))
  | _ => none

/-- width and value of a vector (for comparing values in the examples) -/
def bitsOfVal : Option PVal → Option (Nat × Nat)
  | some (.bits w v) => some (w, v)
  | _ => none

example : (render exPath.sexp).map (fun s => (s.ref.ident, s.ref.sels, s.q)) =
    some ("c__p", [.idx 0, .idx 2, .idx 1, .rng 3 0], []) := by decide

example : (render exPath.sexp).map (fun s => bitsOfVal (denoteSV (dimsOf exFams) (envOf exFams exRho) s.ref)) = some (some (4, 5)) ∧
    bitsOfVal (denotePy exRho exPath) = some (4, 5) := by decide

/-- with the indices of the sub-component list transposed the reference reads another element (`c[2][0].p[1]`, which the
declaration `c__p [0:1][0:2][0:1]` does not even contain): the statement of `operand_denotes` is false for a transposed index
order -/
theorem transposed_operand_differs :
    denoteSV (dimsOf exFams) (envOf exFams exRho) ⟨["c", "p"], [.idx 2, .idx 0, .idx 1, .rng 3 0]⟩ ≠ denotePy exRho exPath := by
  intro h
  have := congrArg bitsOfVal h
  revert this
  decide

example : ∃ st, render exPath.sexp = some st ∧ denoteSV (dimsOf exFams) (envOf exFams exRho) st.ref = denotePy exRho exPath :=
  operand_denotes exFams exRho exPath exFam (by simp [exFams]) (by simp [InFamily, exPath, exFam, OPath.levels])
    (uniq_of_wf exFams (by decide) (by decide) exFam (by simp [exFams])) (by intro h; cases h)
    (by
      intro v hv
      have h : exRho exPath.objPath = some (.bits 4 5) := by rfl
      rw [h] at hv
      cases hv
      simp [StepsOk, StepOk, exPath])

/-! ## Yosys backend -/

/-- **Wire forms: list dimensions first, then the dimensions of the packed-array fields on the way, in order.** -/
theorem ywire_dims_in_order (s : Sig) : ∀ w ∈ (yOfSig s).wires,
    ∃ p ds, w.path = Seg.name s.name :: p ∧ DimsAlong s.ty p ds ∧ w.dims = s.dims ++ ds := by
  intro w hw
  simp only [yOfSig, List.mem_map] at hw
  obtain ⟨w', hw', rfl⟩ := hw
  obtain ⟨ds, hda, hd⟩ := yWires_dims s.ty s.dims w' hw'
  exact ⟨w'.path, ds, rfl, hda, hd⟩

/-- … and an enclosing list of interfaces / sub-components puts its own dimensions in front -/
theorem ywire_dims_wrapped (name : String) (dims : List Nat) (r : YRec) : ∀ w ∈ (yWrap name dims false r).wires,
    ∃ w' ∈ r.wires, w.path = Seg.name name :: w'.path ∧ w.dims = dims ++ w'.dims := by
  intro w hw
  simp only [yWrap, Bool.false_eq_true, if_false, List.mem_map] at hw
  obtain ⟨w', hw', rfl⟩ := hw
  exact ⟨w', hw', rfl, rfl⟩

/-- **Flat port ↔ wire form**: every emitted connection that is not a slice of a struct's packed vector pairs the flat port
`a__i__b__j` with element `[i][j]` (indices in the order in which they occur in the port's name) of the wire form `a__b`;
for ports, port lists, struct and packed-array fields, interfaces (without lists of interfaces inside: finding F25) and
sub-components. -/
theorem yconn_pairs_same_element :
    (∀ s : Sig, RecOk (yOfSig s)) ∧ (∀ e : IfcE, NoNestedLists e.ms → RecOk (yOfIfc e)) ∧
    (∀ k : Sub, (∀ e ∈ k.ifcs, NoNestedLists e.ms) → RecOk (yOfSub k)) :=
  ⟨yOfSig_ok, yOfIfc_ok, yOfSub_ok⟩

/-- **Yosys operand**: all names (struct fields included) joined by `__`, then all indices in order — the element
`yconn_pairs_same_element` connects the flat port of the same object with. -/
theorem yrender_path (p : OPath) :
    yRender p.sexp = ⟨p.names ++ fldNames p.packed, p.allIdx.map Sel.idx ++ nonFldSels p.packed⟩ :=
  yRender_opath p

example :
    let s : Sig := ⟨"in_", [2], .input, .struct "S" (.cons "ch" (.arr 3 (.vec 2)) (.cons "x" (.vec 4) .nil))⟩
    ((yOfSig s).wires.map fun w => (flatId w.path, w.dims, w.present)) =
      [("in___ch", [2, 3], false), ("in___x", [2], false), ("in_", [2], true)] ∧
    (((yOfSig s).conns.filter fun c => !c.present).map fun c => (flatId c.pid, flatId c.wid, c.idx)) =
      [("in___0__ch__0", "in___ch", [.idx 0, .idx 0]), ("in___0__ch__1", "in___ch", [.idx 0, .idx 1]),
       ("in___0__ch__2", "in___ch", [.idx 0, .idx 2]), ("in___0__x", "in___x", [.idx 0]),
       ("in___1__ch__0", "in___ch", [.idx 1, .idx 0]), ("in___1__ch__1", "in___ch", [.idx 1, .idx 1]),
       ("in___1__ch__2", "in___ch", [.idx 1, .idx 2]), ("in___1__x", "in___x", [.idx 1])] := by
  decide

example : yRender (OPath.sexp ⟨none, [], "in_", [1], false, [.fld "ch", .pidx 2]⟩) = ⟨["in_", "ch"], [.idx 1, .idx 2]⟩ := by decide

end PV.C03d
